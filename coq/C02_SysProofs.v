(* C02_SysProofs: invariants of the owners model C02_Model, for every op list under the
   environment hypotheses of strict mode, and the witnesses of what fails outside them. *)
From Coq Require Import List Bool Arith Lia.
From Muduo Require Import Conn_Model C02_Model.
Import ListNotations.

(* ---- lists ------------------------------------------------------------------------------------ *)
Lemma length_upd {A} (l : list A) i x : length (upd l i x) = length l.
Proof. revert i. induction l as [|y l IH]; intros [|i]; cbn; auto. Qed.

Lemma nth_upd_eq {A} (l : list A) i x : i < length l -> nth_error (upd l i x) i = Some x.
Proof.
  revert i. induction l as [|y l IH]; intros [|i] H; cbn in *; try lia; auto. apply IH. lia.
Qed.

Lemma nth_upd_neq {A} (l : list A) i j x : i <> j -> nth_error (upd l i x) j = nth_error l j.
Proof.
  revert i j. induction l as [|y l IH]; intros [|i] [|j] H; cbn; auto; try congruence.
Qed.

Lemma nth_some_lt {A} (l : list A) i x : nth_error l i = Some x -> i < length l.
Proof. intros H. apply nth_error_Some. congruence. Qed.

Lemma nth_app_new {A} (l : list A) x : nth_error (l ++ [x]) (length l) = Some x.
Proof. rewrite nth_error_app2 by lia. rewrite Nat.sub_diag. reflexivity. Qed.

Lemma nth_app_old {A} (l : list A) x i : i < length l -> nth_error (l ++ [x]) i = nth_error l i.
Proof. intros H. apply nth_error_app1, H. Qed.

Lemma upd_app_old {A} (l : list A) y i x : i < length l -> upd (l ++ [y]) i x = upd l i x ++ [y].
Proof.
  revert i. induction l as [|z l IH]; intros [|i] H; cbn in *; try lia; auto. f_equal. apply IH. lia.
Qed.

(* ---- accessors of the state transformers -------------------------------------------------------- *)
Lemma getc_put_eq s c k : c < length (s_conns s) -> getc (put s c k) c = Some k.
Proof. intros H. unfold getc, put. cbn. apply nth_upd_eq, H. Qed.

Lemma getc_put_neq s c c' k : c <> c' -> getc (put s c k) c' = getc s c'.
Proof. intros H. unfold getc, put. cbn. apply nth_upd_neq, H. Qed.

Lemma getc_lt s c k : getc s c = Some k -> c < length (s_conns s).
Proof. apply nth_some_lt. Qed.

Lemma put_loops s c k : s_loops (put s c k) = s_loops s.
Proof. reflexivity. Qed.

Lemma getc_enq s l t c : getc (enq s l t) c = getc s c.
Proof. unfold enq, getc. destruct (nth_error (s_loops s) l); reflexivity. Qed.

Lemma getl_enq_eq s l t v : getl s l = Some v ->
  getl (enq s l t) l = Some (mkLq (q_pend v ++ [t]) (q_batch v) (q_spent v) (q_drain v)).
Proof.
  intros H. unfold enq, getl in *. rewrite H. cbn. apply nth_upd_eq. eapply nth_some_lt, H.
Qed.

Lemma getl_enq_neq s l l' t : l <> l' -> getl (enq s l t) l' = getl s l'.
Proof.
  intros H. unfold enq, getl. destruct (nth_error (s_loops s) l); [|reflexivity]. cbn. apply nth_upd_neq, H.
Qed.

Lemma length_loops_enq s l t : length (s_loops (enq s l t)) = length (s_loops s).
Proof. unfold enq. destruct (nth_error (s_loops s) l); [|reflexivity]. cbn. apply length_upd. Qed.

Lemma length_conns_put s c k : length (s_conns (put s c k)) = length (s_conns s).
Proof. apply length_upd. Qed.

Lemma conns_enq s l t : s_conns (enq s l t) = s_conns s.
Proof. unfold enq. destruct (nth_error (s_loops s) l); reflexivity. Qed.

(* ---- tasks not yet run, counting, and the order of the life-cycle functors of one connection ---- *)
Definition q_todo (l : lq) : list task := q_batch l ++ q_pend l.

Definition cnt (p : task -> bool) (l : list task) : nat := length (filter p l).

Lemma cnt_app p l1 l2 : cnt p (l1 ++ l2) = cnt p l1 + cnt p l2.
Proof. unfold cnt. rewrite filter_app, app_length. reflexivity. Qed.

Lemma cnt_cons p t l : cnt p (t :: l) = (if p t then 1 else 0) + cnt p l.
Proof. unfold cnt. cbn. destruct (p t); reflexivity. Qed.

(* sum over all loops *)
Definition sumq (f : lq -> nat) (ls : list lq) : nat := fold_right (fun l n => f l + n) 0 ls.

Lemma sumq_upd f ls i v v' : nth_error ls i = Some v ->
  sumq f (upd ls i v') + f v = sumq f ls + f v'.
Proof.
  unfold sumq. revert i. induction ls as [|y ls IH]; intros [|i] H; cbn in *; try discriminate.
  - injection H as ->. lia.
  - specialize (IH i H). lia.
Qed.

Lemma sumq_zero f ls : (forall l, In l ls -> f l = 0) -> sumq f ls = 0.
Proof.
  induction ls as [|y ls IH]; intros H; [reflexivity|].
  change (sumq f (y :: ls)) with (f y + sumq f ls).
  rewrite (H y (or_introl eq_refl)), IH; [reflexivity|]. intros l Hl. apply H. right. exact Hl.
Qed.

Definition todoN (p : task -> bool) (s : sys) : nat := sumq (fun l => cnt p (q_todo l)) (s_loops s).
Definition allN (p : task -> bool) (s : sys) : nat := sumq (fun l => cnt p (q_all l)) (s_loops s).

Lemma holders_eq s c k : getc s c = Some k ->
  holders s c = (if k_mapped k then 1 else 0) + k_urefs k + count_calls c (s_calls s) + allN (holds c) s.
Proof. intros H. unfold holders, getc in *. rewrite H. reflexivity. Qed.

Definition isE (c : nat) (t : task) : bool := match t with TEstablish c' => c' =? c | _ => false end.
Definition isR (c : nat) (t : task) : bool := match t with TRemove c' => c' =? c | _ => false end.
Definition isD (c : nat) (t : task) : bool := match t with TDestroy c' => c' =? c | _ => false end.
Definition isF (c : nat) (t : task) : bool := match t with TForceClose c' => c' =? c | _ => false end.

Inductive lifek := LE | LD | LF.
Definition life_of (c : nat) (t : task) : option lifek :=
  if isE c t then Some LE else if isD c t then Some LD else if isF c t then Some LF else None.

Fixpoint first_life (c : nat) (l : list task) : option lifek :=
  match l with
  | [] => None
  | t :: r => match life_of c t with Some x => Some x | None => first_life c r end
  end.

Lemma first_life_app_some c l1 l2 x : first_life c l1 = Some x -> first_life c (l1 ++ l2) = Some x.
Proof.
  induction l1 as [|t l1 IH]; cbn; [discriminate|]. destruct (life_of c t); auto.
Qed.

Lemma first_life_app_none c l1 l2 : first_life c l1 = None -> first_life c (l1 ++ l2) = first_life c l2.
Proof.
  induction l1 as [|t l1 IH]; cbn; [reflexivity|]. destruct (life_of c t); [discriminate|auto].
Qed.

Lemma first_life_none_cnt c l : first_life c l = None -> cnt (isE c) l = 0 /\ cnt (isD c) l = 0 /\ cnt (isF c) l = 0.
Proof.
  induction l as [|t l IH]; [cbn; auto|]. cbn [first_life]. unfold life_of.
  rewrite !cnt_cons. destruct (isE c t) eqn:E1; [discriminate|].
  destruct (isD c t) eqn:E2; [discriminate|]. destruct (isF c t) eqn:E3; [discriminate|].
  intros H. destruct (IH H) as (? & ? & ?). lia.
Qed.

Lemma cnt_zero_first_life c l : cnt (isE c) l = 0 -> cnt (isD c) l = 0 -> cnt (isF c) l = 0 -> first_life c l = None.
Proof.
  induction l as [|t l IH]; [cbn; auto|]. cbn [first_life]. unfold life_of. rewrite !cnt_cons.
  destruct (isE c t); [lia|]. destruct (isD c t); [lia|]. destruct (isF c t); [lia|]. cbn [plus]. auto.
Qed.

(* the holders of a connection are at least its strong life-cycle functors *)
Lemma isE_holds c t : isE c t = true -> holds c t = true.
Proof. destruct t; cbn [isE isR isD isF]; try discriminate. unfold holds. cbn [task_conn task_strong]. intros H. rewrite H. reflexivity. Qed.
Lemma isR_holds c t : isR c t = true -> holds c t = true.
Proof. destruct t; cbn [isE isR isD isF]; try discriminate. unfold holds. cbn [task_conn task_strong]. intros H. rewrite H. reflexivity. Qed.
Lemma isD_holds c t : isD c t = true -> holds c t = true.
Proof. destruct t; cbn [isE isR isD isF]; try discriminate. unfold holds. cbn [task_conn task_strong]. intros H. rewrite H. reflexivity. Qed.
Lemma isF_holds c t : isF c t = true -> holds c t = true.
Proof. destruct t; cbn [isE isR isD isF]; try discriminate. unfold holds. cbn [task_conn task_strong]. intros H. rewrite H. reflexivity. Qed.

Lemma cnt_le p q l : (forall t, p t = true -> q t = true) -> cnt p l <= cnt q l.
Proof.
  intros H. induction l as [|t l IH]; [cbn; lia|]. rewrite !cnt_cons.
  destruct (p t) eqn:E; [rewrite (H t E); lia|]. destruct (q t); lia.
Qed.

Lemma sumq_le f g ls : (forall l, f l <= g l) -> sumq f ls <= sumq g ls.
Proof. intros H. unfold sumq. induction ls as [|y ls IH]; cbn; [lia|]. specialize (H y). lia. Qed.

Lemma q_all_todo l : q_all l = q_spent l ++ q_todo l.
Proof. reflexivity. Qed.

Lemma todoN_le_allN p q s : (forall t, p t = true -> q t = true) -> todoN p s <= allN q s.
Proof.
  intros H. unfold todoN, allN. apply sumq_le. intros l. rewrite q_all_todo, cnt_app.
  pose proof (cnt_le p q (q_todo l) H). lia.
Qed.

(* ---- the invariant ------------------------------------------------------------------------------ *)
Lemma cs_eqb_true a b : cstate_eqb a b = true <-> a = b.
Proof. destruct a, b; cbn; split; intros; congruence. Qed.
Lemma cs_eqb_false a b : cstate_eqb a b = false <-> a <> b.
Proof. destruct a, b; cbn; split; intros; congruence. Qed.

Definition up_k (k : lc) : Prop := k_st k = Connected \/ k_st k = Disconnecting.

Lemma closable_up_k k : k_closable k = true <-> up_k k.
Proof. unfold k_closable, up_k. destruct (k_st k); cbn; intuition discriminate. Qed.

Lemma closable_false_k k : k_closable k = false <-> k_st k = Connecting \/ k_st k = Disconnected.
Proof. unfold k_closable. destruct (k_st k); cbn; intuition discriminate. Qed.

Definition owner_alive (s : sys) (c : nat) (k : lc) : Prop :=
  match k_ccb k with
  | CbServer => s_srv s = true
  | CbClient => s_cli s = true /\ s_cliconn s = Some c
  | CbDetail => False
  end.

Definition loop_todo (s : sys) (l : nat) : list task :=
  match getl s l with Some v => q_todo v | None => [] end.

(* where a connection stands on its way from creation to destruction: which owner entry and
   which queued life-cycle functors (not yet run) exist for it, and in which order *)
Definition phase (s : sys) (c : nat) (k : lc) : Prop :=
  let nE := todoN (isE c) s in let nR := todoN (isR c) s in
  let nD := todoN (isD c) s in let nF := todoN (isF c) s in
  match k_st k with
  | Connecting =>
      k_added k = false /\ k_ccb k = CbServer /\ nE = 1 /\ nR = 0 /\ nF = 0 /\
      first_life c (loop_todo s (k_loop k)) = Some LE /\
      ((k_mapped k = true /\ nD = 0 /\ s_srv s = true) \/ (k_mapped k = false /\ nD = 1))
  | Connected | Disconnecting =>
      k_added k = true /\ nE = 0 /\ nR = 0 /\
      ((k_mapped k = true /\ nD = 0 /\ owner_alive s c k) \/
       (k_mapped k = false /\ nD = 1 /\ k_ccb k = CbServer /\
        first_life c (loop_todo s (k_loop k)) = Some LD) \/
       (k_mapped k = false /\ nD = 0 /\ k_ccb k = CbDetail /\ (1 <= k_urefs k \/ 1 <= nF)))
  | Disconnected =>
      nE = 0 /\
      ((k_added k = true /\ k_mapped k = true /\ nR = 1 /\ nD = 0 /\ k_ccb k = CbServer /\ s_srv s = true) \/
       (k_added k = true /\ k_mapped k = false /\ nR = 0 /\ nD = 1) \/
       (k_added k = false /\ k_mapped k = false /\ nR = 0 /\ nD = 0))
  end.

Definition counters_ok (k : lc) : Prop :=
  match k_st k with
  | Connecting => k_ups k = 0 /\ k_downs k = 0
  | Connected | Disconnecting => k_ups k = 1 /\ k_downs k = 0
  | Disconnected => k_ups k = 1 /\ k_downs k = 1
  end.

Definition poller_ok (readd : bool) (k : lc) : Prop :=
  (k_added k = false <-> k_pidx k = PNew) /\
  (k_pidx k = PAdded -> k_none k = true -> readd = true).

(* per connection *)
Record CInv (s : sys) (c : nat) (k : lc) : Prop := {
  ci_loop : k_loop k <= s_nio s /\ (k_ccb k <> CbServer -> k_loop k = 0);
  ci_idle : k_alive k = true -> ~ up_k k -> k_wr k = false /\ k_rd k = false;
  ci_cnt : k_alive k = true -> counters_ok k;
  ci_poll : k_alive k = true -> poller_ok (s_readd s) k;
  ci_phase : k_alive k = true -> phase s c k;
  ci_dead : k_alive k = false -> holders s c = 0;
  ci_deadst : k_alive k = false -> k_st k = Disconnected /\ k_added k = false /\ k_pidx k = PNew /\ k_ups k = 1 /\ k_downs k = 1;
  ci_dtor : k_dtors k = (if k_alive k then 0 else 1) /\ k_closes k = k_dtors k
}.

Definition raw_pinned (t : task) : bool :=
  match t with TShutdown _ p | TStartRead _ p | TStopRead _ p | TSend _ p => p | _ => true end.

(* functors a user (or the connection itself, once up) can have queued: never for a connection
   that is still kConnecting *)
Definition needs_up (t : task) : bool :=
  match t with TEstablish _ | TDestroy _ | TRemove _ | TOther => false | _ => true end.

Definition placed (s : sys) (l : nat) (t : task) : Prop :=
  raw_pinned t = true /\ (forall c, (t = TEstablish c -> l <> 0) /\ t <> TSetCb c) /\
  match t with
  | TOther => True
  | TRemove c => l = 0 /\ c < length (s_conns s)
  | _ => exists k, getc s (task_conn t) = Some k /\ k_loop k = l /\ (needs_up t = true -> k_st k <> Connecting)
  end.

(* global *)
Record GInv (s : sys) : Prop := {
  gi_loops : length (s_loops s) = S (s_nio s);
  gi_rr : s_nio s = 0 \/ s_rr s < s_nio s;
  gi_placed : forall l v t, getl s l = Some v -> In t (q_all v) -> placed s l t;
  gi_calls : NoDup (map a_thr (s_calls s)) /\
             forall a, In a (s_calls s) -> exists k, getc s (a_conn a) = Some k /\ k_alive k = true /\ k_st k <> Connecting /\ a_api a <> ADtor;
  gi_cli : forall c, s_cliconn s = Some c ->
           s_cli s = true /\ exists k, getc s c = Some k /\ k_alive k = true /\ k_mapped k = true /\
                                       k_ccb k = CbClient /\ up_k k
}.

(* everything except "a live connection has a holder", which [finish] re-establishes *)
Definition Inv0 (s : sys) : Prop := GInv s /\ forall c k, getc s c = Some k -> CInv s c k.
Definition InvX (s : sys) (c0 : nat) : Prop := GInv s /\ forall c k, c <> c0 -> getc s c = Some k -> CInv s c k.
Definition Held (s : sys) : Prop := forall c k, getc s c = Some k -> k_alive k = true -> 1 <= holders s c.
Definition Inv (s : sys) : Prop := Inv0 s /\ Held s.

Lemma init_inv nio readd : Inv (init_sys nio readd).
Proof.
  split; [split|].
  - constructor; cbn.
    + f_equal. apply repeat_length.
    + destruct nio; [left; reflexivity|right; lia].
    + intros l v t Hl Hin. unfold getl in Hl. cbn [init_sys s_loops] in Hl. apply nth_error_In, repeat_spec in Hl. subst v. contradiction.
    + split; [constructor|intros a []].
    + discriminate.
  - intros c k H. unfold getc in H. cbn in H. destruct c; discriminate.
  - intros c k H. unfold getc in H. cbn in H. destruct c; discriminate.
Qed.

(* ---- frame: what the invariant of connection c depends on ---------------------------------------- *)
Definition about (c : nat) (t : task) : bool :=
  match t with TOther => false | _ => task_conn t =? c end.

Lemma about_false c t : about c t = false ->
  isE c t = false /\ isR c t = false /\ isD c t = false /\ isF c t = false /\ holds c t = false /\ life_of c t = None.
Proof.
  unfold life_of, holds.
  destruct t; cbn [about task_conn isE isR isD isF task_strong]; intros H; rewrite ?H; cbn [andb];
    rewrite ?andb_false_r; auto 10.
Qed.

Record same_for (s s' : sys) (c : nat) : Prop := {
  sf_nio : s_nio s' = s_nio s;
  sf_readd : s_readd s' = s_readd s;
  sf_srv : s_srv s' = s_srv s;
  sf_cliown : (s_cli s' = true /\ s_cliconn s' = Some c) <-> (s_cli s = true /\ s_cliconn s = Some c);
  sf_E : todoN (isE c) s' = todoN (isE c) s;
  sf_R : todoN (isR c) s' = todoN (isR c) s;
  sf_D : todoN (isD c) s' = todoN (isD c) s;
  sf_F : todoN (isF c) s' = todoN (isF c) s;
  sf_first : forall l, first_life c (loop_todo s' l) = first_life c (loop_todo s l);
  sf_calls : count_calls c (s_calls s') = count_calls c (s_calls s);
  sf_all : allN (holds c) s' = allN (holds c) s
}.

Lemma same_for_refl s c : same_for s s c.
Proof. constructor; try reflexivity; tauto. Qed.

Lemma same_for_trans s1 s2 s3 c : same_for s1 s2 c -> same_for s2 s3 c -> same_for s1 s3 c.
Proof.
  intros [] []. constructor; try congruence; try tauto. all: intros l; rewrite sf_first1; apply sf_first0.
Qed.

Lemma same_for_cinv s s' c k : same_for s s' c -> getc s c = Some k -> getc s' c = Some k ->
  CInv s c k -> CInv s' c k.
Proof.
  intros [] Hg0 Hg [Hl Hi Hc Hp Hph Hd Hds Hdt].
  constructor; auto.
  - rewrite sf_nio0. exact Hl.
  - rewrite sf_readd0. exact Hp.
  - intros Ha. specialize (Hph Ha). unfold phase, owner_alive in *.
    rewrite sf_E0, sf_R0, sf_D0, sf_F0, sf_first0, sf_srv0.
    destruct (k_st k); try exact Hph.
    + destruct Hph as (A1 & A2 & A3 & A4). repeat (split; [assumption|]).
      destruct A4 as [(B1 & B2 & B3)|A4]; [|right; exact A4]. left. repeat (split; [assumption|]).
      destruct (k_ccb k); try exact B3. apply sf_cliown0, B3.
    + destruct Hph as (A1 & A2 & A3 & A4). repeat (split; [assumption|]).
      destruct A4 as [(B1 & B2 & B3)|A4]; [|right; exact A4]. left. repeat (split; [assumption|]).
      destruct (k_ccb k); try exact B3. apply sf_cliown0, B3.
  - intros Ha. specialize (Hd Ha).
    rewrite (holders_eq s' c k Hg), sf_calls0, sf_all0. rewrite (holders_eq s c k Hg0) in Hd. exact Hd.
Qed.

(* replacing one loop *)
Definition set_loop (s : sys) (l : nat) (v : lq) : sys := set_loops s (upd (s_loops s) l v).

Lemma enq_set_loop s l t v : getl s l = Some v ->
  enq s l t = set_loop s l (mkLq (q_pend v ++ [t]) (q_batch v) (q_spent v) (q_drain v)).
Proof. intros H. unfold enq, getl in *. rewrite H. reflexivity. Qed.

Lemma enq_none s l t : getl s l = None -> enq s l t = s.
Proof. intros H. unfold enq, getl in *. rewrite H. reflexivity. Qed.

Lemma getl_set_loop_eq s l v v' : getl s l = Some v -> getl (set_loop s l v') l = Some v'.
Proof. intros H. unfold getl, set_loop. cbn. apply nth_upd_eq. eapply nth_some_lt, H. Qed.

Lemma getl_set_loop_neq s l l' v' : l <> l' -> getl (set_loop s l v') l' = getl s l'.
Proof. intros H. unfold getl, set_loop. cbn. apply nth_upd_neq, H. Qed.

Lemma getc_set_loop s l v c : getc (set_loop s l v) c = getc s c.
Proof. reflexivity. Qed.

Lemma todoN_set_loop p s l v v' : getl s l = Some v ->
  todoN p (set_loop s l v') + cnt p (q_todo v) = todoN p s + cnt p (q_todo v').
Proof. intros H. unfold todoN, set_loop. cbn. apply (sumq_upd (fun l => cnt p (q_todo l))), H. Qed.

Lemma allN_set_loop p s l v v' : getl s l = Some v ->
  allN p (set_loop s l v') + cnt p (q_all v) = allN p s + cnt p (q_all v').
Proof. intros H. unfold allN, set_loop. cbn. apply (sumq_upd (fun l => cnt p (q_all l))), H. Qed.

Lemma loop_todo_set_loop_eq s l v v' : getl s l = Some v -> loop_todo (set_loop s l v') l = q_todo v'.
Proof. intros H. unfold loop_todo. rewrite (getl_set_loop_eq s l v v' H). reflexivity. Qed.

Lemma loop_todo_set_loop_neq s l l' v' : l <> l' -> loop_todo (set_loop s l v') l' = loop_todo s l'.
Proof. intros H. unfold loop_todo. rewrite getl_set_loop_neq by exact H. reflexivity. Qed.

(* a loop is replaced by one that is the same as far as connection c is concerned *)
Lemma same_for_set_loop s l v v' c : getl s l = Some v ->
  cnt (isE c) (q_todo v') = cnt (isE c) (q_todo v) -> cnt (isR c) (q_todo v') = cnt (isR c) (q_todo v) ->
  cnt (isD c) (q_todo v') = cnt (isD c) (q_todo v) -> cnt (isF c) (q_todo v') = cnt (isF c) (q_todo v) ->
  first_life c (q_todo v') = first_life c (q_todo v) ->
  cnt (holds c) (q_all v') = cnt (holds c) (q_all v) ->
  same_for s (set_loop s l v') c.
Proof.
  intros H HE HR HD HF Hfl Hall.
  constructor; try reflexivity.
  - pose proof (todoN_set_loop (isE c) s l v v' H). lia.
  - pose proof (todoN_set_loop (isR c) s l v v' H). lia.
  - pose proof (todoN_set_loop (isD c) s l v v' H). lia.
  - pose proof (todoN_set_loop (isF c) s l v v' H). lia.
  - intros l'. destruct (Nat.eq_dec l l') as [<-|Hn].
    + rewrite (loop_todo_set_loop_eq s l v v' H). unfold loop_todo. rewrite H. exact Hfl.
    + rewrite loop_todo_set_loop_neq by exact Hn. reflexivity.
  - pose proof (allN_set_loop (holds c) s l v v' H). lia.
Qed.

Lemma same_for_put s c0 k0 c : same_for s (put s c0 k0) c.
Proof. constructor; reflexivity. Qed.

Lemma first_life_snoc_none c l t : life_of c t = None -> first_life c (l ++ [t]) = first_life c l.
Proof.
  intros H. induction l as [|x l IH]; cbn; [rewrite H; reflexivity|]. destruct (life_of c x); auto.
Qed.

Lemma same_for_enq s l t c : about c t = false -> same_for s (enq s l t) c.
Proof.
  intros Ha. destruct (about_false c t Ha) as (HE & HR & HD & HF & Hh & Hl).
  destruct (getl s l) as [v|] eqn:E; [|rewrite (enq_none s l t E); apply same_for_refl].
  rewrite (enq_set_loop s l t v E). apply (same_for_set_loop s l v _ c E); unfold q_todo, q_all; cbn [q_pend q_batch q_spent].
  all: rewrite ?app_assoc, ?cnt_app; try (unfold cnt; cbn [filter]; rewrite ?HE, ?HR, ?HD, ?HF, ?Hh; cbn; lia).
  apply first_life_snoc_none, Hl.
Qed.

Lemma same_for_set_calls s cl c : count_calls c cl = count_calls c (s_calls s) -> same_for s (set_calls s cl) c.
Proof. intros H. constructor; try reflexivity. exact H. Qed.

(* ---- the global part under the primitives --------------------------------------------------------- *)
Definition conns_ext (s s' : sys) : Prop :=
  length (s_conns s) <= length (s_conns s') /\
  forall c k, getc s c = Some k -> exists k', getc s' c = Some k' /\ k_loop k' = k_loop k /\
                                         (k_st k <> Connecting -> k_st k' <> Connecting).

Lemma placed_mono s s' l t : conns_ext s s' -> placed s l t -> placed s' l t.
Proof.
  intros [Hlen Hc] [Hp [He H]]. split; [exact Hp|]. split; [exact He|].
  destruct t; try exact H; try (destruct H as (k & Hk & Hl & Hs); destruct (Hc _ _ Hk) as (k' & Hk' & Hl' & Hs'); exists k'; split; [exact Hk'|split; [congruence|auto]]).
  destruct H as [H1 H2]. split; [exact H1|lia].
Qed.

Lemma conns_ext_refl s : conns_ext s s.
Proof. split; [lia|]. intros c k H. eauto. Qed.

Lemma conns_ext_trans s1 s2 s3 : conns_ext s1 s2 -> conns_ext s2 s3 -> conns_ext s1 s3.
Proof.
  intros [L1 H1] [L2 H2]. split; [lia|]. intros c k Hk. destruct (H1 c k Hk) as (k2 & Hk2 & A & B).
  destruct (H2 c k2 Hk2) as (k3 & Hk3 & C & D). exists k3. split; [exact Hk3|]. split; [congruence|auto].
Qed.

Lemma conns_ext_put s c0 k k0 : getc s c0 = Some k -> k_loop k0 = k_loop k ->
  (k_st k <> Connecting -> k_st k0 <> Connecting) -> conns_ext s (put s c0 k0).
Proof.
  intros Hk Hl Hs. split; [rewrite length_conns_put; lia|].
  intros c k1 H1. destruct (Nat.eq_dec c0 c) as [<-|Hn].
  - exists k0. rewrite getc_put_eq by (eapply getc_lt, Hk). split; [reflexivity|]. assert (k1 = k) by congruence. subst k1. auto.
  - exists k1. rewrite getc_put_neq by exact Hn. auto.
Qed.

Lemma ginv_put s c0 k k0 : GInv s -> getc s c0 = Some k -> k_loop k0 = k_loop k -> k_alive k0 = k_alive k ->
  (k_st k <> Connecting -> k_st k0 <> Connecting) ->
  (s_cliconn s = Some c0 -> k_mapped k0 = true /\ k_ccb k0 = CbClient /\ up_k k0) ->
  GInv (put s c0 k0).
Proof.
  intros [G1 Gr G2 [G3 G3'] G4] Hk Hl Ha Hnc Hcli.
  pose proof (conns_ext_put s c0 k k0 Hk Hl Hnc) as Hext.
  constructor.
  - exact G1.
  - exact Gr.
  - intros l v t Hv Hin. apply (placed_mono s _ l t Hext). apply (G2 l v t Hv Hin).
  - split; [exact G3|]. intros a Hin. destruct (G3' a Hin) as (k1 & Hk1 & Ha1 & Hs1 & Hd1). cbn [s_calls put set_conns] in *.
    destruct (Nat.eq_dec c0 (a_conn a)) as [E|Hn].
    + exists k0. rewrite <- E, getc_put_eq by (eapply getc_lt, Hk). split; [reflexivity|]. rewrite Ha. rewrite <- E in Hk1.
      assert (k1 = k) by congruence. subst k1. auto.
    + exists k1. rewrite getc_put_neq by exact Hn. auto.
  - intros c Hc. cbn [s_cliconn put set_conns] in Hc. destruct (G4 c Hc) as (Hs & k1 & Hk1 & H1 & H2 & H3 & H4).
    split; [exact Hs|]. destruct (Nat.eq_dec c0 c) as [E|Hn].
    + subst c. destruct (Hcli Hc) as (Hm & Hcb & Hup). exists k0. rewrite getc_put_eq by (eapply getc_lt, Hk).
      repeat split; auto. rewrite Ha. congruence.
    + exists k1. rewrite getc_put_neq by exact Hn. auto.
Qed.

Lemma in_q_all_set (v : lq) t x : In x (q_all (mkLq (q_pend v ++ [t]) (q_batch v) (q_spent v) (q_drain v))) -> In x (q_all v) \/ x = t.
Proof.
  unfold q_all. cbn [q_pend q_batch q_spent]. rewrite !in_app_iff. cbn. intuition.
Qed.

Lemma ginv_set_loop s l v v' : GInv s -> getl s l = Some v ->
  (forall t, In t (q_all v') -> In t (q_all v) \/ placed s l t) -> GInv (set_loop s l v').
Proof.
  intros [G1 Gr G2 G3 G4] Hv Hsub. constructor.
  - unfold set_loop. cbn. rewrite length_upd. exact G1.
  - exact Gr.
  - intros l' v1 t Hv1 Hin.
    assert (Hpl : placed s l' t).
    { destruct (Nat.eq_dec l l') as [<-|Hn].
      - rewrite (getl_set_loop_eq s l v v' Hv) in Hv1. injection Hv1 as <-.
        destruct (Hsub t Hin) as [H|H]; [apply (G2 l v t Hv H)|exact H].
      - rewrite getl_set_loop_neq in Hv1 by exact Hn. apply (G2 l' v1 t Hv1 Hin). }
    exact Hpl.
  - exact G3.
  - exact G4.
Qed.

Lemma ginv_enq s l t : GInv s -> placed s l t -> GInv (enq s l t).
Proof.
  intros G Hp. destruct (getl s l) as [v|] eqn:E; [|rewrite (enq_none s l t E); exact G].
  rewrite (enq_set_loop s l t v E). apply (ginv_set_loop s l v _ G E).
  intros x Hx. apply in_q_all_set in Hx as [Hx| ->]; auto.
Qed.

(* ---- effect of the primitives on counts ----------------------------------------------------------- *)
Lemma cnt_snoc p l t : cnt p (l ++ [t]) = cnt p l + (if p t then 1 else 0).
Proof. rewrite cnt_app. unfold cnt at 2. cbn [filter]. destruct (p t); reflexivity. Qed.

Lemma todoN_enq p s l t v : getl s l = Some v -> todoN p (enq s l t) = todoN p s + (if p t then 1 else 0).
Proof.
  intros H. rewrite (enq_set_loop s l t v H).
  pose proof (todoN_set_loop p s l v (mkLq (q_pend v ++ [t]) (q_batch v) (q_spent v) (q_drain v)) H) as E.
  assert (E2 : cnt p (q_todo (mkLq (q_pend v ++ [t]) (q_batch v) (q_spent v) (q_drain v))) = cnt p (q_todo v) + (if p t then 1 else 0)).
  { unfold q_todo. cbn [q_pend q_batch]. rewrite app_assoc. apply cnt_snoc. }
  lia.
Qed.

Lemma allN_enq p s l t v : getl s l = Some v -> allN p (enq s l t) = allN p s + (if p t then 1 else 0).
Proof.
  intros H. rewrite (enq_set_loop s l t v H).
  pose proof (allN_set_loop p s l v (mkLq (q_pend v ++ [t]) (q_batch v) (q_spent v) (q_drain v)) H) as E.
  assert (E2 : cnt p (q_all (mkLq (q_pend v ++ [t]) (q_batch v) (q_spent v) (q_drain v))) = cnt p (q_all v) + (if p t then 1 else 0)).
  { unfold q_all. cbn [q_pend q_batch q_spent]. rewrite !app_assoc. apply cnt_snoc. }
  lia.
Qed.

Lemma loop_todo_enq_eq s l t v : getl s l = Some v -> loop_todo (enq s l t) l = loop_todo s l ++ [t].
Proof.
  intros H. rewrite (enq_set_loop s l t v H), (loop_todo_set_loop_eq s l v _ H).
  unfold loop_todo. rewrite H. unfold q_todo. cbn [q_pend q_batch]. apply app_assoc.
Qed.

Lemma loop_todo_enq_neq s l l' t : l <> l' -> loop_todo (enq s l t) l' = loop_todo s l'.
Proof. intros H. unfold loop_todo. rewrite getl_enq_neq by exact H. reflexivity. Qed.

Lemma enq_fields s l t : s_nio (enq s l t) = s_nio s /\ s_readd (enq s l t) = s_readd s /\ s_srv (enq s l t) = s_srv s /\
  s_cli (enq s l t) = s_cli s /\ s_cliconn (enq s l t) = s_cliconn s /\ s_calls (enq s l t) = s_calls s.
Proof. unfold enq. destruct (nth_error (s_loops s) l); cbn; auto 10. Qed.

Lemma getl_valid s l : GInv s -> l <= s_nio s -> exists v, getl s l = Some v.
Proof.
  intros G H. destruct (getl s l) as [v|] eqn:E; [eauto|]. unfold getl in E. apply nth_error_None in E.
  rewrite (gi_loops s G) in E. lia.
Qed.

(* a live connection that has no holder is at the end of its life *)
Lemma no_holder_done s c k : getc s c = Some k -> CInv s c k -> k_alive k = true -> holders s c = 0 ->
  k_st k = Disconnected /\ k_added k = false /\ k_pidx k = PNew.
Proof.
  intros Hg HC Ha Hh. rewrite (holders_eq s c k Hg) in Hh.
  pose proof (ci_phase s c k HC Ha) as Hp. pose proof (ci_poll s c k HC Ha) as [Hpo _].
  pose proof (todoN_le_allN (isE c) (holds c) s (isE_holds c)) as HE.
  pose proof (todoN_le_allN (isR c) (holds c) s (isR_holds c)) as HR.
  pose proof (todoN_le_allN (isD c) (holds c) s (isD_holds c)) as HD.
  pose proof (todoN_le_allN (isF c) (holds c) s (isF_holds c)) as HF.
  unfold phase in Hp. destruct (k_st k).
  - destruct Hp as (_ & _ & Hx & _). lia.
  - destruct Hp as (_ & _ & _ & [(Hm & _)|[(_ & Hx & _)|(_ & _ & _ & Hx)]]); [rewrite Hm in Hh; lia|lia|lia].
  - destruct Hp as (_ & _ & _ & [(Hm & _)|[(_ & Hx & _)|(_ & _ & _ & Hx)]]); [rewrite Hm in Hh; lia|lia|lia].
  - destruct Hp as (_ & [(_ & Hm & _)|[(_ & _ & _ & Hx)|(Hx & _)]]); [rewrite Hm in Hh; lia|lia|].
    split; [reflexivity|]. split; [exact Hx|]. apply Hpo, Hx.
Qed.

(* ---- destruction ---------------------------------------------------------------------------------- *)
Lemma holders_put_own s c k k' : getc s c = Some k -> k_mapped k' = k_mapped k -> k_urefs k' = k_urefs k ->
  forall c', holders (put s c k') c' = holders s c'.
Proof.
  intros Hg Hm Hu c'. unfold holders. destruct (Nat.eq_dec c c') as [<-|Hn].
  - fold (getc (put s c k') c). fold (getc s c). rewrite getc_put_eq by (eapply getc_lt, Hg). rewrite Hg, Hm, Hu. reflexivity.
  - fold (getc (put s c k') c'). fold (getc s c'). rewrite getc_put_neq by exact Hn. reflexivity.
Qed.

Lemma count_calls_zero_notin c l : count_calls c l = 0 -> forall a, In a l -> a_conn a <> c.
Proof.
  unfold count_calls. induction l as [|x l IH]; intros H a Hin E; [contradiction|].
  cbn [filter] in H. destruct Hin as [<-|Hin].
  - rewrite E, Nat.eqb_refl in H. discriminate.
  - destruct (a_conn x =? c); [discriminate|]. apply (IH H a Hin E).
Qed.

Lemma kill_inv0 s c k : Inv0 s -> getc s c = Some k -> k_alive k = true -> holders s c = 0 ->
  Inv0 (put s c (kill k)) /\ clean k = true.
Proof.
  intros [G HC] Hg Ha Hh.
  destruct (no_holder_done s c k Hg (HC c k Hg) Ha Hh) as (Hst & Hadd & Hpi).
  assert (Hclean : clean k = true).
  { unfold clean, k_inset. rewrite Hst, Hadd, Hpi. reflexivity. }
  split; [|exact Hclean].
  pose proof (holders_eq s c k Hg) as He. rewrite Hh in He.
  assert (Hm : k_mapped k = false) by (destruct (k_mapped k); [lia|reflexivity]).
  assert (Hcalls : count_calls c (s_calls s) = 0) by lia.
  split.
  - (* global *)
    destruct G as [G1 Gr G2 [G3 G3'] G4].
    pose proof (conns_ext_put s c k (kill k) Hg eq_refl (fun H => H)) as Hext.
    constructor.
    + exact G1.
    + exact Gr.
    + intros l v t Hv Hin. apply (placed_mono s _ l t Hext), (G2 l v t Hv Hin).
    + split; [exact G3|]. intros a Hin. destruct (G3' a Hin) as (k1 & Hk1 & Ha1 & Hs1 & Hd1).
      exists k1. rewrite getc_put_neq; [auto|]. intros E. apply (count_calls_zero_notin c _ Hcalls a Hin). auto.
    + intros c1 Hc1. destruct (G4 c1 Hc1) as (Hs & k1 & Hk1 & H1 & H2 & H3 & H4). split; [exact Hs|].
      exists k1. rewrite getc_put_neq; [auto|]. intros E. subst c1. congruence.
  - intros c' k' Hg'. destruct (Nat.eq_dec c c') as [<-|Hn].
    + rewrite getc_put_eq in Hg' by (eapply getc_lt, Hg). injection Hg' as <-.
      destruct (HC c k Hg) as [Hl Hi Hc Hp Hph Hd Hds Hdt].
      assert (Hud : k_ups k = 1 /\ k_downs k = 1) by (specialize (Hc Ha); unfold counters_ok in Hc; rewrite Hst in Hc; exact Hc).
      destruct Hud as [Hups1 Hdowns1].
      constructor; cbn [kill k_alive k_loop k_ccb k_dtors k_closes k_st k_added k_pidx k_ups k_downs]; try discriminate; auto 10.
      * intros _. rewrite (holders_put_own s c k (kill k) Hg eq_refl eq_refl). exact Hh.
      * destruct Hdt as [Hd1 Hd2]. rewrite Ha in Hd1. rewrite Hd2, Hd1. auto.
    + rewrite getc_put_neq in Hg' by exact Hn.
      apply (same_for_cinv s _ c' k' (same_for_put s c (kill k) c') Hg'); [rewrite getc_put_neq by exact Hn; exact Hg'|].
      apply (HC c' k' Hg').
Qed.

Lemma sweep_from_inv n : forall s thr c s' d, sweep_from s thr n c = (s', d) -> Inv0 s ->
  (forall c' k, c' < c -> getc s c' = Some k -> k_alive k = true -> 1 <= holders s c') ->
  length (s_conns s) <= c + n ->
  Inv0 s' /\ Held s' /\ all_clean d = true /\ conns_ext s s' /\
  s_loops s' = s_loops s /\ s_calls s' = s_calls s /\ s_srv s' = s_srv s /\ s_cli s' = s_cli s /\ s_cliconn s' = s_cliconn s /\
  s_nio s' = s_nio s /\ s_readd s' = s_readd s /\ Forall (fun x => exists c0, x = ODtor thr c0 true) d.
Proof.
  induction n as [|n IH]; intros s thr c s' d H HI Hlow Hlen; cbn [sweep_from] in H.
  - injection H as <- <-. split; [exact HI|]. split; [|split; [reflexivity|split; [apply conns_ext_refl|auto 12]]].
    intros c' k Hg Ha. apply (Hlow c' k); [|exact Hg|exact Ha]. apply getc_lt in Hg. lia.
  - destruct (getc s c) as [k|] eqn:Hg.
    + destruct (k_alive k && (holders s c =? 0)) eqn:E.
      * apply andb_prop in E as [Ha Hz]. apply Nat.eqb_eq in Hz.
        destruct (sweep_from (put s c (kill k)) thr n (S c)) as [s1 o1] eqn:E1. injection H as <- <-.
        destruct (kill_inv0 s c k HI Hg Ha Hz) as [HI1 Hcl].
        pose proof (holders_put_own s c k (kill k) Hg eq_refl eq_refl) as Hh.
        destruct (IH _ thr (S c) s1 o1 E1 HI1) as (R1 & R2 & R3 & R4 & R5 & R6 & R7 & R8 & R9 & R10 & R11 & R12).
        -- intros c' k' Hlt Hg' Ha'. rewrite Hh. destruct (Nat.eq_dec c c') as [<-|Hn].
           ++ rewrite getc_put_eq in Hg' by (eapply getc_lt, Hg). injection Hg' as <-. discriminate.
           ++ rewrite getc_put_neq in Hg' by exact Hn. apply (Hlow c' k'); [lia|exact Hg'|exact Ha'].
        -- rewrite length_conns_put. lia.
        -- split; [exact R1|]. split; [exact R2|]. split; [cbn [all_clean forallb]; rewrite Hcl; exact R3|].
           split; [|cbn [put set_conns s_loops s_calls s_srv s_cli s_cliconn s_nio s_readd] in *; repeat (split; [assumption|]);
                    constructor; [exists c; rewrite Hcl; reflexivity|exact R12]].
           apply (conns_ext_trans s (put s c (kill k)) s1); [|exact R4].
           apply (conns_ext_put s c k (kill k) Hg eq_refl (fun H => H)).
      * apply (IH s thr (S c) s' d H HI); [|lia].
        intros c' k' Hlt Hg' Ha'. destruct (Nat.eq_dec c c') as [<-|Hn].
        -- rewrite Hg in Hg'. injection Hg' as <-. rewrite Ha' in E. cbn in E. apply Nat.eqb_neq in E. lia.
        -- apply (Hlow c' k'); [lia|exact Hg'|exact Ha'].
    + injection H as <- <-. split; [exact HI|]. split; [|split; [reflexivity|split; [apply conns_ext_refl|auto 12]]].
      intros c' k Hg' Ha. apply (Hlow c' k); [|exact Hg'|exact Ha].
      unfold getc in Hg. apply nth_error_None in Hg. apply getc_lt in Hg'. lia.
Qed.

Lemma finish_inv s thr o : Inv0 s -> exists s' d, finish (Ok (s, o)) thr = Ok (s', o ++ d) /\ Inv s' /\
  Forall (fun x => exists c0, x = ODtor thr c0 true) d /\ conns_ext s s' /\
  s_loops s' = s_loops s /\ s_calls s' = s_calls s /\ s_srv s' = s_srv s /\ s_cli s' = s_cli s /\ s_cliconn s' = s_cliconn s /\
  s_nio s' = s_nio s /\ s_readd s' = s_readd s.
Proof.
  intros HI. unfold finish. destruct (sweep s thr) as [s' d] eqn:E. unfold sweep in E.
  destruct (sweep_from_inv _ s thr 0 s' d E HI) as (R1 & R2 & R3 & R4 & R5 & R6 & R7 & R8 & R9 & R10 & R11 & R12); [intros; lia|lia|].
  rewrite R3. exists s', d. split; [reflexivity|]. split; [split; assumption|]. auto 12.
Qed.

(* ---- closing an op: the other connections by frame, holders by monotonicity ------------------------ *)
Lemma inv0_frame s s' c0 : Inv0 s -> GInv s' ->
  (forall c, c <> c0 -> getc s' c = getc s c /\ same_for s s' c) ->
  (forall k, getc s' c0 = Some k -> CInv s' c0 k) -> Inv0 s'.
Proof.
  intros [G HC] G' Hfr Hc0. split; [exact G'|]. intros c k Hg.
  destruct (Nat.eq_dec c c0) as [->|Hn]; [apply Hc0, Hg|].
  destruct (Hfr c Hn) as [Hgc Hsf]. rewrite Hgc in Hg.
  apply (same_for_cinv s s' c k Hsf Hg); [rewrite Hgc; exact Hg|apply HC, Hg].
Qed.

Lemma held_mono s s' : Held s ->
  (forall c k', getc s' c = Some k' -> k_alive k' = true ->
     exists k, getc s c = Some k /\ k_alive k = true /\ holders s c <= holders s' c) -> Held s'.
Proof.
  intros H Hm c k' Hg Ha. destruct (Hm c k' Hg Ha) as (k & Hk & Hak & Hle). specialize (H c k Hk Hak). lia.
Qed.

(* ---- Channel::update ------------------------------------------------------------------------------ *)
Lemma chan_update_fields readd k wr rd :
  let k' := chan_update readd k wr rd in
  k_st k' = k_st k /\ k_wr k' = wr /\ k_rd k' = rd /\ k_rflag k' = k_rflag k /\ k_added k' = true /\
  k_loop k' = k_loop k /\ k_alive k' = k_alive k /\ k_ccb k' = k_ccb k /\ k_mapped k' = k_mapped k /\
  k_urefs k' = k_urefs k /\ k_delayed k' = k_delayed k /\ k_fin k' = k_fin k /\ k_ups k' = k_ups k /\
  k_downs k' = k_downs k /\ k_dtors k' = k_dtors k /\ k_closes k' = k_closes k /\ k_pidx k' <> PNew.
Proof.
  unfold chan_update. destruct (k_pidx k); destruct (negb (wr || rd)); destruct readd; cbn; repeat split; discriminate.
Qed.

Lemma chan_update_poller readd k wr rd : poller_ok readd (chan_update readd k wr rd).
Proof.
  unfold poller_ok, chan_update, k_none.
  destruct (k_pidx k); destruct (wr || rd) eqn:E; destruct readd; cbn [negb andb set_chan k_added k_pidx k_wr k_rd];
    rewrite ?E; cbn; repeat split; intros; try discriminate; try reflexivity; try congruence.
Qed.

(* ---- a connection changes without leaving its phase ------------------------------------------------ *)
Lemma phase_local s s' c k k' :
  phase s c k ->
  (k_st k' = k_st k \/ (up_k k /\ up_k k')) ->
  k_added k' = k_added k -> k_mapped k' = k_mapped k -> k_ccb k' = k_ccb k -> k_loop k' = k_loop k ->
  s_srv s' = s_srv s -> s_cli s' = s_cli s -> s_cliconn s' = s_cliconn s ->
  todoN (isE c) s' = todoN (isE c) s -> todoN (isR c) s' = todoN (isR c) s -> todoN (isD c) s' = todoN (isD c) s ->
  todoN (isF c) s <= todoN (isF c) s' -> (k_st k = Connecting -> todoN (isF c) s' = todoN (isF c) s) ->
  (forall x, first_life c (loop_todo s (k_loop k)) = Some x -> first_life c (loop_todo s' (k_loop k)) = Some x) ->
  (k_mapped k = false -> k_ccb k = CbDetail -> up_k k -> 1 <= k_urefs k -> 1 <= k_urefs k' \/ 1 <= todoN (isF c) s') ->
  phase s' c k'.
Proof.
  intros Hp Hst Ha Hm Hcb Hl Hsrv Hcli Hcc HE HR HD HF HFc Hfl Hu.
  assert (Hup : up_k k -> up_k k').
  { intros H. destruct Hst as [E|[_ H']]; [unfold up_k in *; rewrite E; exact H|exact H']. }
  unfold phase, owner_alive in *. rewrite HE, HR, HD, Ha, Hm, Hcb, Hl, Hsrv, Hcli, Hcc.
  assert (Hbody : forall P : Prop, (up_k k -> P) -> up_k k -> P) by auto.
  destruct (k_st k) eqn:Ek.
  - destruct Hst as [E|[[E|E] _]]; try congruence. rewrite E.
    destruct Hp as (H1 & H2 & H3 & H4 & H5 & H6 & H7). rewrite (HFc eq_refl). auto 10.
  - assert (Hu' : up_k k') by (apply Hup; left; exact Ek).
    destruct Hp as (H1 & H2 & H3 & H4).
    assert (Hgoal : k_added k = true /\ todoN (isE c) s = 0 /\ todoN (isR c) s = 0 /\
      (k_mapped k = true /\ todoN (isD c) s = 0 /\ match k_ccb k with CbServer => s_srv s = true | CbClient => s_cli s = true /\ s_cliconn s = Some c | CbDetail => False end \/
       k_mapped k = false /\ todoN (isD c) s = 1 /\ k_ccb k = CbServer /\ first_life c (loop_todo s' (k_loop k)) = Some LD \/
       k_mapped k = false /\ todoN (isD c) s = 0 /\ k_ccb k = CbDetail /\ (1 <= k_urefs k' \/ 1 <= todoN (isF c) s'))).
    { repeat (split; [assumption|]).
      destruct H4 as [H4|[(A1 & A2 & A3 & A5)|(A1 & A2 & A3 & A4)]].
      - left. exact H4.
      - right. left. auto 10.
      - right. right. repeat (split; [assumption|]). destruct A4 as [A4|A4]; [apply Hu; auto; left; exact Ek|right; lia]. }
    destruct Hu' as [E|E]; rewrite E; exact Hgoal.
  - assert (Hu' : up_k k') by (apply Hup; right; exact Ek).
    destruct Hp as (H1 & H2 & H3 & H4).
    assert (Hgoal : k_added k = true /\ todoN (isE c) s = 0 /\ todoN (isR c) s = 0 /\
      (k_mapped k = true /\ todoN (isD c) s = 0 /\ match k_ccb k with CbServer => s_srv s = true | CbClient => s_cli s = true /\ s_cliconn s = Some c | CbDetail => False end \/
       k_mapped k = false /\ todoN (isD c) s = 1 /\ k_ccb k = CbServer /\ first_life c (loop_todo s' (k_loop k)) = Some LD \/
       k_mapped k = false /\ todoN (isD c) s = 0 /\ k_ccb k = CbDetail /\ (1 <= k_urefs k' \/ 1 <= todoN (isF c) s'))).
    { repeat (split; [assumption|]).
      destruct H4 as [H4|[(A1 & A2 & A3 & A5)|(A1 & A2 & A3 & A4)]].
      - left. exact H4.
      - right. left. auto 10.
      - right. right. repeat (split; [assumption|]). destruct A4 as [A4|A4]; [apply Hu; auto; right; exact Ek|right; lia]. }
    destruct Hu' as [E|E]; rewrite E; exact Hgoal.
  - destruct Hst as [E|[[E|E] _]]; try congruence. rewrite E. exact Hp.
Qed.

Lemma cinv_alive s s' c k k' :
  CInv s c k -> k_alive k = true -> k_alive k' = true ->
  s_nio s' = s_nio s -> s_readd s' = s_readd s ->
  k_loop k' = k_loop k -> k_ccb k' = k_ccb k \/ (k_ccb k' <> CbServer /\ k_loop k = 0) ->
  (~ up_k k' -> k_wr k' = false /\ k_rd k' = false) ->
  counters_ok k' -> poller_ok (s_readd s) k' -> phase s' c k' ->
  k_dtors k' = k_dtors k -> k_closes k' = k_closes k -> CInv s' c k'.
Proof.
  intros [Hl Hi Hc Hp Hph Hd Hds Hdt] Ha Ha' Hn Hr Hlo Hcb Hidle Hcnt Hpoll Hphase Hd1 Hd2.
  constructor.
  - rewrite Hn, Hlo. destruct Hl as [L1 L2]. split; [exact L1|]. intros Hx.
    destruct Hcb as [E|[_ E]]; [apply L2; congruence|exact E].
  - intros _. exact Hidle.
  - intros _. exact Hcnt.
  - intros _. rewrite Hr. exact Hpoll.
  - intros _. exact Hphase.
  - intros Hx. congruence.
  - intros Hx. congruence.
  - rewrite Ha', Hd1, Hd2. rewrite Ha in Hdt. exact Hdt.
Qed.

Definition step_ok (s : sys) (o : op) : Prop :=
  match step true s o with Ok (s', _) => Inv s' | Rejected => True | Fault => False end.

(* the record of the acted connection is replaced, nothing else *)
Lemma put_only s c k k' : Inv s -> getc s c = Some k -> k_alive k = true ->
  GInv (put s c k') -> CInv (put s c k') c k' -> k_alive k' = true ->
  (if k_mapped k then 1 else 0) + k_urefs k <= (if k_mapped k' then 1 else 0) + k_urefs k' ->
  Inv (put s c k').
Proof.
  intros [HI HH] Hg Ha G' HC' Ha' Hle.
  assert (Hlt : c < length (s_conns s)) by (eapply getc_lt, Hg).
  split.
  - apply (inv0_frame s _ c HI G').
    + intros c1 Hn. split; [apply getc_put_neq; auto|apply same_for_put].
    + intros k1 Hk1. rewrite getc_put_eq in Hk1 by exact Hlt. injection Hk1 as <-. exact HC'.
  - apply (held_mono s _ HH). intros c1 k1 Hg1 Ha1. destruct (Nat.eq_dec c c1) as [<-|Hn].
    + exists k. split; [exact Hg|]. split; [exact Ha|].
      rewrite getc_put_eq in Hg1 by exact Hlt. injection Hg1 as <-.
      rewrite (holders_eq s c k Hg), (holders_eq (put s c k') c k' (getc_put_eq s c k' Hlt)).
      change (s_calls (put s c k')) with (s_calls s). change (allN (holds c) (put s c k')) with (allN (holds c) s). lia.
    + rewrite getc_put_neq in Hg1 by exact Hn. exists k1. split; [exact Hg1|]. split; [exact Ha1|].
      rewrite (holders_eq s c1 k1 Hg1). rewrite (holders_eq (put s c k') c1 k1) by (rewrite getc_put_neq by exact Hn; exact Hg1).
      change (s_calls (put s c k')) with (s_calls s). change (allN (holds c1) (put s c k')) with (allN (holds c1) s). lia.
Qed.

Lemma step_UGrab s c : Inv s -> step_ok s (UGrab c).
Proof.
  intros HI. unfold step_ok, step, on_conn. destruct (getc s c) as [k|] eqn:Hg; [|exact I].
  destruct (k_alive k && negb (cstate_eqb (k_st k) Connecting)) eqn:E; [|exact I]. cbn [ret].
  apply andb_prop in E as [Ha _]. destruct HI as [[G HC] HH] eqn:EI.
  set (k' := set_own k (k_ccb k) (k_mapped k) (S (k_urefs k)) (k_delayed k)).
  apply (put_only s c k k' (conj (conj G HC) HH) Hg Ha); [| |exact Ha|cbn; lia].
  - apply (ginv_put s c k k' G Hg eq_refl eq_refl); [auto|]. intros Hc.
    destruct (gi_cli s G c Hc) as (_ & k1 & Hk1 & _ & H2 & H3 & H4). rewrite Hg in Hk1. injection Hk1 as <-. auto.
  - pose proof (HC c k Hg) as HCk.
    apply (cinv_alive s (put s c k') c k k' HCk Ha Ha eq_refl eq_refl eq_refl (or_introl eq_refl));
      [apply (ci_idle s c k HCk Ha)|apply (ci_cnt s c k HCk Ha)|apply (ci_poll s c k HCk Ha)| |reflexivity|reflexivity].
    apply (phase_local s (put s c k') c k k' (ci_phase s c k HCk Ha)); auto. cbn. lia.
Qed.

(* a connection is replaced by a locally modified one (same owner entry, same phase) *)
Lemma put_local s c k k' : Inv0 s -> getc s c = Some k -> k_alive k = true -> k_alive k' = true ->
  k_loop k' = k_loop k -> k_ccb k' = k_ccb k -> k_mapped k' = k_mapped k -> k_added k' = k_added k ->
  (k_st k' = k_st k \/ (up_k k /\ up_k k')) ->
  (k_mapped k = false -> k_ccb k = CbDetail -> up_k k -> 1 <= k_urefs k -> 1 <= k_urefs k' \/ 1 <= todoN (isF c) s) ->
  (~ up_k k' -> k_wr k' = false /\ k_rd k' = false) ->
  counters_ok k' -> poller_ok (s_readd s) k' ->
  k_dtors k' = k_dtors k -> k_closes k' = k_closes k ->
  Inv0 (put s c k').
Proof.
  intros [G HC] Hg Ha Ha' Hl Hcb Hm Had Hst Hu Hidle Hcnt Hpoll Hd1 Hd2.
  assert (Hlt : c < length (s_conns s)) by (eapply getc_lt, Hg).
  pose proof (HC c k Hg) as HCk.
  apply (inv0_frame s _ c (conj G HC)).
  - apply (ginv_put s c k k' G Hg Hl); [congruence| |].
    { intros Hx. destruct Hst as [E|[_ [E|E]]]; congruence. }
    intros Hc.
    destruct (gi_cli s G c Hc) as (_ & k1 & Hk1 & _ & H2 & H3 & H4). rewrite Hg in Hk1. injection Hk1 as <-.
    split; [congruence|]. split; [congruence|]. destruct Hst as [E|[_ E]]; [unfold up_k in *; rewrite E; exact H4|exact E].
  - intros c1 Hn. split; [apply getc_put_neq; auto|apply same_for_put].
  - intros k1 Hk1. rewrite getc_put_eq in Hk1 by exact Hlt. injection Hk1 as <-.
    apply (cinv_alive s (put s c k') c k k' HCk Ha Ha' eq_refl eq_refl Hl (or_introl Hcb) Hidle Hcnt Hpoll); [|exact Hd1|exact Hd2].
    apply (phase_local s (put s c k') c k k' (ci_phase s c k HCk Ha)); auto.
Qed.

Lemma held_put s c k k' : Held s -> getc s c = Some k -> k_alive k = true ->
  (if k_mapped k then 1 else 0) + k_urefs k <= (if k_mapped k' then 1 else 0) + k_urefs k' ->
  Held (put s c k').
Proof.
  intros HH Hg Ha Hle. assert (Hlt : c < length (s_conns s)) by (eapply getc_lt, Hg).
  apply (held_mono s _ HH). intros c1 k1 Hg1 Ha1. destruct (Nat.eq_dec c c1) as [<-|Hn].
  - exists k. split; [exact Hg|]. split; [exact Ha|].
    rewrite getc_put_eq in Hg1 by exact Hlt. injection Hg1 as <-.
    rewrite (holders_eq s c k Hg), (holders_eq (put s c k') c k' (getc_put_eq s c k' Hlt)).
    change (s_calls (put s c k')) with (s_calls s). change (allN (holds c) (put s c k')) with (allN (holds c) s). lia.
  - rewrite getc_put_neq in Hg1 by exact Hn. exists k1. split; [exact Hg1|]. split; [exact Ha1|].
    rewrite (holders_eq s c1 k1 Hg1). rewrite (holders_eq (put s c k') c1 k1) by (rewrite getc_put_neq by exact Hn; exact Hg1).
    change (s_calls (put s c k')) with (s_calls s). change (allN (holds c1) (put s c k')) with (allN (holds c1) s). lia.
Qed.

Ltac on_conn_start HI Hg Ha Hnc :=
  unfold step_ok, step, on_lconn, on_conn;
  match goal with |- match (match getc ?s ?c with _ => _ end) with _ => _ end =>
    destruct (getc s c) as [k|] eqn:Hg; [|exact I];
    destruct (k_alive k && negb (cstate_eqb (k_st k) Connecting)) eqn:E; [|exact I];
    apply andb_prop in E as [Ha Hnc]; apply negb_true_iff in Hnc;
    try (destruct (gone s (k_loop k)); [exact I|])
  end.

Lemma counters_disc k : counters_ok k -> up_k k -> counters_ok (set_life k Disconnecting (k_ups k) (k_downs k)).
Proof. unfold counters_ok, up_k. cbn. intros H [E|E]; rewrite E in H; exact H. Qed.

Lemma poller_set_life r k st u d : poller_ok r k -> poller_ok r (set_life k st u d).
Proof. intros H. exact H. Qed.

Lemma step_LShutdown s c : Inv s -> step_ok s (LShutdown c).
Proof.
  intros [HI HH]. on_conn_start HI Hg Ha Hnc. cbn [ret].
  destruct (cstate_eqb (k_st k) Connected) eqn:Ec; [|split; assumption].
  apply cs_eqb_true in Ec.
  set (k1 := set_life k Disconnecting (k_ups k) (k_downs k)).
  assert (Hup : up_k k) by (left; exact Ec).
  pose proof (proj2 HI c k Hg) as HCk.
  assert (Hk' : exists k', shutdown_in_loop k1 = k' /\ (k' = k1 \/ k' = set_fin k1)).
  { unfold shutdown_in_loop. destruct (k_wr k1); eauto. }
  destruct Hk' as (k' & -> & Hk').
  split.
  - apply (put_local s c k _ HI Hg Ha); destruct Hk' as [-> | ->]; cbn; auto;
      try (right; split; [exact Hup|right; reflexivity]);
      try (intros Hx; exfalso; apply Hx; right; reflexivity);
      try (apply (counters_disc k (ci_cnt s c k HCk Ha) Hup));
      try (apply (ci_poll s c k HCk Ha)).
  - apply (held_put s c k _ HH Hg Ha). destruct Hk' as [-> | ->]; cbn; lia.
Qed.

(* ---- queueing a functor that is not one of the life-cycle functors ---------------------------------- *)
Definition plain (t : task) : bool :=
  match t with TEstablish _ | TRemove _ | TDestroy _ | TForceClose _ => false | _ => true end.

Lemma plain_not_life c t : plain t = true ->
  isE c t = false /\ isR c t = false /\ isD c t = false /\ isF c t = false /\ life_of c t = None.
Proof. unfold life_of. destruct t; cbn; intros H; try discriminate; auto. Qed.

Lemma phase_transfer s s' c k :
  s_srv s' = s_srv s -> s_cli s' = s_cli s -> s_cliconn s' = s_cliconn s ->
  todoN (isE c) s' = todoN (isE c) s -> todoN (isR c) s' = todoN (isR c) s ->
  todoN (isD c) s' = todoN (isD c) s -> todoN (isF c) s' = todoN (isF c) s ->
  first_life c (loop_todo s' (k_loop k)) = first_life c (loop_todo s (k_loop k)) ->
  phase s c k -> phase s' c k.
Proof.
  intros H1 H2 H3 H4 H5 H6 H7 H8 Hp. unfold phase, owner_alive in *.
  rewrite H1, H2, H3, H4, H5, H6, H7, H8. exact Hp.
Qed.

Lemma enq_plain s l t : Inv0 s -> plain t = true -> placed s l t ->
  (task_strong t = true -> exists k, getc s (task_conn t) = Some k /\ k_alive k = true) ->
  Inv0 (enq s l t).
Proof.
  intros [G HC] Hpl Hplaced Hstrong.
  split; [apply ginv_enq; assumption|].
  intros c k Hg. rewrite getc_enq in Hg. pose proof (HC c k Hg) as HCk.
  destruct (about c t) eqn:Eab.
  - destruct (plain_not_life c t Hpl) as (HE & HR & HD & HF & Hlife).
    destruct (enq_fields s l t) as (F1 & F2 & F3 & F4 & F5 & F6).
    destruct (getl s l) as [v|] eqn:Ev; [|rewrite (enq_none s l t Ev); exact HCk].
    destruct HCk as [Hl Hi Hc Hp Hph Hd Hds Hdt].
    constructor; auto.
    + rewrite F1. exact Hl.
    + rewrite F2. exact Hp.
    + intros Ha. apply (phase_transfer s (enq s l t) c k F3 F4 F5); try (rewrite (todoN_enq _ s l t v Ev), ?HE, ?HR, ?HD, ?HF; lia); [|apply Hph, Ha].
      destruct (Nat.eq_dec l (k_loop k)) as [<-|Hn].
      * rewrite (loop_todo_enq_eq s l t v Ev). apply first_life_snoc_none, Hlife.
      * rewrite loop_todo_enq_neq by exact Hn. reflexivity.
    + intros Ha. specialize (Hd Ha). rewrite (holders_eq s c k Hg) in Hd.
      rewrite (holders_eq (enq s l t) c k) by (rewrite getc_enq; exact Hg). rewrite F6, (allN_enq _ s l t v Ev).
      assert (Hh : holds c t = false).
      { unfold holds. destruct (task_strong t) eqn:Es; [|apply andb_false_r].
        destruct (Hstrong eq_refl) as (k1 & Hk1 & Ha1).
        assert (Ec : task_conn t = c) by (destruct t; cbn in Eab; try discriminate; apply Nat.eqb_eq, Eab).
        rewrite Ec, Hg in Hk1. injection Hk1 as <-. congruence. }
      rewrite Hh. lia.
  - apply (same_for_cinv s (enq s l t) c k (same_for_enq s l t c Eab) Hg); [rewrite getc_enq; exact Hg|exact HCk].
Qed.

Lemma held_enq s l t : Held s -> Held (enq s l t).
Proof.
  intros HH. apply (held_mono s _ HH). intros c k Hg Ha. rewrite getc_enq in Hg.
  exists k. split; [exact Hg|]. split; [exact Ha|].
  rewrite (holders_eq s c k Hg), (holders_eq (enq s l t) c k) by (rewrite getc_enq; exact Hg).
  destruct (enq_fields s l t) as (_ & _ & _ & _ & _ & F6). rewrite F6.
  destruct (getl s l) as [v|] eqn:Ev; [rewrite (allN_enq _ s l t v Ev); lia|rewrite (enq_none s l t Ev); lia].
Qed.

Lemma about_eq c t : about c t = true -> t <> TOther /\ task_conn t = c.
Proof. destruct t; cbn; intros H; try discriminate; split; try discriminate; apply Nat.eqb_eq, H. Qed.

(* queueing forceCloseInLoop for a connection that is up *)
Lemma enq_force s c k : Inv0 s -> getc s c = Some k -> k_alive k = true -> k_st k <> Connecting ->
  Inv0 (enq s (k_loop k) (TForceClose c)).
Proof.
  intros [G HC] Hg Ha Hup. set (l := k_loop k). set (t := TForceClose c).
  pose proof (HC c k Hg) as HCk.
  destruct (getl_valid s l G (proj1 (ci_loop s c k HCk))) as [v Ev].
  destruct (enq_fields s l t) as (F1 & F2 & F3 & F4 & F5 & F6).
  split.
  - apply ginv_enq; [exact G|]. split; [reflexivity|]. split; [intros ?; split; [intros Hx; discriminate Hx|discriminate]|]. exists k. auto.
  - intros c1 k1 Hg1. rewrite getc_enq in Hg1. destruct (about c1 t) eqn:Eab.
    + destruct (about_eq c1 t Eab) as [_ Ec]. cbn in Ec. subst c1. rewrite Hg in Hg1. injection Hg1 as <-.
      apply (cinv_alive s (enq s l t) c k k HCk Ha Ha F1 F2 eq_refl (or_introl eq_refl));
        [apply (ci_idle s c k HCk Ha)|apply (ci_cnt s c k HCk Ha)|apply (ci_poll s c k HCk Ha)| |reflexivity|reflexivity].
      apply (phase_local s (enq s l t) c k k (ci_phase s c k HCk Ha)); auto;
        try (rewrite (todoN_enq _ s l t v Ev); unfold t; cbn [isE isR isD isF]; rewrite ?Nat.eqb_refl; lia).
      * intros Hx. congruence.
      * intros x Hx. fold l. rewrite (loop_todo_enq_eq s l t v Ev). apply first_life_app_some, Hx.
    + apply (same_for_cinv s (enq s l t) c1 k1 (same_for_enq s l t c1 Eab) Hg1); [rewrite getc_enq; exact Hg1|apply HC, Hg1].
Qed.

Lemma force_close_inv s c : Inv0 s -> Held s -> Inv0 (force_close s c) /\ Held (force_close s c).
Proof.
  intros HI HH. unfold force_close. destruct (getc s c) as [k|] eqn:Hg; [|split; assumption].
  destruct (k_closable k) eqn:Ecl; [|split; assumption].
  apply closable_up_k in Ecl.
  destruct (k_alive k) eqn:Ha.
  - set (k' := set_life k Disconnecting (k_ups k) (k_downs k)).
    pose proof (proj2 HI c k Hg) as HCk.
    assert (HI1 : Inv0 (put s c k')).
    { apply (put_local s c k k' HI Hg Ha); cbn; auto.
      - right. split; [exact Ecl|right; reflexivity].
      - intros Hx. exfalso. apply Hx. right. reflexivity.
      - apply (counters_disc k (ci_cnt s c k HCk Ha) Ecl).
      - apply (ci_poll s c k HCk Ha). }
    assert (Hg1 : getc (put s c k') c = Some k') by (apply getc_put_eq; eapply getc_lt, Hg).
    split.
    + apply (enq_force (put s c k') c k' HI1 Hg1 Ha). cbn. discriminate.
    + apply held_enq, (held_put s c k k' HH Hg Ha). cbn. lia.
  - (* a dead connection is never closable *)
    exfalso. destruct (ci_deadst s c k (proj2 HI c k Hg) Ha) as (E & _). destruct Ecl as [E1|E1]; congruence.
Qed.

Lemma step_LForceClose s c : Inv s -> step_ok s (LForceClose c).
Proof.
  intros [HI HH]. on_conn_start HI Hg Ha Hnc. cbn [ret].
  destruct (force_close_inv s c HI HH). split; assumption.
Qed.

Lemma step_LForceCloseDelay s c : Inv s -> step_ok s (LForceCloseDelay c).
Proof.
  intros [HI HH]. on_conn_start HI Hg Ha Hnc. cbn [ret].
  destruct (k_closable k) eqn:Ecl; [|split; assumption]. apply closable_up_k in Ecl.
  pose proof (proj2 HI c k Hg) as HCk.
  split.
  - apply (put_local s c k _ HI Hg Ha); cbn; auto.
    + right. split; [exact Ecl|right; reflexivity].
    + intros Hx. exfalso. apply Hx. right. reflexivity.
    + apply (counters_disc k (ci_cnt s c k HCk Ha) Ecl).
    + apply (ci_poll s c k HCk Ha).
  - apply (held_put s c k _ HH Hg Ha). cbn. lia.
Qed.

Lemma read_toggle_inv s c k rd fl : Inv0 s -> Held s -> getc s c = Some k -> k_alive k = true -> up_k k -> k_added k = true ->
  Inv0 (put s c (set_rflag (chan_update (s_readd s) k (k_wr k) rd) fl)) /\
  Held (put s c (set_rflag (chan_update (s_readd s) k (k_wr k) rd) fl)).
Proof.
  intros HI HH Hg Ha Hup Hadd.
  pose proof (proj2 HI c k Hg) as HCk.
  pose proof (chan_update_fields (s_readd s) k (k_wr k) rd) as F. cbv zeta in F.
  destruct F as (F1 & F2 & F3 & F4 & F5 & F6 & F7 & F8 & F9 & F10 & F11 & F12 & F13 & F14 & F15 & F16 & F17).
  split.
  - apply (put_local s c k _ HI Hg Ha); cbn [set_rflag k_alive k_loop k_ccb k_mapped k_added k_st k_urefs k_wr k_rd k_dtors k_closes]; try congruence.
    + left. exact F1.
    + intros Hx. left. lia.
    + intros Hx. exfalso. apply Hx. unfold up_k in *. cbn. rewrite F1. exact Hup.
    + pose proof (ci_cnt s c k HCk Ha) as Hc. unfold counters_ok in *. cbn. rewrite F1, F13, F14. exact Hc.
    + apply (chan_update_poller (s_readd s) k (k_wr k) rd).
  - apply (held_put s c k _ HH Hg Ha). cbn. rewrite F9, F10. lia.
Qed.

Lemma start_read_inv s c : Inv0 s -> Held s ->
  (forall k, getc s c = Some k -> k_alive k = true /\ k_st k <> Connecting /\ k_added k = true) ->
  Inv0 (start_read s c) /\ Held (start_read s c).
Proof.
  intros HI HH Hpre. unfold start_read. destruct (getc s c) as [k|] eqn:Hg; [|split; assumption].
  destruct (negb (cstate_eqb (k_st k) Disconnected) && (negb (k_rflag k) || negb (k_rd k))) eqn:E; [|split; assumption].
  destruct (Hpre k eq_refl) as (Ha & Hnc & Hadd). apply andb_prop in E as [E _]. apply negb_true_iff, cs_eqb_false in E.
  apply (read_toggle_inv s c k true true HI HH Hg Ha); [|exact Hadd]. unfold up_k. destruct (k_st k); intuition congruence.
Qed.

Lemma stop_read_inv s c : Inv0 s -> Held s ->
  (forall k, getc s c = Some k -> k_alive k = true /\ k_st k <> Connecting /\ k_added k = true) ->
  Inv0 (stop_read s c) /\ Held (stop_read s c).
Proof.
  intros HI HH Hpre. unfold stop_read. destruct (getc s c) as [k|] eqn:Hg; [|split; assumption].
  destruct (negb (cstate_eqb (k_st k) Disconnected) && (k_rflag k || k_rd k)) eqn:E; [|split; assumption].
  destruct (Hpre k eq_refl) as (Ha & Hnc & Hadd). apply andb_prop in E as [E _]. apply negb_true_iff, cs_eqb_false in E.
  apply (read_toggle_inv s c k false false HI HH Hg Ha); [|exact Hadd]. unfold up_k. destruct (k_st k); intuition congruence.
Qed.

Lemma step_LStartRead s c : Inv s -> step_ok s (LStartRead c).
Proof.
  intros [HI HH]. on_conn_start HI Hg Ha Hnc. destruct (k_added k) eqn:Hadd; [|exact I]. cbn [ret].
  destruct (start_read_inv s c HI HH); [|split; assumption].
  intros k1 Hk1. rewrite Hg in Hk1. injection Hk1 as <-. apply cs_eqb_false in Hnc. auto.
Qed.

Lemma step_LStopRead s c : Inv s -> step_ok s (LStopRead c).
Proof.
  intros [HI HH]. on_conn_start HI Hg Ha Hnc. destruct (k_added k) eqn:Hadd; [|exact I]. cbn [ret].
  destruct (stop_read_inv s c HI HH); [|split; assumption].
  intros k1 Hk1. rewrite Hg in Hk1. injection Hk1 as <-. apply cs_eqb_false in Hnc. auto.
Qed.

Lemma send_in_loop_inv s c full wc : Inv0 s -> Held s ->
  (forall k, getc s c = Some k -> k_alive k = true /\ k_st k <> Connecting) ->
  Inv0 (send_in_loop s c full wc) /\ Held (send_in_loop s c full wc).
Proof.
  intros HI HH Hpre. unfold send_in_loop. destruct (getc s c) as [k|] eqn:Hg; [|split; assumption].
  destruct (cstate_eqb (k_st k) Disconnected) eqn:Ed; [split; assumption|]. apply cs_eqb_false in Ed.
  destruct (k_wr k) eqn:Ew; [split; assumption|]. destruct (k_fin k); [split; assumption|].
  destruct (Hpre k eq_refl) as (Ha & Hnc).
  assert (Hup : up_k k) by (unfold up_k; destruct (k_st k); intuition congruence).
  pose proof (proj2 HI c k Hg) as HCk.
  destruct full.
  - destruct wc; [|split; assumption]. split; [|apply held_enq, HH].
    apply (enq_plain s (k_loop k) (TUserCb c) HI eq_refl).
    + split; [reflexivity|]. split; [intros ?; split; [intros Hx; discriminate Hx|discriminate]|]. exists k. auto.
    + intros _. exists k. auto.
  - pose proof (ci_phase s c k HCk Ha) as Hph.
    assert (Hadd : k_added k = true).
    { unfold phase in Hph. destruct Hup as [E|E]; rewrite E in Hph; apply Hph. }
    pose proof (chan_update_fields (s_readd s) k true (k_rd k)) as F. cbv zeta in F.
    destruct F as (F1 & F2 & F3 & F4 & F5 & F6 & F7 & F8 & F9 & F10 & F11 & F12 & F13 & F14 & F15 & F16 & F17).
    split.
    + apply (put_local s c k _ HI Hg Ha); try congruence.
      * left. exact F1.
      * intros Hx. left. lia.
      * intros Hx. exfalso. apply Hx. unfold up_k in *. rewrite F1. exact Hup.
      * pose proof (ci_cnt s c k HCk Ha) as Hc. unfold counters_ok in *. rewrite F1, F13, F14. exact Hc.
      * apply chan_update_poller.
    + apply (held_put s c k _ HH Hg Ha). rewrite F9, F10. lia.
Qed.

Lemma step_LSend s c full wc : Inv s -> step_ok s (LSend c full wc).
Proof.
  intros [HI HH]. on_conn_start HI Hg Ha Hnc. cbn [ret].
  destruct (cstate_eqb (k_st k) Connected); [|split; assumption].
  destruct (send_in_loop_inv s c full wc HI HH); [|split; assumption].
  intros k1 Hk1. rewrite Hg in Hk1. injection Hk1 as <-. apply cs_eqb_false in Hnc. auto.
Qed.

(* fields the invariant does not look at: delayed, fin, rflag *)
Definition same_core (k k' : lc) : Prop :=
  k_st k' = k_st k /\ k_wr k' = k_wr k /\ k_rd k' = k_rd k /\ k_added k' = k_added k /\ k_pidx k' = k_pidx k /\
  k_loop k' = k_loop k /\ k_alive k' = k_alive k /\ k_ccb k' = k_ccb k /\ k_mapped k' = k_mapped k /\
  k_urefs k' = k_urefs k /\ k_ups k' = k_ups k /\ k_downs k' = k_downs k /\ k_dtors k' = k_dtors k /\ k_closes k' = k_closes k.

Lemma put_core s c k k' : Inv0 s -> Held s -> getc s c = Some k -> same_core k k' ->
  Inv0 (put s c k') /\ Held (put s c k').
Proof.
  intros [G HC] HH Hg (E1 & E2 & E3 & E4 & E5 & E6 & E7 & E8 & E9 & E10 & E11 & E12 & E13 & E14).
  assert (Hlt : c < length (s_conns s)) by (eapply getc_lt, Hg).
  pose proof (HC c k Hg) as HCk.
  split.
  - apply (inv0_frame s _ c (conj G HC)).
    + apply (ginv_put s c k k' G Hg E6 E7); [congruence|]. intros Hc.
      destruct (gi_cli s G c Hc) as (_ & k1 & Hk1 & _ & H2 & H3 & H4). rewrite Hg in Hk1. injection Hk1 as <-.
      unfold up_k in *. rewrite E1, E9, E8. auto.
    + intros c1 Hn. split; [apply getc_put_neq; auto|apply same_for_put].
    + intros k1 Hk1. rewrite getc_put_eq in Hk1 by exact Hlt. injection Hk1 as <-.
      destruct HCk as [Hl Hi Hc Hp Hph Hd Hds Hdt].
      constructor; unfold up_k, counters_ok, poller_ok, k_none, phase, owner_alive in *;
        rewrite ?E1, ?E2, ?E3, ?E4, ?E5, ?E6, ?E7, ?E8, ?E9, ?E10, ?E11, ?E12, ?E13, ?E14; auto.
      intros Hx. rewrite (holders_eq (put s c k') c k' (getc_put_eq s c k' Hlt)), E9, E10.
      specialize (Hd Hx). rewrite (holders_eq s c k Hg) in Hd. exact Hd.
  - apply (held_mono s _ HH). intros c1 k1 Hg1 Ha1. destruct (Nat.eq_dec c c1) as [<-|Hn].
    + rewrite getc_put_eq in Hg1 by exact Hlt. injection Hg1 as <-. exists k. split; [exact Hg|]. split; [congruence|].
      rewrite (holders_eq s c k Hg), (holders_eq (put s c k') c k' (getc_put_eq s c k' Hlt)), E9, E10.
      change (s_calls (put s c k')) with (s_calls s). change (allN (holds c) (put s c k')) with (allN (holds c) s). lia.
    + rewrite getc_put_neq in Hg1 by exact Hn. exists k1. split; [exact Hg1|]. split; [exact Ha1|].
      rewrite (holders_eq s c1 k1 Hg1). rewrite (holders_eq (put s c k') c1 k1) by (rewrite getc_put_neq by exact Hn; exact Hg1).
      change (s_calls (put s c k')) with (s_calls s). change (allN (holds c1) (put s c k')) with (allN (holds c1) s). lia.
Qed.

Lemma finish_ok s thr o : Inv0 s -> match finish (Ok (s, o)) thr with Ok (s', _) => Inv s' | Rejected => True | Fault => False end.
Proof. intros HI. destruct (finish_inv s thr o HI) as (s' & d & -> & HI' & _). exact HI'. Qed.

Lemma step_DelayFire s c : Inv s -> step_ok s (DelayFire c).
Proof.
  intros [HI HH]. unfold step_ok, step. destruct (getc s c) as [k|] eqn:Hg; [|exact I].
  destruct (k_delayed k) as [|n] eqn:Ed; [exact I|]. destruct (negb (loop_idle s (k_loop k))); [exact I|].
  set (k' := set_own k (k_ccb k) (k_mapped k) (k_urefs k) n).
  destruct (put_core s c k k' HI HH Hg) as [HI1 HH1]; [unfold same_core; cbn; auto 20|].
  cbn [ret]. apply finish_ok.
  destruct (k_alive k); [apply (force_close_inv _ c HI1 HH1)|exact HI1].
Qed.

Lemma step_UDrop s c : Inv s -> step_ok s (UDrop c).
Proof.
  intros [HI HH]. unfold step_ok, step. destruct (getc s c) as [k|] eqn:Hg; [|exact I].
  destruct (k_urefs k) as [|n] eqn:Eu; [exact I|].
  destruct (true && (n =? 0) && negb (k_mapped k) && k_closable k && match k_ccb k with CbDetail => true | _ => false end) eqn:Eg; [exact I|].
  cbn [ret]. apply finish_ok.
  pose proof (proj2 HI c k Hg) as HCk.
  destruct (k_alive k) eqn:Ha.
  - apply (put_local s c k _ HI Hg Ha); cbn; auto.
    + intros Hm Hcb Hup _. rewrite Hm, Hcb, (proj2 (closable_up_k k) Hup) in Eg. cbn in Eg.
      destruct n; [discriminate|]. left. lia.
    + apply (ci_idle s c k HCk Ha).
    + apply (ci_cnt s c k HCk Ha).
    + apply (ci_poll s c k HCk Ha).
  - pose proof (ci_dead s c k HCk Ha) as Hd. rewrite (holders_eq s c k Hg) in Hd. lia.
Qed.

(* ---- foreign calls in progress --------------------------------------------------------------------- *)
Lemma nodup_snoc {A} (l : list A) x : NoDup l -> ~ In x l -> NoDup (l ++ [x]).
Proof.
  induction 1 as [|y l Hy Hd IH]; intros Hx; cbn; [constructor; [tauto|constructor]|].
  constructor.
  - rewrite in_app_iff. cbn. intros [H|[H|[]]]; [auto|]. apply Hx. left. auto.
  - apply IH. intros H. apply Hx. right. exact H.
Qed.

Lemma find_call_none u l : find_call u l = None -> ~ In u (map a_thr l).
Proof.
  induction l as [|a l IH]; cbn; [tauto|]. destruct (a_thr a =? u) eqn:E; [discriminate|].
  apply Nat.eqb_neq in E. intros H [Hx|Hx]; [congruence|apply (IH H Hx)].
Qed.

Lemma find_call_some u l a : find_call u l = Some a -> In a l /\ a_thr a = u.
Proof.
  induction l as [|x l IH]; cbn; [discriminate|]. destruct (a_thr x =? u) eqn:E.
  - intros H. injection H as <-. apply Nat.eqb_eq in E. auto.
  - intros H. destruct (IH H). auto.
Qed.

Lemma drop_call_in u l a : In a (drop_call u l) -> In a l /\ a_thr a <> u.
Proof.
  unfold drop_call. rewrite filter_In. intros [H1 H2]. apply negb_true_iff, Nat.eqb_neq in H2. auto.
Qed.

Lemma drop_call_nodup u l : NoDup (map a_thr l) -> NoDup (map a_thr (drop_call u l)) /\ ~ In u (map a_thr (drop_call u l)).
Proof.
  induction l as [|a l IH]; cbn; [split; [constructor|tauto]|].
  intros H. inversion H as [|x xs Hn Hd]; subst. destruct (IH Hd) as [I1 I2].
  destruct (a_thr a =? u) eqn:E; cbn [negb]; [split; assumption|].
  apply Nat.eqb_neq in E. cbn [map]. split.
  - constructor; [|exact I1]. intros Hin. apply Hn. apply in_map_iff in Hin as (b & Hb & Hin).
    apply drop_call_in in Hin as [Hin _]. apply in_map_iff. eauto.
  - intros [Hx|Hx]; [congruence|exact (I2 Hx)].
Qed.

Lemma count_calls_app c l1 l2 : count_calls c (l1 ++ l2) = count_calls c l1 + count_calls c l2.
Proof. unfold count_calls. rewrite filter_app, app_length. reflexivity. Qed.

Lemma count_calls_drop_le c u l : count_calls c (drop_call u l) <= count_calls c l.
Proof.
  unfold count_calls, drop_call. induction l as [|a l IH]; cbn; [lia|].
  destruct (negb (a_thr a =? u)); cbn; destruct (a_conn a =? c); cbn; lia.
Qed.

Lemma count_calls_drop c u l a : NoDup (map a_thr l) -> find_call u l = Some a ->
  count_calls c (drop_call u l) + (if a_conn a =? c then 1 else 0) = count_calls c l.
Proof.
  unfold count_calls, drop_call. induction l as [|x l IH]; cbn [find_call]; [discriminate|].
  intros Hnd H. inversion Hnd as [|y ys Hn Hd]; subst. cbn [filter].
  destruct (a_thr x =? u) eqn:E.
  - injection H as <-. cbn [negb]. apply Nat.eqb_eq in E.
    assert (Hsame : filter (fun a => negb (a_thr a =? u)) l = l).
    { clear IH Hd Hnd. revert Hn. induction l as [|z l IHl]; intros Hn; [reflexivity|]. cbn [filter].
      destruct (a_thr z =? u) eqn:Ez.
      - exfalso. apply Hn. apply Nat.eqb_eq in Ez. cbn [map In]. left. congruence.
      - cbn [negb]. assert (Hn' : ~ In (a_thr x) (map a_thr l)) by (intro Hx; apply Hn; cbn [map In]; right; exact Hx).
        rewrite (IHl Hn'). reflexivity. }
    rewrite Hsame. destruct (a_conn x =? c); cbn; lia.
  - cbn [negb filter]. specialize (IH Hd H). destruct (a_conn x =? c); cbn [length]; lia.
Qed.

Lemma set_calls_inv0 s cl : Inv0 s ->
  NoDup (map a_thr cl) -> (forall a, In a cl -> exists k, getc s (a_conn a) = Some k /\ k_alive k = true /\ k_st k <> Connecting /\ a_api a <> ADtor) ->
  Inv0 (set_calls s cl).
Proof.
  intros [G HC] Hnd Hal. split.
  - destruct G as [G1 Gr G2 G3 G4]. constructor; auto.
  - intros c k Hg. change (getc (set_calls s cl) c) with (getc s c) in Hg.
    destruct (HC c k Hg) as [Hl Hi Hc Hp Hph Hd Hds Hdt]. constructor; auto.
    intros Ha. specialize (Hd Ha). rewrite (holders_eq s c k Hg) in Hd.
    rewrite (holders_eq (set_calls s cl) c k Hg). change (allN (holds c) (set_calls s cl)) with (allN (holds c) s).
    cbn [s_calls set_calls].
    assert (Hz : count_calls c cl = 0).
    { unfold count_calls. destruct (filter (fun a => a_conn a =? c) cl) as [|a r] eqn:Ef; [reflexivity|].
      assert (Hin : In a (filter (fun a => a_conn a =? c) cl)) by (rewrite Ef; left; reflexivity).
      apply filter_In in Hin as [Hin Hc1]. apply Nat.eqb_eq in Hc1. destruct (Hal a Hin) as (k1 & Hk1 & Ha1 & _ & _).
      rewrite Hc1, Hg in Hk1. injection Hk1 as <-. congruence. }
    lia.
Qed.

Lemma held_set_calls s cl : Held s -> (forall c, count_calls c (s_calls s) <= count_calls c cl) -> Held (set_calls s cl).
Proof.
  intros HH Hle. apply (held_mono s _ HH). intros c k Hg Ha. change (getc (set_calls s cl) c) with (getc s c) in Hg.
  exists k. split; [exact Hg|]. split; [exact Ha|].
  rewrite (holders_eq s c k Hg), (holders_eq (set_calls s cl) c k Hg). specialize (Hle c). cbn [s_calls set_calls].
  change (allN (holds c) (set_calls s cl)) with (allN (holds c) s). lia.
Qed.

Lemma step_XBegin s u c a : Inv s -> step_ok s (XBegin u c a).
Proof.
  intros [HI HH]. unfold step_ok, step. cbn [andb]. destruct (is_dtor a) eqn:Ed; [exact I|].
  destruct (find_call u (s_calls s)) eqn:Ef; [exact I|].
  unfold on_conn. destruct (getc s c) as [k|] eqn:Hg; [|exact I].
  destruct (k_alive k && negb (cstate_eqb (k_st k) Connecting)) eqn:E; [|exact I]. apply andb_prop in E as [Ha Hnc].
  apply negb_true_iff, cs_eqb_false in Hnc.
  cbn [ret]. destruct (gi_calls s (proj1 HI)) as [Hnd Hal]. split.
  - apply (set_calls_inv0 s _ HI).
    + rewrite map_app. cbn [map a_thr]. apply nodup_snoc; [exact Hnd|]. apply find_call_none, Ef.
    + intros x Hx. apply in_app_or in Hx as [Hx|[<-|[]]]; [apply Hal, Hx|]. exists k. cbn [a_conn a_api]. repeat split; auto.
      intros ->. discriminate.
  - apply (held_set_calls s _ HH). intros c1. rewrite count_calls_app. lia.
Qed.

Lemma calls_replace s u a a' : GInv s -> find_call u (s_calls s) = Some a -> a_thr a' = u -> a_conn a' = a_conn a -> a_api a' = a_api a ->
  NoDup (map a_thr (drop_call u (s_calls s) ++ [a'])) /\
  (forall x, In x (drop_call u (s_calls s) ++ [a']) -> exists k, getc s (a_conn x) = Some k /\ k_alive k = true /\ k_st k <> Connecting /\ a_api x <> ADtor) /\
  (forall c, count_calls c (drop_call u (s_calls s) ++ [a']) = count_calls c (s_calls s)).
Proof.
  intros G Hf Ht Hc Hapi. destruct (gi_calls s G) as [Hnd Hal]. destruct (find_call_some _ _ _ Hf) as [Hin Hthr].
  destruct (drop_call_nodup u _ Hnd) as [N1 N2]. split; [|split].
  - rewrite map_app. cbn [map]. rewrite Ht. apply nodup_snoc; assumption.
  - intros x Hx. apply in_app_or in Hx as [Hx|[<-|[]]].
    + apply drop_call_in in Hx as [Hx _]. apply Hal, Hx.
    + rewrite Hc, Hapi. apply Hal, Hin.
  - intros c. rewrite count_calls_app. pose proof (count_calls_drop c u _ a Hnd Hf) as E.
    unfold count_calls at 2. cbn [filter]. rewrite Hc. destruct (a_conn a =? c); cbn [length]; lia.
Qed.

Lemma step_XStore s u : Inv s -> step_ok s (XStore u).
Proof.
  intros [HI HH]. unfold step_ok, step. destruct (find_call u (s_calls s)) as [a|] eqn:Ef; [|exact I].
  destruct (a_stored a); [exact I|].
  destruct (find_call_some _ _ _ Ef) as [Hin Hthr].
  destruct (gi_calls s (proj1 HI)) as [Hnd Hal]. destruct (Hal a Hin) as (k & Hg & Ha & Hnc & Hnd'). rewrite Hg.
  assert (Edt : is_dtor (a_api a) = false) by (destruct (a_api a); try reflexivity; congruence). rewrite Edt.
  destruct (true && a_loaded a && cstate_eqb (k_st k) Disconnected) eqn:Eg; [exact I|].
  cbn [andb] in Eg.
  set (a' := mkCall u (a_conn a) (a_api a) (a_loaded a) true).
  destruct (calls_replace s u a a' (proj1 HI) Ef eq_refl eq_refl eq_refl) as (C1 & C2 & C3).
  pose proof (set_calls_inv0 s _ HI C1 C2) as HI1.
  pose proof (held_set_calls s _ HH (fun c => Nat.eq_le_incl _ _ (eq_sym (C3 c)))) as HH1.
  cbn [ret]. fold a'. destruct (a_loaded a) eqn:El; [|split; assumption].
  destruct (api_stores (a_api a)) eqn:Es; [|split; assumption]. cbn [andb].
  cbn [andb] in Eg. apply cs_eqb_false in Eg.
  (* the store does not overwrite kDisconnected (nor kConnecting: calls are made on established connections): the connection is up *)
  assert (Hup : up_k k) by (unfold up_k; destruct (k_st k); intuition congruence).
  set (s1 := set_calls s (drop_call u (s_calls s) ++ [a'])).
  assert (Hg1 : getc s1 (a_conn a) = Some k) by exact Hg.
  pose proof (proj2 HI1 (a_conn a) k Hg1) as HCk.
  split.
  - apply (put_local s1 (a_conn a) k _ HI1 Hg1 Ha); cbn; auto.
    + right. split; [exact Hup|right; reflexivity].
    + intros Hx. exfalso. apply Hx. right. reflexivity.
    + apply (counters_disc k (ci_cnt s1 _ k HCk Ha) Hup).
    + apply (ci_poll s1 _ k HCk Ha).
  - apply (held_put s1 (a_conn a) k _ HH1 Hg1 Ha). cbn. lia.
Qed.

Lemma step_XEnq s u pin : Inv s -> step_ok s (XEnq u pin).
Proof.
  intros [HI HH]. unfold step_ok, step. destruct (find_call u (s_calls s)) as [a|] eqn:Ef; [|exact I].
  destruct (negb (a_stored a)); [exact I|].
  destruct (find_call_some _ _ _ Ef) as [Hin Hthr].
  destruct (gi_calls s (proj1 HI)) as [Hnd Hal]. destruct (Hal a Hin) as (k & Hg & Ha & Hnc & Hnd'). rewrite Hg.
  assert (Edt : is_dtor (a_api a) = false) by (destruct (a_api a); try reflexivity; congruence). rewrite Edt.
  match goal with |- match (if ?b then _ else _) with _ => _ end => destruct b eqn:Eg end; [exact I|].
  destruct (a_loaded a && gone s (k_loop k)); [exact I|].
  set (s1 := set_calls s (drop_call u (s_calls s))).
  assert (HI1 : Inv0 s1).
  { destruct (drop_call_nodup u _ Hnd) as [N1 _]. apply (set_calls_inv0 s _ HI N1).
    intros x Hx. apply drop_call_in in Hx as [Hx _]. apply Hal, Hx. }
  assert (Hg1 : getc s1 (a_conn a) = Some k) by exact Hg.
  pose proof (proj2 HI1 _ k Hg1) as HCk.
  assert (Hpl : forall t, task_conn t = a_conn a -> t <> TOther -> (forall c', t <> TRemove c') -> (forall c', t <> TEstablish c') -> (forall c', t <> TSetCb c') ->
                raw_pinned t = true -> placed s1 (k_loop k) t).
  { intros t Ht Hno Hnr Hne Hns Hp. split; [exact Hp|]. split; [intros c0; split; [intros Hx; exfalso; apply (Hne c0 Hx)|apply Hns]|]. destruct t; try (exists k; rewrite Ht; auto); try congruence.
    all: exfalso; eapply Hnr; reflexivity. }
  apply finish_ok. cbn [ret].
  destruct (a_loaded a) eqn:El; [|exact HI1].
  cbn [andb] in Eg.
  destruct (a_api a) eqn:Eapi.
  - (* shutdown *) cbn [andb] in Eg. apply negb_false_iff in Eg. subst pin.
    apply enq_plain; [exact HI1|reflexivity|apply Hpl; cbn; auto; discriminate|]. intros _. exists k. auto.
  - (* forceClose *) apply (enq_force s1 (a_conn a) k HI1 Hg1 Ha Hnc).
  - (* forceCloseWithDelay *)
    apply enq_plain; [exact HI1|reflexivity|apply Hpl; cbn; auto; discriminate|]. discriminate.
  - cbn [andb] in Eg. apply negb_false_iff in Eg. subst pin.
    apply enq_plain; [exact HI1|reflexivity|apply Hpl; cbn; auto; discriminate|]. intros _. exists k. auto.
  - cbn [andb] in Eg. apply negb_false_iff in Eg. subst pin.
    apply enq_plain; [exact HI1|reflexivity|apply Hpl; cbn; auto; discriminate|]. intros _. exists k. auto.
  - cbn [andb] in Eg. apply negb_false_iff in Eg. subst pin.
    apply enq_plain; [exact HI1|reflexivity|apply Hpl; cbn; auto; discriminate|]. intros _. exists k. auto.
  - discriminate Edt.
Qed.

(* ---- the loop's batch ------------------------------------------------------------------------------ *)
Lemma set_loop_same s l v v' : Inv0 s -> getl s l = Some v ->
  q_todo v' = q_todo v -> (forall c, cnt (holds c) (q_all v') = cnt (holds c) (q_all v)) ->
  (forall t, In t (q_all v') -> In t (q_all v)) ->
  Inv0 (set_loop s l v').
Proof.
  intros [G HC] Hv Htodo Hall Hsub. split.
  - apply (ginv_set_loop s l v v' G Hv). intros t Ht. left. apply Hsub, Ht.
  - intros c k Hg. rewrite getc_set_loop in Hg.
    apply (same_for_cinv s (set_loop s l v') c k); [|exact Hg|exact Hg|apply HC, Hg].
    apply (same_for_set_loop s l v v' c Hv); rewrite ?Htodo; auto.
Qed.

Lemma held_set_loop s l v v' : Held s -> getl s l = Some v ->
  (forall c, cnt (holds c) (q_all v) <= cnt (holds c) (q_all v')) -> Held (set_loop s l v').
Proof.
  intros HH Hv Hle. apply (held_mono s _ HH). intros c k Hg Ha. rewrite getc_set_loop in Hg.
  exists k. split; [exact Hg|]. split; [exact Ha|].
  rewrite (holders_eq s c k Hg), (holders_eq (set_loop s l v') c k Hg).
  pose proof (allN_set_loop (holds c) s l v v' Hv). specialize (Hle c).
  change (s_calls (set_loop s l v')) with (s_calls s). lia.
Qed.

Lemma step_Swap s l : Inv s -> step_ok s (Swap l).
Proof.
  intros [HI HH]. unfold step_ok, step. destruct (getl s l) as [v|] eqn:Ev; [|exact I].
  destruct (q_idle v && negb (gone s l)) eqn:Eid; [|exact I]. apply andb_prop in Eid as [Eid _]. cbn [ret].
  unfold q_idle in Eid. destruct (q_batch v) eqn:Eb; [|discriminate]. destruct (q_spent v) eqn:Es; [|discriminate].
  fold (set_loop s l (mkLq [] (q_pend v) [] true)).
  assert (Hall : forall c, cnt (holds c) (q_all (mkLq [] (q_pend v) [] true)) = cnt (holds c) (q_all v)).
  { intros c. unfold q_all. cbn [q_pend q_batch q_spent]. rewrite Eb, Es. cbn [app]. rewrite app_nil_r. reflexivity. }
  split.
  - apply (set_loop_same s l v _ HI Ev); [unfold q_todo; cbn [q_pend q_batch]; rewrite Eb, app_nil_r; reflexivity|exact Hall|].
    intros t. unfold q_all. cbn [q_pend q_batch q_spent]. rewrite Eb, Es. cbn [app]. rewrite app_nil_r. auto.
  - apply (held_set_loop s l v _ HH Ev). intros c. rewrite Hall. lia.
Qed.

(* ---- running one functor --------------------------------------------------------------------------- *)
Lemma cnt_in p l t : In t l -> p t = true -> 1 <= cnt p l.
Proof.
  induction l as [|x l IH]; intros Hin Hp; [contradiction|]. rewrite cnt_cons. destruct Hin as [<-|Hin].
  - rewrite Hp. lia.
  - specialize (IH Hin Hp). lia.
Qed.

Lemma sumq_ge f ls i v : nth_error ls i = Some v -> f v <= sumq f ls.
Proof.
  unfold sumq. revert i. induction ls as [|y ls IH]; intros [|i] H; cbn in *; try discriminate.
  - injection H as ->. lia.
  - specialize (IH i H). lia.
Qed.

Lemma allN_in p s l v t : getl s l = Some v -> In t (q_all v) -> p t = true -> 1 <= allN p s.
Proof.
  intros Hv Hin Hp. pose proof (sumq_ge (fun l => cnt p (q_all l)) _ l v Hv). pose proof (cnt_in p _ t Hin Hp).
  unfold allN. cbn in *. lia.
Qed.

Lemma todoN_in p s l v t : getl s l = Some v -> In t (q_todo v) -> p t = true -> 1 <= todoN p s.
Proof.
  intros Hv Hin Hp. pose proof (sumq_ge (fun l => cnt p (q_todo l)) _ l v Hv). pose proof (cnt_in p _ t Hin Hp).
  unfold todoN. cbn in *. lia.
Qed.

Lemma strong_alive s l v t c k : Inv0 s -> getl s l = Some v -> In t (q_all v) -> holds c t = true ->
  getc s c = Some k -> k_alive k = true.
Proof.
  intros [G HC] Hv Hin Hh Hg. destruct (k_alive k) eqn:Ha; [reflexivity|].
  pose proof (ci_dead s c k (HC c k Hg) Ha) as Hd. rewrite (holders_eq s c k Hg) in Hd.
  pose proof (allN_in (holds c) s l v t Hv Hin Hh). lia.
Qed.

(* the state after the head of the batch has been moved to the functors that ran *)
Definition popped (v : lq) (t : task) (rest : list task) : lq := mkLq (q_pend v) rest (q_spent v ++ [t]) (q_drain v).

Lemma popped_all v t rest : q_batch v = t :: rest -> forall p, cnt p (q_all (popped v t rest)) = cnt p (q_all v).
Proof.
  intros Hb p. unfold q_all, popped. cbn [q_pend q_batch q_spent]. rewrite Hb, <- app_assoc. reflexivity.
Qed.

Lemma popped_in v t rest : q_batch v = t :: rest -> forall x, In x (q_all (popped v t rest)) -> In x (q_all v).
Proof.
  intros Hb x. unfold q_all, popped. cbn [q_pend q_batch q_spent]. rewrite Hb, !in_app_iff. cbn. intuition.
Qed.

Lemma popped_todo v t rest : q_batch v = t :: rest -> q_todo v = t :: q_todo (popped v t rest).
Proof. intros Hb. unfold q_todo, popped. cbn [q_pend q_batch]. rewrite Hb. reflexivity. Qed.

Lemma pop_same_for s l v t rest c : getl s l = Some v -> q_batch v = t :: rest -> about c t = false ->
  same_for s (set_loop s l (popped v t rest)) c.
Proof.
  intros Hv Hb Ha. destruct (about_false c t Ha) as (HE & HR & HD & HF & Hh & Hl).
  apply (same_for_set_loop s l v _ c Hv); rewrite ?(popped_todo v t rest Hb), ?cnt_cons, ?HE, ?HR, ?HD, ?HF; auto.
  - cbn [first_life]. rewrite Hl. reflexivity.
  - apply (popped_all v t rest Hb).
Qed.

Lemma pop_ginv s l v t rest : GInv s -> getl s l = Some v -> q_batch v = t :: rest -> GInv (set_loop s l (popped v t rest)).
Proof.
  intros G Hv Hb. apply (ginv_set_loop s l v _ G Hv). intros x Hx. left. apply (popped_in v t rest Hb x Hx).
Qed.

Lemma pop_held s l v t rest : Held s -> getl s l = Some v -> q_batch v = t :: rest -> Held (set_loop s l (popped v t rest)).
Proof.
  intros HH Hv Hb. apply (held_set_loop s l v _ HH Hv). intros c. rewrite (popped_all v t rest Hb). lia.
Qed.

(* a functor that is none of the four life-cycle functors leaves every phase alone *)
Lemma pop_plain_inv s l v t rest : Inv0 s -> getl s l = Some v -> q_batch v = t :: rest -> plain t = true ->
  Inv0 (set_loop s l (popped v t rest)).
Proof.
  intros [G HC] Hv Hb Hp. split; [apply (pop_ginv s l v t rest G Hv Hb)|].
  intros c k Hg. rewrite getc_set_loop in Hg.
  apply (same_for_cinv s _ c k); [|exact Hg|exact Hg|apply HC, Hg].
  destruct (plain_not_life c t Hp) as (HE & HR & HD & HF & Hl).
  apply (same_for_set_loop s l v _ c Hv); rewrite ?(popped_todo v t rest Hb), ?cnt_cons, ?HE, ?HR, ?HD, ?HF; auto.
  - cbn [first_life]. rewrite Hl. reflexivity.
  - apply (popped_all v t rest Hb).
Qed.

Lemma sumq_single f ls i v : nth_error ls i = Some v ->
  (forall j w, j <> i -> nth_error ls j = Some w -> f w = 0) -> sumq f ls = f v.
Proof.
  unfold sumq. revert i. induction ls as [|y ls IH]; intros [|i] H Hz; cbn in *; try discriminate.
  - injection H as ->. assert (E : fold_right (fun l n => f l + n) 0 ls = 0).
    { apply (sumq_zero f ls). intros l Hl. apply In_nth_error in Hl as [j Hj]. apply (Hz (S j) l); [lia|exact Hj]. }
    rewrite E. lia.
  - rewrite (IH i H); [|intros j w Hj Hw; apply (Hz (S j) w); [lia|exact Hw]].
    rewrite (Hz 0 y); [lia|lia|reflexivity].
Qed.

Lemma cnt_zero_notin p l : (forall t, In t l -> p t = false) -> cnt p l = 0.
Proof.
  induction l as [|x l IH]; intros H; [reflexivity|]. rewrite cnt_cons, (H x (or_introl eq_refl)), IH; [reflexivity|].
  intros t Ht. apply H. right. exact Ht.
Qed.

(* the life-cycle functors of connection c (other than the owner hop) sit in c's own loop *)
Lemma todoN_local p s c k : GInv s -> getc s c = Some k -> k_loop k <= s_nio s ->
  (forall t, p t = true -> task_conn t = c /\ t <> TOther /\ forall c', t <> TRemove c') ->
  todoN p s = cnt p (loop_todo s (k_loop k)).
Proof.
  intros G Hg Hle Hp. destruct (getl_valid s (k_loop k) G Hle) as [v Hv].
  unfold loop_todo. rewrite Hv. unfold todoN.
  apply (sumq_single (fun l => cnt p (q_todo l)) (s_loops s) (k_loop k) v Hv).
  intros j w Hj Hw. apply cnt_zero_notin. intros t Ht. destruct (p t) eqn:Ep; [|reflexivity]. exfalso.
  destruct (Hp t Ep) as (Hc & Hno & Hnr).
  assert (Hin : In t (q_all w)) by (rewrite q_all_todo; apply in_or_app; right; exact Ht).
  destruct (gi_placed s G j w t Hw Hin) as [_ [_ Hpl]].
  destruct t; try (destruct Hpl as (k1 & Hk1 & Hl1 & _); rewrite Hc, Hg in Hk1; injection Hk1 as <-; congruence); try congruence.
  all: eapply Hnr; reflexivity.
Qed.

Lemma isE_local c t : isE c t = true -> task_conn t = c /\ t <> TOther /\ forall c', t <> TRemove c'.
Proof. destruct t; cbn; try discriminate. intros H. apply Nat.eqb_eq in H. repeat split; try discriminate; auto. Qed.
Lemma isD_local c t : isD c t = true -> task_conn t = c /\ t <> TOther /\ forall c', t <> TRemove c'.
Proof. destruct t; cbn; try discriminate. intros H. apply Nat.eqb_eq in H. repeat split; try discriminate; auto. Qed.
Lemma isF_local c t : isF c t = true -> task_conn t = c /\ t <> TOther /\ forall c', t <> TRemove c'.
Proof. destruct t; cbn; try discriminate. intros H. apply Nat.eqb_eq in H. repeat split; try discriminate; auto. Qed.

Lemma first_life_D c l : cnt (isE c) l = 0 -> cnt (isF c) l = 0 -> 1 <= cnt (isD c) l -> first_life c l = Some LD.
Proof.
  induction l as [|t l IH]; [cbn; lia|]. rewrite !cnt_cons. cbn [first_life]. unfold life_of.
  destruct (isE c t); [lia|]. destruct (isD c t); [reflexivity|]. destruct (isF c t); [lia|]. cbn [plus]. exact IH.
Qed.

Lemma todoN_pop p s l v t rest : getl s l = Some v -> q_batch v = t :: rest ->
  todoN p (set_loop s l (popped v t rest)) + (if p t then 1 else 0) = todoN p s.
Proof.
  intros Hv Hb. pose proof (todoN_set_loop p s l v (popped v t rest) Hv) as E.
  rewrite (popped_todo v t rest Hb), cnt_cons in E. lia.
Qed.

Lemma loop_todo_pop s l v t rest : getl s l = Some v -> q_batch v = t :: rest ->
  loop_todo s l = t :: loop_todo (set_loop s l (popped v t rest)) l.
Proof.
  intros Hv Hb. rewrite (loop_todo_set_loop_eq s l v _ Hv). unfold loop_todo. rewrite Hv. apply popped_todo, Hb.
Qed.

Lemma cinv_build s c k : k_alive k = true ->
  k_loop k <= s_nio s -> (k_ccb k <> CbServer -> k_loop k = 0) ->
  (~ up_k k -> k_wr k = false /\ k_rd k = false) -> counters_ok k -> poller_ok (s_readd s) k -> phase s c k ->
  k_dtors k = 0 -> k_closes k = 0 -> CInv s c k.
Proof.
  intros Ha H1 H2 H3 H4 H5 H6 H7 H8. constructor; auto; try (intros Hx; congruence). rewrite Ha, H7, H8. auto.
Qed.

Definition est (readd : bool) (k : lc) : lc :=
  chan_update readd (set_life k Connected (S (k_ups k)) (k_downs k)) (k_wr k) true.
Definition closed (readd : bool) (k : lc) : lc :=
  chan_update readd (set_life k Disconnected (k_ups k) (S (k_downs k))) false false.
Definition unmapped (k : lc) : lc := set_own k (k_ccb k) false (k_urefs k) (k_delayed k).

Lemma isE_about c t : isE c t = true -> about c t = true.
Proof. destruct t; cbn; auto; discriminate. Qed.
Lemma about_other c c1 t : about c t = true -> c1 <> c -> about c1 t = false.
Proof.
  intros H Hn. destruct (about_eq c t H) as [Hno Hc]. destruct t; cbn in *; try congruence; apply Nat.eqb_neq; congruence.
Qed.

Lemma run_establish s l v c rest : Inv s -> getl s l = Some v -> q_batch v = TEstablish c :: rest ->
  match finish (run_task (set_loop s l (popped v (TEstablish c) rest)) l (TEstablish c) true true) l with
  | Ok (s', _) => Inv s' | Rejected => True | Fault => False end.
Proof.
  intros [[G HC] HH] Hv Hb. set (t := TEstablish c). set (s1 := set_loop s l (popped v t rest)).
  assert (Hin : In t (q_all v)) by (unfold q_all; rewrite Hb; apply in_or_app; right; left; reflexivity).
  destruct (gi_placed s G l v t Hv Hin) as [_ [Hne (k & Hg & Hl & _)]]. cbn [task_conn t] in Hg.
  assert (Hh : holds c t = true) by (unfold holds; cbn; rewrite Nat.eqb_refl; reflexivity).
  pose proof (strong_alive s l v t c k (conj G HC) Hv Hin Hh Hg) as Ha.
  pose proof (HC c k Hg) as HCk. pose proof (ci_phase s c k HCk Ha) as Hph.
  assert (HE1 : 1 <= todoN (isE c) s).
  { apply (todoN_in (isE c) s l v t Hv); [rewrite (popped_todo v t rest Hb); left; reflexivity|cbn; apply Nat.eqb_refl]. }
  assert (Hst : k_st k = Connecting).
  { unfold phase in Hph. destruct (k_st k); [reflexivity|destruct Hph as (_ & Hx & _); lia|destruct Hph as (_ & Hx & _); lia|destruct Hph as (Hx & _); lia]. }
  unfold phase in Hph. rewrite Hst in Hph. destruct Hph as (Hadd & Hcb & HE & HR & HF & Hfl & Hown).
  destruct (ci_idle s c k HCk Ha) as [Hwr Hrd]; [unfold up_k; rewrite Hst; intros [?|?]; discriminate|].
  pose proof (ci_cnt s c k HCk Ha) as Hcnt. unfold counters_ok in Hcnt. rewrite Hst in Hcnt. destruct Hcnt as [Hups Hdowns].
  (* the call succeeds *)
  unfold run_task, t, establish. change (getc s1 c) with (getc s c). rewrite Hg, Ha, Hl, Nat.eqb_refl, Hst. cbn [negb cstate_eqb emit set_life k_wr].
  fold (est (s_readd s1) k). change (s_readd s1) with (s_readd s).
  apply finish_ok. set (k' := est (s_readd s) k). set (s2 := put s1 c k').
  pose proof (chan_update_fields (s_readd s) (set_life k Connected (S (k_ups k)) (k_downs k)) (k_wr k) true) as F. cbv zeta in F.
  fold (est (s_readd s) k) in F. fold k' in F. cbn [set_life k_st k_rflag k_loop k_alive k_ccb k_mapped k_urefs k_delayed k_fin k_ups k_downs k_dtors k_closes] in F.
  destruct F as (F1 & F2 & F3 & F4 & F5 & F6 & F7 & F8 & F9 & F10 & F11 & F12 & F13 & F14 & F15 & F16 & F17).
  assert (G1 : GInv s1) by (apply (pop_ginv s l v t rest G Hv Hb)).
  apply (inv0_frame s s2 c (conj G HC)).
  - apply (ginv_put s1 c k k' G1 Hg); try congruence. intros Hc. exfalso.
    destruct (gi_cli s G c Hc) as (_ & k1 & Hk1 & _ & _ & _ & [Hu|Hu]); rewrite Hg in Hk1; injection Hk1 as <-; congruence.
  - intros c1 Hn. split; [unfold s2; rewrite getc_put_neq by auto; reflexivity|].
    apply (same_for_trans s s1 s2 c1); [|apply same_for_put].
    apply (pop_same_for s l v t rest c1 Hv Hb). cbn. apply Nat.eqb_neq. auto.
  - intros k2 Hk2. unfold s2 in Hk2. rewrite getc_put_eq in Hk2 by (eapply getc_lt, Hg). injection Hk2 as <-.
    destruct (ci_loop s c k HCk) as [L1 L2]. destruct (ci_dtor s c k HCk) as [D1 D2]. rewrite Ha in D1.
    apply cinv_build.
    + congruence.
    + change (s_nio s2) with (s_nio s). congruence.
    + intros Hx. rewrite F6. apply L2. congruence.
    + intros Hx. exfalso. apply Hx. left. exact F1.
    + unfold counters_ok. rewrite F1, F13, F14. lia.
    + apply chan_update_poller.
    + (* phase: Connected *)
      pose proof (todoN_pop (isE c) s l v t rest Hv Hb) as PE. pose proof (todoN_pop (isR c) s l v t rest Hv Hb) as PR.
      pose proof (todoN_pop (isD c) s l v t rest Hv Hb) as PD. pose proof (todoN_pop (isF c) s l v t rest Hv Hb) as PF.
      assert (Et : isE c t = true /\ isR c t = false /\ isD c t = false /\ isF c t = false)
        by (unfold t; cbn; rewrite Nat.eqb_refl; auto).
      destruct Et as (Et1 & Et2 & Et3 & Et4). rewrite Et1 in PE. rewrite Et2 in PR. rewrite Et3 in PD. rewrite Et4 in PF.
      fold s1 in PE, PR, PD, PF.
      unfold phase, owner_alive. rewrite F1, F5, F8, F9.
      change (todoN (isE c) s2) with (todoN (isE c) s1). change (todoN (isR c) s2) with (todoN (isR c) s1).
      change (todoN (isD c) s2) with (todoN (isD c) s1). change (todoN (isF c) s2) with (todoN (isF c) s1).
      change (s_srv s2) with (s_srv s). change (loop_todo s2 (k_loop k')) with (loop_todo s1 (k_loop k')).
      split; [reflexivity|]. split; [lia|]. split; [lia|].
      destruct Hown as [(Hm & HD & Hs)|(Hm & HD)].
      * left. rewrite Hm, Hcb. split; [reflexivity|]. split; [lia|exact Hs].
      * right. left. rewrite Hm. split; [reflexivity|]. split; [lia|]. split; [exact Hcb|].
        rewrite F6, Hl.
        assert (G1' : k_loop k <= s_nio s1) by (rewrite Hl in *; exact L1).
        assert (Hg1 : getc s1 c = Some k) by exact Hg.
        rewrite Hl in G1'.
        pose proof (todoN_local (isE c) s1 c k G1 Hg1 (eq_ind_r (fun x => x <= _) G1' Hl) (isE_local c)) as LE'.
        pose proof (todoN_local (isD c) s1 c k G1 Hg1 (eq_ind_r (fun x => x <= _) G1' Hl) (isD_local c)) as LD'.
        pose proof (todoN_local (isF c) s1 c k G1 Hg1 (eq_ind_r (fun x => x <= _) G1' Hl) (isF_local c)) as LF'.
        rewrite Hl in LE', LD', LF'.
        apply first_life_D; lia.
    + congruence.
    + congruence.
Qed.

Lemma invx_of_inv0 s c : Inv0 s -> InvX s c.
Proof. intros [G HC]. split; [exact G|]. intros c1 k1 _ Hg. apply HC, Hg. Qed.

Lemma invx_pop s l v t rest c : Inv0 s -> getl s l = Some v -> q_batch v = t :: rest -> about c t = true ->
  InvX (set_loop s l (popped v t rest)) c.
Proof.
  intros [G HC] Hv Hb Hab. split; [apply (pop_ginv s l v t rest G Hv Hb)|].
  intros c1 k1 Hn Hg. rewrite getc_set_loop in Hg.
  apply (same_for_cinv s _ c1 k1 (pop_same_for s l v t rest c1 Hv Hb (about_other c c1 t Hab Hn)) Hg Hg), HC, Hg.
Qed.

(* from "everything but c" to everything, when the step only touched c and queued functors about c *)
Lemma invx_close s s' c : InvX s c -> GInv s' ->
  (forall c1, c1 <> c -> getc s' c1 = getc s c1 /\ same_for s s' c1) ->
  (forall k, getc s' c = Some k -> CInv s' c k) -> Inv0 s'.
Proof.
  intros [G HC] G' Hfr Hc0. split; [exact G'|]. intros c1 k Hg.
  destruct (Nat.eq_dec c1 c) as [->|Hn]; [apply Hc0, Hg|].
  destruct (Hfr c1 Hn) as [Hgc Hsf]. rewrite Hgc in Hg.
  apply (same_for_cinv s s' c1 k Hsf Hg); [rewrite Hgc; exact Hg|apply (HC c1 k Hn Hg)].
Qed.

Lemma same_for_put_enq s c k' l t c1 : c1 <> c -> about c t = true -> same_for s (enq (put s c k') l t) c1.
Proof.
  intros Hn Hab. apply (same_for_trans s (put s c k') _ c1); [apply same_for_put|].
  apply same_for_enq, (about_other c c1 t Hab Hn).
Qed.

Lemma ginv_put_nc s c0 k k0 : GInv s -> getc s c0 = Some k -> k_loop k0 = k_loop k -> k_alive k0 = k_alive k ->
  (k_st k <> Connecting -> k_st k0 <> Connecting) -> s_cliconn s <> Some c0 -> GInv (put s c0 k0).
Proof. intros G Hg Hl Ha Hs Hn. apply (ginv_put s c0 k k0 G Hg Hl Ha Hs). intros Hc. contradiction. Qed.

Definition clear_cli (s : sys) : sys :=
  mkSys (s_nio s) (s_readd s) (s_conns s) (s_loops s) (s_rr s) (s_srv s) (s_cli s) None (s_calls s) (s_dying s) (s_stop s).

Lemma ginv_clear_cli s c k k0 : GInv s -> s_cliconn s = Some c -> getc s c = Some k ->
  k_loop k0 = k_loop k -> k_alive k0 = k_alive k -> (k_st k <> Connecting -> k_st k0 <> Connecting) ->
  GInv (clear_cli (put s c k0)).
Proof.
  intros [G1 Gr G2 [G3 G3'] G4] Hc Hg Hl Ha Hs.
  pose proof (conns_ext_put s c k k0 Hg Hl Hs) as Hext.
  constructor.
  - exact G1.
  - exact Gr.
  - intros l v t Hv Hin. apply (placed_mono s _ l t Hext). apply (G2 l v t Hv Hin).
  - split; [exact G3|]. intros a Hin. destruct (G3' a Hin) as (k1 & Hk1 & Ha1 & Hs1 & Hd1).
    change (getc (clear_cli (put s c k0)) (a_conn a)) with (getc (put s c k0) (a_conn a)).
    destruct (Nat.eq_dec c (a_conn a)) as [E|Hn].
    + exists k0. rewrite <- E, getc_put_eq by (eapply getc_lt, Hg). split; [reflexivity|]. rewrite <- E in Hk1.
      assert (k1 = k) by congruence. subst k1. split; [congruence|auto].
    + exists k1. rewrite getc_put_neq by exact Hn. auto.
  - intros c1 Hc1. discriminate.
Qed.

Lemma same_for_clear_cli s c1 : same_for s (clear_cli s) c1 -> True. Proof. auto. Qed.

(* TcpConnection::handleClose with its owner's close callback *)
Lemma handle_close_inv s thr c k :
  InvX s c -> getc s c = Some k -> k_alive k = true -> up_k k -> k_loop k = thr ->
  k_loop k <= s_nio s -> (k_ccb k <> CbServer -> k_loop k = 0) ->
  k_added k = true -> counters_ok k -> k_dtors k = 0 -> k_closes k = 0 ->
  todoN (isE c) s = 0 -> todoN (isR c) s = 0 -> todoN (isD c) s = 0 ->
  ((k_mapped k = true /\ owner_alive s c k) \/ (k_mapped k = false /\ k_ccb k = CbDetail)) ->
  exists s', handle_close s thr c = Ok (s', [ODown thr c]) /\ Inv0 s'.
Proof.
  intros [G HCx] Hg Ha Hup Hl Hle Hl0 Hadd Hcnt Hdt Hcl HE HR HD Hown.
  unfold handle_close. rewrite Hg, Hl, Nat.eqb_refl, (proj2 (closable_up_k k) Hup). cbn [negb bind emit].
  fold (closed (s_readd s) k). set (k1 := closed (s_readd s) k). set (s1 := put s c k1).
  pose proof (chan_update_fields (s_readd s) (set_life k Disconnected (k_ups k) (S (k_downs k))) false false) as F. cbv zeta in F.
  fold (closed (s_readd s) k) in F. fold k1 in F.
  cbn [set_life k_st k_rflag k_loop k_alive k_ccb k_mapped k_urefs k_delayed k_fin k_ups k_downs k_dtors k_closes] in F.
  destruct F as (F1 & F2 & F3 & F4 & F5 & F6 & F7 & F8 & F9 & F10 & F11 & F12 & F13 & F14 & F15 & F16 & F17).
  pose proof (chan_update_poller (s_readd s) (set_life k Disconnected (k_ups k) (S (k_downs k))) false false) as P1.
  fold (closed (s_readd s) k) in P1. fold k1 in P1.
  assert (Hlt : c < length (s_conns s)) by (eapply getc_lt, Hg).
  assert (Hg1 : getc s1 c = Some k1) by (apply getc_put_eq, Hlt).
  assert (Hu1 : k_ups k1 = 1 /\ k_downs k1 = 1).
  { unfold counters_ok in Hcnt. rewrite F13, F14. destruct Hup as [E|E]; rewrite E in Hcnt; lia. }
  assert (Hnc : k_st k <> Connecting -> k_st k1 <> Connecting) by (intros _; congruence).
  destruct (getl_valid s (k_loop k) G Hle) as [v Hv].
  (* how the invariant of c is rebuilt at the end *)
  assert (Hfin : forall s2 k2, GInv s2 ->
            (forall c1, c1 <> c -> getc s2 c1 = getc s c1 /\ same_for s s2 c1) ->
            getc s2 c = Some k2 ->
            k_st k2 = Disconnected -> k_wr k2 = false -> k_rd k2 = false -> k_added k2 = true -> k_pidx k2 = k_pidx k1 ->
            k_loop k2 = k_loop k -> k_alive k2 = true -> k_ccb k2 = k_ccb k -> k_ups k2 = 1 -> k_downs k2 = 1 ->
            k_dtors k2 = 0 -> k_closes k2 = 0 ->
            s_nio s2 = s_nio s -> s_readd s2 = s_readd s -> phase s2 c k2 -> Inv0 s2).
  { intros s2 k2 G2 Hfr Hk2 E1 E2 E3 E4 E5 E6 E7 E8 E9 E10 E11 E12 Hn2 Hr2 Hph2.
    apply (invx_close s s2 c (conj G HCx) G2 Hfr). intros k3 Hk3. rewrite Hk2 in Hk3. injection Hk3 as <-.
    apply cinv_build; auto.
    - rewrite Hn2. congruence.
    - intros Hx. rewrite E6. apply Hl0. congruence.
    - unfold counters_ok. rewrite E1. auto.
    - rewrite Hr2. unfold poller_ok, k_none in *. rewrite E4, E5, E2, E3. rewrite F5, F2, F3 in P1. exact P1. }
  destruct (k_ccb k) eqn:Ecb.
  - (* TcpServer::removeConnection *)
    destruct Hown as [(Hm & Hs)|(_ & Hx)]; [|discriminate]. unfold owner_alive in Hs. rewrite Ecb in Hs.
    assert (Hncli : s_cliconn s <> Some c).
    { intros Hc. destruct (gi_cli s G c Hc) as (_ & k0 & Hk0 & _ & _ & Hx & _). rewrite Hg in Hk0. injection Hk0 as <-. congruence. }
    pose proof (ginv_put_nc s c k k1 G Hg F6 F7 Hnc Hncli) as G1.
    unfold close_cb. rewrite Hg1, F8. change (s_srv s1) with (s_srv s). rewrite Hs. cbn [negb andb].
    destruct (thr =? 0) eqn:Et.
    + (* on the acceptor loop: removeConnectionInLoop runs inline *)
      unfold remove_in_loop. change (s_srv s1) with (s_srv s). rewrite Hs, Et, Hg1, F9, Hm. cbn [negb ret app].
      set (k2 := set_own k1 (k_ccb k1) false (k_urefs k1) (k_delayed k1)). set (t := TDestroy c).
      set (s2 := enq (put s1 c k2) (k_loop k1) t).
      assert (Hv2 : getl (put s1 c k2) (k_loop k1) = Some v) by (rewrite F6; exact Hv).
      assert (Hlt1 : c < length (s_conns s1)) by (unfold s1; rewrite length_conns_put; exact Hlt).
      destruct (enq_fields (put s1 c k2) (k_loop k1) t) as (N1 & N2 & N3 & N4 & N5 & N6).
      exists s2. split; [reflexivity|].
      apply (Hfin s2 k2); try (cbn; tauto); try reflexivity; try (cbn; congruence).
      * apply ginv_enq.
        -- apply (ginv_put_nc s1 c k1 k2 G1 Hg1 eq_refl eq_refl (fun H => H)). exact Hncli.
        -- split; [reflexivity|]. split; [intros ?; split; [intros Hx; discriminate Hx|discriminate]|]. exists k2. rewrite getc_put_eq by exact Hlt1. split; [reflexivity|]. split; [reflexivity|discriminate].
      * intros c1 Hn. split.
        -- unfold s2. rewrite getc_enq. unfold s1. rewrite !getc_put_neq by auto. reflexivity.
        -- apply (same_for_trans s s1 s2 c1); [apply same_for_put|]. apply same_for_put_enq; [exact Hn|]. cbn. apply Nat.eqb_refl.
      * unfold s2. rewrite getc_enq. apply getc_put_eq, Hlt1.
      * unfold phase. assert (Hs2 : k_st k2 = Disconnected) by exact F1. rewrite Hs2. fold s2.
        unfold s2. rewrite (todoN_enq (isE c) _ _ t v Hv2), (todoN_enq (isR c) _ _ t v Hv2), (todoN_enq (isD c) _ _ t v Hv2).
        unfold t. cbn [isE isR isD]. rewrite Nat.eqb_refl.
        change (todoN (isE c) (put s1 c k2)) with (todoN (isE c) s). change (todoN (isR c) (put s1 c k2)) with (todoN (isR c) s).
        change (todoN (isD c) (put s1 c k2)) with (todoN (isD c) s).
        split; [lia|]. right. left. cbn. split; [exact F5|]. split; [reflexivity|]. split; lia.
    + (* on an io loop: the hop to the acceptor loop is queued *)
      cbn [ret app]. set (t := TRemove c). set (s2 := enq s1 0 t).
      destruct (getl_valid s 0 G (Nat.le_0_l _)) as [v0 Hv0].
      assert (Hv2 : getl s1 0 = Some v0) by exact Hv0.
      destruct (enq_fields s1 0 t) as (N1 & N2 & N3 & N4 & N5 & N6).
      exists s2. split; [reflexivity|].
      apply (Hfin s2 k1); try reflexivity; try tauto; try congruence.
      * apply ginv_enq; [exact G1|]. split; [reflexivity|]. split; [intros ?; split; [intros Hx; discriminate Hx|discriminate]|]. split; [reflexivity|]. unfold s1. rewrite length_conns_put. exact Hlt.
      * intros c1 Hn. split.
        -- unfold s2. rewrite getc_enq. unfold s1. rewrite getc_put_neq by auto. reflexivity.
        -- apply same_for_put_enq; [exact Hn|]. cbn. apply Nat.eqb_refl.
      * unfold s2. rewrite getc_enq. exact Hg1.
      * unfold phase. rewrite F1. unfold s2.
        rewrite (todoN_enq (isE c) _ _ t v0 Hv2), (todoN_enq (isR c) _ _ t v0 Hv2), (todoN_enq (isD c) _ _ t v0 Hv2).
        unfold t. cbn [isE isR isD]. rewrite Nat.eqb_refl.
        change (todoN (isE c) s1) with (todoN (isE c) s). change (todoN (isR c) s1) with (todoN (isR c) s).
        change (todoN (isD c) s1) with (todoN (isD c) s). fold t. rewrite N3. change (s_srv s1) with (s_srv s).
        split; [lia|]. left. rewrite F5, F9, F8, Hm. repeat split; auto; lia.
  - (* TcpClient::removeConnection *)
    destruct Hown as [(Hm & Hs)|(_ & Hx)]; [|discriminate]. unfold owner_alive in Hs. rewrite Ecb in Hs. destruct Hs as [Hs Hcc].
    assert (Hl00 : k_loop k = 0) by (apply Hl0; discriminate).
    unfold close_cb. rewrite Hg1, F8. change (s_cli s1) with (s_cli s). change (s_cliconn s1) with (s_cliconn s).
    rewrite Hs, Hcc, <- Hl, Hl00, !Nat.eqb_refl. cbn [negb ret app].
    set (k2 := set_own k1 CbClient false (k_urefs k1) (k_delayed k1)). set (t := TDestroy c).
    match goal with |- exists s', Ok (enq ?sx 0 t, _) = _ /\ _ => set (s1c := sx) end.
    assert (Es1c : s1c = clear_cli (put (put s c k1) c k2)) by reflexivity.
    set (s2 := enq s1c 0 t).
    assert (Hv2 : getl s1c 0 = Some v) by (rewrite Hl00 in Hv; exact Hv).
    assert (Hlt1 : c < length (s_conns s1)) by (unfold s1; rewrite length_conns_put; exact Hlt).
    destruct (enq_fields s1c 0 t) as (N1 & N2 & N3 & N4 & N5 & N6).
    exists s2. split; [reflexivity|].
    assert (Hput2 : put (put s c k1) c k2 = put s c k2).
    { unfold put, set_conns. cbn. f_equal. clear. generalize (s_conns s) c. induction l as [|x l IH]; intros [|n]; cbn; auto. f_equal. apply IH. }
    apply (Hfin s2 k2); try (cbn; tauto); try reflexivity; try (cbn; congruence).
    + apply ginv_enq.
      * rewrite Es1c, Hput2. apply (ginv_clear_cli s c k k2 G Hcc Hg); cbn; auto.
      * split; [reflexivity|]. split; [intros ?; split; [intros Hx; discriminate Hx|discriminate]|]. exists k2. split; [|cbn; split; [congruence|discriminate]].
        change (getc s1c c) with (getc (put s1 c k2) c). apply getc_put_eq, Hlt1.
    + intros c1 Hn. split.
      * unfold s2. rewrite getc_enq. change (getc s1c c1) with (getc (put s1 c k2) c1). unfold s1. rewrite !getc_put_neq by auto. reflexivity.
      * apply (same_for_trans s s1c s2 c1); [|apply same_for_enq; cbn; apply Nat.eqb_neq; auto].
        (* clearing connection_ only matters to the connection it named *)
        constructor; try reflexivity.
        cbn. rewrite Hcc. split; [intros [_ Hx]; discriminate|]. intros [_ Hx]. injection Hx as Hx. congruence.
    + unfold s2. rewrite getc_enq. change (getc s1c c) with (getc (put s1 c k2) c). apply getc_put_eq, Hlt1.
    + unfold phase. assert (Hs2 : k_st k2 = Disconnected) by exact F1. rewrite Hs2. unfold s2.
      rewrite (todoN_enq (isE c) _ _ t v Hv2), (todoN_enq (isR c) _ _ t v Hv2), (todoN_enq (isD c) _ _ t v Hv2).
      unfold t. cbn [isE isR isD]. rewrite Nat.eqb_refl.
      change (todoN (isE c) s1c) with (todoN (isE c) s). change (todoN (isR c) s1c) with (todoN (isR c) s).
      change (todoN (isD c) s1c) with (todoN (isD c) s).
      split; [lia|]. right. left. cbn. split; [exact F5|]. split; [reflexivity|]. split; lia.
  - (* detail::removeConnection *)
    destruct Hown as [(_ & Hs)|(Hm & _)]; [unfold owner_alive in Hs; rewrite Ecb in Hs; contradiction|].
    assert (Hncli : s_cliconn s <> Some c).
    { intros Hc. destruct (gi_cli s G c Hc) as (_ & k0 & Hk0 & _ & _ & Hx & _). rewrite Hg in Hk0. injection Hk0 as <-. congruence. }
    pose proof (ginv_put_nc s c k k1 G Hg F6 F7 Hnc Hncli) as G1.
    unfold close_cb. rewrite Hg1, F8. cbn [ret app]. set (t := TDestroy c). set (s2 := enq s1 (k_loop k1) t).
    assert (Hv2 : getl s1 (k_loop k1) = Some v) by (rewrite F6; exact Hv).
    destruct (enq_fields s1 (k_loop k1) t) as (N1 & N2 & N3 & N4 & N5 & N6).
    exists s2. split; [reflexivity|].
    apply (Hfin s2 k1); try reflexivity; try tauto; try congruence.
    + apply ginv_enq; [exact G1|]. split; [reflexivity|]. split; [intros ?; split; [intros Hx; discriminate Hx|discriminate]|]. exists k1. split; [exact Hg1|]. split; [reflexivity|discriminate].
    + intros c1 Hn. split.
      * unfold s2. rewrite getc_enq. unfold s1. rewrite getc_put_neq by auto. reflexivity.
      * apply same_for_put_enq; [exact Hn|]. cbn. apply Nat.eqb_refl.
    + unfold s2. rewrite getc_enq. exact Hg1.
    + unfold phase. rewrite F1. unfold s2.
      rewrite (todoN_enq (isE c) _ _ t v Hv2), (todoN_enq (isR c) _ _ t v Hv2), (todoN_enq (isD c) _ _ t v Hv2).
      unfold t. cbn [isE isR isD]. rewrite Nat.eqb_refl.
      change (todoN (isE c) s1) with (todoN (isE c) s). change (todoN (isR c) s1) with (todoN (isR c) s).
      change (todoN (isD c) s1) with (todoN (isD c) s).
      split; [lia|]. right. left. rewrite F5, F9, Hm. repeat split; auto; lia.
Qed.

Lemma run_forceclose s l v c rest : Inv s -> getl s l = Some v -> q_batch v = TForceClose c :: rest ->
  match finish (run_task (set_loop s l (popped v (TForceClose c) rest)) l (TForceClose c) true true) l with
  | Ok (s', _) => Inv s' | Rejected => True | Fault => False end.
Proof.
  intros [[G HC] HH] Hv Hb. set (t := TForceClose c). set (s1 := set_loop s l (popped v t rest)).
  assert (Hin : In t (q_all v)) by (unfold q_all; rewrite Hb; apply in_or_app; right; left; reflexivity).
  destruct (gi_placed s G l v t Hv Hin) as [_ [_ (k & Hg & Hl & Hnc)]]. cbn [task_conn t] in Hg. specialize (Hnc eq_refl).
  assert (Hh : holds c t = true) by (unfold holds; cbn; rewrite Nat.eqb_refl; reflexivity).
  pose proof (strong_alive s l v t c k (conj G HC) Hv Hin Hh Hg) as Ha.
  pose proof (HC c k Hg) as HCk. pose proof (ci_phase s c k HCk Ha) as Hph.
  assert (Hab : about c t = true) by (cbn; apply Nat.eqb_refl).
  pose proof (invx_pop s l v t rest c (conj G HC) Hv Hb Hab) as HX. fold s1 in HX.
  assert (Et : isE c t = false /\ isR c t = false /\ isD c t = false) by (unfold t; cbn; auto).
  destruct Et as (Et1 & Et2 & Et3).
  pose proof (todoN_pop (isE c) s l v t rest Hv Hb) as PE. pose proof (todoN_pop (isR c) s l v t rest Hv Hb) as PR.
  pose proof (todoN_pop (isD c) s l v t rest Hv Hb) as PD. rewrite Et1 in PE. rewrite Et2 in PR. rewrite Et3 in PD. fold s1 in PE, PR, PD.
  assert (PE' : todoN (isE c) s1 = todoN (isE c) s) by lia. assert (PR' : todoN (isR c) s1 = todoN (isR c) s) by lia.
  assert (PD' : todoN (isD c) s1 = todoN (isD c) s) by lia. clear PE PR PD.
  destruct (ci_loop s c k HCk) as [L1 L2]. destruct (ci_dtor s c k HCk) as [D1 D2]. rewrite Ha in D1.
  unfold run_task, t. change (getc s1 c) with (getc s c). rewrite Hg.
  destruct (k_closable k) eqn:Ecl.
  - apply closable_up_k in Ecl.
    destruct (handle_close_inv s1 l c k HX Hg Ha Ecl Hl) as (s' & -> & HI'); auto; try lia; try congruence.
    + unfold phase in Hph. destruct Ecl as [E|E]; rewrite E in Hph; apply Hph.
    + apply (ci_cnt s c k HCk Ha).
    + unfold phase in Hph. destruct Ecl as [E|E]; rewrite E in Hph; destruct Hph as (_ & Hx & _); lia.
    + unfold phase in Hph. destruct Ecl as [E|E]; rewrite E in Hph; destruct Hph as (_ & _ & Hx & _); lia.
    + assert (Hcase : (k_mapped k = true /\ todoN (isD c) s = 0 /\ owner_alive s c k) \/
                      (k_mapped k = false /\ todoN (isD c) s = 0 /\ k_ccb k = CbDetail)).
      { unfold phase in Hph.
        assert (Hb4 : k_mapped k = true /\ todoN (isD c) s = 0 /\ owner_alive s c k \/
                k_mapped k = false /\ todoN (isD c) s = 1 /\ k_ccb k = CbServer /\ first_life c (loop_todo s (k_loop k)) = Some LD \/
                k_mapped k = false /\ todoN (isD c) s = 0 /\ k_ccb k = CbDetail /\ (1 <= k_urefs k \/ 1 <= todoN (isF c) s))
          by (destruct Ecl as [E|E]; rewrite E in Hph; apply Hph).
        destruct Hb4 as [B|[(_ & _ & _ & B)|(B1 & B2 & B3 & _)]]; [left; exact B| |right; auto].
        exfalso. rewrite Hl, (loop_todo_pop s l v t rest Hv Hb) in B. cbn [first_life] in B. unfold life_of, t in B. cbn in B.
        rewrite Nat.eqb_refl in B. discriminate. }
      destruct Hcase as [(B1 & B2 & B3)|(B1 & B2 & B3)]; lia.
    + unfold phase in Hph.
      assert (Hb4 : k_mapped k = true /\ todoN (isD c) s = 0 /\ owner_alive s c k \/
              k_mapped k = false /\ todoN (isD c) s = 1 /\ k_ccb k = CbServer /\ first_life c (loop_todo s (k_loop k)) = Some LD \/
              k_mapped k = false /\ todoN (isD c) s = 0 /\ k_ccb k = CbDetail /\ (1 <= k_urefs k \/ 1 <= todoN (isF c) s))
        by (destruct Ecl as [E|E]; rewrite E in Hph; apply Hph).
      destruct Hb4 as [(B1 & _ & B3)|[(_ & _ & _ & B)|(B1 & _ & B3 & _)]]; [left; auto| |right; auto].
      exfalso. rewrite Hl, (loop_todo_pop s l v t rest Hv Hb) in B. cbn [first_life] in B. unfold life_of, t in B. cbn in B.
      rewrite Nat.eqb_refl in B. discriminate.
    + cbn [app]. apply finish_ok, HI'.
  - (* the connection was closed in the meantime: the functor does nothing *)
    apply closable_false_k in Ecl. destruct Ecl as [E|E]; [congruence|].
    apply finish_ok. apply (invx_close s1 s1 c HX (proj1 HX)).
    + intros c1 Hn. split; [reflexivity|apply same_for_refl].
    + intros k2 Hk2. change (getc s1 c) with (getc s c) in Hk2. rewrite Hg in Hk2. injection Hk2 as <-.
      apply cinv_build; auto.
      * apply (ci_idle s c k HCk Ha).
      * apply (ci_cnt s c k HCk Ha).
      * apply (ci_poll s c k HCk Ha).
      * unfold phase in *. rewrite E in *. rewrite PE', PR', PD'. exact Hph.
      * lia.
Qed.

Lemma interest_up s c k : CInv s c k -> k_alive k = true -> k_wr k = true \/ k_rd k = true -> up_k k.
Proof.
  intros HC Ha Hi. destruct (k_st k) eqn:E; unfold up_k; auto.
  - destruct (ci_idle s c k HC Ha) as [H1 H2]; [unfold up_k; rewrite E; intros [?|?]; discriminate|]. destruct Hi; congruence.
  - destruct (ci_idle s c k HC Ha) as [H1 H2]; [unfold up_k; rewrite E; intros [?|?]; discriminate|]. destruct Hi; congruence.
Qed.

Lemma phase_up_cases s c k : phase s c k -> up_k k ->
  k_added k = true /\ todoN (isE c) s = 0 /\ todoN (isR c) s = 0 /\
  ((k_mapped k = true /\ todoN (isD c) s = 0 /\ owner_alive s c k) \/
   (k_mapped k = false /\ todoN (isD c) s = 1 /\ k_ccb k = CbServer /\
    first_life c (loop_todo s (k_loop k)) = Some LD) \/
   (k_mapped k = false /\ todoN (isD c) s = 0 /\ k_ccb k = CbDetail /\ (1 <= k_urefs k \/ 1 <= todoN (isF c) s))).
Proof. unfold phase. intros H [E|E]; rewrite E in H; exact H. Qed.

Lemma ev_close s c k : Inv0 s -> getc s c = Some k -> k_alive k = true -> up_k k ->
  (match k_ccb k with CbServer => negb (s_srv s) || negb (k_mapped k) | CbClient => negb (s_cli s) | CbDetail => false end) = false ->
  match finish (handle_close s (k_loop k) c) (k_loop k) with Ok (s', _) => Inv s' | Rejected => True | Fault => False end.
Proof.
  intros HI Hg Ha Hup Horph. pose proof (proj2 HI c k Hg) as HCk.
  destruct (phase_up_cases s c k (ci_phase s c k HCk Ha) Hup) as (Hadd & HE & HR & Hcase).
  destruct (ci_loop s c k HCk) as [L1 L2]. destruct (ci_dtor s c k HCk) as [D1 D2]. rewrite Ha in D1.
  assert (HD : todoN (isD c) s = 0 /\ ((k_mapped k = true /\ owner_alive s c k) \/ (k_mapped k = false /\ k_ccb k = CbDetail))).
  { destruct Hcase as [(B1 & B2 & B3)|[(B1 & B2 & B3 & _)|(B1 & B2 & B3 & _)]]; auto.
    exfalso. rewrite B3, B1, orb_true_r in Horph. discriminate. }
  destruct HD as [HD Hown].
  destruct (handle_close_inv s (k_loop k) c k (invx_of_inv0 s c HI) Hg Ha Hup eq_refl L1 L2 Hadd (ci_cnt s c k HCk Ha)) as (s' & -> & HI');
    auto; try lia.
  apply finish_ok, HI'.
Qed.

Lemma step_Ev s c e : Inv s -> step_ok s (Ev c e).
Proof.
  intros [HI HH]. unfold step_ok, step. destruct (getc s c) as [k|] eqn:Hg; [|exact I].
  unfold ev_step. rewrite Hg.
  destruct (k_alive k && k_added k && k_inset k && loop_idle s (k_loop k)) eqn:Epre; [|exact I]. cbn [negb].
  apply andb_prop in Epre as [Epre _]. apply andb_prop in Epre as [Epre Hins]. apply andb_prop in Epre as [Ha Hadd].
  pose proof (proj2 HI c k Hg) as HCk.
  set (orphan := match k_ccb k with CbServer => negb (s_srv s) || negb (k_mapped k) | CbClient => negb (s_cli s) | CbDetail => false end).
  destruct e.
  - destruct (k_rd k); [|exact I]. apply finish_ok, HI.
  - destruct (k_rd k) eqn:Erd; [|exact I]. cbn [andb]. destruct orphan eqn:Eo; [exact I|].
    apply (ev_close s c k HI Hg Ha); [|exact Eo]. apply (interest_up s c k HCk Ha). right. exact Erd.
  - destruct (k_rd k); [|exact I]. apply finish_ok, HI.
  - cbn [andb]. destruct ((s_readd s && k_none k) || orphan) eqn:Eg; [exact I|].
    apply orb_false_iff in Eg as [Eg Eo].
    apply (ev_close s c k HI Hg Ha); [|exact Eo]. apply (interest_up s c k HCk Ha).
    unfold k_inset in Hins. destruct (k_pidx k) eqn:Ep; try discriminate.
    destruct (k_none k) eqn:En.
    + rewrite (proj2 (ci_poll s c k HCk Ha) Ep En) in Eg. discriminate.
    + unfold k_none in En. apply negb_false_iff, orb_prop in En. exact En.
  - apply finish_ok, HI.
  - destruct (k_wr k) eqn:Ewr; [|exact I]. destruct drained; [|apply finish_ok, HI].
    assert (Hup : up_k k) by (apply (interest_up s c k HCk Ha); left; exact Ewr).
    pose proof (chan_update_fields (s_readd s) k false (k_rd k)) as F. cbv zeta in F.
    destruct F as (F1 & F2 & F3 & F4 & F5 & F6 & F7 & F8 & F9 & F10 & F11 & F12 & F13 & F14 & F15 & F16 & F17).
    set (k1 := chan_update (s_readd s) k false (k_rd k)) in *.
    set (k2 := if cstate_eqb (k_st k) Disconnecting then shutdown_in_loop k1 else k1).
    assert (Hcore : same_core k1 k2).
    { unfold k2, shutdown_in_loop, same_core. destruct (cstate_eqb (k_st k) Disconnecting); [|repeat split].
      destruct (k_wr k1) eqn:Ew1; cbn; repeat split; auto. }
    destruct Hcore as (E1 & E2 & E3 & E4 & E5 & E6 & E7 & E8 & E9 & E10 & E11 & E12 & E13 & E14).
    assert (HI1 : Inv0 (put s c k2)).
    { apply (put_local s c k k2 HI Hg Ha); try congruence.
      - left. congruence.
      - intros _ _ _ Hu. left. lia.
      - intros Hx. exfalso. apply Hx. unfold up_k in *. rewrite E1, F1. exact Hup.
      - pose proof (ci_cnt s c k HCk Ha) as Hc. unfold counters_ok in *. rewrite E1, E11, E12, F1, F13, F14. exact Hc.
      - pose proof (chan_update_poller (s_readd s) k false (k_rd k)) as P. fold k1 in P. unfold poller_ok, k_none in *.
        rewrite E4, E5, E2, E3. exact P. }
    cbn [ret]. apply finish_ok. destruct wc; [|exact HI1].
    apply enq_plain; [exact HI1|reflexivity| |].
    + split; [reflexivity|]. split; [intros ?; split; [intros Hx; discriminate Hx|discriminate]|]. exists k2. rewrite getc_put_eq by (eapply getc_lt, Hg). split; [reflexivity|]. split; [congruence|].
      intros _. rewrite E1, F1. destruct Hup; congruence.
    + intros _. exists k2. rewrite getc_put_eq by (eapply getc_lt, Hg). split; [reflexivity|congruence].
Qed.

Lemma phase_cnt_st s c k : phase s c k -> 1 <= todoN (isR c) s ->
  k_st k = Disconnected /\ k_added k = true /\ k_mapped k = true /\ todoN (isR c) s = 1 /\ todoN (isD c) s = 0 /\
  todoN (isE c) s = 0 /\ k_ccb k = CbServer /\ s_srv s = true.
Proof.
  unfold phase. intros H HR. destruct (k_st k).
  - destruct H as (_ & _ & _ & Hx & _). lia.
  - destruct H as (_ & _ & Hx & _). lia.
  - destruct H as (_ & _ & Hx & _). lia.
  - destruct H as (HE & [(A1 & A2 & A3 & A4 & A5 & A6)|[(_ & _ & Hx & _)|(_ & _ & Hx & _)]]); [auto 10|lia|lia].
Qed.

Lemma run_remove s l v c rest : Inv s -> getl s l = Some v -> q_batch v = TRemove c :: rest ->
  match finish (run_task (set_loop s l (popped v (TRemove c) rest)) l (TRemove c) true true) l with
  | Ok (s', _) => Inv s' | Rejected => True | Fault => False end.
Proof.
  intros [[G HC] HH] Hv Hb. set (t := TRemove c). set (s1 := set_loop s l (popped v t rest)).
  assert (Hin : In t (q_all v)) by (unfold q_all; rewrite Hb; apply in_or_app; right; left; reflexivity).
  destruct (gi_placed s G l v t Hv Hin) as [_ [_ (Hl0 & Hlt)]].
  destruct (getc s c) as [k|] eqn:Hg; [|unfold getc in Hg; apply nth_error_None in Hg; lia].
  assert (Hh : holds c t = true) by (unfold holds; cbn; rewrite Nat.eqb_refl; reflexivity).
  pose proof (strong_alive s l v t c k (conj G HC) Hv Hin Hh Hg) as Ha.
  pose proof (HC c k Hg) as HCk.
  assert (HR1 : 1 <= todoN (isR c) s).
  { apply (todoN_in (isR c) s l v t Hv); [rewrite (popped_todo v t rest Hb); left; reflexivity|cbn; apply Nat.eqb_refl]. }
  destruct (phase_cnt_st s c k (ci_phase s c k HCk Ha) HR1) as (Hst & Hadd & Hm & HR & HD & HE & Hcb & Hsrv).
  assert (Hab : about c t = true) by (cbn; apply Nat.eqb_refl).
  pose proof (invx_pop s l v t rest c (conj G HC) Hv Hb Hab) as HX. fold s1 in HX.
  assert (Et : isE c t = false /\ isR c t = true /\ isD c t = false) by (unfold t; cbn; rewrite Nat.eqb_refl; auto).
  destruct Et as (Et1 & Et2 & Et3).
  pose proof (todoN_pop (isE c) s l v t rest Hv Hb) as PE. pose proof (todoN_pop (isR c) s l v t rest Hv Hb) as PR.
  pose proof (todoN_pop (isD c) s l v t rest Hv Hb) as PD. rewrite Et1 in PE. rewrite Et2 in PR. rewrite Et3 in PD. fold s1 in PE, PR, PD.
  destruct (ci_loop s c k HCk) as [L1 L2]. destruct (ci_dtor s c k HCk) as [D1 D2]. rewrite Ha in D1.
  unfold run_task, t, remove_in_loop. change (s_srv s1) with (s_srv s). change (getc s1 c) with (getc s c).
  rewrite Hsrv, Hl0, Hg, Hm. cbn [negb Nat.eqb ret].
  apply finish_ok. set (k2 := set_own k (k_ccb k) false (k_urefs k) (k_delayed k)). set (t2 := TDestroy c).
  set (s2 := enq (put s1 c k2) (k_loop k) t2).
  destruct (getl_valid s (k_loop k) G L1) as [vk Hvk].
  assert (Hncli : s_cliconn s <> Some c).
  { intros Hc. destruct (gi_cli s G c Hc) as (_ & k0 & Hk0 & _ & _ & Hx & _). rewrite Hg in Hk0. injection Hk0 as <-. congruence. }
  assert (Hg1 : getc s1 c = Some k) by exact Hg.
  assert (Hlt1 : c < length (s_conns s1)) by exact Hlt.
  assert (Hvk1 : exists vk1, getl (put s1 c k2) (k_loop k) = Some vk1).
  { apply (getl_valid (put s1 c k2) (k_loop k)); [|exact L1]. apply (ginv_put_nc s1 c k k2 (proj1 HX) Hg1 eq_refl eq_refl (fun H => H) Hncli). }
  destruct Hvk1 as [vk1 Hvk1].
  apply (invx_close s1 s2 c HX).
  - apply ginv_enq.
    + apply (ginv_put_nc s1 c k k2 (proj1 HX) Hg1 eq_refl eq_refl (fun H => H) Hncli).
    + split; [reflexivity|]. split; [intros ?; split; [intros Hx; discriminate Hx|discriminate]|]. exists k2. rewrite getc_put_eq by exact Hlt1. split; [reflexivity|]. split; [reflexivity|discriminate].
  - intros c1 Hn. split.
    + unfold s2. rewrite getc_enq, getc_put_neq by auto. reflexivity.
    + apply same_for_put_enq; [exact Hn|]. cbn. apply Nat.eqb_refl.
  - intros k3 Hk3. unfold s2 in Hk3. rewrite getc_enq, getc_put_eq in Hk3 by exact Hlt1. injection Hk3 as <-.
    destruct (enq_fields (put s1 c k2) (k_loop k) t2) as (N1 & N2 & N3 & N4 & N5 & N6).
    apply cinv_build; cbn [k2 set_own k_alive k_loop k_ccb k_wr k_rd k_st k_dtors k_closes]; auto.
    + unfold s2. rewrite N1. exact L1.
    + intros _. apply (ci_idle s c k HCk Ha). unfold up_k. rewrite Hst. intros [?|?]; discriminate.
    + apply (ci_cnt s c k HCk Ha).
    + unfold s2. rewrite N2. apply (ci_poll s c k HCk Ha).
    + unfold phase. cbn [k2 set_own k_st k_added k_mapped k_ccb]. rewrite Hst. unfold s2.
      rewrite (todoN_enq (isE c) _ _ t2 vk1 Hvk1), (todoN_enq (isR c) _ _ t2 vk1 Hvk1), (todoN_enq (isD c) _ _ t2 vk1 Hvk1).
      unfold t2. cbn [isE isR isD]. rewrite Nat.eqb_refl.
      change (todoN (isE c) (put s1 c k2)) with (todoN (isE c) s1). change (todoN (isR c) (put s1 c k2)) with (todoN (isR c) s1).
      change (todoN (isD c) (put s1 c k2)) with (todoN (isD c) s1).
      split; [lia|]. right. left. repeat split; auto; lia.
    + lia.
Qed.

Lemma run_destroy s l v c rest : Inv s -> getl s l = Some v -> q_batch v = TDestroy c :: rest ->
  match finish (run_task (set_loop s l (popped v (TDestroy c) rest)) l (TDestroy c) true true) l with
  | Ok (s', _) => Inv s' | Rejected => True | Fault => False end.
Proof.
  intros [[G HC] HH] Hv Hb. set (t := TDestroy c). set (s1 := set_loop s l (popped v t rest)).
  assert (Hin : In t (q_all v)) by (unfold q_all; rewrite Hb; apply in_or_app; right; left; reflexivity).
  destruct (gi_placed s G l v t Hv Hin) as [_ [Hne (k & Hg & Hl & _)]]. cbn [task_conn t] in Hg.
  assert (Hh : holds c t = true) by (unfold holds; cbn; rewrite Nat.eqb_refl; reflexivity).
  pose proof (strong_alive s l v t c k (conj G HC) Hv Hin Hh Hg) as Ha.
  pose proof (HC c k Hg) as HCk. pose proof (ci_phase s c k HCk Ha) as Hph.
  assert (HD1 : 1 <= todoN (isD c) s).
  { apply (todoN_in (isD c) s l v t Hv); [rewrite (popped_todo v t rest Hb); left; reflexivity|cbn; apply Nat.eqb_refl]. }
  assert (Hab : about c t = true) by (cbn; apply Nat.eqb_refl).
  pose proof (invx_pop s l v t rest c (conj G HC) Hv Hb Hab) as HX. fold s1 in HX.
  assert (Et : isE c t = false /\ isR c t = false /\ isD c t = true) by (unfold t; cbn; rewrite Nat.eqb_refl; auto).
  destruct Et as (Et1 & Et2 & Et3).
  pose proof (todoN_pop (isE c) s l v t rest Hv Hb) as PE. pose proof (todoN_pop (isR c) s l v t rest Hv Hb) as PR.
  pose proof (todoN_pop (isD c) s l v t rest Hv Hb) as PD. rewrite Et1 in PE. rewrite Et2 in PR. rewrite Et3 in PD. fold s1 in PE, PR, PD.
  destruct (ci_loop s c k HCk) as [L1 L2]. destruct (ci_dtor s c k HCk) as [D1 D2]. rewrite Ha in D1.
  (* the head of the loop's todo list is this TDestroy: the connection is not kConnecting *)
  assert (Hfirst : first_life c (loop_todo s (k_loop k)) = Some LD).
  { rewrite Hl, (loop_todo_pop s l v t rest Hv Hb). cbn [first_life]. unfold life_of, t. cbn. rewrite Nat.eqb_refl. reflexivity. }
  assert (Hcases : (up_k k /\ k_added k = true /\ k_mapped k = false /\ todoN (isD c) s = 1 /\ todoN (isR c) s = 0 /\ todoN (isE c) s = 0) \/
                   (k_st k = Disconnected /\ k_added k = true /\ k_mapped k = false /\ todoN (isD c) s = 1 /\ todoN (isR c) s = 0 /\ todoN (isE c) s = 0)).
  { unfold phase in Hph. destruct (k_st k) eqn:Est.
    - destruct Hph as (_ & _ & _ & _ & _ & Hx & _). congruence.
    - left. destruct Hph as (A1 & A2 & A3 & [(_ & Hx & _)|[(B1 & B2 & _)|(_ & Hx & _)]]); try lia. split; [left; exact Est|auto 10].
    - left. destruct Hph as (A1 & A2 & A3 & [(_ & Hx & _)|[(B1 & B2 & _)|(_ & Hx & _)]]); try lia. split; [right; exact Est|auto 10].
    - right. destruct Hph as (A1 & [(_ & _ & _ & Hx & _)|[(B1 & B2 & B3 & B4)|(_ & _ & _ & Hx)]]); try lia. auto 10. }
  assert (Hncli : s_cliconn s <> Some c).
  { intros Hc. destruct (gi_cli s G c Hc) as (_ & k0 & Hk0 & _ & Hx & _). rewrite Hg in Hk0. injection Hk0 as <-.
    destruct Hcases as [(_ & _ & Hy & _)|(_ & _ & Hy & _)]; congruence. }
  assert (Hg1 : getc s1 c = Some k) by exact Hg.
  assert (Hlt : c < length (s_conns s1)) by (eapply getc_lt, Hg1).
  unfold run_task, t, connect_destroyed. rewrite Hg1, Ha, Hl, Nat.eqb_refl. cbn [negb].
  (* the record after connectDestroyed *)
  assert (Hres : exists k2 o, (let '(k1, o) := if k_closable k
                   then (chan_update (s_readd s1) (set_life k Disconnected (k_ups k) (S (k_downs k))) false false, [ODown l c])
                   else (k, []) in
                 match chan_remove k1 with Ok k2 => emit (put s1 c k2) o | _ => Fault end) = Ok (put s1 c k2, o) /\
            k_st k2 = Disconnected /\ k_wr k2 = false /\ k_rd k2 = false /\ k_added k2 = false /\ k_pidx k2 = PNew /\
            k_loop k2 = k_loop k /\ k_alive k2 = true /\ k_ccb k2 = k_ccb k /\ k_mapped k2 = false /\
            k_ups k2 = 1 /\ k_downs k2 = 1 /\ k_dtors k2 = 0 /\ k_closes k2 = 0).
  { destruct Hcases as [(Hup & Hadd & Hm & _)|(Hst & Hadd & Hm & _)].
    - rewrite (proj2 (closable_up_k k) Hup).
      pose proof (chan_update_fields (s_readd s1) (set_life k Disconnected (k_ups k) (S (k_downs k))) false false) as F. cbv zeta in F.
      set (k1 := chan_update (s_readd s1) (set_life k Disconnected (k_ups k) (S (k_downs k))) false false) in *.
      cbn [set_life k_st k_rflag k_loop k_alive k_ccb k_mapped k_urefs k_delayed k_fin k_ups k_downs k_dtors k_closes] in F.
      destruct F as (F1 & F2 & F3 & F4 & F5 & F6 & F7 & F8 & F9 & F10 & F11 & F12 & F13 & F14 & F15 & F16 & F17).
      unfold chan_remove, k_none. rewrite F2, F3. cbn [orb negb].
      destruct (pidx_eqb (k_pidx k1) PNew) eqn:Ep; [destruct (k_pidx k1); try discriminate; congruence|].
      eexists _, _. split; [reflexivity|]. cbn.
      pose proof (ci_cnt s c k HCk Ha) as Hc. unfold counters_ok in Hc.
      repeat split; try congruence; destruct Hup as [E|E]; rewrite E in Hc; lia.
    - assert (Ecl : k_closable k = false) by (apply closable_false_k; right; exact Hst). rewrite Ecl.
      destruct (ci_idle s c k HCk Ha) as [Hw Hr]; [unfold up_k; rewrite Hst; intros [?|?]; discriminate|].
      unfold chan_remove, k_none. rewrite Hw, Hr. cbn [orb negb].
      destruct (pidx_eqb (k_pidx k) PNew) eqn:Ep.
      + exfalso. destruct (k_pidx k) eqn:Epi; try discriminate. pose proof (proj2 (proj1 (ci_poll s c k HCk Ha)) Epi). congruence.
      + eexists _, _. split; [reflexivity|]. cbn.
        pose proof (ci_cnt s c k HCk Ha) as Hc. unfold counters_ok in Hc. rewrite Hst in Hc.
        repeat split; try congruence; lia. }
  destruct Hres as (k2 & o & -> & E1 & E2 & E3 & E4 & E5 & E6 & E7 & E8 & E9 & E10 & E11 & E12 & E13).
  apply finish_ok. apply (invx_close s1 (put s1 c k2) c HX).
  - apply (ginv_put_nc s1 c k k2 (proj1 HX) Hg1 E6); [congruence|intros _; congruence|exact Hncli].
  - intros c1 Hn. split; [apply getc_put_neq; auto|apply same_for_put].
  - intros k3 Hk3. rewrite getc_put_eq in Hk3 by exact Hlt. injection Hk3 as <-.
    apply cinv_build; auto.
    + change (s_nio (put s1 c k2)) with (s_nio s). congruence.
    + intros Hx. rewrite E6. apply L2. congruence.
    + unfold counters_ok. rewrite E1. auto.
    + unfold poller_ok, k_none. rewrite E4, E5, E2, E3. split; [tauto|discriminate].
    + unfold phase. rewrite E1, E4, E9.
      change (todoN (isE c) (put s1 c k2)) with (todoN (isE c) s1). change (todoN (isR c) (put s1 c k2)) with (todoN (isR c) s1).
      change (todoN (isD c) (put s1 c k2)) with (todoN (isD c) s1).
      destruct Hcases as [(_ & _ & _ & A & B & C)|(_ & _ & _ & A & B & C)]; (split; [lia|]; right; right; repeat split; auto; lia).
Qed.

Lemma step_Run s l full wc : Inv s -> step_ok s (Run l full wc).
Proof.
  intros HI. unfold step_ok, step. destruct (getl s l) as [v|] eqn:Hv; [|exact I].
  destruct (q_batch v) as [|t rest] eqn:Hb; [exact I|]. fold (popped v t rest). fold (set_loop s l (popped v t rest)).
  destruct t.
  - (* TEstablish *) pose proof (run_establish s l v c rest HI Hv Hb) as H. unfold run_task in *. exact H.
  - pose proof (run_remove s l v c rest HI Hv Hb) as H. unfold run_task in *. exact H.
  - pose proof (run_destroy s l v c rest HI Hv Hb) as H. unfold run_task in *. exact H.
  - pose proof (run_forceclose s l v c rest HI Hv Hb) as H. unfold run_task in *. exact H.
  - (* TUserCb *) destruct HI as [HI HH]. cbn [run_task ret]. apply finish_ok. apply (pop_plain_inv s l v _ rest HI Hv Hb eq_refl).
  - (* TShutdown *)
    destruct HI as [HI HH]. set (t := TShutdown c pin) in *. set (s1 := set_loop s l (popped v t rest)).
    assert (Hin : In t (q_all v)) by (unfold q_all; rewrite Hb; apply in_or_app; right; left; reflexivity).
    destruct (gi_placed s (proj1 HI) l v t Hv Hin) as [Hpin [_ (k & Hg & Hl & Hnc)]]. cbn [raw_pinned t] in Hpin. cbn [task_conn t] in Hg. subst pin. specialize (Hnc eq_refl).
    assert (Hh : holds c t = true) by (unfold holds; cbn; rewrite Nat.eqb_refl; reflexivity).
    pose proof (strong_alive s l v t c k HI Hv Hin Hh Hg) as Ha.
    pose proof (pop_plain_inv s l v t rest HI Hv Hb eq_refl) as HI1. pose proof (pop_held s l v t rest HH Hv Hb) as HH1. fold s1 in HI1, HH1.
    unfold run_task, t. cbv zeta. change (getc s1 c) with (getc s c). rewrite Hg, Ha. cbn [ret]. apply finish_ok.
    assert (Hcore : same_core k (shutdown_in_loop k)).
    { unfold shutdown_in_loop, same_core. destruct (k_wr k) eqn:Ew; cbn; repeat split; auto. }
    apply (put_core s1 c k _ HI1 HH1 Hg Hcore).
  - (* TStartRead *)
    destruct HI as [HI HH]. set (t := TStartRead c pin) in *. set (s1 := set_loop s l (popped v t rest)).
    assert (Hin : In t (q_all v)) by (unfold q_all; rewrite Hb; apply in_or_app; right; left; reflexivity).
    destruct (gi_placed s (proj1 HI) l v t Hv Hin) as [Hpin [_ (k & Hg & Hl & Hnc)]]. cbn [raw_pinned t] in Hpin. cbn [task_conn t] in Hg. subst pin. specialize (Hnc eq_refl).
    assert (Hh : holds c t = true) by (unfold holds; cbn; rewrite Nat.eqb_refl; reflexivity).
    pose proof (strong_alive s l v t c k HI Hv Hin Hh Hg) as Ha.
    pose proof (pop_plain_inv s l v t rest HI Hv Hb eq_refl) as HI1. pose proof (pop_held s l v t rest HH Hv Hb) as HH1. fold s1 in HI1, HH1.
    unfold run_task, t. cbv zeta. change (getc s1 c) with (getc s c). rewrite Hg, Ha. cbn [ret]. apply finish_ok.
    unfold start_read. change (getc s1 c) with (getc s c). rewrite Hg.
    destruct (negb (cstate_eqb (k_st k) Disconnected) && (negb (k_rflag k) || negb (k_rd k))) eqn:E; [|exact HI1].
    apply andb_prop in E as [E _]. apply negb_true_iff, cs_eqb_false in E.
    assert (Hup : up_k k) by (unfold up_k; destruct (k_st k); intuition congruence).
    destruct (phase_up_cases s1 c k (ci_phase s1 c k (proj2 HI1 c k Hg) Ha) Hup) as (Hadd & _).
    apply (read_toggle_inv s1 c k true true HI1 HH1 Hg Ha Hup Hadd).
  - (* TStopRead *)
    destruct HI as [HI HH]. set (t := TStopRead c pin) in *. set (s1 := set_loop s l (popped v t rest)).
    assert (Hin : In t (q_all v)) by (unfold q_all; rewrite Hb; apply in_or_app; right; left; reflexivity).
    destruct (gi_placed s (proj1 HI) l v t Hv Hin) as [Hpin [_ (k & Hg & Hl & Hnc)]]. cbn [raw_pinned t] in Hpin. cbn [task_conn t] in Hg. subst pin. specialize (Hnc eq_refl).
    assert (Hh : holds c t = true) by (unfold holds; cbn; rewrite Nat.eqb_refl; reflexivity).
    pose proof (strong_alive s l v t c k HI Hv Hin Hh Hg) as Ha.
    pose proof (pop_plain_inv s l v t rest HI Hv Hb eq_refl) as HI1. pose proof (pop_held s l v t rest HH Hv Hb) as HH1. fold s1 in HI1, HH1.
    unfold run_task, t. cbv zeta. change (getc s1 c) with (getc s c). rewrite Hg, Ha. cbn [ret]. apply finish_ok.
    unfold stop_read. change (getc s1 c) with (getc s c). rewrite Hg.
    destruct (negb (cstate_eqb (k_st k) Disconnected) && (k_rflag k || k_rd k)) eqn:E; [|exact HI1].
    apply andb_prop in E as [E _]. apply negb_true_iff, cs_eqb_false in E.
    assert (Hup : up_k k) by (unfold up_k; destruct (k_st k); intuition congruence).
    destruct (phase_up_cases s1 c k (ci_phase s1 c k (proj2 HI1 c k Hg) Ha) Hup) as (Hadd & _).
    apply (read_toggle_inv s1 c k false false HI1 HH1 Hg Ha Hup Hadd).
  - (* TSend *)
    destruct HI as [HI HH]. set (t := TSend c pin) in *. set (s1 := set_loop s l (popped v t rest)).
    assert (Hin : In t (q_all v)) by (unfold q_all; rewrite Hb; apply in_or_app; right; left; reflexivity).
    destruct (gi_placed s (proj1 HI) l v t Hv Hin) as [Hpin [_ (k & Hg & Hl & Hnc)]]. cbn [raw_pinned t] in Hpin. cbn [task_conn t] in Hg. subst pin. specialize (Hnc eq_refl).
    assert (Hh : holds c t = true) by (unfold holds; cbn; rewrite Nat.eqb_refl; reflexivity).
    pose proof (strong_alive s l v t c k HI Hv Hin Hh Hg) as Ha.
    pose proof (pop_plain_inv s l v t rest HI Hv Hb eq_refl) as HI1. pose proof (pop_held s l v t rest HH Hv Hb) as HH1. fold s1 in HI1, HH1.
    unfold run_task, t. cbv zeta. change (getc s1 c) with (getc s c). rewrite Hg, Ha. cbn [ret]. apply finish_ok.
    apply (send_in_loop_inv s1 c full wc HI1 HH1). intros k0 Hk0. change (getc s1 c) with (getc s c) in Hk0. rewrite Hg in Hk0.
    injection Hk0 as <-. auto.
  - (* TAddTimer *)
    destruct HI as [HI HH]. set (t := TAddTimer c) in *. set (s1 := set_loop s l (popped v t rest)).
    assert (Hin : In t (q_all v)) by (unfold q_all; rewrite Hb; apply in_or_app; right; left; reflexivity).
    destruct (gi_placed s (proj1 HI) l v t Hv Hin) as [_ [_ (k & Hg & Hl & Hnc)]]. cbn [task_conn t] in Hg.
    pose proof (pop_plain_inv s l v t rest HI Hv Hb eq_refl) as HI1. pose proof (pop_held s l v t rest HH Hv Hb) as HH1. fold s1 in HI1, HH1.
    unfold run_task, t. cbv zeta. change (getc s1 c) with (getc s c). rewrite Hg. cbn [ret]. apply finish_ok.
    apply (put_core s1 c k _ HI1 HH1 Hg). unfold same_core. cbn. repeat split.
  - (* TOther *) destruct HI as [HI HH]. cbn [run_task ret]. apply finish_ok. apply (pop_plain_inv s l v _ rest HI Hv Hb eq_refl).
  - (* TSetCb: only queued by a foreign ~TcpClient, which the hypotheses exclude *)
    exfalso. destruct HI as [HI HH].
    assert (Hin : In (TSetCb c) (q_all v)) by (unfold q_all; rewrite Hb; apply in_or_app; right; left; reflexivity).
    destruct (gi_placed s (proj1 HI) l v _ Hv Hin) as [_ [Hne _]]. apply (proj2 (Hne c)). reflexivity.
Qed.

(* ---- the pool's tear-down ------------------------------------------------------------------------------ *)
(* connectEstablished / connectDestroyed: the functors ~TcpServer and TcpServer::newConnection hand to an io loop *)
Notation noED := no_handoff (only parsing).

(* the pool's tear-down has begun only when the server object is gone, and then no removeConnectionInLoop hop exists *)
Definition QInv (s : sys) : Prop :=
  (s_stop s <> 0 -> s_srv s = false) /\
  (s_srv s = false -> has_task is_remove s = false).

Lemma quitting_spec s l : quitting s l = true -> l <> 0 /\ s_stop s = l.
Proof.
  unfold quitting. intros H. apply andb_prop in H as [H1 H2]. apply negb_true_iff, Nat.eqb_neq in H1. apply Nat.eqb_eq in H2. auto.
Qed.

Lemma noED_cnt c l : forallb noED l = true -> cnt (isE c) l = 0 /\ cnt (isD c) l = 0.
Proof.
  induction l as [|t l IH]; [cbn; auto|]. cbn [forallb]. intros H. apply andb_prop in H as [Ht Hl]. destruct (IH Hl) as [A B].
  rewrite !cnt_cons, A, B. destruct t; cbn in *; try discriminate; auto.
Qed.

Lemma first_life_LE_cnt c l : first_life c l = Some LE -> 1 <= cnt (isE c) l.
Proof.
  induction l as [|t l IH]; cbn [first_life]; [discriminate|]. unfold life_of. rewrite cnt_cons.
  destruct (isE c t); [lia|]. destruct (isD c t); [discriminate|]. destruct (isF c t); [discriminate|]. intros H. specialize (IH H). lia.
Qed.

Lemma first_life_LD_cnt c l : first_life c l = Some LD -> 1 <= cnt (isD c) l.
Proof.
  induction l as [|t l IH]; cbn [first_life]; [discriminate|]. unfold life_of. rewrite cnt_cons.
  destruct (isE c t); [discriminate|]. destruct (isD c t); [lia|]. destruct (isF c t); [discriminate|]. intros H. specialize (IH H). lia.
Qed.

(* queued functors go away without having run (the EventLoop is destroyed): a phase survives when none of the dropped
   functors is a life-cycle hand-off of the connection *)
Lemma phase_drop s s' c k :
  phase s c k ->
  s_srv s' = s_srv s -> s_cli s' = s_cli s -> s_cliconn s' = s_cliconn s ->
  todoN (isE c) s' = todoN (isE c) s -> todoN (isR c) s' = todoN (isR c) s -> todoN (isD c) s' = todoN (isD c) s ->
  todoN (isF c) s' <= todoN (isF c) s -> (k_ccb k = CbDetail -> todoN (isF c) s' = todoN (isF c) s) ->
  (first_life c (loop_todo s' (k_loop k)) = first_life c (loop_todo s (k_loop k)) \/
   (first_life c (loop_todo s (k_loop k)) <> Some LE /\ first_life c (loop_todo s (k_loop k)) <> Some LD)) ->
  phase s' c k.
Proof.
  intros Hp H1 H2 H3 HE HR HD HF HFd Hfl. unfold phase, owner_alive in *. rewrite H1, H2, H3, HE, HR, HD.
  destruct (k_st k).
  - destruct Hp as (A1 & A2 & A3 & A4 & A5 & A6 & A7). repeat (split; [assumption || lia|]).
    split; [|exact A7]. destruct Hfl as [E|[N _]]; [rewrite E; exact A6|congruence].
  - destruct Hp as (A1 & A2 & A3 & [B|[(B1 & B2 & B3 & B5)|(B1 & B2 & B3 & B4)]]); repeat (split; [assumption|]).
    + left. exact B.
    + right. left. repeat (split; [assumption|]). destruct Hfl as [E|[_ N]]; [rewrite E; exact B5|congruence].
    + right. right. repeat (split; [assumption|]). rewrite (HFd B3). exact B4.
  - destruct Hp as (A1 & A2 & A3 & [B|[(B1 & B2 & B3 & B5)|(B1 & B2 & B3 & B4)]]); repeat (split; [assumption|]).
    + left. exact B.
    + right. left. repeat (split; [assumption|]). destruct Hfl as [E|[_ N]]; [rewrite E; exact B5|congruence].
    + right. right. repeat (split; [assumption|]). rewrite (HFd B3). exact B4.
  - exact Hp.
Qed.

Lemma set_stop_inv0 s j : Inv0 s -> Inv0 (set_stop s j).
Proof.
  intros [[G1 Gr G2 G3 G4] HC]. split; [constructor; auto|].
  intros c k Hg. destruct (HC c k Hg) as [Hl Hi Hc Hp Hph Hd Hds Hdt]. constructor; auto.
Qed.

(* io loop l leaves loop(): its EventLoop dies with everything that is still queued *)
Lemma exit_inv0 s l v : Inv0 s -> getl s l = Some v -> l <> 0 -> q_batch v = [] -> forallb noED (q_pend v) = true ->
  Inv0 (set_loop s l (mkLq [] [] [] false)).
Proof.
  intros [G HC] Hv Hl0 Hb Hned. set (v' := mkLq [] [] [] false).
  assert (Htodo : q_todo v = q_pend v) by (unfold q_todo; rewrite Hb; reflexivity).
  split.
  - apply (ginv_set_loop s l v v' G Hv). intros t Ht. cbn in Ht. contradiction.
  - intros c k Hg. rewrite getc_set_loop in Hg. pose proof (HC c k Hg) as HCk.
    destruct (ci_loop s c k HCk) as [L1 L2].
    (* what the queue of loop l holds about connection c *)
    assert (Hcnt : forall p, todoN p (set_loop s l v') + cnt p (q_pend v) = todoN p s).
    { intros p. pose proof (todoN_set_loop p s l v v' Hv) as E. rewrite Htodo in E. change (cnt p (q_todo v')) with 0 in E. lia. }
    destruct (noED_cnt c _ Hned) as [NE ND].
    assert (NR : cnt (isR c) (q_pend v) = 0).
    { apply cnt_zero_notin. intros t Ht. destruct (isR c t) eqn:E; [|reflexivity]. exfalso.
      assert (Hin : In t (q_all v)) by (unfold q_all; apply in_or_app; right; apply in_or_app; right; exact Ht).
      destruct (gi_placed s G l v t Hv Hin) as [_ [_ Hpl]]. destruct t; cbn in E; try discriminate. destruct Hpl as [Hx _]. congruence. }
    assert (NF : k_loop k <> l -> forall p, (forall t, p t = true -> task_conn t = c /\ t <> TOther /\ forall c', t <> TRemove c') -> cnt p (q_all v) = 0).
    { intros Hn p Hp. apply cnt_zero_notin. intros t Ht. destruct (p t) eqn:E; [|reflexivity]. exfalso.
      destruct (Hp t E) as (Hc & Hno & Hnr). destruct (gi_placed s G l v t Hv Ht) as [_ [_ Hpl]].
      destruct t; try (destruct Hpl as (k1 & Hk1 & Hl1 & _); rewrite Hc, Hg in Hk1; injection Hk1 as <-; congruence); try congruence.
      all: eapply Hnr; reflexivity. }
    assert (Hsub : forall p, cnt p (q_pend v) <= cnt p (q_all v)).
    { intros p. unfold q_all. rewrite !cnt_app. lia. }
    destruct HCk as [Hl Hi Hc Hp Hph Hd Hds Hdt]. constructor; auto.
    + intros Ha. specialize (Hph Ha).
      apply (phase_drop s (set_loop s l v') c k Hph eq_refl eq_refl eq_refl).
      * pose proof (Hcnt (isE c)). lia.
      * pose proof (Hcnt (isR c)). lia.
      * pose proof (Hcnt (isD c)). lia.
      * pose proof (Hcnt (isF c)). lia.
      * intros Hcb. assert (Hn : k_loop k <> l) by (rewrite L2 by congruence; auto).
        pose proof (Hcnt (isF c)). pose proof (NF Hn (isF c) (isF_local c)). pose proof (Hsub (isF c)). lia.
      * destruct (Nat.eq_dec l (k_loop k)) as [E|Hn].
        -- right. rewrite <- E. unfold loop_todo. rewrite Hv, Htodo. split; intros Hx.
           ++ apply first_life_LE_cnt in Hx. lia.
           ++ apply first_life_LD_cnt in Hx. lia.
        -- left. rewrite loop_todo_set_loop_neq by exact Hn. reflexivity.
    + intros Ha. specialize (Hd Ha). rewrite (holders_eq s c k Hg) in Hd.
      rewrite (holders_eq (set_loop s l v') c k Hg).
      pose proof (allN_set_loop (holds c) s l v v' Hv) as E. change (cnt (holds c) (q_all v')) with 0 in E.
      change (s_calls (set_loop s l v')) with (s_calls s). lia.
Qed.

(* the functors of a finished batch are destroyed: only strong references go away; an io loop that has been told to quit
   leaves loop() here *)
Lemma step_EndBatch s l : Inv s -> QInv s -> step_ok s (EndBatch l).
Proof.
  intros [HI HH] (Q1 & _). unfold step_ok, step. destruct (getl s l) as [v|] eqn:Ev; [|exact I].
  destruct (q_batch v) eqn:Eb; [|exact I]. destruct (q_drain v) eqn:Edr; [|exact I]. cbn [negb].
  destruct (quitting s l) eqn:Eq.
  - (* the loop exits *)
    cbn [andb]. destruct (forallb no_handoff (q_pend v)) eqn:Eno; [|exact I]. cbn [negb].
    destruct (outlived s l); [exact I|]. cbn [ret]. apply finish_ok.
    destruct (quitting_spec s l Eq) as [Hl0 Hst].
    change (set_loops s (upd (s_loops s) l (mkLq [] [] [] false))) with (set_loop s l (mkLq [] [] [] false)).
    apply set_stop_inv0. apply (exit_inv0 s l v HI Ev Hl0 Eb). exact Eno.
  - apply finish_ok. fold (set_loop s l (mkLq (q_pend v) [] [] false)).
    destruct HI as [G HC]. split.
    + apply (ginv_set_loop s l v _ G Ev). intros x Hx. left. unfold q_all in *. cbn [q_pend q_batch q_spent] in Hx.
      rewrite Eb. cbn [app] in *. apply in_or_app. right. exact Hx.
    + intros c k Hg. rewrite getc_set_loop in Hg. pose proof (HC c k Hg) as HCk.
      destruct HCk as [Hl Hi Hc Hp Hph Hd Hds Hdt].
      assert (Htodo : q_todo (mkLq (q_pend v) [] [] false) = q_todo v) by (unfold q_todo; cbn [q_pend q_batch]; rewrite Eb; reflexivity).
      constructor; auto.
      * intros Ha. specialize (Hph Ha).
        apply (phase_transfer s (set_loop s l (mkLq (q_pend v) [] [] false)) c k eq_refl eq_refl eq_refl); [| | | | |exact Hph].
        1-4: pose proof (todoN_set_loop (isE c) s l v (mkLq (q_pend v) [] [] false) Ev);
             pose proof (todoN_set_loop (isR c) s l v (mkLq (q_pend v) [] [] false) Ev);
             pose proof (todoN_set_loop (isD c) s l v (mkLq (q_pend v) [] [] false) Ev);
             pose proof (todoN_set_loop (isF c) s l v (mkLq (q_pend v) [] [] false) Ev);
             rewrite Htodo in *; lia.
        destruct (Nat.eq_dec l (k_loop k)) as [<-|Hn].
        -- rewrite (loop_todo_set_loop_eq s l v _ Ev), Htodo. unfold loop_todo. rewrite Ev. reflexivity.
        -- rewrite loop_todo_set_loop_neq by exact Hn. reflexivity.
      * intros Ha. specialize (Hd Ha). rewrite (holders_eq s c k Hg) in Hd.
        rewrite (holders_eq (set_loop s l (mkLq (q_pend v) [] [] false)) c k Hg).
        pose proof (allN_set_loop (holds c) s l v (mkLq (q_pend v) [] [] false) Ev) as E.
        change (s_calls (set_loop s l (mkLq (q_pend v) [] [] false))) with (s_calls s).
        assert (cnt (holds c) (q_all (mkLq (q_pend v) [] [] false)) <= cnt (holds c) (q_all v)).
        { unfold q_all. cbn [q_pend q_batch q_spent]. rewrite Eb. cbn [app]. rewrite cnt_app. lia. }
        lia.
Qed.

(* ---- creating a connection -------------------------------------------------------------------------- *)
Definition add_conn (s : sys) (k : lc) (rr : nat) (cc : option nat) : sys :=
  mkSys (s_nio s) (s_readd s) (s_conns s ++ [k]) (s_loops s) rr (s_srv s) (s_cli s) cc (s_calls s) (s_dying s) (s_stop s).

Lemma no_task_about_new s p : GInv s ->
  (forall t, p t = true -> t <> TOther /\ task_conn t = length (s_conns s)) ->
  todoN p s = 0 /\ allN p s = 0.
Proof.
  intros G Hp.
  assert (Hz : forall l v, getl s l = Some v -> cnt p (q_all v) = 0).
  { intros l v Hv. apply cnt_zero_notin. intros t Hin. destruct (p t) eqn:E; [|reflexivity]. exfalso.
    destruct (Hp t E) as [Hno Hc]. destruct (gi_placed s G l v t Hv Hin) as [_ [_ Hpl]].
    destruct t; try congruence; try (destruct Hpl as (k1 & Hk1 & _); apply getc_lt in Hk1; cbn in *; lia).
    destruct Hpl as [_ Hlt]. cbn in Hc. lia. }
  split.
  - unfold todoN. apply sumq_zero. intros v Hin. apply In_nth_error in Hin as [l Hl].
    pose proof (Hz l v Hl) as E. rewrite q_all_todo, cnt_app in E. lia.
  - unfold allN. apply sumq_zero. intros v Hin. apply In_nth_error in Hin as [l Hl]. apply (Hz l v Hl).
Qed.

Lemma isX_new c t : (isE c t = true \/ isR c t = true \/ isD c t = true \/ isF c t = true \/ holds c t = true) ->
  t <> TOther /\ task_conn t = c.
Proof.
  unfold holds. intros H.
  assert (Hc : t <> TOther /\ (task_conn t =? c) = true).
  { destruct t; cbn [isE isR isD isF task_conn task_strong] in *;
      repeat (destruct H as [H|H]); try discriminate; try (apply andb_prop in H as [H H']; try discriminate H');
      (split; [discriminate|exact H]). }
  destruct Hc as [H1 H2]. split; [exact H1|apply Nat.eqb_eq, H2].
Qed.

Lemma getc_add_old s k rr cc c : c < length (s_conns s) -> getc (add_conn s k rr cc) c = getc s c.
Proof. intros H. unfold getc, add_conn. cbn. apply nth_app_old, H. Qed.

Lemma getc_add_new s k rr cc : getc (add_conn s k rr cc) (length (s_conns s)) = Some k.
Proof. unfold getc, add_conn. cbn. apply nth_app_new. Qed.

Lemma conns_ext_add s k rr cc : conns_ext s (add_conn s k rr cc).
Proof.
  split; [unfold add_conn; cbn; rewrite app_length; cbn; lia|].
  intros c k1 H. exists k1. rewrite getc_add_old by (eapply getc_lt, H). auto.
Qed.

(* the new connection is the only thing that differs; [cc] names it or is the old value *)
Lemma add_conn_frame s k rr cc c1 : c1 < length (s_conns s) ->
  (cc = s_cliconn s \/ (s_cliconn s = None /\ cc = Some (length (s_conns s)))) ->
  same_for s (add_conn s k rr cc) c1.
Proof.
  intros Hlt Hcc. constructor; try reflexivity. cbn. destruct Hcc as [-> |[E ->]]; [tauto|].
  rewrite E. split; intros [_ Hx]; [injection Hx as Hx; lia|discriminate].
Qed.

Lemma add_conn_ginv s k rr cc : GInv s -> (s_nio s = 0 \/ rr < s_nio s) ->
  (cc = s_cliconn s \/ (s_cliconn s = None /\ cc = Some (length (s_conns s)) /\ s_cli s = true /\
                       k_alive k = true /\ k_mapped k = true /\ k_ccb k = CbClient /\ up_k k)) ->
  GInv (add_conn s k rr cc).
Proof.
  intros [G1 Gr G2 [G3 G3'] G4] Hrr Hcc. pose proof (conns_ext_add s k rr cc) as Hext. constructor.
  - exact G1.
  - exact Hrr.
  - intros l v t Hv Hin. apply (placed_mono s _ l t Hext), (G2 l v t Hv Hin).
  - split; [exact G3|]. intros a Hin. destruct (G3' a Hin) as (k1 & Hk1 & H1 & H1' & H1''). exists k1.
    rewrite getc_add_old by (eapply getc_lt, Hk1). auto.
  - intros c Hc. cbn [add_conn s_cliconn s_cli] in *. destruct Hcc as [-> |(E & -> & Hcli & H1 & H2 & H3 & H4)].
    + destruct (G4 c Hc) as (Hs & k1 & Hk1 & Hr). split; [exact Hs|]. exists k1. rewrite getc_add_old by (eapply getc_lt, Hk1). auto.
    + injection Hc as <-. split; [exact Hcli|]. exists k. rewrite getc_add_new. auto.
Qed.

Lemma step_Accept s : Inv s -> step_ok s Accept.
Proof.
  intros [[G HC] HH]. unfold step_ok, step, accept.
  set (io := if s_nio s =? 0 then 0 else S (s_rr s)).
  set (rr := if s_nio s =? 0 then 0 else if S (s_rr s) <? s_nio s then S (s_rr s) else 0).
  set (c := length (s_conns s)). set (k0 := fresh io CbServer).
  fold (add_conn s k0 rr (s_cliconn s)). set (s1 := add_conn s k0 rr (s_cliconn s)).
  destruct (s_srv s) eqn:Hsrv; [|exact I]. cbn [negb orb]. destruct (s_dying s); [exact I|].
  assert (Hio : io <= s_nio s).
  { unfold io. destruct (s_nio s =? 0) eqn:E; [lia|]. apply Nat.eqb_neq in E. destruct (gi_rr s G); lia. }
  assert (Hrr : s_nio s = 0 \/ rr < s_nio s).
  { unfold rr. destruct (s_nio s =? 0) eqn:E; [left; apply Nat.eqb_eq, E|]. right. apply Nat.eqb_neq in E.
    destruct (S (s_rr s) <? s_nio s) eqn:E2; [apply Nat.ltb_lt, E2|lia]. }
  pose proof (add_conn_ginv s k0 rr (s_cliconn s) G Hrr (or_introl eq_refl)) as G1. fold s1 in G1.
  destruct (no_task_about_new s (isE c) G (fun t H => isX_new c t (or_introl H))) as [NE _].
  destruct (no_task_about_new s (isR c) G (fun t H => isX_new c t (or_intror (or_introl H)))) as [NR _].
  destruct (no_task_about_new s (isD c) G (fun t H => isX_new c t (or_intror (or_intror (or_introl H))))) as [ND _].
  destruct (no_task_about_new s (isF c) G (fun t H => isX_new c t (or_intror (or_intror (or_intror (or_introl H)))))) as [NF _].
  assert (Hframe : forall s2, (forall c1, c1 <> c -> getc s2 c1 = getc s1 c1 /\ same_for s1 s2 c1) ->
            forall c1, c1 <> c -> getc s2 c1 = getc s c1 /\ same_for s s2 c1 \/ (getc s2 c1 = None /\ getc s c1 = None)).
  { intros s2 H2 c1 Hn. destruct (H2 c1 Hn) as [A B]. destruct (Nat.lt_ge_cases c1 c) as [Hlt|Hge].
    - left. split; [rewrite A; apply getc_add_old, Hlt|]. apply (same_for_trans s s1 s2 c1); [apply add_conn_frame; auto|exact B].
    - right. assert (c < c1) by lia. split.
      + rewrite A. unfold getc, s1, add_conn. cbn. apply nth_error_None. rewrite app_length. cbn. fold c. lia.
      + unfold getc. apply nth_error_None. fold c. lia. }
  assert (Hclose : forall s2, GInv s2 -> (forall c1, c1 <> c -> getc s2 c1 = getc s1 c1 /\ same_for s1 s2 c1) ->
            (forall k2, getc s2 c = Some k2 -> CInv s2 c k2) -> Inv0 s2).
  { intros s2 G2 H2 Hc2. split; [exact G2|]. intros c1 k1 Hg1. destruct (Nat.eq_dec c1 c) as [->|Hn]; [apply Hc2, Hg1|].
    destruct (Hframe s2 H2 c1 Hn) as [[A B]|[A _]]; [|congruence]. rewrite A in Hg1.
    apply (same_for_cinv s s2 c1 k1 B Hg1); [rewrite A; exact Hg1|apply HC, Hg1]. }
  destruct (io =? 0) eqn:Eio.
  - (* the acceptor loop is the io loop: connectEstablished runs inline *)
    apply Nat.eqb_eq in Eio. unfold establish. unfold getc at 1. fold (getc s1 c). unfold s1, c. rewrite getc_add_new.
    assert (Hk0 : k_alive k0 = true /\ k_loop k0 = io /\ k_st k0 = Connecting) by (unfold k0; cbn; auto).
    destruct Hk0 as (K1 & K2 & K3). rewrite K1, K2, K3, Eio. cbn [Nat.eqb negb emit cstate_eqb set_life k_wr].
    assert (K4 : k_wr k0 = false) by reflexivity. rewrite K4.
    fold c. fold s1. apply finish_ok.
    set (k' := chan_update (s_readd s1) (set_life k0 Connected (S (k_ups k0)) (k_downs k0)) false true).
    pose proof (chan_update_fields (s_readd s1) (set_life k0 Connected (S (k_ups k0)) (k_downs k0)) false true) as F. cbv zeta in F.
    fold k' in F. unfold k0 in F. cbn [set_life fresh k_st k_rflag k_loop k_alive k_ccb k_mapped k_urefs k_delayed k_fin k_ups k_downs k_dtors k_closes] in F.
    destruct F as (F1 & F2 & F3 & F4 & F5 & F6 & F7 & F8 & F9 & F10 & F11 & F12 & F13 & F14 & F15 & F16 & F17).
    assert (Hgc : getc s1 c = Some k0) by apply getc_add_new.
    apply (Hclose (put s1 c k')).
    + apply (ginv_put_nc s1 c k0 k' G1 Hgc F6 F7); [intros _; congruence|].
      intros Hc. cbn in Hc. destruct (gi_cli s G c Hc) as (_ & kx & Hkx & _). apply getc_lt in Hkx. unfold c in Hkx. lia.
    + intros c1 Hn. split; [apply getc_put_neq; auto|apply same_for_put].
    + intros k2 Hk2. rewrite getc_put_eq in Hk2 by (eapply getc_lt, Hgc). injection Hk2 as <-.
      apply cinv_build; try congruence.
      * rewrite F6. exact Hio.
      * intros Hx. exfalso. apply Hx. left. exact F1.
      * unfold counters_ok. rewrite F1, F13, F14. auto.
      * apply chan_update_poller.
      * unfold phase, owner_alive. rewrite F1, F5, F8, F9.
        change (todoN (isE c) (put s1 c k')) with (todoN (isE c) s). change (todoN (isR c) (put s1 c k')) with (todoN (isR c) s).
        change (todoN (isD c) (put s1 c k')) with (todoN (isD c) s). change (s_srv (put s1 c k')) with (s_srv s).
        repeat split; auto.
  - (* an io thread: connectEstablished is queued on its loop *)
    apply Nat.eqb_neq in Eio. cbn [ret]. apply finish_ok.
    destruct (getl_valid s io G Hio) as [v Hv]. assert (Hv1 : getl s1 io = Some v) by exact Hv.
    set (t := TEstablish c). destruct (enq_fields s1 io t) as (N1 & N2 & N3 & N4 & N5 & N6).
    apply (Hclose (enq s1 io t)).
    + apply ginv_enq; [exact G1|]. split; [reflexivity|]. split; [intros c0; split; [intros _; exact Eio|discriminate]|].
      exists k0. split; [apply getc_add_new|]. split; [reflexivity|discriminate].
    + intros c1 Hn. split; [apply getc_enq|]. apply same_for_enq. cbn. apply Nat.eqb_neq. auto.
    + intros k2 Hk2. rewrite getc_enq in Hk2. unfold s1, c in Hk2. rewrite getc_add_new in Hk2. injection Hk2 as <-.
      apply cinv_build; cbn [k0 fresh k_alive k_loop k_ccb k_wr k_rd k_dtors k_closes]; auto.
      * rewrite N1. exact Hio.
      * intros Hx. congruence.
      * unfold counters_ok. cbn. auto.
      * unfold poller_ok, k_none. cbn. split; [tauto|discriminate].
      * unfold phase. cbn [k0 fresh k_st k_added k_ccb k_loop k_mapped].
        rewrite (todoN_enq (isE c) s1 io t v Hv1), (todoN_enq (isR c) s1 io t v Hv1), (todoN_enq (isD c) s1 io t v Hv1),
                (todoN_enq (isF c) s1 io t v Hv1), (loop_todo_enq_eq s1 io t v Hv1), N3.
        unfold t. cbn [isE isR isD isF]. rewrite Nat.eqb_refl.
        change (todoN (isE c) s1) with (todoN (isE c) s). change (todoN (isR c) s1) with (todoN (isR c) s).
        change (todoN (isD c) s1) with (todoN (isD c) s). change (todoN (isF c) s1) with (todoN (isF c) s).
        change (s_srv s1) with (s_srv s). change (loop_todo s1 io) with (loop_todo s io).
        repeat split; try lia.
        -- rewrite first_life_app_none.
           ++ cbn. unfold life_of. cbn. rewrite Nat.eqb_refl. reflexivity.
           ++ apply cnt_zero_first_life.
              ** pose proof (sumq_ge (fun l => cnt (isE c) (q_todo l)) _ io v Hv). unfold loop_todo. rewrite Hv. unfold todoN in NE. cbn in *. lia.
              ** pose proof (sumq_ge (fun l => cnt (isD c) (q_todo l)) _ io v Hv). unfold loop_todo. rewrite Hv. unfold todoN in ND. cbn in *. lia.
              ** pose proof (sumq_ge (fun l => cnt (isF c) (q_todo l)) _ io v Hv). unfold loop_todo. rewrite Hv. unfold todoN in NF. cbn in *. lia.
        -- left. repeat split; auto; lia.
Qed.

Lemma step_CliConnect s : Inv s -> step_ok s CliConnect.
Proof.
  intros [[G HC] HH]. unfold step_ok, step, cli_connect.
  set (c := length (s_conns s)). set (k0 := fresh 0 CbClient).
  fold (add_conn s k0 (s_rr s) (Some c)). set (s1 := add_conn s k0 (s_rr s) (Some c)).
  destruct (s_cli s) eqn:Hcli; [|exact I]. cbn [negb]. destruct (s_cliconn s) eqn:Hcc; [exact I|].
  unfold establish. unfold getc at 1. fold (getc s1 c). unfold s1, c. rewrite getc_add_new.
  assert (Hk0 : k_alive k0 = true /\ k_loop k0 = 0 /\ k_st k0 = Connecting /\ k_wr k0 = false) by (unfold k0; cbn; auto).
  destruct Hk0 as (K1 & K2 & K3 & K4). rewrite K1, K2, K3. cbn [Nat.eqb negb emit cstate_eqb set_life k_wr]. rewrite K4.
  fold c. fold s1. apply finish_ok.
  set (k' := chan_update (s_readd s1) (set_life k0 Connected (S (k_ups k0)) (k_downs k0)) false true).
  pose proof (chan_update_fields (s_readd s1) (set_life k0 Connected (S (k_ups k0)) (k_downs k0)) false true) as F. cbv zeta in F.
  fold k' in F. unfold k0 in F. cbn [set_life fresh k_st k_rflag k_loop k_alive k_ccb k_mapped k_urefs k_delayed k_fin k_ups k_downs k_dtors k_closes] in F.
  destruct F as (F1 & F2 & F3 & F4 & F5 & F6 & F7 & F8 & F9 & F10 & F11 & F12 & F13 & F14 & F15 & F16 & F17).
  destruct (no_task_about_new s (isE c) G (fun t H => isX_new c t (or_introl H))) as [NE _].
  destruct (no_task_about_new s (isR c) G (fun t H => isX_new c t (or_intror (or_introl H)))) as [NR _].
  destruct (no_task_about_new s (isD c) G (fun t H => isX_new c t (or_intror (or_intror (or_introl H))))) as [ND _].
  (* the final state: the established connection appended, connection_ naming it *)
  set (s2 := put s1 c k').
  assert (Es2 : forall c1, c1 <> c -> getc s2 c1 = getc s1 c1) by (intros c1 Hn; apply getc_put_neq; auto).
  assert (Hgc : getc s2 c = Some k') by (apply getc_put_eq; unfold s1, add_conn; cbn; rewrite app_length; cbn; fold c; lia).
  assert (G2 : GInv s2).
  { assert (G1 : GInv (add_conn s k' (s_rr s) (Some c))).
    { apply add_conn_ginv; [exact G|exact (gi_rr s G)|]. right. repeat split; auto; try congruence. left. exact F1. }
    assert (E : s2 = add_conn s k' (s_rr s) (Some c)).
    { unfold s2, s1, put, add_conn, set_conns. cbn. f_equal. fold c. clear. unfold c. generalize (s_conns s).
      induction l as [|x l IH]; cbn; [reflexivity|]. f_equal. exact IH. }
    rewrite E. exact G1. }
  split; [exact G2|]. intros c1 k1 Hg1. destruct (Nat.eq_dec c1 c) as [->|Hn].
  - rewrite Hgc in Hg1. injection Hg1 as <-.
    apply cinv_build; try congruence.
    + rewrite F6. lia.
    + intros Hx. exfalso. apply Hx. left. exact F1.
    + unfold counters_ok. rewrite F1, F13, F14. auto.
    + apply chan_update_poller.
    + unfold phase, owner_alive. rewrite F1, F5, F8, F9.
      change (todoN (isE c) s2) with (todoN (isE c) s). change (todoN (isR c) s2) with (todoN (isR c) s).
      change (todoN (isD c) s2) with (todoN (isD c) s). change (s_cli s2) with (s_cli s). change (s_cliconn s2) with (Some c).
      repeat split; auto.
  - rewrite (Es2 c1 Hn) in Hg1.
    assert (Hlt : c1 < c).
    { destruct (Nat.lt_ge_cases c1 c) as [H|H]; [exact H|]. exfalso. unfold getc, s1, add_conn in Hg1. cbn in Hg1.
      assert (nth_error (s_conns s ++ [k0]) c1 = None) by (apply nth_error_None; rewrite app_length; cbn; fold c; lia). congruence. }
    unfold s1 in Hg1. rewrite getc_add_old in Hg1 by exact Hlt.
    apply (same_for_cinv s s2 c1 k1); [|exact Hg1| |apply HC, Hg1].
    + apply (same_for_trans s s1 s2 c1); [|apply same_for_put]. apply add_conn_frame; [exact Hlt|]. right. auto.
    + rewrite (Es2 c1 Hn). unfold s1. rewrite getc_add_old by exact Hlt. exact Hg1.
Qed.

Lemma put_put s c k1 k2 : put (put s c k1) c k2 = put s c k2.
Proof.
  unfold put, set_conns. cbn. f_equal. generalize (s_conns s) c. induction l as [|x l IH]; intros [|n]; cbn; auto. f_equal. apply IH.
Qed.

Lemma ginv_cli_off s : GInv s -> forall cs ls, length ls = length (s_loops s) ->
  (forall l v t, nth_error ls l = Some v -> In t (q_all v) -> placed (mkSys (s_nio s) (s_readd s) cs ls (s_rr s) (s_srv s) false None (s_calls s) (s_dying s) (s_stop s)) l t) ->
  (forall a, In a (s_calls s) -> exists k, nth_error cs (a_conn a) = Some k /\ k_alive k = true /\ k_st k <> Connecting /\ a_api a <> ADtor) ->
  GInv (mkSys (s_nio s) (s_readd s) cs ls (s_rr s) (s_srv s) false None (s_calls s) (s_dying s) (s_stop s)).
Proof.
  intros [G1 Gr G2 [G3 G3'] G4] cs ls Hlen Hpl Hcalls. constructor; cbn; auto.
  - congruence.
  - discriminate.
Qed.

Lemma step_CliDestroy s : Inv s -> step_ok s CliDestroy.
Proof.
  intros [[G HC] HH]. unfold step_ok, step, cli_destroy. destruct (s_cli s) eqn:Hcli; [|exact I]. cbn [negb].
  destruct (s_cliconn s) as [c|] eqn:Hcc.
  - destruct (gi_cli s G c Hcc) as (_ & k & Hg & Ha & Hm & Hcb & Hup). rewrite Hg.
    pose proof (HC c k Hg) as HCk.
    destruct (phase_up_cases s c k (ci_phase s c k HCk Ha) Hup) as (Hadd & HE & HR & Hcase).
    assert (HD : todoN (isD c) s = 0).
    { destruct Hcase as [(_ & B & _)|[(B & _)|(B & _)]]; [exact B|congruence|congruence]. }
    destruct (ci_loop s c k HCk) as [L1 L2]. assert (L0 : k_loop k = 0) by (apply L2; congruence).
    destruct (ci_dtor s c k HCk) as [D1 D2]. rewrite Ha in D1.
    assert (Hlt : c < length (s_conns s)) by (eapply getc_lt, Hg).
    set (ka := set_own k CbDetail (k_mapped k) (k_urefs k) (k_delayed k)).
    match goal with |- match finish (if ?b then _ else _) _ with _ => _ end => destruct b eqn:Eg end; [exact I|].
    assert (Hg1 : getc (put s c ka) c = Some ka) by (apply getc_put_eq, Hlt).
    destruct (getl_valid s 0 G (Nat.le_0_l _)) as [v0 Hv0].
    (* what is needed of the final state *)
    assert (Hfinal : forall ls kf, length ls = length (s_loops s) ->
              (forall l v t, nth_error ls l = Some v -> In t (q_all v) ->
                 (exists v', getl s l = Some v' /\ In t (q_all v')) \/ t = TForceClose c /\ l = 0) ->
              (forall c1, c1 <> c -> same_for s (mkSys (s_nio s) (s_readd s) (upd (s_conns s) c kf) ls (s_rr s) (s_srv s) false None (s_calls s) (s_dying s) (s_stop s)) c1) ->
              same_core (set_own kf CbDetail false (k_urefs k) (k_delayed k)) kf ->
              (k_st kf = k_st k \/ k_st kf = Disconnecting) -> k_wr kf = k_wr k -> k_rd kf = k_rd k -> k_added kf = true ->
              k_pidx kf = k_pidx k -> k_loop kf = 0 -> k_alive kf = true -> k_ups kf = k_ups k -> k_downs kf = k_downs k ->
              k_dtors kf = 0 -> k_closes kf = 0 ->
              (1 <= k_urefs k \/ 1 <= sumq (fun l => cnt (isF c) (q_todo l)) ls) ->
              sumq (fun l => cnt (isE c) (q_todo l)) ls = 0 -> sumq (fun l => cnt (isR c) (q_todo l)) ls = 0 ->
              sumq (fun l => cnt (isD c) (q_todo l)) ls = 0 ->
              Inv0 (mkSys (s_nio s) (s_readd s) (upd (s_conns s) c kf) ls (s_rr s) (s_srv s) false None (s_calls s) (s_dying s) (s_stop s))).
    { intros ls kf Hlen Htasks Hfr Hcore Hst E2 E3 E4 E5 E6 E7 E11 E12 E13 E14 Hhold NE NR ND.
      destruct Hcore as (C1 & C2 & C3 & C4 & C5 & C6 & C7 & C8 & C9 & C10 & _). cbn [set_own k_ccb k_mapped k_urefs] in C8, C9, C10.
      assert (Hupf : up_k kf) by (destruct Hst as [E|E]; [unfold up_k; rewrite E; exact Hup|right; exact E]).
      set (s' := mkSys (s_nio s) (s_readd s) (upd (s_conns s) c kf) ls (s_rr s) (s_srv s) false None (s_calls s) (s_dying s) (s_stop s)).
      assert (Hext : conns_ext s s').
      { split; [unfold s'; cbn; rewrite length_upd; lia|]. intros c1 k1 Hk1. destruct (Nat.eq_dec c c1) as [<-|Hn].
        - exists kf. unfold getc, s'. cbn. rewrite nth_upd_eq by exact Hlt. split; [reflexivity|]. split; [congruence|].
          intros _. destruct Hupf; congruence.
        - exists k1. unfold getc, s'. cbn. rewrite nth_upd_neq by exact Hn. auto. }
      apply (invx_close s s' c (invx_of_inv0 s c (conj G HC))).
      - apply (ginv_cli_off s G); [exact Hlen| |].
        + intros l v t Hv Hin. destruct (Htasks l v t Hv Hin) as [(v' & Hv' & Hin')|[-> ->]].
          * apply (placed_mono s s' l t Hext), (gi_placed s G l v' t Hv' Hin').
          * split; [reflexivity|]. split; [intros ?; split; [intros Hx; discriminate Hx|discriminate]|]. exists kf. unfold getc, s'. cbn.
            rewrite nth_upd_eq by exact Hlt. split; [reflexivity|]. split; [exact E6|]. intros _. destruct Hupf; congruence.
        + intros a Hin. destruct (proj2 (gi_calls s G) a Hin) as (k1 & Hk1 & Ha1 & Hs1 & Hd1). destruct (Nat.eq_dec c (a_conn a)) as [E|Hn].
          * exists kf. rewrite <- E, nth_upd_eq by exact Hlt. split; [reflexivity|]. split; [exact E7|]. split; [destruct Hupf; congruence|exact Hd1].
          * exists k1. rewrite nth_upd_neq by exact Hn. auto.
      - intros c1 Hn. split; [unfold getc, s'; cbn; apply nth_upd_neq; auto|apply Hfr, Hn].
      - intros k2 Hk2. unfold getc, s' in Hk2. cbn in Hk2. rewrite nth_upd_eq in Hk2 by exact Hlt. injection Hk2 as <-.
        apply cinv_build; auto.
        + cbn. lia.
        + intros Hx. exfalso. apply Hx, Hupf.
        + pose proof (ci_cnt s c k HCk Ha) as Hc. unfold counters_ok in *. rewrite E11, E12.
          destruct Hst as [E|E]; rewrite E; [exact Hc|]. destruct Hup as [Eu|Eu]; rewrite Eu in Hc; exact Hc.
        + pose proof (ci_poll s c k HCk Ha) as Hp. unfold poller_ok, k_none in *. cbn [s_readd]. rewrite E4, E5, E2, E3.
          rewrite Hadd in Hp. exact Hp.
        + unfold phase. assert (Hb : k_added kf = true /\ todoN (isE c) s' = 0 /\ todoN (isR c) s' = 0 /\
            (k_mapped kf = false /\ todoN (isD c) s' = 0 /\ k_ccb kf = CbDetail /\ (1 <= k_urefs kf \/ 1 <= todoN (isF c) s'))).
          { unfold todoN, s'. cbn [s_loops]. rewrite C8, C9, C10. auto 10. }
          destruct Hb as (B1 & B2 & B3 & B4). destruct Hupf as [E|E]; rewrite E; auto 10. }
    cbn [andb] in Eg.
    destruct (holders s c =? 1) eqn:Euniq.
    + (* unique: forceClose() *)
      unfold force_close. rewrite Hg1. assert (Ecl : k_closable ka = true) by (apply closable_up_k; exact Hup). rewrite Ecl.
      set (kb := set_life ka Disconnecting (k_ups ka) (k_downs ka)).
      assert (Hgb : getc (put (put s c ka) c kb) c = Some kb) by (apply getc_put_eq; rewrite length_conns_put; exact Hlt).
      rewrite getc_enq, Hgb. cbn [ret]. apply finish_ok.
      set (kf := set_own kb (k_ccb kb) false (k_urefs kb) (k_delayed kb)).
      assert (Hl0 : k_loop ka = 0) by exact L0.
      rewrite Hl0. unfold enq. change (s_loops (put (put s c ka) c kb)) with (s_loops s). unfold getl in Hv0. rewrite Hv0.
      unfold set_cli, put, set_conns, set_loops. cbn [s_nio s_readd s_conns s_loops s_rr s_srv s_cli s_cliconn s_calls].
      assert (Eupd : upd (upd (upd (s_conns s) c ka) c kb) c kf = upd (s_conns s) c kf).
      { clear. generalize (s_conns s) c. induction l as [|x l IH]; intros [|n]; cbn; auto. f_equal. apply IH. }
      rewrite Eupd.
      set (v1 := mkLq (q_pend v0 ++ [TForceClose c]) (q_batch v0) (q_spent v0) (q_drain v0)).
      assert (HsF : forall p, sumq (fun l => cnt p (q_todo l)) (upd (s_loops s) 0 v1) = todoN p s + (if p (TForceClose c) then 1 else 0)).
      { intros p. pose proof (sumq_upd (fun l => cnt p (q_todo l)) (s_loops s) 0 v0 v1 Hv0) as E.
        assert (E2 : cnt p (q_todo v1) = cnt p (q_todo v0) + (if p (TForceClose c) then 1 else 0)).
        { unfold q_todo, v1. cbn [q_pend q_batch]. rewrite app_assoc. apply cnt_snoc. }
        unfold todoN. cbn beta in *. lia. }
      apply Hfinal; try reflexivity; try (cbn; auto; fail); try (rewrite length_upd; reflexivity); try (cbn; lia).
      * intros l v t Hv Hin. destruct (Nat.eq_dec l 0) as [->|Hn].
        -- rewrite nth_upd_eq in Hv by (eapply nth_some_lt, Hv0). injection Hv as <-.
           apply in_q_all_set in Hin as [Hin| ->]; [left; exists v0; split; [exact Hv0|exact Hin]|right; auto].
        -- rewrite nth_upd_neq in Hv by auto. left. exists v. auto.
      * intros c1 Hn.
        pose proof (same_for_put_enq s c kf 0 (TForceClose c) c1 Hn ltac:(cbn; apply Nat.eqb_refl)) as Hs.
        rewrite (enq_set_loop (put s c kf) 0 (TForceClose c) v0 Hv0) in Hs.
        destruct Hs as [S1 S2 S3 S4 S5 S6 S7 S8 S9 S10 S11]. constructor; try assumption; try reflexivity.
        cbn. rewrite Hcc. split; [intros [Hx _]; discriminate|]. intros [_ Hx]. injection Hx as Hx. congruence.
      * unfold same_core. cbn. repeat split.
      * right. rewrite (HsF (isF c)). cbn. rewrite Nat.eqb_refl. lia.
      * rewrite (HsF (isE c)). cbn. lia.
      * rewrite (HsF (isR c)). cbn. lia.
      * rewrite (HsF (isD c)). cbn. lia.
    + (* a reference is held elsewhere: no forceClose() *)
      cbn [negb andb] in Eg. apply negb_false_iff, Nat.eqb_eq in Eg.
      rewrite Hg1. cbn [ret]. apply finish_ok.
      set (kf := set_own ka (k_ccb ka) false (k_urefs ka) (k_delayed ka)).
      unfold set_cli. rewrite put_put. unfold put, set_conns. cbn [s_nio s_readd s_conns s_loops s_rr s_srv s_cli s_cliconn s_calls].
      apply Hfinal; try reflexivity; try (cbn; auto; fail); try (cbn; lia).
      * intros l v t Hv Hin. left. exists v. auto.
      * intros c1 Hn. constructor; try reflexivity.
        cbn. rewrite Hcc. split; [intros [Hx _]; discriminate|]. intros [_ Hx]. injection Hx as Hx. congruence.
      * unfold same_core. cbn. repeat split.
      * left. apply Nat.eqb_neq in Euniq. lia.
  - (* no connection: the connector is stopped *)
    cbn [ret]. apply finish_ok. set (s1 := set_cli s false None).
    assert (HI1 : Inv0 s1).
    { split.
      - destruct G as [G1 Gr G2 G3 G4]. constructor; auto. discriminate.
      - intros c k Hg. change (getc s1 c) with (getc s c) in Hg.
        apply (same_for_cinv s s1 c k); [|exact Hg|exact Hg|apply HC, Hg].
        constructor; try reflexivity. cbn. rewrite Hcc. split; intros [_ Hx]; discriminate. }
    apply enq_plain; [exact HI1|reflexivity| |discriminate].
    split; [reflexivity|]. split; [intros ?; split; [intros Hx; discriminate Hx|discriminate]|exact I].
Qed.

(* ---- ~TcpServer ------------------------------------------------------------------------------------- *)
Lemma has_task_false s p q : has_task p s = false -> (forall t, q t = true -> p t = true) ->
  todoN q s = 0 /\ allN q s = 0.
Proof.
  intros H Hq. unfold has_task in H.
  assert (Hz : forall v, In v (s_loops s) -> cnt q (q_all v) = 0).
  { intros v Hin. apply cnt_zero_notin. intros t Ht. destruct (q t) eqn:E; [|reflexivity]. exfalso.
    assert (Hx : existsb (fun l => existsb p (q_all l)) (s_loops s) = true).
    { apply existsb_exists. exists v. split; [exact Hin|]. apply existsb_exists. exists t. split; [exact Ht|apply Hq, E]. }
    congruence. }
  split.
  - unfold todoN. apply sumq_zero. intros v Hin. pose proof (Hz v Hin) as E. rewrite q_all_todo, cnt_app in E. lia.
  - unfold allN. apply sumq_zero. exact Hz.
Qed.

Lemma isR_remove c t : isR c t = true -> is_remove t = true.
Proof. destruct t; cbn; auto; discriminate. Qed.
Lemma isF_force c t : isF c t = true -> is_force t = true.
Proof. destruct t; cbn; auto; discriminate. Qed.

Lemma set_srv_fields s b : s_nio (set_srv s b) = s_nio s /\ s_readd (set_srv s b) = s_readd s /\ s_conns (set_srv s b) = s_conns s /\
  s_loops (set_srv s b) = s_loops s /\ s_cli (set_srv s b) = s_cli s /\ s_cliconn (set_srv s b) = s_cliconn s /\
  s_calls (set_srv s b) = s_calls s /\ s_srv (set_srv s b) = b.
Proof. repeat split. Qed.

(* a connection that ~TcpServer does not touch does not care whether the server object exists *)
Lemma cinv_srv_off s c k : CInv s c k -> s_srv s = true -> todoN (isR c) s = 0 ->
  ~ (k_alive k = true /\ k_ccb k = CbServer /\ k_mapped k = true) -> CInv (set_srv s false) c k.
Proof.
  intros [Hl Hi Hc Hp Hph Hd Hds Hdt] Hsrv HR Hnot. constructor; auto.
  intros Ha. specialize (Hph Ha). unfold phase, owner_alive in *.
  change (todoN (isE c) (set_srv s false)) with (todoN (isE c) s). change (todoN (isR c) (set_srv s false)) with (todoN (isR c) s).
  change (todoN (isD c) (set_srv s false)) with (todoN (isD c) s). change (todoN (isF c) (set_srv s false)) with (todoN (isF c) s).
  change (loop_todo (set_srv s false) (k_loop k)) with (loop_todo s (k_loop k)).
  change (s_cli (set_srv s false)) with (s_cli s). change (s_cliconn (set_srv s false)) with (s_cliconn s).
  change (s_srv (set_srv s false)) with false. rewrite Hsrv in Hph.
  destruct (k_st k).
  - destruct Hph as (A1 & Hcb & A3 & A4 & A5 & A6 & [(Hm & _)|B]); [exfalso; apply Hnot; auto|]. auto 10.
  - destruct Hph as (A1 & A2 & A3 & [(B1 & B2 & B3)|[B|B]]); [|auto 10|auto 10].
    repeat (split; [assumption|]). left. repeat (split; [assumption|]).
    destruct (k_ccb k) eqn:E; [exfalso; apply Hnot; auto|exact B3|exact B3].
  - destruct Hph as (A1 & A2 & A3 & [(B1 & B2 & B3)|[B|B]]); [|auto 10|auto 10].
    repeat (split; [assumption|]). left. repeat (split; [assumption|]).
    destruct (k_ccb k) eqn:E; [exfalso; apply Hnot; auto|exact B3|exact B3].
  - destruct Hph as (A1 & [(_ & _ & Hx & _)|B]); [lia|]. split; [exact A1|]. right. exact B.
Qed.

Lemma has_task_enq s l t p : has_task p s = false -> p t = false -> has_task p (enq s l t) = false.
Proof.
  intros H Hp. destruct (getl s l) as [v|] eqn:Ev; [|rewrite (enq_none s l t Ev); exact H].
  rewrite (enq_set_loop s l t v Ev). unfold has_task, set_loop in *. cbn [s_loops set_loops].
  apply not_true_is_false. intros Hx. apply existsb_exists in Hx as (w & Hw & Hex).
  apply In_nth_error in Hw as [j Hj]. destruct (Nat.eq_dec l j) as [<-|Hn].
  - rewrite nth_upd_eq in Hj by (eapply nth_some_lt, Ev). injection Hj as <-.
    apply existsb_exists in Hex as (x & Hx & Hpx). apply in_q_all_set in Hx as [Hx| ->]; [|congruence].
    assert (existsb (fun l0 => existsb p (q_all l0)) (s_loops s) = true); [|congruence].
    apply existsb_exists. exists v. split; [eapply nth_error_In, Ev|]. apply existsb_exists. eauto.
  - rewrite nth_upd_neq in Hj by exact Hn.
    assert (existsb (fun l0 => existsb p (q_all l0)) (s_loops s) = true); [|congruence].
    apply existsb_exists. exists w. split; [eapply nth_error_In, Hj|exact Hex].
Qed.


Lemma set_dying_inv0 s b : Inv0 s -> Inv0 (set_dying s b).
Proof.
  intros [[G1 Gr G2 G3 G4] HC]. split; [constructor; auto|].
  intros c k Hg. destruct (HC c k Hg) as [Hl Hi Hc Hp Hph Hd Hds Hdt]. constructor; auto.
Qed.

Lemma next_entry_some cs : forall c0 c, next_entry cs c0 = Some c -> exists k, nth_error cs (c - c0) = Some k /\ is_entry k = true /\ c0 <= c.
Proof.
  induction cs as [|x cs IH]; intros c0 c H; [discriminate|]. cbn [next_entry] in H. destruct (is_entry x) eqn:E.
  - injection H as <-. exists x. rewrite Nat.sub_diag. auto.
  - destruct (IH (S c0) c H) as (k & Hk & He & Hle). exists k. replace (c - c0) with (S (c - S c0)) by lia. auto with arith.
Qed.

Lemma next_entry_none cs : forall c0, next_entry cs c0 = None -> forall i k, nth_error cs i = Some k -> is_entry k = false.
Proof.
  induction cs as [|x cs IH]; intros c0 H i k Hi; [destruct i; discriminate|]. cbn [next_entry] in H. destruct (is_entry x) eqn:E; [discriminate|].
  destruct i; cbn in Hi; [injection Hi as <-; exact E|apply (IH (S c0) H i k Hi)].
Qed.

Lemma is_entry_spec k : is_entry k = true <-> (k_alive k = true /\ k_ccb k = CbServer /\ k_mapped k = true).
Proof. unfold is_entry. destruct (k_ccb k), (k_mapped k), (k_alive k); cbn; intuition congruence. Qed.

(* one iteration of ~TcpServer's loop: the server object is alive, no hop and no forced close is queued *)
Lemma srv_hand_inv s c k : Inv0 s -> s_srv s = true -> has_task is_remove s = false -> has_task is_force s = false ->
  getc s c = Some k -> k_alive k = true -> k_ccb k = CbServer -> k_mapped k = true ->
  exists s' o, (let s1 := put s c (unmapped k) in
                if k_loop k =? 0 then connect_destroyed s1 0 c else ret (enq s1 (k_loop k) (TDestroy c))) = Ok (s', o) /\ Inv0 s'.
Proof.
  intros [G HC] Hsrv Hnr Hnf Hg Ha Hcb Hm. cbv zeta.
  pose proof (HC c k Hg) as HCk.
  pose proof (ci_phase s c k HCk Ha) as Hph.
  destruct (ci_loop s c k HCk) as [L1 L2]. destruct (ci_dtor s c k HCk) as [D1 D2]. rewrite Ha in D1.
  assert (Hlt : c < length (s_conns s)) by (eapply getc_lt, Hg).
  destruct (has_task_false s is_remove (isR c) Hnr (isR_remove c)) as [NR _].
  destruct (has_task_false s is_force (isF c) Hnf (isF_force c)) as [NF _].
  set (ku := unmapped k). set (s1 := put s c ku).
  assert (Hncli : s_cliconn s <> Some c).
  { intros Hc. destruct (gi_cli s G c Hc) as (_ & k0 & Hk0 & _ & _ & Hx & _). rewrite Hg in Hk0. injection Hk0 as <-. congruence. }
  assert (G1 : GInv s1) by (apply (ginv_put_nc s c k ku G Hg eq_refl eq_refl (fun H => H) Hncli)).
  assert (Hg1 : getc s1 c = Some ku) by (apply getc_put_eq, Hlt).
  (* the three possible phases of a live, mapped server connection *)
  assert (Hcases : (k_st k = Connecting /\ k_loop k <> 0) \/ (up_k k /\ k_added k = true) ).
  { unfold phase in Hph. destruct (k_st k) eqn:Est.
    - left. split; [reflexivity|]. destruct Hph as (_ & _ & HE & _).
      (* the queued connectEstablished sits on an io loop *)
      destruct (getl_valid s (k_loop k) G L1) as [v Hv].
      pose proof (todoN_local (isE c) s c k G Hg L1 (isE_local c)) as EL. unfold loop_todo in EL. rewrite Hv in EL.
      assert (Hex : exists t, In t (q_todo v) /\ isE c t = true).
      { clear - EL HE. rewrite HE in EL. induction (q_todo v) as [|x l IH]; [cbn in EL; lia|]. rewrite cnt_cons in EL.
        destruct (isE c x) eqn:E; [exists x; split; [left; reflexivity|exact E]|]. destruct IH as (t & Ht & Et); [lia|]. exists t. split; [right; exact Ht|exact Et]. }
      destruct Hex as (t & Ht & Et). assert (Hin : In t (q_all v)) by (rewrite q_all_todo; apply in_or_app; right; exact Ht).
      destruct (gi_placed s G (k_loop k) v t Hv Hin) as [_ [Hne _]]. destruct t; cbn in Et; try discriminate. apply (proj1 (Hne c0) eq_refl).
    - right. split; [left; exact Est|apply Hph].
    - right. split; [right; exact Est|apply Hph].
    - exfalso. destruct Hph as (_ & [(_ & _ & Hx & _)|[(_ & Hx & _)|(_ & Hx & _)]]); [lia|congruence|congruence]. }
  (* frame and the untouched connections *)
  assert (Hrest : forall s', GInv s' -> (forall c1, c1 <> c -> getc s' c1 = getc s c1 /\ same_for s s' c1) ->
            (forall k', getc s' c = Some k' -> CInv s' c k') -> Inv0 s').
  { intros s' G' Hfr Hc'. apply (inv0_frame s s' c (conj G HC) G' Hfr Hc'). }
  destruct (k_loop k =? 0) eqn:El0.
  - (* the acceptor loop is the connection's loop: connectDestroyed runs inline *)
    apply Nat.eqb_eq in El0. destruct Hcases as [(_ & Hx)|(Hup & Hadd)]; [congruence|].
    unfold connect_destroyed. rewrite Hg1. cbn [ku unmapped set_own k_alive k_loop]. rewrite Ha, El0. cbn [Nat.eqb negb].
    assert (Ecl : k_closable ku = true) by (apply closable_up_k; exact Hup).
    rewrite Ecl.
    pose proof (chan_update_fields (s_readd s1) (set_life ku Disconnected (k_ups ku) (S (k_downs ku))) false false) as F.
    cbv zeta in F.
    set (k1 := chan_update (s_readd s1) (set_life ku Disconnected (k_ups ku) (S (k_downs ku))) false false) in *.
    unfold ku, unmapped in F.
    cbn [set_life set_own k_st k_rflag k_loop k_alive k_ccb k_mapped k_urefs k_delayed k_fin k_ups k_downs k_dtors k_closes] in F.
    destruct F as (F1 & F2 & F3 & F4 & F5 & F6 & F7 & F8 & F9 & F10 & F11 & F12 & F13 & F14 & F15 & F16 & F17).
    unfold chan_remove, k_none. rewrite F2, F3. cbn [orb negb].
    destruct (pidx_eqb (k_pidx k1) PNew) eqn:Ep; [destruct (k_pidx k1); try discriminate; congruence|].
    cbn [emit]. set (k2 := set_chan k1 false false false PNew). unfold s1. rewrite put_put.
    eexists _, _. split; [reflexivity|].
    apply Hrest.
    + apply (ginv_put_nc s c k k2 G Hg); cbn; try congruence.
    + intros c1 Hn. split; [apply getc_put_neq; auto|apply same_for_put].
    + intros k' Hk'. change (getc (put s c k2) c) with (getc (put s c k2) c) in *.
      rewrite getc_put_eq in Hk' by exact Hlt. injection Hk' as <-.
      pose proof (ci_cnt s c k HCk Ha) as Hc. unfold counters_ok in Hc.
      apply cinv_build; cbn [k2 set_chan k_alive k_loop k_ccb k_wr k_rd k_dtors k_closes k_st k_ups k_downs]; try congruence; auto.
      * cbn. rewrite F6. exact L1.
      * unfold counters_ok. cbn. rewrite F1, F13, F14. destruct Hup as [E|E]; rewrite E in Hc; lia.
      * unfold poller_ok, k_none. cbn. split; [tauto|discriminate].
      * unfold phase. cbn [k2 set_chan k_st k_added k_mapped k_ccb]. rewrite F1.
        change (todoN (isE c) (put s c k2)) with (todoN (isE c) s).
        change (todoN (isR c) (put s c k2)) with (todoN (isR c) s).
        change (todoN (isD c) (put s c k2)) with (todoN (isD c) s).
        destruct (phase_up_cases s c k Hph Hup) as (_ & HE & _ & [(_ & HD & _)|[(B & _)|(B & _)]]); try congruence.
        split; [exact HE|]. right. right. rewrite F9. auto.
  - (* an io loop: connectDestroyed is queued there *)
    apply Nat.eqb_neq in El0. cbn [ret]. set (t := TDestroy c). set (s2 := enq s1 (k_loop k) t).
    destruct (getl_valid s (k_loop k) G L1) as [v Hv]. assert (Hv1 : getl s1 (k_loop k) = Some v) by exact Hv.
    destruct (enq_fields s1 (k_loop k) t) as (N1 & N2 & N3 & N4 & N5 & N6).
    exists s2, []. split; [reflexivity|].
    apply Hrest.
    + apply ginv_enq; [exact G1|]. split; [reflexivity|]. split; [intros ?; split; [intros Hx; discriminate Hx|discriminate]|]. exists ku. split; [exact Hg1|]. split; [reflexivity|discriminate].
    + intros c1 Hn. split; [unfold s2; rewrite getc_enq; apply getc_put_neq; auto|].
      apply same_for_put_enq; [exact Hn|]. cbn. apply Nat.eqb_refl.
    + intros k' Hk'. change (getc s2 c) with (getc s2 c) in Hk'. unfold s2 in Hk'. rewrite getc_enq, Hg1 in Hk'. injection Hk' as <-.
      apply cinv_build; cbn [ku unmapped set_own k_alive k_loop k_ccb k_wr k_rd k_dtors k_closes]; try congruence; auto.
      * change (s_nio s2) with (s_nio s2). unfold s2. rewrite N1. exact L1.
      * apply (ci_idle s c k HCk Ha).
      * apply (ci_cnt s c k HCk Ha).
      * change (s_readd s2) with (s_readd s2). unfold s2. rewrite N2. apply (ci_poll s c k HCk Ha).
      * unfold phase. cbn [ku unmapped set_own k_st k_added k_mapped k_ccb k_loop k_urefs].
        change (todoN (isE c) s2) with (todoN (isE c) s2). change (todoN (isR c) s2) with (todoN (isR c) s2).
        change (todoN (isD c) s2) with (todoN (isD c) s2). change (todoN (isF c) s2) with (todoN (isF c) s2).
        change (loop_todo s2 (k_loop k)) with (loop_todo s2 (k_loop k)).
        unfold s2. rewrite (todoN_enq (isE c) s1 _ t v Hv1), (todoN_enq (isR c) s1 _ t v Hv1), (todoN_enq (isD c) s1 _ t v Hv1),
                           (todoN_enq (isF c) s1 _ t v Hv1), (loop_todo_enq_eq s1 _ t v Hv1).
        unfold t. cbn [isE isR isD isF]. rewrite Nat.eqb_refl.
        change (todoN (isE c) s1) with (todoN (isE c) s). change (todoN (isR c) s1) with (todoN (isR c) s).
        change (todoN (isD c) s1) with (todoN (isD c) s). change (todoN (isF c) s1) with (todoN (isF c) s).
        change (loop_todo s1 (k_loop k)) with (loop_todo s (k_loop k)).
        unfold phase in Hph. destruct Hcases as [(Est & _)|(Hup & Hadd)].
        -- rewrite Est in *. destruct Hph as (A1 & A2 & A3 & A4 & A5 & A6 & [(B1 & B2 & B3)|(B1 & _)]); [|congruence].
           repeat (split; [assumption || lia|]). split; [apply first_life_app_some, A6|]. right. repeat split; auto; lia.
        -- destruct (phase_up_cases s c k Hph Hup) as (_ & HE & _ & [(_ & HD & _)|[(B & _)|(B & _)]]); try congruence.
           assert (Hgoal : k_added k = true /\ todoN (isE c) s + 0 = 0 /\ todoN (isR c) s + 0 = 0 /\
             (false = true /\ todoN (isD c) s + 1 = 0 /\ owner_alive s2 c ku \/
              false = false /\ todoN (isD c) s + 1 = 1 /\ k_ccb k = CbServer /\
                first_life c (loop_todo s (k_loop k) ++ [TDestroy c]) = Some LD \/
              false = false /\ todoN (isD c) s + 1 = 0 /\ k_ccb k = CbDetail /\ (1 <= k_urefs k \/ 1 <= todoN (isF c) s + 0))).
           { split; [exact Hadd|]. split; [lia|]. split; [lia|]. right. left. repeat (split; [reflexivity || lia || assumption|]).
             pose proof (todoN_local (isE c) s c k G Hg L1 (isE_local c)) as LE'.
             pose proof (todoN_local (isD c) s c k G Hg L1 (isD_local c)) as LD'.
             pose proof (todoN_local (isF c) s c k G Hg L1 (isF_local c)) as LF'.
             rewrite first_life_app_none; [cbn; unfold life_of; cbn; rewrite Nat.eqb_refl; reflexivity|].
             apply cnt_zero_first_life; lia. }
           unfold owner_alive in *. destruct Hup as [E|E]; rewrite E; exact Hgoal.
Qed.


Lemma step_SrvDestroy s : Inv s -> step_ok s SrvDestroy.
Proof.
  intros [[G HC] HH]. unfold step_ok, step. destruct (s_srv s) eqn:Hsrv; [|exact I]. cbn [negb andb].
  destruct (has_task is_remove s || has_task is_force s) eqn:Eg; [exact I|]. apply orb_false_iff in Eg as [Enr Enf].
  destruct (next_entry (s_conns s) 0) as [c|] eqn:En.
  - (* one iteration *)
    destruct (next_entry_some _ _ _ En) as (k & Hk & He & _). rewrite Nat.sub_0_r in Hk.
    apply is_entry_spec in He as (Ha & Hcb & Hm).
    pose proof (set_dying_inv0 s true (conj G HC)) as HI1.
    destruct (srv_hand_inv (set_dying s true) c k HI1 Hsrv Enr Enf Hk Ha Hcb Hm) as (s1 & o1 & E1 & HI2).
    unfold srv_hand. change (getc (set_dying s true) c) with (nth_error (s_conns s) c). rewrite Hk.
    cbv zeta in E1. unfold unmapped in E1. rewrite Hcb in E1. rewrite Hcb. rewrite E1. apply finish_ok, HI2.
  - (* the body is over: the members die *)
    apply finish_ok. apply set_stop_inv0, set_dying_inv0.
    split; [destruct G as [G1 Gr G2 G3 G4]; constructor; auto|].
    intros c k Hg. change (getc (set_srv s false) c) with (getc s c) in Hg.
    apply (cinv_srv_off s c k (HC c k Hg) Hsrv).
    + apply (has_task_false s is_remove (isR c) Enr (isR_remove c)).
    + intros Hx. apply is_entry_spec in Hx. rewrite (next_entry_none _ _ En c k Hg) in Hx. discriminate.
Qed.

(* ==== QInv is an invariant: what every op does to the queues of the io loops ========================= *)
(* [arel s s']: the loops' batches, spent functors and drain flags are the same, the pending queues only grew, and -
   once the server object is gone - no connectEstablished / connectDestroyed was appended to an io loop *)
Definition noRm (t : task) : bool := negb (is_remove t).
Definition arel (s s' : sys) : Prop :=
  s_srv s' = s_srv s /\ s_stop s' = s_stop s /\
  forall l, match getl s l, getl s' l with
            | Some v, Some v' => q_batch v' = q_batch v /\ q_spent v' = q_spent v /\ q_drain v' = q_drain v /\
                                 exists ex, q_pend v' = q_pend v ++ ex /\
                                            (s_srv s = false -> forallb noRm ex = true /\ (l <> 0 -> forallb noED ex = true))
            | None, None => True
            | _, _ => False
            end.
(* connections that do not belong to the server live on the base loop *)
Definition cl0 (s : sys) : Prop := forall c k, getc s c = Some k -> k_ccb k <> CbServer -> k_loop k = 0.
Definition agood (s : sys) (m : M) : Prop := match m with Ok (s', _) => arel s s' | _ => True end.

Lemma arel_same s s' : s_loops s' = s_loops s -> s_srv s' = s_srv s -> s_stop s' = s_stop s -> arel s s'.
Proof.
  intros Hl Hs Hp. split; [exact Hs|]. split; [exact Hp|]. intros l. unfold getl. rewrite Hl.
  destruct (nth_error (s_loops s) l) as [v|]; [|exact I]. repeat (split; [reflexivity|]). exists []. rewrite app_nil_r. cbn. auto.
Qed.

Lemma arel_refl s : arel s s.
Proof. apply arel_same; reflexivity. Qed.

Lemma arel_trans s1 s2 s3 : arel s1 s2 -> arel s2 s3 -> arel s1 s3.
Proof.
  intros (A1 & A2 & A3) (B1 & B2 & B3). split; [congruence|]. split; [congruence|]. intros l. specialize (A3 l). specialize (B3 l).
  destruct (getl s1 l) as [v1|], (getl s2 l) as [v2|], (getl s3 l) as [v3|]; try contradiction; try exact I.
  destruct A3 as (a1 & a2 & a3 & ex1 & a4 & a5). destruct B3 as (b1 & b2 & b3 & ex2 & b4 & b5).
  repeat (split; [congruence|]). exists (ex1 ++ ex2). split; [rewrite b4, a4, app_assoc; reflexivity|].
  intros Hs. destruct (a5 Hs) as [a6 a7]. destruct (b5 ltac:(congruence)) as [b6 b7]. rewrite !forallb_app, a6, b6. split; [reflexivity|].
  intros Hl. rewrite (a7 Hl), (b7 Hl). reflexivity.
Qed.

Lemma arel_enq s l t : (s_srv s = false -> noRm t = true /\ (l <> 0 -> noED t = true)) -> arel s (enq s l t).
Proof.
  intros Ht. destruct (enq_fields s l t) as (_ & _ & F3 & _). split; [exact F3|]. split; [unfold enq; destruct (nth_error (s_loops s) l); reflexivity|].
  intros l'. destruct (getl s l) as [v|] eqn:Ev.
  - destruct (Nat.eq_dec l l') as [<-|Hn].
    + rewrite Ev, (getl_enq_eq s l t v Ev). cbn [q_pend q_batch q_spent q_drain]. repeat (split; [reflexivity|]).
      exists [t]. split; [reflexivity|]. intros Hs. destruct (Ht Hs) as [A B]. cbn. rewrite A. split; [reflexivity|]. intros Hl. rewrite (B Hl). reflexivity.
    + rewrite (getl_enq_neq s l l' t Hn). destruct (getl s l') as [v'|]; [|exact I]. repeat (split; [reflexivity|]). exists []. rewrite app_nil_r. cbn. auto.
  - rewrite (enq_none s l t Ev). destruct (getl s l') as [v'|]; [|exact I]. repeat (split; [reflexivity|]). exists []. rewrite app_nil_r. cbn. auto.
Qed.

(* a functor that is neither the owner hop nor a hand-off *)
Lemma arel_enq_plain s l t : noRm t = true -> noED t = true -> arel s (enq s l t).
Proof. intros A B. apply arel_enq. auto. Qed.
Lemma arel_enq_srv s l t : s_srv s = true -> arel s (enq s l t).
Proof. intros A. apply arel_enq. congruence. Qed.
Lemma arel_enq0 s t : noRm t = true -> arel s (enq s 0 t).
Proof. intros A. apply arel_enq. intros _. split; [exact A|congruence]. Qed.

Lemma arel_put s c k : arel s (put s c k).
Proof. apply arel_same; reflexivity. Qed.

Lemma arel_put_enq s c k l t : (s_srv s = true \/ (noRm t = true /\ noED t = true)) -> arel s (enq (put s c k) l t).
Proof.
  intros H. apply (arel_trans s (put s c k) _ (arel_put s c k)). destruct H as [H|[A B]]; [apply arel_enq_srv, H|apply arel_enq_plain; assumption].
Qed.

Lemma agood_ret s s' : arel s s' -> agood s (ret s').
Proof. intros H. exact H. Qed.

Lemma agood_bind s m f : agood s m -> (forall s1, arel s s1 -> agood s1 (f s1)) -> agood s (bind m f).
Proof.
  intros Hm Hf. unfold bind. destruct m as [[s1 o1]| |]; [|exact I|exact I]. cbn in Hm.
  specialize (Hf s1 Hm). destruct (f s1) as [[s2 o2]| |]; [|exact I|exact I]. apply (arel_trans s s1 s2 Hm Hf).
Qed.

Lemma agood_weaken s0 s m : arel s0 s -> agood s m -> agood s0 m.
Proof. intros H Hm. destruct m as [[s1 o1]| |]; [|exact I|exact I]. apply (arel_trans s0 s s1 H Hm). Qed.

Lemma cl0_put s c k k' : cl0 s -> getc s c = Some k -> k_loop k' = k_loop k -> (k_ccb k' = k_ccb k \/ (k_ccb k <> CbServer)) -> cl0 (put s c k').
Proof.
  intros H Hg Hl Hcb c1 k1 Hg1 Hn. destruct (Nat.eq_dec c c1) as [<-|Hne].
  - rewrite getc_put_eq in Hg1 by (eapply getc_lt, Hg). injection Hg1 as <-. rewrite Hl. apply (H c k Hg).
    destruct Hcb as [E|E]; [congruence|exact E].
  - rewrite getc_put_neq in Hg1 by exact Hne. apply (H c1 k1 Hg1 Hn).
Qed.

Lemma inv0_cl0 s : Inv0 s -> cl0 s.
Proof. intros [_ HC] c k Hg Hn. apply (proj2 (ci_loop s c k (HC c k Hg)) Hn). Qed.

Lemma agood_establish s thr c : agood s (establish s thr c).
Proof.
  unfold establish. destruct (getc s c) as [k|]; [|exact I]. destruct (negb (k_alive k)); [exact I|].
  destruct (negb (thr =? k_loop k)); [exact I|]. destruct (negb (cstate_eqb (k_st k) Connecting)); [exact I|]. apply arel_put.
Qed.

Lemma agood_remove_in_loop s thr c : agood s (remove_in_loop s thr c).
Proof.
  unfold remove_in_loop. destruct (s_srv s) eqn:Hs; [|exact I]. cbn [negb]. destruct (negb (thr =? 0)); [exact I|].
  destruct (getc s c) as [k|]; [|exact I]. destruct (negb (k_mapped k)); [exact I|]. cbn [ret agood].
  apply arel_put_enq. left. exact Hs.
Qed.

(* the connection's owner, if it is the server, still exists *)
Definition sv (s : sys) (c : nat) : Prop := forall k, getc s c = Some k -> k_ccb k = CbServer -> s_srv s = true.

Lemma agood_close_cb s thr c : cl0 s -> sv s c -> agood s (close_cb s thr c).
Proof.
  intros Hcl Hsv. unfold close_cb. destruct (getc s c) as [k|] eqn:Hg; [|exact I]. destruct (k_ccb k) eqn:Ecb.
  - rewrite (Hsv k Hg Ecb). cbn [negb andb]. destruct (thr =? 0); [apply agood_remove_in_loop|].
    apply arel_enq_srv, (Hsv k Hg Ecb).
  - destruct (negb (s_cli s)); [exact I|]. destruct (negb (thr =? 0)); [exact I|]. destruct (s_cliconn s) as [c'|]; [|exact I].
    destruct (negb (c' =? c)); [exact I|]. cbn [ret agood].
    match goal with |- arel s (enq ?x 0 ?t) => apply (arel_trans s x _) end; [apply arel_same; reflexivity|].
    apply arel_enq0. reflexivity.
  - cbn [ret agood]. rewrite (Hcl c k Hg) by congruence. apply arel_enq0. reflexivity.
Qed.

Lemma agood_handle_close s thr c : cl0 s -> sv s c -> agood s (handle_close s thr c).
Proof.
  intros Hcl Hsv. unfold handle_close. destruct (getc s c) as [k|] eqn:Hg; [|exact I].
  destruct (negb (thr =? k_loop k)); [exact I|]. destruct (negb (k_closable k)); [exact I|].
  set (k1 := chan_update (s_readd s) (set_life k Disconnected (k_ups k) (S (k_downs k))) false false).
  pose proof (chan_update_fields (s_readd s) (set_life k Disconnected (k_ups k) (S (k_downs k))) false false) as F. cbv zeta in F.
  destruct F as (_ & _ & _ & _ & _ & F6 & _ & F8 & _). fold k1 in F6, F8. cbn [set_life k_loop k_ccb] in F6, F8.
  assert (Hcl1 : cl0 (put s c k1)) by (apply (cl0_put s c k k1 Hcl Hg); [exact F6|left; exact F8]).
  assert (Hsv1 : sv (put s c k1) c).
  { intros k2 Hk2 Hcb. rewrite getc_put_eq in Hk2 by (eapply getc_lt, Hg). injection Hk2 as <-. apply (Hsv k Hg). congruence. }
  pose proof (agood_close_cb (put s c k1) thr c Hcl1 Hsv1) as H. unfold emit, bind.
  destruct (close_cb (put s c k1) thr c) as [[s2 o2]| |]; [|exact I|exact I].
  apply (arel_trans s (put s c k1) s2 (arel_put s c k1) H).
Qed.

Lemma agood_connect_destroyed s thr c : agood s (connect_destroyed s thr c).
Proof.
  unfold connect_destroyed. destruct (getc s c) as [k|]; [|exact I]. destruct (negb (k_alive k)); [exact I|].
  destruct (negb (thr =? k_loop k)); [exact I|].
  destruct (k_closable k); (match goal with |- agood s (match chan_remove ?x with _ => _ end) => destruct (chan_remove x) end); try exact I; apply arel_put.
Qed.

Lemma arel_force_close s c : arel s (force_close s c).
Proof.
  unfold force_close. destruct (getc s c) as [k|]; [|apply arel_refl]. destruct (k_closable k); [|apply arel_refl].
  apply arel_put_enq. right. split; reflexivity.
Qed.

Lemma arel_start_read s c : arel s (start_read s c).
Proof. unfold start_read. destruct (getc s c) as [k|]; [|apply arel_refl]. match goal with |- context [if ?b then _ else _] => destruct b end; [apply arel_put|apply arel_refl]. Qed.

Lemma arel_stop_read s c : arel s (stop_read s c).
Proof. unfold stop_read. destruct (getc s c) as [k|]; [|apply arel_refl]. match goal with |- context [if ?b then _ else _] => destruct b end; [apply arel_put|apply arel_refl]. Qed.

Lemma arel_send_in_loop s c full wc : arel s (send_in_loop s c full wc).
Proof.
  unfold send_in_loop. destruct (getc s c) as [k|]; [|apply arel_refl]. destruct (cstate_eqb (k_st k) Disconnected); [apply arel_refl|].
  destruct (k_wr k); [apply arel_refl|]. destruct (k_fin k); [apply arel_refl|]. destruct full; [|apply arel_put].
  destruct wc; [|apply arel_refl]. apply arel_enq_plain; reflexivity.
Qed.

Lemma sweep_from_same n : forall s thr c, let s' := fst (sweep_from s thr n c) in
  s_loops s' = s_loops s /\ s_srv s' = s_srv s /\ s_stop s' = s_stop s.
Proof.
  induction n as [|n IH]; intros s thr c; cbn [sweep_from]; [cbn; auto|].
  destruct (getc s c) as [k|]; [|cbn; auto]. destruct (k_alive k && (holders s c =? 0)); [|apply IH].
  specialize (IH (put s c (kill k)) thr (S c)). destruct (sweep_from (put s c (kill k)) thr n (S c)) as [s1 o1]. exact IH.
Qed.

Lemma agood_finish s m thr : agood s m -> agood s (finish m thr).
Proof.
  intros H. unfold finish. destruct m as [[s1 o1]| |]; [|exact I|exact I]. cbn in H.
  unfold sweep. pose proof (sweep_from_same (length (s_conns s1)) s1 thr 0) as Hs. cbv zeta in Hs.
  destruct (sweep_from s1 thr (length (s_conns s1)) 0) as [s2 d]. cbn [fst] in Hs. destruct Hs as (A & B & C).
  destruct (all_clean d); [|exact I]. apply (arel_trans s s1 s2 H). apply arel_same; assumption.
Qed.

Lemma agood_accept s : agood s (accept s).
Proof.
  unfold accept. destruct (negb (s_srv s) || s_dying s) eqn:Hs; [exact I|]. apply orb_false_iff in Hs as [Hs _]. apply negb_false_iff in Hs.
  match goal with |- agood s (if ?b then establish ?x _ _ else _) => destruct b; [apply (agood_weaken s x); [apply arel_same; reflexivity|apply agood_establish]|] end.
  cbn [ret agood]. match goal with |- arel s (enq ?x _ _) => apply (arel_trans s x); [apply arel_same; reflexivity|] end.
  apply arel_enq_srv. exact Hs.
Qed.

Lemma agood_srv_hand s c : s_srv s = true -> agood s (srv_hand s c).
Proof.
  intros Hs. unfold srv_hand. destruct (getc s c) as [k|]; [|exact I]. destruct (k_loop k =? 0).
  - eapply agood_weaken; [apply arel_put|apply agood_connect_destroyed].
  - cbn [ret agood]. apply arel_put_enq. left. exact Hs.
Qed.

Lemma agood_cli_connect s : agood s (cli_connect s).
Proof.
  unfold cli_connect. destruct (negb (s_cli s)); [exact I|]. destruct (s_cliconn s); [exact I|].
  match goal with |- agood s (establish ?x _ _) => apply (agood_weaken s x); [apply arel_same; reflexivity|apply agood_establish] end.
Qed.

Lemma agood_cli_destroy strict s : agood s (cli_destroy strict s).
Proof.
  unfold cli_destroy. destruct (negb (s_cli s)); [exact I|]. destruct (s_cliconn s) as [c|].
  - destruct (getc s c) as [k|]; [|exact I].
    match goal with |- agood s (if ?b then _ else _) => destruct b; [exact I|] end.
    set (s1 := put s c _).
    assert (H2 : arel s (if holders s c =? 1 then force_close s1 c else s1)).
    { destruct (holders s c =? 1); [apply (arel_trans s s1); [apply arel_put|apply arel_force_close]|apply arel_put]. }
    destruct (getc (if holders s c =? 1 then force_close s1 c else s1) c) as [k2|]; [|exact I].
    cbn [ret agood]. eapply arel_trans; [exact H2|]. apply arel_same; reflexivity.
  - cbn [ret agood]. match goal with |- arel s (enq ?x _ _) => apply (arel_trans s x); [apply arel_same; reflexivity|] end.
    apply arel_enq_plain; reflexivity.
Qed.

Lemma agood_run_task s l t full wc : cl0 s -> (forall c, t = TForceClose c -> forall k, getc s c = Some k -> k_closable k = true -> k_ccb k = CbServer -> s_srv s = true) ->
  agood s (run_task s l t full wc).
Proof.
  intros Hcl Hsv. destruct t; cbn [run_task].
  - apply agood_establish.
  - apply agood_remove_in_loop.
  - apply agood_connect_destroyed.
  - destruct (getc s c) as [k|] eqn:Hg; [|exact I]. destruct (k_closable k) eqn:Ecl; [|apply arel_refl].
    apply (agood_handle_close s l c Hcl). intros k0 Hk0 Hcb. rewrite Hg in Hk0. injection Hk0 as <-. apply (Hsv c eq_refl k Hg Ecl Hcb).
  - apply arel_refl.
  - destruct (getc s c) as [k|]; [|exact I]. destruct (k_alive k); [apply arel_put|exact I].
  - match goal with |- agood s (if ?b then _ else _) => destruct b; [apply arel_start_read|exact I] end.
  - match goal with |- agood s (if ?b then _ else _) => destruct b; [apply arel_stop_read|exact I] end.
  - match goal with |- agood s (if ?b then _ else _) => destruct b; [apply arel_send_in_loop|exact I] end.
  - destruct (getc s c) as [k|]; [apply arel_put|exact I].
  - apply arel_refl.
  - destruct (getc s c) as [k|]; [|exact I]. destruct (k_alive k); [apply arel_put|exact I].
Qed.

Lemma agood_ev_step s c e : cl0 s -> agood s (ev_step true s c e).
Proof.
  intros Hcl. unfold ev_step. destruct (getc s c) as [k|] eqn:Hg; [|exact I].
  match goal with |- agood s (if ?b then _ else _) => destruct b; [exact I|] end.
  assert (Hsv : (match k_ccb k with CbServer => negb (s_srv s) || negb (k_mapped k) | CbClient => negb (s_cli s) | CbDetail => false end) = false -> sv s c).
  { intros Ho k0 Hk0 Hcb. rewrite Hg in Hk0. injection Hk0 as <-. rewrite Hcb in Ho. apply orb_false_iff in Ho as [Ho _]. apply negb_false_iff, Ho. }
  destruct e.
  - destruct (k_rd k); [apply arel_refl|exact I].
  - destruct (k_rd k); [|exact I]. cbn [andb]. match goal with |- agood s (if ?b then _ else _) => destruct b eqn:Eo; [exact I|apply (agood_handle_close s _ c Hcl (Hsv eq_refl))] end.
  - destruct (k_rd k); [apply arel_refl|exact I].
  - cbn [andb]. match goal with |- agood s (if ?b then _ else _) => destruct b eqn:Eo; [exact I|] end.
    apply orb_false_iff in Eo as [_ Eo]. apply (agood_handle_close s _ c Hcl (Hsv Eo)).
  - apply arel_refl.
  - destruct (k_wr k); [|exact I]. destruct drained; [|apply arel_refl]. cbn [ret agood].
    destruct wc; [|apply arel_put]. apply arel_put_enq. right. split; reflexivity.
Qed.

Lemma agood_on_conn s c f : (forall k, agood s (f k)) -> agood s (on_conn s c f).
Proof. intros H. unfold on_conn. destruct (getc s c) as [k|]; [|exact I]. destruct (k_alive k && negb (cstate_eqb (k_st k) Connecting)); [apply H|exact I]. Qed.

Lemma agood_on_lconn s c f : (forall k, agood s (f k)) -> agood s (on_lconn s c f).
Proof. intros H. unfold on_lconn. apply agood_on_conn. intros k. destruct (gone s (k_loop k)); [exact I|apply H]. Qed.

(* every op except Swap / Run / EndBatch / SrvDestroy only appends to the queues *)
Lemma agood_step_plain s o : cl0 s ->
  match o with Swap _ | Run _ _ _ | EndBatch _ | SrvDestroy => True | _ => agood s (step true s o) end.
Proof.
  intros Hcl. set (strict := true). destruct o; try exact I; cbn [step].
  - apply agood_finish, agood_accept.
  - apply agood_finish, agood_cli_connect.
  - apply agood_finish, agood_cli_destroy.
  - destruct (getc s c) as [k|]; [|exact I]. apply agood_finish, agood_ev_step, Hcl.
  - destruct (getc s c) as [k|]; [|exact I]. destruct (k_delayed k); [exact I|]. destruct (negb (loop_idle s (k_loop k))); [exact I|].
    apply agood_finish. cbn [ret agood]. destruct (k_alive k); [eapply arel_trans; [apply arel_put|apply arel_force_close]|apply arel_put].
  - apply agood_on_lconn. intros k. cbn [ret agood]. destruct (cstate_eqb (k_st k) Connected); [apply arel_put|apply arel_refl].
  - apply agood_on_lconn. intros k. apply arel_force_close.
  - apply agood_on_lconn. intros k. cbn [ret agood]. destruct (k_closable k); [apply arel_put|apply arel_refl].
  - apply agood_on_lconn. intros k. cbn [ret agood]. destruct (cstate_eqb (k_st k) Connected); [apply arel_send_in_loop|apply arel_refl].
  - apply agood_on_lconn. intros k. destruct (k_added k); [apply arel_start_read|exact I].
  - apply agood_on_lconn. intros k. destruct (k_added k); [apply arel_stop_read|exact I].
  - apply agood_on_conn. intros k. apply arel_put.
  - destruct (getc s c) as [k|]; [|exact I]. destruct (k_urefs k); [exact I|].
    match goal with |- agood s (if ?b then _ else _) => destruct b; [exact I|] end. apply agood_finish. apply arel_put.
  - match goal with |- agood s (if ?b then _ else _) => destruct b; [exact I|] end.
    destruct (find_call u (s_calls s)); [exact I|]. destruct (is_dtor a).
    + match goal with |- agood s (if ?b then _ else _) => destruct b; [|exact I] end. apply agood_on_conn. intros k. apply arel_same; reflexivity.
    + apply agood_on_conn. intros k. apply arel_same; reflexivity.
  - destruct (find_call u (s_calls s)) as [a|]; [|exact I]. destruct (a_stored a); [exact I|].
    destruct (getc s (a_conn a)) as [k|]; [|exact I]. destruct (is_dtor (a_api a)).
    + cbn [ret agood]. set (s1 := set_calls s _).
      assert (H2 : arel s (enq s1 (k_loop k) (TSetCb (a_conn a)))).
      { apply (arel_trans s s1); [apply arel_same; reflexivity|apply arel_enq_plain; reflexivity]. }
      destruct (a_loaded a); [eapply arel_trans; [exact H2|apply arel_force_close]|exact H2].
    + match goal with |- agood s (if ?b then _ else _) => destruct b; [exact I|] end. cbn [ret agood].
      match goal with |- arel s (if ?b then _ else _) => destruct b end;
        [eapply arel_trans; [|apply arel_put]; apply arel_same; reflexivity|apply arel_same; reflexivity].
  - destruct (find_call u (s_calls s)) as [a|]; [|exact I]. destruct (negb (a_stored a)); [exact I|].
    destruct (getc s (a_conn a)) as [k|]; [|exact I]. destruct (is_dtor (a_api a)).
    + apply agood_finish. apply arel_same; reflexivity.
    + match goal with |- agood s (if ?b then _ else _) => destruct b; [exact I|] end.
      match goal with |- agood s (if ?b then _ else _) => destruct b; [destruct strict; exact I|] end.
      apply agood_finish. cbn [ret agood]. set (s1 := set_calls s _).
      assert (H1 : arel s s1) by (apply arel_same; reflexivity).
      destruct (a_loaded a); [|exact H1].
      destruct (a_api a); try exact H1; (eapply arel_trans; [exact H1|apply arel_enq_plain; reflexivity]).
Qed.

Lemma has_task_false_iff s p : has_task p s = false <-> forall l v t, getl s l = Some v -> In t (q_all v) -> p t = false.
Proof.
  unfold has_task. split.
  - intros H l v t Hv Ht. destruct (p t) eqn:E; [|reflexivity]. exfalso.
    assert (Hx : existsb (fun l0 => existsb p (q_all l0)) (s_loops s) = true); [|congruence].
    apply existsb_exists. exists v. split; [eapply nth_error_In, Hv|]. apply existsb_exists. eauto.
  - intros H. apply not_true_is_false. intros Hx. apply existsb_exists in Hx as (v & Hv & Hex).
    apply existsb_exists in Hex as (t & Ht & Hp). apply In_nth_error in Hv as [l Hl]. rewrite (H l v t Hl Ht) in Hp. discriminate.
Qed.

Lemma qinv_arel s s' : QInv s -> arel s s' -> QInv s'.
Proof.
  intros (Q1 & Q3) (A1 & A2 & A3). split.
  - rewrite A1, A2. exact Q1.
  - intros Hs. rewrite A1 in Hs. apply has_task_false_iff. intros l v' t Hv' Ht. specialize (A3 l). rewrite Hv' in A3.
    destruct (getl s l) as [v|] eqn:Hv; [|contradiction]. destruct A3 as (a1 & a2 & a3 & ex & a4 & a5).
    unfold q_all in Ht. rewrite a1, a2, a4 in Ht. rewrite !in_app_iff in Ht.
    assert (Hc : In t (q_all v) \/ In t ex) by (unfold q_all; rewrite !in_app_iff; tauto).
    destruct Hc as [Hc|Hc].
    + apply (proj1 (has_task_false_iff s is_remove) (Q3 Hs) l v t Hv Hc).
    + destruct (a5 Hs) as [a6 _]. rewrite forallb_forall in a6. specialize (a6 t Hc). unfold noRm in a6. apply negb_true_iff in a6. exact a6.
Qed.

Lemma qinv_set_loop s l v v' : QInv s -> getl s l = Some v -> (forall t, In t (q_all v') -> In t (q_all v)) -> QInv (set_loop s l v').
Proof.
  intros (Q1 & Q3) Hv Hsub. split; [exact Q1|].
  intros Hs. apply has_task_false_iff. intros l1 v1 t Hv1 Ht. pose proof (proj1 (has_task_false_iff s is_remove) (Q3 Hs)) as H.
  destruct (Nat.eq_dec l l1) as [<-|Hne].
  - rewrite (getl_set_loop_eq s l v v' Hv) in Hv1. injection Hv1 as <-. apply (H l v t Hv (Hsub t Ht)).
  - rewrite getl_set_loop_neq in Hv1 by exact Hne. apply (H l1 v1 t Hv1 Ht).
Qed.

Lemma step_qinv s o : Inv s -> QInv s -> match step true s o with Ok (s', _) => QInv s' | _ => True end.
Proof.
  intros [HI HH] HQ. pose proof (inv0_cl0 s HI) as Hcl.
  pose proof (agood_step_plain s o Hcl) as Hp.
  destruct o; try (destruct (step true s _) as [[s1 o1]| |]; [apply (qinv_arel s s1 HQ Hp)|exact I|exact I]).
  - (* SrvDestroy *)
    cbn [step]. destruct (s_srv s) eqn:Hs; [|exact I]. cbn [negb andb].
    destruct (has_task is_remove s || has_task is_force s) eqn:Eg; [exact I|]. apply orb_false_iff in Eg as [Enr _].
    destruct (next_entry (s_conns s) 0) as [c|].
    + pose proof (agood_finish _ _ 0 (agood_srv_hand (set_dying s true) c Hs)) as Hf.
      destruct (finish (srv_hand (set_dying s true) c) 0) as [[s1 o1]| |]; [|exact I|exact I].
      apply (qinv_arel (set_dying s true) s1); [exact HQ|exact Hf].
    + set (s2 := set_stop (set_dying (set_srv s false) false) (if s_nio s =? 0 then 0 else 1)).
      pose proof (agood_finish s2 (ret s2) 0 (arel_refl s2)) as Hf.
      destruct (finish (ret s2) 0) as [[s3 o3]| |]; [|exact I|exact I].
      apply (qinv_arel s2 s3); [|exact Hf]. split; [intros _; reflexivity|intros _; exact Enr].
  - (* Swap *)
    cbn [step]. destruct (getl s l) as [v|] eqn:Hv; [|exact I]. destruct (q_idle v && negb (gone s l)) eqn:Eid; [|exact I]. cbn [ret].
    apply andb_prop in Eid as [Eid _]. unfold q_idle in Eid. destruct (q_batch v) eqn:Eb; [|discriminate]. destruct (q_spent v) eqn:Es; [|discriminate].
    apply (qinv_set_loop s l v _ HQ Hv).
    intros t. unfold q_all. cbn [q_pend q_batch q_spent]. rewrite Eb, Es. cbn [app]. rewrite app_nil_r. auto.
  - (* Run *)
    cbn [step]. destruct (getl s l) as [v|] eqn:Hv; [|exact I]. destruct (q_batch v) as [|t rest] eqn:Hb; [exact I|].
    fold (popped v t rest). fold (set_loop s l (popped v t rest)).
    assert (HQ1 : QInv (set_loop s l (popped v t rest))) by (apply (qinv_set_loop s l v _ HQ Hv), (popped_in v t rest Hb)).
    assert (Hsv : forall c, t = TForceClose c -> forall k, getc (set_loop s l (popped v t rest)) c = Some k -> k_closable k = true -> k_ccb k = CbServer -> s_srv s = true).
    { intros c -> k Hg Ecl Hcb. change (getc s c = Some k) in Hg. pose proof (proj2 HI c k Hg) as HCk.
      assert (Hin : In (TForceClose c) (q_all v)) by (unfold q_all; rewrite Hb; apply in_or_app; right; left; reflexivity).
      destruct (gi_placed s (proj1 HI) l v _ Hv Hin) as [_ [_ (k1 & Hk1 & Hl1 & _)]]. cbn [task_conn] in Hk1. rewrite Hg in Hk1. injection Hk1 as <-.
      assert (Hh : holds c (TForceClose c) = true) by (unfold holds; cbn; rewrite Nat.eqb_refl; reflexivity).
      pose proof (strong_alive s l v _ c k HI Hv Hin Hh Hg) as Ha.
      destruct (phase_up_cases s c k (ci_phase s c k HCk Ha) (proj1 (closable_up_k k) Ecl)) as (_ & _ & _ & [(_ & _ & B)|[(_ & _ & _ & B)|(_ & _ & B & _)]]).
      - unfold owner_alive in B. rewrite Hcb in B. exact B.
      - exfalso. rewrite Hl1, (loop_todo_pop s l v _ rest Hv Hb) in B. cbn [first_life] in B. unfold life_of in B. cbn in B. rewrite Nat.eqb_refl in B. discriminate.
      - congruence. }
    pose proof (agood_finish _ _ l (agood_run_task (set_loop s l (popped v t rest)) l t full wc Hcl Hsv)) as Hf.
    destruct (finish (run_task (set_loop s l (popped v t rest)) l t full wc) l) as [[s1 o1]| |]; [|exact I|exact I].
    apply (qinv_arel _ s1 HQ1 Hf).
  - (* EndBatch *)
    cbn [step]. destruct (getl s l) as [v|] eqn:Hv; [|exact I]. destruct (q_batch v) eqn:Hb; [|exact I].
    destruct (negb (q_drain v)); [exact I|]. destruct (quitting s l) eqn:Eq.
    + destruct (true && negb (forallb no_handoff (q_pend v))); [exact I|]. destruct (true && outlived s l); [exact I|]. cbn [ret].
      change (set_loops s (upd (s_loops s) l (mkLq [] [] [] false))) with (set_loop s l (mkLq [] [] [] false)).
      set (s2 := set_stop (set_loop s l (mkLq [] [] [] false)) (S l)).
      assert (HQ2 : QInv s2).
      { destruct (quitting_spec s l Eq) as [Hl0 Hst]. pose proof (proj1 HQ) as Q1.
        destruct (qinv_set_loop s l v (mkLq [] [] [] false) HQ Hv) as (_ & R3); [intros t []|].
        split; [intros _; apply Q1; lia|exact R3]. }
      pose proof (agood_finish s2 (ret s2) l (arel_refl s2)) as Hf.
      destruct (finish (ret s2) l) as [[s3 o3]| |]; [|exact I|exact I]. apply (qinv_arel s2 s3 HQ2 Hf).
    + cbn [ret]. fold (set_loop s l (mkLq (q_pend v) [] [] false)). set (s2 := set_loop s l (mkLq (q_pend v) [] [] false)).
      assert (HQ2 : QInv s2).
      { apply (qinv_set_loop s l v _ HQ Hv).
        intros t. unfold q_all. cbn [q_pend q_batch q_spent]. rewrite Hb. cbn [app]. intros Ht. apply in_or_app. right. exact Ht. }
      pose proof (agood_finish s2 (ret s2) l (arel_refl s2)) as Hf.
      destruct (finish (ret s2) l) as [[s3 o3]| |]; [|exact I|exact I]. apply (qinv_arel s2 s3 HQ2 Hf).
Qed.

(* ==== the theorems =================================================================================== *)
Definition Inv2 (s : sys) : Prop := Inv s /\ QInv s.

Lemma init_inv2 nio readd : Inv2 (init_sys nio readd).
Proof.
  split; [apply init_inv|]. split; [intros H; exfalso; apply H; reflexivity|discriminate].
Qed.

Theorem step_strict_ok s o : Inv s -> QInv s -> step_ok s o.
Proof.
  intros HI HQ. destruct o.
  - apply step_Accept, HI.
  - apply step_SrvDestroy, HI.
  - apply step_CliConnect, HI.
  - apply step_CliDestroy, HI.
  - apply step_Swap, HI.
  - apply step_Run, HI.
  - apply step_EndBatch; assumption.
  - apply step_Ev, HI.
  - apply step_DelayFire, HI.
  - apply step_LShutdown, HI.
  - apply step_LForceClose, HI.
  - apply step_LForceCloseDelay, HI.
  - apply step_LSend, HI.
  - apply step_LStartRead, HI.
  - apply step_LStopRead, HI.
  - apply step_UGrab, HI.
  - apply step_UDrop, HI.
  - apply step_XBegin, HI.
  - apply step_XStore, HI.
  - apply step_XEnq, HI.
Qed.

Theorem step_strict_ok2 s o : Inv2 s -> match step true s o with Ok (s', _) => Inv2 s' | Rejected => True | Fault => False end.
Proof.
  intros [HI HQ]. pose proof (step_strict_ok s o HI HQ) as H1. pose proof (step_qinv s o HI HQ) as H2. unfold step_ok in H1.
  destruct (step true s o) as [[s1 o1]| |]; [split; assumption|exact I|exact H1].
Qed.

Lemma run_strict_ok ops : forall s, Inv2 s ->
  match run true s ops with Ok (s', _) => Inv2 s' | Rejected => True | Fault => False end.
Proof.
  induction ops as [|o ops IH]; intros s HI; cbn [run ret]; [exact HI|].
  pose proof (step_strict_ok2 s o HI) as H. unfold bind.
  destruct (step true s o) as [[s1 o1]| |]; [|exact I|exact H].
  specialize (IH s1 H). destruct (run true s1 ops) as [[s2 o2]| |]; auto.
Qed.

(* states reached from an initial state by accepted ops under the environment hypotheses *)
Inductive sreach : sys -> Prop :=
| sreach_init nio readd : sreach (init_sys nio readd)
| sreach_step s o s' obs : sreach s -> step true s o = Ok (s', obs) -> sreach s'.

Lemma sreach_inv2 s : sreach s -> Inv2 s.
Proof.
  induction 1 as [nio readd|s o s' obs _ IH H]; [apply init_inv2|].
  pose proof (step_strict_ok2 s o IH) as Hs. rewrite H in Hs. exact Hs.
Qed.

Lemma sreach_inv s : sreach s -> Inv s.
Proof. intros H. apply (proj1 (sreach_inv2 s H)). Qed.

Lemma run_sreach ops : forall s s' obs, sreach s -> run true s ops = Ok (s', obs) -> sreach s'.
Proof.
  induction ops as [|o ops IH]; intros s s' obs Hr H; cbn [run ret] in H.
  - injection H as <- _. exact Hr.
  - unfold bind in H. destruct (step true s o) as [[s1 o1]| |] eqn:E1; try discriminate.
    destruct (run true s1 ops) as [[s2 o2]| |] eqn:E2; try discriminate. injection H as <- _.
    apply (IH s1 s2 o2); [eapply sreach_step; eassumption|exact E2].
Qed.

(* no assertion of the C++, no use of a destroyed object *)
Theorem S02_no_fault : forall nio readd ops, run true (init_sys nio readd) ops <> Fault.
Proof.
  intros nio readd ops H. pose proof (run_strict_ok ops _ (init_inv2 nio readd)) as Hr. rewrite H in Hr. exact Hr.
Qed.

Theorem S02_step_no_fault : forall s o, sreach s -> step true s o <> Fault.
Proof.
  intros s o Hr H. pose proof (step_strict_ok2 s o (sreach_inv2 s Hr)) as Hs. rewrite H in Hs. exact Hs.
Qed.

(* destruction: at most once, close(fd) exactly as often, and only of a connection that is
   Disconnected, removed from its loop and not in the epoll set; a live connection has a holder *)
Theorem S02_destroyed_once : forall s c k, sreach s -> getc s c = Some k ->
  k_dtors k <= 1 /\ k_closes k = k_dtors k /\ (k_dtors k = 1 <-> k_alive k = false) /\
  (k_alive k = false -> k_st k = Disconnected /\ k_added k = false /\ k_inset k = false /\ holders s c = 0) /\
  (k_alive k = true -> 1 <= holders s c) /\
  (k_alive k = true -> holders s c = (if k_mapped k then 1 else 0) + k_urefs k + count_calls c (s_calls s) + allN (holds c) s).
Proof.
  intros s c k Hr Hg. destruct (sreach_inv s Hr) as [[G HC] HH]. pose proof (HC c k Hg) as HCk.
  destruct (ci_dtor s c k HCk) as [D1 D2]. split; [destruct (k_alive k); lia|]. split; [exact D2|]. split.
  - destruct (k_alive k); split; intros; try lia; try discriminate; reflexivity.
  - split; [|split].
    + intros Ha. destruct (ci_deadst s c k HCk Ha) as (A & B & C & _). unfold k_inset. rewrite C. repeat split; auto. apply (ci_dead s c k HCk Ha).
    + intros Ha. apply (HH c k Hg Ha).
    + intros _. apply holders_eq, Hg.
Qed.

(* no leak: when nothing is queued or in flight anywhere and the user holds no reference, every
   connection is either still in service (owned by its live server / client, up) or destroyed *)
Definition quiescent (s : sys) : Prop :=
  (forall l v, getl s l = Some v -> q_all v = []) /\ s_calls s = [] /\
  (forall c k, getc s c = Some k -> k_urefs k = 0).

Theorem S02_no_leak : forall s, sreach s -> quiescent s -> forall c k, getc s c = Some k ->
  (k_alive k = true /\ k_mapped k = true /\ up_k k /\ owner_alive s c k) \/
  (k_alive k = false /\ k_dtors k = 1 /\ k_closes k = 1 /\ k_st k = Disconnected /\ k_added k = false /\ k_inset k = false).
Proof.
  intros s Hr (Hq & Hcalls & Hu) c k Hg. destruct (sreach_inv s Hr) as [[G HC] HH]. pose proof (HC c k Hg) as HCk.
  destruct (k_alive k) eqn:Ha.
  - left. pose proof (HH c k Hg Ha) as Hh. rewrite (holders_eq s c k Hg), Hcalls, (Hu c k Hg) in Hh.
    assert (Hall : forall p, allN p s = 0 /\ todoN p s = 0).
    { intros p. split.
      - unfold allN. apply sumq_zero. intros v Hin. apply In_nth_error in Hin as [l Hl]. rewrite (Hq l v Hl). reflexivity.
      - unfold todoN. apply sumq_zero. intros v Hin. apply In_nth_error in Hin as [l Hl]. pose proof (Hq l v Hl) as E.
        rewrite q_all_todo in E. apply app_eq_nil in E as [_ E]. rewrite E. reflexivity. }
    rewrite (proj1 (Hall (holds c))) in Hh. cbn in Hh.
    assert (Hm : k_mapped k = true) by (destruct (k_mapped k); [reflexivity|lia]).
    pose proof (ci_phase s c k HCk Ha) as Hph. unfold phase in Hph.
    rewrite (proj2 (Hall (isE c))), (proj2 (Hall (isR c))), (proj2 (Hall (isD c))) in Hph.
    destruct (k_st k) eqn:Est.
    + destruct Hph as (_ & _ & Hx & _). discriminate.
    + destruct Hph as (_ & _ & _ & [(_ & _ & B)|[(B & _)|(B & _)]]); try congruence. repeat split; auto. left. exact Est.
    + destruct Hph as (_ & _ & _ & [(_ & _ & B)|[(B & _)|(B & _)]]); try congruence. repeat split; auto. right. exact Est.
    + destruct Hph as (_ & [(_ & _ & Hx & _)|[(_ & B & _)|(_ & B & _)]]); [discriminate|congruence|congruence].
  - right. destruct (ci_dtor s c k HCk) as [D1 D2]. rewrite Ha in D1.
    destruct (ci_deadst s c k HCk Ha) as (A & B & C & _). unfold k_inset. rewrite C. repeat split; auto. congruence.
Qed.

(* ==== the pool's tear-down: when an io loop leaves loop() every connection assigned to it has been destroyed ======= *)
Lemma sweep_from_alive n : forall s thr c0 c k', getc (fst (sweep_from s thr n c0)) c = Some k' -> k_alive k' = true -> getc s c = Some k'.
Proof.
  induction n as [|n IH]; intros s thr c0 c k' H Ha; cbn [sweep_from] in H; [exact H|].
  destruct (getc s c0) as [k0|] eqn:Hg0; [|exact H]. destruct (k_alive k0 && (holders s c0 =? 0)); [|apply (IH s thr (S c0) c k' H Ha)].
  destruct (sweep_from (put s c0 (kill k0)) thr n (S c0)) as [s1 o1] eqn:E. cbn [fst] in H.
  assert (H1 : getc (fst (sweep_from (put s c0 (kill k0)) thr n (S c0))) c = Some k') by (rewrite E; exact H).
  pose proof (IH _ thr (S c0) c k' H1 Ha) as H2. destruct (Nat.eq_dec c0 c) as [<-|Hn].
  - rewrite getc_put_eq in H2 by (eapply getc_lt, Hg0). injection H2 as <-. discriminate.
  - rewrite getc_put_neq in H2 by exact Hn. exact H2.
Qed.

Lemma finish_fst s o thr s' o' : finish (Ok (s, o)) thr = Ok (s', o') -> s' = fst (sweep s thr).
Proof. unfold finish. destruct (sweep s thr) as [s1 d]. destruct (all_clean d); [|discriminate]. intros H. injection H as <- _. reflexivity. Qed.

Lemma outlived_from_false s l cs : forall c0, outlived_from s l cs c0 = false -> forall i k, nth_error cs i = Some k ->
  k_alive k = true -> k_loop k = l -> k_urefs k = 0 /\ count_calls (c0 + i) (s_calls s) = 0.
Proof.
  induction cs as [|x cs IH]; intros c0 H i k Hi Ha Hl; [destruct i; discriminate|]. cbn [outlived_from] in H.
  apply orb_false_iff in H as [H1 H2]. destruct i as [|i]; cbn in Hi.
  - injection Hi as ->. rewrite Ha, Hl, Nat.eqb_refl in H1. cbn [andb] in H1. apply negb_false_iff, andb_prop in H1 as [A B].
    apply Nat.eqb_eq in A, B. rewrite Nat.add_0_r. auto.
  - replace (c0 + S i) with (S c0 + i) by lia. apply (IH (S c0) H2 i k Hi Ha Hl).
Qed.

Theorem S02_pool_exit_destroys : forall s l s' obs, sreach s -> quitting s l = true -> step true s (EndBatch l) = Ok (s', obs) ->
  s_stop s' = S l /\ forall c k', getc s' c = Some k' -> k_loop k' = l -> k_alive k' = false.
Proof.
  intros s l s' obs Hr Eq H. destruct (sreach_inv2 s Hr) as [[HI HH] (Q1 & Q3)].
  destruct (quitting_spec s l Eq) as [Hl0 Hst]. assert (Hsrv : s_srv s = false) by (apply Q1; lia).
  cbn [step] in H. destruct (getl s l) as [v|] eqn:Hv; [|discriminate]. destruct (q_batch v) eqn:Hb; [|discriminate].
  destruct (q_drain v) eqn:Edr; [|discriminate]. cbn [negb] in H. rewrite Eq in H. cbn [andb] in H.
  destruct (forallb no_handoff (q_pend v)) eqn:Eno; [|discriminate]. cbn [negb] in H.
  destruct (outlived s l) eqn:Eout; [discriminate|].
  change (set_loops s (upd (s_loops s) l (mkLq [] [] [] false))) with (set_loop s l (mkLq [] [] [] false)) in H.
  set (s1 := set_loop s l (mkLq [] [] [] false)) in *. set (s2 := set_stop s1 (S l)) in *.
  assert (HI2 : Inv0 s2).
  { apply set_stop_inv0. apply (exit_inv0 s l v HI Hv Hl0 Hb). exact Eno. }
  destruct (finish_inv s2 l [] HI2) as (s3 & d & E & HI3 & _ & _ & Hloops & Hcalls & _). unfold ret in H.
  rewrite E in H. injection H as <- _. pose proof (finish_fst s2 [] l s3 _ E) as Efst.
  split.
  { rewrite Efst. unfold sweep. apply (sweep_from_same (length (s_conns s2)) s2 l 0). }
  intros c k' Hg Hl. destruct (k_alive k') eqn:Ha; [exfalso|reflexivity].
  assert (Hg0 : getc s c = Some k').
  { rewrite Efst in Hg. unfold sweep in Hg. apply (sweep_from_alive _ s2 l 0 c k' Hg Ha). }
  pose proof (proj2 HI3 c k' Hg Ha) as Hheld.
  pose proof (proj2 HI c k' Hg0) as HCk. destruct HI as [G HC].
  (* its only possible holders were functors of loop l *)
  destruct (outlived_from_false s l (s_conns s) 0 Eout c k' Hg0 Ha Hl) as [Hu Hc]. cbn in Hc.
  assert (Hcb : k_ccb k' = CbServer).
  { destruct (k_ccb k') eqn:Ecb; [reflexivity| |]; exfalso; apply Hl0; rewrite <- Hl; apply (proj2 (ci_loop s c k' HCk)); congruence. }
  assert (Hm : k_mapped k' = false).
  { pose proof (ci_phase s c k' HCk Ha) as Hph. unfold phase, owner_alive in Hph. rewrite Hcb, Hsrv in Hph. destruct (k_st k').
    - destruct Hph as (_ & _ & _ & _ & _ & _ & [(_ & _ & Hx)|(Hx & _)]); [discriminate|exact Hx].
    - destruct Hph as (_ & _ & _ & [(_ & _ & Hx)|[(Hx & _)|(Hx & _)]]); [discriminate|exact Hx|exact Hx].
    - destruct Hph as (_ & _ & _ & [(_ & _ & Hx)|[(Hx & _)|(Hx & _)]]); [discriminate|exact Hx|exact Hx].
    - destruct Hph as (_ & [(_ & _ & _ & _ & _ & Hx)|[(_ & Hx & _)|(_ & Hx & _)]]); [discriminate|exact Hx|exact Hx]. }
  assert (Hall : allN (holds c) s3 = 0).
  { unfold allN. rewrite Hloops. change (s_loops s2) with (s_loops s1). apply sumq_zero. intros w Hw. apply In_nth_error in Hw as [j Hj].
    change (nth_error (s_loops s1) j = Some w) with (getl s1 j = Some w) in Hj. destruct (Nat.eq_dec l j) as [<-|Hn].
    - unfold s1 in Hj. rewrite (getl_set_loop_eq s l v _ Hv) in Hj. injection Hj as <-. reflexivity.
    - unfold s1 in Hj. rewrite getl_set_loop_neq in Hj by exact Hn. apply cnt_zero_notin. intros t Ht.
      destruct (holds c t) eqn:Eh; [|reflexivity]. exfalso. unfold holds in Eh. apply andb_prop in Eh as [Ec Es]. apply Nat.eqb_eq in Ec.
      destruct (gi_placed s G j w t Hj Ht) as [_ [_ Hpl]].
      destruct t; try discriminate Es; try (destruct Hpl as (k1 & Hk1 & Hl1 & _); rewrite Ec, Hg0 in Hk1; injection Hk1 as <-; congruence).
      pose proof (proj1 (has_task_false_iff s is_remove) (Q3 Hsrv) j w (TRemove c0) Hj Ht) as Hx. discriminate Hx. }
  rewrite (holders_eq s3 c k' Hg), Hm, Hu, Hcalls, Hall in Hheld. change (s_calls s2) with (s_calls s) in Hheld. rewrite Hc in Hheld. cbn in Hheld. lia.
Qed.

(* ==== affinity: which thread runs the callbacks ====================================================== *)
(* [lk s s']: every connection of s is still there in s', on the same loop *)
Definition lk (s s' : sys) : Prop :=
  forall c k, getc s c = Some k -> exists k', getc s' c = Some k' /\ k_loop k' = k_loop k.

Definition aff (s : sys) (x : obs) : Prop :=
  match x with
  | OUp thr c | ODown thr c | OMsg thr c => exists k, getc s c = Some k /\ k_loop k = thr
  | ODtor _ _ _ => True
  end.

Definition good (s : sys) (m : M) : Prop :=
  match m with Ok (s', o) => lk s s' /\ Forall (aff s') o | _ => True end.

Lemma lk_refl s : lk s s.
Proof. intros c k H. eauto. Qed.

Lemma lk_trans s1 s2 s3 : lk s1 s2 -> lk s2 s3 -> lk s1 s3.
Proof.
  intros H1 H2 c k Hk. destruct (H1 c k Hk) as (k2 & Hk2 & E2). destruct (H2 c k2 Hk2) as (k3 & Hk3 & E3).
  exists k3. split; [exact Hk3|congruence].
Qed.

Lemma aff_lk s s' x : lk s s' -> aff s x -> aff s' x.
Proof.
  intros H. destruct x; cbn; auto; intros (k & Hk & E); destruct (H _ _ Hk) as (k' & Hk' & E'); exists k'; split; auto; congruence.
Qed.

Lemma lk_put s c k' : (forall k, getc s c = Some k -> k_loop k' = k_loop k) -> lk s (put s c k').
Proof.
  intros H c1 k1 Hk1. destruct (Nat.eq_dec c c1) as [<-|Hn].
  - exists k'. rewrite getc_put_eq by (eapply getc_lt, Hk1). split; [reflexivity|apply H, Hk1].
  - exists k1. rewrite getc_put_neq by exact Hn. auto.
Qed.

Lemma lk_enq s l t : lk s (enq s l t).
Proof. intros c k H. exists k. rewrite getc_enq. auto. Qed.

Lemma lk_same_conns s s' : s_conns s' = s_conns s -> lk s s'.
Proof. intros E c k H. exists k. unfold getc in *. rewrite E. auto. Qed.

Lemma good_ret s s' : lk s s' -> good s (ret s').
Proof. intros H. split; [exact H|constructor]. Qed.

Lemma good_bind s m f : good s m -> (forall s1, good s1 (f s1)) -> good s (bind m f).
Proof.
  intros Hm Hf. unfold bind. destruct m as [[s1 o1]| |]; [|exact I|exact I].
  specialize (Hf s1). destruct (f s1) as [[s2 o2]| |]; [|exact I|exact I].
  destruct Hm as [L1 A1]. destruct Hf as [L2 A2]. split; [apply (lk_trans s s1 s2); assumption|].
  apply Forall_app. split; [|exact A2]. eapply Forall_impl; [|exact A1]. intros x. apply aff_lk, L2.
Qed.

Lemma good_weaken s0 s m : lk s0 s -> good s m -> good s0 m.
Proof. intros H. destruct m as [[s' o]| |]; auto. intros [L A]. split; [apply (lk_trans s0 s s'); assumption|exact A]. Qed.

Ltac loop_same := intros; cbn [set_life set_own set_rflag set_fin set_chan kill k_loop unmapped]; repeat match goal with
  | |- context [chan_update ?r ?k ?w ?d] =>
      let F := fresh "F" in pose proof (chan_update_fields r k w d) as F; cbv zeta in F;
      destruct F as (_ & _ & _ & _ & _ & F & _); rewrite F; clear F
  end; cbn [set_life set_own set_rflag set_fin set_chan kill k_loop unmapped]; try reflexivity; try congruence.

Lemma good_establish s thr c : good s (establish s thr c).
Proof.
  unfold establish. destruct (getc s c) as [k|] eqn:Hg; [|exact I].
  destruct (negb (k_alive k)); [exact I|]. destruct (thr =? k_loop k) eqn:Et; [|exact I]. cbn [negb].
  destruct (negb (cstate_eqb (k_st k) Connecting)); [exact I|]. apply Nat.eqb_eq in Et. unfold emit.
  assert (Hl : k_loop (chan_update (s_readd s) (set_life k Connected (S (k_ups k)) (k_downs k)) (k_wr (set_life k Connected (S (k_ups k)) (k_downs k))) true) = k_loop k) by loop_same.
  split.
  - apply lk_put. intros k0 Hk0. rewrite Hg in Hk0. injection Hk0 as <-. exact Hl.
  - constructor; [|constructor]. unfold aff. eexists. rewrite getc_put_eq by (eapply getc_lt, Hg). split; [reflexivity|congruence].
Qed.

Lemma good_remove_in_loop s thr c : good s (remove_in_loop s thr c).
Proof.
  unfold remove_in_loop. destruct (negb (s_srv s)); [exact I|]. destruct (negb (thr =? 0)); [exact I|].
  destruct (getc s c) as [k|] eqn:Hg; [|exact I]. destruct (negb (k_mapped k)); [exact I|].
  apply good_ret. apply (lk_trans _ (put s c (set_own k (k_ccb k) false (k_urefs k) (k_delayed k)))); [|apply lk_enq].
  apply lk_put. intros k0 Hk0. rewrite Hg in Hk0. injection Hk0 as <-. reflexivity.
Qed.

Lemma good_close_cb s thr c : good s (close_cb s thr c).
Proof.
  unfold close_cb. destruct (getc s c) as [k|] eqn:Hg; [|exact I]. destruct (k_ccb k).
  - destruct (negb (s_srv s) && (thr =? 0)); [exact I|]. destruct (thr =? 0); [apply good_remove_in_loop|apply good_ret, lk_enq].
  - destruct (negb (s_cli s)); [exact I|]. destruct (negb (thr =? 0)); [exact I|]. destruct (s_cliconn s) as [c'|]; [|exact I].
    destruct (negb (c' =? c)); [exact I|]. apply good_ret.
    apply (lk_trans _ (put s c (set_own k CbClient false (k_urefs k) (k_delayed k)))).
    + apply lk_put. intros k0 Hk0. rewrite Hg in Hk0. injection Hk0 as <-. reflexivity.
    + eapply lk_trans; [|apply lk_enq]. apply lk_same_conns. reflexivity.
  - apply good_ret, lk_enq.
Qed.

Lemma good_handle_close s thr c : good s (handle_close s thr c).
Proof.
  unfold handle_close. destruct (getc s c) as [k|] eqn:Hg; [|exact I].
  destruct (thr =? k_loop k) eqn:Et; [|exact I]. cbn [negb]. destruct (negb (k_closable k)); [exact I|].
  apply Nat.eqb_eq in Et. apply good_bind; [|intros s1; apply good_close_cb].
  assert (Hl : k_loop (chan_update (s_readd s) (set_life k Disconnected (k_ups k) (S (k_downs k))) false false) = k_loop k) by loop_same.
  unfold emit. split.
  - apply lk_put. intros k0 Hk0. rewrite Hg in Hk0. injection Hk0 as <-. exact Hl.
  - constructor; [|constructor]. unfold aff. eexists. rewrite getc_put_eq by (eapply getc_lt, Hg). split; [reflexivity|congruence].
Qed.

Lemma good_connect_destroyed s thr c : good s (connect_destroyed s thr c).
Proof.
  unfold connect_destroyed. destruct (getc s c) as [k|] eqn:Hg; [|exact I].
  destruct (negb (k_alive k)); [exact I|]. destruct (thr =? k_loop k) eqn:Et; [|exact I]. cbn [negb]. apply Nat.eqb_eq in Et.
  destruct (k_closable k).
  - assert (Hl : k_loop (chan_update (s_readd s) (set_life k Disconnected (k_ups k) (S (k_downs k))) false false) = k_loop k) by loop_same.
    unfold chan_remove. destruct (negb (k_none _)); [exact I|]. destruct (pidx_eqb _ PNew); [exact I|]. unfold emit. split.
    + apply lk_put. intros k0 Hk0. rewrite Hg in Hk0. injection Hk0 as <-. cbn [set_chan k_loop]. exact Hl.
    + constructor; [|constructor]. unfold aff. eexists. rewrite getc_put_eq by (eapply getc_lt, Hg). split; [reflexivity|]. cbn [set_chan k_loop]. congruence.
  - unfold chan_remove. destruct (negb (k_none k)); [exact I|]. destruct (pidx_eqb _ PNew); [exact I|]. unfold emit. split; [|constructor].
    apply lk_put. intros k0 Hk0. rewrite Hg in Hk0. injection Hk0 as <-. reflexivity.
Qed.

Lemma lk_force_close s c : lk s (force_close s c).
Proof.
  unfold force_close. destruct (getc s c) as [k|] eqn:Hg; [|apply lk_refl]. destruct (k_closable k); [|apply lk_refl].
  eapply lk_trans; [|apply lk_enq]. apply lk_put. intros k0 Hk0. rewrite Hg in Hk0. injection Hk0 as <-. reflexivity.
Qed.

Lemma lk_start_read s c : lk s (start_read s c).
Proof.
  unfold start_read. destruct (getc s c) as [k|] eqn:Hg; [|apply lk_refl]. destruct (_ && _); [|apply lk_refl].
  apply lk_put. intros k0 Hk0. rewrite Hg in Hk0. injection Hk0 as <-. loop_same.
Qed.

Lemma lk_stop_read s c : lk s (stop_read s c).
Proof.
  unfold stop_read. destruct (getc s c) as [k|] eqn:Hg; [|apply lk_refl]. destruct (_ && _); [|apply lk_refl].
  apply lk_put. intros k0 Hk0. rewrite Hg in Hk0. injection Hk0 as <-. loop_same.
Qed.

Lemma lk_send_in_loop s c full wc : lk s (send_in_loop s c full wc).
Proof.
  unfold send_in_loop. destruct (getc s c) as [k|] eqn:Hg; [|apply lk_refl].
  destruct (cstate_eqb (k_st k) Disconnected); [apply lk_refl|]. destruct (k_wr k); [apply lk_refl|]. destruct (k_fin k); [apply lk_refl|].
  destruct full; [destruct wc; [apply lk_enq|apply lk_refl]|].
  apply lk_put. intros k0 Hk0. rewrite Hg in Hk0. injection Hk0 as <-. loop_same.
Qed.

Lemma lk_sweep_from n : forall s thr c, lk s (fst (sweep_from s thr n c)).
Proof.
  induction n as [|n IH]; intros s thr c; cbn [sweep_from]; [apply lk_refl|].
  destruct (getc s c) as [k|] eqn:Hg; [|apply lk_refl].
  destruct (k_alive k && (holders s c =? 0)).
  - specialize (IH (put s c (kill k)) thr (S c)). destruct (sweep_from (put s c (kill k)) thr n (S c)) as [s' o]. cbn [fst] in *.
    eapply lk_trans; [|exact IH]. apply lk_put. intros k0 Hk0. rewrite Hg in Hk0. injection Hk0 as <-. reflexivity.
  - apply IH.
Qed.

Lemma sweep_from_obs n : forall s thr c x, In x (snd (sweep_from s thr n c)) -> exists c0 b, x = ODtor thr c0 b.
Proof.
  induction n as [|n IH]; intros s thr c x; cbn [sweep_from]; [intros []|].
  destruct (getc s c) as [k|] eqn:Hg; [|intros []].
  destruct (k_alive k && (holders s c =? 0)).
  - specialize (IH (put s c (kill k)) thr (S c) x). destruct (sweep_from (put s c (kill k)) thr n (S c)) as [s' o]. cbn [snd] in *.
    intros [<-|Hin]; [eauto|apply IH, Hin].
  - apply IH.
Qed.

Lemma good_finish s m thr : good s m -> good s (finish m thr).
Proof.
  unfold finish. destruct m as [[s1 o1]| |]; auto. intros [L A].
  pose proof (lk_sweep_from (length (s_conns s1)) s1 thr 0) as Ls. pose proof (sweep_from_obs (length (s_conns s1)) s1 thr 0) as Os.
  unfold sweep. destruct (sweep_from s1 thr (length (s_conns s1)) 0) as [s2 d]. cbn [fst snd] in *.
  destruct (all_clean d); [|exact I]. split; [apply (lk_trans s s1 s2); assumption|].
  apply Forall_app. split.
  - eapply Forall_impl; [|exact A]. intros x. apply aff_lk, Ls.
  - apply Forall_forall. intros x Hx. destruct (Os x Hx) as (c0 & b & ->). exact I.
Qed.

Lemma lk_add s k rr cc : lk s (add_conn s k rr cc).
Proof. intros c k1 H. exists k1. rewrite getc_add_old by (eapply getc_lt, H). auto. Qed.

Lemma good_accept s : good s (accept s).
Proof.
  unfold accept. destruct (negb (s_srv s) || s_dying s); [exact I|].
  match goal with |- good s (if ?b then establish ?s1 0 ?c else _) => assert (L : lk s s1) by apply lk_add end.
  destruct (_ =? 0).
  - eapply good_weaken; [exact L|apply good_establish].
  - apply good_ret. eapply lk_trans; [exact L|apply lk_enq].
Qed.

Lemma good_srv_hand s c : good s (srv_hand s c).
Proof.
  unfold srv_hand. destruct (getc s c) as [k|] eqn:Hg; [|exact I].
  assert (L : lk s (put s c (set_own k (k_ccb k) false (k_urefs k) (k_delayed k)))).
  { apply lk_put. intros k0 Hk0. rewrite Hg in Hk0. injection Hk0 as <-. reflexivity. }
  destruct (k_loop k =? 0).
  - eapply good_weaken; [exact L|apply good_connect_destroyed].
  - apply good_ret. eapply lk_trans; [exact L|apply lk_enq].
Qed.

Lemma good_cli_connect s : good s (cli_connect s).
Proof.
  unfold cli_connect. destruct (negb (s_cli s)); [exact I|]. destruct (s_cliconn s); [exact I|].
  match goal with |- good s (establish ?s1 0 ?c) => assert (L : lk s s1) by (intros c1 k1 H; exists k1; split; [|reflexivity];
    unfold getc in *; cbn; rewrite nth_app_old by (eapply nth_some_lt, H); exact H) end.
  eapply good_weaken; [exact L|apply good_establish].
Qed.

Lemma good_cli_destroy strict s : good s (cli_destroy strict s).
Proof.
  unfold cli_destroy. destruct (negb (s_cli s)); [exact I|]. destruct (s_cliconn s) as [c|].
  - destruct (getc s c) as [k|] eqn:Hg; [|exact I]. destruct (_ && _ && _); [exact I|].
    set (s1 := put s c (set_own k CbDetail (k_mapped k) (k_urefs k) (k_delayed k))).
    assert (L1 : lk s s1) by (apply lk_put; intros k0 Hk0; rewrite Hg in Hk0; injection Hk0 as <-; reflexivity).
    set (s2 := if holders s c =? 1 then force_close s1 c else s1).
    assert (L2 : lk s s2) by (unfold s2; destruct (holders s c =? 1); [eapply lk_trans; [exact L1|apply lk_force_close]|exact L1]).
    destruct (getc s2 c) as [k2|] eqn:Hg2; [|exact I]. apply good_ret.
    eapply lk_trans; [exact L2|]. eapply lk_trans; [|apply lk_same_conns; reflexivity].
    apply lk_put. intros k0 Hk0. rewrite Hg2 in Hk0. injection Hk0 as <-. reflexivity.
  - apply good_ret. eapply lk_trans; [|apply lk_enq]. apply lk_same_conns. reflexivity.
Qed.

Lemma good_run_task s l t full wc : good s (run_task s l t full wc).
Proof.
  destruct t; cbn [run_task].
  - apply good_establish.
  - apply good_remove_in_loop.
  - apply good_connect_destroyed.
  - destruct (getc s c) as [k|]; [|exact I]. destruct (k_closable k); [apply good_handle_close|apply good_ret, lk_refl].
  - apply good_ret, lk_refl.
  - destruct (getc s c) as [k|] eqn:Hg; [|exact I]. destruct (k_alive k); [|exact I]. apply good_ret.
    apply lk_put. intros k0 Hk0. rewrite Hg in Hk0. injection Hk0 as <-. unfold shutdown_in_loop. destruct (k_wr k); reflexivity.
  - destruct (match getc s c with Some k => k_alive k | None => false end); [apply good_ret, lk_start_read|exact I].
  - destruct (match getc s c with Some k => k_alive k | None => false end); [apply good_ret, lk_stop_read|exact I].
  - destruct (match getc s c with Some k => k_alive k | None => false end); [apply good_ret, lk_send_in_loop|exact I].
  - destruct (getc s c) as [k|] eqn:Hg; [|exact I]. apply good_ret.
    apply lk_put. intros k0 Hk0. rewrite Hg in Hk0. injection Hk0 as <-. reflexivity.
  - apply good_ret, lk_refl.
  - destruct (getc s c) as [k|] eqn:Hg; [|exact I]. destruct (k_alive k); [|exact I]. apply good_ret.
    apply lk_put. intros k0 Hk0. rewrite Hg in Hk0. injection Hk0 as <-. reflexivity.
Qed.

Lemma good_ev_step strict s c e : good s (ev_step strict s c e).
Proof.
  unfold ev_step. destruct (getc s c) as [k|] eqn:Hg; [|exact I]. destruct (negb _); [exact I|].
  destruct e.
  - destruct (k_rd k); [|exact I]. split; [apply lk_refl|]. constructor; [|constructor]. exists k. auto.
  - destruct (k_rd k); [|exact I]. destruct (_ && _); [exact I|apply good_handle_close].
  - destruct (k_rd k); [apply good_ret, lk_refl|exact I].
  - destruct (_ && _); [exact I|apply good_handle_close].
  - apply good_ret, lk_refl.
  - destruct (k_wr k); [|exact I]. destruct drained; [|apply good_ret, lk_refl]. apply good_ret.
    assert (L : lk s (put s c (if cstate_eqb (k_st k) Disconnecting then shutdown_in_loop (chan_update (s_readd s) k false (k_rd k)) else chan_update (s_readd s) k false (k_rd k)))).
    { apply lk_put. intros k0 Hk0. rewrite Hg in Hk0. injection Hk0 as <-. unfold shutdown_in_loop.
      destruct (cstate_eqb (k_st k) Disconnecting); [destruct (k_wr _)|]; loop_same. }
    destruct wc; [eapply lk_trans; [exact L|apply lk_enq]|exact L].
Qed.

Lemma good_on_conn s c f : (forall k, getc s c = Some k -> good s (f k)) -> good s (on_conn s c f).
Proof. intros H. unfold on_conn. destruct (getc s c) as [k|] eqn:Hg; [|exact I]. destruct (_ && _); [apply H; reflexivity|exact I]. Qed.

Lemma good_on_lconn s c f : (forall k, getc s c = Some k -> good s (f k)) -> good s (on_lconn s c f).
Proof. intros H. unfold on_lconn. apply good_on_conn. intros k Hg. destruct (gone s (k_loop k)); [exact I|apply H, Hg]. Qed.

Lemma good_step strict s o : good s (step strict s o).
Proof.
  destruct o; cbn [step].
  - apply good_finish, good_accept.
  - destruct (negb (s_srv s)); [exact I|]. destruct (_ && _); [exact I|]. destruct (next_entry (s_conns s) 0) as [c0|].
    + apply good_finish. eapply good_weaken; [|apply good_srv_hand]. apply lk_same_conns. reflexivity.
    + apply good_finish, good_ret, lk_same_conns. reflexivity.
  - apply good_finish, good_cli_connect.
  - apply good_finish, good_cli_destroy.
  - destruct (getl s l) as [v|]; [|exact I]. destruct (q_idle v && negb (gone s l)); [|exact I]. apply good_ret, lk_same_conns. reflexivity.
  - destruct (getl s l) as [v|]; [|exact I]. destruct (q_batch v) as [|t rest]; [exact I|]. apply good_finish.
    eapply good_weaken; [|apply good_run_task]. apply lk_same_conns. reflexivity.
  - destruct (getl s l) as [v|]; [|exact I]. destruct (q_batch v); [|exact I]. destruct (negb (q_drain v)); [exact I|].
    destruct (quitting s l); [destruct (_ && _); [exact I|]; destruct (_ && _); [exact I|]|]; apply good_finish, good_ret, lk_same_conns; reflexivity.
  - destruct (getc s c) as [k|]; [|exact I]. apply good_finish, good_ev_step.
  - destruct (getc s c) as [k|] eqn:Hg; [|exact I]. destruct (k_delayed k); [exact I|]. destruct (negb _); [exact I|].
    apply good_finish, good_ret.
    assert (L : lk s (put s c (set_own k (k_ccb k) (k_mapped k) (k_urefs k) n))) by (apply lk_put; intros k0 Hk0; rewrite Hg in Hk0; injection Hk0 as <-; reflexivity).
    destruct (k_alive k); [eapply lk_trans; [exact L|apply lk_force_close]|exact L].
  - apply good_on_lconn. intros k Hg. apply good_ret. destruct (cstate_eqb (k_st k) Connected); [|apply lk_refl].
    apply lk_put. intros k0 Hk0. rewrite Hg in Hk0. injection Hk0 as <-. unfold shutdown_in_loop. destruct (k_wr _); reflexivity.
  - apply good_on_lconn. intros k Hg. apply good_ret, lk_force_close.
  - apply good_on_lconn. intros k Hg. apply good_ret. destruct (k_closable k); [|apply lk_refl].
    apply lk_put. intros k0 Hk0. rewrite Hg in Hk0. injection Hk0 as <-. reflexivity.
  - apply good_on_lconn. intros k Hg. apply good_ret. destruct (cstate_eqb (k_st k) Connected); [apply lk_send_in_loop|apply lk_refl].
  - apply good_on_lconn. intros k Hg. destruct (k_added k); [apply good_ret, lk_start_read|exact I].
  - apply good_on_lconn. intros k Hg. destruct (k_added k); [apply good_ret, lk_stop_read|exact I].
  - apply good_on_conn. intros k Hg. apply good_ret. apply lk_put. intros k0 Hk0. rewrite Hg in Hk0. injection Hk0 as <-. reflexivity.
  - destruct (getc s c) as [k|] eqn:Hg; [|exact I]. destruct (k_urefs k); [exact I|]. destruct (_ && _ && _ && _ && _); [exact I|].
    apply good_finish, good_ret. apply lk_put. intros k0 Hk0. rewrite Hg in Hk0. injection Hk0 as <-. reflexivity.
  - destruct (strict && is_dtor a); [exact I|]. destruct (find_call u (s_calls s)); [exact I|].
    destruct (is_dtor a); [destruct (_ && _); [|exact I]|]; apply good_on_conn; intros k Hg; apply good_ret, lk_same_conns; reflexivity.
  - destruct (find_call u (s_calls s)) as [a|]; [|exact I]. destruct (a_stored a); [exact I|].
    destruct (getc s (a_conn a)) as [k|] eqn:Hg; [|exact I]. destruct (is_dtor (a_api a)).
    { apply good_ret. match goal with |- lk s (if _ then force_close ?s2 _ else _) => assert (L : lk s s2) by
        (match goal with |- lk s (enq ?s1 _ _) => apply (lk_trans s s1); [apply lk_same_conns; reflexivity|apply lk_enq] end) end.
      destruct (a_loaded a); [eapply lk_trans; [exact L|apply lk_force_close]|exact L]. }
    destruct (_ && _ && _); [exact I|]. apply good_ret.
    destruct (_ && _); [|apply lk_same_conns; reflexivity].
    match goal with |- lk s (put ?s1 _ _) => apply (lk_trans s s1); [apply lk_same_conns; reflexivity|] end.
    apply lk_put. intros k0 Hk0. change (getc s (a_conn a) = Some k0) in Hk0.
    rewrite Hg in Hk0. injection Hk0 as <-. reflexivity.
  - destruct (find_call u (s_calls s)) as [a|]; [|exact I]. destruct (negb (a_stored a)); [exact I|].
    destruct (getc s (a_conn a)) as [k|] eqn:Hg; [|exact I]. destruct (is_dtor (a_api a)).
    { apply good_finish, good_ret.
      match goal with |- lk s (set_cli ?s2 _ _) => apply (lk_trans s s2); [|apply lk_same_conns; reflexivity] end.
      match goal with |- lk s (put ?s1 _ _) => apply (lk_trans s s1); [apply lk_same_conns; reflexivity|] end.
      apply lk_put. intros k0 Hk0. change (getc s (a_conn a) = Some k0) in Hk0. rewrite Hg in Hk0. injection Hk0 as <-. reflexivity. }
    destruct (_ && _ && _ && _); [exact I|]. destruct (a_loaded a && gone s (k_loop k)); [destruct strict; exact I|].
    apply good_finish, good_ret. destruct (a_loaded a); [|apply lk_same_conns; reflexivity].
    destruct (a_api a); try (apply lk_same_conns; reflexivity);
      match goal with |- lk s (enq ?s1 _ _) => apply (lk_trans s s1); [apply lk_same_conns; reflexivity|apply lk_enq] end.
Qed.

(* every connection / message callback is run by a step of the connection's own loop *)
Theorem S02_affinity_step : forall strict s o s' obs, step strict s o = Ok (s', obs) ->
  forall thr c, In (OUp thr c) obs \/ In (ODown thr c) obs \/ In (OMsg thr c) obs ->
  exists k, getc s' c = Some k /\ k_loop k = thr.
Proof.
  intros strict s o s' obs H thr c Hin. pose proof (good_step strict s o) as Hg. rewrite H in Hg. destruct Hg as [_ A].
  rewrite Forall_forall in A. destruct Hin as [Hin|[Hin|Hin]]; apply (A _ Hin).
Qed.

Lemma good_run strict ops : forall s, good s (run strict s ops).
Proof.
  induction ops as [|o ops IH]; intros s; cbn [run]; [apply good_ret, lk_refl|].
  apply good_bind; [apply good_step|exact IH].
Qed.

Theorem S02_affinity : forall strict nio readd ops s obs, run strict (init_sys nio readd) ops = Ok (s, obs) ->
  forall thr c, In (OUp thr c) obs \/ In (ODown thr c) obs \/ In (OMsg thr c) obs ->
  exists k, getc s c = Some k /\ k_loop k = thr.
Proof.
  intros strict nio readd ops s obs H thr c Hin. pose proof (good_run strict ops (init_sys nio readd)) as Hg. rewrite H in Hg.
  destruct Hg as [_ A]. rewrite Forall_forall in A. destruct Hin as [Hin|[Hin|Hin]]; apply (A _ Hin).
Qed.

(* ==== outside the environment hypotheses: witnesses (each replayed on the real code, corpus/C02/sys) == *)
Definition count_down (c : nat) (o : list obs) : nat :=
  length (filter (fun x => match x with ODown _ c' => c' =? c | _ => false end) o).

(* the io loop of the destroyed server takes its last drain and leaves (join() returns, ~TcpServer returns, the server is
   freed) before the base loop runs the hop *)
Definition w_server_lifetime : list op :=
  [Accept; Swap 1; Run 1 true true; EndBatch 1; Ev 0 KEof; SrvDestroy; SrvDestroy; Swap 1; Run 1 true true; EndBatch 1; Swap 0; Run 0 true true].
Definition w_server_lifetime2 : list op :=
  [Accept; Swap 1; Run 1 true true; EndBatch 1; LForceClose 0; SrvDestroy; SrvDestroy; Swap 1; Run 1 true true; Run 1 true true; EndBatch 1;
   Swap 0; Run 0 true true].
Definition w_raw_functor : list op :=
  [Accept; XBegin 1 0 AStartRead; Ev 0 KEof; Swap 0; Run 0 true true; XEnq 1 false; EndBatch 0; Swap 0; Run 0 true true].
Definition w_f19 : list op :=
  [Accept; XBegin 1 0 AShutdown; Ev 0 KEof; XStore 1; XEnq 1 true; Swap 0; Run 0 true true; Run 0 true true; EndBatch 0].
Definition w_f20 : list op :=
  [CliConnect; LSend 0 true true; CliDestroy; Swap 0; Run 0 true true; EndBatch 0].
Definition w_f15 : list op :=
  [Accept; LStopRead 0; LForceClose 0; Swap 0; Run 0 true true; EndBatch 0; Ev 0 KHup].

Lemma W_server_lifetime : run false (init_sys 1 false) w_server_lifetime = Fault /\
  run false (init_sys 1 false) w_server_lifetime2 = Fault /\
  run true (init_sys 1 false) w_server_lifetime = Rejected /\ run true (init_sys 1 false) w_server_lifetime2 = Rejected.
Proof. repeat split; vm_compute; reflexivity. Qed.

Lemma W_raw_functor : run false (init_sys 0 false) w_raw_functor = Fault /\ run true (init_sys 0 false) w_raw_functor = Rejected.
Proof. split; vm_compute; reflexivity. Qed.

Lemma W_f19 : (exists s o, run false (init_sys 0 false) w_f19 = Ok (s, o) /\ count_down 0 o = 2) /\
  run true (init_sys 0 false) w_f19 = Rejected.
Proof. split; [vm_compute; eexists _, _; split; reflexivity|vm_compute; reflexivity]. Qed.

Lemma W_f20 : run false (init_sys 0 false) w_f20 = Fault /\ run true (init_sys 0 false) w_f20 = Rejected.
Proof. split; vm_compute; reflexivity. Qed.

Lemma W_f15 : run false (init_sys 0 true) w_f15 = Fault /\ run true (init_sys 0 true) w_f15 = Rejected /\
  run false (init_sys 0 false) w_f15 = Rejected.
Proof. repeat split; vm_compute; reflexivity. Qed.

(* H6 (F-13, recorded under C12/C08): ~TcpClient on a foreign thread; the peer's close is processed after the client
   object is gone and before the queued setCloseCallback ran: TcpClient::removeConnection runs on the freed client *)
Definition w_f13 : list op :=
  [CliConnect; XBegin 1 0 ADtor; XStore 1; XEnq 1 false; Ev 0 KEof].
Lemma W_f13 : run false (init_sys 0 false) w_f13 = Fault /\ run true (init_sys 0 false) w_f13 = Rejected /\
  (exists s o, run false (init_sys 0 false) [CliConnect; XBegin 1 0 ADtor; XStore 1; XEnq 1 false; Swap 0; Run 0 true true; Run 0 true true; EndBatch 0;
                                            Swap 0; Run 0 true true; EndBatch 0] = Ok (s, o) /\
     o = [OUp 0 0; ODown 0 0; ODtor 0 0 true]).
Proof. repeat split; try (vm_compute; reflexivity). vm_compute. eexists _, _. split; reflexivity. Qed.

(* with the fixed poller (F-15) a registered descriptor always has interest: the HUP hypothesis is not needed *)
(* H7 / F-25: ~TcpServer with io threads.  ~TcpServer is a loop of hand-offs (one SrvDestroy step per live entry of
   connections_, one more for "the members die": threadPool_ -> quit(), join()).  A hand-off that reaches pendingFunctors_ of
   an io loop after that loop's last swap is destroyed unrun with the EventLoop when the loop sees quit_: ~TcpConnection runs
   while kConnected (UP was delivered, DOWN never is, the channel is destroyed while registered).
   a: the io thread is running a write-complete callback when ~TcpServer runs; b: it is about to run the connectEstablished of a
   connection accepted just before; c: it is inside a drain of an empty batch;
   d (REVIEW_E-1): NOTHING is going on when ~TcpServer starts - two connections on one io loop, the io thread in poll(): the
   wakeup() of the first hand-off lets it swap a batch with that hand-off only; the second lands behind the batch *)
Definition w_pool_a : list op :=
  [Accept; Swap 1; Run 1 true true; EndBatch 1; LSend 0 true true; Swap 1; SrvDestroy; SrvDestroy; Run 1 true true; EndBatch 1].
Definition w_pool_b : list op := [Accept; Swap 1; SrvDestroy; SrvDestroy; Run 1 true true; EndBatch 1].
Definition w_pool_c : list op := [Accept; Swap 1; Run 1 true true; EndBatch 1; Swap 1; SrvDestroy; SrvDestroy; EndBatch 1].
Definition w_pool_d : list op :=
  [Accept; Accept; Swap 1; Run 1 true true; Run 1 true true; EndBatch 1;
   SrvDestroy; Swap 1; Run 1 true true; SrvDestroy; SrvDestroy; EndBatch 1].

Lemma W_pool :
  run false (init_sys 1 false) w_pool_a = Fault /\ run false (init_sys 1 false) w_pool_b = Fault /\
  run false (init_sys 1 false) w_pool_c = Fault /\ run false (init_sys 1 false) w_pool_d = Fault /\
  run true (init_sys 1 false) w_pool_a = Rejected /\ run true (init_sys 1 false) w_pool_b = Rejected /\
  run true (init_sys 1 false) w_pool_c = Rejected /\ run true (init_sys 1 false) w_pool_d = Rejected /\
  (* d: every op but the last is accepted under the hypotheses (when ~TcpServer starts every loop is in poll(), nothing is in
     flight); then: two UPs, one DOWN, connection 1 still kConnected and held by the queued connectDestroyed only, quit_ stored;
     the only thing the hypotheses refuse is the exit itself (H7), and without them it is the Fault *)
  (exists s0 o0, run true (init_sys 1 false) (firstn 6 w_pool_d) = Ok (s0, o0) /\ io_idle s0 = true /\
     has_task is_remove s0 = false /\ has_task is_force s0 = false /\ s_calls s0 = []) /\
  (exists s o k v, run true (init_sys 1 false) (firstn 11 w_pool_d) = Ok (s, o) /\ o = [OUp 1 0; OUp 1 1; ODown 1 0] /\
     getc s 1 = Some k /\ k_st k = Connected /\ k_alive k = true /\ holders s 1 = 1 /\ getl s 1 = Some v /\
     q_pend v = [TDestroy 1] /\ q_batch v = [] /\ q_drain v = true /\ s_stop s = 1 /\
     step true s (EndBatch 1) = Rejected /\ step false s (EndBatch 1) = Fault) /\
  (* the same ops when the io thread does not swap before the last hand-off: UP, UP, DOWN, DOWN, both destroyed *)
  (exists s o, run true (init_sys 1 false)
     [Accept; Accept; Swap 1; Run 1 true true; Run 1 true true; EndBatch 1;
      SrvDestroy; SrvDestroy; SrvDestroy; Swap 1; Run 1 true true; Run 1 true true; EndBatch 1] = Ok (s, o) /\
     o = [OUp 1 0; OUp 1 1; ODown 1 0; ODown 1 1; ODtor 1 0 true; ODtor 1 1 true] /\ s_stop s = 2).
Proof.
  do 8 (split; [vm_compute; reflexivity|]).
  split; [vm_compute; eexists _, _; repeat split|].
  split; [vm_compute; eexists _, _, _, _; repeat split|].
  vm_compute. eexists _, _. repeat split.
Qed.

(* H7 is exactly what strict mode adds to the exit of an io loop besides H8 *)
Lemma S02_H7_guard : forall s l v, getl s l = Some v -> q_batch v = [] -> q_drain v = true -> quitting s l = true ->
  (forallb no_handoff (q_pend v) = false -> step true s (EndBatch l) = Rejected) /\
  (forallb no_handoff (q_pend v) = true -> outlived s l = false -> step true s (EndBatch l) = step false s (EndBatch l)).
Proof.
  intros s l v Hv Hb Hd Hq. cbn [step]. rewrite Hv, Hb, Hd, Hq. cbn [negb andb]. split; intros H; rewrite H; [reflexivity|].
  intros Ho. rewrite Ho. reflexivity.
Qed.

Lemma S02_inset_has_interest : forall s c k, sreach s -> s_readd s = false -> getc s c = Some k -> k_alive k = true ->
  k_inset k = true -> k_wr k = true \/ k_rd k = true.
Proof.
  intros s c k Hr Hrd Hg Ha Hin. destruct (sreach_inv s Hr) as [[G HC] _].
  destruct (ci_poll s c k (HC c k Hg) Ha) as [_ Hp]. unfold k_inset in Hin. destruct (k_pidx k) eqn:Ep; try discriminate.
  destruct (k_none k) eqn:En; [specialize (Hp eq_refl eq_refl); congruence|].
  unfold k_none in En. apply negb_false_iff, orb_prop in En. exact En.
Qed.

(* a full life in strict mode, for non-vacuity *)
Definition ex_sys_ops : list op :=
  [Accept; Accept; CliConnect; Swap 1; Run 1 true true; EndBatch 1; Ev 0 KData; UGrab 0; XBegin 1 0 AShutdown; XStore 1; XEnq 1 true;
   Ev 0 KEof; Swap 0; Run 0 true true; EndBatch 0; Swap 1; Run 1 true true; Run 1 true true; EndBatch 1; UDrop 0;
   Swap 2; Run 2 true true; EndBatch 2; LSend 1 false true; Ev 1 (KOut true true); SrvDestroy; SrvDestroy; Swap 2; Run 2 true true; Run 2 true true; EndBatch 2;
   Swap 1; EndBatch 1; Swap 2; EndBatch 2; CliDestroy; Swap 0; Run 0 true true; EndBatch 0; Swap 0; Run 0 true true; EndBatch 0].

Lemma ex_sys_run : exists s o, run true (init_sys 2 false) ex_sys_ops = Ok (s, o) /\
  o = [OUp 0 2; OUp 1 0; OMsg 1 0; ODown 1 0; ODtor 100 0 true; OUp 2 1; ODown 2 1; ODtor 2 1 true; ODown 0 2; ODtor 0 2 true] /\
  (forall l v, getl s l = Some v -> q_all v = []) /\ s_calls s = [] /\ s_stop s = 3.
Proof.
  vm_compute. eexists _, _. split; [reflexivity|]. split; [reflexivity|]. split; [|split; reflexivity].
  intros [|[|[|l]]] v H; cbn in H; try (injection H as <-; reflexivity). destruct l; discriminate.
Qed.
