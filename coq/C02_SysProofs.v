(* C02_SysProofs: invariants of the owners model C02_Model, for every op list under the
   environment hypotheses of strict mode, and the witnesses of what fails outside them. *)
From Coq Require Import List Bool Arith Lia.
From Muduo Require Import Conn_Model C02_Model.
Import ListNotations.

(* ---- lists ------------------------------------------------------------------------------------ *)
Lemma length_upd {A} (l : list A) i x : length (upd l i x) = length l.
Proof. revert i. induction l as [|y l IH]; intros [|i]; cbn; auto. Qed.

Lemma nth_upd_eq {A} (l : list A) i x : i < length l -> nth_error (upd l i x) i = Some x.
Proof.
  revert i. induction l as [|y l IH]; intros [|i] H; cbn in *; try lia; auto. apply IH. lia.
Qed.

Lemma nth_upd_neq {A} (l : list A) i j x : i <> j -> nth_error (upd l i x) j = nth_error l j.
Proof.
  revert i j. induction l as [|y l IH]; intros [|i] [|j] H; cbn; auto; try congruence.
Qed.

Lemma nth_some_lt {A} (l : list A) i x : nth_error l i = Some x -> i < length l.
Proof. intros H. apply nth_error_Some. congruence. Qed.

Lemma nth_app_new {A} (l : list A) x : nth_error (l ++ [x]) (length l) = Some x.
Proof. rewrite nth_error_app2 by lia. rewrite Nat.sub_diag. reflexivity. Qed.

Lemma nth_app_old {A} (l : list A) x i : i < length l -> nth_error (l ++ [x]) i = nth_error l i.
Proof. intros H. apply nth_error_app1, H. Qed.

Lemma upd_app_old {A} (l : list A) y i x : i < length l -> upd (l ++ [y]) i x = upd l i x ++ [y].
Proof.
  revert i. induction l as [|z l IH]; intros [|i] H; cbn in *; try lia; auto. f_equal. apply IH. lia.
Qed.

(* ---- accessors of the state transformers -------------------------------------------------------- *)
Lemma getc_put_eq s c k : c < length (s_conns s) -> getc (put s c k) c = Some k.
Proof. intros H. unfold getc, put. cbn. apply nth_upd_eq, H. Qed.

Lemma getc_put_neq s c c' k : c <> c' -> getc (put s c k) c' = getc s c'.
Proof. intros H. unfold getc, put. cbn. apply nth_upd_neq, H. Qed.

Lemma getc_lt s c k : getc s c = Some k -> c < length (s_conns s).
Proof. apply nth_some_lt. Qed.

Lemma put_loops s c k : s_loops (put s c k) = s_loops s.
Proof. reflexivity. Qed.

Lemma getc_enq s l t c : getc (enq s l t) c = getc s c.
Proof. unfold enq, getc. destruct (nth_error (s_loops s) l); reflexivity. Qed.

Lemma getl_enq_eq s l t v : getl s l = Some v ->
  getl (enq s l t) l = Some (mkLq (q_pend v ++ [t]) (q_batch v) (q_spent v)).
Proof.
  intros H. unfold enq, getl in *. rewrite H. cbn. apply nth_upd_eq. eapply nth_some_lt, H.
Qed.

Lemma getl_enq_neq s l l' t : l <> l' -> getl (enq s l t) l' = getl s l'.
Proof.
  intros H. unfold enq, getl. destruct (nth_error (s_loops s) l); [|reflexivity]. cbn. apply nth_upd_neq, H.
Qed.

Lemma length_loops_enq s l t : length (s_loops (enq s l t)) = length (s_loops s).
Proof. unfold enq. destruct (nth_error (s_loops s) l); [|reflexivity]. cbn. apply length_upd. Qed.

Lemma length_conns_put s c k : length (s_conns (put s c k)) = length (s_conns s).
Proof. apply length_upd. Qed.

Lemma conns_enq s l t : s_conns (enq s l t) = s_conns s.
Proof. unfold enq. destruct (nth_error (s_loops s) l); reflexivity. Qed.

(* ---- tasks not yet run, counting, and the order of the life-cycle functors of one connection ---- *)
Definition q_todo (l : lq) : list task := q_batch l ++ q_pend l.

Definition cnt (p : task -> bool) (l : list task) : nat := length (filter p l).

Lemma cnt_app p l1 l2 : cnt p (l1 ++ l2) = cnt p l1 + cnt p l2.
Proof. unfold cnt. rewrite filter_app, app_length. reflexivity. Qed.

Lemma cnt_cons p t l : cnt p (t :: l) = (if p t then 1 else 0) + cnt p l.
Proof. unfold cnt. cbn. destruct (p t); reflexivity. Qed.

(* sum over all loops *)
Definition sumq (f : lq -> nat) (ls : list lq) : nat := fold_right (fun l n => f l + n) 0 ls.

Lemma sumq_upd f ls i v v' : nth_error ls i = Some v ->
  sumq f (upd ls i v') + f v = sumq f ls + f v'.
Proof.
  unfold sumq. revert i. induction ls as [|y ls IH]; intros [|i] H; cbn in *; try discriminate.
  - injection H as ->. lia.
  - specialize (IH i H). lia.
Qed.

Lemma sumq_zero f ls : (forall l, In l ls -> f l = 0) -> sumq f ls = 0.
Proof.
  induction ls as [|y ls IH]; intros H; [reflexivity|].
  change (sumq f (y :: ls)) with (f y + sumq f ls).
  rewrite (H y (or_introl eq_refl)), IH; [reflexivity|]. intros l Hl. apply H. right. exact Hl.
Qed.

Definition todoN (p : task -> bool) (s : sys) : nat := sumq (fun l => cnt p (q_todo l)) (s_loops s).
Definition allN (p : task -> bool) (s : sys) : nat := sumq (fun l => cnt p (q_all l)) (s_loops s).

Lemma holders_eq s c k : getc s c = Some k ->
  holders s c = (if k_mapped k then 1 else 0) + k_urefs k + count_calls c (s_calls s) + allN (holds c) s.
Proof. intros H. unfold holders, getc in *. rewrite H. reflexivity. Qed.

Definition isE (c : nat) (t : task) : bool := match t with TEstablish c' => c' =? c | _ => false end.
Definition isR (c : nat) (t : task) : bool := match t with TRemove c' => c' =? c | _ => false end.
Definition isD (c : nat) (t : task) : bool := match t with TDestroy c' => c' =? c | _ => false end.
Definition isF (c : nat) (t : task) : bool := match t with TForceClose c' => c' =? c | _ => false end.

Inductive lifek := LE | LD | LF.
Definition life_of (c : nat) (t : task) : option lifek :=
  if isE c t then Some LE else if isD c t then Some LD else if isF c t then Some LF else None.

Fixpoint first_life (c : nat) (l : list task) : option lifek :=
  match l with
  | [] => None
  | t :: r => match life_of c t with Some x => Some x | None => first_life c r end
  end.

Lemma first_life_app_some c l1 l2 x : first_life c l1 = Some x -> first_life c (l1 ++ l2) = Some x.
Proof.
  induction l1 as [|t l1 IH]; cbn; [discriminate|]. destruct (life_of c t); auto.
Qed.

Lemma first_life_app_none c l1 l2 : first_life c l1 = None -> first_life c (l1 ++ l2) = first_life c l2.
Proof.
  induction l1 as [|t l1 IH]; cbn; [reflexivity|]. destruct (life_of c t); [discriminate|auto].
Qed.

Lemma first_life_none_cnt c l : first_life c l = None -> cnt (isE c) l = 0 /\ cnt (isD c) l = 0 /\ cnt (isF c) l = 0.
Proof.
  induction l as [|t l IH]; [cbn; auto|]. cbn [first_life]. unfold life_of.
  rewrite !cnt_cons. destruct (isE c t) eqn:E1; [discriminate|].
  destruct (isD c t) eqn:E2; [discriminate|]. destruct (isF c t) eqn:E3; [discriminate|].
  intros H. destruct (IH H) as (? & ? & ?). lia.
Qed.

Lemma cnt_zero_first_life c l : cnt (isE c) l = 0 -> cnt (isD c) l = 0 -> cnt (isF c) l = 0 -> first_life c l = None.
Proof.
  induction l as [|t l IH]; [cbn; auto|]. cbn [first_life]. unfold life_of. rewrite !cnt_cons.
  destruct (isE c t); [lia|]. destruct (isD c t); [lia|]. destruct (isF c t); [lia|]. cbn [plus]. auto.
Qed.

(* the holders of a connection are at least its strong life-cycle functors *)
Lemma isE_holds c t : isE c t = true -> holds c t = true.
Proof. destruct t; cbn [isE isR isD isF]; try discriminate. unfold holds. cbn [task_conn task_strong]. intros H. rewrite H. reflexivity. Qed.
Lemma isR_holds c t : isR c t = true -> holds c t = true.
Proof. destruct t; cbn [isE isR isD isF]; try discriminate. unfold holds. cbn [task_conn task_strong]. intros H. rewrite H. reflexivity. Qed.
Lemma isD_holds c t : isD c t = true -> holds c t = true.
Proof. destruct t; cbn [isE isR isD isF]; try discriminate. unfold holds. cbn [task_conn task_strong]. intros H. rewrite H. reflexivity. Qed.
Lemma isF_holds c t : isF c t = true -> holds c t = true.
Proof. destruct t; cbn [isE isR isD isF]; try discriminate. unfold holds. cbn [task_conn task_strong]. intros H. rewrite H. reflexivity. Qed.

Lemma cnt_le p q l : (forall t, p t = true -> q t = true) -> cnt p l <= cnt q l.
Proof.
  intros H. induction l as [|t l IH]; [cbn; lia|]. rewrite !cnt_cons.
  destruct (p t) eqn:E; [rewrite (H t E); lia|]. destruct (q t); lia.
Qed.

Lemma sumq_le f g ls : (forall l, f l <= g l) -> sumq f ls <= sumq g ls.
Proof. intros H. unfold sumq. induction ls as [|y ls IH]; cbn; [lia|]. specialize (H y). lia. Qed.

Lemma q_all_todo l : q_all l = q_spent l ++ q_todo l.
Proof. reflexivity. Qed.

Lemma todoN_le_allN p q s : (forall t, p t = true -> q t = true) -> todoN p s <= allN q s.
Proof.
  intros H. unfold todoN, allN. apply sumq_le. intros l. rewrite q_all_todo, cnt_app.
  pose proof (cnt_le p q (q_todo l) H). lia.
Qed.

(* ---- the invariant ------------------------------------------------------------------------------ *)
Lemma cs_eqb_true a b : cstate_eqb a b = true <-> a = b.
Proof. destruct a, b; cbn; split; intros; congruence. Qed.
Lemma cs_eqb_false a b : cstate_eqb a b = false <-> a <> b.
Proof. destruct a, b; cbn; split; intros; congruence. Qed.

Definition up_k (k : lc) : Prop := k_st k = Connected \/ k_st k = Disconnecting.

Lemma closable_up_k k : k_closable k = true <-> up_k k.
Proof. unfold k_closable, up_k. destruct (k_st k); cbn; intuition discriminate. Qed.

Lemma closable_false_k k : k_closable k = false <-> k_st k = Connecting \/ k_st k = Disconnected.
Proof. unfold k_closable. destruct (k_st k); cbn; intuition discriminate. Qed.

Definition owner_alive (s : sys) (c : nat) (k : lc) : Prop :=
  match k_ccb k with
  | CbServer => s_srv s = true
  | CbClient => s_cli s = true /\ s_cliconn s = Some c
  | CbDetail => False
  end.

Definition loop_todo (s : sys) (l : nat) : list task :=
  match getl s l with Some v => q_todo v | None => [] end.

(* where a connection stands on its way from creation to destruction: which owner entry and
   which queued life-cycle functors (not yet run) exist for it, and in which order *)
Definition phase (s : sys) (c : nat) (k : lc) : Prop :=
  let nE := todoN (isE c) s in let nR := todoN (isR c) s in
  let nD := todoN (isD c) s in let nF := todoN (isF c) s in
  match k_st k with
  | Connecting =>
      k_added k = false /\ k_ccb k = CbServer /\ nE = 1 /\ nR = 0 /\ nF = 0 /\
      first_life c (loop_todo s (k_loop k)) = Some LE /\
      ((k_mapped k = true /\ nD = 0 /\ s_srv s = true) \/ (k_mapped k = false /\ nD = 1 /\ s_srv s = false))
  | Connected | Disconnecting =>
      k_added k = true /\ nE = 0 /\ nR = 0 /\
      ((k_mapped k = true /\ nD = 0 /\ owner_alive s c k) \/
       (k_mapped k = false /\ nD = 1 /\ k_ccb k = CbServer /\ s_srv s = false /\
        first_life c (loop_todo s (k_loop k)) = Some LD) \/
       (k_mapped k = false /\ nD = 0 /\ k_ccb k = CbDetail /\ (1 <= k_urefs k \/ 1 <= nF)))
  | Disconnected =>
      nE = 0 /\
      ((k_added k = true /\ k_mapped k = true /\ nR = 1 /\ nD = 0 /\ k_ccb k = CbServer /\ s_srv s = true) \/
       (k_added k = true /\ k_mapped k = false /\ nR = 0 /\ nD = 1) \/
       (k_added k = false /\ k_mapped k = false /\ nR = 0 /\ nD = 0))
  end.

Definition counters_ok (k : lc) : Prop :=
  match k_st k with
  | Connecting => k_ups k = 0 /\ k_downs k = 0
  | Connected | Disconnecting => k_ups k = 1 /\ k_downs k = 0
  | Disconnected => k_ups k = 1 /\ k_downs k = 1
  end.

Definition poller_ok (readd : bool) (k : lc) : Prop :=
  (k_added k = false <-> k_pidx k = PNew) /\
  (k_pidx k = PAdded -> k_none k = true -> readd = true).

(* per connection *)
Record CInv (s : sys) (c : nat) (k : lc) : Prop := {
  ci_loop : k_loop k <= s_nio s /\ (k_ccb k <> CbServer -> k_loop k = 0);
  ci_idle : k_alive k = true -> ~ up_k k -> k_wr k = false /\ k_rd k = false;
  ci_cnt : k_alive k = true -> counters_ok k;
  ci_poll : k_alive k = true -> poller_ok (s_readd s) k;
  ci_phase : k_alive k = true -> phase s c k;
  ci_dead : k_alive k = false -> holders s c = 0;
  ci_dtor : k_dtors k = (if k_alive k then 0 else 1) /\ k_closes k = k_dtors k
}.

Definition raw_pinned (t : task) : bool :=
  match t with TShutdown _ p | TStartRead _ p | TStopRead _ p | TSend _ p => p | _ => true end.

Definition placed (s : sys) (l : nat) (t : task) : Prop :=
  raw_pinned t = true /\
  match t with
  | TOther => True
  | TRemove c => l = 0 /\ c < length (s_conns s)
  | _ => exists k, getc s (task_conn t) = Some k /\ k_loop k = l
  end.

(* global *)
Record GInv (s : sys) : Prop := {
  gi_loops : length (s_loops s) = S (s_nio s);
  gi_placed : forall l v t, getl s l = Some v -> In t (q_all v) -> placed s l t;
  gi_calls : NoDup (map a_thr (s_calls s)) /\
             forall a, In a (s_calls s) -> exists k, getc s (a_conn a) = Some k /\ k_alive k = true;
  gi_cli : forall c, s_cliconn s = Some c ->
           s_cli s = true /\ exists k, getc s c = Some k /\ k_alive k = true /\ k_mapped k = true /\
                                       k_ccb k = CbClient /\ up_k k
}.

(* everything except "a live connection has a holder", which [finish] re-establishes *)
Definition Inv0 (s : sys) : Prop := GInv s /\ forall c k, getc s c = Some k -> CInv s c k.
Definition InvX (s : sys) (c0 : nat) : Prop := GInv s /\ forall c k, c <> c0 -> getc s c = Some k -> CInv s c k.
Definition Held (s : sys) : Prop := forall c k, getc s c = Some k -> k_alive k = true -> 1 <= holders s c.
Definition Inv (s : sys) : Prop := Inv0 s /\ Held s.

Lemma init_inv nio readd : Inv (init_sys nio readd).
Proof.
  split; [split|].
  - constructor; cbn.
    + f_equal. apply repeat_length.
    + intros l v t Hl Hin. unfold getl in Hl. cbn [init_sys s_loops] in Hl. apply nth_error_In, repeat_spec in Hl. subst v. contradiction.
    + split; [constructor|intros a []].
    + discriminate.
  - intros c k H. unfold getc in H. cbn in H. destruct c; discriminate.
  - intros c k H. unfold getc in H. cbn in H. destruct c; discriminate.
Qed.

(* ---- frame: what the invariant of connection c depends on ---------------------------------------- *)
Definition about (c : nat) (t : task) : bool :=
  match t with TOther => false | _ => task_conn t =? c end.

Lemma about_false c t : about c t = false ->
  isE c t = false /\ isR c t = false /\ isD c t = false /\ isF c t = false /\ holds c t = false /\ life_of c t = None.
Proof.
  unfold life_of, holds.
  destruct t; cbn [about task_conn isE isR isD isF task_strong]; intros H; rewrite ?H; cbn [andb];
    rewrite ?andb_false_r; auto 10.
Qed.

Record same_for (s s' : sys) (c : nat) : Prop := {
  sf_nio : s_nio s' = s_nio s;
  sf_readd : s_readd s' = s_readd s;
  sf_srv : s_srv s' = s_srv s;
  sf_cli : s_cli s' = s_cli s;
  sf_cliconn : s_cliconn s' = s_cliconn s;
  sf_E : todoN (isE c) s' = todoN (isE c) s;
  sf_R : todoN (isR c) s' = todoN (isR c) s;
  sf_D : todoN (isD c) s' = todoN (isD c) s;
  sf_F : todoN (isF c) s' = todoN (isF c) s;
  sf_first : forall l, first_life c (loop_todo s' l) = first_life c (loop_todo s l);
  sf_calls : count_calls c (s_calls s') = count_calls c (s_calls s);
  sf_all : allN (holds c) s' = allN (holds c) s
}.

Lemma same_for_refl s c : same_for s s c.
Proof. constructor; reflexivity. Qed.

Lemma same_for_trans s1 s2 s3 c : same_for s1 s2 c -> same_for s2 s3 c -> same_for s1 s3 c.
Proof.
  intros [] []. constructor; try congruence. all: intros l; rewrite sf_first1; apply sf_first0.
Qed.

Lemma same_for_cinv s s' c k : same_for s s' c -> getc s c = Some k -> getc s' c = Some k ->
  CInv s c k -> CInv s' c k.
Proof.
  intros [] Hg0 Hg [Hl Hi Hc Hp Hph Hd Hdt].
  constructor; auto.
  - rewrite sf_nio0. exact Hl.
  - rewrite sf_readd0. exact Hp.
  - intros Ha. specialize (Hph Ha). unfold phase, owner_alive in *.
    rewrite sf_E0, sf_R0, sf_D0, sf_F0, sf_first0, sf_srv0, sf_cli0, sf_cliconn0. exact Hph.
  - intros Ha. specialize (Hd Ha).
    rewrite (holders_eq s' c k Hg), sf_calls0, sf_all0. rewrite (holders_eq s c k Hg0) in Hd. exact Hd.
Qed.

(* replacing one loop *)
Definition set_loop (s : sys) (l : nat) (v : lq) : sys := set_loops s (upd (s_loops s) l v).

Lemma enq_set_loop s l t v : getl s l = Some v ->
  enq s l t = set_loop s l (mkLq (q_pend v ++ [t]) (q_batch v) (q_spent v)).
Proof. intros H. unfold enq, getl in *. rewrite H. reflexivity. Qed.

Lemma enq_none s l t : getl s l = None -> enq s l t = s.
Proof. intros H. unfold enq, getl in *. rewrite H. reflexivity. Qed.

Lemma getl_set_loop_eq s l v v' : getl s l = Some v -> getl (set_loop s l v') l = Some v'.
Proof. intros H. unfold getl, set_loop. cbn. apply nth_upd_eq. eapply nth_some_lt, H. Qed.

Lemma getl_set_loop_neq s l l' v' : l <> l' -> getl (set_loop s l v') l' = getl s l'.
Proof. intros H. unfold getl, set_loop. cbn. apply nth_upd_neq, H. Qed.

Lemma getc_set_loop s l v c : getc (set_loop s l v) c = getc s c.
Proof. reflexivity. Qed.

Lemma todoN_set_loop p s l v v' : getl s l = Some v ->
  todoN p (set_loop s l v') + cnt p (q_todo v) = todoN p s + cnt p (q_todo v').
Proof. intros H. unfold todoN, set_loop. cbn. apply (sumq_upd (fun l => cnt p (q_todo l))), H. Qed.

Lemma allN_set_loop p s l v v' : getl s l = Some v ->
  allN p (set_loop s l v') + cnt p (q_all v) = allN p s + cnt p (q_all v').
Proof. intros H. unfold allN, set_loop. cbn. apply (sumq_upd (fun l => cnt p (q_all l))), H. Qed.

Lemma loop_todo_set_loop_eq s l v v' : getl s l = Some v -> loop_todo (set_loop s l v') l = q_todo v'.
Proof. intros H. unfold loop_todo. rewrite (getl_set_loop_eq s l v v' H). reflexivity. Qed.

Lemma loop_todo_set_loop_neq s l l' v' : l <> l' -> loop_todo (set_loop s l v') l' = loop_todo s l'.
Proof. intros H. unfold loop_todo. rewrite getl_set_loop_neq by exact H. reflexivity. Qed.

(* a loop is replaced by one that is the same as far as connection c is concerned *)
Lemma same_for_set_loop s l v v' c : getl s l = Some v ->
  cnt (isE c) (q_todo v') = cnt (isE c) (q_todo v) -> cnt (isR c) (q_todo v') = cnt (isR c) (q_todo v) ->
  cnt (isD c) (q_todo v') = cnt (isD c) (q_todo v) -> cnt (isF c) (q_todo v') = cnt (isF c) (q_todo v) ->
  first_life c (q_todo v') = first_life c (q_todo v) ->
  cnt (holds c) (q_all v') = cnt (holds c) (q_all v) ->
  same_for s (set_loop s l v') c.
Proof.
  intros H HE HR HD HF Hfl Hall.
  constructor; try reflexivity.
  - pose proof (todoN_set_loop (isE c) s l v v' H). lia.
  - pose proof (todoN_set_loop (isR c) s l v v' H). lia.
  - pose proof (todoN_set_loop (isD c) s l v v' H). lia.
  - pose proof (todoN_set_loop (isF c) s l v v' H). lia.
  - intros l'. destruct (Nat.eq_dec l l') as [<-|Hn].
    + rewrite (loop_todo_set_loop_eq s l v v' H). unfold loop_todo. rewrite H. exact Hfl.
    + rewrite loop_todo_set_loop_neq by exact Hn. reflexivity.
  - pose proof (allN_set_loop (holds c) s l v v' H). lia.
Qed.

Lemma same_for_put s c0 k0 c : same_for s (put s c0 k0) c.
Proof. constructor; reflexivity. Qed.

Lemma first_life_snoc_none c l t : life_of c t = None -> first_life c (l ++ [t]) = first_life c l.
Proof.
  intros H. induction l as [|x l IH]; cbn; [rewrite H; reflexivity|]. destruct (life_of c x); auto.
Qed.

Lemma same_for_enq s l t c : about c t = false -> same_for s (enq s l t) c.
Proof.
  intros Ha. destruct (about_false c t Ha) as (HE & HR & HD & HF & Hh & Hl).
  destruct (getl s l) as [v|] eqn:E; [|rewrite (enq_none s l t E); apply same_for_refl].
  rewrite (enq_set_loop s l t v E). apply (same_for_set_loop s l v _ c E); unfold q_todo, q_all; cbn [q_pend q_batch q_spent].
  all: rewrite ?app_assoc, ?cnt_app; try (unfold cnt; cbn [filter]; rewrite ?HE, ?HR, ?HD, ?HF, ?Hh; cbn; lia).
  apply first_life_snoc_none, Hl.
Qed.

Lemma same_for_set_calls s cl c : count_calls c cl = count_calls c (s_calls s) -> same_for s (set_calls s cl) c.
Proof. intros H. constructor; try reflexivity. exact H. Qed.

(* ---- the global part under the primitives --------------------------------------------------------- *)
Definition conns_ext (s s' : sys) : Prop :=
  length (s_conns s) <= length (s_conns s') /\
  forall c k, getc s c = Some k -> exists k', getc s' c = Some k' /\ k_loop k' = k_loop k.

Lemma placed_mono s s' l t : conns_ext s s' -> placed s l t -> placed s' l t.
Proof.
  intros [Hlen Hc] [Hp H]. split; [exact Hp|].
  destruct t; try exact H; try (destruct H as (k & Hk & Hl); destruct (Hc _ _ Hk) as (k' & Hk' & Hl'); exists k'; split; [exact Hk'|congruence]).
  destruct H as [H1 H2]. split; [exact H1|lia].
Qed.

Lemma conns_ext_refl s : conns_ext s s.
Proof. split; [lia|]. intros c k H. eauto. Qed.

Lemma conns_ext_put s c0 k k0 : getc s c0 = Some k -> k_loop k0 = k_loop k -> conns_ext s (put s c0 k0).
Proof.
  intros Hk Hl. split; [rewrite length_conns_put; lia|].
  intros c k1 H1. destruct (Nat.eq_dec c0 c) as [<-|Hn].
  - exists k0. rewrite getc_put_eq by (eapply getc_lt, Hk). split; [reflexivity|congruence].
  - exists k1. rewrite getc_put_neq by exact Hn. auto.
Qed.

Lemma ginv_put s c0 k k0 : GInv s -> getc s c0 = Some k -> k_loop k0 = k_loop k -> k_alive k0 = k_alive k ->
  (s_cliconn s = Some c0 -> k_mapped k0 = true /\ k_ccb k0 = CbClient /\ up_k k0) ->
  GInv (put s c0 k0).
Proof.
  intros [G1 G2 [G3 G3'] G4] Hk Hl Ha Hcli.
  pose proof (conns_ext_put s c0 k k0 Hk Hl) as Hext.
  constructor.
  - exact G1.
  - intros l v t Hv Hin. apply (placed_mono s _ l t Hext). apply (G2 l v t Hv Hin).
  - split; [exact G3|]. intros a Hin. destruct (G3' a Hin) as (k1 & Hk1 & Ha1). cbn [s_calls put set_conns] in *.
    destruct (Nat.eq_dec c0 (a_conn a)) as [E|Hn].
    + exists k0. rewrite <- E, getc_put_eq by (eapply getc_lt, Hk). split; [reflexivity|]. rewrite Ha. rewrite <- E in Hk1. congruence.
    + exists k1. rewrite getc_put_neq by exact Hn. auto.
  - intros c Hc. cbn [s_cliconn put set_conns] in Hc. destruct (G4 c Hc) as (Hs & k1 & Hk1 & H1 & H2 & H3 & H4).
    split; [exact Hs|]. destruct (Nat.eq_dec c0 c) as [E|Hn].
    + subst c. destruct (Hcli Hc) as (Hm & Hcb & Hup). exists k0. rewrite getc_put_eq by (eapply getc_lt, Hk).
      repeat split; auto. rewrite Ha. congruence.
    + exists k1. rewrite getc_put_neq by exact Hn. auto.
Qed.

Lemma in_q_all_set (v : lq) t x : In x (q_all (mkLq (q_pend v ++ [t]) (q_batch v) (q_spent v))) -> In x (q_all v) \/ x = t.
Proof.
  unfold q_all. cbn [q_pend q_batch q_spent]. rewrite !in_app_iff. cbn. intuition.
Qed.

Lemma ginv_set_loop s l v v' : GInv s -> getl s l = Some v ->
  (forall t, In t (q_all v') -> In t (q_all v) \/ placed s l t) -> GInv (set_loop s l v').
Proof.
  intros [G1 G2 G3 G4] Hv Hsub. constructor.
  - unfold set_loop. cbn. rewrite length_upd. exact G1.
  - intros l' v1 t Hv1 Hin.
    assert (Hpl : placed s l' t).
    { destruct (Nat.eq_dec l l') as [<-|Hn].
      - rewrite (getl_set_loop_eq s l v v' Hv) in Hv1. injection Hv1 as <-.
        destruct (Hsub t Hin) as [H|H]; [apply (G2 l v t Hv H)|exact H].
      - rewrite getl_set_loop_neq in Hv1 by exact Hn. apply (G2 l' v1 t Hv1 Hin). }
    exact Hpl.
  - exact G3.
  - exact G4.
Qed.

Lemma ginv_enq s l t : GInv s -> placed s l t -> GInv (enq s l t).
Proof.
  intros G Hp. destruct (getl s l) as [v|] eqn:E; [|rewrite (enq_none s l t E); exact G].
  rewrite (enq_set_loop s l t v E). apply (ginv_set_loop s l v _ G E).
  intros x Hx. apply in_q_all_set in Hx as [Hx| ->]; auto.
Qed.

(* ---- effect of the primitives on counts ----------------------------------------------------------- *)
Lemma cnt_snoc p l t : cnt p (l ++ [t]) = cnt p l + (if p t then 1 else 0).
Proof. rewrite cnt_app. unfold cnt at 2. cbn [filter]. destruct (p t); reflexivity. Qed.

Lemma todoN_enq p s l t v : getl s l = Some v -> todoN p (enq s l t) = todoN p s + (if p t then 1 else 0).
Proof.
  intros H. rewrite (enq_set_loop s l t v H).
  pose proof (todoN_set_loop p s l v (mkLq (q_pend v ++ [t]) (q_batch v) (q_spent v)) H) as E.
  assert (E2 : cnt p (q_todo (mkLq (q_pend v ++ [t]) (q_batch v) (q_spent v))) = cnt p (q_todo v) + (if p t then 1 else 0)).
  { unfold q_todo. cbn [q_pend q_batch]. rewrite app_assoc. apply cnt_snoc. }
  lia.
Qed.

Lemma allN_enq p s l t v : getl s l = Some v -> allN p (enq s l t) = allN p s + (if p t then 1 else 0).
Proof.
  intros H. rewrite (enq_set_loop s l t v H).
  pose proof (allN_set_loop p s l v (mkLq (q_pend v ++ [t]) (q_batch v) (q_spent v)) H) as E.
  assert (E2 : cnt p (q_all (mkLq (q_pend v ++ [t]) (q_batch v) (q_spent v))) = cnt p (q_all v) + (if p t then 1 else 0)).
  { unfold q_all. cbn [q_pend q_batch q_spent]. rewrite !app_assoc. apply cnt_snoc. }
  lia.
Qed.

Lemma loop_todo_enq_eq s l t v : getl s l = Some v -> loop_todo (enq s l t) l = loop_todo s l ++ [t].
Proof.
  intros H. rewrite (enq_set_loop s l t v H), (loop_todo_set_loop_eq s l v _ H).
  unfold loop_todo. rewrite H. unfold q_todo. cbn [q_pend q_batch]. apply app_assoc.
Qed.

Lemma loop_todo_enq_neq s l l' t : l <> l' -> loop_todo (enq s l t) l' = loop_todo s l'.
Proof. intros H. unfold loop_todo. rewrite getl_enq_neq by exact H. reflexivity. Qed.

Lemma enq_fields s l t : s_nio (enq s l t) = s_nio s /\ s_readd (enq s l t) = s_readd s /\ s_srv (enq s l t) = s_srv s /\
  s_cli (enq s l t) = s_cli s /\ s_cliconn (enq s l t) = s_cliconn s /\ s_calls (enq s l t) = s_calls s.
Proof. unfold enq. destruct (nth_error (s_loops s) l); cbn; auto 10. Qed.

Lemma getl_valid s l : GInv s -> l <= s_nio s -> exists v, getl s l = Some v.
Proof.
  intros G H. destruct (getl s l) as [v|] eqn:E; [eauto|]. unfold getl in E. apply nth_error_None in E.
  rewrite (gi_loops s G) in E. lia.
Qed.

(* a live connection that has no holder is at the end of its life *)
Lemma no_holder_done s c k : getc s c = Some k -> CInv s c k -> k_alive k = true -> holders s c = 0 ->
  k_st k = Disconnected /\ k_added k = false /\ k_pidx k = PNew.
Proof.
  intros Hg HC Ha Hh. rewrite (holders_eq s c k Hg) in Hh.
  pose proof (ci_phase s c k HC Ha) as Hp. pose proof (ci_poll s c k HC Ha) as [Hpo _].
  pose proof (todoN_le_allN (isE c) (holds c) s (isE_holds c)) as HE.
  pose proof (todoN_le_allN (isR c) (holds c) s (isR_holds c)) as HR.
  pose proof (todoN_le_allN (isD c) (holds c) s (isD_holds c)) as HD.
  pose proof (todoN_le_allN (isF c) (holds c) s (isF_holds c)) as HF.
  unfold phase in Hp. destruct (k_st k).
  - destruct Hp as (_ & _ & Hx & _). lia.
  - destruct Hp as (_ & _ & _ & [(Hm & _)|[(_ & Hx & _)|(_ & _ & _ & Hx)]]); [rewrite Hm in Hh; lia|lia|lia].
  - destruct Hp as (_ & _ & _ & [(Hm & _)|[(_ & Hx & _)|(_ & _ & _ & Hx)]]); [rewrite Hm in Hh; lia|lia|lia].
  - destruct Hp as (_ & [(_ & Hm & _)|[(_ & _ & _ & Hx)|(Hx & _)]]); [rewrite Hm in Hh; lia|lia|].
    split; [reflexivity|]. split; [exact Hx|]. apply Hpo, Hx.
Qed.

(* ---- destruction ---------------------------------------------------------------------------------- *)
Lemma holders_put_own s c k k' : getc s c = Some k -> k_mapped k' = k_mapped k -> k_urefs k' = k_urefs k ->
  forall c', holders (put s c k') c' = holders s c'.
Proof.
  intros Hg Hm Hu c'. unfold holders. destruct (Nat.eq_dec c c') as [<-|Hn].
  - fold (getc (put s c k') c). fold (getc s c). rewrite getc_put_eq by (eapply getc_lt, Hg). rewrite Hg, Hm, Hu. reflexivity.
  - fold (getc (put s c k') c'). fold (getc s c'). rewrite getc_put_neq by exact Hn. reflexivity.
Qed.

Lemma count_calls_zero_notin c l : count_calls c l = 0 -> forall a, In a l -> a_conn a <> c.
Proof.
  unfold count_calls. induction l as [|x l IH]; intros H a Hin E; [contradiction|].
  cbn [filter] in H. destruct Hin as [<-|Hin].
  - rewrite E, Nat.eqb_refl in H. discriminate.
  - destruct (a_conn x =? c); [discriminate|]. apply (IH H a Hin E).
Qed.

Lemma kill_inv0 s c k : Inv0 s -> getc s c = Some k -> k_alive k = true -> holders s c = 0 ->
  Inv0 (put s c (kill k)) /\ clean k = true.
Proof.
  intros [G HC] Hg Ha Hh.
  destruct (no_holder_done s c k Hg (HC c k Hg) Ha Hh) as (Hst & Hadd & Hpi).
  assert (Hclean : clean k = true).
  { unfold clean, k_inset. rewrite Hst, Hadd, Hpi. reflexivity. }
  split; [|exact Hclean].
  pose proof (holders_eq s c k Hg) as He. rewrite Hh in He.
  assert (Hm : k_mapped k = false) by (destruct (k_mapped k); [lia|reflexivity]).
  assert (Hcalls : count_calls c (s_calls s) = 0) by lia.
  split.
  - (* global *)
    destruct G as [G1 G2 [G3 G3'] G4].
    pose proof (conns_ext_put s c k (kill k) Hg eq_refl) as Hext.
    constructor.
    + exact G1.
    + intros l v t Hv Hin. apply (placed_mono s _ l t Hext), (G2 l v t Hv Hin).
    + split; [exact G3|]. intros a Hin. destruct (G3' a Hin) as (k1 & Hk1 & Ha1).
      exists k1. rewrite getc_put_neq; [auto|]. intros E. apply (count_calls_zero_notin c _ Hcalls a Hin). auto.
    + intros c1 Hc1. destruct (G4 c1 Hc1) as (Hs & k1 & Hk1 & H1 & H2 & H3 & H4). split; [exact Hs|].
      exists k1. rewrite getc_put_neq; [auto|]. intros E. subst c1. congruence.
  - intros c' k' Hg'. destruct (Nat.eq_dec c c') as [<-|Hn].
    + rewrite getc_put_eq in Hg' by (eapply getc_lt, Hg). injection Hg' as <-.
      destruct (HC c k Hg) as [Hl Hi Hc Hp Hph Hd Hdt].
      constructor; cbn [kill k_alive k_loop k_ccb k_dtors k_closes]; try discriminate; auto.
      * intros _. rewrite (holders_put_own s c k (kill k) Hg eq_refl eq_refl). exact Hh.
      * destruct Hdt as [Hd1 Hd2]. rewrite Ha in Hd1. rewrite Hd2, Hd1. auto.
    + rewrite getc_put_neq in Hg' by exact Hn.
      apply (same_for_cinv s _ c' k' (same_for_put s c (kill k) c') Hg'); [rewrite getc_put_neq by exact Hn; exact Hg'|].
      apply (HC c' k' Hg').
Qed.

Lemma sweep_from_inv n : forall s thr c s' d, sweep_from s thr n c = (s', d) -> Inv0 s ->
  (forall c' k, c' < c -> getc s c' = Some k -> k_alive k = true -> 1 <= holders s c') ->
  length (s_conns s) <= c + n ->
  Inv0 s' /\ Held s' /\ all_clean d = true /\ conns_ext s s' /\
  s_loops s' = s_loops s /\ s_calls s' = s_calls s /\ s_srv s' = s_srv s /\ s_cli s' = s_cli s /\ s_cliconn s' = s_cliconn s /\
  s_nio s' = s_nio s /\ s_readd s' = s_readd s /\ Forall (fun x => exists c0, x = ODtor thr c0 true) d.
Proof.
  induction n as [|n IH]; intros s thr c s' d H HI Hlow Hlen; cbn [sweep_from] in H.
  - injection H as <- <-. split; [exact HI|]. split; [|split; [reflexivity|split; [apply conns_ext_refl|auto 12]]].
    intros c' k Hg Ha. apply (Hlow c' k); [|exact Hg|exact Ha]. apply getc_lt in Hg. lia.
  - destruct (getc s c) as [k|] eqn:Hg.
    + destruct (k_alive k && (holders s c =? 0)) eqn:E.
      * apply andb_prop in E as [Ha Hz]. apply Nat.eqb_eq in Hz.
        destruct (sweep_from (put s c (kill k)) thr n (S c)) as [s1 o1] eqn:E1. injection H as <- <-.
        destruct (kill_inv0 s c k HI Hg Ha Hz) as [HI1 Hcl].
        pose proof (holders_put_own s c k (kill k) Hg eq_refl eq_refl) as Hh.
        destruct (IH _ thr (S c) s1 o1 E1 HI1) as (R1 & R2 & R3 & R4 & R5 & R6 & R7 & R8 & R9 & R10 & R11 & R12).
        -- intros c' k' Hlt Hg' Ha'. rewrite Hh. destruct (Nat.eq_dec c c') as [<-|Hn].
           ++ rewrite getc_put_eq in Hg' by (eapply getc_lt, Hg). injection Hg' as <-. discriminate.
           ++ rewrite getc_put_neq in Hg' by exact Hn. apply (Hlow c' k'); [lia|exact Hg'|exact Ha'].
        -- rewrite length_conns_put. lia.
        -- split; [exact R1|]. split; [exact R2|]. split; [cbn [all_clean forallb]; rewrite Hcl; exact R3|].
           split; [|cbn [put set_conns s_loops s_calls s_srv s_cli s_cliconn s_nio s_readd] in *; repeat (split; [assumption|]);
                    constructor; [exists c; rewrite Hcl; reflexivity|exact R12]].
           destruct R4 as [L1 L2]. pose proof (conns_ext_put s c k (kill k) Hg eq_refl) as [L3 L4]. split; [lia|].
           intros c1 k1 Hk1. destruct (L4 c1 k1 Hk1) as (k2 & Hk2 & Hl2). destruct (L2 c1 k2 Hk2) as (k3 & Hk3 & Hl3).
           exists k3. split; [exact Hk3|congruence].
      * apply (IH s thr (S c) s' d H HI); [|lia].
        intros c' k' Hlt Hg' Ha'. destruct (Nat.eq_dec c c') as [<-|Hn].
        -- rewrite Hg in Hg'. injection Hg' as <-. rewrite Ha' in E. cbn in E. apply Nat.eqb_neq in E. lia.
        -- apply (Hlow c' k'); [lia|exact Hg'|exact Ha'].
    + injection H as <- <-. split; [exact HI|]. split; [|split; [reflexivity|split; [apply conns_ext_refl|auto 12]]].
      intros c' k Hg' Ha. apply (Hlow c' k); [|exact Hg'|exact Ha].
      unfold getc in Hg. apply nth_error_None in Hg. apply getc_lt in Hg'. lia.
Qed.

Lemma finish_inv s thr o : Inv0 s -> exists s' d, finish (Ok (s, o)) thr = Ok (s', o ++ d) /\ Inv s' /\
  Forall (fun x => exists c0, x = ODtor thr c0 true) d /\ conns_ext s s' /\
  s_loops s' = s_loops s /\ s_calls s' = s_calls s /\ s_srv s' = s_srv s /\ s_cli s' = s_cli s /\ s_cliconn s' = s_cliconn s /\
  s_nio s' = s_nio s /\ s_readd s' = s_readd s.
Proof.
  intros HI. unfold finish. destruct (sweep s thr) as [s' d] eqn:E. unfold sweep in E.
  destruct (sweep_from_inv _ s thr 0 s' d E HI) as (R1 & R2 & R3 & R4 & R5 & R6 & R7 & R8 & R9 & R10 & R11 & R12); [intros; lia|lia|].
  rewrite R3. exists s', d. split; [reflexivity|]. split; [split; assumption|]. auto 12.
Qed.

(* ---- closing an op: the other connections by frame, holders by monotonicity ------------------------ *)
Lemma inv0_frame s s' c0 : Inv0 s -> GInv s' ->
  (forall c, c <> c0 -> getc s' c = getc s c /\ same_for s s' c) ->
  (forall k, getc s' c0 = Some k -> CInv s' c0 k) -> Inv0 s'.
Proof.
  intros [G HC] G' Hfr Hc0. split; [exact G'|]. intros c k Hg.
  destruct (Nat.eq_dec c c0) as [->|Hn]; [apply Hc0, Hg|].
  destruct (Hfr c Hn) as [Hgc Hsf]. rewrite Hgc in Hg.
  apply (same_for_cinv s s' c k Hsf Hg); [rewrite Hgc; exact Hg|apply HC, Hg].
Qed.

Lemma held_mono s s' : Held s ->
  (forall c k', getc s' c = Some k' -> k_alive k' = true ->
     exists k, getc s c = Some k /\ k_alive k = true /\ holders s c <= holders s' c) -> Held s'.
Proof.
  intros H Hm c k' Hg Ha. destruct (Hm c k' Hg Ha) as (k & Hk & Hak & Hle). specialize (H c k Hk Hak). lia.
Qed.

(* ---- Channel::update ------------------------------------------------------------------------------ *)
Lemma chan_update_fields readd k wr rd :
  let k' := chan_update readd k wr rd in
  k_st k' = k_st k /\ k_wr k' = wr /\ k_rd k' = rd /\ k_rflag k' = k_rflag k /\ k_added k' = true /\
  k_loop k' = k_loop k /\ k_alive k' = k_alive k /\ k_ccb k' = k_ccb k /\ k_mapped k' = k_mapped k /\
  k_urefs k' = k_urefs k /\ k_delayed k' = k_delayed k /\ k_fin k' = k_fin k /\ k_ups k' = k_ups k /\
  k_downs k' = k_downs k /\ k_dtors k' = k_dtors k /\ k_closes k' = k_closes k /\ k_pidx k' <> PNew.
Proof.
  unfold chan_update. destruct (k_pidx k); destruct (negb (wr || rd)); destruct readd; cbn; repeat split; discriminate.
Qed.

Lemma chan_update_poller readd k wr rd : poller_ok readd (chan_update readd k wr rd).
Proof.
  unfold poller_ok, chan_update, k_none.
  destruct (k_pidx k); destruct (wr || rd) eqn:E; destruct readd; cbn [negb andb set_chan k_added k_pidx k_wr k_rd];
    rewrite ?E; cbn; repeat split; intros; try discriminate; try reflexivity; try congruence.
Qed.

(* ---- a connection changes without leaving its phase ------------------------------------------------ *)
Lemma phase_local s s' c k k' :
  phase s c k ->
  (k_st k' = k_st k \/ (up_k k /\ up_k k')) ->
  k_added k' = k_added k -> k_mapped k' = k_mapped k -> k_ccb k' = k_ccb k -> k_loop k' = k_loop k ->
  s_srv s' = s_srv s -> s_cli s' = s_cli s -> s_cliconn s' = s_cliconn s ->
  todoN (isE c) s' = todoN (isE c) s -> todoN (isR c) s' = todoN (isR c) s -> todoN (isD c) s' = todoN (isD c) s ->
  todoN (isF c) s <= todoN (isF c) s' -> (k_st k = Connecting -> todoN (isF c) s' = todoN (isF c) s) ->
  (forall x, first_life c (loop_todo s (k_loop k)) = Some x -> first_life c (loop_todo s' (k_loop k)) = Some x) ->
  (1 <= k_urefs k -> 1 <= k_urefs k' \/ 1 <= todoN (isF c) s') ->
  phase s' c k'.
Proof.
  intros Hp Hst Ha Hm Hcb Hl Hsrv Hcli Hcc HE HR HD HF HFc Hfl Hu.
  assert (Hup : up_k k -> up_k k').
  { intros H. destruct Hst as [E|[_ H']]; [unfold up_k in *; rewrite E; exact H|exact H']. }
  unfold phase, owner_alive in *. rewrite HE, HR, HD, Ha, Hm, Hcb, Hl, Hsrv, Hcli, Hcc.
  assert (Hbody : forall P : Prop, (up_k k -> P) -> up_k k -> P) by auto.
  destruct (k_st k) eqn:Ek.
  - destruct Hst as [E|[[E|E] _]]; try congruence. rewrite E.
    destruct Hp as (H1 & H2 & H3 & H4 & H5 & H6 & H7). rewrite (HFc eq_refl). auto 10.
  - assert (Hu' : up_k k') by (apply Hup; left; exact Ek).
    destruct Hp as (H1 & H2 & H3 & H4).
    assert (Hgoal : k_added k = true /\ todoN (isE c) s = 0 /\ todoN (isR c) s = 0 /\
      (k_mapped k = true /\ todoN (isD c) s = 0 /\ match k_ccb k with CbServer => s_srv s = true | CbClient => s_cli s = true /\ s_cliconn s = Some c | CbDetail => False end \/
       k_mapped k = false /\ todoN (isD c) s = 1 /\ k_ccb k = CbServer /\ s_srv s = false /\ first_life c (loop_todo s' (k_loop k)) = Some LD \/
       k_mapped k = false /\ todoN (isD c) s = 0 /\ k_ccb k = CbDetail /\ (1 <= k_urefs k' \/ 1 <= todoN (isF c) s'))).
    { repeat (split; [assumption|]).
      destruct H4 as [H4|[(A1 & A2 & A3 & A4 & A5)|(A1 & A2 & A3 & A4)]].
      - left. exact H4.
      - right. left. auto 10.
      - right. right. repeat (split; [assumption|]). destruct A4 as [A4|A4]; [apply Hu, A4|right; lia]. }
    destruct Hu' as [E|E]; rewrite E; exact Hgoal.
  - assert (Hu' : up_k k') by (apply Hup; right; exact Ek).
    destruct Hp as (H1 & H2 & H3 & H4).
    assert (Hgoal : k_added k = true /\ todoN (isE c) s = 0 /\ todoN (isR c) s = 0 /\
      (k_mapped k = true /\ todoN (isD c) s = 0 /\ match k_ccb k with CbServer => s_srv s = true | CbClient => s_cli s = true /\ s_cliconn s = Some c | CbDetail => False end \/
       k_mapped k = false /\ todoN (isD c) s = 1 /\ k_ccb k = CbServer /\ s_srv s = false /\ first_life c (loop_todo s' (k_loop k)) = Some LD \/
       k_mapped k = false /\ todoN (isD c) s = 0 /\ k_ccb k = CbDetail /\ (1 <= k_urefs k' \/ 1 <= todoN (isF c) s'))).
    { repeat (split; [assumption|]).
      destruct H4 as [H4|[(A1 & A2 & A3 & A4 & A5)|(A1 & A2 & A3 & A4)]].
      - left. exact H4.
      - right. left. auto 10.
      - right. right. repeat (split; [assumption|]). destruct A4 as [A4|A4]; [apply Hu, A4|right; lia]. }
    destruct Hu' as [E|E]; rewrite E; exact Hgoal.
  - destruct Hst as [E|[[E|E] _]]; try congruence. rewrite E. exact Hp.
Qed.

Lemma cinv_alive s s' c k k' :
  CInv s c k -> k_alive k = true -> k_alive k' = true ->
  s_nio s' = s_nio s -> s_readd s' = s_readd s ->
  k_loop k' = k_loop k -> k_ccb k' = k_ccb k \/ (k_ccb k' <> CbServer /\ k_loop k = 0) ->
  (~ up_k k' -> k_wr k' = false /\ k_rd k' = false) ->
  counters_ok k' -> poller_ok (s_readd s) k' -> phase s' c k' ->
  k_dtors k' = k_dtors k -> k_closes k' = k_closes k -> CInv s' c k'.
Proof.
  intros [Hl Hi Hc Hp Hph Hd Hdt] Ha Ha' Hn Hr Hlo Hcb Hidle Hcnt Hpoll Hphase Hd1 Hd2.
  constructor.
  - rewrite Hn, Hlo. destruct Hl as [L1 L2]. split; [exact L1|]. intros Hx.
    destruct Hcb as [E|[_ E]]; [apply L2; congruence|exact E].
  - intros _. exact Hidle.
  - intros _. exact Hcnt.
  - intros _. rewrite Hr. exact Hpoll.
  - intros _. exact Hphase.
  - intros Hx. congruence.
  - rewrite Ha', Hd1, Hd2. rewrite Ha in Hdt. exact Hdt.
Qed.

Definition step_ok (s : sys) (o : op) : Prop :=
  match step true s o with Ok (s', _) => Inv s' | Rejected => True | Fault => False end.

(* the record of the acted connection is replaced, nothing else *)
Lemma put_only s c k k' : Inv s -> getc s c = Some k -> k_alive k = true ->
  GInv (put s c k') -> CInv (put s c k') c k' -> k_alive k' = true ->
  (if k_mapped k then 1 else 0) + k_urefs k <= (if k_mapped k' then 1 else 0) + k_urefs k' ->
  Inv (put s c k').
Proof.
  intros [HI HH] Hg Ha G' HC' Ha' Hle.
  assert (Hlt : c < length (s_conns s)) by (eapply getc_lt, Hg).
  split.
  - apply (inv0_frame s _ c HI G').
    + intros c1 Hn. split; [apply getc_put_neq; auto|apply same_for_put].
    + intros k1 Hk1. rewrite getc_put_eq in Hk1 by exact Hlt. injection Hk1 as <-. exact HC'.
  - apply (held_mono s _ HH). intros c1 k1 Hg1 Ha1. destruct (Nat.eq_dec c c1) as [<-|Hn].
    + exists k. split; [exact Hg|]. split; [exact Ha|].
      rewrite getc_put_eq in Hg1 by exact Hlt. injection Hg1 as <-.
      rewrite (holders_eq s c k Hg), (holders_eq (put s c k') c k' (getc_put_eq s c k' Hlt)).
      change (s_calls (put s c k')) with (s_calls s). change (allN (holds c) (put s c k')) with (allN (holds c) s). lia.
    + rewrite getc_put_neq in Hg1 by exact Hn. exists k1. split; [exact Hg1|]. split; [exact Ha1|].
      rewrite (holders_eq s c1 k1 Hg1). rewrite (holders_eq (put s c k') c1 k1) by (rewrite getc_put_neq by exact Hn; exact Hg1).
      change (s_calls (put s c k')) with (s_calls s). change (allN (holds c1) (put s c k')) with (allN (holds c1) s). lia.
Qed.

Lemma step_UGrab s c : Inv s -> step_ok s (UGrab c).
Proof.
  intros HI. unfold step_ok, step, on_conn. destruct (getc s c) as [k|] eqn:Hg; [|exact I].
  destruct (k_alive k && negb (cstate_eqb (k_st k) Connecting)) eqn:E; [|exact I]. cbn [ret].
  apply andb_prop in E as [Ha _]. destruct HI as [[G HC] HH] eqn:EI.
  set (k' := set_own k (k_ccb k) (k_mapped k) (S (k_urefs k)) (k_delayed k)).
  apply (put_only s c k k' (conj (conj G HC) HH) Hg Ha); [| |exact Ha|cbn; lia].
  - apply (ginv_put s c k k' G Hg eq_refl eq_refl). intros Hc.
    destruct (gi_cli s G c Hc) as (_ & k1 & Hk1 & _ & H2 & H3 & H4). rewrite Hg in Hk1. injection Hk1 as <-. auto.
  - pose proof (HC c k Hg) as HCk.
    apply (cinv_alive s (put s c k') c k k' HCk Ha Ha eq_refl eq_refl eq_refl (or_introl eq_refl));
      [apply (ci_idle s c k HCk Ha)|apply (ci_cnt s c k HCk Ha)|apply (ci_poll s c k HCk Ha)| |reflexivity|reflexivity].
    apply (phase_local s (put s c k') c k k' (ci_phase s c k HCk Ha)); auto. cbn. lia.
Qed.

(* a connection is replaced by a locally modified one (same owner entry, same phase) *)
Lemma put_local s c k k' : Inv0 s -> getc s c = Some k -> k_alive k = true -> k_alive k' = true ->
  k_loop k' = k_loop k -> k_ccb k' = k_ccb k -> k_mapped k' = k_mapped k -> k_added k' = k_added k ->
  (k_st k' = k_st k \/ (up_k k /\ up_k k')) ->
  (1 <= k_urefs k -> 1 <= k_urefs k' \/ 1 <= todoN (isF c) s) ->
  (~ up_k k' -> k_wr k' = false /\ k_rd k' = false) ->
  counters_ok k' -> poller_ok (s_readd s) k' ->
  k_dtors k' = k_dtors k -> k_closes k' = k_closes k ->
  Inv0 (put s c k').
Proof.
  intros [G HC] Hg Ha Ha' Hl Hcb Hm Had Hst Hu Hidle Hcnt Hpoll Hd1 Hd2.
  assert (Hlt : c < length (s_conns s)) by (eapply getc_lt, Hg).
  pose proof (HC c k Hg) as HCk.
  apply (inv0_frame s _ c (conj G HC)).
  - apply (ginv_put s c k k' G Hg Hl); [congruence|]. intros Hc.
    destruct (gi_cli s G c Hc) as (_ & k1 & Hk1 & _ & H2 & H3 & H4). rewrite Hg in Hk1. injection Hk1 as <-.
    split; [congruence|]. split; [congruence|]. destruct Hst as [E|[_ E]]; [unfold up_k in *; rewrite E; exact H4|exact E].
  - intros c1 Hn. split; [apply getc_put_neq; auto|apply same_for_put].
  - intros k1 Hk1. rewrite getc_put_eq in Hk1 by exact Hlt. injection Hk1 as <-.
    apply (cinv_alive s (put s c k') c k k' HCk Ha Ha' eq_refl eq_refl Hl (or_introl Hcb) Hidle Hcnt Hpoll); [|exact Hd1|exact Hd2].
    apply (phase_local s (put s c k') c k k' (ci_phase s c k HCk Ha)); auto.
Qed.

Lemma held_put s c k k' : Held s -> getc s c = Some k -> k_alive k = true ->
  (if k_mapped k then 1 else 0) + k_urefs k <= (if k_mapped k' then 1 else 0) + k_urefs k' ->
  Held (put s c k').
Proof.
  intros HH Hg Ha Hle. assert (Hlt : c < length (s_conns s)) by (eapply getc_lt, Hg).
  apply (held_mono s _ HH). intros c1 k1 Hg1 Ha1. destruct (Nat.eq_dec c c1) as [<-|Hn].
  - exists k. split; [exact Hg|]. split; [exact Ha|].
    rewrite getc_put_eq in Hg1 by exact Hlt. injection Hg1 as <-.
    rewrite (holders_eq s c k Hg), (holders_eq (put s c k') c k' (getc_put_eq s c k' Hlt)).
    change (s_calls (put s c k')) with (s_calls s). change (allN (holds c) (put s c k')) with (allN (holds c) s). lia.
  - rewrite getc_put_neq in Hg1 by exact Hn. exists k1. split; [exact Hg1|]. split; [exact Ha1|].
    rewrite (holders_eq s c1 k1 Hg1). rewrite (holders_eq (put s c k') c1 k1) by (rewrite getc_put_neq by exact Hn; exact Hg1).
    change (s_calls (put s c k')) with (s_calls s). change (allN (holds c1) (put s c k')) with (allN (holds c1) s). lia.
Qed.

Ltac on_conn_start HI Hg Ha Hnc :=
  unfold step_ok, step, on_conn;
  match goal with |- match (match getc ?s ?c with _ => _ end) with _ => _ end =>
    destruct (getc s c) as [k|] eqn:Hg; [|exact I];
    destruct (k_alive k && negb (cstate_eqb (k_st k) Connecting)) eqn:E; [|exact I];
    apply andb_prop in E as [Ha Hnc]; apply negb_true_iff in Hnc
  end.

Lemma counters_disc k : counters_ok k -> up_k k -> counters_ok (set_life k Disconnecting (k_ups k) (k_downs k)).
Proof. unfold counters_ok, up_k. cbn. intros H [E|E]; rewrite E in H; exact H. Qed.

Lemma poller_set_life r k st u d : poller_ok r k -> poller_ok r (set_life k st u d).
Proof. intros H. exact H. Qed.

Lemma step_LShutdown s c : Inv s -> step_ok s (LShutdown c).
Proof.
  intros [HI HH]. on_conn_start HI Hg Ha Hnc. cbn [ret].
  destruct (cstate_eqb (k_st k) Connected) eqn:Ec; [|split; assumption].
  apply cs_eqb_true in Ec.
  set (k1 := set_life k Disconnecting (k_ups k) (k_downs k)).
  assert (Hup : up_k k) by (left; exact Ec).
  pose proof (proj2 HI c k Hg) as HCk.
  assert (Hk' : exists k', shutdown_in_loop k1 = k' /\ (k' = k1 \/ k' = set_fin k1)).
  { unfold shutdown_in_loop. destruct (k_wr k1); eauto. }
  destruct Hk' as (k' & -> & Hk').
  split.
  - apply (put_local s c k _ HI Hg Ha); destruct Hk' as [-> | ->]; cbn; auto;
      try (right; split; [exact Hup|right; reflexivity]);
      try (intros Hx; exfalso; apply Hx; right; reflexivity);
      try (apply (counters_disc k (ci_cnt s c k HCk Ha) Hup));
      try (apply (ci_poll s c k HCk Ha)).
  - apply (held_put s c k _ HH Hg Ha). destruct Hk' as [-> | ->]; cbn; lia.
Qed.

(* ---- queueing a functor that is not one of the life-cycle functors ---------------------------------- *)
Definition plain (t : task) : bool :=
  match t with TEstablish _ | TRemove _ | TDestroy _ | TForceClose _ => false | _ => true end.

Lemma plain_not_life c t : plain t = true ->
  isE c t = false /\ isR c t = false /\ isD c t = false /\ isF c t = false /\ life_of c t = None.
Proof. unfold life_of. destruct t; cbn; intros H; try discriminate; auto. Qed.

Lemma phase_transfer s s' c k :
  s_srv s' = s_srv s -> s_cli s' = s_cli s -> s_cliconn s' = s_cliconn s ->
  todoN (isE c) s' = todoN (isE c) s -> todoN (isR c) s' = todoN (isR c) s ->
  todoN (isD c) s' = todoN (isD c) s -> todoN (isF c) s' = todoN (isF c) s ->
  first_life c (loop_todo s' (k_loop k)) = first_life c (loop_todo s (k_loop k)) ->
  phase s c k -> phase s' c k.
Proof.
  intros H1 H2 H3 H4 H5 H6 H7 H8 Hp. unfold phase, owner_alive in *.
  rewrite H1, H2, H3, H4, H5, H6, H7, H8. exact Hp.
Qed.

Lemma enq_plain s l t : Inv0 s -> plain t = true -> placed s l t ->
  (task_strong t = true -> exists k, getc s (task_conn t) = Some k /\ k_alive k = true) ->
  Inv0 (enq s l t).
Proof.
  intros [G HC] Hpl Hplaced Hstrong.
  split; [apply ginv_enq; assumption|].
  intros c k Hg. rewrite getc_enq in Hg. pose proof (HC c k Hg) as HCk.
  destruct (about c t) eqn:Eab.
  - destruct (plain_not_life c t Hpl) as (HE & HR & HD & HF & Hlife).
    destruct (enq_fields s l t) as (F1 & F2 & F3 & F4 & F5 & F6).
    destruct (getl s l) as [v|] eqn:Ev; [|rewrite (enq_none s l t Ev); exact HCk].
    destruct HCk as [Hl Hi Hc Hp Hph Hd Hdt].
    constructor; auto.
    + rewrite F1. exact Hl.
    + rewrite F2. exact Hp.
    + intros Ha. apply (phase_transfer s (enq s l t) c k F3 F4 F5); try (rewrite (todoN_enq _ s l t v Ev), ?HE, ?HR, ?HD, ?HF; lia); [|apply Hph, Ha].
      destruct (Nat.eq_dec l (k_loop k)) as [<-|Hn].
      * rewrite (loop_todo_enq_eq s l t v Ev). apply first_life_snoc_none, Hlife.
      * rewrite loop_todo_enq_neq by exact Hn. reflexivity.
    + intros Ha. specialize (Hd Ha). rewrite (holders_eq s c k Hg) in Hd.
      rewrite (holders_eq (enq s l t) c k) by (rewrite getc_enq; exact Hg). rewrite F6, (allN_enq _ s l t v Ev).
      assert (Hh : holds c t = false).
      { unfold holds. destruct (task_strong t) eqn:Es; [|apply andb_false_r].
        destruct (Hstrong eq_refl) as (k1 & Hk1 & Ha1).
        assert (Ec : task_conn t = c) by (destruct t; cbn in Eab; try discriminate; apply Nat.eqb_eq, Eab).
        rewrite Ec, Hg in Hk1. injection Hk1 as <-. congruence. }
      rewrite Hh. lia.
  - apply (same_for_cinv s (enq s l t) c k (same_for_enq s l t c Eab) Hg); [rewrite getc_enq; exact Hg|exact HCk].
Qed.

Lemma held_enq s l t : Held s -> Held (enq s l t).
Proof.
  intros HH. apply (held_mono s _ HH). intros c k Hg Ha. rewrite getc_enq in Hg.
  exists k. split; [exact Hg|]. split; [exact Ha|].
  rewrite (holders_eq s c k Hg), (holders_eq (enq s l t) c k) by (rewrite getc_enq; exact Hg).
  destruct (enq_fields s l t) as (_ & _ & _ & _ & _ & F6). rewrite F6.
  destruct (getl s l) as [v|] eqn:Ev; [rewrite (allN_enq _ s l t v Ev); lia|rewrite (enq_none s l t Ev); lia].
Qed.
