(* Link_Properties: the cross-model links.  Only statements, closed by [exact], each followed by
   Print Assumptions, and non-vacuity examples.

   Each property of the framework has its own model; where one model abstracts what another makes
   concrete, the justification used to be prose ("abstract view justified by C10").  The theorems
   below make those justifications machine-checked.  They rest on the component models only
   (Conn_Model / C10_Model / ...), which are tied to the C++ by their own checks (bin/check C01,
   C10, ...): no new tie to /repo is introduced here, only the composition is new.

   L1  Connection over Buffer: Conn_Model (C01/C02/C03/C11/C13) over two C10 Buffers.
   L2  One EventLoop iteration over its parts: C09's iteration, C04's functor queue / wake-up
       protocol, C06's TimerQueue.
   L3  Codec over connection: C18's stream decoder as the message callback of C01's connection. *)
From Coq Require Import List ZArith Lia Bool Arith NArith.
From Coq.Strings Require Import Byte.
From Muduo Require C10_Model C10_Proofs.
From Muduo Require Gen_C04 C09_Witness.
From Muduo Require Import Link_LoopQueue Link_LoopTimer.
From Muduo Require C18_Model.
From Muduo Require Import Link_CodecConn.
From Muduo Require Import Conn_Model Conn_Proofs Conn_Trace Link_ConnBuf_Model Link_ConnBuf.
Import ListNotations.

(* ========================================================================================== *)
(* L1. TcpConnection over its two Buffers                                                       *)
(* ========================================================================================== *)
(* Concrete machine (Link_ConnBuf_Model): state = (ctl, obuf, ibuf); ctl = the control fields of
   Conn_Model (its outb / inb fields dead), obuf / ibuf = C10_Model.buf (vector, readerIndex_,
   writerIndex_).  c_step performs exactly the Buffer calls of TcpConnection.cc (sendInLoop:
   readableBytes / append(data+nwrote, remaining); handleWrite: peek+readableBytes / retrieve(n) /
   readableBytes; handleRead: readFd, branches on its return value; the message callback's
   retrieve(n) / retrieveAll()); a call C10 does not accept makes the step Fault.
   abs forgets vector and indices: outb := readable obuf, inb := readable ibuf.
   bufs_ok c := both buffers are reachable Buffer states (C10_Proofs.reach).
   abs_op c o := the Conn_Model op a concrete op amounts to (CRead (KData avail) is
   EvReadData (first readFd_capacity bytes of avail), or EvReadEOF when that is empty).        *)

(* HEADLINE (refinement, concrete => abstract): whatever the concrete connection does in one
   step, Conn_Model does on the abstraction - same result kind, same events - and both buffers
   remain reachable Buffer states. *)
Theorem L1_conn_refines_over_buffers : forall c o, bufs_ok c -> cop_wf o = true ->
  match c_step c o with
  | Ok (c', e) => step (abs c) (abs_op c o) = Ok (abs c', e) /\ bufs_ok c'
  | Rejected => step (abs c) (abs_op c o) = Rejected
  | Fault => step (abs c) (abs_op c o) = Fault
  end.
Proof. exact c_step_refines. Qed.
Print Assumptions L1_conn_refines_over_buffers.

(* the relation of the design text, spelled out *)
Theorem L1_relation_def : forall a c, R a c <->
  (B.readable (obuf c) = outb a /\ B.readable (ibuf c) = inb a /\
   BP.reach (obuf c, ibuf c) (outb a, inb a) /\
   st a = st (ctl c) /\ writing a = writing (ctl c) /\ rd_chan a = rd_chan (ctl c) /\
   rd_flag a = rd_flag (ctl c) /\ registered a = registered (ctl c) /\ hwm a = hwm (ctl c) /\
   has_wc a = has_wc (ctl c) /\ has_hwm a = has_hwm (ctl c) /\ wire a = wire (ctl c) /\
   fin a = fin (ctl c) /\ pending a = pending (ctl c) /\ chk a = chk (ctl c) /\
   delayed a = delayed (ctl c) /\ accepted a = accepted (ctl c) /\ consumed a = consumed (ctl c) /\
   delivered a = delivered (ctl c) /\ enq a = enq (ctl c) /\ ran a = ran (ctl c) /\
   ups a = ups (ctl c) /\ downs a = downs (ctl c)).
Proof. exact R_spelled. Qed.
Print Assumptions L1_relation_def.

(* HEADLINE (simulation, abstract => concrete): every accepted Conn_Model step from a state
   related to a concrete state is performed by the concrete machine: every Buffer call it makes
   is accepted by C10's guards (the step is Ok, neither Rejected nor Fault), the events are the
   same and the relation is re-established.  Side condition [fits]: an EvReadData d must fit into
   what readFd offers to readv (length d <= readFd_capacity inputBuffer_); Conn_Model allows any
   d, i.e. over-approximates the environment there. *)
Theorem L1_conn_simulated_over_buffers : forall a c o a' e, R a c -> fits c o = true ->
  step a o = Ok (a', e) ->
  exists c', c_step c (conc_op o) = Ok (c', e) /\ R a' c'.
Proof. exact c_step_simulates. Qed.
Print Assumptions L1_conn_simulated_over_buffers.

Theorem L1_refines_R : forall a c o, R a c -> cop_wf o = true ->
  match c_step c o with
  | Ok (c', e) => exists a', step a (abs_op c o) = Ok (a', e) /\ R a' c'
  | Rejected => step a (abs_op c o) = Rejected
  | Fault => step a (abs_op c o) = Fault
  end.
Proof. exact c_step_refines_R. Qed.
Print Assumptions L1_refines_R.

(* whole histories *)
Theorem L1_run_refines : forall ops c, bufs_ok c -> forallb cop_wf ops = true ->
  match c_run c ops with
  | Ok (c', e) => run (abs c) (abs_ops c ops) = Ok (abs c', e) /\ bufs_ok c'
  | Rejected => run (abs c) (abs_ops c ops) = Rejected
  | Fault => run (abs c) (abs_ops c ops) = Fault
  end.
Proof. exact c_run_refines. Qed.
Print Assumptions L1_run_refines.

(* TcpConnection never violates a precondition of Buffer (and no assert of TcpConnection.cc
   fires): no history of the concrete connection faults.  By construction of c_step, Fault is
   the result of any Buffer call of sendInLoop / handleWrite / handleRead that C10 rejects
   (documented precondition) or faults (bounds / internal assert). *)
Theorem L1_no_buffer_precondition_violated : forall mark wc hw ops, forallb cop_wf ops = true ->
  c_run (c_init mark wc hw) ops <> Fault.
Proof. exact c_run_no_fault. Qed.
Print Assumptions L1_no_buffer_precondition_violated.

(* the two Buffer calls with a precondition / internal assertion, individually *)
Theorem L1_sendInLoop_append_accepted : forall c d k, bufs_ok c ->
  exists c', c_sendInLoop c d k = Ok (c', snd (sendInLoop (abs c) d k)) /\
             abs c' = fst (sendInLoop (abs c) d k) /\ bufs_ok c'.
Proof. exact c_sendInLoop_ok. Qed.
Print Assumptions L1_sendInLoop_append_accepted.

Theorem L1_handleWrite_retrieve_accepted : forall c k, bufs_ok c ->
  exists c', c_handleWrite c k = Ok (c', snd (handleWrite (abs c) k)) /\
             abs c' = fst (handleWrite (abs c) k) /\ bufs_ok c'.
Proof. exact c_handleWrite_ok. Qed.
Print Assumptions L1_handleWrite_retrieve_accepted.

(* THE TRANSFER PRINCIPLE: every theorem about the reachable states of Conn_Model is a theorem
   about the readable contents of the two Buffers of every reachable concrete state
   (outb (abs c) = B.readable (obuf c), inb (abs c) = B.readable (ibuf c): L1_abs_fields), and
   the buffers are reachable Buffer states, so every C10 theorem applies to them. *)
Theorem L1_transfer : forall P : conn -> Prop,
  (forall a, reach a -> P a) -> forall c, c_reach c -> P (abs c).
Proof. exact transfer. Qed.
Print Assumptions L1_transfer.

Theorem L1_abs_fields : forall c,
  outb (abs c) = B.readable (obuf c) /\ inb (abs c) = B.readable (ibuf c) /\
  wire (abs c) = wire (ctl c) /\ st (abs c) = st (ctl c) /\ writing (abs c) = writing (ctl c) /\
  consumed (abs c) = consumed (ctl c) /\ delivered (abs c) = delivered (ctl c) /\
  accepted (abs c) = accepted (ctl c) /\ pending (abs c) = pending (ctl c) /\ fin (abs c) = fin (ctl c).
Proof. exact abs_fields. Qed.
Print Assumptions L1_abs_fields.

Theorem L1_reachable_buffers : forall c, c_reach c ->
  exists lo li, BP.reach (obuf c, ibuf c) (lo, li).
Proof. exact c_reach_buffers. Qed.
Print Assumptions L1_reachable_buffers.

Theorem L1_run_reaches : forall ops c c' e, c_reach c -> forallb cop_wf ops = true ->
  c_run c ops = Ok (c', e) -> c_reach c'.
Proof. exact c_run_reach. Qed.
Print Assumptions L1_run_reaches.

(* instances.  C01_outbound_stream_trace on the real buffer: for every history, what the peer
   read followed by the readable bytes of outputBuffer_ is the in-order concatenation of the
   blocks of the history's sendInLoops *)
Theorem L1_outbound_stream_on_buffer : forall mark wc hw ops c e, forallb cop_wf ops = true ->
  c_run (c_init mark wc hw) ops = Ok (c, e) ->
  wire (ctl c) ++ B.readable (obuf c) =
  flat_map step_block (trace (init mark wc hw) (abs_ops (c_init mark wc hw) ops)).
Proof. exact c_outbound_stream. Qed.
Print Assumptions L1_outbound_stream_on_buffer.

(* C01_inbound_stream_trace on the real buffer: what the user retrieved followed by the readable
   bytes of inputBuffer_ is the concatenation, over the handleReads of the history, of what
   readFd delivered; one message callback per non-empty delivery *)
Theorem L1_inbound_stream_on_buffer : forall mark wc hw ops c e, forallb cop_wf ops = true ->
  c_run (c_init mark wc hw) ops = Ok (c, e) ->
  consumed (ctl c) ++ B.readable (ibuf c) = c_reads (c_init mark wc hw) ops /\
  length (filter is_msg e) = c_nreads (c_init mark wc hw) ops.
Proof. exact c_inbound_stream. Qed.
Print Assumptions L1_inbound_stream_on_buffer.

Theorem L1_c_reads_def : forall c ops,
  c_reads c ops = match ops with
                  | [] => []
                  | o :: rest =>
                      (match o with CRead k => B.delivered (B.readFd_capacity (ibuf c)) k | _ => [] end)
                      ++ match c_step c o with Ok (c', _) => c_reads c' rest | _ => [] end
                  end.
Proof. intros c [|o rest]; reflexivity. Qed.
Print Assumptions L1_c_reads_def.

(* one handleRead: readFd's extrabuf path.  Exactly min(available, capacity) bytes are appended to
   inputBuffer_, capacity = writable + sizeof extrabuf when writable < sizeof extrabuf (65536),
   = writable otherwise; the output buffer is untouched; the callback sees the whole input *)
Theorem L1_handleRead_delivers : forall c avail, bufs_ok c ->
  rd_chan (ctl c) && registered (ctl c) = true ->
  let cap := B.readFd_capacity (ibuf c) in
  let n := Nat.min (length avail) cap in
  cap = (if B.writableBytes (ibuf c) <? B.kExtraBuf
         then B.writableBytes (ibuf c) + B.kExtraBuf else B.writableBytes (ibuf c)) /\
  (0 < n ->
   exists c', c_step c (CRead (B.KData avail)) = Ok (c', [EvMsg (length (B.readable (ibuf c)) + n)]) /\
              B.readable (ibuf c') = B.readable (ibuf c) ++ firstn n avail /\
              B.readable (obuf c') = B.readable (obuf c) /\
              delivered (ctl c') = delivered (ctl c) ++ firstn n avail).
Proof. exact c_handleRead_delivers. Qed.
Print Assumptions L1_handleRead_delivers.

(* C01_write_interest_iff_backlog on the real buffer *)
Theorem L1_write_interest_iff_buffer_nonempty : forall c, c_reach c ->
  st (ctl c) = Connected \/ st (ctl c) = Disconnecting ->
  (writing (ctl c) = true <-> B.readableBytes (obuf c) <> 0).
Proof. exact c_write_interest. Qed.
Print Assumptions L1_write_interest_iff_buffer_nonempty.

(* the outb / inb fields of the control part are dead: they do not influence what the concrete
   machine does, and they stay empty *)
Theorem L1_dead_fields : forall a ob ib x y o, bufs_ok (mkCC a ob ib) -> cop_wf o = true ->
  match c_step (mkCC a ob ib) o, c_step (mkCC (with_bufs a x y) ob ib) o with
  | Ok (c1, e1), Ok (c2, e2) => abs c1 = abs c2 /\ e1 = e2
  | Rejected, Rejected => True
  | Fault, Fault => True
  | _, _ => False
  end.
Proof. exact c_step_dead_fields. Qed.
Print Assumptions L1_dead_fields.

Theorem L1_dead_fields_empty : forall c, c_reach c -> outb (ctl c) = [] /\ inb (ctl c) = [].
Proof. exact c_reach_blank. Qed.
Print Assumptions L1_dead_fields_empty.

(* ---- non-vacuity -------------------------------------------------------------------------- *)
Definition l1_a : byte := "a"%byte.

(* a history with a partial direct write, a queued remainder drained by handleWrite, a foreign
   send through the functor queue, reads, both retrieve forms and the end of file *)
Definition l1_ops : list cop :=
  [ COp Establish;
    COp (Send [l1_a; l1_a; l1_a] (Accept 1));
    COp (FSendCheck 7); COp (FSendEnq 7 [l1_a; l1_a]); COp (RunOne AcceptAll);
    COp (EvWritable (Accept 3)); COp (EvWritable AcceptAll);
    CRead (B.KData [l1_a; l1_a; l1_a; l1_a]); COp (Retrieve 1); CRead (B.KErr 11%Z);
    CRead (B.KData [l1_a]); CRetrieveAll;
    COp Shutdown; CRead (B.KData []) ].

Example l1_ex_run :
  match c_run (c_init 100 true true) l1_ops with
  | Ok (c, e) =>
      length (wire (ctl c)) = 5 /\ B.readable (obuf c) = [] /\ B.readable (ibuf c) = [] /\
      length (consumed (ctl c)) = 5 /\ st (ctl c) = Disconnected /\
      e = [EvUp; EvMsg 4; EvErrorLogged; EvMsg 4; EvFin; EvDown]
  | _ => False
  end.
Proof. vm_compute. repeat split; reflexivity. Qed.

Example l1_ex_run_ok :
  exists c e, c_run (c_init 100 true true) l1_ops = Ok (c, e) /\ forallb cop_wf l1_ops = true /\
              length (wire (ctl c)) = 5 /\ length (consumed (ctl c)) = 5 /\ st (ctl c) = Disconnected.
Proof.
  destruct (c_run (c_init 100 true true) l1_ops) as [[c e]| |] eqn:E; try (vm_compute in E; discriminate).
  exists c, e. split; [reflexivity|]. vm_compute in E. injection E as <- <-. vm_compute. auto.
Qed.

(* the extrabuf path: a fresh input buffer has 1024 writable bytes, so one handleRead of a
   descriptor holding 70000 bytes delivers 1024 + 65536 = 66560 of them *)
Example l1_ex_spill :
  match c_run (c_init 100 false false)
              [COp Establish; CRead (B.KData (repeat l1_a (Z.to_nat 70000)))] with
  | Ok (c, e) => (B.readableBytes (ibuf c) =? Z.to_nat 66560) && (length e =? 2)
  | _ => false
  end = true.
Proof. vm_compute. reflexivity. Qed.

(* the hypotheses of the simulation theorem are inhabited: the initial states are related *)
Example l1_ex_R : R (init 100 true true) (c_init 100 true true).
Proof. rewrite <- abs_c_init. apply R_abs. apply c_init_ok. Qed.

(* a user's retrieve beyond readableBytes() is rejected (the user's violation, not the library's) *)
Example l1_ex_user_violation :
  c_run (c_init 100 false false) [COp Establish; CRead (B.KData [l1_a]); COp (Retrieve 2)] = Rejected.
Proof. vm_compute. reflexivity. Qed.

(* ========================================================================================== *)
(* L2. One EventLoop iteration (C09) over the functor queue (C04) and the TimerQueue (C06)      *)
(* ========================================================================================== *)
(* Module names: L = C04_Model, LP = C04_Proofs, P = C09_Model, PQ = C09_Proofs,
   PL = C09_ProofsPoll, PP = C09_ProofsLoop, T = C06_Model, TH = C06_Hist.                       *)

(* ---- L2a: the queue / wake-up part of C09's iteration and C04's micro-step system ---------- *)
(* the queue view of ANY successful C09 iteration (any back-end S/step, channels, callbacks,
   Channel-API calls): the batch is the queue at poll time followed by what the callbacks queued,
   the left-over queue is what the batch queued, the wake-up counter is what the callbacks'
   effects left plus one per functor queued where queueInLoop's guard says so *)
Theorem L2a_iteration_queue_view :
  forall S step h hq fb runs eff qw wfd tfd st e pending choice st' e' pend' act log ran,
  P.loop_iter_full_env S step h hq fb runs eff qw wfd tfd st e pending choice
    = P.Ok (st', e', pend', (act, log, ran)) ->
  (ran, pend', P.k_wake e') =
  q_iter qw fb (P.k_wake (P.apply_effects eff log e)) pending (flat_map (fun ck => hq (fst ck) (snd ck)) log).
Proof. exact c09_iteration_queue_view. Qed.
Print Assumptions L2a_iteration_queue_view.

Theorem L2a_q_iter_def : forall qw fb w1 pending hqs,
  q_iter qw fb w1 pending hqs =
  (pending ++ hqs, P.functors_queued fb (pending ++ hqs),
   (w1 + (if qw true false true then N.of_nat (length hqs) else 0)
       + (if qw true true true then N.of_nat (length (P.functors_queued fb (pending ++ hqs))) else 0))%N).
Proof. reflexivity. Qed.
Print Assumptions L2a_q_iter_def.

(* HEADLINE.  The queue behaviour C09 attributes to one iteration IS a schedule of C04's
   transition system: from a C04 state related to C09's (environment, queue) pair - loop thread
   about to poll, same wake-up counter, same queue - the loop thread alone (labels TLoop / TRead
   only: steps L3..L7 of DESIGN B.2) reaches the end of its batch having run exactly C09's batch
   [ran] in order, with C09's left-over queue and C09's wake-up counter.  Hence every state C09's
   iteration view passes through is a reachable state of C04's system and C04's theorems (at most
   once, FIFO, no lost wake-up, for ALL schedules) apply to it. *)
Theorem L2a_iteration_is_loop_thread_schedule :
  forall S step h hq fb runs eff wfd tfd sh scr q s st e pending choice st' e' pend' act log ran,
  P.loop_iter_full_env S step h hq fb runs eff (L.wake sh) wfd tfd st e pending choice
    = P.Ok (st', e', pend', (act, log, ran)) ->
  Rq s e pending ->
  pure_q scr q -> (forall i, In i ran -> snd (fb i) = q i) ->
  flat_map (fun ck => hq (fst ck) (snd ck)) log = (match L.evq (L.sg s) with k :: _ => q k | [] => [] end) ->
  L.poll_ready (L.sg s) = true ->
  P.k_wake (P.apply_effects eff log e) = 0%N ->
  exists labs s', loop_only labs /\ L.run sh scr s labs = Some s' /\
    L.pc s' = L.LTest /\ L.lcode s' = [] /\
    L.calling (L.sg s') = false /\ L.looping (L.sg s') = true /\
    L.fcode s' = L.fcode s /\ L.lnext s' = L.lnext s /\ L.quit (L.sg s') = L.quit (L.sg s) /\
    L.evq (L.sg s') = tl (L.evq (L.sg s)) /\
    N.of_nat (L.evfd (L.sg s')) = P.k_wake e' /\
    L.pending (L.sg s') = pend' /\
    L.execq (L.log (L.sg s')) = L.execq (L.log (L.sg s)) ++ ran.
Proof. exact c09_iteration_is_c04_schedule. Qed.
Print Assumptions L2a_iteration_is_loop_thread_schedule.

Theorem L2a_relation_def : forall s e p, Rq s e p <->
  (L.pc s = L.LPoll /\ L.calling (L.sg s) = false /\ L.looping (L.sg s) = true /\
   N.of_nat (L.evfd (L.sg s)) = P.k_wake e /\ L.pending (L.sg s) = p).
Proof. intros s e p. split; [intros [A B C D E]; auto|intros (A & B & C & D & E); constructor; assumption]. Qed.
Print Assumptions L2a_relation_def.

(* the C04 side on its own: what the loop thread does from the poll to the end of the batch *)
Theorem L2a_c04_iteration : forall sh scr q, pure_q scr q -> forall g c0 ln fc,
  L.calling g = false -> L.looping g = true -> L.poll_ready g = true ->
  let hqs := match L.evq g with k :: _ => q k | [] => [] end in
  let w1 := L.wake sh true false true in
  let w2 := L.wake sh true true true in
  let ran := L.pending g ++ hqs in
  let pend' := flat_map q ran in
  exists labs, loop_only labs /\
    L.run sh scr (L.mkSt g L.LPoll c0 ln fc) labs =
    Some (L.mkSt (L.mkG pend' ((if w1 then length hqs else 0) + (if w2 then length pend' else 0))
                        (tl (L.evq g)) (L.quit g) false true
                        (L.log g ++ qlog w1 0 hqs ++ blog w2 q ran))
                 L.LTest [] ln fc).
Proof. exact c04_iteration. Qed.
Print Assumptions L2a_c04_iteration.

(* after the batch: test quit_, poll again; the relation is re-established *)
Theorem L2a_next_poll : forall sh scr s e p,
  L.pc s = L.LTest -> L.quit (L.sg s) = false -> L.calling (L.sg s) = false -> L.looping (L.sg s) = true ->
  N.of_nat (L.evfd (L.sg s)) = P.k_wake e -> L.pending (L.sg s) = p ->
  exists s', L.step sh scr s L.TLoop = Some s' /\ Rq s' e p /\ L.sg s' = L.sg s /\ L.fcode s' = L.fcode s.
Proof. exact c04_test_to_poll. Qed.
Print Assumptions L2a_next_poll.

(* C09's external event XQueue i (a task queued from another thread between two iterations) is
   the foreign thread's two micro-steps of C04 while the loop thread is in poll *)
Theorem L2a_xqueue_is_foreign_microsteps : forall sh scr s e p i j rest,
  Rq s e p -> nth_error (L.fcode s) j = Some (L.MQueue i :: rest) ->
  exists s', L.run sh scr s [L.TF j; L.TF j] = Some s' /\
    Rq s' (fst (P.apply_ext (L.wake sh) (e, p) (P.XQueue i))) (snd (P.apply_ext (L.wake sh) (e, p) (P.XQueue i))) /\
    nth_error (L.fcode s') j = Some rest /\
    L.execq (L.log (L.sg s')) = L.execq (L.log (L.sg s)).
Proof. exact c09_xqueue_is_c04_foreign. Qed.
Print Assumptions L2a_xqueue_is_foreign_microsteps.

(* C09's run invariant pend_inv (C09_queued_task_wakes) is C04's NoStall (C04_no_stall) read at
   the poll; so it holds at every poll of EVERY schedule of C04's system *)
Theorem L2a_pend_inv_is_nostall : forall sh s e p, Rq s e p -> L.midwake sh s = false ->
  (LP.NoStall sh s <-> PP.pend_inv e p).
Proof. exact pend_inv_is_nostall. Qed.
Print Assumptions L2a_pend_inv_is_nostall.

Theorem L2a_pend_inv_all_schedules : forall sh scr prefix later progs s e p,
  L.wake_ok sh = true -> LP.reach sh scr (L.init prefix later progs) s ->
  Rq s e p -> L.midwake sh s = false -> PP.pend_inv e p.
Proof. exact c04_reach_pend_inv. Qed.
Print Assumptions L2a_pend_inv_all_schedules.

(* ---- L2b: the timer channel of C09's iteration is C06's TimerQueue -------------------------- *)
(* due tq := the timerfd is armed for an instant that has passed (the kernel's timerfd contract,
   as a definition); env_of w rd tq := the environment C09's poll sees: eventfd counter w, timerfd
   readable iff due tq, other descriptors rd *)
Theorem L2b_env_def : forall w rd tq,
  P.k_wake (env_of w rd tq) = w /\ P.k_rd (env_of w rd tq) = rd /\
  ((0 < P.k_texp (env_of w rd tq))%N <-> exists x, T.armed tq = Some x /\ (x <= T.clk tq)%Z).
Proof. intros w rd tq. split; [reflexivity|]. split; [reflexivity|]. apply env_of_texp. Qed.
Print Assumptions L2b_env_def.

(* HEADLINE: C09's last sentence and C06's last sentence as one statement.  In any combined state
   (poller reached by any history, the loop's two channels registered, functor queue p under the
   queue invariant, timer queue reached by any history): the next poll blocks IFF no functor
   wake-up is pending (counter 0), no armed instant of the timerfd has passed, and no other
   registered channel with interest is ready; then no functor is queued, and a registered timer
   means the timerfd is armed for a later instant no later than max(earliest deadline, last arming
   + 100 us floor); a registered timer whose deadline has passed keeps the poll from blocking. *)
Theorem L2_next_poll_blocks_iff : forall st sp wc tc wfd tfd w rd (p : list nat) tq,
  PQ.reachEC st sp -> PP.loop_channels sp wc tc wfd tfd -> (p <> [] -> (0 < w)%N) -> tq_reach tq ->
  let e := env_of w rd tq in
  (P.ep_full st (P.env_ready wfd tfd e) = [] <-> (w = 0%N /\ ~ due tq /\ PP.others_quiet sp wc tc e)) /\
  (P.ep_full st (P.env_ready wfd tfd e) = [] ->
     p = [] /\
     forall d a r, T.timers tq = (d, a) :: r ->
       exists x, T.armed tq = Some x /\ (T.clk tq < x <= Z.max d (T.arm_at tq + floor_val))%Z) /\
  (forall d a, In (d, a) (T.timers tq) -> (d <= T.clk tq)%Z -> (T.arm_at tq + floor_val <= T.clk tq)%Z ->
     P.ep_full st (P.env_ready wfd tfd e) <> []).
Proof. exact combined_blocks_iff. Qed.
Print Assumptions L2_next_poll_blocks_iff.

Theorem L2_next_poll_blocks_iff_poll : forall st sp wc tc wfd tfd w rd (p : list nat) tq choice,
  PL.reachPC st sp -> PP.loop_channels sp wc tc wfd tfd -> (p <> [] -> (0 < w)%N) -> tq_reach tq ->
  let e := env_of w rd tq in
  let blocks := P.pp_step_current st (P.Poll (P.env_ready wfd tfd e) choice) = P.Ok (st, []) in
  (blocks <-> (w = 0%N /\ ~ due tq /\ PP.others_quiet sp wc tc e)) /\
  (blocks ->
     p = [] /\
     forall d a r, T.timers tq = (d, a) :: r ->
       exists x, T.armed tq = Some x /\ (T.clk tq < x <= Z.max d (T.arm_at tq + floor_val))%Z) /\
  (forall d a, In (d, a) (T.timers tq) -> (d <= T.clk tq)%Z -> (T.arm_at tq + floor_val <= T.clk tq)%Z ->
     ~ blocks).
Proof. exact combined_blocks_iff_poll. Qed.
Print Assumptions L2_next_poll_blocks_iff_poll.

(* a poll that has something to return returns at least one channel: an iteration that does not
   block dispatches something, whatever else is registered *)
Theorem L2_unblocked_poll_returns_a_channel : forall st sp ready choice,
  PQ.reachEC st sp -> P.ep_full st ready <> [] ->
  exists st' act, P.ep_step_current st (P.Poll ready choice) = P.Ok (st', act) /\ act <> [].
Proof. exact poll_returns_something. Qed.
Print Assumptions L2_unblocked_poll_returns_a_channel.

(* HEADLINE (progress).  combined_iter = C09's whole iteration (epoll back-end of the current
   tree) in the environment env_of w rd tq, where the timer channel's read callback, if it ran, is
   C06's fire on tq.  If only the loop's own channels can be ready and the poll does not block,
   the iteration succeeds and makes progress: a callback runs (handleRead of the wake-up channel
   iff w > 0, TimerQueue::handleRead iff the timerfd is due); every functor queued at poll time
   runs, in order; the wake-up counter is consumed (a stale wake-up is not repeated); a due timerfd
   makes handleRead run the earliest timer, or - stale arming - re-arm for exactly
   max(earliest, now + floor); a timerfd that is not due leaves the timer queue untouched. *)
Theorem L2_unblocked_iteration_progress :
  forall h hq fb runs user qw wc tc wfd tfd st sp w rd p tq choice script,
  PQ.reachEC st sp -> PP.loop_channels sp wc tc wfd tfd ->
  PP.others_quiet sp wc tc (env_of w rd tq) ->
  runs wc = true -> runs tc = true -> (forall k, h wc k = []) -> (forall k, h tc k = []) ->
  tq_reach tq ->
  (forall log, (forall ck, In ck log -> ck = (wc, P.CbRead) \/ ck = (tc, P.CbRead)) ->
     P.functors_ok fb sp (p ++ flat_map (fun ck => hq (fst ck) (snd ck)) log)) ->
  (0 < w)%N \/ due tq ->
  exists st' e' p' tq' act log ran ev,
    combined_iter h hq fb runs user qw wc tc wfd tfd st w rd p tq choice script
      = Some (st', e', p', tq', (act, log, ran, ev)) /\
    PQ.reachEC st' (P.spec_run sp (P.functors_ops fb ran)) /\
    log <> [] /\
    (In (wc, P.CbRead) log <-> (0 < w)%N) /\ (In (tc, P.CbRead) log <-> due tq) /\
    ran = p ++ flat_map (fun ck => hq (fst ck) (snd ck)) log /\
    p' = P.functors_queued fb ran /\
    P.k_wake e' = ((if qw true false true
                    then N.of_nat (length (flat_map (fun ck => hq (fst ck) (snd ck)) log)) else 0)
                   + (if qw true true true then N.of_nat (length p') else 0))%N /\
    (due tq ->
       T.fire tq script = T.Ok (tq', ev) /\
       forall d a r x, T.timers tq = (d, a) :: r -> T.armed tq = Some x ->
         ((d <= T.clk tq)%Z /\
            exists o t, T.hget a (T.heap tq) = Some o /\ In (T.ERun (T.o_seq o) d (T.clk tq) t) ev) \/
         ((T.clk tq < d)%Z /\ (x < d)%Z /\ TH.rlog ev = [] /\ T.timers tq' = T.timers tq /\
            T.clk tq' = T.clk tq /\ T.armed tq' = Some (Z.max d (T.clk tq + floor_val)))) /\
    (~ due tq -> tq' = tq /\ ev = []).
Proof. exact combined_progress. Qed.
Print Assumptions L2_unblocked_iteration_progress.

Theorem L2b_combined_iter_def : forall h hq fb runs user qw wc tc wfd tfd st w rd p tq choice script,
  combined_iter h hq fb runs user qw wc tc wfd tfd st w rd p tq choice script =
  match P.loop_iter_full_env P.ep P.ep_step_current h hq fb runs (PP.effects_current wc tc user) qw wfd tfd
          st (env_of w rd tq) p choice with
  | P.Ok (st', e', p', (act, log, ran)) =>
      if timer_fired tc log then
        match T.fire tq script with
        | T.Ok (tq', ev) => Some (st', e', p', tq', (act, log, ran, ev))
        | _ => None
        end
      else Some (st', e', p', tq, (act, log, ran, []))
  | _ => None
  end.
Proof. reflexivity. Qed.
Print Assumptions L2b_combined_iter_def.

(* what C09 assumes of the timer callback's effect on the environment (unread expirations := 0)
   is what C06's handleRead does: readTimerfd consumes the expiration, and at the end of
   handleRead a registered timer means the timerfd is armed for a later instant *)
Theorem L2b_timer_read_agrees : forall tq script tq' ev,
  (due tq -> T.armed (T.consume tq) = None) /\
  (tq_reach tq -> T.fire tq script = T.Ok (tq', ev) -> T.timers tq' <> [] -> ~ due tq').
Proof. intros. split; [apply consume_clears|apply fire_leaves_not_due]. Qed.
Print Assumptions L2b_timer_read_agrees.

(* ---- non-vacuity --------------------------------------------------------------------------- *)
Module W := Muduo.C09_Witness.

(* the loop's constructor state (timer channel 0 on fd 3, wake-up channel 1 on fd 4) *)
Lemma l2_ex_loop_state : exists st,
  PQ.reachEC st (P.spec_run P.spec0 W.w_loop_init) /\
  PP.loop_channels (P.spec_run P.spec0 W.w_loop_init) 1 0 4 3 /\
  forall e, PP.others_quiet (P.spec_run P.spec0 W.w_loop_init) 1 0 e.
Proof.
  destruct (PQ.run_reachEC W.w_loop_init P.ep_init P.spec0 PQ.reachEC_init W.w_loop_init_ok) as [st [outs [E R]]].
  exists st. split; [exact R|]. split.
  - split; [discriminate|]. split; exists false; vm_compute; reflexivity.
  - intros e c s H _ _ N1 N0. destruct c as [|[|c]]; [contradiction|contradiction|]. cbn in H. discriminate.
Qed.

(* a timer queue with one timer (deadline 5000, added at clock 1000): not due; after 5 ms: due *)
Definition l2_tq_ops : list T.op := [T.Cb (T.CAdd 5000 (-1) 16)].
Definition l2_tq_ops2 : list T.op := [T.Cb (T.CAdd 5000 (-1) 16); T.Cb (T.CTick 5000)].

Example l2_ex_blocked : exists st sp tq,
  PQ.reachEC st sp /\ PP.loop_channels sp 1 0 4 3 /\ tq_reach tq /\ T.timers tq <> [] /\
  P.ep_full st (P.env_ready 4 3 (env_of 0 (fun _ => 0%N) tq)) = [] /\
  exists x, T.armed tq = Some x /\ (T.clk tq < x)%Z.
Proof.
  destruct l2_ex_loop_state as (st & HR & HL & HQ).
  destruct (T.run (T.init 1000) l2_tq_ops) as [[tq evs]| |] eqn:E; try (vm_compute in E; discriminate).
  assert (Hreach : tq_reach tq) by (exists 1000%Z, l2_tq_ops, evs; exact E).
  vm_compute in E. injection E as <- _.
  exists st, (P.spec_run P.spec0 W.w_loop_init). eexists. split; [exact HR|]. split; [exact HL|].
  split; [exact Hreach|]. split; [discriminate|].
  split.
  - apply (combined_blocks_iff st _ 1 0 4 3 0%N (fun _ => 0%N) [] _ HR HL (fun H => False_ind _ (H eq_refl)) Hreach).
    split; [reflexivity|]. split; [|apply HQ]. intros (x & Hx & Hle). vm_compute in Hx. injection Hx as <-.
    vm_compute in Hle. apply Hle. reflexivity.
  - eexists. split; [vm_compute; reflexivity|]. vm_compute. reflexivity.
Qed.

Example l2_ex_due : exists tq, tq_reach tq /\ due tq /\ T.timers tq <> [].
Proof.
  destruct (T.run (T.init 1000) l2_tq_ops2) as [[tq evs]| |] eqn:E; try (vm_compute in E; discriminate).
  assert (Hreach : tq_reach tq) by (exists 1000%Z, l2_tq_ops2, evs; exact E).
  vm_compute in E. injection E as <- _. eexists. split; [exact Hreach|]. split.
  - eexists. split; [vm_compute; reflexivity|]. vm_compute. discriminate.
  - discriminate.
Qed.

(* the hypotheses of L2a are inhabited: C09_Witness' iteration "the timer callback queues functor
   7, which queues functor 8" against a C04 state with event 9 (script: queue 7) ready *)
Definition l2_q (n : nat) : list nat := match n with 9 => [7] | 7 => [8] | _ => [] end.
Definition l2_scr : L.scripts := fun n => map L.AQueue (l2_q n).
Definition l2_s : L.st := L.mkSt (L.mkG [] 0 [9] false false true []) L.LPoll [] [] [].
Definition l2_e : P.kenv := P.mkKenv 0 1 (fun _ => 0%N).

Definition l2_st0 : P.ep :=
  match P.ep_run_current P.ep_init W.w_loop_init with P.Ok (st, _) => st | _ => P.ep_init end.

Example l2_ex_queue_link : exists st' e' act log,
  P.loop_iter_full_env P.ep P.ep_step_current (fun _ _ => []) W.hq_ex W.fb_ex W.all_run
    (PP.effects_current 1 0 (fun _ _ e => e)) (L.wake Gen_C04.gen_shape) 4 3 l2_st0 l2_e [] []
    = P.Ok (st', e', [8], (act, log, [7])) /\
  Rq l2_s l2_e [] /\ pure_q l2_scr l2_q /\
  (forall i, In i [7] -> snd (W.fb_ex i) = l2_q i) /\
  flat_map (fun ck => W.hq_ex (fst ck) (snd ck)) log = (match L.evq (L.sg l2_s) with k :: _ => l2_q k | [] => [] end) /\
  L.poll_ready (L.sg l2_s) = true /\
  P.k_wake (P.apply_effects (PP.effects_current 1 0 (fun _ _ e => e)) log l2_e) = 0%N /\
  P.k_wake e' = 1%N.
Proof.
  destruct (P.loop_iter_full_env P.ep P.ep_step_current (fun _ _ => []) W.hq_ex W.fb_ex W.all_run
              (PP.effects_current 1 0 (fun _ _ e => e)) (L.wake Gen_C04.gen_shape) 4 3 l2_st0 l2_e [] [])
    as [[[[st' e'] p'] [[act log] ran]]| |] eqn:Eit; try (vm_compute in Eit; discriminate).
  vm_compute in Eit. injection Eit as <- <- <- <- <- <-.
  eexists _, _, _, _. split; [reflexivity|].
  split; [constructor; reflexivity|]. split; [intros n; reflexivity|].
  split; [intros i [<-|[]]; reflexivity|]. repeat split; vm_compute; reflexivity.
Qed.

(* ========================================================================================== *)
(* L3. A stream decoder (C18) as the message callback of a connection (C01)                     *)
(* ========================================================================================== *)
(* D = C18_Model.  Machine (Link_CodecConn): state = connection + the decoder's control state; the
   decoder's buffer IS the connection's input buffer.  KRead chunk = POLLIN with the kernel's read
   returning chunk: Conn_Model's EvReadData chunk, then the message callback = the decode loop on
   the whole buffered input, then Retrieve of exactly what the loop consumed.  KOp o = any other
   Conn_Model op (never a second retrieve by the user).                                          *)

(* generic: for any decoder whose loop leaves a suffix of its buffer (it consumes by
   Buffer::retrieve), every history gives the events and state of C18's chunk-fed decoder on the
   chunks the kernel delivered, the input buffer is the decoder's unconsumed rest, and the chunks
   concatenated are the delivered stream *)
Theorem L3_decoder_on_connection :
  forall (St Ev : Type) (dstep : St -> list byte -> D.sres St Ev),
  (forall s b evs s' r, dstep s b = D.SEmit evs s' r -> exists n, r = skipn n b) ->
  forall s0 mark wc hw ops k e v, forallb kop_wf ops = true ->
  k_run St Ev dstep (mkK (init mark wc hw) s0 false false) ops = Ok (k, e, v) ->
  (v, D.mkD (k_dst k) (inb (k_conn k)) (k_ab k) (k_oof k)) = D.feed_all dstep (D.init s0) (chunks_of ops) /\
  delivered (k_conn k) = concat (chunks_of ops).
Proof. exact decoder_on_connection. Qed.
Print Assumptions L3_decoder_on_connection.

(* the connection part of such a history is a Conn_Model history: C01 / C02 / C03 / C13 apply *)
Theorem L3_history_is_connection_history :
  forall (St Ev : Type) (dstep : St -> list byte -> D.sres St Ev) ops k k' e v,
  k_run St Ev dstep k ops = Ok (k', e, v) ->
  run (k_conn k) (conn_ops St Ev dstep k ops) = Ok (k_conn k', e).
Proof. exact k_run_is_conn_run. Qed.
Print Assumptions L3_history_is_connection_history.

(* HEADLINE: ProtobufCodecLite::onMessage on a TcpConnection.  Whatever way the kernel splits the
   peer's byte stream into reads, whatever else happens on the connection in between (sends,
   writable events, shutdown, pausing and resuming reads, functors): the messages - and the first
   error, if any - given to the codec's callbacks are C18's reference decoding of the byte stream
   received so far ([delivered], = the concatenation of the reads); the input buffer holds exactly
   the reference's unconsumed rest; retrieved ++ buffered = received; the decode loop never runs
   out of fuel.  = C01_inbound_stream_trace composed with C18_equals_reference (hence with
   C18_seg_invariant). *)
Theorem L3_codec_on_connection :
  forall (msg : Type) (parse : list byte -> option msg) (tag : list byte) mark wc hw ops k e v,
  forallb kop_wf ops = true ->
  k_run unit (D.cevent msg) (D.cstep msg parse tag) (mkK (init mark wc hw) tt false false) ops = Ok (k, e, v) ->
  let s := delivered (k_conn k) in
  s = concat (chunks_of ops) /\
  consumed (k_conn k) ++ inb (k_conn k) = s /\
  (let '(ms, er, rest) := D.ref_decode msg parse tag (S (length s)) s in
   v = map (@D.CMsg msg) ms ++ (match er with Some x => [@D.CErr msg x] | None => [] end) /\
   inb (k_conn k) = rest /\
   k_ab k = (match er with Some _ => true | None => false end) /\ k_oof k = false).
Proof. exact codec_on_connection. Qed.
Print Assumptions L3_codec_on_connection.

Theorem L3_k_step_def : forall (St Ev : Type) (dstep : St -> list byte -> D.sres St Ev) k chunk,
  k_step St Ev dstep k (KRead chunk) =
  match step (k_conn k) (EvReadData chunk) with
  | Ok (c1, e1) =>
      let (cevs, d') := on_message St Ev dstep (k_dst k) (k_ab k) (k_oof k) (inb c1) in
      match step c1 (Retrieve (length (inb c1) - length (D.d_buf d'))) with
      | Ok (c2, e2) => Ok (mkK c2 (D.d_st d') (D.d_abandoned d') (D.d_oof d'), e1 ++ e2, cevs)
      | Rejected => Rejected
      | Fault => Fault
      end
  | Rejected => Rejected
  | Fault => Fault
  end.
Proof. reflexivity. Qed.
Print Assumptions L3_k_step_def.

(* non-vacuity: one frame (tag "RPC0", payload 01 02) cut after 5 bytes - inside the tag - with a
   send in between: nothing after the first read, the message after the second, buffer empty *)
Definition l3_tag : list byte := ["R"; "P"; "C"; "0"]%byte.
Definition l3_payload : list byte := [x01; x02].
Definition l3_frame : list byte := D.encode l3_tag l3_payload.
Definition l3_ops : list kop :=
  [KOp Establish; KRead (firstn 5 l3_frame); KOp (Send [x07] AcceptAll); KRead (skipn 5 l3_frame)].

Example l3_ex_run : exists k e,
  k_run unit (D.cevent (list byte)) (D.cstep (list byte) Some l3_tag) (mkK (init 100 false false) tt false false) l3_ops
    = Ok (k, e, [D.CMsg l3_payload]) /\
  forallb kop_wf l3_ops = true /\ inb (k_conn k) = [] /\ length (consumed (k_conn k)) = 14 /\
  e = [EvUp; EvMsg 5; EvMsg 14].
Proof.
  destruct (k_run unit (D.cevent (list byte)) (D.cstep (list byte) Some l3_tag)
              (mkK (init 100 false false) tt false false) l3_ops) as [[[k e] v]| |] eqn:E;
    try (vm_compute in E; discriminate).
  vm_compute in E. injection E as <- <- <-. eexists _, _. split; [reflexivity|]. vm_compute. auto.
Qed.
