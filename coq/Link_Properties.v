(* Link_Properties: umbrella of the cross-model links; the statements live in
   Link_Properties_L1.v (Conn over Buffer), Link_Properties_L2.v (loop iteration over C04 / C06),
   Link_Properties_L3.v (codec over connection), which are independent of each other. *)
From Muduo Require Export Link_Properties_L1 Link_Properties_L2 Link_Properties_L3.
