(* C05_PoolSysProofs: EventLoopThreadPool::start() / ~EventLoopThreadPool over N embedded
   EventLoopThreads: every component of a reachable pool state is a reachable EventLoopThread state
   (so the per-thread theorems hold of every thread, for every schedule of the N+1 threads), start()
   and the destructor never dead-lock, and the destructor joins every thread. *)
From Coq Require Import List Bool Arith Lia.
Import ListNotations.
From Muduo Require Import C04_Model C04_Proofs C05_Model C05_Proofs C05_EltProofs C05_PoolSysModel.

Inductive preach (es : eshape) (sh : shape) (scr : scripts) (p0 : list elt) : list elt -> Prop :=
| preach0 : preach es sh scr p0 p0
| preachS : forall p lab p', preach es sh scr p0 p -> pstep es sh scr p lab = Some p' -> preach es sh scr p0 p'.

Lemma upd_length : forall A (l : list A) i x, length (upd l i x) = length l.
Proof. induction l as [|a l IH]; destruct i; cbn; intros; auto. Qed.

Lemma pstep_inv : forall es sh scr p lab p', pstep es sh scr p lab = Some p' ->
  exists i l e e', nth_error p i = Some e /\ estep es sh scr e l = Some e' /\ p' = upd p i e' /\
    ((lab = PO i /\ l = EO /\ owner_guard p i e = true) \/ (lab = PC i /\ l = EC) \/
     (lab = PCRead i /\ l = ECRead) \/ (lab = PSpur i /\ l = ESpur)).
Proof.
  intros es sh scr p lab p' H. destruct lab as [i|i|i|i]; unfold pstep, pstep1 in H;
    destruct (nth_error p i) as [e|] eqn:N; try discriminate.
  - destruct (owner_guard p i e) eqn:G; [|discriminate].
    destruct (estep es sh scr e EO) as [e'|] eqn:S; [|discriminate]. injection H as <-.
    exists i, EO, e, e'. auto 8.
  - destruct (estep es sh scr e EC) as [e'|] eqn:S; [|discriminate]. injection H as <-.
    exists i, EC, e, e'. auto 8.
  - destruct (estep es sh scr e ECRead) as [e'|] eqn:S; [|discriminate]. injection H as <-.
    exists i, ECRead, e, e'. auto 8.
  - destruct (estep es sh scr e ESpur) as [e'|] eqn:S; [|discriminate]. injection H as <-.
    exists i, ESpur, e, e'. auto 10.
Qed.

(* every thread of a reachable pool state is in a reachable EventLoopThread state *)
Theorem preach_components : forall es sh scr specs p, preach es sh scr (pinit specs) p ->
  length p = length specs /\
  forall i e, nth_error p i = Some e ->
    exists spec, nth_error specs i = Some spec /\ ereach es sh scr (einit (fst spec) (snd spec)) e.
Proof.
  intros es sh scr specs p R. induction R as [|p lab p' R [IL IH] H].
  - split; [apply map_length|]. intros i e N. unfold pinit in N. rewrite nth_error_map in N.
    destruct (nth_error specs i) as [spec|]; [|discriminate]. injection N as <-. exists spec. split; [reflexivity|constructor].
  - destruct (pstep_inv _ _ _ _ _ _ H) as (j & l & e0 & e1 & N & S & -> & _).
    split; [rewrite upd_length; exact IL|]. intros i e N'.
    destruct (Nat.eq_dec j i) as [->|NE].
    + rewrite (upd_nth_same _ _ _ _ _ N) in N'. injection N' as <-.
      destruct (IH _ _ N) as (spec & SP & RE). exists spec. split; [exact SP|]. econstructor; eauto.
    + rewrite upd_nth_other in N' by exact NE. apply IH; exact N'.
Qed.

(* ---------------------------------------------------------------- one thread: the destructor sees a live loop *)
Lemma dtor_sees_live_loop : forall es sh scr cb uacts e,
  (forall t, qfree_acts (scr t) = true) -> qfree_acts cb = true -> qfree_acts uacts = true ->
  tf_clears es = true -> sl_while es = true ->
  ereach es sh scr (einit cb uacts) e -> eo e = ODtor -> ptr e = true /\ alive e = true.
Proof.
  intros es sh scr cb uacts e QS QC QU TC SW R HO.
  pose proof (E1_reach _ _ _ _ _ _ TC R) as (A1 & A2 & _).
  pose proof (E2_reach _ _ _ _ _ _ TC R) as (B1 & B2 & B3 & _).
  pose proof (E3_reach _ _ _ _ _ _ R) as (c0 & c1 & F & _ & _ & K3 & _).
  pose proof (J5_reach _ _ _ _ _ QS QC QU (ereach_reach_t _ _ _ _ _ _ R)) as (_ & _ & d0 & d1 & F' & _ & Q5).
  rewrite F in F'. injection F' as <- <-.
  assert (C1 : c1 = [MQuitStore]) by (apply K3; right; right; exact HO).
  destruct Q5 as [[_ NQ]|[X|X]]; try congruence.
  pose proof (E5_reach _ _ _ _ _ _ TC R) as G. unfold E5 in G. rewrite HO in G. destruct (G eq_refl) as [b Gb].
  assert (b = true) by (destruct b; [reflexivity|exfalso; apply (B3 SW); exact Gb]). subst b.
  specialize (B2 Gb).
  pose proof (J1_reach _ _ _ _ _ _ (ereach_reach_t _ _ _ _ _ _ R)) as [_ JR].
  assert (NA : c_after (ec e) = false).
  { destruct (c_after (ec e)) eqn:CA; [|reflexivity]. specialize (B1 eq_refl).
    rewrite JR in NQ by (right; exact B1). discriminate. }
  rewrite A1, A2. destruct (ec e); try discriminate; split; reflexivity.
Qed.

Lemma cpc_eq_exited : forall c : cpc, c = CExited \/ c <> CExited.
Proof. intros []; auto; right; discriminate. Qed.

Lemma opc_eq_done : forall o : opc, o = ODone \/ o <> ODone.
Proof. intros []; auto; right; discriminate. Qed.

(* when the destructor has returned the thread has been joined: it has exited *)
Theorem dtor_joined : forall es sh scr cb uacts e,
  (forall t, qfree_acts (scr t) = true) -> qfree_acts cb = true -> qfree_acts uacts = true ->
  tf_clears es = true -> sl_while es = true -> dtor_quits es = true -> dtor_joins es = true ->
  ereach es sh scr (einit cb uacts) e -> eo e = ODone -> ec e = CExited.
Proof.
  intros es sh scr cb uacts e QS QC QU TC SW DQ DJ R. induction R as [|e lab e' R IH H]; [discriminate|].
  intros HO.
  destruct (opc_eq_done (eo e)) as [D|ND].
  - (* already done: only the child could move, and it has exited *)
    specialize (IH D). destruct lab; einv H; cbn [eo ec] in *; congruence.
  - destruct lab; einv H; cbn [eo ec] in *; try congruence.
    all: try (rewrite DQ in *; discriminate); try (rewrite DJ in *; discriminate).
    match goal with
    | H : eo _ = ODtor |- _ => destruct (dtor_sees_live_loop _ _ _ _ _ _ QS QC QU TC SW R H); congruence
    end.
Qed.

(* ---------------------------------------------------------------- the pool *)
Definition specs_qfree (specs : list (list act * list act)) : Prop :=
  Forall (fun s => qfree_acts (fst s) = true /\ qfree_acts (snd s) = true) specs.

Lemma first_false : forall A (f : A -> bool) l, forallb f l = false ->
  exists i x, nth_error l i = Some x /\ f x = false /\ forallb f (firstn i l) = true.
Proof.
  induction l as [|a l IH]; cbn; intros H; [discriminate|].
  destruct (f a) eqn:FA.
  - cbn in H. destruct (IH H) as (i & x & N & FX & FI). exists (S i), x. cbn. rewrite FA. auto.
  - exists 0, a. cbn. auto.
Qed.

(* start(): once it has returned (every thread past its startLoop()), loops_ holds N non-null loops,
   one per thread (component i = the loop published by child i); each is alive as long as nobody
   has quit it *)
Theorem pool_start_result : forall es sh scr specs p,
  preach es sh scr (pinit specs) p -> tf_clears es = true -> sl_while es = true ->
  length p = length specs /\
  forall i e, nth_error p i = Some e -> o_past_start e = true ->
    got e = Some true /\ c_published (ec e) = true /\
    (quit_called (log (sg (ls e))) = false -> alive e = true).
Proof.
  intros es sh scr specs p R TC SW. destruct (preach_components _ _ _ _ _ R) as [L C].
  split; [exact L|]. intros i e N PS. destruct (C _ _ N) as (spec & _ & RE).
  pose proof (E2_reach _ _ _ _ _ _ TC RE) as (_ & B2 & B3 & _).
  pose proof (E5_reach _ _ _ _ _ _ TC RE) as G. unfold E5 in G.
  assert (OR : o_returned (eo e) = true) by (unfold o_past_start in PS; destruct (eo e); try discriminate; reflexivity).
  destruct (G OR) as [b Gb].
  assert (b = true) by (destruct b; [reflexivity|exfalso; apply (B3 SW); exact Gb]). subst b.
  split; [exact Gb|]. split; [apply B2; exact Gb|]. intros NQ. eapply alive_while_unquit; eauto.
Qed.

(* start() never dead-locks (nobody quits a loop during start-up) *)
Theorem pool_start_progress : forall es sh scr specs p,
  (forall t, qfree_acts (scr t) = true) -> specs_qfree specs ->
  preach es sh scr (pinit specs) p -> tf_clears es = true -> sl_while es = true -> tf_notifies es = true ->
  pool_started p = false -> exists lab p', pstep es sh scr p lab = Some p'.
Proof.
  intros es sh scr specs p QS SQ R TC SW TN NS. destruct (preach_components _ _ _ _ _ R) as [L C].
  destruct (first_false _ _ _ NS) as (i & e & N & PS & FI). destruct (C _ _ N) as (spec & SP & RE).
  assert (QF : qfree_acts (fst spec) = true /\ qfree_acts (snd spec) = true).
  { unfold specs_qfree in SQ. rewrite Forall_forall in SQ. apply SQ. eapply nth_error_In; eauto. }
  destruct QF as [QC QU].
  assert (NR : returned (log (sg (ls e))) = false).
  { destruct (returned (log (sg (ls e)))) eqn:X; [|reflexivity].
    pose proof (J1_reach _ _ _ _ _ _ (ereach_reach_t _ _ _ _ _ _ RE)) as [_ JR].
    pose proof (E3_reach _ _ _ _ _ _ RE) as (c0 & c1 & F & _ & _ & K3 & _).
    pose proof (J5_reach _ _ _ _ _ QS QC QU (ereach_reach_t _ _ _ _ _ _ RE)) as (_ & _ & d0 & d1 & F' & _ & Q5).
    rewrite F in F'. injection F' as <- <-.
    assert (ST : o_startup (eo e) = true) by (unfold o_past_start in PS; destruct (eo e); try discriminate; reflexivity).
    assert (C1 : c1 = [MQuitStore]) by (apply K3; left; exact ST).
    destruct Q5 as [[_ NQ]|[Y|Y]]; try congruence. rewrite JR in NQ by (right; exact X). discriminate. }
  assert (ST : o_startup (eo e) = true) by (unfold o_past_start in PS; destruct (eo e); try discriminate; reflexivity).
  destruct (startloop_handshake _ _ _ _ _ _ RE TC SW) as (_ & _ & _ & PG).
  destruct (PG TN NR ST) as (lab & e' & [->| ->] & S).
  - exists (PO i). unfold pstep, pstep1. rewrite N. unfold owner_guard. rewrite PS. cbn [negb]. rewrite FI, S. eauto.
  - exists (PC i). unfold pstep, pstep1. rewrite N, S. eauto.
Qed.

(* ~EventLoopThreadPool: whenever the user code is finished and some thread is not yet destroyed,
   some thread of the N+1 can step: the owner inside the destructor of the first such thread, or --
   while the owner waits in its join() -- that thread's child, which is never stuck in a poll that
   only the time-out could end *)
Theorem pool_dtor_progress : forall es sh scr specs p,
  preach es sh scr (pinit specs) p -> tf_clears es = true ->
  resets_on_entry sh = false -> qwake_ok sh = true -> dtor_quits es = true ->
  forallb user_done p = true -> pool_destroyed p = false ->
  exists lab p', pstep es sh scr p lab = Some p'.
Proof.
  intros es sh scr specs p R TC RE QW DQ UD ND. destruct (preach_components _ _ _ _ _ R) as [L C].
  destruct (first_false _ _ _ ND) as (i & e & N & NDi & FI). destruct (C _ _ N) as (spec & SP & REi).
  pose proof (forallb_nth _ _ _ _ _ UD N) as UDi. unfold user_done in UDi. apply andb_true_iff in UDi as [PS UL].
  apply negb_true_iff in UL.
  assert (G : owner_guard p i e = true).
  { unfold owner_guard. rewrite PS, UL. cbn [negb]. fold (user_done e).
    rewrite UD. exact FI. }
  destruct (dtor_terminates _ _ _ _ _ _ REi TC RE QW DQ) as (D1 & D2 & D3).
  unfold o_past_start in PS. unfold o_done in NDi. unfold user_code_left in UL.
  destruct (eo e) eqn:HO; try discriminate.
  - (* OUser, no user code left: the destructor starts *)
    exists (PO i). unfold pstep, pstep1. rewrite N, G. unfold estep, owner_step. rewrite HO.
    destruct (fcode_at (ls e) 0); [eauto|discriminate].
  - destruct (D1 (or_introl eq_refl)) as [e' S]. exists (PO i). unfold pstep, pstep1. rewrite N, G, S. eauto.
  - destruct (D1 (or_intror eq_refl)) as [e' S]. exists (PO i). unfold pstep, pstep1. rewrite N, G, S. eauto.
  - destruct (cpc_eq_exited (ec e)) as [X|X].
    + destruct (D2 eq_refl X) as (e' & S & _). exists (PO i). unfold pstep, pstep1. rewrite N, G, S. eauto.
    + destruct (D3 eq_refl X) as (lab & e' & [->| ->] & S).
      * exists (PC i). unfold pstep, pstep1. rewrite N, S. eauto.
      * exists (PCRead i). unfold pstep, pstep1. rewrite N, S. eauto.
Qed.

(* and when the destructor has returned every thread has been joined (nobody else quits the loops) *)
Theorem pool_all_joined : forall es sh scr specs p,
  (forall t, qfree_acts (scr t) = true) -> specs_qfree specs ->
  tf_clears es = true -> sl_while es = true -> dtor_quits es = true -> dtor_joins es = true ->
  preach es sh scr (pinit specs) p ->
  forall i e, nth_error p i = Some e -> eo e = ODone -> ec e = CExited /\ alive e = false.
Proof.
  intros es sh scr specs p QS SQ TC SW DQ DJ R i e N HO. destruct (preach_components _ _ _ _ _ R) as [L C].
  destruct (C _ _ N) as (spec & SP & RE).
  assert (QF : qfree_acts (fst spec) = true /\ qfree_acts (snd spec) = true).
  { unfold specs_qfree in SQ. rewrite Forall_forall in SQ. apply SQ. eapply nth_error_In; eauto. }
  destruct QF as [QC QU].
  pose proof (dtor_joined _ _ _ _ _ _ QS QC QU TC SW DQ DJ RE HO) as X. split; [exact X|].
  pose proof (E1_reach _ _ _ _ _ _ TC RE) as (_ & A2 & _). rewrite A2, X. reflexivity.
Qed.

Lemma first_enabled_step : forall es sh scr order p p', first_enabled es sh scr order p = Some p' ->
  exists lab, pstep es sh scr p lab = Some p'.
Proof.
  induction order as [|l r IH]; cbn; intros p p' H; [discriminate|].
  destruct (pstep es sh scr p l) eqn:S; [injection H as <-; eauto|eauto].
Qed.

Lemma pauto_preach : forall es sh scr order fuel p0 p, preach es sh scr p0 p ->
  preach es sh scr p0 (pauto es sh scr order fuel p).
Proof.
  induction fuel as [|f IH]; cbn; intros p0 p R; [exact R|].
  destruct (first_enabled es sh scr order p) as [p'|] eqn:F; [|exact R].
  destruct (first_enabled_step _ _ _ _ _ _ F) as [lab S]. apply IH. econstructor; eauto.
Qed.
