(* C18_Proofs: the statements of Properties_C18.v, assembled from C18_StreamProofs (generic
   segmentation invariance), C18_CodecProofs (framing codec) and C18_HttpProofs (HTTP). *)
From Coq Require Import List ZArith Lia Bool Arith NArith.
From Coq.Strings Require Import Byte.
From Muduo Require Import Base_Bytes Gen_Consts C18_Model C18_StreamProofs C18_CodecProofs C18_HttpProofs C18_HttpRef.
Import ListNotations.
Local Open Scope Z_scope.

Definition fits (tag p : list byte) : Prop :=
  Z.of_nat (length tag) + Z.of_nat (length p) + 4 <= kMaxMessageLen.

Lemma seg_invariant_codec :
  forall (msg : Type) (parse : list byte -> option msg) (tag : list byte) (chunks : list (list byte)),
    let r1 := codec_feed_all msg parse tag codec_init chunks in
    let r2 := codec_feed msg parse tag codec_init (concat chunks) in
    fst r1 = fst r2 /\
    d_abandoned (snd r1) = d_abandoned (snd r2) /\
    d_buf (snd r1) = d_buf (snd r2) /\
    consumed (length (concat chunks)) (snd r1) = consumed (length (concat chunks)) (snd r2) /\
    d_oof (snd r1) = false.
Proof.
  intros msg parse tag chunks. cbv zeta.
  pose proof (codec_no_oof msg parse tag chunks) as Ho.
  rewrite (codec_seg_invariant msg parse tag chunks) in *. tauto.
Qed.

Lemma seg_invariant_http :
  forall chunks : list (list byte),
    let r1 := http_feed_all http_init chunks in
    let r2 := http_feed http_init (concat chunks) in
    fst r1 = fst r2 /\
    d_st (snd r1) = d_st (snd r2) /\
    d_abandoned (snd r1) = d_abandoned (snd r2) /\
    d_buf (snd r1) = d_buf (snd r2) /\
    consumed (length (concat chunks)) (snd r1) = consumed (length (concat chunks)) (snd r2) /\
    d_oof (snd r1) = false.
Proof.
  intros chunks. cbv zeta.
  pose proof (http_no_oof chunks) as Ho.
  rewrite (http_seg_invariant chunks) in *. tauto.
Qed.

Lemma seg_invariant :
  (forall (msg : Type) (parse : list byte -> option msg) (tag : list byte) (chunks : list (list byte)),
    let r1 := codec_feed_all msg parse tag codec_init chunks in
    let r2 := codec_feed msg parse tag codec_init (concat chunks) in
    fst r1 = fst r2 /\
    d_abandoned (snd r1) = d_abandoned (snd r2) /\
    d_buf (snd r1) = d_buf (snd r2) /\
    consumed (length (concat chunks)) (snd r1) = consumed (length (concat chunks)) (snd r2) /\
    d_oof (snd r1) = false)
  /\
  (forall chunks : list (list byte),
    let r1 := http_feed_all http_init chunks in
    let r2 := http_feed http_init (concat chunks) in
    fst r1 = fst r2 /\
    d_st (snd r1) = d_st (snd r2) /\
    d_abandoned (snd r1) = d_abandoned (snd r2) /\
    d_buf (snd r1) = d_buf (snd r2) /\
    consumed (length (concat chunks)) (snd r1) = consumed (length (concat chunks)) (snd r2) /\
    d_oof (snd r1) = false).
Proof. split; [exact seg_invariant_codec|exact seg_invariant_http]. Qed.

Lemma equals_reference :
  (forall (msg : Type) (parse : list byte -> option msg) (tag : list byte) (chunks : list (list byte)),
    let s := concat chunks in
    codec_feed_all msg parse tag codec_init chunks =
    (let '(ms, e, rest) := ref_decode msg parse tag (S (length s)) s in
     (map CMsg ms ++ match e with Some x => [CErr x] | None => [] end,
      mkD tt rest (match e with Some _ => true | None => false end) false)))
  /\
  (forall chunks : list (list byte),
    http_feed_all http_init chunks = ref_http (concat chunks)).
Proof.
  split.
  - intros msg parse tag chunks. cbv zeta.
    rewrite (codec_equals_reference msg parse tag chunks).
    unfold of_ref, ref_events. destruct (ref_decode _ _ _ _ _) as [[ms e] rest]. reflexivity.
  - exact http_equals_reference.
Qed.

Lemma roundtrip :
  forall (msg : Type) (parse : list byte -> option msg) (ser : msg -> list byte) (tag : list byte),
    (forall m, parse (ser m) = Some m) ->
    forall (ms : list msg) (chunks : list (list byte)),
      Forall (fun m => fits tag (ser m)) ms ->
      concat chunks = flat_map (encode_msg msg ser tag) ms ->
      codec_feed_all msg parse tag codec_init chunks = (map CMsg ms, mkD tt [] false false).
Proof. intros msg parse ser tag H ms chunks. exact (codec_roundtrip msg parse ser tag H ms chunks). Qed.

(* the same with the parser hypothesis only for the messages that are sent *)
Lemma roundtrip_on :
  forall (msg : Type) (parse : list byte -> option msg) (ser : msg -> list byte) (tag : list byte)
         (ms : list msg) (chunks : list (list byte)),
    Forall (fun m => parse (ser m) = Some m /\ fits tag (ser m)) ms ->
    concat chunks = flat_map (encode_msg msg ser tag) ms ->
    codec_feed_all msg parse tag codec_init chunks = (map CMsg ms, mkD tt [] false false).
Proof. intros msg parse ser tag ms chunks. exact (codec_roundtrip_on msg parse ser tag ms chunks). Qed.

Section Reject.
  Variable msg : Type.
  Variable parse : list byte -> option msg.
  Variable tag : list byte.

  Definition valid_frames (ps : list (list byte)) (ms : list msg) : Prop :=
    Forall2 (fun p m => parse p = Some m /\ fits tag p) ps ms.

  Lemma reject_generic ps ms t e chunks :
    valid_frames ps ms -> concat chunks = flat_map (encode tag) ps ++ t ->
    ref_split msg parse tag t = RBad msg e ->
    codec_feed_all msg parse tag codec_init chunks = (map CMsg ms ++ [CErr e], mkD tt t true false).
  Proof.
    intros HF Hc Hb. rewrite feed_all_decode, Hc.
    exact (decode_prefix_bad msg parse tag ps ms t e HF Hb).
  Qed.

  Lemma reject_length ps ms t chunks :
    valid_frames ps ms -> concat chunks = flat_map (encode tag) ps ++ t ->
    (4 + length tag + 4 <= length t)%nat ->
    (be_decode_signed (firstn 4 t) < Z.of_nat (length tag) + 4 \/
     kMaxMessageLen < be_decode_signed (firstn 4 t)) ->
    codec_feed_all msg parse tag codec_init chunks =
      (map CMsg ms ++ [CErr kInvalidLength], mkD tt t true false).
  Proof.
    intros HF Hc H1 H2. apply (reject_generic ps ms t _ chunks HF Hc).
    apply bad_length; assumption.
  Qed.

  Lemma reject_checksum ps ms tp ck rest chunks :
    valid_frames ps ms ->
    concat chunks = flat_map (encode tag) ps ++
                    (be_encode 4 (Z.of_nat (length tp) + 4) ++ tp ++ ck ++ rest) ->
    length ck = 4%nat -> (length tag <= length tp)%nat ->
    Z.of_nat (length tp) + 4 <= kMaxMessageLen ->
    be_decode ck <> adler32 tp ->
    codec_feed_all msg parse tag codec_init chunks =
      (map CMsg ms ++ [CErr kCheckSumError],
       mkD tt (be_encode 4 (Z.of_nat (length tp) + 4) ++ tp ++ ck ++ rest) true false).
  Proof.
    intros HF Hc H1 H2 H3 H4. apply (reject_generic ps ms _ _ chunks HF Hc).
    apply bad_checksum; assumption.
  Qed.

  Lemma reject_tag ps ms tg p rest chunks :
    valid_frames ps ms ->
    concat chunks = flat_map (encode tag) ps ++ (encode tg p ++ rest) ->
    length tg = length tag -> tg <> tag -> fits tag p ->
    codec_feed_all msg parse tag codec_init chunks =
      (map CMsg ms ++ [CErr kUnknownMessageType], mkD tt (encode tg p ++ rest) true false).
  Proof.
    intros HF Hc H1 H2 H3. apply (reject_generic ps ms _ _ chunks HF Hc).
    apply bad_tag; assumption.
  Qed.

  Lemma reject_payload ps ms p rest chunks :
    valid_frames ps ms ->
    concat chunks = flat_map (encode tag) ps ++ (encode tag p ++ rest) ->
    fits tag p -> parse p = None ->
    codec_feed_all msg parse tag codec_init chunks =
      (map CMsg ms ++ [CErr kParseError], mkD tt (encode tag p ++ rest) true false).
  Proof.
    intros HF Hc H1 H2. apply (reject_generic ps ms _ _ chunks HF Hc).
    apply bad_payload; assumption.
  Qed.

  Lemma consumes_only_own_bytes chunks :
    let r := codec_feed_all msg parse tag codec_init chunks in
    exists ps ms,
      valid_frames ps ms /\
      concat chunks = flat_map (encode tag) ps ++ d_buf (snd r) /\
      consumed (length (concat chunks)) (snd r) =
        list_sum (map (fun p => 4 + (length tag + length p + 4))%nat ps) /\
      ((fst r = map CMsg ms /\ d_abandoned (snd r) = false) \/
       (exists e, fst r = map CMsg ms ++ [CErr e] /\ d_abandoned (snd r) = true)).
  Proof.
    cbv zeta.
    destruct (codec_consumes_only_own_bytes msg parse tag chunks) as (ps & ms & HF & Hs & Ho & Hc).
    exists ps, ms. split; [exact HF|]. split; [exact Hs|]. split; [exact Hc|].
    destruct Ho as [H1 H2 _|e H1 H2 _]; [left; tauto|right; exists e; tauto].
  Qed.

  Lemma reads_in_bounds chunks :
    ~ In CFault (fst (codec_feed_all msg parse tag codec_init chunks)) /\
    d_oof (snd (codec_feed_all msg parse tag codec_init chunks)) = false.
  Proof. exact (codec_reads_in_bounds msg parse tag chunks). Qed.
End Reject.

(* ---- HTTP -------------------------------------------------------------------- *)
Definition valid_request_line (line : list byte) : Prop :=
  exists m t v, line = m ++ [SP] ++ t ++ [SP] ++ s_HTTP1dot ++ [v] /\
                valid_method m /\ ~ In SP t /\ (v = x30 \/ v = x31).

(* a stream whose first line is not a valid request line: 400, abandoned, nothing consumed *)
Lemma http_rejects_invalid_line : forall line rest chunks,
  crlf_line line -> ~ valid_request_line line ->
  concat chunks = line ++ [CR; LF] ++ rest ->
  http_feed_all http_init chunks = ([HBad], mkD ctx0 (line ++ [CR; LF] ++ rest) true false).
Proof.
  intros line rest chunks Hl Hv Hc.
  rewrite http_seg_invariant, Hc, (http_feed_eq http_init _ live_ctx0).
  unfold feed, http_init, init. cbn [d_abandoned d_oof orb d_st d_buf app].
  cbn [run]. unfold hstep at 1. cbn [h_state ctx0 h_req].
  assert (Hf : find_crlf (line ++ [CR; LF] ++ rest) = Some (length line)).
  { rewrite app_assoc. apply find_crlf_app. exact Hl. }
  change (line ++ CR :: LF :: rest) with (line ++ [CR; LF] ++ rest).
  rewrite Hf, firstn_app_exact.
  destruct (processRequestLine line empty_request) as [r'|] eqn:E; [|reflexivity].
  exfalso. apply Hv. apply (request_line_accepted_iff line empty_request). exists r'. exact E.
Qed.

Lemma http_accepts_only_valid :
  (forall line r, (exists r', processRequestLine line r = Some r') <-> valid_request_line line)
  /\
  (forall m t v r, valid_method m -> ~ In SP t -> (v = x30 \/ v = x31) ->
     processRequestLine (m ++ [SP] ++ t ++ [SP] ++ s_HTTP1dot ++ [v]) r =
       Some (mkReq (set_method m) (if Byte.eqb v x31 then kHttp11 else kHttp10)
                   (match find_byte QMARK t with Some q => firstn q t | None => t end)
                   (match find_byte QMARK t with Some q => skipn q t | None => q_query r end)
                   (q_headers r)))
  /\
  (forall line rest chunks,
     crlf_line line -> ~ valid_request_line line ->
     concat chunks = line ++ [CR; LF] ++ rest ->
     http_feed_all http_init chunks = ([HBad], mkD ctx0 (line ++ [CR; LF] ++ rest) true false)).
Proof.
  split; [exact request_line_accepted_iff|]. split; [exact request_line_result|].
  exact http_rejects_invalid_line.
Qed.

Lemma line_atomic : forall chunks,
  let (evs, d) := http_feed_all http_init chunks in
  exists lines, concat chunks = flat_map (fun l => l ++ [CR; LF]) lines ++ d_buf d /\
                Forall crlf_line lines.
Proof. exact http_line_atomic. Qed.

(* concrete payload format of the correspondence instance "raw": hypothesis of the round trip *)
Lemma raw_parse_ser : forall m, raw_parse (raw_ser m) = Some m.
Proof. reflexivity. Qed.
