(* C11_ProofsLoop: the poll call of both back-ends executed from its regenerated pieces, the body of
   EventLoop::loop executed statement by statement, and what an interrupted poll does to the loop. *)
From Coq Require Import List ZArith Lia Bool Arith.
From Muduo Require Import Gen_C11 C11_Model.
Import ListNotations.
Local Open Scope Z_scope.

(* ---- Poller::poll ------------------------------------------------------------------------------ *)
(* what the property needs of Poller::poll: entries are handed over only when the system call
   reported some; a call that reported none or failed leaves the caller's list as it is; only a
   failure other than EINTR is logged; no outcome aborts *)
Definition poll_spec (a : list nat) (k : kans) : pollout :=
  if k_n k >? 0 then mkPollout (a ++ k_ready k) false false
  else if k_n k =? 0 then mkPollout a false false
  else mkPollout a (negb (k_errno k =? errno_EINTR)) false.

Definition poll_ok (src : poller_src) : Prop := forall a k, poll_call src a k = poll_spec a k.

Lemma epoll_poll_ok : poll_ok epoll_src.
Proof.
  intros a [n e r]. unfold poll_call, poll_spec, epoll_src.
  cbn [ps_some ps_none ps_log ps_pro ps_bsome ps_bnone ps_berr k_n k_errno k_ready].
  unfold epoll_poll_some_test, epoll_poll_none_test, epoll_poll_log_test.
  destruct (n >? 0); [reflexivity|]. destruct (n =? 0); [reflexivity|].
  change errno_EINTR with 4. destruct (e =? 4); reflexivity.
Qed.

Lemma ppoll_poll_ok : poll_ok ppoll_src.
Proof.
  intros a [n e r]. unfold poll_call, poll_spec, ppoll_src.
  cbn [ps_some ps_none ps_log ps_pro ps_bsome ps_bnone ps_berr k_n k_errno k_ready].
  unfold ppoll_poll_some_test, ppoll_poll_none_test, ppoll_poll_log_test.
  destruct (n >? 0); [reflexivity|]. destruct (n =? 0); [reflexivity|].
  change errno_EINTR with 4. destruct (e =? 4); reflexivity.
Qed.

Lemma current_pollers_ok : forall src, src = epoll_src \/ src = ppoll_src -> poll_ok src.
Proof. intros src [->| ->]; [apply epoll_poll_ok|apply ppoll_poll_ok]. Qed.

Lemma poll_is_source :
  (forall a k, poll_call epoll_src a k = poll_spec a k) /\
  (forall a k, poll_call ppoll_src a k = poll_spec a k).
Proof. split; [apply epoll_poll_ok|apply ppoll_poll_ok]. Qed.

Lemma poll_spec_unfold : forall a k,
  poll_spec a k =
  if k_n k >? 0 then mkPollout (a ++ k_ready k) false false
  else if k_n k =? 0 then mkPollout a false false
  else mkPollout a (negb (k_errno k =? errno_EINTR)) false.
Proof. reflexivity. Qed.

(* ---- EventLoop::loop --------------------------------------------------------------------------- *)
Definition quiet_t (t : itrace) : itrace := mkIT (t_disp t) (t_ran t) (t_queued t) false.

Section LoopProofs.
Variable U : Type.
Variables hnd fnb : behaviour U.

Lemma lstmt_ab src d k l t loc c : lstmt U hnd fnb src d k (mkB l t true loc) c = mkB l t true loc.
Proof. reflexivity. Qed.
Lemma lstmt_0 src d k s : lstmt U hnd fnb src d k s 0 = s.
Proof. unfold lstmt. destruct (b_ab s); reflexivity. Qed.
Lemma dstmt_0 s : dstmt U fnb s 0 = s.
Proof. unfold dstmt. destruct (b_ab s); reflexivity. Qed.

Lemma lstmt_1 src d k l t loc : lstmt U hnd fnb src d k (mkB l t false loc) 1 =
  mkB (mkL (l_user l) (l_pending l) (l_quit l) (l_iter l) []) t false loc.
Proof. reflexivity. Qed.
Lemma lstmt_2 src d k l t loc : lstmt U hnd fnb src d k (mkB l t false loc) 2 =
  mkB (mkL (l_user l) (l_pending l) (l_quit l) (l_iter l) (po_active (poll_call src (l_active l) k)))
      (mkIT (t_disp t) (t_ran t) (t_queued t) (t_errlog t || po_errlog (poll_call src (l_active l) k)))
      (po_aborted (poll_call src (l_active l) k)) loc.
Proof. reflexivity. Qed.
Lemma lstmt_3 src d k l t loc : lstmt U hnd fnb src d k (mkB l t false loc) 3 =
  mkB (mkL (l_user l) (l_pending l) (l_quit l) (S (l_iter l)) (l_active l)) t false loc.
Proof. reflexivity. Qed.
Lemma lstmt_4 src d k l t loc : lstmt U hnd fnb src d k (mkB l t false loc) 4 =
  let '(u, q, x) := run_list hnd (l_active l) (l_user l) in
  mkB (mkL u (l_pending l ++ q) (l_quit l || x) (l_iter l) (l_active l))
      (mkIT (t_disp t ++ l_active l) (t_ran t) (t_queued t ++ q) (t_errlog t)) false loc.
Proof. reflexivity. Qed.
Lemma lstmt_5 src d k l t loc : lstmt U hnd fnb src d k (mkB l t false loc) 5 =
  let s' := fold_left (dstmt U fnb) d (mkB l t false []) in mkB (b_l s') (b_t s') (b_ab s') loc.
Proof. reflexivity. Qed.
Lemma dstmt_1 l t loc : dstmt U fnb (mkB l t false loc) 1 =
  mkB (mkL (l_user l) loc (l_quit l) (l_iter l) (l_active l)) t false (l_pending l).
Proof. reflexivity. Qed.
Lemma dstmt_2 l t loc : dstmt U fnb (mkB l t false loc) 2 =
  let '(u, q, x) := run_list fnb loc (l_user l) in
  mkB (mkL u (l_pending l ++ q) (l_quit l || x) (l_iter l) (l_active l))
      (mkIT (t_disp t) (t_ran t ++ loc) (t_queued t ++ q) (t_errlog t)) false loc.
Proof. reflexivity. Qed.

(* the body of the while loop and doPendingFunctors AS THEY STAND IN THE SOURCE, run statement by
   statement, are [iter] *)
Lemma loop_body_is_model : forall src l k,
  iter_src hnd fnb src eventloop_loop_body eventloop_doPending_body l k = iter hnd fnb src l k.
Proof.
  intros src l k. unfold iter_src, iter, eventloop_loop_body, eventloop_doPending_body.
  cbn [fold_left]. rewrite lstmt_1, lstmt_2. cbn [l_user l_pending l_quit l_iter l_active t_disp t_ran t_queued t_errlog orb].
  destruct (poll_call src [] k) as [act lg ab]. cbn [po_active po_errlog po_aborted].
  destruct ab.
  - rewrite !lstmt_ab. reflexivity.
  - rewrite lstmt_3, !lstmt_0, lstmt_4. cbn [l_user l_pending l_quit l_iter l_active t_disp t_ran t_queued t_errlog app].
    destruct (run_list hnd act (l_user l)) as [[u1 q1] x1]. cbv beta iota.
    rewrite ?lstmt_0, lstmt_5. cbv beta zeta. cbn [fold_left]. rewrite !dstmt_0, dstmt_1, dstmt_2.
    cbn [l_user l_pending l_quit l_iter l_active t_disp t_ran t_queued t_errlog app].
    destruct (run_list fnb (l_pending l ++ q1) u1) as [[u2 q2] x2]. cbv beta iota.
    rewrite ?dstmt_0. reflexivity.
Qed.

(* ---- the loop over a back-end whose poll call meets [poll_spec] (both current ones do) ------------ *)
Variable src : poller_src.
Hypothesis Hsrc : poll_ok src.

Lemma run_list_nil (b : behaviour U) u : run_list b [] u = (u, [], false).
Proof. reflexivity. Qed.

Lemma neg_tests n : (n <? 0) = true -> (n >? 0) = false /\ (n =? 0) = false.
Proof.
  intros H. apply Z.ltb_lt in H. split.
  - destruct (Z.gtb_spec n 0); [lia|reflexivity].
  - apply Z.eqb_neq. lia.
Qed.

(* a pass whose poll call FAILED (any errno): nothing is dispatched, every pending functor runs, in
   order; quit_ is set only if one of those functors asked for it; the pass counts as one iteration;
   only an errno other than EINTR is logged; nothing aborts *)
Lemma iter_failed l k : (k_n k <? 0) = true ->
  iter hnd fnb src l k =
  let '(u, q, x) := run_list fnb (l_pending l) (l_user l) in
  (mkL u q (l_quit l || x) (S (l_iter l)) [],
   mkIT [] (l_pending l) q (negb (k_errno k =? errno_EINTR)), false).
Proof.
  intros Hn. destruct (neg_tests _ Hn) as [H1 H2].
  unfold iter. rewrite Hsrc. unfold poll_spec. rewrite H1, H2.
  cbn [po_aborted po_active po_errlog]. rewrite run_list_nil, app_nil_r.
  destruct (run_list fnb (l_pending l) (l_user l)) as [[u q] x].
  rewrite orb_false_r. reflexivity.
Qed.

Lemma iter_interrupted l e ready :
  iter hnd fnb src l (k_intr e ready) =
  let '(u, q, x) := run_list fnb (l_pending l) (l_user l) in
  (mkL u q (l_quit l || x) (S (l_iter l)) [],
   mkIT [] (l_pending l) q (negb (e =? errno_EINTR)), false).
Proof. apply (iter_failed l (k_intr e ready)). reflexivity. Qed.

(* a pass whose poll call timed out: the same, and never a log line *)
Lemma iter_timeout l :
  iter hnd fnb src l k_timeout =
  let '(u, q, x) := run_list fnb (l_pending l) (l_user l) in
  (mkL u q (l_quit l || x) (S (l_iter l)) [], mkIT [] (l_pending l) q false, false).
Proof.
  unfold iter. rewrite Hsrc. unfold poll_spec, k_timeout. cbn [k_n k_errno k_ready Z.gtb Z.eqb Z.compare].
  cbn [po_aborted po_active po_errlog]. rewrite run_list_nil, app_nil_r.
  destruct (run_list fnb (l_pending l) (l_user l)) as [[u q] x].
  rewrite orb_false_r. reflexivity.
Qed.

(* per pass, for every outcome of the poll call *)
Lemma iter_facts l k :
  let '(l2, t, ab) := iter hnd fnb src l k in
  ab = false /\ t_ran t ++ l_pending l2 = l_pending l ++ t_queued t /\ l_iter l2 = S (l_iter l) /\
  t_disp t = (if k_n k >? 0 then k_ready k else []).
Proof.
  unfold iter. rewrite Hsrc. unfold poll_spec.
  destruct (k_n k >? 0); [|destruct (k_n k =? 0)]; cbn [po_aborted po_active po_errlog app];
    destruct (run_list hnd _ (l_user l)) as [[u1 q1] x1];
    destruct (run_list fnb (l_pending l ++ q1) u1) as [[u2 q2] x2];
    cbn [t_ran t_queued t_disp l_pending l_iter]; rewrite app_assoc; auto.
Qed.

Lemma iter_calm l xs k :
  let '(l1, t1, ab1) := iter hnd fnb src l k in
  let '(l2, t2, ab2) := iter hnd fnb src l (snd (calm_in (xs, k))) in
  l2 = l1 /\ quiet_t t2 = quiet_t t1 /\ ab1 = false /\ ab2 = false.
Proof.
  unfold calm_in. cbn [fst snd]. destruct (k_n k <? 0) eqn:Hn.
  - rewrite (iter_failed l k Hn), iter_timeout.
    destruct (run_list fnb (l_pending l) (l_user l)) as [[u q] x]. auto.
  - pose proof (iter_facts l k) as F. destruct (iter hnd fnb src l k) as [[l1 t1] ab1].
    destruct F as (F & _). auto.
Qed.

Lemma ext_pending xs : forall l : lstate U,
  l_pending (fold_left apply_ext xs l) = l_pending l ++ ext_queued xs /\
  l_iter (fold_left apply_ext xs l) = l_iter l /\ l_user (fold_left apply_ext xs l) = l_user l.
Proof.
  induction xs as [|x xs IH]; intros l; cbn [fold_left ext_queued flat_map].
  - rewrite app_nil_r. auto.
  - destruct (IH (apply_ext l x)) as (H1 & H2 & H3). rewrite H1, H2, H3.
    destruct x; cbn [apply_ext l_pending l_iter l_user app]; [rewrite <- app_assoc|]; auto.
Qed.

(* EVERY run, interrupted polls anywhere and in any number:
   - tasks: the functors run, in order, followed by those still pending are exactly those pending at
     the start followed by all that were queued, in queueing order: none lost, duplicated, reordered;
   - events: the channels dispatched are exactly the entries the successful poll calls reported;
   - one pass per return of the poll call: iteration_ advances by the number of passes, which is at
     most the number of environment inputs (no pass without the poll call returning);
   - the loop stops before the inputs are used up only with quit_ set; nothing aborts *)
Lemma loop_conservation ins : forall l,
  let '(l', ts, ab) := loop_run hnd fnb src l ins in
  concat (map t_ran ts) ++ l_pending l' = l_pending l ++ concat (map t_queued ts) /\
  concat (map t_disp ts) =
    concat (map (fun i => if k_n (snd i) >? 0 then k_ready (snd i) else []) (firstn (length ts) ins)) /\
  l_iter l' = (l_iter l + length ts)%nat /\ (length ts <= length ins)%nat /\
  ((length ts < length ins)%nat -> l_quit l' = true) /\ ab = false.
Proof.
  induction ins as [|[xs k] ins IH]; intros l; cbn [loop_run].
  - cbn. rewrite !app_nil_r. repeat split; try lia.
  - destruct (l_quit l) eqn:Hq.
    + cbn. rewrite !app_nil_r. repeat split; try lia. auto.
    + pose proof (iter_facts (fold_left apply_ext xs l) k) as F.
      destruct (iter hnd fnb src (fold_left apply_ext xs l) k) as [[l2 t] ab].
      destruct F as (-> & F2 & F3 & F4).
      destruct (ext_pending xs l) as (E1 & E2 & E3). rewrite E1 in F2. rewrite E2 in F3.
      specialize (IH l2). destruct (loop_run hnd fnb src l2 ins) as [[l3 ts] ab'].
      destruct IH as (I1 & I2 & I3 & I4 & I5 & I6).
      cbn [map concat length firstn t_ran t_disp t_queued snd]. repeat split.
      * rewrite <- !app_assoc, I1, (app_assoc (t_ran t)), F2, <- !app_assoc. reflexivity.
      * rewrite I2, F4. reflexivity.
      * lia.
      * lia.
      * intros H. apply I5. lia.
      * exact I6.
Qed.

(* faults are a delay, for every run: replacing every failed poll call by one that timed out gives
   the same final state and the same passes, apart from the error-log flag *)
Lemma loop_run_calm ins : forall l,
  let '(l1, ts1, ab1) := loop_run hnd fnb src l ins in
  let '(l2, ts2, ab2) := loop_run hnd fnb src l (map calm_in ins) in
  l2 = l1 /\ map quiet_t ts2 = map quiet_t ts1 /\ ab1 = false /\ ab2 = false.
Proof.
  induction ins as [|[xs k] ins IH]; intros l; cbn [loop_run map].
  - auto.
  - unfold calm_in at 1. cbn [fst snd]. destruct (l_quit l); [auto|].
    pose proof (iter_calm (fold_left apply_ext xs l) xs k) as C.
    destruct (iter hnd fnb src (fold_left apply_ext xs l) k) as [[l1 t1] ab1].
    cbn [snd calm_in fst] in C.
    destruct (iter hnd fnb src (fold_left apply_ext xs l) (if k_n k <? 0 then k_timeout else k)) as [[l2 t2] ab2].
    destruct C as (-> & Ct & -> & ->).
    specialize (IH l1). destruct (loop_run hnd fnb src l1 ins) as [[l3 ts3] ab3].
    destruct (loop_run hnd fnb src l1 (map calm_in ins)) as [[l4 ts4] ab4].
    destruct IH as (-> & It & -> & ->). cbn [map]. repeat split; try reflexivity.
    f_equal; [|exact It]. unfold quiet_t in *. cbn [t_disp t_ran t_queued]. congruence.
Qed.

(* ---- bursts ------------------------------------------------------------------------------------ *)
Definition shift (n : nat) (l : lstate U) : lstate U :=
  mkL (l_user l) (l_pending l) (l_quit l) (n + l_iter l) (l_active l).
Definition burst (errs : list (Z * list nat)) : list (list ext * kans) :=
  map (fun er => ([], k_intr (fst er) (snd er))) errs.
Definition silent (errs : list (Z * list nat)) : list itrace :=
  map (fun er => mkIT [] [] [] (negb (fst er =? errno_EINTR))) errs.

Lemma iter_indep l n a k :
  iter hnd fnb src (mkL (l_user l) (l_pending l) (l_quit l) (n + l_iter l) a) k =
  let '(l', t, ab) := iter hnd fnb src l k in (shift n l', t, ab).
Proof.
  unfold iter. cbn [l_user l_pending l_quit l_iter]. destruct (po_aborted (poll_call src [] k)) eqn:Ha.
  - rewrite Hsrc in Ha. unfold poll_spec in Ha.
    destruct (k_n k >? 0); [|destruct (k_n k =? 0)]; discriminate.
  - destruct (run_list hnd _ (l_user l)) as [[u1 q1] x1].
    destruct (run_list fnb (l_pending l ++ q1) u1) as [[u2 q2] x2].
    unfold shift. cbn [l_user l_pending l_quit l_iter l_active]. rewrite Nat.add_succ_r. reflexivity.
Qed.

Lemma ext_indep xs : forall (l : lstate U) n a,
  fold_left apply_ext xs (mkL (l_user l) (l_pending l) (l_quit l) n a) =
  (let l' := fold_left apply_ext xs l in mkL (l_user l') (l_pending l') (l_quit l') n a).
Proof.
  induction xs as [|x xs IH]; intros l n a; cbn [fold_left].
  - reflexivity.
  - destruct x; cbn [apply_ext l_user l_pending l_quit l_iter l_active].
    + apply (IH (mkL (l_user l) (l_pending l ++ [f]) (l_quit l) (l_iter l) (l_active l))).
    + apply (IH (mkL (l_user l) (l_pending l) true (l_iter l) (l_active l))).
Qed.

(* a burst of failed poll calls on a loop that has nothing pending and that nobody touches
   meanwhile, followed by ANY pass: exactly the state, the dispatches, the functor runs of that pass
   alone; only iteration_ is larger by the length of the burst, and each pass of the burst is silent
   (empty) - so each failed poll call costs exactly one empty pass and leaves nothing behind that
   could make the loop go round again by itself *)
Lemma loop_run_burst errs : forall l xs k, l_pending l = [] -> l_quit l = false ->
  loop_run hnd fnb src l (burst errs ++ [(xs, k)]) =
  let '(l', ts, ab) := loop_run hnd fnb src l [(xs, k)] in (shift (length errs) l', silent errs ++ ts, ab).
Proof.
  induction errs as [|[e r] errs IH]; intros l xs k Hp Hq.
  - cbn [burst silent map app length]. destruct (loop_run hnd fnb src l [(xs, k)]) as [[l' ts] ab].
    unfold shift. cbn [Nat.add]. destruct l'. reflexivity.
  - cbn [burst silent map app length fst snd]. cbn [loop_run]. rewrite Hq. cbn [fold_left].
    rewrite iter_interrupted, Hp, run_list_nil. rewrite Hq. cbn [orb ext_queued flat_map app t_disp t_ran t_queued t_errlog].
    fold (burst errs). rewrite IH by reflexivity.
    cbn [loop_run l_quit].
    pose proof (ext_indep xs l (S (l_iter l)) []) as E. rewrite Hp, Hq in E. rewrite E. clear E. cbv zeta.
    pose proof (iter_indep (fold_left apply_ext xs l) 1 [] k) as I.
    destruct (ext_pending xs l) as (_ & E2 & _). rewrite E2 in I. cbn [Nat.add] in I. rewrite I. clear I.
    destruct (iter hnd fnb src (fold_left apply_ext xs l) k) as [[l2 t] ab].
    destruct ab; unfold shift; cbn [l_user l_pending l_quit l_iter l_active silent map app Nat.add];
      rewrite ?Nat.add_succ_r; reflexivity.
Qed.

(* an idle loop hit by a burst: after it the loop is exactly where it was, iteration_ apart *)
Lemma loop_run_idle_burst errs : forall l, l_pending l = [] -> l_quit l = false -> errs <> [] ->
  loop_run hnd fnb src l (burst errs) =
  (mkL (l_user l) [] false (length errs + l_iter l) [], silent errs, false).
Proof.
  induction errs as [|[e r] errs IH]; intros l Hp Hq Hne; [contradiction|].
  cbn [burst silent map length fst snd loop_run]. rewrite Hq. cbn [fold_left].
  rewrite iter_interrupted, Hp, run_list_nil, Hq. cbn [orb ext_queued flat_map app t_disp t_ran t_queued t_errlog].
  fold (burst errs). fold (silent errs). destruct errs as [|er errs].
  - reflexivity.
  - rewrite IH by (reflexivity || discriminate). cbn [l_user l_iter length Nat.add].
    rewrite ?Nat.add_succ_r. reflexivity.
Qed.

End LoopProofs.

(* ---- the statements of Properties_C11, part 3 (both current back-ends) --------------------------- *)
Lemma poll_call_unfold : forall src a k,
  poll_call src a k =
  let run := fold_left (pstmt (k_ready k)) in
  let o0 := run (ps_pro src) (mkPollout a false false) in
  if ps_some src (k_n k) then run (ps_bsome src) o0
  else if ps_none src (k_n k) then run (ps_bnone src) o0
  else run (map snd (filter (fun gc => negb (fst gc) || ps_log src (k_errno k)) (ps_berr src))) o0.
Proof. reflexivity. Qed.

Lemma pstmt_unfold : forall ready o code,
  pstmt ready o code =
  if po_aborted o then o
  else if code =? 1 then mkPollout (po_active o ++ ready) (po_errlog o) false
  else if (code =? 2) || (code =? 3) then o
  else if code =? 4 then mkPollout (po_active o) true false
  else mkPollout (po_active o) (po_errlog o) true.
Proof. reflexivity. Qed.

Lemma loop_body_is_source : forall (U : Type) (hnd fnb : behaviour U) src l k,
  iter_src hnd fnb src eventloop_loop_body eventloop_doPending_body l k = iter hnd fnb src l k /\
  eventloop_while_cond_is_not_quit = true.
Proof. intros. split; [apply loop_body_is_model|reflexivity]. Qed.

Lemma iter_unfold : forall (U : Type) (hnd fnb : behaviour U) src l k,
  iter hnd fnb src l k =
  let o := poll_call src [] k in
  if po_aborted o then
    (mkL (l_user l) (l_pending l) (l_quit l) (l_iter l) (po_active o), mkIT [] [] [] (po_errlog o), true)
  else
    let '(u1, q1, x1) := run_list hnd (po_active o) (l_user l) in
    let run := l_pending l ++ q1 in
    let '(u2, q2, x2) := run_list fnb run u1 in
    (mkL u2 q2 (l_quit l || x1 || x2) (S (l_iter l)) (po_active o),
     mkIT (po_active o) run (q1 ++ q2) (po_errlog o), false).
Proof. reflexivity. Qed.

Lemma loop_run_unfold : forall (U : Type) (hnd fnb : behaviour U) src l ins,
  loop_run hnd fnb src l ins =
  match ins with
  | [] => (l, [], false)
  | (xs, k) :: rest =>
      if l_quit l then (l, [], false)
      else
        let l1 := fold_left apply_ext xs l in
        let '(l2, t, ab) := iter hnd fnb src l1 k in
        let t' := mkIT (t_disp t) (t_ran t) (ext_queued xs ++ t_queued t) (t_errlog t) in
        if ab then (l2, [t'], true)
        else let '(l3, ts, ab') := loop_run hnd fnb src l2 rest in (l3, t' :: ts, ab')
  end.
Proof. intros. destruct ins as [|[xs k] rest]; reflexivity. Qed.

Lemma poll_eintr : forall (U : Type) (hnd fnb : behaviour U) src,
  src = epoll_src \/ src = ppoll_src ->
  forall l e ready,
  iter hnd fnb src l (k_intr e ready) =
  let '(u, q, x) := run_list fnb (l_pending l) (l_user l) in
  (mkL u q (l_quit l || x) (S (l_iter l)) [],
   mkIT [] (l_pending l) q (negb (e =? errno_EINTR)), false).
Proof. intros U hnd fnb src H. apply iter_interrupted, current_pollers_ok, H. Qed.

Lemma interrupted_poll_is_a_delay : forall (U : Type) (hnd fnb : behaviour U) src,
  src = epoll_src \/ src = ppoll_src ->
  forall ins l,
  let '(l1, ts1, ab1) := loop_run hnd fnb src l ins in
  let '(l2, ts2, ab2) := loop_run hnd fnb src l (map calm_in ins) in
  l2 = l1 /\ map quiet_t ts2 = map quiet_t ts1 /\ ab1 = false /\ ab2 = false.
Proof. intros U hnd fnb src H. apply loop_run_calm, current_pollers_ok, H. Qed.

Lemma interrupt_burst_then_normal : forall (U : Type) (hnd fnb : behaviour U) src,
  src = epoll_src \/ src = ppoll_src ->
  forall (errs : list (Z * list nat)) l xs k, l_pending l = [] -> l_quit l = false ->
  loop_run hnd fnb src l (map (fun er => ([], k_intr (fst er) (snd er))) errs ++ [(xs, k)]) =
  let '(l', ts, ab) := loop_run hnd fnb src l [(xs, k)] in
  (mkL (l_user l') (l_pending l') (l_quit l') (length errs + l_iter l') (l_active l'),
   map (fun er => mkIT [] [] [] (negb (fst er =? errno_EINTR))) errs ++ ts, ab).
Proof. intros U hnd fnb src H. apply loop_run_burst, current_pollers_ok, H. Qed.

Lemma poll_eintr_no_spin : forall (U : Type) (hnd fnb : behaviour U) src,
  src = epoll_src \/ src = ppoll_src ->
  forall (errs : list (Z * list nat)) l, l_pending l = [] -> l_quit l = false -> errs <> [] ->
  loop_run hnd fnb src l (map (fun er => ([], k_intr (fst er) (snd er))) errs) =
  (mkL (l_user l) [] false (length errs + l_iter l) [],
   map (fun er => mkIT [] [] [] (negb (fst er =? errno_EINTR))) errs, false).
Proof. intros U hnd fnb src H. apply loop_run_idle_burst, current_pollers_ok, H. Qed.

Lemma loop_conservation_current : forall (U : Type) (hnd fnb : behaviour U) src,
  src = epoll_src \/ src = ppoll_src ->
  forall ins l,
  let '(l', ts, ab) := loop_run hnd fnb src l ins in
  concat (map t_ran ts) ++ l_pending l' = l_pending l ++ concat (map t_queued ts) /\
  concat (map t_disp ts) =
    concat (map (fun i => if k_n (snd i) >? 0 then k_ready (snd i) else []) (firstn (length ts) ins)) /\
  l_iter l' = (l_iter l + length ts)%nat /\ (length ts <= length ins)%nat /\
  ((length ts < length ins)%nat -> l_quit l' = true) /\ ab = false.
Proof. intros U hnd fnb src H. apply loop_conservation, current_pollers_ok, H. Qed.

Lemma calm_in_unfold : forall i,
  calm_in i = (fst i, if k_n (snd i) <? 0 then mkKans 0 0 [] else snd i).
Proof. reflexivity. Qed.
