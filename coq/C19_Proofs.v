(* C19_Proofs: invariants of the RpcChannel model, for ALL label lists (= all thread counts, all
   programs, all schedules, all response/request histories chosen by the environment). *)
From Coq Require Import List ZArith Bool Arith Lia.
From Coq.Strings Require Import Byte.
From Muduo Require Import Base_Bytes C19_Model.
Import ListNotations.
Local Open Scope Z_scope.

(* ------------------------------------------------------------------ finite maps *)
Section Maps.
  Context {A : Type}.
  Implicit Types m : list (Z * A).

  Lemma lookup_remove_same i m : lookup i (remove i m) = None.
  Proof.
    induction m as [|[j d] r IH]; cbn [remove lookup]; [reflexivity|].
    destruct (i =? j) eqn:E; [exact IH|]. cbn [lookup]. rewrite E. exact IH.
  Qed.

  Lemma lookup_remove_other i j m : i <> j -> lookup j (remove i m) = lookup j m.
  Proof.
    intros Hne. induction m as [|[k d] r IH]; cbn [remove lookup]; [reflexivity|].
    destruct (i =? k) eqn:E.
    - apply Z.eqb_eq in E. subst k. rewrite IH.
      destruct (j =? i) eqn:E2; [apply Z.eqb_eq in E2; congruence|reflexivity].
    - cbn [lookup]. rewrite IH. reflexivity.
  Qed.

  Lemma lookup_insert_same i c m : lookup i (insert i c m) = Some c.
  Proof.
    induction m as [|[j d] r IH]; cbn [insert lookup].
    - rewrite Z.eqb_refl. reflexivity.
    - destruct (i <? j) eqn:E1; [cbn [lookup]; rewrite Z.eqb_refl; reflexivity|].
      destruct (i =? j) eqn:E2; cbn [lookup]; [rewrite Z.eqb_refl; reflexivity|].
      rewrite E2. exact IH.
  Qed.

  Lemma lookup_insert_other i j c m : i <> j -> lookup j (insert i c m) = lookup j m.
  Proof.
    intros Hne. induction m as [|[k d] r IH]; cbn [insert lookup].
    - destruct (j =? i) eqn:E; [apply Z.eqb_eq in E; congruence|reflexivity].
    - destruct (i <? k) eqn:E1.
      + cbn [lookup]. destruct (j =? i) eqn:E; [apply Z.eqb_eq in E; congruence|reflexivity].
      + destruct (i =? k) eqn:E2.
        * apply Z.eqb_eq in E2. subst k. cbn [lookup].
          destruct (j =? i) eqn:E; [apply Z.eqb_eq in E; congruence|reflexivity].
        * cbn [lookup]. rewrite IH. reflexivity.
  Qed.
End Maps.

Section NMaps.
  Context {A : Type}.
  Implicit Types m : list (nat * A).

  Lemma nlookup_nremove_same k m : nlookup k (nremove k m) = None.
  Proof.
    induction m as [|[j d] r IH]; cbn [nremove nlookup]; [reflexivity|].
    destruct (Nat.eqb k j) eqn:E; [exact IH|]. cbn [nlookup]. rewrite E. exact IH.
  Qed.

  Lemma nlookup_nremove_other k j m : k <> j -> nlookup j (nremove k m) = nlookup j m.
  Proof.
    intros Hne. induction m as [|[i d] r IH]; cbn [nremove nlookup]; [reflexivity|].
    destruct (Nat.eqb k i) eqn:E.
    - apply Nat.eqb_eq in E. subst i. rewrite IH.
      destruct (Nat.eqb j k) eqn:E2; [apply Nat.eqb_eq in E2; congruence|reflexivity].
    - cbn [nlookup]. rewrite IH. reflexivity.
  Qed.
End NMaps.

Lemma tget_tset_same t st ths : tget t (tset t st ths) = st.
Proof. unfold tget, tset. cbn [nlookup]. rewrite Nat.eqb_refl. reflexivity. Qed.

Lemma tget_tset_other t u st ths : t <> u -> tget u (tset t st ths) = tget u ths.
Proof.
  intros Hne. unfold tget, tset. cbn [nlookup].
  destruct (Nat.eqb u t) eqn:E; [apply Nat.eqb_eq in E; congruence|].
  rewrite nlookup_nremove_other by exact Hne. reflexivity.
Qed.

(* ------------------------------------------------------------------ step, case by case *)
Lemma step_fetch s t c s' ev :
  step s (LFetch t c) = Some (s', ev) ->
  tget t (threads s) = TIdle /\
  s' = mkState (next_id s + 1) (outs s) (tset t (TFetched (next_id s + 1) c) (threads s)) (services s) (next_tok s) (pending s) /\
  ev = [EFetch t (next_id s + 1) (c_tag c)].
Proof.
  unfold step. cbn [step_gen orb]. destruct (in_contract c); [|discriminate].
  destruct (tget t (threads s)); intros H; inversion H; auto.
Qed.

Lemma step_fetch_contract s t c s' ev : step s (LFetch t c) = Some (s', ev) -> in_contract c = true.
Proof. unfold step. cbn [step_gen orb]. destruct (in_contract c); [reflexivity|discriminate]. Qed.

Lemma step_register s t s' ev :
  step s (LRegister t) = Some (s', ev) ->
  exists i c, tget t (threads s) = TFetched i c /\
  s' = mkState (next_id s) (insert i c (outs s)) (tset t (TRegistered i c) (threads s)) (services s) (next_tok s) (pending s) /\
  ev = [ERegister t i (c_tag c)].
Proof. unfold step. cbn [step_gen]. destruct (tget t (threads s)) as [|i c|i c]; intros H; inversion H; eauto. Qed.

Lemma step_send s t s' ev :
  step s (LSend t) = Some (s', ev) ->
  exists i c, tget t (threads s) = TRegistered i c /\
  s' = mkState (next_id s) (outs s) (tset t TIdle (threads s)) (services s) (next_tok s) (pending s) /\
  ev = [ESendRequest i (c_svc c) (c_meth c) (c_req c)].
Proof. unfold step. cbn [step_gen]. destruct (tget t (threads s)) as [|i c|i c]; intros H; inversion H; eauto. Qed.

Lemma step_response s i b s' ev :
  step s (LResponse i b) = Some (s', ev) ->
  body_ok b /\
  ((exists c, lookup i (outs s) = Some c /\
     s' = mkState (next_id s) (remove i (outs s)) (threads s) (services s) (next_tok s) (pending s) /\
     ev = complete c b)
   \/ (lookup i (outs s) = None /\ s' = s /\ ev = [])).
Proof.
  unfold step. cbn [step_gen]. unfold body_ok.
  destruct (rb_resp b) eqn:E1; [|destruct (rb_err b) eqn:E2; [|discriminate]];
  (destruct (lookup i (outs s)) eqn:E; intros H; inversion H; subst;
   (split; [first [left; congruence | right; congruence]|]); [left; eauto | right; auto]).
Qed.

Lemma step_response_miss s i b :
  lookup i (outs s) = None -> body_ok b -> step s (LResponse i b) = Some (s, []).
Proof.
  intros Hl [H|H]; unfold step; cbn [step_gen]; rewrite Hl.
  - destruct (rb_resp b); [reflexivity|congruence].
  - destruct (rb_resp b); [reflexivity|]. destruct (rb_err b); [reflexivity|congruence].
Qed.

Lemma step_response_hit s i b c :
  lookup i (outs s) = Some c -> body_ok b ->
  step s (LResponse i b) =
    Some (mkState (next_id s) (remove i (outs s)) (threads s) (services s) (next_tok s) (pending s), complete c b).
Proof.
  intros Hl [H|H]; unfold step; cbn [step_gen]; rewrite Hl.
  - destruct (rb_resp b); [reflexivity|congruence].
  - destruct (rb_resp b); [reflexivity|]. destruct (rb_err b); [reflexivity|congruence].
Qed.

Lemma step_request s r s' ev :
  step s (LRequest r) = Some (s', ev) ->
  (exists e, resolve (services s) r = inl e /\ s' = s /\ ev = [ESendResponse (rq_id r) (RError e)])
  \/ (exists q, resolve (services s) r = inr q /\
        s' = mkState (next_id s) (outs s) (threads s) (services s) (S (next_tok s)) ((next_tok s, rq_id r) :: pending s) /\
        ev = [EDispatch (next_tok s) (rq_id r) (rq_svc r) (rq_meth r) q]).
Proof. unfold step. cbn [step_gen]. destruct (resolve (services s) r) as [e|q]; intros H; inversion H; eauto. Qed.

Lemma step_done s k m s' ev :
  step s (LDone k m) = Some (s', ev) ->
  exists i, nlookup k (pending s) = Some i /\
    s' = mkState (next_id s) (outs s) (threads s) (services s) (next_tok s) (nremove k (pending s)) /\
    ev = [ESendResponse i (RReply m)].
Proof. unfold step. cbn [step_gen]. destruct (nlookup k (pending s)) as [i|]; intros H; inversion H; eauto. Qed.

Lemma step_other s i s' ev : step s (LOther i) = Some (s', ev) -> s' = s /\ ev = [].
Proof. unfold step. cbn [step_gen]. intros H; inversion H; auto. Qed.

Lemma resolve_error_code svcs r e :
  resolve svcs r = inl e -> e = NO_SERVICE \/ e = NO_METHOD \/ e = INVALID_REQUEST.
Proof.
  unfold resolve. destruct svcs as [m|]; [|intros H; inversion H; auto].
  destruct (find_service (rq_svc r) m) as [ms|]; [|intros H; inversion H; auto].
  destruct (has_method (rq_meth r) ms); [|intros H; inversion H; auto].
  destruct (parse (rq_req r)); intros H; inversion H; auto.
Qed.

(* ------------------------------------------------------------------ exec *)
Lemma exec_cons s l r s'' tr :
  exec s (l :: r) = Some (s'', tr) ->
  exists s' ev tr', step s l = Some (s', ev) /\ exec s' r = Some (s'', tr') /\ tr = (l, ev) :: tr'.
Proof.
  unfold exec, step. cbn [exec_gen]. destruct (step_gen false s l) as [[s' ev]|] eqn:E1; [|discriminate].
  destruct (exec_gen false s' r) as [[s3 tr']|] eqn:E2; [|discriminate].
  intros H; inversion H; subst. exists s', ev, tr'. auto.
Qed.

Lemma exec_app s l1 l2 s'' tr :
  exec s (l1 ++ l2) = Some (s'', tr) ->
  exists s1 tr1 tr2, exec s l1 = Some (s1, tr1) /\ exec s1 l2 = Some (s'', tr2) /\ tr = tr1 ++ tr2.
Proof.
  revert s tr. induction l1 as [|l r IH]; intros s tr H.
  - exists s, [], tr. auto.
  - cbn [app] in H. apply exec_cons in H. destruct H as (s' & ev & tr' & Hs & He & ->).
    apply IH in He. destruct He as (s1 & tr1 & tr2 & H1 & H2 & ->).
    exists s1, ((l, ev) :: tr1), tr2. unfold exec, step in *. cbn [exec_gen]. rewrite Hs, H1. auto.
Qed.

Lemma events_cons l ev tr : events ((l, ev) :: tr) = ev ++ events tr.
Proof. reflexivity. Qed.

Lemma events_app tr1 tr2 : events (tr1 ++ tr2) = events tr1 ++ events tr2.
Proof. unfold events. apply flat_map_app. Qed.

Lemma exec_labels s ls s' tr : exec s ls = Some (s', tr) -> map fst tr = ls.
Proof.
  revert s tr. induction ls as [|l r IH]; intros s tr H.
  - inversion H. reflexivity.
  - apply exec_cons in H. destruct H as (s1 & ev & tr' & _ & He & ->). cbn [map fst]. f_equal. eauto.
Qed.

(* ------------------------------------------------------------------ ids are unique *)
Lemma step_next_id s l s' ev :
  step s l = Some (s', ev) ->
  (fetched_ids ev = [] /\ next_id s' = next_id s) \/ (fetched_ids ev = [next_id s'] /\ next_id s' = next_id s + 1).
Proof.
  destruct l as [t c|t|t|i b|r|k m|i]; intros H.
  - apply step_fetch in H. destruct H as (_ & -> & ->). right. auto.
  - apply step_register in H. destruct H as (i & c & _ & -> & ->). left. auto.
  - apply step_send in H. destruct H as (i & c & _ & -> & ->). left. auto.
  - apply step_response in H. destruct H as (_ & [(c & _ & -> & ->)|(_ & -> & ->)]); left; split; auto.
    unfold complete. destruct (c_resp c), (c_done c); reflexivity.
  - apply step_request in H. destruct H as [(e & _ & -> & ->)|(q & _ & -> & ->)]; left; auto.
  - apply step_done in H. destruct H as (i & _ & -> & ->). left. auto.
  - apply step_other in H. destruct H as (-> & ->). left. auto.
Qed.

Lemma fetched_ids_app a b : fetched_ids (a ++ b) = fetched_ids a ++ fetched_ids b.
Proof. unfold fetched_ids. apply flat_map_app. Qed.

Lemma exec_ids s ls s' tr :
  exec s ls = Some (s', tr) ->
  next_id s <= next_id s' /\
  (forall i, In i (fetched_ids (events tr)) -> next_id s < i <= next_id s') /\
  NoDup (fetched_ids (events tr)).
Proof.
  revert s tr. induction ls as [|l r IH]; intros s tr H.
  - inversion H; subst. cbn. split; [lia|]. split; [intros i []|constructor].
  - apply exec_cons in H. destruct H as (s1 & ev & tr' & Hs & He & ->).
    apply IH in He. destruct He as (Hle & Hin & Hnd).
    rewrite events_cons, fetched_ids_app.
    apply step_next_id in Hs. destruct Hs as [(-> & Hn)|(-> & Hn)]; cbn [app].
    + rewrite <- Hn. auto.
    + split; [lia|]. split.
      * intros i [<-|Hi]; [lia|]. apply Hin in Hi. lia.
      * constructor; [|exact Hnd]. intros Hi. apply Hin in Hi. lia.
Qed.

(* ------------------------------------------------------------------ a closure runs at most once *)
Definition cnt (c : tag) (l : list tag) : nat := count_occ Nat.eq_dec l c.

Definition tags_outs (m : list (Z * call)) : list tag := map (fun p => c_tag (snd p)) m.
(* the thread-local copy counts until it has been put into the map *)
Definition ts_tags (ts : tstate) : list tag :=
  match ts with TFetched _ c => [c_tag c] | _ => [] end.
Definition tags_threads (ths : list (tid * tstate)) : list tag := flat_map (fun p => ts_tags (snd p)) ths.
Definition live (s : state) : list tag := tags_outs (outs s) ++ tags_threads (threads s).

Lemma cnt_app c a b : cnt c (a ++ b) = (cnt c a + cnt c b)%nat.
Proof. apply count_occ_app. Qed.

Lemma cnt_insert c i d m : (cnt c (tags_outs (insert i d m)) <= cnt c (tags_outs m) + cnt c [c_tag d])%nat.
Proof.
  induction m as [|[j e] r IH]; cbn [insert].
  - cbn [tags_outs map snd]. lia.
  - destruct (i <? j).
    + change (tags_outs ((i, d) :: (j, e) :: r)) with ([c_tag d] ++ tags_outs ((j, e) :: r)).
      rewrite cnt_app. lia.
    + destruct (i =? j).
      * change (tags_outs ((i, d) :: r)) with ([c_tag d] ++ tags_outs r).
        change (tags_outs ((j, e) :: r)) with ([c_tag e] ++ tags_outs r).
        rewrite !cnt_app. lia.
      * change (tags_outs ((j, e) :: insert i d r)) with ([c_tag e] ++ tags_outs (insert i d r)).
        change (tags_outs ((j, e) :: r)) with ([c_tag e] ++ tags_outs r).
        rewrite !cnt_app. lia.
Qed.

Lemma cnt_remove_le c i (m : list (Z * call)) : (cnt c (tags_outs (remove i m)) <= cnt c (tags_outs m))%nat.
Proof.
  induction m as [|[j e] r IH]; cbn [remove]; [lia|].
  change (tags_outs ((j, e) :: r)) with ([c_tag e] ++ tags_outs r). rewrite cnt_app.
  destruct (i =? j); [lia|].
  change (tags_outs ((j, e) :: remove i r)) with ([c_tag e] ++ tags_outs (remove i r)). rewrite cnt_app. lia.
Qed.

Lemma cnt_remove c i d m :
  lookup i m = Some d -> (cnt c (tags_outs (remove i m)) + cnt c [c_tag d] <= cnt c (tags_outs m))%nat.
Proof.
  induction m as [|[j e] r IH]; cbn [lookup remove]; [discriminate|].
  change (tags_outs ((j, e) :: r)) with ([c_tag e] ++ tags_outs r). rewrite cnt_app.
  destruct (i =? j).
  - intros H; inversion H; subst. pose proof (cnt_remove_le c i r). lia.
  - intros H. apply IH in H.
    change (tags_outs ((j, e) :: remove i r)) with ([c_tag e] ++ tags_outs (remove i r)). rewrite cnt_app. lia.
Qed.

Lemma cnt_nremove_le c t (ths : list (tid * tstate)) :
  (cnt c (tags_threads (nremove t ths)) <= cnt c (tags_threads ths))%nat.
Proof.
  induction ths as [|[u st] r IH]; cbn [nremove]; [apply Nat.le_refl|].
  change (tags_threads ((u, st) :: r)) with (ts_tags st ++ tags_threads r). rewrite cnt_app.
  destruct (Nat.eqb t u); [lia|].
  change (tags_threads ((u, st) :: nremove t r)) with (ts_tags st ++ tags_threads (nremove t r)). rewrite cnt_app. lia.
Qed.

Lemma cnt_tget c t ths :
  (cnt c (tags_threads (nremove t ths)) + cnt c (ts_tags (tget t ths)) <= cnt c (tags_threads ths))%nat.
Proof.
  unfold tget. induction ths as [|[u st] r IH]; cbn [nremove nlookup]; [cbn; lia|].
  change (tags_threads ((u, st) :: r)) with (ts_tags st ++ tags_threads r). rewrite cnt_app.
  destruct (Nat.eqb t u).
  - pose proof (cnt_nremove_le c t r). lia.
  - change (tags_threads ((u, st) :: nremove t r)) with (ts_tags st ++ tags_threads (nremove t r)).
    rewrite cnt_app. lia.
Qed.

Lemma cnt_tset c t st ths :
  cnt c (tags_threads (tset t st ths)) = (cnt c (ts_tags st) + cnt c (tags_threads (nremove t ths)))%nat.
Proof.
  unfold tset. change (tags_threads ((t, st) :: nremove t ths)) with (ts_tags st ++ tags_threads (nremove t ths)).
  apply cnt_app.
Qed.

Lemma runs_complete c d b : (cnt c (run_tags (complete d b)) <= cnt c [c_tag d])%nat.
Proof.
  unfold complete. destruct (c_resp d), (c_done d); cbn [run_tags flat_map app]; cbn; lia.
Qed.

Lemma step_budget c s l s' ev :
  step s l = Some (s', ev) ->
  (cnt c (run_tags ev) + cnt c (live s') <= cnt c (live s) + cnt c (fetch_tags [l]))%nat.
Proof.
  unfold live. rewrite !cnt_app.
  destruct l as [t d|t|t|i b|r|k m|i]; intros H.
  - apply step_fetch in H. destruct H as (Hg & -> & ->). cbn [outs threads run_tags flat_map app].
    rewrite cnt_tset. pose proof (cnt_tget c t (threads s)) as Ht. rewrite Hg in Ht.
    cbn [ts_tags fetch_tags flat_map app] in *. change (cnt c []) with 0%nat in *. lia.
  - apply step_register in H. destruct H as (i & d & Hg & -> & ->). cbn [outs threads run_tags flat_map app].
    rewrite cnt_tset. pose proof (cnt_tget c t (threads s)) as Ht. rewrite Hg in Ht.
    pose proof (cnt_insert c i d (outs s)).
    cbn [ts_tags fetch_tags flat_map app] in *. change (cnt c []) with 0%nat in *. lia.
  - apply step_send in H. destruct H as (i & d & Hg & -> & ->). cbn [outs threads run_tags flat_map app].
    rewrite cnt_tset. pose proof (cnt_nremove_le c t (threads s)).
    cbn [ts_tags fetch_tags flat_map app] in *. change (cnt c []) with 0%nat in *. lia.
  - apply step_response in H. destruct H as (_ & [(d & Hl & -> & ->)|(_ & -> & ->)]); cbn [outs threads].
    + pose proof (cnt_remove c i d (outs s) Hl). pose proof (runs_complete c d b). lia.
    + cbn [run_tags flat_map]. change (cnt c []) with 0%nat. lia.
  - apply step_request in H. destruct H as [(e & _ & -> & ->)|(q & _ & -> & ->)]; cbn [outs threads run_tags flat_map app];
      change (cnt c []) with 0%nat; lia.
  - apply step_done in H. destruct H as (i & _ & -> & ->). cbn [outs threads run_tags flat_map app].
    change (cnt c []) with 0%nat. lia.
  - apply step_other in H. destruct H as (-> & ->). cbn [run_tags flat_map]. change (cnt c []) with 0%nat. lia.
Qed.

Lemma run_tags_app a b : run_tags (a ++ b) = run_tags a ++ run_tags b.
Proof. unfold run_tags. apply flat_map_app. Qed.

Lemma fetch_tags_cons l r : fetch_tags (l :: r) = fetch_tags [l] ++ fetch_tags r.
Proof. unfold fetch_tags. cbn [flat_map]. rewrite app_nil_r. reflexivity. Qed.

Lemma exec_budget c s ls s' tr :
  exec s ls = Some (s', tr) ->
  (cnt c (run_tags (events tr)) + cnt c (live s') <= cnt c (live s) + cnt c (fetch_tags ls))%nat.
Proof.
  revert s tr. induction ls as [|l r IH]; intros s tr H.
  - inversion H; subst. cbn. lia.
  - apply exec_cons in H. destruct H as (s1 & ev & tr' & Hs & He & ->).
    apply IH in He. apply (step_budget c) in Hs.
    rewrite events_cons, run_tags_app, fetch_tags_cons, !cnt_app. lia.
Qed.

Lemma closure_at_most_once svcs ls s' tr c :
  exec (init svcs) ls = Some (s', tr) ->
  NoDup (fetch_tags ls) ->
  (count_occ Nat.eq_dec (run_tags (events tr)) c <= 1)%nat.
Proof.
  intros He Hnd. pose proof (exec_budget c _ _ _ _ He) as Hb.
  pose proof (proj1 (NoDup_count_occ Nat.eq_dec (fetch_tags ls)) Hnd c) as Hc.
  unfold cnt in *. cbn in Hb. lia.
Qed.

(* ------------------------------------------------------------------ id discipline *)
Record inv (s : state) : Prop := mkInv {
  inv_keys : forall i c, lookup i (outs s) = Some c -> i <= next_id s;
  inv_fetched : forall t i c, tget t (threads s) = TFetched i c -> i <= next_id s /\ lookup i (outs s) = None;
  inv_distinct : forall t1 t2 i c1 c2,
      tget t1 (threads s) = TFetched i c1 -> tget t2 (threads s) = TFetched i c2 -> t1 = t2
}.

Lemma inv_init svcs : inv (init svcs).
Proof. constructor; cbn; intros; discriminate. Qed.

Lemma tget_tset t u st ths :
  tget u (tset t st ths) = if Nat.eq_dec t u then st else tget u ths.
Proof.
  destruct (Nat.eq_dec t u) as [->|Hne]; [apply tget_tset_same|apply tget_tset_other; exact Hne].
Qed.

Lemma inv_step s l s' ev : inv s -> step s l = Some (s', ev) -> inv s'.
Proof.
  intros [HK HF HD] H. destruct l as [t d|t|t|i b|r|k m|i].
  - apply step_fetch in H. destruct H as (Hg & -> & _). constructor; cbn [next_id outs threads].
    + intros i c Hl. apply HK in Hl. lia.
    + intros u i c. rewrite tget_tset. destruct (Nat.eq_dec t u) as [->|Hne]; intros Hu.
      * inversion Hu; subst. split; [lia|].
        destruct (lookup (next_id s + 1) (outs s)) eqn:E; [apply HK in E; lia|reflexivity].
      * apply HF in Hu. destruct Hu. split; [lia|assumption].
    + intros t1 t2 i c1 c2. rewrite !tget_tset.
      destruct (Nat.eq_dec t t1) as [<-|N1], (Nat.eq_dec t t2) as [<-|N2]; intros H1 H2; auto.
      * inversion H1; subst. apply HF in H2. lia.
      * inversion H2; subst. apply HF in H1. lia.
      * eapply HD; eauto.
  - apply step_register in H. destruct H as (i & d & Hg & -> & _). constructor; cbn [next_id outs threads].
    + intros j c. destruct (Z.eq_dec i j) as [->|Hne].
      * intros _. apply HF in Hg. tauto.
      * rewrite lookup_insert_other by exact Hne. apply HK.
    + intros u j c. rewrite tget_tset. destruct (Nat.eq_dec t u) as [->|Hne]; intros Hu; [discriminate|].
      assert (i <> j) as Hij by (intros ->; apply Hne; eapply HD; eauto).
      rewrite lookup_insert_other by exact Hij. apply HF in Hu. exact Hu.
    + intros t1 t2 j c1 c2. rewrite !tget_tset.
      destruct (Nat.eq_dec t t1) as [<-|N1], (Nat.eq_dec t t2) as [<-|N2]; intros H1 H2; try discriminate.
      eapply HD; eauto.
  - apply step_send in H. destruct H as (i & d & Hg & -> & _). constructor; cbn [next_id outs threads].
    + exact HK.
    + intros u j c. rewrite tget_tset. destruct (Nat.eq_dec t u) as [->|Hne]; intros Hu; [discriminate|]. eapply HF; eauto.
    + intros t1 t2 j c1 c2. rewrite !tget_tset.
      destruct (Nat.eq_dec t t1) as [<-|N1], (Nat.eq_dec t t2) as [<-|N2]; intros H1 H2; try discriminate.
      eapply HD; eauto.
  - apply step_response in H. destruct H as (_ & [(d & Hl & -> & _)|(_ & -> & _)]); [|constructor; assumption].
    constructor; cbn [next_id outs threads].
    + intros j c. destruct (Z.eq_dec i j) as [->|Hne]; [rewrite lookup_remove_same; discriminate|].
      rewrite lookup_remove_other by exact Hne. apply HK.
    + intros u j c Hu. apply HF in Hu. destruct Hu as [Hle Hn]. split; [exact Hle|].
      destruct (Z.eq_dec i j) as [->|Hne]; [apply lookup_remove_same|].
      rewrite lookup_remove_other by exact Hne. exact Hn.
    + exact HD.
  - apply step_request in H. destruct H as [(e & _ & -> & _)|(q & _ & -> & _)]; constructor; assumption.
  - apply step_done in H. destruct H as (i & _ & -> & _). constructor; assumption.
  - apply step_other in H. destruct H as (-> & _). constructor; assumption.
Qed.

Lemma inv_exec s ls s' tr : inv s -> exec s ls = Some (s', tr) -> inv s'.
Proof.
  revert s tr. induction ls as [|l r IH]; intros s tr Hi H.
  - inversion H; subst. exact Hi.
  - apply exec_cons in H. destruct H as (s1 & ev & tr' & Hs & He & _). eapply IH; [|exact He]. eapply inv_step; eauto.
Qed.

(* a registered call stays registered until a response with its id arrives *)
Lemma stays s l s' ev i c :
  inv s -> lookup i (outs s) = Some c -> step s l = Some (s', ev) ->
  (forall b, l <> LResponse i b) -> lookup i (outs s') = Some c.
Proof.
  intros [HK HF HD] Hl H Hne. destruct l as [t d|t|t|j b|r|k m|j].
  - apply step_fetch in H. destruct H as (_ & -> & _). exact Hl.
  - apply step_register in H. destruct H as (j & d & Hg & -> & _). cbn [outs].
    assert (j <> i) as Hji by (intros ->; apply HF in Hg; destruct Hg; congruence).
    rewrite lookup_insert_other by exact Hji. exact Hl.
  - apply step_send in H. destruct H as (j & d & _ & -> & _). exact Hl.
  - assert (j <> i) as Hji by (intros ->; apply (Hne b); reflexivity).
    apply step_response in H. destruct H as (_ & [(d & _ & -> & _)|(_ & -> & _)]); [|exact Hl].
    cbn [outs]. rewrite lookup_remove_other by exact Hji. exact Hl.
  - apply step_request in H. destruct H as [(e & _ & -> & _)|(q & _ & -> & _)]; exact Hl.
  - apply step_done in H. destruct H as (j & _ & -> & _). exact Hl.
  - apply step_other in H. destruct H as (-> & _). exact Hl.
Qed.

Lemma answered s ls s' tr i c :
  inv s -> lookup i (outs s) = Some c -> exec s ls = Some (s', tr) ->
  (exists b, In (LResponse i b) ls) ->
  exists b, In (LResponse i b, complete c b) tr.
Proof.
  revert s tr. induction ls as [|l r IH]; intros s tr Hi Hl H [b Hin]; [destruct Hin|].
  apply exec_cons in H. destruct H as (s1 & ev & tr' & Hs & He & ->).
  assert ((exists b0, l = LResponse i b0) \/ (forall b0, l <> LResponse i b0)) as [[b0 ->]|Hne].
  { destruct l as [t d|t|t|j b0|q|k m|j]; try (right; intros; discriminate).
    destruct (Z.eq_dec j i) as [->|Hji]; [left; eauto|right; intros b1 E; inversion E; congruence]. }
  - apply step_response in Hs. destruct Hs as (_ & [(d & Hl' & _ & ->)|(Hl' & _)]); [|congruence].
    rewrite Hl in Hl'. inversion Hl'; subst. exists b0. left. reflexivity.
  - destruct Hin as [->|Hin]; [exfalso; eapply Hne; reflexivity|].
    destruct (IH s1 tr') as [b1 Hb1]; eauto using inv_step, stays.
    exists b1. right. exact Hb1.
Qed.

(* every call the model accepted is in contract (the guard of LFetch), wherever it is kept *)
Definition cinv (s : state) : Prop :=
  (forall i c, lookup i (outs s) = Some c -> in_contract c = true) /\
  (forall t i c, tget t (threads s) = TFetched i c -> in_contract c = true).

Lemma cinv_init svcs : cinv (init svcs).
Proof. split; cbn; intros; discriminate. Qed.

Lemma cinv_step s l s' ev : cinv s -> step s l = Some (s', ev) -> cinv s'.
Proof.
  intros [HO HT] H. destruct l as [t d|t|t|i b|r|k m|i].
  - pose proof (step_fetch_contract _ _ _ _ _ H) as Hc.
    apply step_fetch in H. destruct H as (_ & -> & _). split; cbn [outs threads]; [exact HO|].
    intros u i c. rewrite tget_tset. destruct (Nat.eq_dec t u) as [->|Hne]; intros Hu; [inversion Hu; subst; exact Hc|eapply HT; eauto].
  - apply step_register in H. destruct H as (i & d & Hg & -> & _). split; cbn [outs threads].
    + intros j c. destruct (Z.eq_dec i j) as [->|Hne].
      * rewrite lookup_insert_same. intros E; inversion E; subst. eapply HT; eauto.
      * rewrite lookup_insert_other by exact Hne. apply HO.
    + intros u j c. rewrite tget_tset. destruct (Nat.eq_dec t u) as [->|Hne]; intros Hu; [discriminate|eapply HT; eauto].
  - apply step_send in H. destruct H as (i & d & Hg & -> & _). split; cbn [outs threads]; [exact HO|].
    intros u j c. rewrite tget_tset. destruct (Nat.eq_dec t u) as [->|Hne]; intros Hu; [discriminate|eapply HT; eauto].
  - apply step_response in H. destruct H as (_ & [(d & Hl & -> & _)|(_ & -> & _)]); [|split; assumption].
    split; cbn [outs threads]; [|exact HT].
    intros j c. destruct (Z.eq_dec i j) as [->|Hne]; [rewrite lookup_remove_same; discriminate|].
    rewrite lookup_remove_other by exact Hne. apply HO.
  - apply step_request in H. destruct H as [(e & _ & -> & _)|(q & _ & -> & _)]; split; assumption.
  - apply step_done in H. destruct H as (i & _ & -> & _). split; assumption.
  - apply step_other in H. destruct H as (-> & _). split; assumption.
Qed.

Lemma cinv_exec s ls s' tr : cinv s -> exec s ls = Some (s', tr) -> cinv s'.
Proof.
  revert s tr. induction ls as [|l r IH]; intros s tr Hi H.
  - inversion H; subst. exact Hi.
  - apply exec_cons in H. destruct H as (s1 & ev & tr' & Hs & He & _). eapply IH; [|exact He]. eapply cinv_step; eauto.
Qed.

Lemma registered_in_contract svcs ls s tr i c :
  exec (init svcs) ls = Some (s, tr) -> lookup i (outs s) = Some c -> in_contract c = true.
Proof. intros H Hl. exact (proj1 (cinv_exec _ _ _ _ (cinv_init svcs) H) _ _ Hl). Qed.

Lemma once_if_answered svcs l1 l2 s1 tr1 s' tr i c :
  exec (init svcs) l1 = Some (s1, tr1) ->
  lookup i (outs s1) = Some c ->
  exec (init svcs) (l1 ++ l2) = Some (s', tr) ->
  (exists b, In (LResponse i b) l2) ->
  NoDup (fetch_tags (l1 ++ l2)) ->
  c_done c = true ->
  count_occ Nat.eq_dec (run_tags (events tr)) (c_tag c) = 1%nat.
Proof.
  intros H1 Hl H Hb Hnd Hd.
  pose proof (registered_in_contract _ _ _ _ _ _ H1 Hl) as Hr. unfold in_contract in Hr.
  pose proof (closure_at_most_once _ _ _ _ (c_tag c) H Hnd) as Hle.
  apply exec_app in H. destruct H as (s1' & tr1' & tr2 & H1' & H2 & ->).
  rewrite H1 in H1'. inversion H1'; subst s1' tr1'.
  destruct (answered _ _ _ _ i c (inv_exec _ _ _ _ (inv_init svcs) H1) Hl H2 Hb) as [b Hin].
  assert (In (c_tag c) (run_tags (events (tr1 ++ tr2)))) as Hrun.
  { rewrite events_app, run_tags_app. apply in_or_app. right.
    unfold run_tags, events. apply in_flat_map. exists (ERun (c_tag c) (seen_of b)). split; [|left; reflexivity].
    apply in_flat_map. exists (LResponse i b, complete c b). split; [exact Hin|].
    cbn [snd]. unfold complete. rewrite Hr, Hd. left. reflexivity. }
  apply (count_occ_In Nat.eq_dec) in Hrun. lia.
Qed.

(* ------------------------------------------------------------------ the closure sees the response with its own id *)
Lemma in_run_complete c sn d b : In (ERun c sn) (complete d b) -> c = c_tag d /\ sn = seen_of b.
Proof.
  unfold complete. destruct (c_resp d), (c_done d); cbn; intros H;
    repeat (destruct H as [H|H]; try discriminate; try (inversion H; auto)); try contradiction.
Qed.

Lemma step_run s l s' ev c sn :
  step s l = Some (s', ev) -> In (ERun c sn) ev ->
  exists i b d, l = LResponse i b /\ lookup i (outs s) = Some d /\ c = c_tag d /\ sn = seen_of b.
Proof.
  destruct l as [t d|t|t|i b|r|k m|i]; intros H Hin.
  - apply step_fetch in H. destruct H as (_ & _ & ->). destruct Hin as [E|[]]; discriminate.
  - apply step_register in H. destruct H as (i & d & _ & _ & ->). destruct Hin as [E|[]]; discriminate.
  - apply step_send in H. destruct H as (i & d & _ & _ & ->). destruct Hin as [E|[]]; discriminate.
  - apply step_response in H. destruct H as (_ & [(d & Hl & _ & ->)|(_ & _ & ->)]); [|destruct Hin].
    apply in_run_complete in Hin. destruct Hin. exists i, b, d. auto.
  - apply step_request in H. destruct H as [(e & _ & _ & ->)|(q & _ & _ & ->)]; destruct Hin as [E|[]]; discriminate.
  - apply step_done in H. destruct H as (i & _ & _ & ->). destruct Hin as [E|[]]; discriminate.
  - apply step_other in H. destruct H as (_ & ->). destruct Hin.
Qed.

Definition hinv (past : list event) (s : state) : Prop :=
  (forall i c, lookup i (outs s) = Some c -> exists t, In (EFetch t i (c_tag c)) past) /\
  (forall t i c, tget t (threads s) = TFetched i c -> In (EFetch t i (c_tag c)) past).

Lemma hinv_init svcs : hinv [] (init svcs).
Proof. split; cbn; intros; discriminate. Qed.

Lemma hinv_step past s l s' ev : hinv past s -> step s l = Some (s', ev) -> hinv (past ++ ev) s'.
Proof.
  intros [HO HT] H. destruct l as [t d|t|t|i b|r|k m|i].
  - apply step_fetch in H. destruct H as (_ & -> & ->). split; cbn [outs threads].
    + intros i c Hl. destruct (HO _ _ Hl) as [u Hu]. exists u. apply in_or_app. auto.
    + intros u i c. rewrite tget_tset. destruct (Nat.eq_dec t u) as [->|Hne]; intros Hu.
      * inversion Hu; subst. apply in_or_app. right. left. reflexivity.
      * apply in_or_app. left. eapply HT; eauto.
  - apply step_register in H. destruct H as (i & d & Hg & -> & ->). split; cbn [outs threads].
    + intros j c. destruct (Z.eq_dec i j) as [->|Hne].
      * rewrite lookup_insert_same. intros E; inversion E; subst. exists t. apply in_or_app. left. eapply HT; eauto.
      * rewrite lookup_insert_other by exact Hne. intros Hl. destruct (HO _ _ Hl) as [u Hu]. exists u. apply in_or_app. auto.
    + intros u j c. rewrite tget_tset. destruct (Nat.eq_dec t u) as [->|Hne]; intros Hu; [discriminate|].
      apply in_or_app. left. eapply HT; eauto.
  - apply step_send in H. destruct H as (i & d & Hg & -> & ->). split; cbn [outs threads].
    + intros j c Hl. destruct (HO _ _ Hl) as [u Hu]. exists u. apply in_or_app. auto.
    + intros u j c. rewrite tget_tset. destruct (Nat.eq_dec t u) as [->|Hne]; intros Hu; [discriminate|].
      apply in_or_app. left. eapply HT; eauto.
  - apply step_response in H. destruct H as (_ & [(d & Hl & -> & ->)|(_ & -> & ->)]); split; cbn [outs threads].
    + intros j c. destruct (Z.eq_dec i j) as [->|Hne]; [rewrite lookup_remove_same; discriminate|].
      rewrite lookup_remove_other by exact Hne. intros Hj. destruct (HO _ _ Hj) as [u Hu]. exists u. apply in_or_app. auto.
    + intros u j c Hu. apply in_or_app. left. eapply HT; eauto.
    + intros j c Hj. destruct (HO _ _ Hj) as [u Hu]. exists u. apply in_or_app. auto.
    + intros u j c Hu. apply in_or_app. left. eapply HT; eauto.
  - apply step_request in H. destruct H as [(e & _ & -> & ->)|(q & _ & -> & ->)]; split; cbn [outs threads];
      try (intros j c Hj; destruct (HO _ _ Hj) as [u Hu]; exists u; apply in_or_app; auto);
      try (intros u j c Hu; apply in_or_app; left; eapply HT; eauto).
  - apply step_done in H. destruct H as (i & _ & -> & ->). split; cbn [outs threads].
    + intros j c Hj. destruct (HO _ _ Hj) as [u Hu]. exists u. apply in_or_app. auto.
    + intros u j c Hu. apply in_or_app. left. eapply HT; eauto.
  - apply step_other in H. destruct H as (-> & ->). rewrite app_nil_r. split; assumption.
Qed.

Lemma run_own_id past s ls s' tr :
  hinv past s -> exec s ls = Some (s', tr) ->
  forall l ev c sn, In (l, ev) tr -> In (ERun c sn) ev ->
  exists i b t, l = LResponse i b /\ sn = seen_of b /\ In (EFetch t i c) (past ++ events tr).
Proof.
  revert past s tr. induction ls as [|l0 r IH]; intros past s tr Hh H l ev c sn Hin Hrun.
  - inversion H; subst. destruct Hin.
  - apply exec_cons in H. destruct H as (s1 & ev0 & tr' & Hs & He & ->).
    destruct Hin as [E|Hin].
    + inversion E; subst l0 ev0. destruct (step_run _ _ _ _ _ _ Hs Hrun) as (i & b & d & -> & Hl & -> & ->).
      destruct (proj1 Hh _ _ Hl) as [t Ht]. exists i, b, t. repeat split. apply in_or_app. auto.
    + destruct (IH (past ++ ev0) s1 tr' (hinv_step _ _ _ _ _ Hh Hs) He l ev c sn Hin Hrun) as (i & b & t & -> & -> & Hf).
      exists i, b, t. repeat split. rewrite events_cons, app_assoc. exact Hf.
Qed.

(* each call is fetched once: EFetch events correspond one to one to LFetch labels *)
Definition efetch_tags (evs : list event) : list tag :=
  flat_map (fun e => match e with EFetch _ _ c => [c] | _ => [] end) evs.

Lemma step_efetch s l s' ev : step s l = Some (s', ev) -> efetch_tags ev = fetch_tags [l].
Proof.
  destruct l as [t d|t|t|i b|r|k m|i]; intros H.
  - apply step_fetch in H. destruct H as (_ & _ & ->). reflexivity.
  - apply step_register in H. destruct H as (i & d & _ & _ & ->). reflexivity.
  - apply step_send in H. destruct H as (i & d & _ & _ & ->). reflexivity.
  - apply step_response in H. destruct H as (_ & [(d & _ & _ & ->)|(_ & _ & ->)]); [|reflexivity].
    unfold complete. destruct (c_resp d), (c_done d); reflexivity.
  - apply step_request in H. destruct H as [(e & _ & _ & ->)|(q & _ & _ & ->)]; reflexivity.
  - apply step_done in H. destruct H as (i & _ & _ & ->). reflexivity.
  - apply step_other in H. destruct H as (_ & ->). reflexivity.
Qed.

Lemma exec_efetch s ls s' tr : exec s ls = Some (s', tr) -> efetch_tags (events tr) = fetch_tags ls.
Proof.
  revert s tr. induction ls as [|l r IH]; intros s tr H.
  - inversion H; subst. reflexivity.
  - apply exec_cons in H. destruct H as (s1 & ev & tr' & Hs & He & ->).
    rewrite events_cons, fetch_tags_cons. unfold efetch_tags. rewrite flat_map_app.
    fold (efetch_tags ev). fold (efetch_tags (events tr')). erewrite step_efetch, IH; eauto.
Qed.

Lemma NoDup_app_disj {A} (l1 l2 : list A) a : NoDup (l1 ++ l2) -> In a l1 -> In a l2 -> False.
Proof.
  induction l1 as [|h t IH]; intros Hnd H1 H2; [destruct H1|].
  cbn [app] in Hnd. inversion Hnd; subst. destruct H1 as [->|H1].
  - apply H3. apply in_or_app. auto.
  - apply IH; assumption.
Qed.

Lemma NoDup_app_tail {A} (l1 l2 : list A) : NoDup (l1 ++ l2) -> NoDup l2.
Proof. induction l1 as [|h t IH]; cbn [app]; intros H; [exact H|]. inversion H; auto. Qed.

Lemma efetch_tags_cons e r : efetch_tags (e :: r) = efetch_tags [e] ++ efetch_tags r.
Proof. unfold efetch_tags. cbn [flat_map]. rewrite app_nil_r. reflexivity. Qed.

Lemma efetch_unique evs t1 i1 t2 i2 c :
  NoDup (efetch_tags evs) -> In (EFetch t1 i1 c) evs -> In (EFetch t2 i2 c) evs -> i1 = i2.
Proof.
  induction evs as [|e r IH]; intros Hnd H1 H2; [destruct H1|].
  rewrite efetch_tags_cons in Hnd.
  assert (forall t i, In (EFetch t i c) r -> In c (efetch_tags r)) as Hin.
  { intros t i Hi. unfold efetch_tags. apply in_flat_map. exists (EFetch t i c). split; [exact Hi|left; reflexivity]. }
  destruct H1 as [->|H1], H2 as [E|H2].
  - inversion E. reflexivity.
  - exfalso. eapply (NoDup_app_disj _ _ c Hnd); [left; reflexivity|eauto].
  - subst e. exfalso. eapply (NoDup_app_disj _ _ c Hnd); [left; reflexivity|eauto].
  - apply IH; auto. eapply NoDup_app_tail; eauto.
Qed.

Lemma closure_gets_own_id svcs ls s' tr l ev c sn :
  exec (init svcs) ls = Some (s', tr) ->
  In (l, ev) tr -> In (ERun c sn) ev ->
  exists i b t,
    l = LResponse i b /\ sn = seen_of b /\ In (EFetch t i c) (events tr) /\
    (NoDup (fetch_tags ls) -> forall t' i', In (EFetch t' i' c) (events tr) -> i' = i).
Proof.
  intros H Hin Hrun.
  destruct (run_own_id [] _ _ _ _ (hinv_init svcs) H l ev c sn Hin Hrun) as (i & b & t & -> & -> & Hf).
  cbn [app] in Hf. exists i, b, t. repeat split; auto.
  intros Hnd t' i' Hf'. rewrite <- (exec_efetch _ _ _ _ H) in Hnd. eapply efetch_unique; eauto.
Qed.

(* ------------------------------------------------------------------ unknown / consumed ids *)
Definition dead (i : Z) (s : state) : Prop :=
  lookup i (outs s) = None /\ i <= next_id s /\ forall t c, tget t (threads s) <> TFetched i c.

Lemma dead_step i s l s' ev : dead i s -> step s l = Some (s', ev) -> dead i s'.
Proof.
  intros (Hl & Hle & Ht) H. destruct l as [t d|t|t|j b|r|k m|j].
  - apply step_fetch in H. destruct H as (_ & -> & _). repeat split; cbn [next_id outs threads]; [exact Hl|lia|].
    intros u c. rewrite tget_tset. destruct (Nat.eq_dec t u); [intros E; inversion E; lia|apply Ht].
  - apply step_register in H. destruct H as (j & d & Hg & -> & _). repeat split; cbn [next_id outs threads]; [|exact Hle|].
    + assert (j <> i) as Hji by (intros ->; eapply Ht; eauto).
      rewrite lookup_insert_other by exact Hji. exact Hl.
    + intros u c. rewrite tget_tset. destruct (Nat.eq_dec t u); [discriminate|apply Ht].
  - apply step_send in H. destruct H as (j & d & Hg & -> & _). repeat split; cbn [next_id outs threads]; [exact Hl|exact Hle|].
    intros u c. rewrite tget_tset. destruct (Nat.eq_dec t u); [discriminate|apply Ht].
  - apply step_response in H. destruct H as (_ & [(d & _ & -> & _)|(_ & -> & _)]); [|repeat split; assumption].
    repeat split; cbn [next_id outs threads]; [|exact Hle|exact Ht].
    destruct (Z.eq_dec j i) as [->|Hne]; [apply lookup_remove_same|].
    rewrite lookup_remove_other by exact Hne. exact Hl.
  - apply step_request in H. destruct H as [(e & _ & -> & _)|(q & _ & -> & _)]; repeat split; assumption.
  - apply step_done in H. destruct H as (j & _ & -> & _). repeat split; assumption.
  - apply step_other in H. destruct H as (-> & _). repeat split; assumption.
Qed.

Lemma dead_exec i s ls s' tr : dead i s -> exec s ls = Some (s', tr) -> dead i s'.
Proof.
  revert s tr. induction ls as [|l r IH]; intros s tr Hd H.
  - inversion H; subst. exact Hd.
  - apply exec_cons in H. destruct H as (s1 & ev & tr' & Hs & He & _). eapply IH; [|exact He]. eapply dead_step; eauto.
Qed.

Lemma consumed_is_dead s i c b s' ev :
  inv s -> lookup i (outs s) = Some c -> step s (LResponse i b) = Some (s', ev) -> dead i s'.
Proof.
  intros [HK HF HD] Hl H. apply step_response in H. destruct H as (_ & [(d & _ & -> & _)|(Hn & _)]); [|congruence].
  repeat split; cbn [next_id outs threads].
  - apply lookup_remove_same.
  - eapply HK; eauto.
  - intros t d' Hg. apply HF in Hg. destruct Hg. congruence.
Qed.

Lemma unknown_or_consumed_ignored :
  (forall s i b, lookup i (outs s) = None -> body_ok b -> step s (LResponse i b) = Some (s, [])) /\
  (forall svcs l1 s1 tr1 i c b1 l2 s2 tr2 b2,
      exec (init svcs) l1 = Some (s1, tr1) -> lookup i (outs s1) = Some c ->
      exec s1 (LResponse i b1 :: l2) = Some (s2, tr2) -> body_ok b2 ->
      step s2 (LResponse i b2) = Some (s2, [])).
Proof.
  split; [exact step_response_miss|].
  intros svcs l1 s1 tr1 i c b1 l2 s2 tr2 b2 H1 Hl H2 Hb.
  apply exec_cons in H2. destruct H2 as (s1' & ev & tr' & Hs & He & _).
  pose proof (consumed_is_dead _ _ _ _ _ _ (inv_exec _ _ _ _ (inv_init svcs) H1) Hl Hs) as Hd.
  apply step_response_miss; [|exact Hb]. exact (proj1 (dead_exec _ _ _ _ _ Hd He)).
Qed.

(* ------------------------------------------------------------------ serving side *)
Lemma step_services s l s' ev : step s l = Some (s', ev) -> services s' = services s.
Proof.
  destruct l as [t d|t|t|i b|r|k m|i]; intros H.
  - apply step_fetch in H. destruct H as (_ & -> & _). reflexivity.
  - apply step_register in H. destruct H as (i & d & _ & -> & _). reflexivity.
  - apply step_send in H. destruct H as (i & d & _ & -> & _). reflexivity.
  - apply step_response in H. destruct H as (_ & [(d & _ & -> & _)|(_ & -> & _)]); reflexivity.
  - apply step_request in H. destruct H as [(e & _ & -> & _)|(q & _ & -> & _)]; reflexivity.
  - apply step_done in H. destruct H as (i & _ & -> & _). reflexivity.
  - apply step_other in H. destruct H as (-> & _). reflexivity.
Qed.

(* every entry of a trace is a step of the model taken in a state with the same services_ *)
Lemma exec_in_step s ls s' tr l ev :
  exec s ls = Some (s', tr) -> In (l, ev) tr ->
  exists s0 s1, step s0 l = Some (s1, ev) /\ services s0 = services s.
Proof.
  revert s tr. induction ls as [|l0 r IH]; intros s tr H Hin.
  - inversion H; subst. destruct Hin.
  - apply exec_cons in H. destruct H as (s1 & ev0 & tr' & Hs & He & ->).
    destruct Hin as [E|Hin].
    + inversion E; subst. eauto.
    + destruct (IH _ _ He Hin) as (s0 & s2 & Hst & Hsv). exists s0, s2. split; [exact Hst|].
      rewrite Hsv. eapply step_services; eauto.
Qed.

Lemma step_reply_label s l s' ev i r :
  step s l = Some (s', ev) -> In (ESendResponse i r) ev -> replies_label l = true.
Proof.
  destruct l as [t d|t|t|j b|q|k m|j]; intros H Hin; try reflexivity; exfalso.
  - apply step_fetch in H. destruct H as (_ & _ & ->). destruct Hin as [E|[]]; discriminate.
  - apply step_register in H. destruct H as (j & d & _ & _ & ->). destruct Hin as [E|[]]; discriminate.
  - apply step_send in H. destruct H as (j & d & _ & _ & ->). destruct Hin as [E|[]]; discriminate.
  - apply step_response in H. destruct H as (_ & [(d & _ & _ & ->)|(_ & _ & ->)]); [|destruct Hin].
    unfold complete in Hin. destruct (c_resp d), (c_done d); cbn in Hin;
      repeat (destruct Hin as [Hin|Hin]; try discriminate); contradiction.
  - apply step_other in H. destruct H as (_ & ->). destruct Hin.
Qed.

(* tokens are fresh *)
Lemma step_tok s l s' ev :
  step s l = Some (s', ev) ->
  (dispatch_toks ev = [] /\ next_tok s' = next_tok s) \/ (dispatch_toks ev = [next_tok s] /\ next_tok s' = S (next_tok s)).
Proof.
  destruct l as [t d|t|t|i b|r|k m|i]; intros H.
  - apply step_fetch in H. destruct H as (_ & -> & ->). left. auto.
  - apply step_register in H. destruct H as (i & d & _ & -> & ->). left. auto.
  - apply step_send in H. destruct H as (i & d & _ & -> & ->). left. auto.
  - apply step_response in H. destruct H as (_ & [(d & _ & -> & ->)|(_ & -> & ->)]); left; split; auto.
    unfold complete. destruct (c_resp d), (c_done d); reflexivity.
  - apply step_request in H. destruct H as [(e & _ & -> & ->)|(q & _ & -> & ->)]; [left|right]; auto.
  - apply step_done in H. destruct H as (i & _ & -> & ->). left. auto.
  - apply step_other in H. destruct H as (-> & ->). left. auto.
Qed.

Lemma dispatch_toks_app a b : dispatch_toks (a ++ b) = dispatch_toks a ++ dispatch_toks b.
Proof. unfold dispatch_toks. apply flat_map_app. Qed.

Lemma exec_toks s ls s' tr :
  exec s ls = Some (s', tr) ->
  (next_tok s <= next_tok s')%nat /\
  (forall k, In k (dispatch_toks (events tr)) -> (next_tok s <= k < next_tok s')%nat) /\
  NoDup (dispatch_toks (events tr)).
Proof.
  revert s tr. induction ls as [|l r IH]; intros s tr H.
  - inversion H; subst. cbn. split; [lia|]. split; [intros k []|constructor].
  - apply exec_cons in H. destruct H as (s1 & ev & tr' & Hs & He & ->).
    apply IH in He. destruct He as (Hle & Hin & Hnd).
    rewrite events_cons, dispatch_toks_app.
    apply step_tok in Hs. destruct Hs as [(-> & Hn)|(-> & Hn)]; cbn [app].
    + rewrite <- Hn. auto.
    + split; [lia|]. split.
      * intros k [<-|Hk]; [lia|]. apply Hin in Hk. lia.
      * constructor; [|exact Hnd]. intros Hk. apply Hin in Hk. lia.
Qed.

(* a done callback runs at most once: its token leaves [pending] for good *)
Definition pinv (s : state) : Prop := forall k i, nlookup k (pending s) = Some i -> (k < next_tok s)%nat.
Definition gone (k : tok) (s : state) : Prop := nlookup k (pending s) = None /\ (k < next_tok s)%nat.

Lemma pinv_step s l s' ev : pinv s -> step s l = Some (s', ev) -> pinv s'.
Proof.
  intros HP H. destruct l as [t d|t|t|i b|r|k m|i].
  - apply step_fetch in H. destruct H as (_ & -> & _). exact HP.
  - apply step_register in H. destruct H as (i & d & _ & -> & _). exact HP.
  - apply step_send in H. destruct H as (i & d & _ & -> & _). exact HP.
  - apply step_response in H. destruct H as (_ & [(d & _ & -> & _)|(_ & -> & _)]); exact HP.
  - apply step_request in H. destruct H as [(e & _ & -> & _)|(q & _ & -> & _)]; [exact HP|].
    intros k i. cbn [pending next_tok nlookup]. destruct (Nat.eqb k (next_tok s)) eqn:E.
    + apply Nat.eqb_eq in E. lia.
    + intros Hk. apply HP in Hk. lia.
  - apply step_done in H. destruct H as (i & _ & -> & _). intros j i'. cbn [pending next_tok].
    destruct (Nat.eq_dec k j) as [->|Hne]; [rewrite nlookup_nremove_same; discriminate|].
    rewrite nlookup_nremove_other by exact Hne. apply HP.
  - apply step_other in H. destruct H as (-> & _). exact HP.
Qed.

Lemma gone_step k s l s' ev : gone k s -> step s l = Some (s', ev) -> gone k s'.
Proof.
  intros [Hn Hlt] H. destruct l as [t d|t|t|i b|r|j m|i].
  - apply step_fetch in H. destruct H as (_ & -> & _). split; assumption.
  - apply step_register in H. destruct H as (i & d & _ & -> & _). split; assumption.
  - apply step_send in H. destruct H as (i & d & _ & -> & _). split; assumption.
  - apply step_response in H. destruct H as (_ & [(d & _ & -> & _)|(_ & -> & _)]); split; assumption.
  - apply step_request in H. destruct H as [(e & _ & -> & _)|(q & _ & -> & _)]; [split; assumption|].
    split; cbn [pending next_tok nlookup]; [|lia].
    destruct (Nat.eqb k (next_tok s)) eqn:E; [apply Nat.eqb_eq in E; lia|exact Hn].
  - apply step_done in H. destruct H as (i & _ & -> & _). split; cbn [pending next_tok]; [|exact Hlt].
    destruct (Nat.eq_dec j k) as [->|Hne]; [apply nlookup_nremove_same|].
    rewrite nlookup_nremove_other by exact Hne. exact Hn.
  - apply step_other in H. destruct H as (-> & _). split; assumption.
Qed.

Lemma gone_never_done k s ls s' tr : gone k s -> exec s ls = Some (s', tr) -> ~ In k (done_toks ls).
Proof.
  revert s tr. induction ls as [|l r IH]; intros s tr Hg H Hin; [destruct Hin|].
  apply exec_cons in H. destruct H as (s1 & ev & tr' & Hs & He & _).
  assert (In k (done_toks [l]) \/ In k (done_toks r)) as [Hk|Hk].
  { unfold done_toks in *. cbn [flat_map] in *. rewrite app_nil_r. apply in_app_or. exact Hin. }
  - destruct l as [t d|t|t|i b|q|j m|i]; try (destruct Hk; fail).
    destruct Hk as [->|[]]. apply step_done in Hs. destruct Hs as (i & Hl & _). destruct Hg. congruence.
  - eapply (IH s1 tr'); eauto using gone_step.
Qed.

Lemma done_at_most_once s ls s' tr : pinv s -> exec s ls = Some (s', tr) -> NoDup (done_toks ls).
Proof.
  revert s tr. induction ls as [|l r IH]; intros s tr HP H; [constructor|].
  apply exec_cons in H. destruct H as (s1 & ev & tr' & Hs & He & _).
  pose proof (IH _ _ (pinv_step _ _ _ _ HP Hs) He) as Hnd.
  destruct l as [t d|t|t|i b|q|k m|i]; try exact Hnd.
  unfold done_toks in *. cbn [flat_map app]. constructor; [|exact Hnd].
  eapply gone_never_done; [|exact He].
  apply step_done in Hs. destruct Hs as (i & Hl & -> & _). split; cbn [pending next_tok].
  - apply nlookup_nremove_same.
  - eapply HP; eauto.
Qed.

(* the reply sent by done callback k carries the id of the request that created k *)
Definition phinv (past : list event) (s : state) : Prop :=
  forall k i, nlookup k (pending s) = Some i -> exists svc meth q, In (EDispatch k i svc meth q) past.

Lemma phinv_step past s l s' ev : phinv past s -> step s l = Some (s', ev) -> phinv (past ++ ev) s'.
Proof.
  intros HP H.
  assert (forall k i, nlookup k (pending s) = Some i -> exists svc meth q, In (EDispatch k i svc meth q) (past ++ ev)) as HP'.
  { intros k i Hk. destruct (HP _ _ Hk) as (svc & meth & q & Hin). exists svc, meth, q. apply in_or_app. auto. }
  destruct l as [t d|t|t|i b|r|k m|i].
  - apply step_fetch in H. destruct H as (_ & -> & _). exact HP'.
  - apply step_register in H. destruct H as (i & d & _ & -> & _). exact HP'.
  - apply step_send in H. destruct H as (i & d & _ & -> & _). exact HP'.
  - apply step_response in H. destruct H as (_ & [(d & _ & -> & _)|(_ & -> & _)]); exact HP'.
  - apply step_request in H. destruct H as [(e & _ & -> & _)|(q & _ & -> & ->)]; [exact HP'|].
    intros k i. cbn [pending nlookup]. destruct (Nat.eqb k (next_tok s)) eqn:E.
    + apply Nat.eqb_eq in E. subst k. intros Hk. inversion Hk; subst.
      exists (rq_svc r), (rq_meth r), q. apply in_or_app. right. left. reflexivity.
    + intros Hk. destruct (HP _ _ Hk) as (svc & meth & q' & Hin). exists svc, meth, q'. apply in_or_app. auto.
  - apply step_done in H. destruct H as (i & _ & -> & _). intros j i'. cbn [pending].
    destruct (Nat.eq_dec k j) as [->|Hne]; [rewrite nlookup_nremove_same; discriminate|].
    rewrite nlookup_nremove_other by exact Hne. apply HP'.
  - apply step_other in H. destruct H as (-> & _). exact HP'.
Qed.

Lemma done_replies past s ls s' tr :
  phinv past s -> exec s ls = Some (s', tr) ->
  forall k m ev, In (LDone k m, ev) tr ->
  exists i svc meth q, In (EDispatch k i svc meth q) (past ++ events tr) /\ ev = [ESendResponse i (RReply m)].
Proof.
  revert past s tr. induction ls as [|l0 r IH]; intros past s tr Hh H k m ev Hin.
  - inversion H; subst. destruct Hin.
  - apply exec_cons in H. destruct H as (s1 & ev0 & tr' & Hs & He & ->).
    destruct Hin as [E|Hin].
    + inversion E; subst l0 ev0. apply step_done in Hs. destruct Hs as (i & Hl & _ & ->).
      destruct (Hh _ _ Hl) as (svc & meth & q & Hd). exists i, svc, meth, q. split; [|reflexivity].
      apply in_or_app. auto.
    + destruct (IH (past ++ ev0) s1 tr' (phinv_step _ _ _ _ _ Hh Hs) He k m ev Hin) as (i & svc & meth & q & Hd & ->).
      exists i, svc, meth, q. split; [|reflexivity]. rewrite events_cons, app_assoc. exact Hd.
Qed.

Lemma server_one_reply svcs ls s' tr :
  exec (init svcs) ls = Some (s', tr) ->
  (* a REQUEST is answered at once with an error code and its id, or handed to the service with a fresh callback *)
  (forall rq ev, In (LRequest rq, ev) tr ->
     (exists e, resolve svcs rq = inl e /\ (e = NO_SERVICE \/ e = NO_METHOD \/ e = INVALID_REQUEST) /\
                ev = [ESendResponse (rq_id rq) (RError e)]) \/
     (exists k q, resolve svcs rq = inr q /\ ev = [EDispatch k (rq_id rq) (rq_svc rq) (rq_meth rq) q])) /\
  NoDup (dispatch_toks (events tr)) /\
  (* running callback k sends exactly the service's reply with the id of the request that created k *)
  (forall k m ev, In (LDone k m, ev) tr ->
     exists i svc meth q, In (EDispatch k i svc meth q) (events tr) /\ ev = [ESendResponse i (RReply m)]) /\
  NoDup (done_toks ls) /\
  (* nothing else ever sends a RESPONSE *)
  (forall l ev i r, In (l, ev) tr -> In (ESendResponse i r) ev -> replies_label l = true).
Proof.
  intros H. repeat split.
  - intros rq ev Hin. destruct (exec_in_step _ _ _ _ _ _ H Hin) as (s0 & s1 & Hs & Hsv).
    change (services (init svcs)) with svcs in Hsv.
    apply step_request in Hs. rewrite Hsv in Hs. destruct Hs as [(e & Hr & _ & ->)|(q & Hr & _ & ->)].
    + left. exists e. repeat split; auto. eapply resolve_error_code; eauto.
    + right. eauto.
  - apply (exec_toks _ _ _ _ H).
  - intros k m ev Hin.
    assert (phinv [] (init svcs)) as Hp by (intros k0 i0 E; discriminate).
    destruct (done_replies [] _ _ _ _ Hp H k m ev Hin) as (i & svc & meth & q & Hd & ->). eauto 8.
  - eapply done_at_most_once; [|exact H]. intros k i E. discriminate.
  - intros l ev i r Hin Hr. destruct (exec_in_step _ _ _ _ _ _ H Hin) as (s0 & s1 & Hs & _).
    eapply step_reply_label; eauto.
Qed.

(* ------------------------------------------------------------------ the response object is deleted at most once *)
Lemma dels_complete c d b : (cnt c (del_tags (complete d b)) <= cnt c [c_tag d])%nat.
Proof.
  unfold complete. destruct (c_resp d), (c_done d); cbn [del_tags flat_map app]; cbn; lia.
Qed.

Lemma step_budget_del c s l s' ev :
  step s l = Some (s', ev) ->
  (cnt c (del_tags ev) + cnt c (live s') <= cnt c (live s) + cnt c (fetch_tags [l]))%nat.
Proof.
  unfold live. rewrite !cnt_app.
  destruct l as [t d|t|t|i b|r|k m|i]; intros H.
  - apply step_fetch in H. destruct H as (Hg & -> & ->). cbn [outs threads del_tags flat_map app].
    rewrite cnt_tset. pose proof (cnt_tget c t (threads s)) as Ht. rewrite Hg in Ht.
    cbn [ts_tags fetch_tags flat_map app] in *. change (cnt c []) with 0%nat in *. lia.
  - apply step_register in H. destruct H as (i & d & Hg & -> & ->). cbn [outs threads del_tags flat_map app].
    rewrite cnt_tset. pose proof (cnt_tget c t (threads s)) as Ht. rewrite Hg in Ht.
    pose proof (cnt_insert c i d (outs s)).
    cbn [ts_tags fetch_tags flat_map app] in *. change (cnt c []) with 0%nat in *. lia.
  - apply step_send in H. destruct H as (i & d & Hg & -> & ->). cbn [outs threads del_tags flat_map app].
    rewrite cnt_tset. pose proof (cnt_nremove_le c t (threads s)).
    cbn [ts_tags fetch_tags flat_map app] in *. change (cnt c []) with 0%nat in *. lia.
  - apply step_response in H. destruct H as (_ & [(d & Hl & -> & ->)|(_ & -> & ->)]); cbn [outs threads].
    + pose proof (cnt_remove c i d (outs s) Hl). pose proof (dels_complete c d b). lia.
    + cbn [del_tags flat_map]. change (cnt c []) with 0%nat. lia.
  - apply step_request in H. destruct H as [(e & _ & -> & ->)|(q & _ & -> & ->)]; cbn [outs threads del_tags flat_map app];
      change (cnt c []) with 0%nat; lia.
  - apply step_done in H. destruct H as (i & _ & -> & ->). cbn [outs threads del_tags flat_map app].
    change (cnt c []) with 0%nat. lia.
  - apply step_other in H. destruct H as (-> & ->). cbn [del_tags flat_map]. change (cnt c []) with 0%nat. lia.
Qed.

Lemma del_tags_app a b : del_tags (a ++ b) = del_tags a ++ del_tags b.
Proof. unfold del_tags. apply flat_map_app. Qed.

Lemma exec_budget_del c s ls s' tr :
  exec s ls = Some (s', tr) ->
  (cnt c (del_tags (events tr)) + cnt c (live s') <= cnt c (live s) + cnt c (fetch_tags ls))%nat.
Proof.
  revert s tr. induction ls as [|l r IH]; intros s tr H.
  - inversion H; subst. cbn. lia.
  - apply exec_cons in H. destruct H as (s1 & ev & tr' & Hs & He & ->).
    apply IH in He. apply (step_budget_del c) in Hs.
    rewrite events_cons, del_tags_app, fetch_tags_cons, !cnt_app. lia.
Qed.

Lemma response_deleted_at_most_once svcs ls s' tr c :
  exec (init svcs) ls = Some (s', tr) ->
  NoDup (fetch_tags ls) ->
  (count_occ Nat.eq_dec (del_tags (events tr)) c <= 1)%nat.
Proof.
  intros He Hnd. pose proof (exec_budget_del c _ _ _ _ He) as Hb.
  pose proof (proj1 (NoDup_count_occ Nat.eq_dec (fetch_tags ls)) Hnd c) as Hc.
  unfold cnt in *. cbn in Hb. lia.
Qed.

Lemma deleted_once_if_answered svcs l1 l2 s1 tr1 s' tr i c :
  exec (init svcs) l1 = Some (s1, tr1) ->
  lookup i (outs s1) = Some c ->
  exec (init svcs) (l1 ++ l2) = Some (s', tr) ->
  (exists b, In (LResponse i b) l2) ->
  NoDup (fetch_tags (l1 ++ l2)) ->
  count_occ Nat.eq_dec (del_tags (events tr)) (c_tag c) = 1%nat.
Proof.
  intros H1 Hl H Hb Hnd.
  pose proof (registered_in_contract _ _ _ _ _ _ H1 Hl) as Hr. unfold in_contract in Hr.
  pose proof (response_deleted_at_most_once _ _ _ _ (c_tag c) H Hnd) as Hle.
  apply exec_app in H. destruct H as (s1' & tr1' & tr2 & H1' & H2 & ->).
  rewrite H1 in H1'. inversion H1'; subst s1' tr1'.
  destruct (answered _ _ _ _ i c (inv_exec _ _ _ _ (inv_init svcs) H1) Hl H2 Hb) as [b Hin].
  assert (In (c_tag c) (del_tags (events (tr1 ++ tr2)))) as Hdel.
  { rewrite events_app, del_tags_app. apply in_or_app. right.
    unfold del_tags, events. apply in_flat_map. exists (EDelete (c_tag c)). split; [|left; reflexivity].
    apply in_flat_map. exists (LResponse i b, complete c b). split; [exact Hin|].
    cbn [snd]. unfold complete. rewrite Hr. apply in_or_app. right. left. reflexivity. }
  apply (count_occ_In Nat.eq_dec) in Hdel. lia.
Qed.

(* ------------------------------------------------------------------ which labels are rejected, exactly *)
Definition rejected (s : state) (l : label) : Prop :=
  match l with
  | LFetch t c => tget t (threads s) <> TIdle \/ in_contract c = false
  | LRegister t => forall i c, tget t (threads s) <> TFetched i c
  | LSend t => forall i c, tget t (threads s) <> TRegistered i c
  | LResponse i b => ~ body_ok b
  | LDone k m => nlookup k (pending s) = None
  | LRequest _ => False
  | LOther _ => False
  end.

Lemma rejected_iff s l : step s l = None <-> rejected s l.
Proof.
  unfold step. destruct l as [t c|t|t|i b|r|k m|i]; cbn [step_gen rejected orb].
  - destruct (in_contract c) eqn:Ec.
    + destruct (tget t (threads s)) eqn:Et.
      * split; [discriminate|intros [H|H]; [congruence|discriminate]].
      * split; [intros _; left; discriminate|reflexivity].
      * split; [intros _; left; discriminate|reflexivity].
    + split; [intros _; right; reflexivity|reflexivity].
  - destruct (tget t (threads s)) as [|i c|i c] eqn:Et.
    + split; [intros _ i0 c0; discriminate|reflexivity].
    + split; [discriminate|intros H; exfalso; apply (H i c); reflexivity].
    + split; [intros _ i0 c0; discriminate|reflexivity].
  - destruct (tget t (threads s)) as [|i c|i c] eqn:Et.
    + split; [intros _ i0 c0; discriminate|reflexivity].
    + split; [intros _ i0 c0; discriminate|reflexivity].
    + split; [discriminate|intros H; exfalso; apply (H i c); reflexivity].
  - unfold body_ok. destruct (rb_resp b) as [p|] eqn:E1.
    + destruct (lookup i (outs s)); (split; [discriminate|intros H; exfalso; apply H; left; discriminate]).
    + destruct (rb_err b) as [e|] eqn:E2.
      * destruct (lookup i (outs s)); (split; [discriminate|intros H; exfalso; apply H; right; discriminate]).
      * split; [intros _ [H|H]; congruence|reflexivity].
  - destruct (resolve (services s) r); (split; [discriminate|intros []]).
  - destruct (nlookup k (pending s)); split; try discriminate; auto.
  - split; [discriminate|intros []].
Qed.

Lemma history_in_contract s ls s' tr t c :
  exec s ls = Some (s', tr) -> In (LFetch t c) ls -> in_contract c = true.
Proof.
  revert s tr. induction ls as [|l r IH]; intros s tr H Hin; [destruct Hin|].
  apply exec_cons in H. destruct H as (s1 & ev & tr' & Hs & He & _).
  destruct Hin as [->|Hin]; [eapply step_fetch_contract; eauto|eapply IH; eauto].
Qed.

(* ------------------------------------------------------------------ an id nobody fetched is never registered *)
Lemma exec_hinv past s ls s' tr : hinv past s -> exec s ls = Some (s', tr) -> hinv (past ++ events tr) s'.
Proof.
  revert past s tr. induction ls as [|l r IH]; intros past s tr Hh H.
  - inversion H; subst. cbn. rewrite app_nil_r. exact Hh.
  - apply exec_cons in H. destruct H as (s1 & ev & tr' & Hs & He & ->).
    rewrite events_cons, app_assoc. eapply IH; [|exact He]. eapply hinv_step; eauto.
Qed.

Lemma in_fetched_ids t i c evs : In (EFetch t i c) evs -> In i (fetched_ids evs).
Proof.
  intros H. unfold fetched_ids. apply in_flat_map. exists (EFetch t i c). split; [exact H|left; reflexivity].
Qed.

Lemma never_fetched_unknown svcs ls s tr i :
  exec (init svcs) ls = Some (s, tr) -> ~ In i (fetched_ids (events tr)) -> lookup i (outs s) = None.
Proof.
  intros H Hn. pose proof (exec_hinv [] _ _ _ _ (hinv_init svcs) H) as [HO _]. cbn [app] in HO.
  destruct (lookup i (outs s)) as [c|] eqn:E; [|reflexivity].
  destruct (HO _ _ E) as [t Ht]. exfalso. apply Hn. eapply in_fetched_ids; eauto.
Qed.

(* ------------------------------------------------------------------ registration precedes the send *)
Definition rinv (pastl : list label) (past : list event) (s : state) : Prop :=
  forall t i c, tget t (threads s) = TRegistered i c ->
    In (EFetch t i (c_tag c)) past /\ In (ERegister t i (c_tag c)) past /\
    (lookup i (outs s) = Some c \/ exists b, In (LResponse i b) pastl).

Lemma rinv_init svcs : rinv [] [] (init svcs).
Proof. intros t i c H. discriminate. Qed.

Lemma rinv_step pastl past s l s' ev :
  inv s -> hinv past s -> rinv pastl past s -> step s l = Some (s', ev) -> rinv (pastl ++ [l]) (past ++ ev) s'.
Proof.
  intros [HK HF HD] [HO HT] HR H.
  assert (forall t i c, tget t (threads s) = TRegistered i c ->
            In (EFetch t i (c_tag c)) (past ++ ev) /\ In (ERegister t i (c_tag c)) (past ++ ev) /\
            (lookup i (outs s) = Some c \/ exists b, In (LResponse i b) (pastl ++ [l]))) as HR'.
  { intros t i c Hg. destruct (HR _ _ _ Hg) as (A & B & C). repeat split; try (apply in_or_app; auto).
    destruct C as [C|[b C]]; [left; exact C|right; exists b; apply in_or_app; auto]. }
  destruct l as [t d|t|t|j b|r|k m|j].
  - apply step_fetch in H. destruct H as (_ & -> & ->). intros u i c. cbn [outs threads].
    rewrite tget_tset. destruct (Nat.eq_dec t u) as [->|Hne]; intros Hu; [discriminate|]. apply HR'. exact Hu.
  - apply step_register in H. destruct H as (j & d & Hg & -> & ->). intros u i c. cbn [outs threads].
    rewrite tget_tset. destruct (Nat.eq_dec t u) as [->|Hne]; intros Hu.
    + inversion Hu; subst. repeat split.
      * apply in_or_app. left. eapply HT; eauto.
      * apply in_or_app. right. left. reflexivity.
      * left. apply lookup_insert_same.
    + destruct (HR' _ _ _ Hu) as (A & B & C). repeat split; auto.
      destruct C as [C|C]; [left|right; exact C].
      assert (j <> i) as Hji by (intros ->; apply HF in Hg; destruct Hg; congruence).
      rewrite lookup_insert_other by exact Hji. exact C.
  - apply step_send in H. destruct H as (j & d & Hg & -> & ->). intros u i c. cbn [outs threads].
    rewrite tget_tset. destruct (Nat.eq_dec t u) as [->|Hne]; intros Hu; [discriminate|]. apply HR'. exact Hu.
  - apply step_response in H. destruct H as (_ & [(d & Hl & -> & ->)|(_ & -> & ->)]); [|rewrite app_nil_r in *; exact HR'].
    intros u i c Hu. cbn [outs threads] in *. destruct (HR' _ _ _ Hu) as (A & B & C). repeat split; auto.
    destruct (Z.eq_dec j i) as [->|Hne].
    + right. exists b. apply in_or_app. right. left. reflexivity.
    + destruct C as [C|C]; [left|right; exact C]. rewrite lookup_remove_other by exact Hne. exact C.
  - apply step_request in H. destruct H as [(e & _ & -> & ->)|(q & _ & -> & ->)]; exact HR'.
  - apply step_done in H. destruct H as (i & _ & -> & ->). exact HR'.
  - apply step_other in H. destruct H as (-> & ->). exact HR'.
Qed.

Lemma exec_rinv pastl past s ls s' tr :
  inv s -> hinv past s -> rinv pastl past s -> exec s ls = Some (s', tr) ->
  rinv (pastl ++ ls) (past ++ events tr) s'.
Proof.
  revert pastl past s tr. induction ls as [|l r IH]; intros pastl past s tr Hi Hh Hr H.
  - inversion H; subst. cbn. rewrite !app_nil_r. exact Hr.
  - apply exec_cons in H. destruct H as (s1 & ev & tr' & Hs & He & ->).
    rewrite events_cons, app_assoc. change (l :: r) with ([l] ++ r). rewrite app_assoc.
    eapply IH; [| | |exact He]; eauto using inv_step, hinv_step, rinv_step.
Qed.

Lemma registered_before_sent svcs l1 t s1 tr1 s2 ev :
  exec (init svcs) l1 = Some (s1, tr1) -> step s1 (LSend t) = Some (s2, ev) ->
  exists i c, ev = [ESendRequest i (c_svc c) (c_meth c) (c_req c)] /\
    In (EFetch t i (c_tag c)) (events tr1) /\ In (ERegister t i (c_tag c)) (events tr1) /\
    (lookup i (outs s1) = Some c \/ exists b, In (LResponse i b) l1).
Proof.
  intros H1 Hs. pose proof (exec_rinv [] [] _ _ _ _ (inv_init svcs) (hinv_init svcs) (rinv_init svcs) H1) as HR.
  cbn [app] in HR. apply step_send in Hs. destruct Hs as (i & c & Hg & _ & ->).
  destruct (HR _ _ _ Hg) as (A & B & C). exists i, c. auto.
Qed.

(* ------------------------------------------------------------------ serving side: more *)
Lemma resolve_cases svcs r :
  match resolve svcs r with
  | inl NO_SERVICE => svcs = None \/ exists m, svcs = Some m /\ find_service (rq_svc r) m = None
  | inl NO_METHOD => exists m ms, svcs = Some m /\ find_service (rq_svc r) m = Some ms /\ has_method (rq_meth r) ms = false
  | inl INVALID_REQUEST => exists m ms, svcs = Some m /\ find_service (rq_svc r) m = Some ms /\
                                        has_method (rq_meth r) ms = true /\ parse (rq_req r) = None
  | inl _ => False
  | inr q => exists m ms, svcs = Some m /\ find_service (rq_svc r) m = Some ms /\
                          has_method (rq_meth r) ms = true /\ parse (rq_req r) = Some q
  end.
Proof.
  unfold resolve. destruct svcs as [m|]; [|left; reflexivity].
  destruct (find_service (rq_svc r) m) as [ms|] eqn:E1; [|right; eauto].
  destruct (has_method (rq_meth r) ms) eqn:E2; [|eauto 6].
  destruct (parse (rq_req r)) as [q|] eqn:E3; eauto 8.
Qed.

Lemma step_dispatch_origin s l s' ev k i svc meth q :
  step s l = Some (s', ev) -> In (EDispatch k i svc meth q) ev ->
  exists rq, l = LRequest rq /\ i = rq_id rq /\ svc = rq_svc rq /\ meth = rq_meth rq /\ resolve (services s) rq = inr q.
Proof.
  destruct l as [t d|t|t|j b|r|k0 m|j]; intros H Hin.
  - apply step_fetch in H. destruct H as (_ & _ & ->). destruct Hin as [E|[]]; discriminate.
  - apply step_register in H. destruct H as (j & d & _ & _ & ->). destruct Hin as [E|[]]; discriminate.
  - apply step_send in H. destruct H as (j & d & _ & _ & ->). destruct Hin as [E|[]]; discriminate.
  - apply step_response in H. destruct H as (_ & [(d & _ & _ & ->)|(_ & _ & ->)]); [|destruct Hin].
    unfold complete in Hin. destruct (c_resp d), (c_done d); cbn in Hin;
      repeat (destruct Hin as [Hin|Hin]; try discriminate); contradiction.
  - apply step_request in H. destruct H as [(e & _ & _ & ->)|(q0 & Hr & _ & ->)].
    + destruct Hin as [E|[]]. discriminate.
    + destruct Hin as [E|[]]. inversion E; subst. exists r. auto.
  - apply step_done in H. destruct H as (j & _ & _ & ->). destruct Hin as [E|[]]; discriminate.
  - apply step_other in H. destruct H as (_ & ->). destruct Hin.
Qed.

Lemma dispatch_origin svcs ls s' tr l ev k i svc meth q :
  exec (init svcs) ls = Some (s', tr) -> In (l, ev) tr -> In (EDispatch k i svc meth q) ev ->
  exists rq, l = LRequest rq /\ i = rq_id rq /\ svc = rq_svc rq /\ meth = rq_meth rq /\ resolve svcs rq = inr q.
Proof.
  intros H Hin Hd. destruct (exec_in_step _ _ _ _ _ _ H Hin) as (s0 & s1 & Hs & Hsv).
  change (services (init svcs)) with svcs in Hsv. rewrite <- Hsv. eapply step_dispatch_origin; eauto.
Qed.

(* ------------------------------------------------------------------ the statements of Properties_C19, assembled *)
Lemma calls_in_contract svcs ls s tr :
  exec (init svcs) ls = Some (s, tr) ->
  (forall t c, In (LFetch t c) ls -> in_contract c = true) /\
  (forall i c, lookup i (outs s) = Some c -> in_contract c = true).
Proof.
  intros H. split; [intros t c; exact (history_in_contract _ _ _ _ t c H)|intros i c; exact (registered_in_contract _ _ _ _ i c H)].
Qed.

Lemma ids_unique svcs ls s' tr :
  exec (init svcs) ls = Some (s', tr) ->
  NoDup (fetched_ids (events tr)) /\
  forall i, In i (fetched_ids (events tr)) -> 0 < i <= next_id s'.
Proof.
  intros H. destruct (exec_ids _ _ _ _ H) as (_ & Hin & Hnd). split; [exact Hnd|exact Hin].
Qed.

Lemma once_if_answered_full svcs l1 l2 s1 tr1 s' tr i c :
  exec (init svcs) l1 = Some (s1, tr1) ->
  lookup i (outs s1) = Some c ->
  exec (init svcs) (l1 ++ l2) = Some (s', tr) ->
  (exists b, In (LResponse i b) l2) ->
  NoDup (fetch_tags (l1 ++ l2)) ->
  (c_done c = true -> count_occ Nat.eq_dec (run_tags (events tr)) (c_tag c) = 1%nat) /\
  count_occ Nat.eq_dec (del_tags (events tr)) (c_tag c) = 1%nat.
Proof.
  intros H1 Hl H Hb Hnd. split.
  - exact (once_if_answered _ _ _ _ _ _ _ _ _ H1 Hl H Hb Hnd).
  - exact (deleted_once_if_answered _ _ _ _ _ _ _ _ _ H1 Hl H Hb Hnd).
Qed.

Lemma unknown_or_consumed_ignored_full :
  (forall s i b, lookup i (outs s) = None -> body_ok b -> step s (LResponse i b) = Some (s, [])) /\
  (forall svcs ls s tr i,
      exec (init svcs) ls = Some (s, tr) -> ~ In i (fetched_ids (events tr)) -> lookup i (outs s) = None) /\
  (forall svcs l1 s1 tr1 i c b1 l2 s2 tr2 b2,
      exec (init svcs) l1 = Some (s1, tr1) -> lookup i (outs s1) = Some c ->
      exec s1 (LResponse i b1 :: l2) = Some (s2, tr2) -> body_ok b2 ->
      step s2 (LResponse i b2) = Some (s2, [])).
Proof.
  split; [exact (proj1 unknown_or_consumed_ignored)|]. split; [exact never_fetched_unknown|exact (proj2 unknown_or_consumed_ignored)].
Qed.

Lemma server_one_reply_full svcs ls s' tr :
  exec (init svcs) ls = Some (s', tr) ->
  (forall rq ev, In (LRequest rq, ev) tr ->
     (exists e, resolve svcs rq = inl e /\ (e = NO_SERVICE \/ e = NO_METHOD \/ e = INVALID_REQUEST) /\
                ev = [ESendResponse (rq_id rq) (RError e)]) \/
     (exists k q, resolve svcs rq = inr q /\ ev = [EDispatch k (rq_id rq) (rq_svc rq) (rq_meth rq) q])) /\
  NoDup (dispatch_toks (events tr)) /\
  (forall k m ev, In (LDone k m, ev) tr ->
     exists i svc meth q, In (EDispatch k i svc meth q) (events tr) /\ ev = [ESendResponse i (RReply m)]) /\
  NoDup (done_toks ls) /\
  (forall l ev i r, In (l, ev) tr -> In (ESendResponse i r) ev -> replies_label l = true) /\
  (forall l ev k i svc meth q, In (l, ev) tr -> In (EDispatch k i svc meth q) ev ->
     exists rq, l = LRequest rq /\ i = rq_id rq /\ svc = rq_svc rq /\ meth = rq_meth rq /\ resolve svcs rq = inr q).
Proof.
  intros H. destruct (server_one_reply _ _ _ _ H) as (A & B & C & D & E).
  repeat (split; [assumption|]). intros l ev k i svc meth q. exact (dispatch_origin _ _ _ _ l ev k i svc meth q H).
Qed.

(* ------------------------------------------------------------------ tags identify calls: a call without a closure runs nothing *)
(* every call kept by the channel was handed over by an LFetch label of the past *)
Definition linv (pastl : list label) (s : state) : Prop :=
  (forall i c, lookup i (outs s) = Some c -> exists t, In (LFetch t c) pastl) /\
  (forall t i c, tget t (threads s) = TFetched i c -> In (LFetch t c) pastl).

Lemma linv_init svcs : linv [] (init svcs).
Proof. split; cbn; intros; discriminate. Qed.

Lemma linv_step pastl s l s' ev : linv pastl s -> step s l = Some (s', ev) -> linv (pastl ++ [l]) s'.
Proof.
  intros [HO HT] H.
  assert (forall i c, lookup i (outs s) = Some c -> exists t, In (LFetch t c) (pastl ++ [l])) as HO'.
  { intros i c Hl. destruct (HO _ _ Hl) as [t Ht]. exists t. apply in_or_app. auto. }
  assert (forall t i c, tget t (threads s) = TFetched i c -> In (LFetch t c) (pastl ++ [l])) as HT'.
  { intros t i c Hg. apply in_or_app. left. eapply HT; eauto. }
  destruct l as [t d|t|t|i b|r|k m|i].
  - apply step_fetch in H. destruct H as (_ & -> & _). split; cbn [outs threads]; [exact HO'|].
    intros u i c. rewrite tget_tset. destruct (Nat.eq_dec t u) as [->|Hne]; intros Hu; [|apply (HT' _ _ _ Hu)].
    inversion Hu; subst. apply in_or_app. right. left. reflexivity.
  - apply step_register in H. destruct H as (i & d & Hg & -> & _). split; cbn [outs threads].
    + intros j c. destruct (Z.eq_dec i j) as [->|Hne].
      * rewrite lookup_insert_same. intros E; inversion E; subst. exists t. apply (HT' _ _ _ Hg).
      * rewrite lookup_insert_other by exact Hne. apply HO'.
    + intros u j c. rewrite tget_tset. destruct (Nat.eq_dec t u) as [->|Hne]; intros Hu; [discriminate|apply (HT' _ _ _ Hu)].
  - apply step_send in H. destruct H as (i & d & Hg & -> & _). split; cbn [outs threads]; [exact HO'|].
    intros u j c. rewrite tget_tset. destruct (Nat.eq_dec t u) as [->|Hne]; intros Hu; [discriminate|apply (HT' _ _ _ Hu)].
  - apply step_response in H. destruct H as (_ & [(d & Hl & -> & _)|(_ & -> & _)]); [|split; assumption].
    split; cbn [outs threads]; [|exact HT'].
    intros j c. destruct (Z.eq_dec i j) as [->|Hne]; [rewrite lookup_remove_same; discriminate|].
    rewrite lookup_remove_other by exact Hne. apply HO'.
  - apply step_request in H. destruct H as [(e & _ & -> & _)|(q & _ & -> & _)]; split; assumption.
  - apply step_done in H. destruct H as (i & _ & -> & _). split; assumption.
  - apply step_other in H. destruct H as (-> & _). split; assumption.
Qed.

Lemma in_run_complete_done c sn d b : In (ERun c sn) (complete d b) -> c_done d = true.
Proof.
  unfold complete. destruct (c_resp d), (c_done d); cbn; intros H; try reflexivity;
    repeat (destruct H as [H|H]; try discriminate); contradiction.
Qed.

(* a closure that runs belongs to a call that was fetched earlier in the history and has a closure *)
Lemma run_from_fetched pastl s ls s' tr :
  linv pastl s -> exec s ls = Some (s', tr) ->
  forall l ev tg sn, In (l, ev) tr -> In (ERun tg sn) ev ->
  exists t d, In (LFetch t d) (pastl ++ ls) /\ c_tag d = tg /\ c_done d = true.
Proof.
  revert pastl s tr. induction ls as [|l0 r IH]; intros pastl s tr Hl H l ev tg sn Hin Hrun.
  - inversion H; subst. destruct Hin.
  - apply exec_cons in H. destruct H as (s1 & ev0 & tr' & Hs & He & ->).
    destruct Hin as [E|Hin].
    + inversion E; subst l0 ev0. destruct l as [t d|t|t|i b|q|k m|i].
      * apply step_fetch in Hs. destruct Hs as (_ & _ & ->). destruct Hrun as [E'|[]]; discriminate.
      * apply step_register in Hs. destruct Hs as (i & d & _ & _ & ->). destruct Hrun as [E'|[]]; discriminate.
      * apply step_send in Hs. destruct Hs as (i & d & _ & _ & ->). destruct Hrun as [E'|[]]; discriminate.
      * apply step_response in Hs. destruct Hs as (_ & [(d & Hlk & _ & ->)|(_ & _ & ->)]); [|destruct Hrun].
        destruct (proj1 Hl _ _ Hlk) as [t Ht]. exists t, d. split; [apply in_or_app; auto|].
        split; [symmetry; exact (proj1 (in_run_complete _ _ _ _ Hrun))|exact (in_run_complete_done _ _ _ _ Hrun)].
      * apply step_request in Hs. destruct Hs as [(e & _ & _ & ->)|(q0 & _ & _ & ->)]; destruct Hrun as [E'|[]]; discriminate.
      * apply step_done in Hs. destruct Hs as (i & _ & _ & ->). destruct Hrun as [E'|[]]; discriminate.
      * apply step_other in Hs. destruct Hs as (_ & ->). destruct Hrun.
    + destruct (IH (pastl ++ [l0]) s1 tr' (linv_step _ _ _ _ _ Hl Hs) He l ev tg sn Hin Hrun) as (t & d & Hf & Ht & Hd).
      exists t, d. rewrite <- app_assoc in Hf. auto.
Qed.

Lemma exec_linv pastl s ls s' tr : linv pastl s -> exec s ls = Some (s', tr) -> linv (pastl ++ ls) s'.
Proof.
  revert pastl s tr. induction ls as [|l r IH]; intros pastl s tr Hl H.
  - inversion H; subst. rewrite app_nil_r. exact Hl.
  - apply exec_cons in H. destruct H as (s1 & ev & tr' & Hs & He & _).
    change (l :: r) with ([l] ++ r). rewrite app_assoc. eapply IH; [|exact He]. eapply linv_step; eauto.
Qed.

(* with pairwise distinct tags, two LFetch labels with the same tag carry the same call *)
Lemma fetch_tag_injective ls t1 c1 t2 c2 :
  NoDup (fetch_tags ls) -> In (LFetch t1 c1) ls -> In (LFetch t2 c2) ls -> c_tag c1 = c_tag c2 -> c1 = c2.
Proof.
  induction ls as [|l r IH]; intros Hnd H1 H2 Ht; [destruct H1|].
  rewrite fetch_tags_cons in Hnd.
  assert (forall t c, In (LFetch t c) r -> In (c_tag c) (fetch_tags r)) as Hin.
  { intros t c Hi. unfold fetch_tags. apply in_flat_map. exists (LFetch t c). split; [exact Hi|left; reflexivity]. }
  destruct H1 as [->|H1], H2 as [E|H2].
  - inversion E. reflexivity.
  - exfalso. eapply (NoDup_app_disj _ _ (c_tag c1) Hnd); [left; reflexivity|rewrite Ht; eauto].
  - subst l. exfalso. eapply (NoDup_app_disj _ _ (c_tag c2) Hnd); [left; reflexivity|rewrite <- Ht; eauto].
  - apply (IH (NoDup_app_tail _ _ Hnd) H1 H2 Ht).
Qed.

Lemma no_closure_never_runs svcs l1 l2 s1 tr1 s' tr i c :
  exec (init svcs) l1 = Some (s1, tr1) ->
  lookup i (outs s1) = Some c ->
  exec (init svcs) (l1 ++ l2) = Some (s', tr) ->
  NoDup (fetch_tags (l1 ++ l2)) ->
  c_done c = false ->
  count_occ Nat.eq_dec (run_tags (events tr)) (c_tag c) = 0%nat.
Proof.
  intros H1 Hl H Hnd Hd.
  apply count_occ_not_In. intros Hin.
  unfold run_tags, events in Hin. apply in_flat_map in Hin. destruct Hin as (e & He & Hin).
  apply in_flat_map in He. destruct He as ([l ev] & Hle & Hev). cbn [snd] in Hev.
  destruct e as [? ? ?|? ? ?|? ? ? ?|tg sn|?|?|? ? ? ? ?|? ?|?|?]; try (destruct Hin; fail).
  destruct Hin as [E|[]]. subst tg.
  destruct (run_from_fetched [] _ _ _ _ (linv_init svcs) H l ev (c_tag c) sn Hle Hev) as (t & d & Hf & Ht & Hdd).
  cbn [app] in Hf.
  destruct (proj1 (exec_linv [] _ _ _ _ (linv_init svcs) H1) _ _ Hl) as [t' Hf'].
  cbn [app] in Hf'.
  assert (d = c) as ->.
  { eapply fetch_tag_injective; [exact Hnd|exact Hf|apply in_or_app; left; exact Hf'|exact Ht]. }
  congruence.
Qed.

Lemma once_if_answered_exact svcs l1 l2 s1 tr1 s' tr i c :
  exec (init svcs) l1 = Some (s1, tr1) ->
  lookup i (outs s1) = Some c ->
  exec (init svcs) (l1 ++ l2) = Some (s', tr) ->
  (exists b, In (LResponse i b) l2) ->
  NoDup (fetch_tags (l1 ++ l2)) ->
  count_occ Nat.eq_dec (run_tags (events tr)) (c_tag c) = (if c_done c then 1 else 0)%nat /\
  count_occ Nat.eq_dec (del_tags (events tr)) (c_tag c) = 1%nat.
Proof.
  intros H1 Hl H Hb Hnd. split.
  - destruct (c_done c) eqn:Hd.
    + exact (once_if_answered _ _ _ _ _ _ _ _ _ H1 Hl H Hb Hnd Hd).
    + exact (no_closure_never_runs _ _ _ _ _ _ _ _ _ H1 Hl H Hnd Hd).
  - exact (deleted_once_if_answered _ _ _ _ _ _ _ _ _ H1 Hl H Hb Hnd).
Qed.

(* ------------------------------------------------------------------ accounting: every call is held or has completed *)
(* the channel still holds the call: registered, or fetched and not yet registered *)
Definition held (s : state) (c : call) : Prop :=
  (exists i, lookup i (outs s) = Some c) \/ (exists t i, tget t (threads s) = TFetched i c).

Lemma exec_snoc s ls l s2 tr2 :
  exec s (ls ++ [l]) = Some (s2, tr2) ->
  exists s1 tr1 ev, exec s ls = Some (s1, tr1) /\ step s1 l = Some (s2, ev) /\ tr2 = tr1 ++ [(l, ev)].
Proof.
  intros H. apply exec_app in H. destruct H as (s1 & tr1 & trx & H1 & H2 & ->).
  apply exec_cons in H2. destruct H2 as (s' & ev & tr' & Hs & He & ->). inversion He; subst.
  exists s1, tr1, ev. auto.
Qed.

Lemma cnt_live_pos s c : held s c -> (1 <= cnt (c_tag c) (live s))%nat.
Proof.
  unfold live. rewrite cnt_app. intros [[i Hl]|(t & i & Hg)].
  - assert (1 <= cnt (c_tag c) (tags_outs (outs s)))%nat; [|lia].
    induction (outs s) as [|[j e] r IH]; cbn [lookup] in Hl; [discriminate|].
    change (tags_outs ((j, e) :: r)) with ([c_tag e] ++ tags_outs r). rewrite cnt_app.
    destruct (i =? j).
    + inversion Hl; subst e. unfold cnt. cbn. destruct (Nat.eq_dec (c_tag c) (c_tag c)); [lia|congruence].
    + apply IH in Hl. lia.
  - assert (1 <= cnt (c_tag c) (tags_threads (threads s)))%nat; [|lia].
    unfold tget in Hg. induction (threads s) as [|[u st] r IH]; cbn [nlookup] in Hg; [discriminate|].
    change (tags_threads ((u, st) :: r)) with (ts_tags st ++ tags_threads r). rewrite cnt_app.
    destruct (Nat.eqb t u).
    + subst st. unfold cnt. cbn. destruct (Nat.eq_dec (c_tag c) (c_tag c)); [lia|congruence].
    + apply IH in Hg. lia.
Qed.

Lemma cnt_complete_other tg d b : tg <> c_tag d -> cnt tg (run_tags (complete d b)) = 0%nat /\ cnt tg (del_tags (complete d b)) = 0%nat.
Proof.
  intros Hne. unfold complete, cnt. destruct (c_resp d), (c_done d); cbn; split; try reflexivity;
    destruct (Nat.eq_dec (c_tag d) tg); congruence.
Qed.

Lemma cnt_complete_self d b :
  c_resp d = true ->
  cnt (c_tag d) (run_tags (complete d b)) = (if c_done d then 1 else 0)%nat /\ cnt (c_tag d) (del_tags (complete d b)) = 1%nat.
Proof.
  intros Hr. unfold complete, cnt. rewrite Hr. destruct (c_done d); cbn; destruct (Nat.eq_dec (c_tag d) (c_tag d)); try congruence; split; reflexivity.
Qed.

Lemma call_eq_dec_tag (c d : call) : {c_tag c = c_tag d} + {c_tag c <> c_tag d}.
Proof. apply Nat.eq_dec. Qed.

Definition completed (evs : list event) (c : call) : Prop :=
  cnt (c_tag c) (run_tags evs) = (if c_done c then 1 else 0)%nat /\ cnt (c_tag c) (del_tags evs) = 1%nat.

(* every call ever made on the channel is still held by it, or has completed: its closure has run
   exactly once (never, if it has none) and its response object has been deleted exactly once *)
Lemma call_accounting svcs ls : forall s tr,
  exec (init svcs) ls = Some (s, tr) -> NoDup (fetch_tags ls) ->
  forall t c, In (LFetch t c) ls -> held s c \/ completed (events tr) c.
Proof.
  unfold held. induction ls as [|l ls IH] using rev_ind; intros s tr H Hnd t c Hin; [destruct Hin|].
  apply exec_snoc in H. destruct H as (s1 & tr1 & ev & H1 & Hs & ->).
  assert (NoDup (fetch_tags ls)) as Hnd1.
  { unfold fetch_tags in *. rewrite flat_map_app in Hnd. revert Hnd. generalize (flat_map (fun l0 => match l0 with LFetch _ c0 => [c_tag c0] | _ => [] end) ls).
    intros a Ha. induction a as [|x a IHa]; [constructor|]. cbn [app] in Ha. inversion Ha; subst. constructor; [|auto].
    intros Hx. apply H2. apply in_or_app. auto. }
  pose proof (inv_exec _ _ _ _ (inv_init svcs) H1) as [HK HF HD].
  pose proof (cinv_exec _ _ _ _ (cinv_init svcs) H1) as [HCo HCt].
  pose proof (exec_linv [] _ _ _ _ (linv_init svcs) H1) as [HLo HLt]. cbn [app] in HLo, HLt.
  rewrite events_app. unfold events at 2. cbn [flat_map snd]. rewrite app_nil_r.
  assert (forall c0, completed (events tr1) c0 -> run_tags ev = [] -> del_tags ev = [] -> completed (events tr1 ++ ev) c0) as Hkeep.
  { intros c0 [A B] E1 E2. unfold completed. rewrite run_tags_app, del_tags_app, E1, E2, !app_nil_r. auto. }
  apply in_app_or in Hin. destruct Hin as [Hin|[E|[]]].
  - (* an older call *)
    destruct (IH _ _ H1 Hnd1 t c Hin) as [Hh|Hc].
    + destruct l as [u d|u|u|i b|r|k m|i].
      * pose proof (step_fetch _ _ _ _ _ Hs) as (Hg & -> & _). left. destruct Hh as [[i Hl]|(v & i & Hv)]; [left; eauto|right].
        exists v, i. cbn [threads]. rewrite tget_tset. destruct (Nat.eq_dec u v) as [->|]; [congruence|exact Hv].
      * pose proof (step_register _ _ _ _ Hs) as (i & d & Hg & -> & _). left. cbn [outs threads].
        destruct Hh as [[j Hl]|(v & j & Hv)].
        -- left. exists j. assert (i <> j) by (intros ->; apply HF in Hg; destruct Hg; congruence).
           rewrite lookup_insert_other by assumption. exact Hl.
        -- destruct (Nat.eq_dec u v) as [->|Hne].
           ++ rewrite Hg in Hv. inversion Hv; subst. left. exists j. apply lookup_insert_same.
           ++ right. exists v, j. rewrite tget_tset. destruct (Nat.eq_dec u v); [congruence|exact Hv].
      * pose proof (step_send _ _ _ _ Hs) as (i & d & Hg & -> & _). left. cbn [outs threads].
        destruct Hh as [[j Hl]|(v & j & Hv)]; [left; eauto|right]. exists v, j. rewrite tget_tset.
        destruct (Nat.eq_dec u v) as [->|]; [congruence|exact Hv].
      * pose proof (step_response _ _ _ _ _ Hs) as (_ & [(d & Hl & -> & ->)|(_ & -> & ->)]); [|left; exact Hh].
        destruct (HLo _ _ Hl) as [td Hfd].
        destruct (call_eq_dec_tag c d) as [Heq|Hne].
        -- (* the call that completes now *)
           assert (c = d) as -> by (eapply fetch_tag_injective; eauto). right.
           pose proof (exec_budget (c_tag d) _ _ _ _ H1) as Hb. pose proof (exec_budget_del (c_tag d) _ _ _ _ H1) as Hbd.
           pose proof (proj1 (NoDup_count_occ Nat.eq_dec (fetch_tags ls)) Hnd1 (c_tag d)) as Hc1. fold (cnt (c_tag d) (fetch_tags ls)) in Hc1.
           change (cnt (c_tag d) (live (init svcs))) with 0%nat in Hb, Hbd.
           pose proof (cnt_live_pos s1 d (or_introl (ex_intro (fun i0 => lookup i0 (outs s1) = Some d) i Hl))) as Hlive.
           destruct (cnt_complete_self d b (HCo _ _ Hl)) as [A B].
           unfold completed. rewrite run_tags_app, del_tags_app, !cnt_app, A, B. split; lia.
        -- left. cbn [outs threads]. destruct Hh as [[j Hl']|(v & j & Hv)]; [left|right; eauto].
           exists j. assert (i <> j) by (intros ->; rewrite Hl in Hl'; inversion Hl'; subst; apply Hne; reflexivity).
           rewrite lookup_remove_other by assumption. exact Hl'.
      * pose proof (step_request _ _ _ _ Hs) as [(e & _ & -> & _)|(q & _ & -> & _)]; left; exact Hh.
      * pose proof (step_done _ _ _ _ _ Hs) as (i & _ & -> & _). left. exact Hh.
      * pose proof (step_other _ _ _ _ Hs) as (-> & _). left. exact Hh.
    + right. destruct l as [u d|u|u|i b|r|k m|i].
      * pose proof (step_fetch _ _ _ _ _ Hs) as (_ & _ & ->). apply Hkeep; auto.
      * pose proof (step_register _ _ _ _ Hs) as (i & d & _ & _ & ->). apply Hkeep; auto.
      * pose proof (step_send _ _ _ _ Hs) as (i & d & _ & _ & ->). apply Hkeep; auto.
      * pose proof (step_response _ _ _ _ _ Hs) as (_ & [(d & Hl & _ & ->)|(_ & _ & ->)]); [|apply Hkeep; auto].
        destruct (HLo _ _ Hl) as [td Hfd].
        destruct (call_eq_dec_tag c d) as [Heq|Hne].
        -- (* impossible: a completed call is not outstanding *)
           exfalso. assert (c = d) as -> by (eapply fetch_tag_injective; eauto).
           pose proof (exec_budget_del (c_tag d) _ _ _ _ H1) as Hbd.
           pose proof (proj1 (NoDup_count_occ Nat.eq_dec (fetch_tags ls)) Hnd1 (c_tag d)) as Hc1. fold (cnt (c_tag d) (fetch_tags ls)) in Hc1.
           change (cnt (c_tag d) (live (init svcs))) with 0%nat in Hbd.
           pose proof (cnt_live_pos s1 d (or_introl (ex_intro (fun i0 => lookup i0 (outs s1) = Some d) i Hl))) as Hlive. destruct Hc as [_ Hdel]. lia.
        -- destruct (cnt_complete_other (c_tag c) d b Hne) as [A B]. destruct Hc as [C D].
           unfold completed. rewrite run_tags_app, del_tags_app, !cnt_app, A, B. split; lia.
      * pose proof (step_request _ _ _ _ Hs) as [(e & _ & _ & ->)|(q & _ & _ & ->)]; apply Hkeep; auto.
      * pose proof (step_done _ _ _ _ _ Hs) as (i & _ & _ & ->). apply Hkeep; auto.
      * pose proof (step_other _ _ _ _ Hs) as (_ & ->). apply Hkeep; auto.
  - (* the call fetched by this very step *)
    subst l. pose proof (step_fetch _ _ _ _ _ Hs) as (_ & -> & _). left. right. exists t, (next_id s1 + 1).
    cbn [threads]. apply tget_tset_same.
Qed.

(* a thread that has registered its call got that call from an LFetch label of its own *)
Definition linv2 (pastl : list label) (s : state) : Prop :=
  forall t i c, tget t (threads s) = TRegistered i c -> In (LFetch t c) pastl.

Lemma exec_linv2 svcs ls : forall s tr,
  exec (init svcs) ls = Some (s, tr) ->
  (forall t i c, tget t (threads s) = TFetched i c -> In (LFetch t c) ls) /\ linv2 ls s.
Proof.
  unfold linv2. induction ls as [|l ls IH] using rev_ind; intros s tr H.
  - inversion H; subst. split; intros t i c Hg; discriminate.
  - apply exec_snoc in H. destruct H as (s1 & tr1 & ev & H1 & Hs & ->).
    destruct (IH _ _ H1) as [HF HR].
    assert (forall t i c, tget t (threads s1) = TFetched i c -> In (LFetch t c) (ls ++ [l])) as HF' by (intros; apply in_or_app; left; eauto).
    assert (forall t i c, tget t (threads s1) = TRegistered i c -> In (LFetch t c) (ls ++ [l])) as HR' by (intros; apply in_or_app; left; eauto).
    destruct l as [u d|u|u|i b|r|k m|i].
    + pose proof (step_fetch _ _ _ _ _ Hs) as (_ & -> & _). cbn [threads]. split; intros t i c; rewrite tget_tset;
        destruct (Nat.eq_dec u t) as [->|]; intros Hg; eauto; try discriminate.
      inversion Hg; subst. apply in_or_app. right. left. reflexivity.
    + pose proof (step_register _ _ _ _ Hs) as (i & d & Hg0 & -> & _). cbn [threads]. split; intros t j c; rewrite tget_tset;
        destruct (Nat.eq_dec u t) as [->|]; intros Hg; eauto; try discriminate.
      inversion Hg; subst. eauto.
    + pose proof (step_send _ _ _ _ Hs) as (i & d & Hg0 & -> & _). cbn [threads]. split; intros t j c; rewrite tget_tset;
        destruct (Nat.eq_dec u t) as [->|]; intros Hg; eauto; discriminate.
    + pose proof (step_response _ _ _ _ _ Hs) as (_ & [(d & _ & -> & _)|(_ & -> & _)]); cbn [threads]; split; eauto.
    + pose proof (step_request _ _ _ _ Hs) as [(e & _ & -> & _)|(q & _ & -> & _)]; cbn [threads]; split; eauto.
    + pose proof (step_done _ _ _ _ _ Hs) as (i & _ & -> & _). cbn [threads]. split; eauto.
    + pose proof (step_other _ _ _ _ Hs) as (-> & _). split; eauto.
Qed.

Lemma exec_services s ls s' tr : exec s ls = Some (s', tr) -> services s' = services s.
Proof.
  revert s tr. induction ls as [|l r IH]; intros s tr H.
  - inversion H; reflexivity.
  - apply exec_cons in H. destruct H as (s1 & ev & tr' & Hs & He & _).
    rewrite (IH _ _ He). eapply step_services; eauto.
Qed.

(* one id, one call: two fetch events with the same id are the same event *)
Lemma efetch_id_unique evs t1 t2 i c1 c2 :
  NoDup (fetched_ids evs) -> In (EFetch t1 i c1) evs -> In (EFetch t2 i c2) evs -> c1 = c2.
Proof.
  induction evs as [|e r IH]; intros Hnd H1 H2; [destruct H1|].
  assert (fetched_ids (e :: r) = fetched_ids [e] ++ fetched_ids r) as E by (unfold fetched_ids; cbn [flat_map]; rewrite app_nil_r; reflexivity).
  rewrite E in Hnd.
  destruct H1 as [->|H1], H2 as [E2|H2].
  - inversion E2. reflexivity.
  - exfalso. eapply (NoDup_app_disj _ _ i Hnd); [left; reflexivity|eapply in_fetched_ids; eauto].
  - subst e. exfalso. eapply (NoDup_app_disj _ _ i Hnd); [left; reflexivity|eapply in_fetched_ids; eauto].
  - apply IH; auto. eapply NoDup_app_tail; eauto.
Qed.

Lemma pinv_exec s ls s' tr : pinv s -> exec s ls = Some (s', tr) -> pinv s'.
Proof.
  revert s tr. induction ls as [|l r IH]; intros s tr Hp H.
  - inversion H; subst. exact Hp.
  - apply exec_cons in H. destruct H as (s1 & ev & tr' & Hs & He & _). eapply IH; [|exact He]. eapply pinv_step; eauto.
Qed.
