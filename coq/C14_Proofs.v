(* C14_Proofs: invariants of the three monitors of C14_Model, for any thread count, any
   programs, any capacity, any schedule (induction over Conc_Model.reach). *)
From Coq Require Import List ZArith Arith Bool Lia.
From Muduo Require Import Conc_Model Conc_Proofs C14_Model.
Import ListNotations.
Open Scope nat_scope.

Lemma flat_map_snoc : forall A B (f : A -> list B) l x, flat_map f (l ++ [x]) = flat_map f l ++ f x.
Proof. intros. rewrite flat_map_app. cbn. rewrite app_nil_r. reflexivity. Qed.

Lemma prefix_nth : forall (A : Type) (l r : list A) k v, nth_error l k = Some v -> nth_error (l ++ r) k = Some v.
Proof.
  intros A l r k v H. rewrite nth_error_app1; auto. apply nth_error_Some. congruence.
Qed.

(* ================================================================ BlockingQueue *)
Section BQ.
  Notation bsys := (sys (list Z) bq_op qres).

  Lemma bq_body_block : forall o s c, bq_body o s = Block c -> bq_blocker c o = true.
  Proof.
    intros [v| | |] s c H; cbn in H; try discriminate. destruct s; inversion H; reflexivity.
  Qed.

  Lemma bq_blocker_unique : forall o c c', bq_blocker c o = true -> bq_blocker c' o = true -> c = c'.
  Proof.
    intros [v| | |] c c' H H'; cbn in *; try discriminate.
    apply Nat.eqb_eq in H, H'. congruence.
  Qed.

  Lemma bq_hist_step : forall (t : nat) o q q' r sg h,
    bq_puts h = rets h ++ q -> bq_body o q = Ret q' r sg ->
    bq_puts (h ++ [(t, o, r)]) = rets (h ++ [(t, o, r)]) ++ q'.
  Proof.
    intros t o q q' r sg h H Hb. unfold bq_puts, rets in *. rewrite !flat_map_snoc.
    destruct o as [v| | |]; cbn in Hb.
    - inversion Hb; subst. cbn. rewrite H. rewrite app_nil_r, app_assoc. reflexivity.
    - destruct q as [|x q0]; inversion Hb; subst. cbn. rewrite H.
      rewrite app_nil_r, <- app_assoc. reflexivity.
    - inversion Hb; subst. cbn. rewrite H. rewrite !app_nil_r. reflexivity.
    - inversion Hb; subst. cbn. rewrite H. rewrite !app_nil_r. reflexivity.
  Qed.

  Theorem bq_nothing_lost : forall progs (s : bsys),
    reach bq_body (init_sys [] progs) s -> bq_puts (hist s) = rets (hist s) ++ shared s.
  Proof.
    intros progs s Hr.
    apply (hist_inv _ _ _ bq_body (fun q h => bq_puts h = rets h ++ q)) with (s0 := []) (progs := progs); auto.
    intros; eapply bq_hist_step; eauto.
  Qed.

  Theorem bq_no_stuck : forall progs (s : bsys) t th,
    reach bq_body (init_sys [] progs) s -> quiescent bq_body s ->
    nth_error (threads s) t = Some th -> st th = Waiting notEmpty -> shared s = [].
  Proof.
    intros progs s t th Hr Q Hn Hs. apply length_zero_iff_nil.
    apply (no_stuck_signal _ _ _ bq_body bq_blocker bq_body_block bq_blocker_unique notEmpty
             (@length Z) (fun _ => True)) with (s0 := []) (progs := progs) (t := t) (th := th); auto.
    - intros o q _ Hb. destruct o; cbn in Hb; try discriminate. destruct q; [reflexivity|discriminate].
    - intros o q q' r sg _ Hb. right; right. destruct o as [v| | |]; cbn in Hb.
      + inversion Hb; subst. cbn. rewrite app_length. cbn. lia.
      + destruct q; inversion Hb; subst. cbn. lia.
      + inversion Hb; subst. cbn. lia.
      + inversion Hb; subst. cbn. lia.
  Qed.

  (* the only condition of this monitor is notEmpty *)
  Theorem bq_waits_only_notEmpty : forall progs (s : bsys) t th c,
    reach bq_body (init_sys [] progs) s ->
    nth_error (threads s) t = Some th -> st th = Waiting c -> c = notEmpty /\ exists rest, prog th = BTake :: rest.
  Proof.
    intros progs s t th c Hr Hn Hs.
    destruct (disc_reach _ _ _ bq_body bq_blocker bq_body_block bq_blocker_unique notEmpty
                (@length Z) (fun _ => True)) with (s0 := @nil Z) (progs := progs) (s := s) as (_ & J & _); auto.
    - intros o q _ Hb. destruct o; cbn in Hb; try discriminate. destruct q; [reflexivity|discriminate].
    - intros o q q' r sg _ Hb. right; right. destruct o as [v| | |]; cbn in Hb.
      + inversion Hb; subst. cbn. rewrite app_length. cbn. lia.
      + destruct q; inversion Hb; subst. cbn. lia.
      + inversion Hb; subst. cbn. lia.
      + inversion Hb; subst. cbn. lia.
    - destruct (Forall_nth_error _ _ _ _ J Hn c Hs) as (o & rest & Hp & Hb).
      destruct o; cbn in Hb; try discriminate. apply Nat.eqb_eq in Hb. split; eauto.
  Qed.
End BQ.

(* ================================================================ BoundedBlockingQueue *)
Section BBQ.
  Variable cap : nat.
  Notation qsys := (sys (list Z) bbq_op qres).
  Notation body := (bbq_body cap).

  Definition bounded (q : list Z) : Prop := length q <= cap.

  Lemma bbq_body_block : forall o s c, body o s = Block c -> bbq_blocker c o = true.
  Proof.
    intros [v| | | | |] s c H; cbn in H; try discriminate.
    - destruct (Nat.eqb (length s) cap); inversion H; reflexivity.
    - destruct s; inversion H; reflexivity.
  Qed.

  Lemma bbq_blocker_unique : forall o c c', bbq_blocker c o = true -> bbq_blocker c' o = true -> c = c'.
  Proof.
    intros [v| | | | |] c c' H H'; cbn in *; try discriminate; apply Nat.eqb_eq in H, H'; congruence.
  Qed.

  Lemma bbq_bounded_ret : forall o q q' r sg, bounded q -> body o q = Ret q' r sg -> bounded q'.
  Proof.
    unfold bounded. intros o q q' r sg B Hb. destruct o as [v| | | | |]; cbn in Hb.
    - destruct (Nat.eqb (length q) cap) eqn:E; inversion Hb; subst.
      apply Nat.eqb_neq in E. rewrite app_length. cbn. lia.
    - destruct q; inversion Hb; subst. cbn in B. lia.
    - inversion Hb; subst; auto.
    - inversion Hb; subst; auto.
    - inversion Hb; subst; auto.
    - inversion Hb; subst; auto.
  Qed.

  Theorem bbq_bounded : forall progs (s : qsys),
    reach body (init_sys [] progs) s -> length (shared s) <= cap.
  Proof.
    intros progs s Hr.
    apply (hist_inv _ _ _ body (fun q _ => bounded q)) with (s0 := []) (progs := progs); auto.
    - intros; eapply bbq_bounded_ret; eauto.
    - unfold bounded. cbn. lia.
  Qed.

  Lemma bbq_hist_step : forall (t : nat) o q q' r sg h,
    bbq_puts h = rets h ++ q -> body o q = Ret q' r sg ->
    bbq_puts (h ++ [(t, o, r)]) = rets (h ++ [(t, o, r)]) ++ q'.
  Proof.
    intros t o q q' r sg h H Hb. unfold bbq_puts, rets in *. rewrite !flat_map_snoc.
    destruct o as [v| | | | |]; cbn in Hb.
    - destruct (Nat.eqb (length q) cap); inversion Hb; subst. cbn. rewrite H.
      rewrite app_nil_r, app_assoc. reflexivity.
    - destruct q as [|x q0]; inversion Hb; subst. cbn. rewrite H.
      rewrite app_nil_r, <- app_assoc. reflexivity.
    - inversion Hb; subst. cbn. rewrite H. rewrite !app_nil_r. reflexivity.
    - inversion Hb; subst. cbn. rewrite H. rewrite !app_nil_r. reflexivity.
    - inversion Hb; subst. cbn. rewrite H. rewrite !app_nil_r. reflexivity.
    - inversion Hb; subst. cbn. rewrite H. rewrite !app_nil_r. reflexivity.
  Qed.

  Theorem bbq_nothing_lost : forall progs (s : qsys),
    reach body (init_sys [] progs) s -> bbq_puts (hist s) = rets (hist s) ++ shared s.
  Proof.
    intros progs s Hr.
    apply (hist_inv _ _ _ body (fun q h => bbq_puts h = rets h ++ q)) with (s0 := []) (progs := progs); auto.
    intros; eapply bbq_hist_step; eauto.
  Qed.

  Lemma bounded_nil : bounded [].
  Proof. unfold bounded; cbn; lia. Qed.

  Theorem bbq_no_stuck_consumer : forall progs (s : qsys) t th,
    reach body (init_sys [] progs) s -> quiescent body s ->
    nth_error (threads s) t = Some th -> st th = Waiting notEmpty -> shared s = [].
  Proof.
    intros progs s t th Hr Q Hn Hs. apply length_zero_iff_nil.
    apply (no_stuck_signal _ _ _ body bbq_blocker bbq_body_block bbq_blocker_unique notEmpty
             (@length Z) bounded) with (s0 := []) (progs := progs) (t := t) (th := th);
      auto using bounded_nil.
    - apply bbq_bounded_ret.
    - intros o q _ Hb. destruct o; cbn in Hb; try discriminate.
      + destruct (Nat.eqb (length q) cap); discriminate.
      + destruct q; [reflexivity|discriminate].
    - intros o q q' r sg _ Hb. right; right. destruct o as [v| | | | |]; cbn in Hb.
      + destruct (Nat.eqb (length q) cap); inversion Hb; subst. cbn. rewrite app_length. cbn. lia.
      + destruct q; inversion Hb; subst. cbn. lia.
      + inversion Hb; subst. cbn. lia.
      + inversion Hb; subst. cbn. lia.
      + inversion Hb; subst. cbn. lia.
      + inversion Hb; subst. cbn. lia.
  Qed.

  Theorem bbq_no_stuck_producer : forall progs (s : qsys) t th,
    reach body (init_sys [] progs) s -> quiescent body s ->
    nth_error (threads s) t = Some th -> st th = Waiting notFull -> length (shared s) = cap.
  Proof.
    intros progs s t th Hr Q Hn Hs.
    pose proof (bbq_bounded _ _ Hr) as HB.
    enough (cap - length (shared s) = 0) by lia.
    apply (no_stuck_signal _ _ _ body bbq_blocker bbq_body_block bbq_blocker_unique notFull
             (fun q => cap - length q) bounded) with (s0 := []) (progs := progs) (t := t) (th := th);
      auto using bounded_nil.
    - apply bbq_bounded_ret.
    - intros o q _ Hb. destruct o; cbn in Hb; try discriminate.
      + destruct (Nat.eqb (length q) cap) eqn:E; [|discriminate]. apply Nat.eqb_eq in E. lia.
      + destruct q; [|discriminate]. inversion Hb.
    - unfold bounded. intros o q q' r sg B Hb. right; right. destruct o as [v| | | | |]; cbn in Hb.
      + destruct (Nat.eqb (length q) cap) eqn:E; inversion Hb; subst. apply Nat.eqb_neq in E.
        cbn. rewrite app_length. cbn. lia.
      + destruct q; inversion Hb; subst. cbn in *. lia.
      + inversion Hb; subst. cbn. lia.
      + inversion Hb; subst. cbn. lia.
      + inversion Hb; subst. cbn. lia.
      + inversion Hb; subst. cbn. lia.
  Qed.
End BBQ.

(* ================================================================ CountDownLatch *)
Section Latch.
  Open Scope Z_scope.
  Notation lsys := (sys Z latch_op qres).

  Lemma latch_B_block : forall o s, latch_body o s = Block latchCond -> s > 0.
  Proof.
    intros [| |] s H; cbn in H; try discriminate. destruct (0 <? s) eqn:E; [|discriminate].
    apply Z.ltb_lt in E. lia.
  Qed.

  Lemma latch_B_ret : forall o s s' r sg, latch_body o s = Ret s' r sg -> s > 0 ->
    s' > 0 \/ has_bcast latchCond sg = true.
  Proof.
    intros [| |] s s' r sg H P; cbn in H.
    - inversion H; subst. destruct (s - 1 =? 0) eqn:E; [right; reflexivity|left].
      apply Z.eqb_neq in E. lia.
    - destruct (0 <? s); inversion H; subst; auto.
    - inversion H; subst; auto.
  Qed.

  (* a thread waits on the latch only while the count is positive, in EVERY reachable state *)
  Theorem latch_no_stuck : forall c0 progs (s : lsys) t th c,
    reach latch_body (init_sys c0 progs) s ->
    nth_error (threads s) t = Some th -> st th = Waiting c -> shared s > 0.
  Proof.
    intros c0 progs s t th c Hr Hn Hs.
    assert (c = latchCond) as ->.
    { (* the only Block of latch_body is on latchCond *)
      assert (Hw : forall s : lsys, reach latch_body (init_sys c0 progs) s ->
                   Forall (fun th => forall c, st th = Waiting c -> c = latchCond) (threads s)).
      { apply (reach_inv _ _ _ latch_body
          (fun s => Forall (fun th => forall c, st th = Waiting c -> c = latchCond) (threads s))).
        - cbn. apply Forall_forall. intros a Hin. apply in_map_iff in Hin. destruct Hin as (p & <- & _).
          intros c' H'. discriminate.
        - intros s1 l s2 _ HF H. destruct l as [u|u picks|u|u]; cbn in H.
          + destruct (nth_error (threads s1) u) as [a|]; [|discriminate].
            destruct (owner s1); [discriminate|]. destruct (st a); try discriminate.
            destruct (prog a); [discriminate|]. inversion H; subst; cbn.
            apply Forall_upd; auto. intros c' H'. discriminate.
          + destruct (nth_error (threads s1) u) as [a|]; [|discriminate].
            destruct (st a); try discriminate. destruct (prog a) as [|o rest]; [discriminate|].
            destruct (latch_body o (shared s1)) as [s' r sg|c'] eqn:Hb; inversion H; subst; cbn.
            * eapply wakes_Forall; [|apply apply_signals_wakes|].
              -- intros x y [->|(cx & Hx & ->)] Hy; auto. intros c' H'. discriminate.
              -- apply Forall_upd; auto. intros c' H'. discriminate.
            * apply Forall_upd; auto. intros c'' H'. cbn in H'. inversion H'; subst.
              destruct o; cbn in Hb; try discriminate. destruct (0 <? shared s1); inversion Hb. reflexivity.
          + destruct (nth_error (threads s1) u) as [a|]; [|discriminate].
            destruct (st a); try discriminate. inversion H; subst; cbn.
            apply Forall_upd; auto. intros c' H'. discriminate.
          + destruct (nth_error (threads s1) u) as [a|]; [|discriminate].
            destruct (owner s1); [discriminate|]. destruct (st a); try discriminate.
            inversion H; subst; cbn. apply Forall_upd; auto. intros c' H'. discriminate. }
      eapply (Forall_nth_error _ _ _ _ (Hw _ Hr) Hn); eauto. }
    eapply (no_stuck_broadcast _ _ _ latch_body latchCond (fun c => c > 0) latch_B_block latch_B_ret); eauto.
  Qed.

  (* the count-down that reaches zero releases every waiter *)
  Theorem latch_releases_all : forall c0 progs (s s' : lsys) t picks,
    reach latch_body (init_sys c0 progs) s ->
    step latch_body s (LBody t picks) = Some s' -> shared s' = 0 -> shared s <> 0 ->
    nwaiting latchCond s' = 0%nat /\
    forall u th, nth_error (threads s) u = Some th -> st th = Waiting latchCond ->
                 exists th', nth_error (threads s') u = Some th' /\ st th' = Signalled /\ prog th' = prog th.
  Proof.
    intros c0 progs s s' t picks Hr H Hz Hnz. cbn in H.
    destruct (nth_error (threads s) t) as [a|] eqn:Hn; [|discriminate].
    destruct (st a) eqn:Hs; try discriminate. destruct (prog a) as [|o rest] eqn:Hp; [discriminate|].
    destruct (latch_body o (shared s)) as [s1 r sg|c'] eqn:Hb; inversion H; subst; clear H;
      cbn [shared threads] in *.
    2: { congruence. }
    destruct o; cbn in Hb.
    - injection Hb as E1 E2 E3. subst sg. rewrite E1, Hz. cbn [Z.eqb apply_signals]. split.
      + unfold nwaiting. cbn [threads]. apply count_wake_all_self.
      + intros u th Hu Hw. assert (u <> t) by (intro; subst; congruence).
        unfold wake_all. rewrite nth_error_map, nth_error_upd_neq by auto. rewrite Hu. cbn [option_map].
        assert (is_waiting latchCond th = true) as -> by (apply is_waiting_true; auto).
        eexists; split; [reflexivity|]. cbn. auto.
    - destruct (0 <? shared s); inversion Hb; subst. congruence.
    - inversion Hb; subst. congruence.
  Qed.
End Latch.

(* ================================================================ holder_ bookkeeping (all three) *)
Section Holder.
  Variables S op res : Type.
  Variable body : op -> S -> outcome S res.

  Theorem holder_tracks_owner : forall s0 progs (s : sys S op res),
    reach body (init_sys s0 progs) s ->
    holder s = owner s /\
    (forall t, owner s = Some t <-> exists th, nth_error (threads s) t = Some th /\ st th = InCS) /\
    (forall t th, nth_error (threads s) t = Some th ->
       isLockedByThisThread s t = true <-> st th = InCS).
  Proof.
    intros s0 progs s Hr. pose proof (wf_reach _ _ _ body _ _ _ Hr) as W.
    split; [apply (wf_holder _ _ _ _ W)|]. split.
    - intros t; split.
      + apply (wf_owner _ _ _ _ W).
      + intros (th & Hn & Hs). eapply wf_incs; eauto.
    - intros t th Hn. unfold isLockedByThisThread. rewrite (wf_holder _ _ _ _ W). split.
      + destruct (owner s) as [h|] eqn:Ho; [|discriminate]. intro E. apply Nat.eqb_eq in E; subst h.
        destruct (wf_owner _ _ _ _ W _ Ho) as (th' & Hn' & Hs'). congruence.
      + intro Hs. rewrite (wf_incs _ _ _ _ W _ _ Hn Hs). apply Nat.eqb_refl.
  Qed.
End Holder.

(* ================================================================ packaging for Properties_C14 *)
Lemma fifo_of_nothing_lost : forall (puts rs q : list Z), puts = rs ++ q ->
  (exists rest, puts = rs ++ rest) /\
  (forall k v, nth_error rs k = Some v -> nth_error puts k = Some v) /\
  (forall f : Z -> bool, exists rest, filter f puts = filter f rs ++ rest).
Proof.
  intros puts rs q ->. split; [eauto|]. split.
  - intros k v H. apply prefix_nth; auto.
  - intros f. rewrite filter_app. eauto.
Qed.

(* per-producer order with the producer read off the history (not off the values) *)
Lemma tagged_prefix : forall (tagged : list (nat * Z)) (rs q : list Z),
  map snd tagged = rs ++ q ->
  map snd (firstn (length rs) tagged) = rs /\
  forall p, exists rest, filter (put_by p) tagged = filter (put_by p) (firstn (length rs) tagged) ++ rest.
Proof.
  intros tagged rs q H. split.
  - rewrite <- firstn_map, H. rewrite firstn_app, Nat.sub_diag, firstn_all. cbn. apply app_nil_r.
  - intros p. exists (filter (put_by p) (skipn (length rs) tagged)).
    rewrite <- filter_app, firstn_skipn. reflexivity.
Qed.

Lemma bq_tag : forall h, map snd (bq_puts_by h) = bq_puts h.
Proof.
  induction h as [|[[t o] r] h IH]; auto. unfold bq_puts_by, bq_puts in *. cbn [flat_map].
  rewrite map_app, IH. destruct o; reflexivity.
Qed.

Lemma bbq_tag : forall h, map snd (bbq_puts_by h) = bbq_puts h.
Proof.
  induction h as [|[[t o] r] h IH]; auto. unfold bbq_puts_by, bbq_puts in *. cbn [flat_map].
  rewrite map_app, IH. destruct o; reflexivity.
Qed.

Theorem per_producer_order :
  (forall progs s, reach bq_body (init_sys [] progs) s ->
     let tagged := bq_puts_by (hist s) in let n := length (rets (hist s)) in
     map snd tagged = bq_puts (hist s) /\ map snd (firstn n tagged) = rets (hist s) /\
     forall p, exists rest, filter (put_by p) tagged = filter (put_by p) (firstn n tagged) ++ rest) /\
  (forall cap progs s, reach (bbq_body cap) (init_sys [] progs) s ->
     let tagged := bbq_puts_by (hist s) in let n := length (rets (hist s)) in
     map snd tagged = bbq_puts (hist s) /\ map snd (firstn n tagged) = rets (hist s) /\
     forall p, exists rest, filter (put_by p) tagged = filter (put_by p) (firstn n tagged) ++ rest).
Proof.
  split.
  - intros progs s Hr. cbv zeta. split; [apply bq_tag|]. eapply tagged_prefix.
    rewrite bq_tag. apply (bq_nothing_lost progs s Hr).
  - intros cap progs s Hr. cbv zeta. split; [apply bbq_tag|]. eapply tagged_prefix.
    rewrite bbq_tag. apply (bbq_nothing_lost cap progs s Hr).
Qed.

Definition fifo_statement (puts rs : list Z) : Prop :=
  (exists rest, puts = rs ++ rest) /\
  (forall k v, nth_error rs k = Some v -> nth_error puts k = Some v) /\
  (forall f : Z -> bool, exists rest, filter f puts = filter f rs ++ rest).

Theorem fifo_linearisable :
  (forall progs s, reach bq_body (init_sys [] progs) s -> fifo_statement (bq_puts (hist s)) (rets (hist s))) /\
  (forall cap progs s, reach (bbq_body cap) (init_sys [] progs) s ->
     fifo_statement (bbq_puts (hist s)) (rets (hist s))).
Proof.
  split.
  - intros progs s Hr. eapply fifo_of_nothing_lost. apply (bq_nothing_lost progs s Hr).
  - intros cap progs s Hr. eapply fifo_of_nothing_lost. apply (bbq_nothing_lost cap progs s Hr).
Qed.

Theorem nothing_lost :
  (forall progs s, reach bq_body (init_sys [] progs) s -> bq_puts (hist s) = rets (hist s) ++ shared s) /\
  (forall cap progs s, reach (bbq_body cap) (init_sys [] progs) s ->
     bbq_puts (hist s) = rets (hist s) ++ shared s).
Proof. split; [exact bq_nothing_lost | exact bbq_nothing_lost]. Qed.

Theorem no_stuck_waiter :
  (* BlockingQueue *)
  (forall progs s, reach bq_body (init_sys [] progs) s -> quiescent bq_body s ->
     Forall (fun th => finished th \/ (st th = Waiting notEmpty /\ shared s = [])) (threads s)) /\
  (* BoundedBlockingQueue *)
  (forall cap progs s, reach (bbq_body cap) (init_sys [] progs) s -> quiescent (bbq_body cap) s ->
     Forall (fun th => finished th \/ (st th = Waiting notEmpty /\ shared s = []) \/
                       (st th = Waiting notFull /\ length (shared s) = cap)) (threads s)) /\
  (* CountDownLatch *)
  (forall c0 progs s, reach latch_body (init_sys c0 progs) s ->
     (forall t th c, nth_error (threads s) t = Some th -> st th = Waiting c -> (shared s > 0)%Z) /\
     (quiescent latch_body s ->
      Forall (fun th => finished th \/ (st th = Waiting latchCond /\ (shared s > 0)%Z)) (threads s))).
Proof.
  split; [|split].
  - intros progs s Hr Q.
    destruct (quiescent_shape _ _ _ _ s (wf_reach _ _ _ _ _ _ _ Hr) Q) as (_ & HF).
    apply Forall_forall. intros th Hin. rewrite Forall_forall in HF. destruct (HF _ Hin) as [Hf|(c & Hc)]; auto.
    right. destruct (In_nth_error _ _ Hin) as (t & Hn).
    destruct (bq_waits_only_notEmpty _ _ _ _ _ Hr Hn Hc) as (-> & _). split; auto.
    eapply bq_no_stuck; eauto.
  - intros cap progs s Hr Q.
    destruct (quiescent_shape _ _ _ _ s (wf_reach _ _ _ _ _ _ _ Hr) Q) as (_ & HF).
    apply Forall_forall. intros th Hin. rewrite Forall_forall in HF. destruct (HF _ Hin) as [Hf|(c & Hc)]; auto.
    right. destruct (In_nth_error _ _ Hin) as (t & Hn).
    pose proof (wok_reach _ _ _ (bbq_body cap) bbq_blocker (bbq_body_block cap) _ _ _ Hr) as J.
    destruct (Forall_nth_error _ _ _ _ J Hn c Hc) as (o & rest & Hp & Hb).
    destruct o; cbn in Hb; try discriminate; apply Nat.eqb_eq in Hb; subst c.
    + right. split; auto. eapply bbq_no_stuck_producer; eauto.
    + left. split; auto. eapply bbq_no_stuck_consumer; eauto.
  - intros c0 progs s Hr. split.
    + intros t th c Hn Hc. eapply latch_no_stuck; eauto.
    + intro Q. destruct (quiescent_shape _ _ _ _ s (wf_reach _ _ _ _ _ _ _ Hr) Q) as (_ & HF).
      apply Forall_forall. intros th Hin. rewrite Forall_forall in HF. destruct (HF _ Hin) as [Hf|(c & Hc)]; auto.
      right. destruct (In_nth_error _ _ Hin) as (t & Hn).
      pose proof (latch_no_stuck _ _ _ _ _ _ Hr Hn Hc) as Hpos. split; auto.
      (* the condition is latchCond: the thread's call is LWait *)
      assert (J : wok _ _ _ latch_blocker s).
      { eapply (wok_reach _ _ _ latch_body latch_blocker); eauto.
        intros o z c' Hb. destruct o; cbn in Hb; try discriminate. destruct (0 <? z)%Z; inversion Hb. reflexivity. }
      destruct (Forall_nth_error _ _ _ _ J Hn c Hc) as (o & rest & Hp & Hb).
      destruct o; cbn in Hb; try discriminate. apply Nat.eqb_eq in Hb. congruence.
Qed.

(* ================================================================ quiescence is reached (all three) *)
Section Termination.
  Variables S op res : Type.
  Variable body : op -> S -> outcome S res.

  Theorem quiescence_reached : forall s0 progs (s : sys S op res), reach body (init_sys s0 progs) s ->
    (forall ls s', run body s ls = Some s' -> measure s' + nonspur ls <= measure s + 2 * nspur ls) /\
    (forall ls s', run body s ls = Some s' -> nspur ls = 0 -> length ls <= measure s) /\
    (exists ls s', run body s ls = Some s' /\ nspur ls = 0 /\ reach body (init_sys s0 progs) s' /\ quiescent body s').
  Proof.
    intros s0 progs s Hr. split; [|split].
    - intros ls s' H. eapply run_bound; eauto.
    - intros ls s' H Hsp. eapply spurious_free_runs_are_finite; eauto.
    - destruct (reaches_quiescence _ _ _ body s) as (ls & s' & Hrun & Hsp & Hq).
      exists ls, s'. repeat split; auto. eapply reach_run; eauto.
  Qed.
End Termination.

(* ================================================================ every result is the sequential result *)
Lemma skipn_rets : forall (rs q : list Z), skipn (length rs) (rs ++ q) = q.
Proof. intros rs q. rewrite skipn_app, skipn_all, Nat.sub_diag. reflexivity. Qed.


Theorem bq_observers : forall progs s h1 t o r h2,
  reach bq_body (init_sys [] progs) s -> hist s = h1 ++ (t, o, r) :: h2 ->
  bq_puts h1 = rets h1 ++ bq_before h1 /\
  match o with
  | BPut _ => r = RUnit
  | BTake => exists x q', bq_before h1 = x :: q' /\ r = RVal x
  | BDrain => r = RList (bq_before h1)
  | BSize => r = RSize (length (bq_before h1))
  end.
Proof.
  intros progs s h1 t o r h2 Hr Hh. pose proof (linearisable _ _ _ bq_body _ _ _ Hr) as L. rewrite Hh in L.
  destruct (seq_exec_entry _ _ _ bq_body _ _ _ _ _ _ _ L) as (q & q2 & sg & H1 & Hb).
  assert (E : bq_puts h1 = rets h1 ++ q).
  { apply (seq_exec_inv _ _ _ bq_body (fun q h => bq_puts h = rets h ++ q) []); auto.
    intros; eapply bq_hist_step; eauto. }
  assert (Eq : bq_before h1 = q) by (unfold bq_before; rewrite E; apply skipn_rets). rewrite Eq. split; auto.
  destruct o as [v| | |]; cbn in Hb.
  - inversion Hb; auto.
  - destruct q as [|x q']; inversion Hb; subst. eauto.
  - inversion Hb; auto.
  - inversion Hb; auto.
Qed.

Theorem bbq_observers : forall cap progs s h1 t o r h2,
  reach (bbq_body cap) (init_sys [] progs) s -> hist s = h1 ++ (t, o, r) :: h2 ->
  bbq_puts h1 = rets h1 ++ bbq_before h1 /\ length (bbq_before h1) <= cap /\
  match o with
  | QPut _ => r = RUnit /\ length (bbq_before h1) < cap
  | QTake => exists x q', bbq_before h1 = x :: q' /\ r = RVal x
  | QSize => r = RSize (length (bbq_before h1))
  | QEmpty => r = RBool (Nat.eqb (length (bbq_before h1)) 0)
  | QFull => r = RBool (Nat.eqb (length (bbq_before h1)) cap)
  | QCapacity => r = RSize cap
  end.
Proof.
  intros cap progs s h1 t o r h2 Hr Hh. pose proof (linearisable _ _ _ (bbq_body cap) _ _ _ Hr) as L. rewrite Hh in L.
  destruct (seq_exec_entry _ _ _ (bbq_body cap) _ _ _ _ _ _ _ L) as (q & q2 & sg & H1 & Hb).
  assert (E : bbq_puts h1 = rets h1 ++ q /\ bounded cap q).
  { apply (seq_exec_inv _ _ _ (bbq_body cap) (fun q h => bbq_puts h = rets h ++ q /\ bounded cap q) []).
    - split; [reflexivity|apply bounded_nil].
    - intros t0 o0 s0 s' r0 sg0 h (A & Bd) Hb0. split; [eapply bbq_hist_step; eauto|eapply bbq_bounded_ret; eauto].
    - exact H1. }
  destruct E as (E & Bd). assert (Eq : bbq_before h1 = q) by (unfold bbq_before; rewrite E; apply skipn_rets).
  rewrite Eq. split; auto. split; [exact Bd|].
  destruct o as [v| | | | |]; cbn in Hb.
  - destruct (Nat.eqb (length q) cap) eqn:Ec; inversion Hb; subst. split; auto.
    apply Nat.eqb_neq in Ec. unfold bounded in Bd. lia.
  - destruct q as [|x q']; inversion Hb; subst. eauto.
  - inversion Hb; auto.
  - inversion Hb; auto.
  - inversion Hb; auto.
  - inversion Hb; auto.
Qed.

Theorem observers :
  (forall progs s h1 t o r h2, reach bq_body (init_sys [] progs) s -> hist s = h1 ++ (t, o, r) :: h2 ->
     bq_puts h1 = rets h1 ++ bq_before h1 /\
     match o with
     | BPut _ => r = RUnit
     | BTake => exists x q', bq_before h1 = x :: q' /\ r = RVal x
     | BDrain => r = RList (bq_before h1)
     | BSize => r = RSize (length (bq_before h1))
     end) /\
  (forall cap progs s h1 t o r h2, reach (bbq_body cap) (init_sys [] progs) s -> hist s = h1 ++ (t, o, r) :: h2 ->
     bbq_puts h1 = rets h1 ++ bbq_before h1 /\ length (bbq_before h1) <= cap /\
     match o with
     | QPut _ => r = RUnit /\ length (bbq_before h1) < cap
     | QTake => exists x q', bbq_before h1 = x :: q' /\ r = RVal x
     | QSize => r = RSize (length (bbq_before h1))
     | QEmpty => r = RBool (Nat.eqb (length (bbq_before h1)) 0)
     | QFull => r = RBool (Nat.eqb (length (bbq_before h1)) cap)
     | QCapacity => r = RSize cap
     end).
Proof. split; [exact bq_observers|exact bbq_observers]. Qed.
