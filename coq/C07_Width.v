(* C07_Width: the sequence number is carried in 64-bit integers everywhere.
   The TimerModel (C06_Model) keeps next_seq / o_seq / the id's sequence as unbounded Z.  The C++ keeps
   them in Timer::s_numCreated_ (an AtomicIntegerT), Timer::sequence_, TimerId::sequence_ and the second
   component of TimerQueue::ActiveTimer.  The widths of these four are regenerated from the current
   headers (lib/consts/C07.txt -> Gen_Consts); the lemma below says that two's-complement truncation to
   each of those widths is the identity on every sequence number below 2^63, i.e. that the unbounded
   model is faithful for the first 2^63 - 1 timers of a process (C07_seq_unique, C07_stale_cancel_noop
   and C07_dead_id_never_runs speak about exactly that range).  A narrower counter (e.g. AtomicInt32)
   makes the lemma false: sequence 2^32 + 1 would collide with sequence 1 and a stale cancel could
   erase a live timer that reuses the address. *)
From Coq Require Import ZArith Lia.
From Muduo Require Import Gen_Consts.
Local Open Scope Z_scope.

(* two's-complement truncation of n to [bits] bits (what a store into a signed integer of that width keeps) *)
Definition swrap (bits n : Z) : Z := (n + 2 ^ (bits - 1)) mod 2 ^ bits - 2 ^ (bits - 1).

Lemma swrap64_id : forall n, 0 <= n < 2 ^ 63 -> swrap 64 n = n.
Proof.
  intros n Hn. unfold swrap. change (64 - 1) with 63.
  assert (E : 2 ^ 64 = 2 * 2 ^ 63) by reflexivity. rewrite E.
  rewrite Z.mod_small by lia. lia.
Qed.

Lemma seq_width_faithful : forall n, 0 <= n < 2 ^ 63 ->
  swrap Timer_numCreated_bits n = n /\ swrap Timer_sequence_bits n = n /\
  swrap TimerId_sequence_bits n = n /\ swrap TimerQueue_ActiveTimer_sequence_bits n = n.
Proof.
  intros n Hn.
  change Timer_numCreated_bits with 64. change Timer_sequence_bits with 64.
  change TimerId_sequence_bits with 64. change TimerQueue_ActiveTimer_sequence_bits with 64.
  pose proof (swrap64_id n Hn). tauto.
Qed.

(* what a 32-bit counter would do (the shape of the defect the lemma above excludes) *)
Lemma swrap32_collides : swrap 32 (2 ^ 32 + 1) = 1.
Proof. reflexivity. Qed.
