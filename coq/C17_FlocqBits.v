(* C17_FlocqBits: the 64 bits of a double as fmt_g12 reads them are Flocq's decoding (IEEE754.Bits
   b64_of_bits), and the text of a finite non-zero double is, after the sign, the %g rendering of
   its magnitude correctly rounded to 12 significant decimal digits (Flocq: round radix10
   (FLX_exp 12) ZnearestE).  Separate from C17_Flocq.v because IEEE754.Binary and
   IEEE754.BinarySingleNaN define the same names. *)
From Coq Require Import List ZArith Reals Lia Lra.
From Coq.Strings Require Import Byte.
From Flocq Require Import Core Binary Bits.
From Muduo Require Import C17_Model C17_Units C17_G12 C17_Flocq.
Import ListNotations.
Local Open Scope Z_scope.

(* the fields fmt_g12 reads off the 64 bits are those of Flocq's decoder b64_of_bits: for a
   finite pattern the double denotes (-1)^s * m * 2^e *)
Theorem bits_decode bits : 0 <= bits < 2 ^ 64 ->
  let expo := bits / 2 ^ 52 mod 2 ^ 11 in
  let frac := bits mod 2 ^ 52 in
  let m := if expo =? 0 then frac else 2 ^ 52 + frac in
  let e := if expo =? 0 then -1074 else expo - 1075 in
  expo <> 2047 ->
  B2R 53 1024 (b64_of_bits bits) =
  ((if bits / 2 ^ 63 mod 2 =? 1 then -1 else 1) * (IZR m * bpow radix2 e))%R.
Proof.
  intros Hb expo frac m e Hfin.
  unfold b64_of_bits, binary_float_of_bits. rewrite B2R_FF2B.
  unfold binary_float_of_bits_aux, split_bits.
  change (2 ^ 52 * 2 ^ 11) with (2 ^ 63). fold frac. fold expo.
  pose proof (Z.mod_pos_bound (bits / 2 ^ 52) (2 ^ 11) ltac:(lia)) as He.
  pose proof (Z.mod_pos_bound bits (2 ^ 52) ltac:(lia)) as Hf. fold expo in He. fold frac in Hf.
  assert (Sg : (bits / 2 ^ 63 mod 2 =? 1) = (2 ^ 63 <=? bits)).
  { destruct (Z.leb_spec (2 ^ 63) bits) as [H|H].
    - assert (E1 : bits / 2 ^ 63 = 1) by (symmetry; apply Z.div_unique with (bits - 2 ^ 63); lia). rewrite E1. reflexivity.
    - rewrite Z.div_small by lia. reflexivity. }
  rewrite Sg. set (s := 2 ^ 63 <=? bits).
  change (SpecFloat.emin (52 + 1) (2 ^ (11 - 1))) with (-1074).
  assert (Cz : forall (b : bool) (p : positive), IZR (SpecFloat.cond_Zopp b (Z.pos p)) = ((if b then -1 else 1) * IZR (Z.pos p))%R).
  { intros b p. destruct b; cbn [SpecFloat.cond_Zopp Z.opp]; [change (Z.neg p) with (- Z.pos p); rewrite opp_IZR|]; lra. }
  unfold m, e.
  destruct (Z.eqb_spec expo 0) as [E0|E0].
  - rewrite E0. cbn [Zeq_bool Z.compare].
    destruct frac as [|pf|pf] eqn:Ef; [cbn [FF2R]; lra| |lia].
    cbn [FF2R]. unfold F2R. cbn [Fnum Fexp]. rewrite Cz. ring.
  - assert (Z1 : Zeq_bool expo 0 = false) by (apply Zeq_bool_false; exact E0).
    assert (Z2 : Zeq_bool expo (2 ^ 11 - 1) = false) by (apply Zeq_bool_false; change (2 ^ 11 - 1) with 2047; exact Hfin).
    rewrite Z1, Z2.
    destruct (frac + 2 ^ 52) as [|pm|pm] eqn:Em; [lia| |lia].
    cbn [FF2R]. unfold F2R. cbn [Fnum Fexp]. rewrite Cz.
    replace (2 ^ 52 + frac) with (Z.pos pm) by lia. replace (expo + -1074 - 1) with (expo - 1075) by lia. ring.
Qed.

(* a finite, non-zero double: after the sign, the text is the %g rendering (g12_text) of (k, X) with
   k * 10^(X-11) = |x| correctly rounded to 12 significant decimal digits, 10^11 <= k < 10^12 *)
Theorem fmt_g12_spec bits : 0 <= bits < 2 ^ 64 ->
  bits / 2 ^ 52 mod 2 ^ 11 <> 2047 -> bits mod 2 ^ 63 <> 0 ->
  exists k X, 10 ^ 11 <= k < 10 ^ 12 /\
    F2R (Float radix10 k (X - 11)) = dec_sig12 (Rabs (B2R 53 1024 (b64_of_bits bits))) /\
    fmt_g12 bits = (if bits / 2 ^ 63 mod 2 =? 1 then [x2d] else []) ++ g12_text k X.
Proof.
  intros Hb Hfin Hnz. pose proof (bits_decode bits Hb Hfin) as Dec. cbv zeta in Dec.
  unfold fmt_g12.
  pose proof (Z.mod_pos_bound (bits / 2 ^ 52) (2 ^ 11) ltac:(lia)) as He.
  pose proof (Z.mod_pos_bound bits (2 ^ 52) ltac:(lia)) as Hf.
  set (expo := bits / 2 ^ 52 mod 2 ^ 11) in *. set (frac := bits mod 2 ^ 52) in *.
  destruct (Z.eqb_spec expo 2047) as [|_]; [contradiction|].
  set (m := if expo =? 0 then frac else 2 ^ 52 + frac) in *.
  set (e := if expo =? 0 then -1074 else expo - 1075) in *.
  assert (Hm : 0 <= m < 2 ^ 53) by (unfold m; destruct (expo =? 0); lia).
  assert (Hee : -1074 <= e <= 971) by (unfold e; destruct (Z.eqb_spec expo 0); lia).
  assert (M0 : m <> 0).
  { intros M. apply Hnz. unfold m in M. destruct (Z.eqb_spec expo 0) as [E0|E0]; [|lia].
    (* expo = 0 and frac = 0: all of the low 63 bits are 0 *)
    assert (B52 : bits = 2 ^ 52 * (bits / 2 ^ 52) + frac) by (apply Z.div_mod; lia).
    assert (Q : bits / 2 ^ 52 = 2 ^ 11 * (bits / 2 ^ 52 / 2 ^ 11) + expo) by (apply Z.div_mod; lia).
    rewrite E0, Z.add_0_r in Q. rewrite M, Z.add_0_r, Q in B52.
    rewrite B52. replace (2 ^ 52 * (2 ^ 11 * (bits / 2 ^ 52 / 2 ^ 11))) with ((bits / 2 ^ 52 / 2 ^ 11) * 2 ^ 63) by (change (2 ^ 63) with (2 ^ 52 * 2 ^ 11); ring).
    apply Z.mod_mul. lia. }
  destruct (Z.eqb_spec m 0) as [|_]; [contradiction|].
  set (N := if 0 <=? e then m * 2 ^ e else m). set (D := if 0 <=? e then 1 else 2 ^ (- e)).
  assert (R : in_range N D).
  { unfold in_range, N, D. destruct (Z.leb_spec 0 e) as [H|H].
    - assert (P : 0 < 2 ^ e) by (apply Z.pow_pos_nonneg; lia).
      assert (Q : 2 ^ e <= 2 ^ 971) by (apply Z.pow_le_mono_r; lia).
      assert (0 < m * 2 ^ e) by (apply Z.mul_pos_pos; lia).
      assert (m * 2 ^ e < 2 ^ 53 * 2 ^ 971).
      { apply Z.le_lt_trans with (m * 2 ^ 971); [apply Z.mul_le_mono_nonneg_l; lia|].
        apply Z.mul_lt_mono_pos_r; lia. }
      assert (A1 : 1 <= m * 2 ^ e) by lia. assert (A2 : 1 <= 2 ^ 1074) by (apply Z.leb_le; vm_compute; reflexivity).
      pose proof (Z.mul_le_mono_nonneg 1 (m * 2 ^ e) 1 (2 ^ 1074) ltac:(lia) A1 ltac:(lia) A2) as A3.
      change (2 ^ 53 * 2 ^ 971) with (2 ^ 1024) in *. lia.
    - assert (P : 0 < 2 ^ (- e)) by (apply Z.pow_pos_nonneg; lia).
      assert (Q : 2 ^ (- e) <= 2 ^ 1074) by (apply Z.pow_le_mono_r; lia).
      assert (m * 2 ^ 1074 >= 1 * 2 ^ 1074) by (apply Z.le_ge, Z.mul_le_mono_nonneg_r; lia).
      assert (1 * 2 ^ 1024 <= 2 ^ (- e) * 2 ^ 1024) by (apply Z.mul_le_mono_nonneg_r; lia).
      lia. }
  pose proof (round12_range N D R) as [K _]. pose proof (round12_is_round N D R) as Rd.
  destruct (round12 N D) as [k X]. cbn [fst snd] in K, Rd.
  exists k, X. split; [exact K|]. split; [|reflexivity].
  rewrite Rd. f_equal. rewrite Dec.
  assert (V : (0 <= IZR m * bpow radix2 e)%R).
  { apply Rmult_le_pos; [apply IZR_le; lia|apply bpow_ge_0]. }
  rewrite Rabs_mult. rewrite (Rabs_pos_eq _ V).
  replace (Rabs (if bits / 2 ^ 63 mod 2 =? 1 then -1 else 1)) with 1%R
    by (destruct (_ =? 1); [rewrite Rabs_left by lra|rewrite Rabs_pos_eq by lra]; lra).
  rewrite Rmult_1_l. unfold N, D. destruct (Z.leb_spec 0 e) as [H|H].
  - rewrite mult_IZR, pow2_bpow by lia. field.
  - rewrite pow2_bpow by lia. rewrite bpow_opp. unfold Rdiv. rewrite Rinv_inv. reflexivity.
Qed.
