(* Conc_Model: generic monitor semantics (DESIGN 3.3), executable, no proofs.

   One mutex, any number of condition variables (numbered), any number of threads, each with a
   program = list of calls [op].  A call is   lock; while (guard) wait(c); code; notify*; unlock
   and is described by ONE function  body : op -> S -> outcome  evaluated each time the thread
   holds the mutex at the top of its wait loop:
     Block c        : the guard holds, the thread calls c.wait() (releases the mutex, sleeps)
     Ret s' r sigs  : the guard is false; the code runs (state s'), the notifications [sigs]
                      are issued in order, the mutex is released, the call returns r.
   Because every muduo monitor re-tests its guard in a while loop right after lock(), waking up
   means evaluating [body] again on the then-current state.

   Atomic steps (labels), chosen by an arbitrary scheduler:
     LAcquire t     pthread_mutex_lock returns in t (mutex free)   + MutexLock::assignHolder
     LBody t picks  t evaluates body: either wait (UnassignGuard; release; sleep) or
                    code + notifications + unassignHolder + unlock; [picks] tells, for each
                    Notify in order, which waiter pthread_cond_signal releases (ANY waiter)
     LSpurious t    a waiting thread is released without a notification (POSIX allows it)
     LReacquire t   a released waiter gets the mutex back (pthread_cond_wait returns,
                    ~UnassignGuard assigns the holder) *)
From Coq Require Import List Arith Bool.
Import ListNotations.

Definition cond := nat.
Inductive signal := Notify (c : cond) | NotifyAll (c : cond).
Inductive status := Idle | InCS | Waiting (c : cond) | Signalled.

Fixpoint upd {A} (n : nat) (x : A) (l : list A) : list A :=
  match l, n with
  | [], _ => []
  | _ :: t, O => x :: t
  | h :: t, S n' => h :: upd n' x t
  end.

Section Monitor.
  Variables S op res : Type.

  Inductive outcome := Ret (s : S) (r : res) (sg : list signal) | Block (c : cond).

  Variable body : op -> S -> outcome.

  Record thread := mkThread { prog : list op; st : status }.

  Record sys := mkSys {
    shared : S;
    owner : option nat;            (* the scheduler's / kernel's view: who holds the mutex *)
    holder : option nat;           (* MutexLock::holder_ *)
    threads : list thread;
    hist : list (nat * op * res)   (* completed sections (thread, call, result), oldest first *)
  }.

  Definition is_waiting (c : cond) (th : thread) : bool :=
    match st th with Waiting c' => Nat.eqb c c' | _ => false end.

  Definition signalled_of (th : thread) : thread := mkThread (prog th) Signalled.

  Fixpoint wake_first (c : cond) (ths : list thread) : list thread :=
    match ths with
    | [] => []
    | th :: r => if is_waiting c th then signalled_of th :: r else th :: wake_first c r
    end.

  (* pthread_cond_signal: releases the waiter named by the schedule; if the name is not a
     waiter of c the lowest-numbered waiter is taken (so the function is total and every
     waiter can be chosen); nobody waiting: no effect *)
  Definition wake_one (c : cond) (w : nat) (ths : list thread) : list thread :=
    match nth_error ths w with
    | Some th => if is_waiting c th then upd w (signalled_of th) ths else wake_first c ths
    | None => wake_first c ths
    end.

  Definition wake_all (c : cond) (ths : list thread) : list thread :=
    map (fun th => if is_waiting c th then signalled_of th else th) ths.

  Fixpoint apply_signals (sg : list signal) (picks : list nat) (ths : list thread) : list thread :=
    match sg with
    | [] => ths
    | Notify c :: r => apply_signals r (tl picks) (wake_one c (hd 0 picks) ths)
    | NotifyAll c :: r => apply_signals r picks (wake_all c ths)
    end.

  Inductive label :=
  | LAcquire (t : nat)
  | LBody (t : nat) (picks : list nat)
  | LSpurious (t : nat)
  | LReacquire (t : nat).

  Definition step (s : sys) (l : label) : option sys :=
    match l with
    | LAcquire t =>
        match nth_error (threads s) t, owner s with
        | Some th, None =>
            match st th, prog th with
            | Idle, _ :: _ =>
                Some (mkSys (shared s) (Some t) (Some t) (upd t (mkThread (prog th) InCS) (threads s)) (hist s))
            | _, _ => None
            end
        | _, _ => None
        end
    | LBody t picks =>
        match nth_error (threads s) t with
        | Some th =>
            match st th, prog th with
            | InCS, o :: rest =>
                match body o (shared s) with
                | Ret s' r sg =>
                    Some (mkSys s' None None
                            (apply_signals sg picks (upd t (mkThread rest Idle) (threads s)))
                            (hist s ++ [(t, o, r)]))
                | Block c =>
                    Some (mkSys (shared s) None None (upd t (mkThread (prog th) (Waiting c)) (threads s)) (hist s))
                end
            | _, _ => None
            end
        | None => None
        end
    | LSpurious t =>
        match nth_error (threads s) t with
        | Some th =>
            match st th with
            | Waiting _ => Some (mkSys (shared s) (owner s) (holder s) (upd t (signalled_of th) (threads s)) (hist s))
            | _ => None
            end
        | None => None
        end
    | LReacquire t =>
        match nth_error (threads s) t, owner s with
        | Some th, None =>
            match st th with
            | Signalled =>
                Some (mkSys (shared s) (Some t) (Some t) (upd t (mkThread (prog th) InCS) (threads s)) (hist s))
            | _ => None
            end
        | _, _ => None
        end
    end.

  Definition init_sys (s0 : S) (progs : list (list op)) : sys :=
    mkSys s0 None None (map (fun p => mkThread p Idle) progs) [].

  Inductive reach (s0 : sys) : sys -> Prop :=
  | reach_refl : reach s0 s0
  | reach_step : forall s l s', reach s0 s -> step s l = Some s' -> reach s0 s'.

  Fixpoint run (s : sys) (ls : list label) : option sys :=
    match ls with
    | [] => Some s
    | l :: r => match step s l with Some s' => run s' r | None => None end
    end.

  (* the list of completed sections read as a SEQUENTIAL execution of the calls, one after the
     other, from state s0 to state s: every entry (t, o, r) returned r from the state its
     predecessors left behind (Conc_Proofs.linearisable: the history of every reachable state is one) *)
  Inductive seq_exec (s0 : S) : list (nat * op * res) -> S -> Prop :=
  | seq_nil : seq_exec s0 [] s0
  | seq_snoc : forall h s1 t o r s2 sg, seq_exec s0 h s1 -> body o s1 = Ret s2 r sg ->
      seq_exec s0 (h ++ [(t, o, r)]) s2.

  (* A thread that is outside every call gets a new list of calls.  NOT a label of [step]: it is
     the hook by which a component whose threads decide what to call next from unguarded reads
     or from the result of the previous call (ThreadPool's worker loop, C15) embeds this
     semantics into its own step relation; Conc_Proofs shows that it preserves every generic
     invariant. *)
  Definition set_prog (t : nat) (p : list op) (s : sys) : option sys :=
    match nth_error (threads s) t with
    | Some th =>
        match st th with
        | Idle => Some (mkSys (shared s) (owner s) (holder s) (upd t (mkThread p Idle) (threads s)) (hist s))
        | _ => None
        end
    | None => None
    end.

  Definition is_spurious (l : label) : bool := match l with LSpurious _ => true | _ => false end.
  Definition nspur (ls : list label) : nat := length (filter is_spurious ls).
  Definition nonspur (ls : list label) : nat := length (filter (fun l => negb (is_spurious l)) ls).

  (* ranking function (Conc_Proofs.measure_step): every step that is not an injected spurious
     wake-up strictly decreases it, a spurious wake-up raises it by 2 *)
  Definition rank (th : thread) : nat :=
    match st th with Idle => 3 | InCS => 2 | Waiting _ => 1 | Signalled => 3 end.
  Definition tsum (f : thread -> nat) (ths : list thread) : nat := fold_right (fun th a => f th + a) 0 ths.
  Definition measure (s : sys) : nat :=
    (3 * length (threads s) + 1) * tsum (fun th => length (prog th)) (threads s) + tsum rank (threads s).

  (* can thread t make a step that is not a spurious wake-up? *)
  Definition can_move (s : sys) (t : nat) : bool :=
    match step s (LAcquire t), step s (LBody t []), step s (LReacquire t) with
    | None, None, None => false
    | _, _, _ => true
    end.
  Definition some_move (s : sys) : option label :=
    match filter (can_move s) (seq 0 (length (threads s))) with
    | [] => None
    | t :: _ => match step s (LAcquire t), step s (LBody t []) with
                | Some _, _ => Some (LAcquire t)
                | None, Some _ => Some (LBody t [])
                | None, None => Some (LReacquire t)
                end
    end.

  (* nothing but spurious wake-ups can happen *)
  Definition quiescent (s : sys) : Prop :=
    forall l s', step s l = Some s' -> exists t, l = LSpurious t.

  Definition finished (th : thread) : Prop := st th = Idle /\ prog th = [].

  Definition count (f : thread -> bool) (ths : list thread) : nat := length (filter f ths).

  (* the wait set of c *)
  Definition nwaiting (c : cond) (s : sys) : nat := count (is_waiting c) (threads s).
End Monitor.

Arguments Ret {S res} s r sg.
Arguments Block {S res} c.
Arguments mkThread {op} prog st.
Arguments prog {op} t.
Arguments st {op} t.
Arguments mkSys {S op res} shared owner holder threads hist.
Arguments shared {S op res} s.
Arguments owner {S op res} s.
Arguments holder {S op res} s.
Arguments threads {S op res} s.
Arguments hist {S op res} s.
Arguments is_waiting {op} c th.
Arguments signalled_of {op} th.
Arguments wake_first {op} c ths.
Arguments wake_one {op} c w ths.
Arguments wake_all {op} c ths.
Arguments apply_signals {op} sg picks ths.
Arguments step {S op res} body s l.
Arguments init_sys {S op res} s0 progs.
Arguments reach {S op res} body s0 _.
Arguments run {S op res} body s ls.
Arguments quiescent {S op res} body s.
Arguments finished {op} th.
Arguments count {op} f ths.
Arguments nwaiting {S op res} c s.
Arguments seq_exec {S op res} body s0 _ _.
Arguments set_prog {S op res} t p s.
Arguments rank {op} th.
Arguments tsum {op} f ths.
Arguments measure {S op res} s.
Arguments can_move {S op res} body s t.
Arguments some_move {S op res} body s.
