(* C17_G12: snprintf("%.12g") of a binary64 as C17_Model.fmt_g12 computes it (decode the 64 bits,
   decimal exponent X with 10^X <= x < 10^(X+1), x rounded to 12 significant digits with ties to
   even, the %g choice between the f and e styles with P = 12, trailing zeros removed).  Proved
   here, in Z: the decimal exponent is exact for every finite double (dec_exp_spec), the twelve
   digits are in [10^11, 10^12) (round12_range), and the text of EVERY 64-bit pattern has at most
   19 characters (fmt_g12_length) -- the bound C17_in_bounds needs is a theorem, not an
   assumption.  That round12 is the correctly rounded decimal (Flocq) is in C17_Flocq.v. *)
From Coq Require Import List ZArith Lia Bool Arith NArith.
From Coq.Strings Require Import Byte.
From Muduo Require Import Base_Bytes Gen_Consts Gen_C17 C17_Model C17_Proofs C17_Units.
Import ListNotations.
Local Open Scope Z_scope.

(* ---- powers of ten against a rational --------------------------------------------------------- *)

Lemma ge_repr N D a b : 0 < D -> 0 < N -> 0 <= a -> 0 <= b ->
  (ge_pow10 N D (a - b) = true <-> D * 10 ^ a <= N * 10 ^ b).
Proof.
  intros HD HN Ha Hb. unfold ge_pow10.
  destruct (Z.leb_spec 0 (a - b)) as [H|H].
  - (* a = (a-b) + b *)
    assert (E : 10 ^ a = 10 ^ (a - b) * 10 ^ b) by (rewrite <- Z.pow_add_r by lia; f_equal; lia).
    assert (P : 0 < 10 ^ b) by (apply Z.pow_pos_nonneg; lia).
    rewrite Z.leb_le, E. split; intros L.
    + rewrite Z.mul_assoc. apply Z.mul_le_mono_nonneg_r; lia.
    + rewrite Z.mul_assoc in L. apply (Z.mul_le_mono_pos_r _ _ (10 ^ b)); lia.
  - assert (E : 10 ^ b = 10 ^ (- (a - b)) * 10 ^ a) by (rewrite <- Z.pow_add_r by lia; f_equal; lia).
    assert (P : 0 < 10 ^ a) by (apply Z.pow_pos_nonneg; lia).
    rewrite Z.leb_le, E. split; intros L.
    + rewrite Z.mul_assoc. apply Z.mul_le_mono_nonneg_r; lia.
    + rewrite Z.mul_assoc in L. apply (Z.mul_le_mono_pos_r _ _ (10 ^ a)); lia.
Qed.

Lemma slow_exp_ok N D fuel : forall lo,
  ge_pow10 N D lo = true -> ge_pow10 N D (lo + Z.of_nat fuel) = false ->
  ge_pow10 N D (slow_exp N D fuel lo) = true /\ ge_pow10 N D (slow_exp N D fuel lo + 1) = false /\
  lo <= slow_exp N D fuel lo < lo + Z.of_nat fuel.
Proof.
  induction fuel as [|f IH]; intros lo H1 H2.
  - rewrite Z.add_0_r in H2. congruence.
  - cbn [slow_exp]. destruct (ge_pow10 N D (lo + 1)) eqn:G.
    + destruct (IH (lo + 1) G) as [A [B C]]; [replace (lo + 1 + Z.of_nat f) with (lo + Z.of_nat (S f)) by lia; exact H2|].
      repeat split; try assumption; lia.
    + repeat split; try assumption; lia.
Qed.

(* the rationals that are binary64 magnitudes: 2^-1074 <= N/D < 2^1024 *)
Definition in_range (N D : Z) : Prop := 0 < N /\ 0 < D /\ D <= N * 2 ^ 1074 /\ N < D * 2 ^ 1024.

Lemma dec_exp_spec N D : in_range N D -> dec_exp_ok N D (dec_exp N D) = true.
Proof.
  intros [HN [HD [Lo Hi]]]. unfold dec_exp.
  destruct (find _ _) as [X|] eqn:F; [apply find_some in F; exact (proj2 F)|].
  assert (P1 : 2 ^ 1074 <= 10 ^ 330) by (apply Z.leb_le; vm_compute; reflexivity).
  assert (P2 : 2 ^ 1024 <= 10 ^ 310) by (apply Z.leb_le; vm_compute; reflexivity).
  assert (G1 : ge_pow10 N D (-330) = true).
  { assert (N * 2 ^ 1074 <= N * 10 ^ 330) by (apply Z.mul_le_mono_nonneg_l; lia).
    apply (ge_repr N D 0 330 HD HN); try lia. all: rewrite Z.pow_0_r, Z.mul_1_r; lia. }
  assert (G2 : ge_pow10 N D (-330 + Z.of_nat 640) = false).
  { apply not_true_is_false. intros G. apply (ge_repr N D 310 0 HD HN) in G; try lia.
    all: rewrite Z.pow_0_r, Z.mul_1_r in G.
    all: assert (D * 2 ^ 1024 <= D * 10 ^ 310) by (apply Z.mul_le_mono_nonneg_l; lia); lia. }
  destruct (slow_exp_ok N D 640 (-330) G1 G2) as [A [B C]].
  unfold dec_exp_ok. rewrite A, B.
  destruct (Z.leb_spec (-400) (slow_exp N D 640 (-330))); [|lia].
  destruct (Z.leb_spec (slow_exp N D 640 (-330)) 400); [reflexivity|lia].
Qed.

Lemma dec_exp_ok_elim N D X : dec_exp_ok N D X = true ->
  -400 <= X <= 400 /\ ge_pow10 N D X = true /\ ge_pow10 N D (X + 1) = false.
Proof.
  unfold dec_exp_ok. intros H. apply andb_prop in H. destruct H as [H H4].
  apply andb_prop in H. destruct H as [H H3]. apply andb_prop in H. destruct H as [H1 H2].
  apply Z.leb_le in H1. apply Z.leb_le in H2. apply negb_true_iff in H4. auto.
Qed.

(* the twelve digits: 10^11 <= k < 10^12, exponent within +-401 *)
Lemma round12_range N D : in_range N D ->
  10 ^ 11 <= fst (round12 N D) < 10 ^ 12 /\ -401 <= snd (round12 N D) <= 401.
Proof.
  intros R. pose proof (dec_exp_spec N D R) as S. destruct R as [HN [HD _]].
  apply dec_exp_ok_elim in S. destruct S as [Rg [G1 G2]].
  unfold round12. set (X := dec_exp N D) in *.
  assert (K : 10 ^ 11 <= (if 0 <=? 11 - X then rne (N * 10 ^ (11 - X)) D else rne N (D * 10 ^ (- (11 - X)))) <= 10 ^ 12).
  { destruct (Z.leb_spec 0 (11 - X)) as [Hs|Hs].
    - assert (L : D * 10 ^ 11 <= N * 10 ^ (11 - X)).
      { apply (ge_repr N D 11 (11 - X) HD HN); try lia. replace (11 - (11 - X)) with X by lia. exact G1. }
      assert (U : N * 10 ^ (11 - X) < D * 10 ^ 12).
      { destruct (Z_lt_le_dec (N * 10 ^ (11 - X)) (D * 10 ^ 12)) as [|C]; [assumption|exfalso].
        apply (ge_repr N D 12 (11 - X) HD HN) in C; try lia. replace (12 - (11 - X)) with (X + 1) in C by lia. congruence. }
      split.
      + rewrite <- (rne_exact (10 ^ 11) D HD). apply rne_mono; try lia. apply Z.mul_le_mono_nonneg_r; lia.
      + rewrite <- (rne_exact (10 ^ 12) D HD). apply rne_mono; try lia. apply Z.mul_le_mono_nonneg_r; lia.
    - assert (P : 0 < 10 ^ (- (11 - X))) by (apply Z.pow_pos_nonneg; lia).
      assert (HD' : 0 < D * 10 ^ (- (11 - X))) by (apply Z.mul_pos_pos; lia).
      assert (E11 : 10 ^ X = 10 ^ 11 * 10 ^ (- (11 - X))) by (rewrite <- Z.pow_add_r by lia; f_equal; lia).
      assert (E12 : 10 ^ (X + 1) = 10 ^ 12 * 10 ^ (- (11 - X))) by (rewrite <- Z.pow_add_r by lia; f_equal; lia).
      assert (L : D * 10 ^ X <= N).
      { pose proof (proj1 (ge_repr N D X 0 HD HN ltac:(lia) ltac:(lia))) as Q.
        rewrite Z.sub_0_r, Z.pow_0_r, Z.mul_1_r in Q. apply Q. exact G1. }
      assert (U : N < D * 10 ^ (X + 1)).
      { destruct (Z_lt_le_dec N (D * 10 ^ (X + 1))) as [|C]; [assumption|exfalso].
        pose proof (proj2 (ge_repr N D (X + 1) 0 HD HN ltac:(lia) ltac:(lia))) as Q.
        rewrite Z.sub_0_r, Z.pow_0_r, Z.mul_1_r in Q. rewrite (Q C) in G2. discriminate. }
      set (T := 10 ^ (- (11 - X))) in *.
      split.
      + rewrite <- (rne_exact (10 ^ 11) (D * T) HD'). apply rne_mono; try lia.
        apply Z.mul_le_mono_nonneg_r; [lia|]. rewrite E11 in L. lia.
      + rewrite <- (rne_exact (10 ^ 12) (D * T) HD'). apply rne_mono; try lia.
        apply Z.mul_le_mono_nonneg_r; [lia|]. rewrite E12 in U. lia. }
  set (k := if 0 <=? 11 - X then _ else _) in *.
  destruct (Z.eqb_spec k (10 ^ 12)) as [E|E]; cbn [fst snd]; lia.
Qed.

(* ---- the text is short -------------------------------------------------------------------------- *)

Lemma drop_zeros_length l : (length (drop_zeros l) <= length l)%nat.
Proof. induction l as [|c r IH]; cbn [drop_zeros length]; [lia|]. destruct (Byte.eqb c x30); cbn [length]; lia. Qed.

Lemma strip0_length l : (length (strip0 l) <= length l)%nat.
Proof. unfold strip0. rewrite rev_length. pose proof (drop_zeros_length (rev l)). rewrite rev_length in H. exact H. Qed.

Lemma with_point_length ip fr : (length (with_point ip fr) <= length ip + 1 + length fr)%nat.
Proof. unfold with_point. rewrite app_length. destruct fr; cbn [length]; lia. Qed.

Lemma split_point_length n (ds : list byte) :
  (length (with_point (firstn n ds) (strip0 (skipn n ds))) <= length ds + 1)%nat.
Proof.
  pose proof (with_point_length (firstn n ds) (strip0 (skipn n ds))) as W.
  pose proof (strip0_length (skipn n ds)) as S.
  assert (E : (length (firstn n ds) + length (skipn n ds) = length ds)%nat).
  { rewrite <- (firstn_skipn n ds) at 3. rewrite app_length. reflexivity. }
  lia.
Qed.

Lemma g12_text_length k X : 0 <= k < 10 ^ 12 -> -401 <= X <= 401 -> (length (g12_text k X) <= 18)%nat.
Proof.
  intros Hk HX. unfold g12_text.
  assert (L : (length (convert k) <= 12)%nat).
  { pose proof (convert_length k 12 ltac:(lia) ltac:(rewrite Z.abs_eq by lia; change (Z.of_nat 12) with 12; lia)) as L.
    destruct (Z.ltb_spec k 0); lia. }
  set (ds := convert k) in *.
  destruct ((-4 <=? X) && (X <? 12)) eqn:F.
  - apply andb_prop in F. destruct F as [F1 F2]. apply Z.leb_le in F1. apply Z.ltb_lt in F2.
    destruct (Z.leb_spec 0 X).
    + pose proof (split_point_length (Z.to_nat (X + 1)) ds). lia.
    + pose proof (with_point_length [x30] (strip0 (repeat x30 (Z.to_nat (- X - 1)) ++ ds))) as W.
      pose proof (strip0_length (repeat x30 (Z.to_nat (- X - 1)) ++ ds)) as S.
      rewrite app_length, repeat_length in S. cbn [length] in W. lia.
  - rewrite !app_length. pose proof (split_point_length 1 ds) as W.
    assert (P : (length (pad x30 2 (convert (Z.abs X))) <= 3)%nat).
    { unfold pad. rewrite app_length, repeat_length.
      pose proof (convert_length (Z.abs X) 3 ltac:(lia) ltac:(change (10 ^ Z.of_nat 3) with 1000; lia)) as C.
      destruct (Z.ltb_spec (Z.abs X) 0); lia. }
    cbn [length]. lia.
Qed.

(* every 64-bit pattern: at most 19 characters (sign, d.ddddddddddd, e, sign, three digits),
   well inside the 24 that the numeric headroom has to hold besides the NUL *)
Lemma fmt_g12_length bits : (length (fmt_g12 bits) <= 19)%nat.
Proof.
  unfold fmt_g12. rewrite app_length.
  set (sg := if bits / 2 ^ 63 mod 2 =? 1 then [x2d] else []).
  assert (S : (length sg <= 1)%nat) by (unfold sg; destruct (_ =? 1); cbn [length]; lia).
  pose proof (Z.mod_pos_bound (bits / 2 ^ 52) (2 ^ 11) ltac:(lia)) as He.
  pose proof (Z.mod_pos_bound bits (2 ^ 52) ltac:(lia)) as Hf.
  set (expo := bits / 2 ^ 52 mod 2 ^ 11) in *. set (frac := bits mod 2 ^ 52) in *.
  destruct (Z.eqb_spec expo 2047) as [E1|E1].
  { destruct (frac =? 0); cbn [length]; lia. }
  set (m := if expo =? 0 then frac else 2 ^ 52 + frac).
  set (e := if expo =? 0 then -1074 else expo - 1075).
  assert (Hm : 0 <= m < 2 ^ 53) by (unfold m; destruct (expo =? 0); lia).
  assert (Hee : -1074 <= e <= 971) by (unfold e; destruct (Z.eqb_spec expo 0); lia).
  destruct (Z.eqb_spec m 0) as [M0|M0]; [cbn [length]; lia|].
  set (N := if 0 <=? e then m * 2 ^ e else m). set (D := if 0 <=? e then 1 else 2 ^ (- e)).
  assert (R : in_range N D).
  { unfold in_range, N, D. destruct (Z.leb_spec 0 e) as [H|H].
    - assert (P : 0 < 2 ^ e) by (apply Z.pow_pos_nonneg; lia).
      assert (Q : 2 ^ e <= 2 ^ 971) by (apply Z.pow_le_mono_r; lia).
      assert (0 < m * 2 ^ e) by (apply Z.mul_pos_pos; lia).
      assert (m * 2 ^ e < 2 ^ 53 * 2 ^ 971).
      { apply Z.le_lt_trans with (m * 2 ^ 971); [apply Z.mul_le_mono_nonneg_l; lia|].
        apply Z.mul_lt_mono_pos_r; lia. }
      assert (A1 : 1 <= m * 2 ^ e) by lia. assert (A2 : 1 <= 2 ^ 1074) by (apply Z.leb_le; vm_compute; reflexivity).
      pose proof (Z.mul_le_mono_nonneg 1 (m * 2 ^ e) 1 (2 ^ 1074) ltac:(lia) A1 ltac:(lia) A2) as A3.
      change (2 ^ 53 * 2 ^ 971) with (2 ^ 1024) in *. lia.
    - assert (P : 0 < 2 ^ (- e)) by (apply Z.pow_pos_nonneg; lia).
      assert (Q : 2 ^ (- e) <= 2 ^ 1074) by (apply Z.pow_le_mono_r; lia).
      assert (m * 2 ^ 1074 >= 1 * 2 ^ 1074) by (apply Z.le_ge, Z.mul_le_mono_nonneg_r; lia).
      assert (1 * 2 ^ 1024 <= 2 ^ (- e) * 2 ^ 1024) by (apply Z.mul_le_mono_nonneg_r; lia).
      lia. }
  pose proof (round12_range N D R) as [K X]. destruct (round12 N D) as [k x]. cbn [fst snd] in K, X.
  pose proof (g12_text_length k x ltac:(lia) X). lia.
Qed.
