(* C08_Model: the DISCIPLINE behind "thread-safe API is free of data races; loop-confined
   API fails fast off-thread" (DESIGN.md section 5, C08).  Definitions only, no proofs.

   Part A  abstract trace semantics: events, happens-before, lock state, well-formedness,
           protection classes and what it means for a trace to respect them.
   Part B  method bodies as action lists (prefix check = assertInLoopThread) and their execution
           by a thread; the event block emitted for one summarised access.
   Part C  the static side: access summaries (regenerated from the clang AST into Gen_C08.v),
           the protection table, and the computable checker [violations] / [discipline_ok].

   What is NOT modelled: the C++ memory model (a trace is one sequentially consistent
   interleaving), aliasing and object lifetime (a location is a (object, member) pair that
   exists for the whole trace). *)
From Coq Require Import List String ZArith Bool Arith DecimalString.
Import ListNotations.

(* ------------------------------------------------------------------ Part A: traces *)
Definition tid := nat.
Definition loc := nat.
Definition mutex := nat.
Definition fid := nat.      (* identity of one queued functor *)
Definition loopid := nat.

Inductive rw := R | W.

Inductive event :=
| EAcc (t : tid) (l : loc) (k : rw)      (* plain (non-atomic) access *)
| EAcq (t : tid) (m : mutex)
| ERel (t : tid) (m : mutex)             (* Condition::wait = ERel; ...; EAcq *)
| EEnq (t : tid) (f : fid)               (* queueInLoop pushes functor f (inside its lock section) *)
| ERun (t : tid) (f : fid)               (* doPendingFunctors starts running f *)
| ESpawn (t u : tid)                     (* t starts thread u *)
| EJoin (t u : tid)                      (* t joins thread u *)
| EAtomW (t : tid) (l : loc)             (* atomic store *)
| EAtomR (t : tid) (l : loc)             (* atomic load *)
| EAtomRMW (t : tid) (l : loc)           (* atomic read-modify-write *)
| EPublish (t : tid) (l : loc)           (* marker: t finished initialising l and hands the object off *)
| EAbort (t : tid).                      (* abortNotInLoopThread: LOG_FATAL -> abort() *)

Definition thread_of (e : event) : tid :=
  match e with
  | EAcc t _ _ | EAcq t _ | ERel t _ | EEnq t _ | ERun t _ | ESpawn t _ | EJoin t _
  | EAtomW t _ | EAtomR t _ | EAtomRMW t _ | EPublish t _ | EAbort t => t
  end.

Definition trace := list event.

(* synchronises-with, for two events in trace order *)
Definition sw (a b : event) : bool :=
  match a, b with
  | ERel _ m, EAcq _ m' => Nat.eqb m m'
  | EEnq _ f, ERun _ f' => Nat.eqb f f'
  | EAtomW _ l, EAtomR _ l' | EAtomW _ l, EAtomRMW _ l'
  | EAtomRMW _ l, EAtomR _ l' | EAtomRMW _ l, EAtomRMW _ l' => Nat.eqb l l'
  | _, _ => false
  end
  || match a with ESpawn _ u => Nat.eqb u (thread_of b) | _ => false end
  || match b with EJoin _ u => Nat.eqb u (thread_of a) | _ => false end.

(* happens-before over positions of the trace *)
Inductive hb (tr : trace) : nat -> nat -> Prop :=
| hb_po : forall i j a b, i < j -> nth_error tr i = Some a -> nth_error tr j = Some b ->
    thread_of a = thread_of b -> hb tr i j
| hb_sw : forall i j a b, i < j -> nth_error tr i = Some a -> nth_error tr j = Some b ->
    sw a b = true -> hb tr i j
| hb_trans : forall i j k, hb tr i j -> hb tr j k -> hb tr i k.

(* lock state after the first n events *)
Definition lockst := mutex -> option tid.
Definition lock_step (s : lockst) (e : option event) : lockst :=
  match e with
  | Some (EAcq t m) => fun m' => if Nat.eqb m' m then Some t else s m'
  | Some (ERel t m) => fun m' => if Nat.eqb m' m then None else s m'
  | _ => s
  end.
Fixpoint locks_after (tr : trace) (n : nat) : lockst :=
  match n with
  | 0 => fun _ => None
  | S n' => lock_step (locks_after tr n') (nth_error tr n')
  end.

Definition lock_ok (s : lockst) (e : event) : Prop :=
  match e with
  | EAcq t m => s m = None                 (* mutual exclusion, non-recursive *)
  | ERel t m => s m = Some t               (* only the holder releases *)
  | _ => True
  end.

(* a thread has no event before it is spawned / after it is joined or has aborted *)
Definition thread_ok (tr : trace) : Prop :=
  forall i j a b, nth_error tr i = Some a -> nth_error tr j = Some b ->
    (match a with ESpawn _ u => thread_of b = u -> i < j | _ => True end) /\
    (match a with EJoin _ u => thread_of b = u -> j < i | _ => True end) /\
    (match a with EAbort t => thread_of b = t -> j <= i | _ => True end).

Definition wf_trace (tr : trace) : Prop :=
  (forall n e, nth_error tr n = Some e -> lock_ok (locks_after tr n) e) /\ thread_ok tr.

(* protection classes *)
Inductive pclass_sem :=
| LoopConfined (L : loopid)
| Guarded (m : mutex)
| Atomic
| ImmutableAfterPublish
| ThreadLocal.

(* each plain access respects the class of its location *)
Definition respects (cls : loc -> pclass_sem) (owner : loopid -> tid) (tr : trace) : Prop :=
  forall n t l k, nth_error tr n = Some (EAcc t l k) ->
    match cls l with
    | LoopConfined L => t = owner L
    | Guarded m => locks_after tr n m = Some t
    | Atomic => False                                   (* only EAtom* events touch it *)
    | ThreadLocal => forall n' t' k', nth_error tr n' = Some (EAcc t' l k') -> t' = t
    | ImmutableAfterPublish =>
        exists p t0, nth_error tr p = Some (EPublish t0 l) /\
          (forall n' t', nth_error tr n' = Some (EAcc t' l W) -> t' = t0 /\ n' < p) /\
          (t = t0 \/ hb tr p n)
    end.

Definition conflicting (tr : trace) (i j : nat) : Prop :=
  exists ti tj l ki kj, nth_error tr i = Some (EAcc ti l ki) /\ nth_error tr j = Some (EAcc tj l kj) /\
    ti <> tj /\ (ki = W \/ kj = W).

(* ------------------------------------------------------------------ Part B: method bodies *)
Inductive action :=
| ACheck (L : loopid)                    (* [loop_->]assertInLoopThread() *)
| AAccess (l : loc) (k : rw)
| ALock (m : mutex)                      (* MutexLockGuard constructed *)
| AUnlock (m : mutex)                    (* ... destroyed *)
| AEnq (f : fid)
| AAtomW (l : loc)
| AAtomR (l : loc).

(* thread t executes a body; a failed check ends the thread's trace with EAbort *)
Fixpoint run_body (owner : loopid -> tid) (t : tid) (b : list action) : list event :=
  match b with
  | [] => []
  | ACheck L :: r => if Nat.eqb t (owner L) then run_body owner t r else [EAbort t]
  | AAccess l k :: r => EAcc t l k :: run_body owner t r
  | ALock m :: r => EAcq t m :: run_body owner t r
  | AUnlock m :: r => ERel t m :: run_body owner t r
  | AEnq f :: r => EEnq t f :: run_body owner t r
  | AAtomW l :: r => EAtomW t l :: run_body owner t r
  | AAtomR l :: r => EAtomR t l :: run_body owner t r
  end.

(* the contexts the static analysis distinguishes *)
Inductive mctx := XLoop | XAny | XExcl | XTeardown.

(* the action block that stands for one summarised access: in loop context it is dominated by the
   thread check, each enclosing MutexLockGuard scope brackets it *)
Definition emit_access (L : loopid) (ctx : mctx) (locks : list mutex) (l : loc) (k : rw) : list action :=
  (match ctx with XLoop => [ACheck L] | _ => [] end)
  ++ map ALock locks ++ [AAccess l k] ++ map AUnlock (rev locks).

(* ------------------------------------------------------------------ Part C: static summaries and checker *)
Open Scope string_scope.

Inductive pclass := PLoopConfined | PGuarded (m : string) | PAtomic | PImmutable | PThreadLocal | PSync.
Inductive failfast := FFNone | FFDirect | FFVia (cls meth : string).
Inductive contract := CAny | CLoop (ff : failfast) | CSetup | CTeardown | CThread.
Inductive mkind := KCtor | KDtor | KMethod.

Record access := mkAcc { a_field : string; a_kind : rw; a_locks : list string; a_inloop : bool;
                         a_dbg : bool; a_line : Z }.
Record callsite := mkCall { c_callee : string; c_locks : list string; c_inloop : bool; c_line : Z }.
Record xcallsite := mkXCall { x_field : string; x_class : string; x_callee : string;
                              x_locks : list string; x_inloop : bool; x_line : Z }.
(* one argument bound (decay-copied by std::bind / makeWeakCallback) into a functor that is handed to
   runInLoop/queueInLoop/runAfter/runAt/runEvery for the method pa_class::pa_callee.  pa_kind:
   "val" an owned copy (std::string, shared_ptr, weak_ptr, std::function, arithmetic, TimerId ...), "transfer" a pointer to
   an object allocated in the posting function itself (ownership goes with the functor);
   "view" a StringPiece, "ptr" a raw pointer into memory the caller owns, "ref" a std::ref: BORROWED - the functor
   reads memory whose lifetime the caller controls; "this" / "member": the raw `this` / a pointer to a member-owned object. *)
Record postarg := mkPA { pa_class : string; pa_callee : string; pa_kind : string; pa_inloop : bool; pa_line : Z }.
(* one argument bound into a callback that is REGISTERED on another object: x->setXxxCallback(bind(&C::m, args...)).  The
   callback lives as long as x (class ra_target) and is invoked on x's loop thread. *)
Record regarg := mkRA { ra_target : string; ra_setter : string; ra_callee : string; ra_kind : string; ra_line : Z }.
(* what a destructor does beyond its body: at its closing brace it destroys the synchronisation members of the object
   (d_destroys: member, line); before that it may join the object's thread.  d_paths: the paths through the destructor's
   body (its calls on `this` inlined): (joined, gs) - whether join() is executed on the path, and the members read by the
   conditions along it.  (EventLoopThread: [(false,[loop_]); (true,[loop_])]; ThreadPool: [(false,[running_]); (true,[running_])].) *)
Record dtorinfo := mkDtor { d_destroys : list (string * Z); d_paths : list (bool * list string) }.
Record msummary := mkSummary {
  m_class : string; m_name : string; m_public : bool; m_kind : mkind;
  m_check_first : bool;                  (* first statement (debug asserts aside) is assertInLoopThread() *)
  m_accesses : list access; m_calls : list callsite; m_xcalls : list xcallsite;
  m_posts : list (string * string);      (* bound into runInLoop/queueInLoop/runAfter/runAt/runEvery *)
  m_registers : list (string * string);  (* bound as a callback elsewhere *)
  m_tails : list (string * list string); (* (g, ms): after its last write of member g the body still uses the members ms
                                            (later accesses, locks held at that write and released afterwards) *)
  m_taillocks : list (string * list string); (* (g, ms): the locks held at the last write of g, released afterwards *)
  m_uses : list string;                  (* every member the method uses off the loop thread, through its calls too *)
  m_postargs : list postarg;
  m_regargs : list regarg;
  m_dtor : option dtorinfo }.
Record fielddecl := mkFieldDecl { fd_class : string; fd_name : string; fd_atomic : bool; fd_sync : bool; fd_tls : bool }.
(* An object with static storage duration (static data member, function-local static, namespace-scope variable, thread_local)
   is ONE location shared by all objects of its class and by all threads.  sv_tls: it lives in a TLS section; sv_atomic: its
   declared type is std::atomic / AtomicIntegerT; sv_accs: (function, R|W) over the functions of muduo/base, net, poller. *)
Inductive sclass := SAtomic | SGuarded (m : string) | SThreadLocal | SInitOnce (writers : list string) | SConstAfterInit.
Record staticvar := mkSV { sv_name : string; sv_where : string; sv_tls : bool; sv_atomic : bool; sv_accs : list (string * rw) }.
Record ptable := mkTable { t_fields : list (string * string * pclass);
                           t_methods : list (string * string * contract);
                           t_decls : list fielddecl;
                           t_exitflags : list (string * string); (* storing the member lets the owner thread end its loop and
                                                                     destroy the object (EventLoop::quit_) *)
                           t_shared : list string;                (* classes deriving from enable_shared_from_this (AST fact):
                                                                     their lifetime is a reference count, not the caller's scope *)
                           t_statics : list staticvar;            (* the regenerated inventory *)
                           t_static_classes : list (string * sclass);   (* ... and its committed classification *)
                           t_lifetime_ok : list (string * string * string)
                             (* (class, posting method, callee): a raw-`this` post whose object is kept alive by other means,
                                justified in lib/C08_table.txt *) }.
Record violation := mkViol { v_class : string; v_site : string; v_what : string; v_kind : string }.

Definition seqb := String.eqb.

Fixpoint lookup2 {A} (c n : string) (l : list (string * string * A)) : option A :=
  match l with
  | [] => None
  | (c', n', a) :: r => if seqb c c' && seqb n n' then Some a else lookup2 c n r
  end.

Definition class_of (T : ptable) (c f : string) : option pclass := lookup2 c f (t_fields T).
Definition contract_of (T : ptable) (c m : string) : option contract := lookup2 c m (t_methods T).
Fixpoint decl_of (ds : list fielddecl) (c f : string) : option fielddecl :=
  match ds with
  | [] => None
  | d :: r => if seqb c (fd_class d) && seqb f (fd_name d) then Some d else decl_of r c f
  end.
Fixpoint find_method (S : list msummary) (c m : string) : option msummary :=
  match S with
  | [] => None
  | s :: r => if seqb c (m_class s) && seqb m (m_name s) then Some s else find_method r c m
  end.

Definition ctx_of_contract (k : contract) : mctx :=
  match k with CAny => XAny | CLoop _ => XLoop | CSetup => XExcl | CTeardown => XTeardown | CThread => XAny end.

(* a statement dominated by the thread check / inside `if (isInLoopThread())` runs on the loop *)
Definition upgrade (inloop : bool) (ctx : mctx) : mctx :=
  if inloop then match ctx with XExcl => XExcl | _ => XLoop end else ctx.

Definition mem (x : string) (l : list string) : bool := existsb (seqb x) l.

(* THE discipline, per access: may a thread in context [ctx] holding [locks] perform a [k] access? *)
Definition access_ok (d : option fielddecl) (pc : pclass) (ctx : mctx) (locks : list string) (k : rw) : bool :=
  match ctx with
  | XExcl => true                                   (* not yet published: initialisation *)
  | _ =>
    match pc with
    | PSync => match d with Some d => fd_sync d | None => false end   (* checked against the declared type, like atomic *)
    | PAtomic => match d with Some d => fd_atomic d | None => false end
    | PThreadLocal => match d with Some d => fd_tls d | None => false end
    | PLoopConfined => match ctx with XLoop => true | _ => false end
    | PGuarded m => mem m locks
    | PImmutable => match k with R => true | W => false end
    end
  end.

(* effective accesses: every access reachable from a root (a method with a contract), with the context and
   lock set it inherits along the call chain (context-sensitive; private helpers are analysed per caller) *)
Record eff := mkEff { e_class : string; e_site : string; e_meth : string; e_acc : access; e_ctx : mctx; e_locks : list string;
                      e_root_thread : bool }.

Definition site_name (root m : string) : string := if seqb root m then root else root ++ "/" ++ m.

Fixpoint collect (fuel : nat) (T : ptable) (S : list msummary) (cls root : string) (isthr : bool)
                 (m : msummary) (ctx : mctx) (locks : list string) : list eff :=
  map (fun a => mkEff cls (site_name root (m_name m)) (m_name m) a (upgrade (a_inloop a) ctx) (a_locks a ++ locks) isthr) (m_accesses m)
  ++ match fuel with
     | 0 => []
     | Datatypes.S fuel' =>
       flat_map (fun c =>
         match contract_of T cls (c_callee c) with
         | Some _ => []
         | None => match find_method S cls (c_callee c) with
                   | Some m' => collect fuel' T S cls root isthr m' (upgrade (c_inloop c) ctx) (c_locks c ++ locks)
                   | None => []
                   end
         end) (m_calls m)
       ++ flat_map (fun p =>
         if seqb (fst p) cls then
           match contract_of T cls (snd p) with
           | Some _ => []
           | None => match find_method S cls (snd p) with
                     | Some m' => collect fuel' T S cls root isthr m' XLoop []
                     | None => []
                     end
           end
         else []) (m_posts m)
     end.

Definition FUEL := 8.

Definition roots (T : ptable) (S : list msummary) : list (msummary * contract) :=
  flat_map (fun m => match contract_of T (m_class m) (m_name m) with Some k => [(m, k)] | None => [] end) S.

Definition is_thread (k : contract) : bool := match k with CThread => true | _ => false end.

Definition all_eff (T : ptable) (S : list msummary) : list eff :=
  flat_map (fun mk => let '(m, k) := mk in
    collect FUEL T S (m_class m) (m_name m) (is_thread k) m (ctx_of_contract k) []) (roots T S).

Definition rw_eqb (a b : rw) : bool := match a, b with R, R | W, W => true | _, _ => false end.
Definition rw_str (k : rw) : string := match k with R => "R" | W => "W" end.

(* teardown: the destructor's own accesses only compete with the threads the object spawned *)
Definition thread_conflict (E : list eff) (cls f : string) (k : rw) : bool :=
  existsb (fun e => e_root_thread e && seqb (e_class e) cls && seqb (a_field (e_acc e)) f &&
                    match k with W => true | R => rw_eqb (a_kind (e_acc e)) W end) E.

Definition eff_ok (T : ptable) (E : list eff) (e : eff) : bool :=
  let a := e_acc e in
  match class_of T (e_class e) (a_field a) with
  | None => false
  | Some pc =>
    let d := decl_of (t_decls T) (e_class e) (a_field a) in
    match e_ctx e with
    | XTeardown => access_ok d pc XAny (e_locks e) (a_kind a) || negb (thread_conflict E (e_class e) (a_field a) (a_kind a))
    | c => access_ok d pc c (e_locks e) (a_kind a)
    end
  end.

(* a member that is documented atomic but declared plain is wrong at every access, whatever the path: the
   site is then just the accessing method; otherwise root/method (which entry point reaches it unprotected) *)
Definition access_violations (T : ptable) (S : list msummary) : list violation :=
  let E := all_eff T S in
  flat_map (fun e => if eff_ok T E e then []
                     else match class_of T (e_class e) (a_field (e_acc e)) with
                          | None => [mkViol (e_class e) (e_site e) (a_field (e_acc e)) "noclass"]
                          | Some PAtomic | Some PThreadLocal =>
                              [mkViol (e_class e) (e_meth e) (a_field (e_acc e)) (rw_str (a_kind (e_acc e)))]
                          | Some _ => [mkViol (e_class e) (e_site e) (a_field (e_acc e)) (rw_str (a_kind (e_acc e)))]
                          end) E.

(* calling a loop-only (asserting) or set-up method from an any-thread context *)
Definition callee_needs (T : ptable) (S : list msummary) (c m : string) : option string :=
  match contract_of T c m with
  | Some (CLoop _) => Some "loop"
  | Some CSetup => Some "setup"
  | _ => match find_method S c m with
         | Some s => if m_check_first s then Some "loop" else None
         | None => None
         end
  end.

Definition call_bad (need : option string) (ctx : mctx) : bool :=
  match need, ctx with
  | Some n, XAny => true
  | Some n, XLoop => seqb n "setup"
  | _, _ => false
  end.

Fixpoint collect_calls (fuel : nat) (T : ptable) (S : list msummary) (cls root : string)
                       (m : msummary) (ctx : mctx) : list violation :=
  flat_map (fun c => if call_bad (callee_needs T S cls (c_callee c)) (upgrade (c_inloop c) ctx)
                     then [mkViol cls (site_name root (m_name m)) (c_callee c) "call"] else []) (m_calls m)
  ++ flat_map (fun x => if call_bad (callee_needs T S (x_class x) (x_callee x)) (upgrade (x_inloop x) ctx)
                        then [mkViol cls (site_name root (m_name m)) (x_class x ++ "::" ++ x_callee x) "call"] else []) (m_xcalls m)
  ++ match fuel with
     | 0 => []
     | Datatypes.S fuel' =>
       flat_map (fun c =>
         match contract_of T cls (c_callee c) with
         | Some _ => []
         | None => match find_method S cls (c_callee c) with
                   | Some m' => collect_calls fuel' T S cls root m' (upgrade (c_inloop c) ctx)
                   | None => []
                   end
         end) (m_calls m)
       ++ flat_map (fun p =>
         if seqb (fst p) cls then
           match contract_of T cls (snd p) with
           | Some _ => []
           | None => match find_method S cls (snd p) with
                     | Some m' => collect_calls fuel' T S cls root m' XLoop
                     | None => []
                     end
           end
         else []) (m_posts m)
     end.

Definition call_violations (T : ptable) (S : list msummary) : list violation :=
  flat_map (fun mk => let '(m, k) := mk in
    collect_calls FUEL T S (m_class m) (m_name m) m (ctx_of_contract k)) (roots T S).

(* the fail-fast clause: a confined operation starts with the thread check (directly, or through the named callee) *)
Definition failfast_violations (T : ptable) (S : list msummary) : list violation :=
  flat_map (fun mk => let '(m, k) := mk in
    match k with
    | CLoop FFDirect => if m_check_first m then [] else [mkViol (m_class m) (m_name m) "assertInLoopThread" "nofailfast"]
    | CLoop (FFVia c2 m2) =>
        if existsb (fun x => seqb (x_class x) c2 && seqb (x_callee x) m2) (m_xcalls m)
           && match find_method S c2 m2 with Some s => m_check_first s | None => false end
        then [] else [mkViol (m_class m) (m_name m) (c2 ++ "::" ++ m2) "nofailfast"]
    | _ => []
    end) (roots T S).

(* methods reachable from some root (by direct call or posting) *)
Fixpoint reach (fuel : nat) (T : ptable) (S : list msummary) (cls : string) (m : msummary) : list string :=
  m_name m ::
  match fuel with
  | 0 => []
  | Datatypes.S fuel' =>
    flat_map (fun n => match contract_of T cls n with
                       | Some _ => []
                       | None => match find_method S cls n with Some m' => reach fuel' T S cls m' | None => [] end
                       end)
             (map c_callee (m_calls m) ++ map snd (filter (fun p => seqb (fst p) cls) (m_posts m)))
  end.

(* every public or registered method needs a contract; every other method must be reached from a root *)
Definition coverage_violations (T : ptable) (S : list msummary) : list violation :=
  let registered := flat_map m_registers S in
  let reached := flat_map (fun mk => map (fun n => (m_class (fst mk), n)) (reach FUEL T S (m_class (fst mk)) (fst mk))) (roots T S) in
  flat_map (fun m =>
    match contract_of T (m_class m) (m_name m) with
    | Some _ => []
    | None =>
      if m_public m || existsb (fun p => seqb (fst p) (m_class m) && seqb (snd p) (m_name m)) registered
      then [mkViol (m_class m) (m_name m) "" "nocontract"]
      else if existsb (fun p => seqb (fst p) (m_class m) && seqb (snd p) (m_name m)) reached then []
      else match m_accesses m with [] => [] | _ => [mkViol (m_class m) (m_name m) "" "unreached"] end
    end) S.

(* teardown: destroying a synchronisation member that the object's own thread may still be using.  The destructor may
   only skip join() on the strength of a member g the thread itself never writes (ThreadPool::running_, written by
   start/stop only); if the thread entry function writes g (EventLoopThread::loop_ = NULL at its end), then seeing that
   value proves nothing about what the thread does after the write - in particular it still has to release the locks
   it holds at that point - and whatever it uses there must not be destroyed.  No join at all: everything the thread
   uses is affected. *)
Definition thread_roots (T : ptable) (S : list msummary) (cls : string) : list msummary :=
  filter (fun m => seqb (m_class m) cls &&
                   match contract_of T cls (m_name m) with Some CThread => true | _ => false end) S.

Fixpoint assoc_tail (g : string) (l : list (string * list string)) : list string :=
  match l with
  | [] => []
  | (g', ms) :: r => if seqb g g' then ms else assoc_tail g r
  end.

Definition thread_uses (t : msummary) : list string :=
  m_uses t ++ map a_field (m_accesses t) ++ flat_map a_locks (m_accesses t).

(* does the object's own thread write member g (in its entry function)? *)
Definition thread_writes (thr : list msummary) (g : string) : bool :=
  existsb (fun t => existsb (fun a => seqb (a_field a) g && rw_eqb (a_kind a) W) (m_accesses t)) thr.

(* what a thread entry function may still be using once another thread has seen its last write of g *)
Definition tail_after (t : msummary) (g : string) : list string :=
  assoc_tail g (m_tails t) ++ assoc_tail g (m_taillocks t).

(* path-sensitive: a path of the destructor that executes join() is safe; a path that skips it is safe only if every
   condition it took reads members the thread never writes (then their values are start()/stop()'s word that no thread is
   alive); a condition on a member the thread itself writes proves nothing about what the thread does after that write;
   a path that skips join() unconditionally leaves everything the thread uses exposed. *)
Definition path_unjoined_uses (thr : list msummary) (p : bool * list string) : list string :=
  if fst p then []
  else match snd p with
       | [] => flat_map thread_uses thr
       | gs => flat_map (fun g => if thread_writes thr g then flat_map (fun t => tail_after t g) thr else []) gs
       end.

Definition unjoined_uses (thr : list msummary) (paths : list (bool * list string)) : list string :=
  flat_map (path_unjoined_uses thr) paths.

Definition teardown_violations (T : ptable) (S : list msummary) : list violation :=
  flat_map (fun m =>
    match m_dtor m with
    | None => []
    | Some d =>
      let bad := unjoined_uses (thread_roots T S (m_class m)) (d_paths d) in
      flat_map (fun fl => if mem (fst fl) bad then [mkViol (m_class m) (m_name m) (fst fl) "destroy"] else [])
               (d_destroys d)
    end) S.

(* borrowed captures: on the cross-thread branch (context XAny, not upgraded by isInLoopThread()) a functor posted to the
   loop runs LATER on another thread; the enqueue orders what the poster did BEFORE it, nothing it does afterwards.  So the
   functor must own what it reads: a bound StringPiece / raw pointer / std::ref reads memory the caller may rewrite or
   free as soon as the posting call returns ("borrowed-view/ptr/ref"); the raw `this` (or a pointer to a member-owned
   object) of a class whose lifetime is a shared_ptr reference count reads an object the last owner may drop ("rawthis")
   - unless the table justifies it (lifetime-ok). *)
Fixpoint lookup3 (a b c : string) (l : list (string * string * string)) : bool :=
  match l with
  | [] => false
  | (a', b', c') :: r => (seqb a a' && seqb b b' && seqb c c') || lookup3 a b c r
  end.

Definition borrow_kind (T : ptable) (cls meth : string) (pa : postarg) (ctx : mctx) : option string :=
  match upgrade (pa_inloop pa) ctx with
  | XAny =>
      if seqb (pa_kind pa) "view" || seqb (pa_kind pa) "ptr" || seqb (pa_kind pa) "ref"
      then Some ("borrowed-" ++ pa_kind pa)
      else if (seqb (pa_kind pa) "this" || seqb (pa_kind pa) "member") && mem cls (t_shared T)
                && negb (lookup3 cls meth (pa_callee pa) (t_lifetime_ok T))
      then Some "rawthis"
      else None
  | _ => None
  end.

Fixpoint collect_posts (fuel : nat) (T : ptable) (S : list msummary) (cls root : string)
                       (m : msummary) (ctx : mctx) : list violation :=
  flat_map (fun pa => match borrow_kind T cls (m_name m) pa ctx with
                      | Some k => [mkViol cls (site_name root (m_name m)) (pa_callee pa) k]
                      | None => []
                      end) (m_postargs m)
  ++ match fuel with
     | 0 => []
     | Datatypes.S fuel' =>
       flat_map (fun c =>
         match contract_of T cls (c_callee c) with
         | Some _ => []
         | None => match find_method S cls (c_callee c) with
                   | Some m' => collect_posts fuel' T S cls root m' (upgrade (c_inloop c) ctx)
                   | None => []
                   end
         end) (m_calls m)
     end.

Definition borrow_violations (T : ptable) (S : list msummary) : list violation :=
  flat_map (fun mk => let '(m, k) := mk in
    collect_posts FUEL T S (m_class m) (m_name m) m (ctx_of_contract k)) (roots T S).

(* use after release: an any-thread method that stores an exit flag has told the owner thread that it may leave its loop
   and destroy the object; whatever the method still touches afterwards off the loop thread (m_tails: later accesses and
   those of the methods it calls on `this`) may hit a destroyed object.  EventLoop::quit(): quit_ = true; wakeup(). *)
Definition useafter_violations (T : ptable) (S : list msummary) : list violation :=
  flat_map (fun mk => let '(m, k) := mk in
    match k with
    | CAny =>
      flat_map (fun cf => if seqb (fst cf) (m_class m)
                          then map (fun f => mkViol (m_class m) (m_name m) f "useafter") (assoc_tail (snd cf) (m_tails m))
                          else []) (t_exitflags T)
    | _ => []
    end) (roots T S).

(* callbacks registered on another object: the callback lives as long as that object and runs on its loop thread.  If the
   object's lifetime is a shared_ptr reference count (it can outlive the registering object), whatever the callback
   captures must be owned: the raw `this` of the registering object ("rawthis-callback") or a borrowed view/pointer
   ("borrowed-callback") may be gone when the callback fires - unless the table justifies it. *)
Definition callback_violations (T : ptable) (S : list msummary) : list violation :=
  flat_map (fun m =>
    flat_map (fun ra =>
      if mem (ra_target ra) (t_shared T) && negb (lookup3 (m_class m) (m_name m) (ra_callee ra) (t_lifetime_ok T))
      then if seqb (ra_kind ra) "this" || seqb (ra_kind ra) "member"
           then [mkViol (m_class m) (m_name m) (ra_callee ra) "rawthis-callback"]
           else if seqb (ra_kind ra) "view" || seqb (ra_kind ra) "ptr" || seqb (ra_kind ra) "ref"
                then [mkViol (m_class m) (m_name m) (ra_callee ra) "borrowed-callback"]
                else []
      else []) (m_regargs m)) S.

(* static storage: every inventory entry needs a class, and must live up to it.  atomic / threadlocal are facts of the
   declaration; const-after-init: no function writes it; init-once: only the named set-up functions write it; guarded is
   not supported (no lock-scope facts for free functions): always a violation, so that nobody can use it to silence one. *)
Fixpoint lookup1 {A} (n : string) (l : list (string * A)) : option A :=
  match l with
  | [] => None
  | (n', a) :: r => if seqb n n' then Some a else lookup1 n r
  end.

Definition static_ok (sv : staticvar) (c : sclass) : bool :=
  match c with
  | SAtomic => sv_atomic sv
  | SThreadLocal => sv_tls sv
  | SConstAfterInit => forallb (fun a => match snd a with W => false | R => true end) (sv_accs sv)
  | SInitOnce ws => forallb (fun a => match snd a with W => mem (fst a) ws | R => true end) (sv_accs sv)
  | SGuarded _ => false
  end.

Definition static_violations (T : ptable) : list violation :=
  flat_map (fun sv =>
    match lookup1 (sv_name sv) (t_static_classes T) with
    | None => [mkViol "static" (sv_where sv) (sv_name sv) "nostaticclass"]
    | Some c => if static_ok sv c then [] else [mkViol "static" (sv_where sv) (sv_name sv) "staticclass"]
    end) (t_statics T).

Definition viol_eqb (a b : violation) : bool :=
  seqb (v_class a) (v_class b) && seqb (v_site a) (v_site b) && seqb (v_what a) (v_what b) && seqb (v_kind a) (v_kind b).

Fixpoint dedup (l : list violation) : list violation :=
  match l with
  | [] => []
  | v :: r => if existsb (viol_eqb v) r then dedup r else v :: dedup r
  end.

Definition violations_raw (T : ptable) (S : list msummary) : list violation :=
  access_violations T S ++ call_violations T S ++ failfast_violations T S ++ coverage_violations T S
  ++ callback_violations T S ++ borrow_violations T S ++ useafter_violations T S ++ static_violations T
  ++ teardown_violations T S.
Definition violations (T : ptable) (S : list msummary) : list violation := dedup (violations_raw T S).

(* the obligation closed by vm_compute in Properties_C08.v: every violation of the regenerated summaries is a
   recorded finding (waiver).  Removing a lock guard, touching a confined member from an any-thread method,
   dropping an assertInLoopThread, calling an ...InLoop method directly: each adds an unwaived violation. *)
Definition discipline_ok (S : list msummary) (T : ptable) (waivers : list violation) : bool :=
  forallb (fun v => existsb (viol_eqb v) waivers) (violations_raw T S).

(* ---- the operations the property text names (so that the generated-fact obligations demonstrably cover them) *)
Definition named_anythread_ops : list (string * string) :=
  [ ("EventLoop", "runInLoop"); ("EventLoop", "queueInLoop"); ("EventLoop", "runAt"); ("EventLoop", "runAfter");
    ("EventLoop", "runEvery"); ("EventLoop", "cancel"); ("EventLoop", "quit"); ("EventLoop", "queueSize");
    ("TimerQueue", "addTimer"); ("TimerQueue", "cancel");
    ("TcpConnection", "send"); ("TcpConnection", "shutdown"); ("TcpConnection", "forceClose");
    ("TcpConnection", "forceCloseWithDelay"); ("TcpConnection", "startRead"); ("TcpConnection", "stopRead");
    ("TcpClient", "connect"); ("TcpClient", "disconnect"); ("TcpClient", "stop"); ("TcpClient", "connection");
    ("Connector", "start"); ("Connector", "stop");
    ("ThreadPool", "run");
    ("BlockingQueue", "put"); ("BlockingQueue", "take"); ("BlockingQueue", "drain"); ("BlockingQueue", "size");
    ("BoundedBlockingQueue", "put"); ("BoundedBlockingQueue", "take"); ("BoundedBlockingQueue", "empty");
    ("BoundedBlockingQueue", "full"); ("BoundedBlockingQueue", "size"); ("BoundedBlockingQueue", "capacity");
    ("CountDownLatch", "wait"); ("CountDownLatch", "countDown"); ("CountDownLatch", "getCount");
    ("AsyncLogging", "append");
    (* the LOG_* macros: Logger(file, line[, level[, func]]).stream() << ...; ~Logger() *)
    ("Logging", "Logger_Logger"); ("Logging", "Logger_Impl"); ("Logging", "Logger_formatTime");
    ("Logging", "Logger_finish"); ("Logging", "Logger_dtor_Logger"); ("Logging", "defaultOutput");
    ("Logging", "defaultFlush"); ("Logging", "strerror_tl");
    (* ... and the per-thread caches Logger::Impl reads: CurrentThread::tid() / tidString() / name() *)
    ("Logging", "tid"); ("Logging", "tidString"); ("Logging", "tidStringLength"); ("Logging", "name") ].

(* loop(), channel registration and removal, pool start and loop selection, connection establishment and destruction *)
Definition named_confined_ops : list (string * string) :=
  [ ("EventLoop", "loop"); ("EventLoop", "updateChannel"); ("EventLoop", "removeChannel");
    ("EventLoopThreadPool", "start"); ("EventLoopThreadPool", "getNextLoop"); ("EventLoopThreadPool", "getLoopForHash");
    ("TcpConnection", "connectEstablished"); ("TcpConnection", "connectDestroyed") ].

(* an any-thread operation is covered when the table gives it the contract `any` and the extractor produced a summary for
   it: it is then a root of [all_eff], analysed in context XAny together with everything it calls or posts *)
Definition anythread_op_covered (T : ptable) (S : list msummary) (cm : string * string) : bool :=
  match contract_of T (fst cm) (snd cm), find_method S (fst cm) (snd cm) with
  | Some CAny, Some _ => true
  | _, _ => false
  end.

(* a confined operation fails fast when its contract is `loop failfast`, its summary says the first statement is the
   thread check, and no waiver excuses it *)
Definition confined_op_failfast (T : ptable) (S : list msummary) (wv : list violation) (cm : string * string) : bool :=
  match contract_of T (fst cm) (snd cm), find_method S (fst cm) (snd cm) with
  | Some (CLoop FFDirect), Some s =>
      m_check_first s && negb (existsb (fun w => seqb (v_class w) (fst cm) && seqb (v_site w) (snd cm) &&
                                                 seqb (v_kind w) "nofailfast") wv)
  | _, _ => false
  end.

(* debug-only reads that precede the thread check of a fail-fast method (reported as an observation) *)
Definition precheck_debug_reads (T : ptable) (S : list msummary) : list violation :=
  flat_map (fun mk => let '(m, k) := mk in
    match k with
    | CLoop FFDirect => flat_map (fun a => if a_dbg a && negb (a_inloop a)
                                           then [mkViol (m_class m) (m_name m) (a_field a) "debug-read-before-check"] else [])
                                 (m_accesses m)
    | _ => []
    end) (roots T S).

(* ---- rendering for lib/props/C08.py (one line per record) *)
Definition nl : string := String (Ascii.ascii_of_nat 10) "".
Definition zstr (z : Z) : string := NilZero.string_of_int (Z.to_int z).
Definition ctx_str (c : mctx) : string :=
  match c with XLoop => "loop" | XAny => "any" | XExcl => "excl" | XTeardown => "teardown" end.
Definition render_viol (v : violation) : string :=
  "V|" ++ v_class v ++ "|" ++ v_site v ++ "|" ++ v_what v ++ "|" ++ v_kind v ++ nl.
Definition render_eff (T : ptable) (E : list eff) (e : eff) : string :=
  "E|" ++ e_class e ++ "|" ++ e_site e ++ "|" ++ a_field (e_acc e) ++ "|" ++ rw_str (a_kind (e_acc e)) ++ "|" ++
  ctx_str (e_ctx e) ++ "|" ++ String.concat "," (e_locks e) ++ "|" ++ (if eff_ok T E e then "ok" else "BAD") ++ "|" ++
  (if a_dbg (e_acc e) then "dbg" else "-") ++ "|" ++ zstr (a_line (e_acc e)) ++ nl.
Definition render_report (T : ptable) (S : list msummary) : list string :=
  let E := all_eff T S in
  let V := violations T S in
  (* effective accesses are listed only for the members that have a violation (to name the other end of the race) *)
  let Ev := filter (fun e => existsb (fun v => seqb (v_class v) (e_class e) && seqb (v_what v) (a_field (e_acc e))) V) E in
  map render_viol V
  ++ map (fun v => "O|" ++ v_class v ++ "|" ++ v_site v ++ "|" ++ v_what v ++ "|" ++ v_kind v ++ nl) (precheck_debug_reads T S)
  ++ ("N|" ++ zstr (Z.of_nat (List.length E)) ++ nl) :: map (render_eff T E) Ev.
