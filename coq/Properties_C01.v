(* Properties_C01: TCP payload is delivered complete, in order and exactly once, both directions.
   Only statements, closed by [exact], with Print Assumptions and non-vacuity examples.
   The model (Conn_Model: one TcpConnection as a sequential state machine driven by an
   adversarial environment; every schedule of loop-thread calls, foreign-thread micro-steps,
   kernel answers and poller events is an op list) is tied to muduo/net/TcpConnection.cc by
   the correspondence check of bin/check C01.
   [reach c] = c is reached from [init mark wc hw] by some list of accepted ops (any high-water
   mark, any installed callbacks); definitions used below (Conn_Proofs):
     send_of c o     = the sendInLoop a step executes: Some (block, kernel answer, queue it
                       starts from) for [Send d k] in state Connected and for [RunOne k] whose
                       oldest functor is [FSend _ d] while the connection is not Disconnected;
     send_fatal c k  = the direct write was attempted and answered EPIPE / ECONNRESET;
     block_taken c o = the block that sendInLoop took responsibility for ([] if none);
     sends_of l      = the (thread, block) pairs of the FSend functors in queue l, in order. *)
From Coq Require Import List ZArith Lia Bool Arith NArith.
From Coq.Strings Require Import Byte.
From Muduo Require Import Conn_Model Conn_Proofs.
Import ListNotations.

(* ---- no assertion of the C++ can fire; the invariant holds in every reachable state ---- *)
Theorem C01_reach_inv : forall c, reach c -> Inv c.
Proof. exact reach_inv. Qed.
Print Assumptions C01_reach_inv.

Theorem C01_step_inv : forall c o c' e, Inv c -> step c o = Ok (c', e) -> Inv c'.
Proof. exact step_inv. Qed.
Print Assumptions C01_step_inv.

(* handleClose's state assert, Channel::remove's isNoneEvent assert, removing an unknown channel *)
Theorem C01_no_fault : forall c o, Inv c -> step c o <> Fault.
Proof. exact no_fault. Qed.
Print Assumptions C01_no_fault.

Theorem C01_run_no_fault : forall ops c, Inv c -> run c ops <> Fault.
Proof. exact run_no_fault. Qed.
Print Assumptions C01_run_no_fault.

Theorem C01_run_reaches : forall ops c c' e, reach c -> run c ops = Ok (c', e) -> reach c'.
Proof. exact run_reach. Qed.
Print Assumptions C01_run_reaches.

(* ---- outbound ---------------------------------------------------------------------------- *)
(* what the peer reads followed by the backlog is exactly the concatenation of the blocks
   sendInLoop took, in sendInLoop order, for every kernel acceptance pattern; the wire only
   ever grows at its end *)
Theorem C01_outbound_stream : forall c, reach c ->
  wire c ++ outb c = accepted c /\
  forall o c' e, step c o = Ok (c', e) ->
    accepted c' = accepted c ++ block_taken c o /\ exists w, wire c' = wire c ++ w.
Proof. exact P01_outbound_stream. Qed.
Print Assumptions C01_outbound_stream.

Theorem C01_block_taken_def : forall c o,
  block_taken c o =
  match send_of c o with
  | Some (d, k, _) => if send_fatal c k then [] else d
  | None => []
  end.
Proof. reflexivity. Qed.
Print Assumptions C01_block_taken_def.

Theorem C01_send_of_def : forall c o,
  send_of c o =
  match o with
  | Send d k => if cstate_eqb (st c) Connected then Some (d, k, pending c) else None
  | RunOne k =>
      match pending c with
      | FSend _ d :: rest => if cstate_eqb (st c) Disconnected then None else Some (d, k, rest)
      | _ => None
      end
  | _ => None
  end.
Proof. reflexivity. Qed.
Print Assumptions C01_send_of_def.

Theorem C01_send_fatal_iff : forall c k, send_fatal c k = true <->
  writing c = false /\ outb c = [] /\ exists e, effective c k = Err e /\ is_fatal e = true.
Proof. exact send_fatal_iff. Qed.
Print Assumptions C01_send_fatal_iff.

(* foreign sends reach sendInLoop in enqueue order, across any number of RunOne steps; hence
   the sends of each thread t run in the order t issued them *)
Theorem C01_foreign_fifo : forall c, reach c ->
  ran c ++ sends_of (pending c) = enq c /\
  (forall t, exists later, filter (fun x => fst x =? t) (enq c)
                           = filter (fun x => fst x =? t) (ran c) ++ later) /\
  forall o c' e, step c o = Ok (c', e) ->
    enq c' = enq c ++ enq_of c o /\ ran c' = ran c ++ ran_of c o.
Proof. exact P01_foreign_fifo. Qed.
Print Assumptions C01_foreign_fifo.

Theorem C01_enq_ran_of_def : forall c o,
  enq_of c o = match o with
               | FSendEnq t d => if lookup t (chk c) then [(t, d)] else []
               | _ => []
               end /\
  ran_of c o = match o with
               | RunOne _ => match pending c with FSend t d :: _ => [(t, d)] | _ => [] end
               | _ => []
               end.
Proof. split; reflexivity. Qed.
Print Assumptions C01_enq_ran_of_def.

(* the block appended by one sendInLoop stays contiguous, unmodified and at the same position
   of the outbound stream in every later state *)
Theorem C01_block_contiguous : forall c o c1 e1 ops c2 e2,
  reach c -> step c o = Ok (c1, e1) -> run c1 ops = Ok (c2, e2) ->
  exists post, wire c2 ++ outb c2 = (wire c ++ outb c) ++ block_taken c o ++ post.
Proof. exact P01_block_contiguous. Qed.
Print Assumptions C01_block_contiguous.

Theorem C01_write_interest_iff_backlog : forall c, reach c ->
  st c = Connected \/ st c = Disconnecting -> (writing c = true <-> outb c <> []).
Proof. exact P01_write_interest. Qed.
Print Assumptions C01_write_interest_iff_backlog.

(* ---- inbound ----------------------------------------------------------------------------- *)
Theorem C01_inbound_stream : forall c, reach c ->
  consumed c ++ inb c = delivered c /\
  forall o c' e, step c o = Ok (c', e) ->
    delivered c' = delivered c ++ (match o with EvReadData d => d | _ => [] end) /\
    consumed c' = consumed c ++ (match o with Retrieve n => firstn n (inb c) | _ => [] end) /\
    inb c' = (match o with
              | EvReadData d => inb c ++ d
              | Retrieve n => skipn n (inb c)
              | _ => inb c
              end) /\
    (match o with
     | EvReadData d => e = [EvMsg (length (inb c'))]
     | _ => forall n, ~ In (EvMsg n) e
     end).
Proof. exact P01_inbound_stream. Qed.
Print Assumptions C01_inbound_stream.

(* stopRead / startRead on either thread, and the execution of their functors, touch neither
   stream nor the connection state, and call no callback *)
Theorem C01_pause_preserves : forall c o c' e, step c o = Ok (c', e) -> pause_op c o = true ->
  inb c' = inb c /\ consumed c' = consumed c /\ delivered c' = delivered c /\
  wire c' = wire c /\ outb c' = outb c /\ accepted c' = accepted c /\ st c' = st c /\
  writing c' = writing c /\ fin c' = fin c /\ enq c' = enq c /\ ran c' = ran c /\ e = [].
Proof. exact pause_preserves. Qed.
Print Assumptions C01_pause_preserves.

Theorem C01_pause_op_def : forall c o,
  pause_op c o =
  match o with
  | StartRead | StopRead | XStartRead | XStopRead => true
  | RunOne _ => match pending c with (FStartRead | FStopRead) :: _ => true | _ => false end
  | _ => false
  end.
Proof. reflexivity. Qed.
Print Assumptions C01_pause_op_def.

(* ---- "accepted by send()" (finding F-6) -------------------------------------------------- *)
(* Full text: every block accepted by send() while the connection is up reaches the peer.
   False of the faithful model: the foreign send passed its state test while Connected and
   was enqueued, a loop-thread shutdown() ran inline and half-closed first, then the functor
   ran and its write was refused (EPIPE): nothing on the wire, nothing queued, FIN sent. *)
Theorem C01_accepted_delivered_witness :
  exists c e, run (init 1024%N true true) (f6_ops [x61; x62; x63]) = Ok (c, e) /\
    enq c = [(1, [x61; x62; x63])] /\ ran c = [(1, [x61; x62; x63])] /\
    wire c = [] /\ outb c = [] /\ accepted c = [] /\ fin c = true /\ st c = Disconnecting /\
    e = [EvUp; EvFin; EvErrorLogged].
Proof. exact P01_f6_witness. Qed.
Print Assumptions C01_accepted_delivered_witness.

Theorem C01_f6_ops_def : forall d,
  f6_ops d = [Establish; FSendCheck 1; FSendEnq 1 d; Shutdown; RunOne AcceptAll].
Proof. reflexivity. Qed.
Print Assumptions C01_f6_ops_def.

Theorem C01_accepted_delivered_refuted :
  ~ (forall c, reach c -> forall t d, In (t, d) (enq c) -> In (t, d) (ran c) ->
       exists pre post, wire c ++ outb c = pre ++ d ++ post).
Proof. exact P01_accepted_delivered_refuted. Qed.
Print Assumptions C01_accepted_delivered_refuted.

(* What holds (missing w.r.t. the full text: a foreign block whose functor runs after the
   half-close or after the close).  Every loop-thread send issued while Connected, and every
   foreign send whose functor runs while the connection is not Disconnected and not
   half-closed, is appended to [accepted] unless the kernel answers EPIPE / ECONNRESET; by
   C01_outbound_stream / C01_block_contiguous it then is, and stays, a contiguous part of
   wire ++ backlog.  A foreign block that runs later is dropped whole: no partial block. *)
Theorem C01_accepted_delivered_partial : forall c, reach c ->
  (forall d k c' e, step c (Send d k) = Ok (c', e) -> st c = Connected -> nonfatal k ->
     accepted c' = accepted c ++ d) /\
  (forall k t d rest c' e, step c (RunOne k) = Ok (c', e) -> pending c = FSend t d :: rest ->
     st c <> Disconnected -> fin c = false -> nonfatal k ->
     accepted c' = accepted c ++ d /\ ran c' = ran c ++ [(t, d)]) /\
  (forall k t d rest c' e, step c (RunOne k) = Ok (c', e) -> pending c = FSend t d :: rest ->
     fin c = true \/ st c = Disconnected ->
     accepted c' = accepted c /\ wire c' = wire c /\ outb c' = outb c /\ ran c' = ran c ++ [(t, d)]).
Proof. exact P01_accepted_delivered_partial. Qed.
Print Assumptions C01_accepted_delivered_partial.

Theorem C01_nonfatal_def : forall k,
  nonfatal k = match k with Err e => is_fatal e = false | _ => True end.
Proof. reflexivity. Qed.
Print Assumptions C01_nonfatal_def.

(* ---- non-vacuity: partial write, backlog crossing the mark (4), foreign send queued behind
   the backlog, paused reading, EAGAIN on the drain path, shutdown with a backlog (deferred
   half-close), drain, data still received after the half-close ------------------------------ *)
Definition ex_ops : list op :=
  [ Establish;
    Send [x61; x62; x63; x64] (Accept 1);
    FSendCheck 7; FSendEnq 7 [x65; x66];
    RunOne AcceptAll;
    EvReadData [x70; x71]; StopRead; Retrieve 1; XStartRead;
    EvWritable (Accept 2); EvWritable (Err EAGAIN);
    Shutdown;
    RunOne AcceptAll; RunOne AcceptAll;
    EvWritable AcceptAll; RunOne AcceptAll; EvReadData [x72] ].

Example ex_run :
  exists c, run (init 4%N true true) ex_ops
            = Ok (c, [EvUp; EvMsg 2; EvErrorLogged; EvHWM 5; EvFin; EvWC; EvMsg 2]) /\
    wire c = [x61; x62; x63; x64; x65; x66] /\ outb c = [] /\ fin c = true /\
    st c = Disconnecting /\ ran c = [(7, [x65; x66])] /\
    consumed c = [x70] /\ inb c = [x71; x72].
Proof. vm_compute. eexists. repeat split. Qed.

(* a reachable state with a non-empty backlog, write interest on, a foreign send pending *)
Example ex_reach_backlog :
  exists c, reach c /\ st c = Connected /\ outb c = [x62; x63; x64] /\ writing c = true /\
            sends_of (pending c) = [(7, [x65; x66])] /\ wire c = [x61].
Proof.
  destruct (run (init 4%N true true) (firstn 4 ex_ops)) as [[c e]| |] eqn:E;
    try (vm_compute in E; discriminate).
  exists c. split; [eapply run_reach; [apply reach_init|exact E]|].
  vm_compute in E. injection E as <- _. vm_compute. repeat split.
Qed.

Example ex_block_taken :
  exists c, reach c /\ block_taken c (RunOne AcceptAll) = [x65; x66] /\
            pause_op c StopRead = true.
Proof.
  destruct (run (init 4%N true true) (firstn 4 ex_ops)) as [[c e]| |] eqn:E;
    try (vm_compute in E; discriminate).
  exists c. split; [eapply run_reach; [apply reach_init|exact E]|].
  vm_compute in E. injection E as <- _. vm_compute. repeat split.
Qed.
