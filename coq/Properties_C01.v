(* Properties_C01: TCP payload is delivered complete, in order and exactly once, both directions.
   Only statements, closed by [exact], each followed by Print Assumptions, and non-vacuity examples.

   The model (Conn_Model: one TcpConnection as a sequential state machine driven by an adversarial
   environment) makes every schedule an op list: loop-thread calls ([Send d k], [Shutdown], ...),
   foreign-thread calls cut into their atomic micro-steps ([FSendCheck t] = the unsynchronised
   state test of send(), [FSendEnq t d] = the enqueue of the bound sendInLoop), the loop running
   its oldest pending functor ([RunOne k]), poller events ([EvWritable k], [EvReadData d], ...),
   with the kernel's answer k to every write() call chosen by the environment
   (k ::= Accept n (takes min n len) | AcceptAll | Err errno).  Quantifying over op lists is
   quantifying over all block sizes, thread assignments, kernel split patterns and placements of
   stopRead / startRead.  [run c ops = Ok (c', e)]: every op of ops was accepted and e are the
   events (callbacks, log lines) in order.  [reach c]: c is reached from some [init mark wc hw].

   Tie to the C++: (1) the guards and argument expressions of the CURRENT TcpConnection.cc are
   regenerated (Gen_Conn.v) and the model functions are proved equal to the functions
   re-assembled from them (section "source" below); (2) differential execution of the extracted
   model against the real class, and the property text as an oracle (bin/check C01). *)
From Coq Require Import List ZArith Lia Bool Arith NArith.
From Coq.Strings Require Import Byte.
From Muduo Require Import Gen_Consts Gen_Conn Conn_Model Conn_Proofs Conn_Trace Conn_Race
                          Conn_GenTie Conn_GenTieLife Conn_GenTieRead.
Import ListNotations.

(* ========================================================================================== *)
(* Outbound: what the peer reads                                                                *)
(* ========================================================================================== *)
(* HEADLINE.  For every history from the initial state: the bytes the kernel accepted (= what
   the peer reads, in order) followed by the unsent backlog are exactly the concatenation, in
   sendInLoop order, of the blocks of the steps of the history - each block whole, unmodified,
   once.  [trace] lists the (state before, op, state after) triples; the block of a step is the
   block of the sendInLoop it executes (see the three *_def theorems below): a loop-thread send()
   in state Connected, or the loop running a queued FSend while the connection is not yet
   Disconnected, unless the direct write was answered EPIPE / ECONNRESET. *)
Theorem C01_outbound_stream_trace : forall mark wc hw ops c e,
  run (init mark wc hw) ops = Ok (c, e) ->
  wire c ++ outb c = flat_map step_block (trace (init mark wc hw) ops).
Proof. exact outbound_trace. Qed.
Print Assumptions C01_outbound_stream_trace.

Theorem C01_trace_def : forall c ops,
  trace c ops = match ops with
                | [] => []
                | o :: r => match step c o with
                            | Ok (c1, _) => (c, o, c1) :: trace c1 r
                            | _ => []
                            end
                end.
Proof. exact trace_unfold. Qed.
Print Assumptions C01_trace_def.

Theorem C01_step_block_def : forall c o c',
  step_block (c, o, c') =
  match send_of c o with
  | Some (d, k, _) => if send_fatal c k then [] else d
  | None => []
  end.
Proof. exact step_block_unfold. Qed.
Print Assumptions C01_step_block_def.

(* the sendInLoop a step executes: block, kernel answer, functor queue it starts from *)
Theorem C01_send_of_def : forall c o,
  send_of c o =
  match o with
  | Send d k => if cstate_eqb (st c) Connected then Some (d, k, pending c) else None
  | RunOne k =>
      match pending c with
      | FSend _ d :: rest => if cstate_eqb (st c) Disconnected then None else Some (d, k, rest)
      | _ => None
      end
  | _ => None
  end.
Proof. exact send_of_unfold. Qed.
Print Assumptions C01_send_of_def.

(* the only way a sendInLoop drops its block: the direct write was attempted (nothing queued,
   write interest off) and answered EPIPE / ECONNRESET - which is also what the kernel answers
   once the write side has been shut down ([effective]) *)
Theorem C01_send_fatal_iff : forall c k, send_fatal c k = true <->
  writing c = false /\ outb c = [] /\ exists e, effective c k = Err e /\ is_fatal e = true.
Proof. exact send_fatal_iff. Qed.
Print Assumptions C01_send_fatal_iff.

(* the same from any reachable state: a history only appends its blocks to the stream *)
Theorem C01_outbound_stream_from : forall ops c c' e, reach c -> run c ops = Ok (c', e) ->
  wire c' ++ outb c' = (wire c ++ outb c) ++ flat_map step_block (trace c ops).
Proof. exact outbound_trace_from. Qed.
Print Assumptions C01_outbound_stream_from.

(* per step, with the ghost stream [accepted] (= concatenation of the blocks taken so far): the
   invariant, and the wire only ever grows at its end *)
Theorem C01_outbound_stream : forall c, reach c ->
  wire c ++ outb c = accepted c /\
  forall o c' e, step c o = Ok (c', e) ->
    accepted c' = accepted c ++ block_taken c o /\ exists w, wire c' = wire c ++ w.
Proof. exact P01_outbound_stream. Qed.
Print Assumptions C01_outbound_stream.

Theorem C01_block_taken_def : forall c o,
  block_taken c o =
  match send_of c o with
  | Some (d, k, _) => if send_fatal c k then [] else d
  | None => []
  end.
Proof. exact block_taken_unfold. Qed.
Print Assumptions C01_block_taken_def.

(* the block appended by one sendInLoop stays contiguous, unmodified and at the same position
   of the outbound stream in every later state *)
Theorem C01_block_contiguous : forall c o c1 e1 ops c2 e2,
  reach c -> step c o = Ok (c1, e1) -> run c1 ops = Ok (c2, e2) ->
  exists post, wire c2 ++ outb c2 = (wire c ++ outb c) ++ block_taken c o ++ post.
Proof. exact P01_block_contiguous. Qed.
Print Assumptions C01_block_contiguous.

(* ========================================================================================== *)
(* Order: blocks sent from one thread arrive in the order they were sent                        *)
(* ========================================================================================== *)
(* Loop thread: send() runs sendInLoop inline (C01_send_of_def), so its blocks enter the stream
   in call order by C01_outbound_stream_trace.  Foreign threads: the (thread, block) pairs whose
   sendInLoop has run, followed by those still queued, are the pairs enqueued, in enqueue order -
   FIFO through the functor queue across any number of batches; so per thread the blocks run, and
   by the headline theorem enter the stream, in the order the thread issued them. *)
Theorem C01_per_thread_order : forall mark wc hw ops c e,
  run (init mark wc hw) ops = Ok (c, e) ->
  let tr := trace (init mark wc hw) ops in
  flat_map step_ran tr ++ sends_of (pending c) = flat_map step_enq tr /\
  forall t, exists later,
    filter (fun x => fst x =? t) (flat_map step_enq tr) = filter (fun x => fst x =? t) (flat_map step_ran tr) ++ later.
Proof. exact foreign_fifo_trace. Qed.
Print Assumptions C01_per_thread_order.

Theorem C01_step_enq_ran_def : forall c o c',
  step_enq (c, o, c') = match o with
                        | FSendEnq t d => if lookup t (chk c) then [(t, d)] else []
                        | _ => []
                        end /\
  step_ran (c, o, c') = match o with
                        | RunOne _ => match pending c with FSend t d :: _ => [(t, d)] | _ => [] end
                        | _ => []
                        end.
Proof. exact step_enq_ran_unfold. Qed.
Print Assumptions C01_step_enq_ran_def.

Theorem C01_sends_of_def : forall l,
  sends_of l = flat_map (fun f => match f with FSend t d => [(t, d)] | _ => [] end) l.
Proof. exact sends_of_unfold. Qed.
Print Assumptions C01_sends_of_def.

(* the same as an invariant of every reachable state, with the ghost lists enq / ran *)
Theorem C01_foreign_fifo : forall c, reach c ->
  ran c ++ sends_of (pending c) = enq c /\
  (forall t, exists later, filter (fun x => fst x =? t) (enq c)
                           = filter (fun x => fst x =? t) (ran c) ++ later) /\
  forall o c' e, step c o = Ok (c', e) ->
    enq c' = enq c ++ enq_of c o /\ ran c' = ran c ++ ran_of c o.
Proof. exact P01_foreign_fifo. Qed.
Print Assumptions C01_foreign_fifo.

Theorem C01_enq_ran_of_def : forall c o,
  enq_of c o = match o with
               | FSendEnq t d => if lookup t (chk c) then [(t, d)] else []
               | _ => []
               end /\
  ran_of c o = match o with
               | RunOne _ => match pending c with FSend t d :: _ => [(t, d)] | _ => [] end
               | _ => []
               end.
Proof. exact enq_ran_of_unfold. Qed.
Print Assumptions C01_enq_ran_of_def.

(* ========================================================================================== *)
(* Write interest is on exactly while the backlog is non-empty                                  *)
(* ========================================================================================== *)
(* hence every queued byte is offered to the kernel at the next writability event, and the
   poller is not asked for writability when nothing is queued *)
Theorem C01_write_interest_iff_backlog : forall c, reach c ->
  st c = Connected \/ st c = Disconnecting -> (writing c = true <-> outb c <> []).
Proof. exact P01_write_interest. Qed.
Print Assumptions C01_write_interest_iff_backlog.

(* ========================================================================================== *)
(* Inbound: what the message callback is handed                                                 *)
(* ========================================================================================== *)
(* HEADLINE.  For every history: the bytes the user consumed followed by those still in the
   input buffer are exactly the concatenation of the kernel's deliveries, in delivery order -
   none lost, duplicated or reordered, wherever stopRead / startRead occur in the history - and
   the message callback ran exactly once per delivery. *)
Theorem C01_inbound_stream_trace : forall mark wc hw ops c e,
  run (init mark wc hw) ops = Ok (c, e) ->
  consumed c ++ inb c = flat_map read_of ops /\
  length (filter is_msg e) = length (filter is_read ops).
Proof. exact inbound_trace. Qed.
Print Assumptions C01_inbound_stream_trace.

Theorem C01_read_of_def : forall o,
  read_of o = (match o with EvReadData d => d | _ => [] end) /\
  is_read o = (match o with EvReadData _ => true | _ => false end).
Proof. exact read_of_unfold. Qed.
Print Assumptions C01_read_of_def.

Theorem C01_is_msg_def : forall ev, is_msg ev = match ev with EvMsg _ => true | _ => false end.
Proof. exact is_msg_unfold. Qed.
Print Assumptions C01_is_msg_def.

(* per step: which op moves which bytes, and the callback sees the whole buffered input *)
Theorem C01_inbound_stream : forall c, reach c ->
  consumed c ++ inb c = delivered c /\
  forall o c' e, step c o = Ok (c', e) ->
    delivered c' = delivered c ++ (match o with EvReadData d => d | _ => [] end) /\
    consumed c' = consumed c ++ (match o with Retrieve n => firstn n (inb c) | _ => [] end) /\
    inb c' = (match o with
              | EvReadData d => inb c ++ d
              | Retrieve n => skipn n (inb c)
              | _ => inb c
              end) /\
    (match o with
     | EvReadData d => e = [EvMsg (length (inb c'))]
     | _ => forall n, ~ In (EvMsg n) e
     end).
Proof. exact P01_inbound_stream. Qed.
Print Assumptions C01_inbound_stream.

(* stopRead / startRead on either thread, and the execution of their functors, touch neither
   stream nor the connection state, and call no callback *)
Theorem C01_pause_preserves : forall c o c' e, step c o = Ok (c', e) -> pause_op c o = true ->
  inb c' = inb c /\ consumed c' = consumed c /\ delivered c' = delivered c /\
  wire c' = wire c /\ outb c' = outb c /\ accepted c' = accepted c /\ st c' = st c /\
  writing c' = writing c /\ fin c' = fin c /\ enq c' = enq c /\ ran c' = ran c /\ e = [].
Proof. exact pause_preserves. Qed.
Print Assumptions C01_pause_preserves.

Theorem C01_pause_op_def : forall c o,
  pause_op c o =
  match o with
  | StartRead | StopRead | XStartRead | XStopRead => true
  | RunOne _ => match pending c with (FStartRead | FStopRead) :: _ => true | _ => false end
  | _ => false
  end.
Proof. exact pause_op_unfold. Qed.
Print Assumptions C01_pause_op_def.

(* ========================================================================================== *)
(* No assertion of the C++ can fire; the invariant holds in every reachable state               *)
(* ========================================================================================== *)
Theorem C01_reach_inv : forall c, reach c -> Inv c.
Proof. exact reach_inv. Qed.
Print Assumptions C01_reach_inv.

Theorem C01_step_inv : forall c o c' e, Inv c -> step c o = Ok (c', e) -> Inv c'.
Proof. exact step_inv. Qed.
Print Assumptions C01_step_inv.

(* handleClose's state assert, Channel::remove's isNoneEvent assert, removing an unknown channel *)
Theorem C01_no_fault : forall c o, Inv c -> step c o <> Fault.
Proof. exact no_fault. Qed.
Print Assumptions C01_no_fault.

Theorem C01_run_no_fault : forall ops c, Inv c -> run c ops <> Fault.
Proof. exact run_no_fault. Qed.
Print Assumptions C01_run_no_fault.

Theorem C01_run_reaches : forall ops c c' e, reach c -> run c ops = Ok (c', e) -> reach c'.
Proof. exact run_reach. Qed.
Print Assumptions C01_run_reaches.

(* ========================================================================================== *)
(* "accepted by send()" (finding F-6)                                                           *)
(* ========================================================================================== *)
(* Full text: every block accepted by send() while the connection is up reaches the peer.
   False of the faithful model: the foreign send passed its state test while Connected and
   was enqueued, a loop-thread shutdown() ran inline and half-closed first, then the functor
   ran and its write was refused (EPIPE): nothing on the wire, nothing queued, FIN sent. *)
Theorem C01_accepted_delivered_witness :
  exists c e, run (init 1024%N true true) (f6_ops [x61; x62; x63]) = Ok (c, e) /\
    enq c = [(1, [x61; x62; x63])] /\ ran c = [(1, [x61; x62; x63])] /\
    wire c = [] /\ outb c = [] /\ accepted c = [] /\ fin c = true /\ st c = Disconnecting /\
    e = [EvUp; EvFin; EvErrorLogged].
Proof. exact P01_f6_witness. Qed.
Print Assumptions C01_accepted_delivered_witness.

Theorem C01_f6_ops_def : forall d,
  f6_ops d = [Establish; FSendCheck 1; FSendEnq 1 d; Shutdown; RunOne AcceptAll].
Proof. exact f6_ops_unfold. Qed.
Print Assumptions C01_f6_ops_def.

Theorem C01_accepted_delivered_refuted :
  ~ (forall c, reach c -> forall t d, In (t, d) (enq c) -> In (t, d) (ran c) ->
       exists pre post, wire c ++ outb c = pre ++ d ++ post).
Proof. exact P01_accepted_delivered_refuted. Qed.
Print Assumptions C01_accepted_delivered_refuted.

(* What holds (missing w.r.t. the full text: a foreign block whose functor runs after the
   half-close or after the close).  Every loop-thread send issued while Connected, and every
   foreign send whose functor runs while the connection is not Disconnected and not
   half-closed, is appended to [accepted] unless the kernel answers EPIPE / ECONNRESET; by
   C01_outbound_stream / C01_block_contiguous it then is, and stays, a contiguous part of
   wire ++ backlog.  A foreign block that runs later is dropped whole: no partial block. *)
Theorem C01_accepted_delivered_partial : forall c, reach c ->
  (forall d k c' e, step c (Send d k) = Ok (c', e) -> st c = Connected -> nonfatal k ->
     accepted c' = accepted c ++ d) /\
  (forall k t d rest c' e, step c (RunOne k) = Ok (c', e) -> pending c = FSend t d :: rest ->
     st c <> Disconnected -> fin c = false -> nonfatal k ->
     accepted c' = accepted c ++ d /\ ran c' = ran c ++ [(t, d)]) /\
  (forall k t d rest c' e, step c (RunOne k) = Ok (c', e) -> pending c = FSend t d :: rest ->
     fin c = true \/ st c = Disconnected ->
     accepted c' = accepted c /\ wire c' = wire c /\ outb c' = outb c /\ ran c' = ran c ++ [(t, d)]).
Proof. exact P01_accepted_delivered_partial. Qed.
Print Assumptions C01_accepted_delivered_partial.

Theorem C01_nonfatal_def : forall k,
  nonfatal k = match k with Err e => is_fatal e = false | _ => True end.
Proof. exact nonfatal_unfold. Qed.
Print Assumptions C01_nonfatal_def.

(* ========================================================================================== *)
(* The streams survive the foreign close-request race                                           *)
(* ========================================================================================== *)
(* shutdown() / forceClose() / forceCloseWithDelay() called from a foreign thread load and store
   state_ in two steps (the x-machine of Conn_Model; Properties_C03.C03_xstep_def and the finding
   F-19, key "foreign-close-request-races-close").  In histories where the loop thread closes the
   connection between the two the life-cycle invariant breaks (second DOWN), but the stream
   equations do not: after EVERY history of the x-machine, racy or not, what the peer read ++
   backlog = the blocks sendInLoop took, consumed ++ input buffer = delivered, foreign sends FIFO. *)
Theorem C01_streams_survive_foreign_close_race : forall mark wc hw ops x e,
  xrun (xinit mark wc hw) ops = Ok (x, e) ->
  wire (xbase x) ++ outb (xbase x) = accepted (xbase x) /\
  consumed (xbase x) ++ inb (xbase x) = delivered (xbase x) /\
  ran (xbase x) ++ sends_of (pending (xbase x)) = enq (xbase x).
Proof. exact xrun_streams_init. Qed.
Print Assumptions C01_streams_survive_foreign_close_race.

(* and the headline theorem itself holds over the x-machine, for EVERY history: [xtrace] lists the
   Base steps of the history (the X micro-steps run no sendInLoop) *)
Theorem C01_outbound_stream_xtrace : forall mark wc hw ops x e,
  xrun (xinit mark wc hw) ops = Ok (x, e) ->
  wire (xbase x) ++ outb (xbase x) = flat_map step_block (xtrace (xinit mark wc hw) ops).
Proof. exact xoutbound_trace. Qed.
Print Assumptions C01_outbound_stream_xtrace.

Theorem C01_xtrace_def : forall x ops,
  xtrace x ops =
  match ops with
  | [] => []
  | o :: r =>
      match xstep x o with
      | Ok (x1, _) => (match o with Base b => [(xbase x, b, xbase x1)] | _ => [] end) ++ xtrace x1 r
      | _ => []
      end
  end.
Proof. exact xtrace_unfold. Qed.
Print Assumptions C01_xtrace_def.

(* ========================================================================================== *)
(* Source: the model functions ARE the current TcpConnection.cc, guard by guard                 *)
(* ========================================================================================== *)
(* [sendInLoop_src] / [handleWrite_src] (Conn_GenTie.v) follow the C++ text statement by
   statement and take every branch condition and every stream-relevant argument (len - nwrote,
   data + nwrote, retrieve(n), the errno tests) from Gen_Conn.v, which is regenerated from the
   clang AST of /repo's TcpConnection.cc on every run.  An edit of those expressions in the
   source makes these theorems fail. *)
Theorem C01_sendInLoop_is_source : forall c d k, sendInLoop_src c d k = sendInLoop c d k.
Proof. exact sendInLoop_is_source. Qed.
Print Assumptions C01_sendInLoop_is_source.

Theorem C01_handleWrite_is_source : forall c k, handleWrite_src c k = handleWrite c k.
Proof. exact handleWrite_is_source. Qed.
Print Assumptions C01_handleWrite_is_source.

(* send(): `if (state_ == kConnected)` then, on the loop thread, sendInLoop inline; the foreign
   path records the same test and enqueues only if it passed *)
Theorem C01_send_is_source : forall c d k, st c <> Connecting ->
  step c (Send d k) =
  Ok (if send_sp_state_test TcpConnection_kConnected (st_code (st c))
      then (if send_sp_inloop_test true then sendInLoop_src c d k else (c, []))
      else (c, [])).
Proof. exact send_is_source. Qed.
Print Assumptions C01_send_is_source.

Theorem C01_foreign_send_is_source : forall c t d, st c <> Connecting ->
  (exists c', step c (FSendCheck t) = Ok (c', []) /\
     chk c' = (t, send_sp_state_test TcpConnection_kConnected (st_code (st c))) :: chk c /\
     pending c' = pending c /\ st c' = st c /\ outb c' = outb c /\ wire c' = wire c) /\
  (exists c', step c (FSendEnq t d) = Ok (c', []) /\
     pending c' = (if lookup t (chk c) then (if send_sp_inloop_test false then pending c else pending c ++ [FSend t d])
                   else pending c)).
Proof. exact foreign_send_is_source. Qed.
Print Assumptions C01_foreign_send_is_source.

(* handleRead: n > 0 -> message callback; n == 0 -> handleClose; else -> log only *)
Theorem C01_handleRead_is_source : forall c d, (rd_chan c && registered c)%bool = true ->
  (0 < length d -> step c (EvReadData d) = handleRead_src c (Z.of_nat (length d)) d) /\
  step c EvReadEOF = handleRead_src c 0 [] /\
  step c EvReadErr = handleRead_src c (-1) [].
Proof. exact handleRead_is_source. Qed.
Print Assumptions C01_handleRead_is_source.

Theorem C01_pause_is_source : forall c,
  startReadInLoop c =
    (if startReadInLoop_startread_test (rd_chan c) TcpConnection_kDisconnected (rd_flag c) (st_code (st c))
     then set_reading c true true else c) /\
  stopReadInLoop c =
    (if stopReadInLoop_stopread_test (rd_chan c) TcpConnection_kDisconnected (rd_flag c) (st_code (st c))
     then set_reading c false false else c).
Proof. exact pause_is_source. Qed.
Print Assumptions C01_pause_is_source.

(* structure of the current source: all three send overloads reduce to the StringPiece one or
   behave like it, and the functor a foreign send() queues owns a COPY of the payload (the
   model's [FSend t d] carries d by value) *)
Theorem C01_source_structure :
  send_ptr_delegates_to_send = true /\
  send_sp_inloop_sends_inline = true /\ send_sp_foreign_copies_payload = true /\
  send_buf_inloop_sends_inline = true /\ send_buf_foreign_copies_payload = true /\
  send_buf_inloop_empties_caller_buffer = true /\
  shutdown_runs_in_loop = true /\
  forceClose_queues_strong_ref = true /\
  forceCloseWithDelay_holds_weak_ref = true.
Proof. exact source_structure_life. Qed.
Print Assumptions C01_source_structure.

(* ========================================================================================== *)
(* Non-vacuity                                                                                  *)
(* ========================================================================================== *)
(* partial write, backlog crossing the mark (4), foreign send queued behind the backlog, paused
   reading, EAGAIN on the drain path, shutdown with a backlog (deferred half-close), drain, data
   still received after the half-close *)
Definition ex_ops : list op :=
  [ Establish;
    Send [x61; x62; x63; x64] (Accept 1);
    FSendCheck 7; FSendEnq 7 [x65; x66];
    RunOne AcceptAll;
    EvReadData [x70; x71]; StopRead; Retrieve 1; XStartRead;
    EvWritable (Accept 2); EvWritable (Err EAGAIN);
    Shutdown;
    RunOne AcceptAll; RunOne AcceptAll;
    EvWritable AcceptAll; RunOne AcceptAll; EvReadData [x72] ].

Example ex_run :
  exists c, run (init 4%N true true) ex_ops
            = Ok (c, [EvUp; EvMsg 2; EvErrorLogged; EvHWM 5; EvFin; EvWC; EvMsg 2]) /\
    wire c = [x61; x62; x63; x64; x65; x66] /\ outb c = [] /\ fin c = true /\
    st c = Disconnecting /\ ran c = [(7, [x65; x66])] /\
    consumed c = [x70] /\ inb c = [x71; x72].
Proof. vm_compute. eexists. repeat split. Qed.

(* the right-hand sides of the two headline theorems on that history *)
Example ex_trace_blocks :
  flat_map step_block (trace (init 4%N true true) ex_ops) = [x61; x62; x63; x64; x65; x66] /\
  flat_map step_enq (trace (init 4%N true true) ex_ops) = [(7, [x65; x66])] /\
  flat_map read_of ex_ops = [x70; x71; x72] /\ length (filter is_read ex_ops) = 2.
Proof. vm_compute. repeat split. Qed.

(* a reachable state with a non-empty backlog, write interest on, a foreign send pending *)
Example ex_reach_backlog :
  exists c, reach c /\ st c = Connected /\ outb c = [x62; x63; x64] /\ writing c = true /\
            sends_of (pending c) = [(7, [x65; x66])] /\ wire c = [x61].
Proof.
  destruct (run (init 4%N true true) (firstn 4 ex_ops)) as [[c e]| |] eqn:E;
    try (vm_compute in E; discriminate).
  exists c. split; [eapply run_reach; [apply reach_init|exact E]|].
  vm_compute in E. injection E as <- _. vm_compute. repeat split.
Qed.

Example ex_block_taken :
  exists c, reach c /\ block_taken c (RunOne AcceptAll) = [x65; x66] /\
            pause_op c StopRead = true.
Proof.
  destruct (run (init 4%N true true) (firstn 4 ex_ops)) as [[c e]| |] eqn:E;
    try (vm_compute in E; discriminate).
  exists c. split; [eapply run_reach; [apply reach_init|exact E]|].
  vm_compute in E. injection E as <- _. vm_compute. repeat split.
Qed.


(* ========================================================================================== *)
(* Cross-model links (appended; owner: the links, docs/Link.md section L1)                      *)
(* ========================================================================================== *)
(* Conn_Model keeps outb / inb as plain byte lists ("readable bytes of outputBuffer_ /
   inputBuffer_; abstract view justified by C10").  Link_ConnBuf_Model is the same connection
   over two CONCRETE Buffers (the C10 model: vector, readerIndex_, writerIndex_): state
   (ctl, obuf, ibuf), ctl = the control fields (a conn whose two list fields are dead),
   c_step = Conn_Model.step on ctl except that every Buffer call TcpConnection.cc makes is the
   C10_Model function (definitions quoted below); a Buffer call of TcpConnection itself that C10
   rejects or faults makes the concrete step Fault.  Proofs: Link_ConnBuf.v; the link's own
   headline file is Link_Properties_L1.v.  B = C10_Model, BP = C10_Proofs. *)
From Muduo Require Import Link_ConnBuf_Model Link_ConnBuf Link_Properties_L1.

(* the concrete machine, as equations *)
Theorem C01_link_c_init_def : forall mark wc hw,
  c_init mark wc hw = mkCC (init mark wc hw) (B.new_buf B.kInitialSize) (B.new_buf B.kInitialSize).
Proof. exact c_init_unfold. Qed.
Print Assumptions C01_link_c_init_def.

Theorem C01_link_c_step_def : forall c o,
  c_step c o =
  let a := ctl c in
  match o with
  | CRead k =>
      if rd_chan a && registered a then c_handleRead c k else Rejected
  | CRetrieveAll =>
      if cstate_eqb (st a) Connecting then Rejected else
      Ok (mkCC (mkConn (st a) [] [] (writing a) (rd_chan a) (rd_flag a) (registered a) (hwm a)
                       (has_wc a) (has_hwm a) (wire a) (fin a) (pending a) (chk a) (delayed a) (accepted a)
                       (consumed a ++ B.readable (ibuf c))                   (* ghost *)
                       (delivered a) (enq a) (ran a) (ups a) (downs a))
               (obuf c) (B.retrieveAll (ibuf c)), [])
  | COp o =>
      if user_op o && cstate_eqb (st a) Connecting then Rejected else
      match o with
      | Send d k =>                                                          (* TcpConnection.cc:92-99 *)
          if cstate_eqb (st a) Connected then c_sendInLoop c d k else Ok (c, [])
      | RunOne k =>
          match pending a with
          | FSend t d :: rest =>                                             (* the bound sendInLoop, :102-106 *)
              match c_sendInLoop (mkCC (set_pending a rest) (obuf c) (ibuf c)) d k with
              | Ok (c1, evs) => Ok (mkCC (c_add_ran (ctl c1) t d) (obuf c1) (ibuf c1), evs)
              | Rejected => Rejected
              | Fault => Fault
              end
          | _ => lift c (step a (RunOne k))
          end
      | EvWritable k => if registered a then c_handleWrite c k else Rejected
      | EvReadData _ | EvReadEOF | EvReadErr => Rejected                     (* use CRead *)
      | Retrieve n =>
          match B.retrieve n (ibuf c) with                                   (* Buffer.h:113-124 *)
          | B.Ok ib' =>
              Ok (mkCC (mkConn (st a) [] [] (writing a) (rd_chan a) (rd_flag a) (registered a) (hwm a)
                               (has_wc a) (has_hwm a) (wire a) (fin a) (pending a) (chk a) (delayed a) (accepted a)
                               (consumed a ++ firstn n (B.readable (ibuf c)))   (* ghost *)
                               (delivered a) (enq a) (ran a) (ups a) (downs a))
                       (obuf c) ib', [])
          | B.Rejected => Rejected                                           (* assert(len <= readableBytes()) *)
          | B.Fault => Fault
          end
      | _ => lift c (step a o)
      end
  end.
Proof. exact c_step_unfold. Qed.
Print Assumptions C01_link_c_step_def.

Theorem C01_link_c_sendInLoop_def : forall c d k,
  c_sendInLoop c d k =
  let a := ctl c in
  if cstate_eqb (st a) Disconnected then Ok (c, [EvGiveUp]) else            (* :145-149 *)
  let oldLen := B.readableBytes (obuf c) in                                  (* :151 and :179 *)
  let direct := negb (writing a) && (oldLen =? 0) in                         (* :151 *)
  let '(nwrote, fatal, wrote_ok) :=
    if direct then
      match effective a k with                                               (* :153 write(fd, data, len) *)
      | Err e => (0, is_fatal e, false)
      | k' => (match taken k' (length d) with Some n => n | None => 0 end, false, true)
      end
    else (0, false, false) in
  let remaining := length d - nwrote in                                      (* :156 *)
  let p1 := if wrote_ok && (remaining =? 0) && has_wc a
            then pending a ++ [FWriteComplete] else pending a in             (* :157-160 *)
  let queue := negb fatal && (0 <? remaining) in                             (* :177 *)
  let p2 := if queue && (hwm a <=? N.of_nat (oldLen + remaining))%N && (N.of_nat oldLen <? hwm a)%N && has_hwm a
            then p1 ++ [FHighWater (oldLen + remaining)] else p1 in          (* :180-185 *)
  match (if queue then B.append (skipn nwrote d) (obuf c) else B.Ok (obuf c)) with   (* :186 *)
  | B.Ok ob' =>
      Ok (mkCC (mkConn (st a) [] [] (if queue then true else writing a)      (* :187-190 *)
                       (rd_chan a) (rd_flag a) (registered a) (hwm a) (has_wc a) (has_hwm a)
                       (wire a ++ firstn nwrote d) (fin a) p2 (chk a) (delayed a)
                       (if fatal then accepted a else accepted a ++ d)
                       (consumed a) (delivered a) (enq a) (ran a) (ups a) (downs a))
               ob' (ibuf c),
          if direct then match effective a k with Err EAGAIN => [] | Err _ => [EvErrorLogged] | _ => [] end else [])
  | _ => Fault
  end.
Proof. exact c_sendInLoop_unfold. Qed.
Print Assumptions C01_link_c_sendInLoop_def.

Theorem C01_link_c_handleWrite_def : forall c k,
  c_handleWrite c k =
  let a := ctl c in
  if writing a then                                                          (* :371 *)
    match B.toStringPiece (obuf c) with                                      (* :374-375 peek(), readableBytes() *)
    | B.Ok data =>
        match taken (effective a k) (length data) with                       (* :373 write() *)
        | Some n' =>
            if 0 <? n' then                                                  (* :376 *)
              match B.retrieve n' (obuf c) with                              (* :378 *)
              | B.Ok ob' =>
                  let empty := B.readableBytes ob' =? 0 in                   (* :379 *)
                  let a1 := mkConn (st a) [] [] (if empty then false else true)      (* :381 *)
                                   (rd_chan a) (rd_flag a) (registered a) (hwm a) (has_wc a) (has_hwm a)
                                   (wire a ++ firstn n' data) (fin a)
                                   (if empty && has_wc a then pending a ++ [FWriteComplete] else pending a)  (* :382-385 *)
                                   (chk a) (delayed a) (accepted a) (consumed a) (delivered a) (enq a) (ran a)
                                   (ups a) (downs a) in
                  let '(a2, evs) := if empty && cstate_eqb (st a) Disconnecting     (* :386-389 *)
                                    then shutdownInLoop a1 else (a1, []) in
                  Ok (mkCC a2 ob' (ibuf c), evs)
              | _ => Fault
              end
            else Ok (c, [EvErrorLogged])                                     (* :392-399 *)
        | None => Ok (c, [EvErrorLogged])
        end
    | _ => Fault
    end
  else Ok (c, []).                                                           (* :401-405 *)
Proof. exact c_handleWrite_unfold. Qed.
Print Assumptions C01_link_c_handleWrite_def.

Theorem C01_link_c_handleRead_def : forall c k,
  c_handleRead c k =
  let a := ctl c in
  match B.readFd k (ibuf c) with                                             (* :351 *)
  | B.Ok (ib', r) =>
      if (0 <? B.rf_n r)%Z then                                              (* :352 n > 0 *)
        Ok (mkCC (mkConn (st a) [] [] (writing a) (rd_chan a) (rd_flag a) (registered a) (hwm a)
                         (has_wc a) (has_hwm a) (wire a) (fin a) (pending a) (chk a) (delayed a) (accepted a)
                         (consumed a)
                         (delivered a ++ B.delivered (B.readFd_capacity (ibuf c)) k)   (* ghost *)
                         (enq a) (ran a) (ups a) (downs a))
                 (obuf c) ib',
            [EvMsg (B.readableBytes ib')])                                   (* :354 *)
      else if (B.rf_n r =? 0)%Z then                                         (* :356 n == 0 *)
        match handleCloseChecked a with                                      (* :358 *)
        | Ok (a', e) => Ok (mkCC a' (obuf c) ib', e)
        | Rejected => Rejected
        | Fault => Fault
        end
      else Ok (mkCC a (obuf c) ib', [EvErrorLogged])                         (* :360-365 *)
  | _ => Fault
  end.
Proof. exact c_handleRead_unfold. Qed.
Print Assumptions C01_link_c_handleRead_def.

Theorem C01_link_lift_def : forall c r,
  lift c r =
  match r with
  | Ok (a', e) => Ok (mkCC a' (obuf c) (ibuf c), e)
  | Rejected => Rejected
  | Fault => Fault
  end.
Proof. exact lift_unfold. Qed.
Print Assumptions C01_link_lift_def.

Theorem C01_link_c_add_ran_def : forall a t d,
  c_add_ran a t d =
  mkConn (st a) (outb a) (inb a) (writing a) (rd_chan a) (rd_flag a) (registered a) (hwm a)
         (has_wc a) (has_hwm a) (wire a) (fin a) (pending a) (chk a) (delayed a)
         (accepted a) (consumed a) (delivered a) (enq a) (ran a ++ [(t, d)]) (ups a) (downs a).
Proof. exact c_add_ran_unfold. Qed.
Print Assumptions C01_link_c_add_ran_def.

Theorem C01_link_c_run_def : forall c ops,
  c_run c ops = match ops with
                | [] => Ok (c, [])
                | o :: rest =>
                    match c_step c o with
                    | Ok (c1, e1) => match c_run c1 rest with
                                     | Ok (c2, e2) => Ok (c2, e1 ++ e2)
                                     | Rejected => Rejected
                                     | Fault => Fault
                                     end
                    | Rejected => Rejected
                    | Fault => Fault
                    end
                end.
Proof. exact c_run_unfold. Qed.
Print Assumptions C01_link_c_run_def.

(* the abstraction: forget vector and indices, keep the readable bytes; the Conn_Model op a
   concrete op amounts to; well-formed concrete ops; reachable Buffer states *)
Theorem C01_link_abs_def : forall c,
  abs c = mkConn (st (ctl c)) (B.readable (obuf c)) (B.readable (ibuf c)) (writing (ctl c)) (rd_chan (ctl c))
                 (rd_flag (ctl c)) (registered (ctl c)) (hwm (ctl c)) (has_wc (ctl c)) (has_hwm (ctl c))
                 (wire (ctl c)) (fin (ctl c)) (pending (ctl c)) (chk (ctl c)) (delayed (ctl c))
                 (accepted (ctl c)) (consumed (ctl c)) (delivered (ctl c)) (enq (ctl c)) (ran (ctl c))
                 (ups (ctl c)) (downs (ctl c)).
Proof. exact abs_unfold. Qed.
Print Assumptions C01_link_abs_def.

Theorem C01_link_abs_op_def : forall c o,
  abs_op c o = match o with
               | COp o => o
               | CRead (B.KData avail) =>
                   if 0 <? length (firstn (B.readFd_capacity (ibuf c)) avail)
                   then EvReadData (firstn (B.readFd_capacity (ibuf c)) avail) else EvReadEOF
               | CRead (B.KErr _) => EvReadErr
               | CRetrieveAll => Retrieve (B.readableBytes (ibuf c))
               end.
Proof. exact abs_op_unfold. Qed.
Print Assumptions C01_link_abs_op_def.

Theorem C01_link_abs_ops_def : forall c ops,
  abs_ops c ops = match ops with
                  | [] => []
                  | o :: rest => abs_op c o :: match c_step c o with Ok (c', _) => abs_ops c' rest | _ => [] end
                  end.
Proof. exact abs_ops_unfold. Qed.
Print Assumptions C01_link_abs_ops_def.

Theorem C01_link_wf_bufs_ok_def : forall c o,
  (bufs_ok c <-> exists lo li, BP.reach (obuf c, ibuf c) (lo, li)) /\
  cop_wf o = match o with COp (EvReadData _) | COp EvReadEOF | COp EvReadErr => false | _ => true end.
Proof. exact (fun c o => conj (bufs_ok_unfold c) (cop_wf_unfold o)). Qed.
Print Assumptions C01_link_wf_bufs_ok_def.

Theorem C01_link_fits_conc_op_def : forall c o,
  fits c o = (match o with EvReadData d => length d <=? B.readFd_capacity (ibuf c) | _ => true end) /\
  conc_op o = (match o with
               | EvReadData d => CRead (B.KData d)
               | EvReadEOF => CRead (B.KData [])
               | EvReadErr => CRead (B.KErr 0%Z)
               | o => COp o
               end).
Proof. exact fits_conc_op_unfold. Qed.
Print Assumptions C01_link_fits_conc_op_def.

Theorem C01_link_c_reach_def : forall c, c_reach c <->
  (exists mark wc hw, c = c_init mark wc hw) \/
  (exists c0 o e, c_reach c0 /\ cop_wf o = true /\ c_step c0 o = Ok (c, e)).
Proof. exact c_reach_unfold. Qed.
Print Assumptions C01_link_c_reach_def.

(* the simulation relation: the two list fields of the Conn_Model state are the readable bytes of
   the two buffers, which are reachable Buffer states (C10's reach), all other fields coincide *)
Theorem C01_link_relation_def : forall a c, R a c <->
  (B.readable (obuf c) = outb a /\ B.readable (ibuf c) = inb a /\
   BP.reach (obuf c, ibuf c) (outb a, inb a) /\
   st a = st (ctl c) /\ writing a = writing (ctl c) /\ rd_chan a = rd_chan (ctl c) /\
   rd_flag a = rd_flag (ctl c) /\ registered a = registered (ctl c) /\ hwm a = hwm (ctl c) /\
   has_wc a = has_wc (ctl c) /\ has_hwm a = has_hwm (ctl c) /\ wire a = wire (ctl c) /\
   fin a = fin (ctl c) /\ pending a = pending (ctl c) /\ chk a = chk (ctl c) /\
   delayed a = delayed (ctl c) /\ accepted a = accepted (ctl c) /\ consumed a = consumed (ctl c) /\
   delivered a = delivered (ctl c) /\ enq a = enq (ctl c) /\ ran a = ran (ctl c) /\
   ups a = ups (ctl c) /\ downs a = downs (ctl c)).
Proof. exact L1_relation_def. Qed.
Print Assumptions C01_link_relation_def.

(* REFINEMENT.  Whatever the connection over the two real Buffers does in one step, Conn_Model
   does on the abstraction: same result kind, same events, and both buffers stay reachable
   Buffer states.  So "outb / inb = readable bytes of the Buffers" is a theorem. *)
Theorem C01_conn_over_real_buffers_refines : forall c o, bufs_ok c -> cop_wf o = true ->
  match c_step c o with
  | Ok (c', e) => step (abs c) (abs_op c o) = Ok (abs c', e) /\ bufs_ok c'
  | Rejected => step (abs c) (abs_op c o) = Rejected
  | Fault => step (abs c) (abs_op c o) = Fault
  end.
Proof. exact L1_conn_refines_over_buffers. Qed.
Print Assumptions C01_conn_over_real_buffers_refines.

(* SIMULATION.  Every accepted Conn_Model step from a related state is performed over the real
   Buffers: every Buffer call is accepted by C10's guards (Ok, neither Rejected nor Fault), same
   events, relation re-established.  [fits]: one handleRead cannot deliver more than readFd offers
   to readv (Conn_Model's EvReadData d over-approximates the environment there). *)
Theorem C01_conn_over_real_buffers_simulates : forall a c o a' e, R a c -> fits c o = true ->
  step a o = Ok (a', e) ->
  exists c', c_step c (conc_op o) = Ok (c', e) /\ R a' c'.
Proof. exact L1_conn_simulated_over_buffers. Qed.
Print Assumptions C01_conn_over_real_buffers_simulates.

(* TcpConnection never violates a precondition of Buffer, no Buffer access of sendInLoop /
   handleWrite / handleRead is out of bounds, no assert of TcpConnection.cc fires: no history of
   the connection over real Buffers faults *)
Theorem C01_no_buffer_precondition_violated : forall mark wc hw ops, forallb cop_wf ops = true ->
  c_run (c_init mark wc hw) ops <> Fault.
Proof. exact L1_no_buffer_precondition_violated. Qed.
Print Assumptions C01_no_buffer_precondition_violated.

(* BOTH HEADLINE THEOREMS OF C01 ON THE REAL BUFFERS.  For every history: what the peer read
   followed by the readable bytes of outputBuffer_ is the in-order concatenation of the blocks of
   the history's sendInLoops; what the user retrieved followed by the readable bytes of
   inputBuffer_ is the concatenation, over the handleReads, of what readFd delivered; one message
   callback per non-empty delivery. *)
Theorem C01_streams_hold_on_real_buffers : forall mark wc hw ops c e, forallb cop_wf ops = true ->
  c_run (c_init mark wc hw) ops = Ok (c, e) ->
  wire (ctl c) ++ B.readable (obuf c) =
    flat_map step_block (trace (init mark wc hw) (abs_ops (c_init mark wc hw) ops)) /\
  consumed (ctl c) ++ B.readable (ibuf c) = c_reads (c_init mark wc hw) ops /\
  length (filter is_msg e) = c_nreads (c_init mark wc hw) ops.
Proof. exact c_streams. Qed.
Print Assumptions C01_streams_hold_on_real_buffers.

Theorem C01_link_c_reads_def : forall c ops,
  c_reads c ops = (match ops with
                   | [] => []
                   | o :: rest =>
                       (match o with CRead k => B.delivered (B.readFd_capacity (ibuf c)) k | _ => [] end)
                       ++ match c_step c o with Ok (c', _) => c_reads c' rest | _ => [] end
                   end) /\
  c_nreads c ops = (match ops with
                    | [] => 0
                    | o :: rest =>
                        (if match o with
                            | CRead k => 0 <? length (B.delivered (B.readFd_capacity (ibuf c)) k)
                            | _ => false
                            end then 1 else 0) +
                        match c_step c o with Ok (c', _) => c_nreads c' rest | _ => 0 end
                    end).
Proof. exact c_reads_unfold. Qed.
Print Assumptions C01_link_c_reads_def.

(* one handleRead = readFd's extrabuf path: exactly min(available, capacity) bytes are appended
   to inputBuffer_, capacity = writable + sizeof extrabuf (65536) when writable < sizeof extrabuf,
   = writable otherwise; outputBuffer_ untouched; the callback sees the whole buffered input *)
Theorem C01_handleRead_delivers : forall c avail, bufs_ok c ->
  rd_chan (ctl c) && registered (ctl c) = true ->
  let cap := B.readFd_capacity (ibuf c) in
  let n := Nat.min (length avail) cap in
  cap = (if B.writableBytes (ibuf c) <? B.kExtraBuf
         then B.writableBytes (ibuf c) + B.kExtraBuf else B.writableBytes (ibuf c)) /\
  (0 < n ->
   exists c', c_step c (CRead (B.KData avail)) = Ok (c', [EvMsg (length (B.readable (ibuf c)) + n)]) /\
              B.readable (ibuf c') = B.readable (ibuf c) ++ firstn n avail /\
              B.readable (obuf c') = B.readable (obuf c) /\
              delivered (ctl c') = delivered (ctl c) ++ firstn n avail).
Proof. exact L1_handleRead_delivers. Qed.
Print Assumptions C01_handleRead_delivers.

(* C01_write_interest_iff_backlog on the real buffer *)
Theorem C01_write_interest_iff_buffer_nonempty : forall c, c_reach c ->
  st (ctl c) = Connected \/ st (ctl c) = Disconnecting ->
  (writing (ctl c) = true <-> B.readableBytes (obuf c) <> 0).
Proof. exact L1_write_interest_iff_buffer_nonempty. Qed.
Print Assumptions C01_write_interest_iff_buffer_nonempty.

(* THE TRANSFER PRINCIPLE: every theorem of this file about reachable Conn_Model states holds of
   the abstraction of every reachable state over real Buffers, and those buffers are reachable
   Buffer states, so every C10 theorem holds of them *)
Theorem C01_transfer_to_real_buffers : forall P : conn -> Prop,
  (forall a, reach a -> P a) ->
  forall c, c_reach c -> P (abs c) /\ exists lo li, BP.reach (obuf c, ibuf c) (lo, li).
Proof. exact (fun P HP c Hr => conj (L1_transfer P HP c Hr) (L1_reachable_buffers c Hr)). Qed.
Print Assumptions C01_transfer_to_real_buffers.

(* non-vacuity: a 14-op history over real Buffers (partial direct write, foreign send through the
   queue, drain by handleWrite, reads, both retrieve forms, EAGAIN on read, shutdown, EOF), and
   the extrabuf path: a fresh 1024-byte input buffer and 70000 ready bytes -> 66560 delivered *)
Example C01_link_ex_run :
  exists c e, c_run (c_init 100 true true) l1_ops = Ok (c, e) /\ forallb cop_wf l1_ops = true /\
              length (wire (ctl c)) = 5 /\ length (consumed (ctl c)) = 5 /\ st (ctl c) = Disconnected.
Proof. exact l1_ex_run_ok. Qed.
Example C01_link_ex_spill :
  match c_run (c_init 100 false false)
              [COp Establish; CRead (B.KData (repeat l1_a (Z.to_nat 70000)))] with
  | Ok (c, e) => (B.readableBytes (ibuf c) =? Z.to_nat 66560) && (length e =? 2)
  | _ => false
  end = true.
Proof. exact l1_ex_spill. Qed.

(* ---- Independence of the input buffers of different connections ------------------------------
   C01's inbound clause is stated per connection; that two connections (possibly on two io-loop
   threads) do not disturb each other's bytes rests on Buffer::readFd keeping no state outside its
   own object: the 64 KiB spill area is an automatic variable and class Buffer has no shared mutable
   state.  Both facts are regenerated from the current Buffer.h/.cc (lib/gen_C10.py); C10 proves the
   product statement they justify (C10_buffers_independent) and executes the forced two-thread
   spill case; C08 lists every static-storage variable.  Quoted here so that a change which makes
   that area shared (seeded/C01_4) breaks an obligation of C01 as well. *)
From Muduo Require Gen_C10 C10_GenLink.
Theorem C01_input_buffers_share_no_state :
  Gen_C10.readFd_extrabuf_is_automatic = true /\ Gen_C10.Buffer_shares_no_state = true.
Proof. exact C10_GenLink.C10_buffers_share_no_state. Qed.
Print Assumptions C01_input_buffers_share_no_state.
