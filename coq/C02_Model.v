(* C02_Model: the OWNERS of connections - one TcpServer over an acceptor loop (0) and nio io
   loops (1..nio), and one TcpClient on loop 0 - with the life cycle of every connection they
   create, the per-loop functor queues (pendingFunctors_, the swapped-out batch, the functors of
   the batch that already ran but are not destroyed yet), the shared_ptr holders of every
   connection and the poller registration of its channel (EPollPoller index).
   Mirrors TcpServer.cc, TcpClient.cc, the life-cycle part of TcpConnection.cc, Channel.cc
   (tie / update / remove), EPollPoller::updateChannel/removeChannel and
   EventLoop::doPendingFunctors.  Sequential state machine over an adversarial op list
   (DESIGN 3.2): loop-thread steps, foreign calls cut into load / store / enqueue, kernel events.
   A connection is destroyed exactly when its set of holders becomes empty; holders are DERIVED
   from the state (map entry, strong functors anywhere in a loop, user references, foreign calls
   in progress), never stored.
   ~TcpServer also destroys the thread pool (EventLoopThreadPool.cc, EventLoopThread.cc): the io
   loops are told to quit one after the other and joined; EventLoop::loop() is
   while (!quit_) { poll; dispatch; doPendingFunctors(); } with no drain after the loop, so a loop
   that has been told to quit leaves at the end of its current drain (EndBatch) and whatever is
   still in pendingFunctors_ is destroyed unrun with the EventLoop (s_stop, quitting, gone).
   No proofs in this file. *)
From Coq Require Import List Bool Arith Lia.
From Muduo Require Import Conn_Model.
Import ListNotations.

(* EPollPoller's per-channel index_ *)
Inductive pidx := PNew | PAdded | PDeleted.
Definition pidx_eqb (a b : pidx) : bool :=
  match a, b with PNew, PNew | PAdded, PAdded | PDeleted, PDeleted => true | _, _ => false end.

Inductive ccb := CbServer | CbClient | CbDetail.   (* which closeCallback_ is installed *)

Record lc := mkLc {
  k_st : cstate;            (* state_ *)
  k_wr : bool;              (* channel_->isWriting() *)
  k_rd : bool;              (* channel_->isReading() *)
  k_rflag : bool;           (* reading_ *)
  k_added : bool;           (* Channel::addedToLoop_ *)
  k_pidx : pidx;            (* Channel::index_ as maintained by EPollPoller *)
  k_loop : nat;             (* loop_ : 0 = acceptor/base loop, 1..nio = io loops *)
  k_alive : bool;           (* the TcpConnection object exists *)
  k_ccb : ccb;              (* closeCallback_ *)
  k_mapped : bool;          (* held by TcpServer::connections_ / TcpClient::connection_ *)
  k_urefs : nat;            (* TcpConnectionPtr copies held by user code *)
  k_delayed : nat;          (* outstanding forceCloseWithDelay timers (weak references) *)
  k_fin : bool;             (* ::shutdown(fd, SHUT_WR) has been called: every later write fails *)
  (* ghost *)
  k_ups : nat; k_downs : nat; k_dtors : nat; k_closes : nat
}.

Definition fresh (l : nat) (cb : ccb) : lc :=
  mkLc Connecting false false true false PNew l true cb true 0 0 false 0 0 0 0.

Definition k_closable (k : lc) : bool :=
  cstate_eqb (k_st k) Connected || cstate_eqb (k_st k) Disconnecting.
Definition k_none (k : lc) : bool := negb (k_wr k || k_rd k).
Definition k_inset (k : lc) : bool := pidx_eqb (k_pidx k) PAdded.   (* fd is in the epoll set *)

(* functors *)
Inductive task :=
| TEstablish (c : nat)              (* connectEstablished, bound with the shared_ptr *)
| TRemove (c : nat)                 (* TcpServer::removeConnectionInLoop(this, conn): strong conn, raw server *)
| TDestroy (c : nat)                (* connectDestroyed, strong *)
| TForceClose (c : nat)             (* forceCloseInLoop, shared_from_this() *)
| TUserCb (c : nat)                 (* write-complete / high-water callback, shared_from_this() *)
| TShutdown (c : nat) (pin : bool)  (* shutdownInLoop bound with the RAW this; pin = the caller keeps *)
| TStartRead (c : nat) (pin : bool) (*   its own reference until the functor has run                  *)
| TStopRead (c : nat) (pin : bool)
| TSend (c : nat) (pin : bool)
| TAddTimer (c : nat)               (* TimerQueue::addTimerInLoop for a forceCloseWithDelay made off-loop: weak *)
| TOther                            (* a functor that does not concern any connection (Connector::stopInLoop) *)
| TSetCb (c : nat).                 (* ~TcpClient on a foreign thread: setCloseCallback(conn, detail::removeConnection), strong *)

Definition task_conn (t : task) : nat :=
  match t with
  | TEstablish c | TRemove c | TDestroy c | TForceClose c | TUserCb c => c
  | TShutdown c _ | TStartRead c _ | TStopRead c _ | TSend c _ | TAddTimer c | TSetCb c => c
  | TOther => 0
  end.
(* does the functor object hold a shared_ptr to its connection *)
Definition task_strong (t : task) : bool :=
  match t with
  | TEstablish _ | TRemove _ | TDestroy _ | TForceClose _ | TUserCb _ | TSetCb _ => true
  | TShutdown _ p | TStartRead _ p | TStopRead _ p | TSend _ p => p
  | TAddTimer _ | TOther => false
  end.
Definition holds (c : nat) (t : task) : bool := (task_conn t =? c) && task_strong t.

Record lq := mkLq {
  q_pend : list task;       (* pendingFunctors_ *)
  q_batch : list task;      (* swapped out by doPendingFunctors, not run yet *)
  q_spent : list task;      (* ran in the current batch; destroyed when the batch ends *)
  q_drain : bool            (* callingPendingFunctors_: the loop thread is between the swap of doPendingFunctors and the
                               next evaluation of `while (!quit_)` (a drain of an EMPTY batch is such a state too) *)
}.
Definition q_all (l : lq) : list task := q_spent l ++ q_batch l ++ q_pend l.
(* the loop thread is in poll() / dispatching events: not inside a drain *)
Definition q_idle (l : lq) : bool :=
  match q_batch l, q_spent l with [], [] => negb (q_drain l) | _, _ => false end.

Inductive api := AShutdown | AForceClose | AForceCloseDelay | ASend | AStartRead | AStopRead
| ADtor.   (* not a TcpConnection call: ~TcpClient running on a foreign thread (its local copy of connection_ is the reference) *)
Definition is_dtor (a : api) : bool := match a with ADtor => true | _ => false end.
(* a foreign thread inside an API call on connection c (it holds a reference for the duration) *)
Record call := mkCall {
  a_thr : nat; a_conn : nat; a_api : api;
  a_loaded : bool;          (* outcome of its unsynchronised test of state_ *)
  a_stored : bool           (* its setState(kDisconnecting) has happened (or there is none to do) *)
}.

Record sys := mkSys {
  s_nio : nat;              (* io threads *)
  s_readd : bool;           (* EPollPoller::updateChannel ADDs a kNew/kDeleted channel even when its interest is
                               empty (the code before the fix of F-15; Gen_C02.epoll_registers_empty_interest) *)
  s_conns : list lc;        (* every connection ever created; the index is its id *)
  s_loops : list lq;        (* s_nio + 1 loops *)
  s_rr : nat;               (* EventLoopThreadPool::next_ *)
  s_srv : bool;             (* the TcpServer object exists *)
  s_cli : bool;             (* the TcpClient object exists *)
  s_cliconn : option nat;   (* TcpClient::connection_ *)
  s_calls : list call;
  s_dying : bool;           (* the base thread is inside the body of ~TcpServer, between two iterations of its loop over connections_ *)
  s_stop : nat              (* ~TcpServer destroys threadPool_: ~EventLoopThread of io loop 1, 2, ... in turn does
                               loop_->quit(); thread_.join().  0 = the pool is alive (or there are no io loops);
                               j >= 1: io loops 1..j-1 have left loop() and their EventLoop is destroyed, io loop j has
                               quit_ set and leaves at its next `while (!quit_)`, io loops j+1.. still run *)
}.

Definition init_sys (nio : nat) (readd : bool) : sys :=
  mkSys nio readd [] (repeat (mkLq [] [] [] false) (S nio)) 0 true true None [] false 0.

(* observations: callbacks and destructions with the thread that ran them *)
Inductive obs :=
| OUp (thr c : nat) | ODown (thr c : nat) | OMsg (thr c : nat)
| ODtor (thr c : nat) (clean : bool).   (* clean = Disconnected, channel removed, fd not in the epoll set *)

(* ---- list helpers ---------------------------------------------------------------------------- *)
Fixpoint upd {A} (l : list A) (i : nat) (x : A) : list A :=
  match l, i with
  | [], _ => []
  | _ :: r, O => x :: r
  | y :: r, S j => y :: upd r j x
  end.

Definition count_tasks (c : nat) (l : list task) : nat := length (filter (holds c) l).
Definition count_calls (c : nat) (l : list call) : nat :=
  length (filter (fun a => a_conn a =? c) l).

(* the holders of connection c *)
Definition holders (s : sys) (c : nat) : nat :=
  match nth_error (s_conns s) c with
  | None => 0
  | Some k =>
      (if k_mapped k then 1 else 0) + k_urefs k + count_calls c (s_calls s) +
      fold_right (fun l n => count_tasks c (q_all l) + n) 0 (s_loops s)
  end.

Definition set_conns (s : sys) (cs : list lc) : sys :=
  mkSys (s_nio s) (s_readd s) cs (s_loops s) (s_rr s) (s_srv s) (s_cli s) (s_cliconn s) (s_calls s) (s_dying s) (s_stop s).
Definition set_loops (s : sys) (ls : list lq) : sys :=
  mkSys (s_nio s) (s_readd s) (s_conns s) ls (s_rr s) (s_srv s) (s_cli s) (s_cliconn s) (s_calls s) (s_dying s) (s_stop s).
Definition set_calls (s : sys) (cl : list call) : sys :=
  mkSys (s_nio s) (s_readd s) (s_conns s) (s_loops s) (s_rr s) (s_srv s) (s_cli s) (s_cliconn s) cl (s_dying s) (s_stop s).
Definition set_stop (s : sys) (j : nat) : sys :=
  mkSys (s_nio s) (s_readd s) (s_conns s) (s_loops s) (s_rr s) (s_srv s) (s_cli s) (s_cliconn s) (s_calls s) (s_dying s) j.
Definition set_dying (s : sys) (b : bool) : sys :=
  mkSys (s_nio s) (s_readd s) (s_conns s) (s_loops s) (s_rr s) (s_srv s) (s_cli s) (s_cliconn s) (s_calls s) b (s_stop s).

(* the pool's tear-down as seen by io loop l (the base loop 0 is not the pool's) *)
Definition quitting (s : sys) (l : nat) : bool := negb (l =? 0) && (l =? s_stop s).   (* quit_ stored, still in loop() *)
Definition gone (s : sys) (l : nat) : bool := negb (l =? 0) && (l <? s_stop s).       (* loop() returned, EventLoop destroyed *)

Definition put (s : sys) (c : nat) (k : lc) : sys := set_conns s (upd (s_conns s) c k).

(* EventLoop::queueInLoop on loop l *)
Definition enq (s : sys) (l : nat) (t : task) : sys :=
  match nth_error (s_loops s) l with
  | None => s
  | Some lqv => set_loops s (upd (s_loops s) l (mkLq (q_pend lqv ++ [t]) (q_batch lqv) (q_spent lqv) (q_drain lqv)))
  end.

(* ---- channel / poller ------------------------------------------------------------------------ *)
Definition set_chan (k : lc) (wr rd : bool) (a : bool) (p : pidx) : lc :=
  mkLc (k_st k) wr rd (k_rflag k) a p (k_loop k) (k_alive k) (k_ccb k) (k_mapped k) (k_urefs k)
       (k_delayed k) (k_fin k) (k_ups k) (k_downs k) (k_dtors k) (k_closes k).

(* Channel::update() with the interest already changed to (wr, rd): addedToLoop_ = true, then
   EPollPoller::updateChannel *)
Definition chan_update (readd : bool) (k : lc) (wr rd : bool) : lc :=
  let none := negb (wr || rd) in
  match k_pidx k with
  | PNew | PDeleted => if none && negb readd then set_chan k wr rd true PDeleted else set_chan k wr rd true PAdded
  | PAdded => if none then set_chan k wr rd true PDeleted else set_chan k wr rd true PAdded
  end.

(* Channel::remove(): assert(isNoneEvent()); EPollPoller::removeChannel asserts the channel is known *)
Definition chan_remove (k : lc) : res lc :=
  if negb (k_none k) then Fault
  else if pidx_eqb (k_pidx k) PNew then Fault
  else Ok (set_chan k (k_wr k) (k_rd k) false PNew).

Definition set_life (k : lc) (st : cstate) (ups downs : nat) : lc :=
  mkLc st (k_wr k) (k_rd k) (k_rflag k) (k_added k) (k_pidx k) (k_loop k) (k_alive k) (k_ccb k)
       (k_mapped k) (k_urefs k) (k_delayed k) (k_fin k) ups downs (k_dtors k) (k_closes k).
Definition set_own (k : lc) (cb : ccb) (m : bool) (u d : nat) : lc :=
  mkLc (k_st k) (k_wr k) (k_rd k) (k_rflag k) (k_added k) (k_pidx k) (k_loop k) (k_alive k) cb
       m u d (k_fin k) (k_ups k) (k_downs k) (k_dtors k) (k_closes k).
Definition set_rflag (k : lc) (f : bool) : lc :=
  mkLc (k_st k) (k_wr k) (k_rd k) f (k_added k) (k_pidx k) (k_loop k) (k_alive k) (k_ccb k)
       (k_mapped k) (k_urefs k) (k_delayed k) (k_fin k) (k_ups k) (k_downs k) (k_dtors k) (k_closes k).
Definition set_fin (k : lc) : lc :=
  mkLc (k_st k) (k_wr k) (k_rd k) (k_rflag k) (k_added k) (k_pidx k) (k_loop k) (k_alive k) (k_ccb k)
       (k_mapped k) (k_urefs k) (k_delayed k) true (k_ups k) (k_downs k) (k_dtors k) (k_closes k).
(* TcpConnection::shutdownInLoop *)
Definition shutdown_in_loop (k : lc) : lc := if k_wr k then k else set_fin k.
Definition kill (k : lc) : lc :=
  mkLc (k_st k) (k_wr k) (k_rd k) (k_rflag k) (k_added k) (k_pidx k) (k_loop k) false (k_ccb k)
       (k_mapped k) (k_urefs k) (k_delayed k) (k_fin k) (k_ups k) (k_downs k) (S (k_dtors k)) (S (k_closes k)).

(* ---- steps ----------------------------------------------------------------------------------- *)
Definition M := res (sys * list obs).
Definition ret (s : sys) : M := Ok (s, []).
Definition emit (s : sys) (o : list obs) : M := Ok (s, o).
Definition bind (m : M) (f : sys -> M) : M :=
  match m with
  | Ok (s, o1) => match f s with Ok (s', o2) => Ok (s', o1 ++ o2) | Rejected => Rejected | Fault => Fault end
  | Rejected => Rejected
  | Fault => Fault
  end.

Definition getc (s : sys) (c : nat) : option lc := nth_error (s_conns s) c.

(* TcpConnection::connectEstablished on thread thr *)
Definition establish (s : sys) (thr c : nat) : M :=
  match getc s c with
  | None => Fault
  | Some k =>
      if negb (k_alive k) then Fault else
      if negb (thr =? k_loop k) then Fault else                      (* assertInLoopThread *)
      if negb (cstate_eqb (k_st k) Connecting) then Fault else       (* assert(state_ == kConnecting) *)
      let k1 := set_life k Connected (S (k_ups k)) (k_downs k) in
      emit (put s c (chan_update (s_readd s) k1 (k_wr k1) true)) [OUp thr c]
  end.

(* TcpServer::removeConnectionInLoop on thread thr *)
Definition remove_in_loop (s : sys) (thr c : nat) : M :=
  if negb (s_srv s) then Fault else                                  (* raw this of a destroyed server *)
  if negb (thr =? 0) then Fault else                                 (* assertInLoopThread *)
  match getc s c with
  | None => Fault
  | Some k =>
      if negb (k_mapped k) then Fault else                           (* assert(n == 1) *)
      ret (enq (put s c (set_own k (k_ccb k) false (k_urefs k) (k_delayed k))) (k_loop k) (TDestroy c))
  end.

(* closeCallback_(guardThis) as installed by the owner *)
Definition close_cb (s : sys) (thr c : nat) : M :=
  match getc s c with
  | None => Fault
  | Some k =>
      match k_ccb k with
      | CbServer =>                                                  (* TcpServer::removeConnection *)
          (* reads loop_ of the server.  On an io thread of a destroyed server the pool is still being joined: ~TcpServer
             has not returned, the storage exists and the hop is queued (it fails when the base loop runs it); on the
             base thread a destroyed server is freed memory *)
          if negb (s_srv s) && (thr =? 0) then Fault else
          if thr =? 0 then remove_in_loop s thr c else ret (enq s 0 (TRemove c))
      | CbClient =>                                                  (* TcpClient::removeConnection *)
          if negb (s_cli s) then Fault else
          if negb (thr =? 0) then Fault else
          match s_cliconn s with
          | Some c' =>
              if negb (c' =? c) then Fault else                      (* assert(connection_ == conn) *)
              let s1 := put s c (set_own k (k_ccb k) false (k_urefs k) (k_delayed k)) in
              ret (enq (mkSys (s_nio s1) (s_readd s1) (s_conns s1) (s_loops s1) (s_rr s1) (s_srv s1) (s_cli s1)
                              None (s_calls s1) (s_dying s1) (s_stop s1)) 0 (TDestroy c))
          | None => Fault
          end
      | CbDetail => ret (enq s (k_loop k) (TDestroy c))              (* detail::removeConnection *)
      end
  end.

(* TcpConnection::handleClose on thread thr *)
Definition handle_close (s : sys) (thr c : nat) : M :=
  match getc s c with
  | None => Fault
  | Some k =>
      if negb (thr =? k_loop k) then Fault else                      (* assertInLoopThread *)
      if negb (k_closable k) then Fault else                         (* assert(kConnected || kDisconnecting) *)
      let k1 := set_life k Disconnected (k_ups k) (S (k_downs k)) in
      bind (emit (put s c (chan_update (s_readd s) k1 false false)) [ODown thr c])
           (fun s1 => close_cb s1 thr c)
  end.

(* TcpConnection::connectDestroyed on thread thr *)
Definition connect_destroyed (s : sys) (thr c : nat) : M :=
  match getc s c with
  | None => Fault
  | Some k =>
      if negb (k_alive k) then Fault else
      if negb (thr =? k_loop k) then Fault else
      let '(k1, o) :=
        if k_closable k
        then (chan_update (s_readd s) (set_life k Disconnected (k_ups k) (S (k_downs k))) false false, [ODown thr c])
        else (k, []) in
      match chan_remove k1 with
      | Ok k2 => emit (put s c k2) o
      | _ => Fault
      end
  end.

(* forceClose(): test, setState, queueInLoop - as one step (loop thread, timer callback) *)
Definition force_close (s : sys) (c : nat) : sys :=
  match getc s c with
  | None => s
  | Some k =>
      if k_closable k
      then enq (put s c (set_life k Disconnecting (k_ups k) (k_downs k))) (k_loop k) (TForceClose c)
      else s
  end.

Definition start_read (s : sys) (c : nat) : sys :=
  match getc s c with
  | None => s
  | Some k =>
      if negb (cstate_eqb (k_st k) Disconnected) && (negb (k_rflag k) || negb (k_rd k))
      then put s c (set_rflag (chan_update (s_readd s) k (k_wr k) true) true) else s
  end.
Definition stop_read (s : sys) (c : nat) : sys :=
  match getc s c with
  | None => s
  | Some k =>
      if negb (cstate_eqb (k_st k) Disconnected) && (k_rflag k || k_rd k)
      then put s c (set_rflag (chan_update (s_readd s) k (k_wr k) false) false) else s
  end.

(* sendInLoop: the kernel takes everything (full) or leaves a backlog; wc = a write-complete
   callback is installed *)
Definition send_in_loop (s : sys) (c : nat) (full wc : bool) : sys :=
  match getc s c with
  | None => s
  | Some k =>
      if cstate_eqb (k_st k) Disconnected then s else
      if k_wr k then s else
      if k_fin k then s else                                         (* EPIPE: the block is dropped *)
      if full then (if wc then enq s (k_loop k) (TUserCb c) else s)
      else put s c (chan_update (s_readd s) k true (k_rd k))
  end.

(* destruction: every live connection without a holder is destroyed, on the thread that dropped
   the last reference *)
Definition clean (k : lc) : bool :=
  cstate_eqb (k_st k) Disconnected && negb (k_added k) && negb (k_inset k).

Fixpoint sweep_from (s : sys) (thr : nat) (n c : nat) : sys * list obs :=
  match n with
  | O => (s, [])
  | S n' =>
      match getc s c with
      | None => (s, [])
      | Some k =>
          if k_alive k && (holders s c =? 0)
          then let '(s', o) := sweep_from (put s c (kill k)) thr n' (S c) in (s', ODtor thr c (clean k) :: o)
          else sweep_from s thr n' (S c)
      end
  end.
Definition sweep (s : sys) (thr : nat) : sys * list obs := sweep_from s thr (length (s_conns s)) 0.

(* ~TcpConnection asserts state_ == kDisconnected, ~Channel asserts !addedToLoop_ *)
Definition all_clean (o : list obs) : bool :=
  forallb (fun x => match x with ODtor _ _ b => b | _ => true end) o.

Definition finish (m : M) (thr : nat) : M :=
  match m with
  | Ok (s, o) => let '(s', d) := sweep s thr in if all_clean d then Ok (s', o ++ d) else Fault
  | r => r
  end.

(* ---- the op alphabet -------------------------------------------------------------------------- *)
Inductive kev :=
| KData                       (* POLLIN, bytes read: message callback *)
| KEof                        (* POLLIN, read returned 0 *)
| KRdErr                      (* POLLIN, read failed *)
| KHup                        (* POLLHUP without POLLIN *)
| KErr                        (* POLLERR *)
| KOut (drained wc : bool).   (* POLLOUT; the backlog is emptied or not; write-complete installed *)

Inductive op :=
(* owners, on the acceptor loop thread *)
| Accept                      (* Acceptor -> TcpServer::newConnection *)
| SrvDestroy                  (* ~TcpServer *)
| CliConnect                  (* Connector -> TcpClient::newConnection *)
| CliDestroy                  (* ~TcpClient on its loop thread *)
(* one loop's doPendingFunctors, functor by functor *)
| Swap (l : nat)
| Run (l : nat) (full wc : bool)
| EndBatch (l : nat)
(* poller events of connection c, on its loop *)
| Ev (c : nat) (e : kev)
| DelayFire (c : nat)         (* a forceCloseWithDelay timer fires (weak reference) *)
(* API calls on the connection's own loop thread (inside callbacks) *)
| LShutdown (c : nat) | LForceClose (c : nat) | LForceCloseDelay (c : nat)
| LSend (c : nat) (full wc : bool) | LStartRead (c : nat) | LStopRead (c : nat)
(* user references on foreign threads *)
| UGrab (c : nat)             (* weak_ptr::lock() / copy *)
| UDrop (c : nat)
(* an API call on foreign thread u, in its micro-steps *)
| XBegin (u c : nat) (a : api)   (* takes a reference, reads state_ *)
| XStore (u : nat)               (* setState(kDisconnecting) if the test had passed *)
| XEnq (u : nat) (pin : bool).   (* queueInLoop / runAfter; the call returns *)

Definition foreign_thr (u : nat) : nat := 100 + u.

Definition getl (s : sys) (l : nat) : option lq := nth_error (s_loops s) l.
(* the thread of loop l is in poll() / dispatching events (and the loop still exists) *)
Definition loop_idle (s : sys) (l : nat) : bool :=
  match getl s l with Some v => q_idle v && negb (gone s l) | None => false end.
(* H7: an io loop does not leave loop() while a connectEstablished / connectDestroyed hand-off is still in pendingFunctors_ *)
Definition no_handoff (t : task) : bool := match t with TEstablish _ | TDestroy _ => false | _ => true end.
(* (a sufficient condition of the first version, kept for the witnesses) no io loop is inside a drain *)
Definition io_idle (s : sys) : bool := forallb q_idle (tl (s_loops s)).
(* H8: a user reference to / a foreign call on a live connection of loop l is outstanding *)
Fixpoint outlived_from (s : sys) (l : nat) (cs : list lc) (c : nat) : bool :=
  match cs with
  | [] => false
  | k :: r => (k_alive k && (k_loop k =? l) && negb ((k_urefs k =? 0) && (count_calls c (s_calls s) =? 0)))
              || outlived_from s l r (S c)
  end.
Definition outlived (s : sys) (l : nat) : bool := outlived_from s l (s_conns s) 0.

Fixpoint find_call (u : nat) (l : list call) : option call :=
  match l with
  | [] => None
  | a :: r => if a_thr a =? u then Some a else find_call u r
  end.
Definition drop_call (u : nat) (l : list call) : list call := filter (fun a => negb (a_thr a =? u)) l.

Definition has_task (p : task -> bool) (s : sys) : bool :=
  existsb (fun l => existsb p (q_all l)) (s_loops s).
Definition is_remove (t : task) : bool := match t with TRemove _ => true | _ => false end.
Definition is_force (t : task) : bool := match t with TForceClose _ => true | _ => false end.

(* what the unsynchronised test at the start of an API call sees *)
Definition api_test (a : api) (k : lc) : bool :=
  match a with
  | AShutdown | ASend => cstate_eqb (k_st k) Connected
  | AForceClose | AForceCloseDelay => k_closable k
  | AStartRead | AStopRead => true
  | ADtor => false
  end.
Definition api_stores (a : api) : bool :=
  match a with AShutdown | AForceClose | AForceCloseDelay => true | _ => false end.

(* TcpServer::newConnection *)
Definition accept (s : sys) : M :=
  if negb (s_srv s) || s_dying s then Rejected else
  let io := if s_nio s =? 0 then 0 else S (s_rr s) in
  let rr := if s_nio s =? 0 then 0 else (if S (s_rr s) <? s_nio s then S (s_rr s) else 0) in
  let c := length (s_conns s) in
  let s1 := mkSys (s_nio s) (s_readd s) (s_conns s ++ [fresh io CbServer]) (s_loops s) rr (s_srv s) (s_cli s)
                  (s_cliconn s) (s_calls s) (s_dying s) (s_stop s) in
  if io =? 0 then establish s1 0 c else ret (enq s1 io (TEstablish c)).

(* ~TcpServer is a LOOP over connections_: `TcpConnectionPtr conn(item.second); item.second.reset();
   conn->getLoop()->runInLoop(bind(connectDestroyed, conn))`.  Each iteration is a step of its own (the wakeup() of one
   hand-off lets the io thread swap a batch before the next hand-off is queued).  The entry the next iteration visits: the
   first live connection the map still holds (map order = order of creation for fewer than ten connections) *)
Definition is_entry (k : lc) : bool := match k_ccb k with CbServer => k_mapped k && k_alive k | _ => false end.
Fixpoint next_entry (cs : list lc) (c : nat) : option nat :=
  match cs with
  | [] => None
  | k :: r => if is_entry k then Some c else next_entry r (S c)
  end.
(* one iteration: the entry is reset, connectDestroyed runs inline (base loop) or is queued on the io loop *)
Definition srv_hand (s : sys) (c : nat) : M :=
  match getc s c with
  | None => Fault
  | Some k =>
      let s1 := put s c (set_own k (k_ccb k) false (k_urefs k) (k_delayed k)) in
      if k_loop k =? 0 then connect_destroyed s1 0 c else ret (enq s1 (k_loop k) (TDestroy c))
  end.

Definition set_srv (s : sys) (b : bool) : sys :=
  mkSys (s_nio s) (s_readd s) (s_conns s) (s_loops s) (s_rr s) b (s_cli s) (s_cliconn s) (s_calls s) (s_dying s) (s_stop s).
Definition set_cli (s : sys) (b : bool) (cc : option nat) : sys :=
  mkSys (s_nio s) (s_readd s) (s_conns s) (s_loops s) (s_rr s) (s_srv s) b cc (s_calls s) (s_dying s) (s_stop s).

Definition cli_connect (s : sys) : M :=
  if negb (s_cli s) then Rejected else
  match s_cliconn s with
  | Some _ => Rejected
  | None =>
      let c := length (s_conns s) in
      let s1 := mkSys (s_nio s) (s_readd s) (s_conns s ++ [fresh 0 CbClient]) (s_loops s) (s_rr s) (s_srv s) (s_cli s)
                      (Some c) (s_calls s) (s_dying s) (s_stop s) in
      establish s1 0 c
  end.

(* ~TcpClient on the loop thread: unique test, setCloseCallback(detail::removeConnection),
   forceClose() if unique, then the member connection_ goes away *)
Definition cli_destroy (strict : bool) (s : sys) : M :=
  if negb (s_cli s) then Rejected else
  match s_cliconn s with
  | None => ret (enq (set_cli s false None) 0 TOther)   (* connector_->stop() queues stopInLoop *)
  | Some c =>
      match getc s c with
      | None => Fault
      | Some k =>
          let unique := holders s c =? 1 in
          if strict && negb unique && negb (holders s c =? 1 + k_urefs k) then Rejected else
          let s1 := put s c (set_own k CbDetail (k_mapped k) (k_urefs k) (k_delayed k)) in
          let s2 := if unique then force_close s1 c else s1 in
          match getc s2 c with
          | None => Fault
          | Some k2 => ret (set_cli (put s2 c (set_own k2 (k_ccb k2) false (k_urefs k2) (k_delayed k2))) false None)
          end
      end
  end.

Definition run_task (s : sys) (l : nat) (t : task) (full wc : bool) : M :=
  let live c := match getc s c with Some k => k_alive k | None => false end in
  match t with
  | TEstablish c => establish s l c
  | TRemove c => remove_in_loop s l c
  | TDestroy c => connect_destroyed s l c
  | TForceClose c =>
      match getc s c with
      | Some k => if k_closable k then handle_close s l c else ret s
      | None => Fault
      end
  | TUserCb _ => ret s
  | TShutdown c _ =>                                                 (* raw this: use after free when dead *)
      match getc s c with
      | Some k => if k_alive k then ret (put s c (shutdown_in_loop k)) else Fault
      | None => Fault
      end
  | TStartRead c _ => if live c then ret (start_read s c) else Fault
  | TStopRead c _ => if live c then ret (stop_read s c) else Fault
  | TSend c _ => if live c then ret (send_in_loop s c full wc) else Fault
  | TAddTimer c =>
      match getc s c with
      | Some k => ret (put s c (set_own k (k_ccb k) (k_mapped k) (k_urefs k) (S (k_delayed k))))
      | None => Fault
      end
  | TOther => ret s
  | TSetCb c =>
      match getc s c with
      | Some k => if k_alive k then ret (put s c (set_own k CbDetail (k_mapped k) (k_urefs k) (k_delayed k))) else Fault
      | None => Fault
      end
  end.

Definition ev_step (strict : bool) (s : sys) (c : nat) (e : kev) : M :=
  match getc s c with
  | None => Rejected
  | Some k =>
      if negb (k_alive k && k_added k && k_inset k && loop_idle s (k_loop k)) then Rejected else
      let thr := k_loop k in
      (* the owner is gone, or - a server connection - ~TcpServer has already handed its connectDestroyed over *)
      let orphan := match k_ccb k with CbServer => negb (s_srv s) || negb (k_mapped k) | CbClient => negb (s_cli s) | CbDetail => false end in
      match e with
      | KData => if k_rd k then emit s [OMsg thr c] else Rejected
      | KEof => if k_rd k then (if strict && orphan then Rejected else handle_close s thr c) else Rejected
      | KRdErr => if k_rd k then ret s else Rejected
      | KHup => if strict && ((s_readd s && k_none k) || orphan) then Rejected else handle_close s thr c
      | KErr => ret s
      | KOut drained wc =>
          if k_wr k then
            if drained then
              let k1 := chan_update (s_readd s) k false (k_rd k) in
              let s1 := put s c (if cstate_eqb (k_st k) Disconnecting then shutdown_in_loop k1 else k1) in
              ret (if wc then enq s1 thr (TUserCb c) else s1)
            else ret s
          else Rejected
      end
  end.

Definition on_conn (s : sys) (c : nat) (f : lc -> M) : M :=
  match getc s c with
  | Some k => if k_alive k && negb (cstate_eqb (k_st k) Connecting) then f k else Rejected
  | None => Rejected
  end.
(* an API call made on the connection's own loop thread (inside a callback): that thread must still exist *)
Definition on_lconn (s : sys) (c : nat) (f : lc -> M) : M :=
  on_conn s c (fun k => if gone s (k_loop k) then Rejected else f k).

Definition step (strict : bool) (s : sys) (o : op) : M :=
  match o with
  | Accept => finish (accept s) 0
  | SrvDestroy =>
      if negb (s_srv s) then Rejected else
      if strict && (has_task is_remove s || has_task is_force s) then Rejected else            (* H2, at every step of ~TcpServer *)
      match next_entry (s_conns s) 0 with
      | Some c => finish (srv_hand (set_dying s true) c) 0                                     (* one iteration of the body *)
      | None =>
          (* the body is over, the members die: threadPool_ -> ~EventLoopThread of io loop 1: loop_->quit(); thread_.join() *)
          finish (ret (set_stop (set_dying (set_srv s false) false) (if s_nio s =? 0 then 0 else 1))) 0
      end
  | CliConnect => finish (cli_connect s) 0
  | CliDestroy => finish (cli_destroy strict s) 0
  | Swap l =>
      match getl s l with
      | Some v => if q_idle v && negb (gone s l)
                  then ret (set_loops s (upd (s_loops s) l (mkLq [] (q_pend v) [] true))) else Rejected
      | None => Rejected
      end
  | Run l full wc =>
      match getl s l with
      | Some v =>
          match q_batch v with
          | t :: rest =>
              finish (run_task (set_loops s (upd (s_loops s) l (mkLq (q_pend v) rest (q_spent v ++ [t]) (q_drain v)))) l t full wc) l
          | [] => Rejected
          end
      | None => Rejected
      end
  | EndBatch l =>
      match getl s l with
      | Some v =>
          match q_batch v with
          | [] =>
              if negb (q_drain v) then Rejected else
              if quitting s l then
                (* `while (!quit_)` fails: loop() returns, the EventLoop on the io thread's stack is destroyed and with it the
                   functors of the batch AND whatever is still in pendingFunctors_ - there is no drain after the while loop
                   (their bound shared_ptrs die on this thread); join() returns and the next io loop is told to quit *)
                if strict && negb (forallb no_handoff (q_pend v)) then Rejected else            (* H7 *)
                if strict && outlived s l then Rejected else                                   (* H8 *)
                finish (ret (set_stop (set_loops s (upd (s_loops s) l (mkLq [] [] [] false))) (S l))) l
              else finish (ret (set_loops s (upd (s_loops s) l (mkLq (q_pend v) [] [] false)))) l
          | _ :: _ => Rejected
          end
      | None => Rejected
      end
  | Ev c e => match getc s c with Some k => finish (ev_step strict s c e) (k_loop k) | None => Rejected end
  | DelayFire c =>
      match getc s c with
      | Some k =>
          match k_delayed k with
          | O => Rejected
          | S n =>
              if negb (loop_idle s (k_loop k)) then Rejected else
              let s1 := put s c (set_own k (k_ccb k) (k_mapped k) (k_urefs k) n) in
              finish (ret (if k_alive k then force_close s1 c else s1)) (k_loop k)
          end
      | None => Rejected
      end
  | LShutdown c =>
      on_lconn s c (fun k => ret (if cstate_eqb (k_st k) Connected
                                 then put s c (shutdown_in_loop (set_life k Disconnecting (k_ups k) (k_downs k))) else s))
  | LForceClose c => on_lconn s c (fun _ => ret (force_close s c))
  | LForceCloseDelay c =>
      on_lconn s c (fun k => ret (if k_closable k
                                 then put s c (set_own (set_life k Disconnecting (k_ups k) (k_downs k))
                                                       (k_ccb k) (k_mapped k) (k_urefs k) (S (k_delayed k)))
                                 else s))
  | LSend c full wc =>
      on_lconn s c (fun k => ret (if cstate_eqb (k_st k) Connected then send_in_loop s c full wc else s))
  | LStartRead c => on_lconn s c (fun k => if k_added k then ret (start_read s c) else Rejected)
  | LStopRead c => on_lconn s c (fun k => if k_added k then ret (stop_read s c) else Rejected)
  | UGrab c =>
      on_conn s c (fun k => ret (put s c (set_own k (k_ccb k) (k_mapped k) (S (k_urefs k)) (k_delayed k))))
  | UDrop c =>
      match getc s c with
      | Some k =>
          match k_urefs k with
          | O => Rejected
          | S n =>
              if strict && (n =? 0) && negb (k_mapped k) && k_closable k
                 && match k_ccb k with CbDetail => true | _ => false end
              then Rejected           (* the last user reference to a connection that outlived its TcpClient and is still up *)
              else finish (ret (put s c (set_own k (k_ccb k) (k_mapped k) n (k_delayed k)))) (foreign_thr 0)
          end
      | None => Rejected
      end
  | XBegin u c a =>
      if strict && is_dtor a then Rejected else            (* H6: a TcpClient is destroyed on its loop thread (F-13) *)
      match find_call u (s_calls s) with
      | Some _ => Rejected
      | None =>
          if is_dtor a
          then (* ~TcpClient, under its mutex: unique = connection_.unique(); conn = connection_ *)
               if s_cli s && match s_cliconn s with Some c' => c' =? c | None => false end
               then (* two references from here on: the local copy and the setCloseCallback functor, which is bound before
                       runInLoop is entered (the step ends in front of the queue's lock); XStore turns one into the queued task *)
                    on_conn s c (fun k => ret (set_calls s (s_calls s ++ [mkCall u c a (holders s c =? 1) false; mkCall u c a (holders s c =? 1) false])))
               else Rejected
          else on_conn s c (fun k => ret (set_calls s (s_calls s ++ [mkCall u c a (api_test a k) (negb (api_stores a))])))
      end
  | XStore u =>
      match find_call u (s_calls s) with
      | Some a =>
          if a_stored a then Rejected else
          match getc s (a_conn a) with
          | Some k =>
              if is_dtor (a_api a) then
                (* runInLoop(setCloseCallback(conn, detail::removeConnection)) from the foreign thread; forceClose() if unique *)
                let s1 := set_calls s (drop_call u (s_calls s) ++ [mkCall u (a_conn a) (a_api a) (a_loaded a) true]) in
                let s2 := enq s1 (k_loop k) (TSetCb (a_conn a)) in
                ret (if a_loaded a then force_close s2 (a_conn a) else s2)
              else
              (* H3: the store does not overwrite kDisconnected (a close came between the state test and the store: F-19).
                 Weaker than Conn_Race.set_ok, which also refuses the benign case of a second foreign shutdown() whose
                 store finds the kDisconnecting of the first *)
              if strict && a_loaded a && cstate_eqb (k_st k) Disconnected then Rejected else
              let s1 := set_calls s (drop_call u (s_calls s) ++ [mkCall u (a_conn a) (a_api a) (a_loaded a) true]) in
              ret (if a_loaded a && api_stores (a_api a)
                   then put s1 (a_conn a) (set_life k Disconnecting (k_ups k) (k_downs k)) else s1)
          | None => Fault
          end
      | None => Rejected
      end
  | XEnq u pin =>
      match find_call u (s_calls s) with
      | Some a =>
          if negb (a_stored a) then Rejected else
          let c := a_conn a in
          match getc s c with
          | Some k =>
              if is_dtor (a_api a) then
                (* the members of the TcpClient die: connection_ and the local copy are released *)
                let s1 := set_calls s (drop_call u (s_calls s)) in
                finish (ret (set_cli (put s1 c (set_own k (k_ccb k) false (k_urefs k) (k_delayed k))) false None)) (foreign_thr u)
              else
              let raw := match a_api a with AForceClose | AForceCloseDelay => false | _ => true end in
              if strict && raw && a_loaded a && negb pin then Rejected else                 (* H1 *)
              (* queueInLoop / runAfter on an EventLoop that the pool's tear-down has destroyed *)
              if a_loaded a && gone s (k_loop k) then (if strict then Rejected else Fault) else (* H8 *)
              let s1 := set_calls s (drop_call u (s_calls s)) in
              let s2 :=
                if a_loaded a then
                  match a_api a with
                  | AShutdown => enq s1 (k_loop k) (TShutdown c pin)
                  | AForceClose => enq s1 (k_loop k) (TForceClose c)
                  | AForceCloseDelay => enq s1 (k_loop k) (TAddTimer c)
                  | ASend => enq s1 (k_loop k) (TSend c pin)
                  | AStartRead => enq s1 (k_loop k) (TStartRead c pin)
                  | AStopRead => enq s1 (k_loop k) (TStopRead c pin)
                  | ADtor => s1
                  end
                else s1 in
              finish (ret s2) (foreign_thr u)
          | None => Fault
          end
      | None => Rejected
      end
  end.

Fixpoint run (strict : bool) (s : sys) (ops : list op) : M :=
  match ops with
  | [] => ret s
  | o :: rest => bind (step strict s o) (fun s1 => run strict s1 rest)
  end.
