(* C16_NamesModel: the time stamp of LogFile::getLogFileName, concretely.
     strftime(timebuf, sizeof timebuf, ".%Y%m%d-%H%M%S.", gmtime_r(&now))
   gmtime_r is C20's [break_utc] (= the regenerated Date/TimeZone code, proved equal to the POSIX formula and
   compared with glibc by C20's harness); %Y of a four-digit year and %m %d %H %M %S are fixed-width decimal
   fields ([pad] of C20_Model).  No proofs here. *)
From Coq Require Import List ZArith Bool.
From Coq.Strings Require Import Byte.
From Muduo Require Import Base_Bytes Gen_C20 C20_Model C16_Model.
Import ListNotations.
Local Open Scope Z_scope.

Definition byte_lt (a b : byte) : Prop := Z_of_byte a < Z_of_byte b.

Definition stamp (t : Z) : list byte :=
  let dt := break_utc t in
  [ch_dot] ++ pad 4 (year dt) ++ pad 2 (month dt) ++ pad 2 (day dt) ++ [ch_minus] ++
  pad 2 (hour dt) ++ pad 2 (minute dt) ++ pad 2 (second dt) ++ [ch_dot].

(* basename ++ stamp ++ hostname ++ ".<pid>.log" *)
Definition log_file_name (base host pidlog : list byte) (now : Z) : list byte :=
  fname byte stamp base host pidlog now.

(* runner: the stamp as text *)
Definition xstamp (t : Z) : list byte := stamp t.
