(* Properties_C05: quit() always ends the loop; loop threads and pools start, serve, join cleanly.
   Models: C04_Model (LoopModel: the quit flag, the wake-up descriptor, loop() with re-entry),
   C05_Model (EventLoopThread over the LoopModel; EventLoopThreadPool selection functions).
   `reach` = every schedule of every number of foreign threads with arbitrary programs and scripts,
   WITHOUT poll time-outs (a state only a time-out could leave is stuck); `reach_t` allows them;
   `ereach` = every schedule of owner and child of an EventLoopThread, spurious wake-ups of the
   condition variable included, no poll time-outs.
   Generated from the current /repo on every run: Gen_C04.gen_shape (wake-up tests of queueInLoop
   and quit, where loop() resets quit_), Gen_C05.gen_eshape (EventLoopThread.cc), Gen_C05.gen_get_next
   / gen_get_hash (EventLoopThreadPool.cc, symbolically executed). *)
From Coq Require Import List Bool Arith ZArith Lia.
Import ListNotations.
From Muduo Require Import C04_Model C04_Proofs C05_Model C05_Proofs C05_Termination C05_PoolProofs C05_EltProofs C05_PoolSysModel C05_PoolSysProofs Gen_C04 Gen_C05 C05_GenRun C05_GenLink.

(* ------------------------------------------------------------ the tie to the source (Gen = Model) *)
(* EventLoop::quit() wakes the loop when called from another thread *)
Theorem C05_gen_quit_wakes : qwake_ok Gen_C04.gen_shape = true.
Proof. vm_compute. reflexivity. Qed.
Print Assumptions C05_gen_quit_wakes.

(* both translators recognised the current source (otherwise Gen_C05 holds fall-back definitions) *)
Theorem C05_gen_translated : gen_pool_translated = true /\ gen_elt_translated = true.
Proof. split; reflexivity. Qed.
Print Assumptions C05_gen_translated.

(* getNextLoop / getLoopForHash of the current source -- executed with C integer semantics: the
   cursor is an int (two's complement wrap-around), conversions to size_t are mod 2^64 -- are the
   model's functions on every state the pool can be in: pool size N <= INT_MAX, cursor < N (or N = 0),
   hash codes <= SIZE_MAX; hence for every call sequence *)
Theorem C05_gen_pool_is_model :
  (forall n next : nat, (Z.of_nat n <= int_max)%Z -> (n = 0 \/ next < n) ->
     gen_get_next (Z.of_nat n) (Z.of_nat next) =
       (zo (fst (get_next pinned_pshape n next)), Z.of_nat (snd (get_next pinned_pshape n next)))) /\
  (forall (n h : nat) (next : Z), (Z.of_nat h <= size_max)%Z ->
     gen_get_hash (Z.of_nat n) next (Z.of_nat h) = (zo (get_hash pinned_pshape n h), next)) /\
  (forall n ops next, (Z.of_nat n <= int_max)%Z -> (n = 0 \/ next < n) -> hashes_ok ops ->
     gen_pool_run (Z.of_nat n) (Z.of_nat next) ops = zres (pool_run pinned_pshape n next ops)).
Proof. exact (conj gen_next_is_model (conj gen_hash_is_model gen_pool_run_is_model)). Qed.
Print Assumptions C05_gen_pool_is_model.

(* EventLoopThread.cc: notify after publishing under the mutex, wait in a while, quit then join,
   loop_ cleared under the mutex when loop() has returned *)
Theorem C05_gen_thread_is_model : gen_eshape = pinned_eshape.
Proof. exact gen_eshape_is_model. Qed.
Print Assumptions C05_gen_thread_is_model.

(* ------------------------------------------------------------ quit() ends the loop *)
(* every shape whose quit() wakes from a foreign thread; every reachable state (no time-outs) in
   which quit_ is set: the state is not one that only the poll time-out could leave -- if the loop
   thread is in poll, the wake-up descriptor is readable or a foreign thread is between its store of
   quit_ and its wakeup() *)
Theorem C05_quit_ends_loop : forall sh scr prefix later progs s,
  qwake_ok sh = true ->
  reach sh scr (init prefix later progs) s -> quit (sg s) = true ->
  quiescent s = false /\ (pc s = LPoll -> 0 < evfd (sg s) \/ midquit s = true).
Proof. exact quit_ends_loop. Qed.
Print Assumptions C05_quit_ends_loop.

(* the ORDER of the two halves of quit() matters.  `step` (all theorems here) is store-then-wake =
   `step_o true`; with the wake-up first and the store last (`step_o false`) quit() can be late: REFUTED by
   a ten-step witness for every shape whose quit() wakes from a foreign thread: the loop thread consumes
   the wake-up, re-tests quit_ (still clear), blocks in the next poll; then quit_ is stored: every thread
   blocked, quit_ set, only the poll time-out ends loop() *)
Theorem C05_store_first_is_step : forall sh scr s lab, step_o true sh scr s lab = step sh scr s lab.
Proof. exact step_o_true. Qed.
Print Assumptions C05_store_first_is_step.

Theorem C05_quit_ends_loop_wake_first_refuted : forall sh scr, qwake sh false = true ->
  exists s, run_o false sh scr (init [] [] [[AQuit]]) wake_first_labels = Some s /\
            quit (sg s) = true /\ quit_called (log (sg s)) = true /\ returned (log (sg s)) = false /\
            quiescent s = true /\ looping (sg s) = true.
Proof. exact wake_first_witness. Qed.
Print Assumptions C05_quit_ends_loop_wake_first_refuted.

(* the CURRENT tree: decided by the generated fact quit_stores_before_wakeup *)
Definition C05_current_tree_quits_late : bool := negb Gen_C04.quit_stores_before_wakeup.
Theorem C05_quit_order_current_tree :
  if Gen_C04.quit_stores_before_wakeup
  then (forall s lab, step_o Gen_C04.quit_stores_before_wakeup Gen_C04.gen_shape no_scripts s lab = step Gen_C04.gen_shape no_scripts s lab) /\
       (forall scr prefix later progs s, reach Gen_C04.gen_shape scr (init prefix later progs) s -> quit (sg s) = true ->
          quiescent s = false /\ (pc s = LPoll -> 0 < evfd (sg s) \/ midquit s = true))
  else exists s, run_o false Gen_C04.gen_shape no_scripts (init [] [] [[AQuit]]) wake_first_labels = Some s /\
         quit (sg s) = true /\ quit_called (log (sg s)) = true /\ returned (log (sg s)) = false /\
         quiescent s = true /\ looping (sg s) = true.
Proof.
  destruct Gen_C04.quit_stores_before_wakeup eqn:E.
  - split; [intros; apply step_o_true|]. intros scr prefix later progs s R Q.
    exact (quit_ends_loop _ _ _ _ _ _ C05_gen_quit_wakes R Q).
  - apply wake_first_witness. exact C05_gen_quit_wakes.
Qed.
Print Assumptions C05_quit_order_current_tree.
Eval vm_compute in (C05_current_tree_quits_late, 505).   (* parsed by lib/props/C05.py *)

(* "once the current iteration is finished": any step (of any thread, time-outs included) from a
   state with quit_ set and the loop thread inside the while loop leaves the loop, or stays inside
   with quit_ still set and the loop thread no further from the while test than before: it never
   begins another iteration; at the while test it leaves *)
Theorem C05_no_new_iteration : forall sh scr s lab s',
  step sh scr s lab = Some s' -> quit (sg s) = true -> active (pc s) = true ->
  pc s' = LExit \/ (active (pc s') = true /\ quit (sg s') = true /\ rank (pc s') <= rank (pc s)).
Proof. exact no_new_iteration. Qed.
Print Assumptions C05_no_new_iteration.

(* and the loop thread is never blocked inside the while loop, except in a poll with nothing ready *)
Theorem C05_loop_thread_progress : forall sh scr s, active (pc s) = true ->
  (pc s = LPoll -> poll_ready (sg s) = true) ->
  exists lab s', (lab = TLoop \/ lab = TRead) /\ step sh scr s lab = Some s'.
Proof. exact loop_thread_progress. Qed.
Print Assumptions C05_loop_thread_progress.

(* BOUNDED TERMINATION.  User code terminates = there is a finite cost assignment for the functor /
   callback scripts (wr t: task t run by the drain, where what it queues is not run in this
   iteration -- a task may re-queue itself; wh t: script t run from an I/O or timer callback, where
   what it queues is run by this iteration's drain; inline runInLoop() chains must be finite).  Then,
   from any state with quit_ set and the loop thread inside the while loop (in poll: something ready,
   which C05_quit_ends_loop guarantees once the foreign wake-up is written), for every shape:
   every run of the loop thread inside the loop has at most M s steps, and the loop thread reaches
   the exit of the while loop on its own -- "loop() returns once the current iteration is finished" *)
Theorem C05_quit_returns_bounded : forall sh scr wr wh, costs_ok scr wr wh -> forall s,
  quit (sg s) = true -> active (pc s) = true -> (pc s = LPoll -> poll_ready (sg s) = true) ->
  (forall n s', lrun sh scr n s s' -> n <= M wr wh s) /\
  (exists n s', lrun sh scr n s s' /\ pc s' = LExit /\ fcode s' = fcode s).
Proof. exact quit_returns_bounded. Qed.
Print Assumptions C05_quit_returns_bounded.

(* loop() leaves its while loop / returns only after quit() was called *)
Theorem C05_returns_only_after_quit : forall sh scr prefix later progs s,
  reach_t sh scr (init prefix later progs) s ->
  (quit (sg s) = true -> quit_called (log (sg s)) = true) /\
  (pc s = LExit \/ returned (log (sg s)) = true -> quit_called (log (sg s)) = true).
Proof. exact J1_reach. Qed.
Print Assumptions C05_returns_only_after_quit.

(* ------------------------------------------------------------ a quit() is never lost *)
(* every shape that does not clear quit_ on entry of loop() (reset on exit, or no reset): a quit()
   issued at ANY moment -- before loop() is entered, between two calls of loop(), in any phase of
   an iteration, from any thread or callback -- since loop() last returned keeps quit_ set; so the
   running (or next) call of loop() is not stuck, starts no new iteration and returns *)
Theorem C05_quit_not_lost : forall sh scr prefix later progs s,
  resets_on_entry sh = false -> qwake_ok sh = true ->
  reach sh scr (init prefix later progs) s -> quit_since_ret (log (sg s)) = true ->
  quit (sg s) = true /\ quiescent s = false /\
  (pc s = LTest -> exists s', step sh scr s TLoop = Some s' /\ pc s' = LExit).
Proof. exact quit_not_lost. Qed.
Print Assumptions C05_quit_not_lost.

(* REFUTED for every shape that clears quit_ on entry (the pinned tree, finding F-3): quit() on the
   loop's own thread, then loop(): quit_ is cleared, the loop sits in a poll that only the time-out
   can end although quit() was called and loop() has not returned since *)
Theorem C05_quit_not_lost_refuted : forall sh scr, resets_on_entry sh = true ->
  exists s, reach sh scr (init [AQuit] [] []) s /\
            quit_since_ret (log (sg s)) = true /\ quiescent s = true /\ quit (sg s) = false /\
            looping (sg s) = true.
Proof. exact lost_witness. Qed.
Print Assumptions C05_quit_not_lost_refuted.

(* what holds of the CURRENT tree: decided by the generated reset mode *)
Definition C05_current_tree_has_F3 : bool := resets_on_entry Gen_C04.gen_shape.
Theorem C05_quit_current_tree :
  if resets_on_entry Gen_C04.gen_shape
  then exists s, reach Gen_C04.gen_shape (fun _ => []) (init [AQuit] [] []) s /\
         quit_since_ret (log (sg s)) = true /\ quiescent s = true /\ quit (sg s) = false /\ looping (sg s) = true
  else forall scr prefix later progs s,
         reach Gen_C04.gen_shape scr (init prefix later progs) s -> quit_since_ret (log (sg s)) = true ->
         quit (sg s) = true /\ quiescent s = false /\
         (pc s = LTest -> exists s', step Gen_C04.gen_shape scr s TLoop = Some s' /\ pc s' = LExit).
Proof.
  destruct (resets_on_entry Gen_C04.gen_shape) eqn:E.
  - apply lost_witness. exact E.
  - intros scr prefix later progs s R QS.
    exact (C05_quit_not_lost _ _ _ _ _ _ E C05_gen_quit_wakes R QS).
Qed.
Print Assumptions C05_quit_current_tree.
Eval vm_compute in (C05_current_tree_has_F3, 503).   (* parsed by lib/props/C05.py *)

(* ------------------------------------------------------------ EventLoopThread::startLoop() *)
(* every schedule, spurious wake-ups included, any thread-init callback and user code: the value
   startLoop() returns is non-null; when it is taken (under the mutex) the loop exists, is published
   by -- and runs on -- the child; while nobody has ended the loop an owner that waits unsignalled
   still has a child that will publish and notify (no lost notification); and during start-up
   some thread can always step (no deadlock) *)
Theorem C05_startloop_handshake : forall es sh scr cb uacts e,
  ereach es sh scr (einit cb uacts) e -> tf_clears es = true -> sl_while es = true ->
  (forall b, got e = Some b -> b = true) /\
  (eo e = OUnlock -> ptr e = true /\ alive e = true) /\
  (tf_notifies es = true -> returned (log (sg (ls e))) = false ->
   eo e = OWait -> signalled e = false -> c_pre (ec e) = true) /\
  (tf_notifies es = true -> returned (log (sg (ls e))) = false -> o_startup (eo e) = true ->
   exists lab e', (lab = EO \/ lab = EC) /\ estep es sh scr e lab = Some e').
Proof. exact startloop_handshake. Qed.
Print Assumptions C05_startloop_handshake.

(* the returned loop accepts tasks: while nobody has quit the loop, user code runs on a live loop *)
Theorem C05_started_loop_alive : forall es sh scr cb uacts e,
  ereach es sh scr (einit cb uacts) e -> tf_clears es = true -> sl_while es = true ->
  o_returned (eo e) = true -> quit_called (log (sg (ls e))) = false -> alive e = true.
Proof. exact alive_while_unquit. Qed.
Print Assumptions C05_started_loop_alive.

(* ------------------------------------------------------------ ~EventLoopThread terminates *)
(* shapes that do not clear quit_ on entry, destructor = quit + join: in every reachable state the
   destructor can step, or it waits in join() and the child can step (never stuck in a poll that
   only the time-out could end), or the child has exited and join() returns *)
Theorem C05_thread_dtor_terminates : forall es sh scr cb uacts e,
  ereach es sh scr (einit cb uacts) e -> tf_clears es = true ->
  resets_on_entry sh = false -> qwake_ok sh = true -> dtor_quits es = true ->
  (eo e = ODtor \/ eo e = OQuit -> exists e', estep es sh scr e EO = Some e') /\
  (eo e = OJoin -> ec e = CExited -> exists e', estep es sh scr e EO = Some e' /\ eo e' = ODone) /\
  (eo e = OJoin -> ec e <> CExited ->
   exists lab e', (lab = EC \/ lab = ECRead) /\ estep es sh scr e lab = Some e').
Proof. exact dtor_terminates. Qed.
Print Assumptions C05_thread_dtor_terminates.

(* REFUTED for the pinned tree and for the tree with only F-2 repaired (reset on entry, F-3): the
   destructor right after startLoop(): its quit() lands before the child executes the reset; the
   owner waits in join(), the child in poll, no thread can step *)
Theorem C05_thread_dtor_terminates_refuted :
  (exists e, ereach pinned_eshape pinned_shape no_scripts (einit [] []) e /\ eo e = OJoin /\ ec e = CLoop /\
             quit_called (log (sg (ls e))) = true /\ (forall lab, estep pinned_eshape pinned_shape no_scripts e lab = None)) /\
  (exists e, ereach pinned_eshape repaired_F2_shape no_scripts (einit [] []) e /\ eo e = OJoin /\ ec e = CLoop /\
             quit_called (log (sg (ls e))) = true /\
             (forall lab, estep pinned_eshape repaired_F2_shape no_scripts e lab = None)).
Proof. exact (conj dtor_hang_witness_pinned dtor_hang_witness_F2). Qed.
Print Assumptions C05_thread_dtor_terminates_refuted.

Theorem C05_thread_dtor_current_tree :
  if resets_on_entry Gen_C04.gen_shape
  then exists e, ereach gen_eshape Gen_C04.gen_shape no_scripts (einit [] []) e /\ eo e = OJoin /\ ec e = CLoop /\
         quit_called (log (sg (ls e))) = true /\ (forall lab, estep gen_eshape Gen_C04.gen_shape no_scripts e lab = None)
  else forall scr cb uacts e, ereach gen_eshape Gen_C04.gen_shape scr (einit cb uacts) e ->
         (eo e = ODtor \/ eo e = OQuit -> exists e', estep gen_eshape Gen_C04.gen_shape scr e EO = Some e') /\
         (eo e = OJoin -> ec e = CExited -> exists e', estep gen_eshape Gen_C04.gen_shape scr e EO = Some e' /\ eo e' = ODone) /\
         (eo e = OJoin -> ec e <> CExited ->
          exists lab e', (lab = EC \/ lab = ECRead) /\ estep gen_eshape Gen_C04.gen_shape scr e lab = Some e').
Proof.
  destruct (resets_on_entry Gen_C04.gen_shape) eqn:E.
  - first [ vm_compute in E; discriminate E | hang_witness hang_labels_wake | hang_witness hang_labels_nowake ].
  - intros scr cb uacts e R.
    apply (dtor_terminates _ _ _ _ _ _ R); try (rewrite C05_gen_thread_is_model; reflexivity);
      [exact E|exact C05_gen_quit_wakes].
Qed.
Print Assumptions C05_thread_dtor_current_tree.

(* ------------------------------------------------------------ F-4: a destroyed loop is touched *)
(* REFUTED (finding F-4, the tree as repaired for F-2/F-3): ~EventLoopThread's quit() stores quit_;
   the child -- about to enter loop() -- sees it at once, leaves loop(), clears loop_ and destroys
   the stack EventLoop; quit() then continues with isInLoopThread() / wakeup() on the destroyed
   object.  23 steps, no task, no time-out. *)
Theorem C05_dtor_never_touches_destroyed_loop_refuted :
  exists e, ereach pinned_eshape fixed_shape no_scripts (einit [] []) e /\ uaf_dtor e = true /\ alive e = false /\
            eo e = OQuit /\ ec e = CExited.
Proof. exact f4_witness. Qed.
Print Assumptions C05_dtor_never_touches_destroyed_loop_refuted.

(* PARTIAL: when nobody but the destructor quits the loop (no quit() in the thread-init callback,
   in the user code or in any functor / callback script): user code never touches a destroyed loop,
   the destructor's store of quit_ hits a live loop, and the only access to a destroyed loop is the
   second half of the destructor's quit() (after its store: the code of the owner's quit() is used up) *)
Theorem C05_dtor_touches_destroyed_loop_partial : forall es sh scr cb uacts e,
  (forall t, qfree_acts (scr t) = true) -> qfree_acts cb = true -> qfree_acts uacts = true ->
  tf_clears es = true -> sl_while es = true ->
  ereach es sh scr (einit cb uacts) e ->
  uaf_user e = false /\ (uaf_dtor e = true -> fcode_at (ls e) 1 = []).
Proof. exact uaf_only_in_quit_wakeup. Qed.
Print Assumptions C05_dtor_touches_destroyed_loop_partial.

(* a destructor that starts after the loop is gone (somebody else quit the loop, the thread function
   has returned): threadFunc has cleared loop_ under the mutex, so the destructor finds NULL and
   touches nothing -- for every schedule *)
Theorem C05_dtor_skips_destroyed_loop : forall es sh scr cb uacts e,
  ereach es sh scr (einit cb uacts) e -> tf_clears es = true -> sl_while es = true ->
  eo e = ODtor -> alive e = false ->
  ptr e = false /\ estep es sh scr e EO = Some (with_eo e ODone).
Proof. exact dtor_skips_destroyed_loop. Qed.
Print Assumptions C05_dtor_skips_destroyed_loop.

(* REFUTED for a threadFunc that does not clear loop_: user quit(); the thread function returns;
   then ~EventLoopThread: loop_ is stale and the destructor's quit() stores into the destroyed loop *)
Theorem C05_dtor_skips_destroyed_loop_refuted :
  exists e0 e, ereach noclear_eshape fixed_shape no_scripts (einit [] [AQuit]) e0 /\
    eo e0 = ODtor /\ ec e0 = CExited /\ alive e0 = false /\ ptr e0 = true /\
    ereach noclear_eshape fixed_shape no_scripts (einit [] [AQuit]) e /\
    uaf_dtor e = true /\ fcode_at (ls e) 1 = [MQuitWake].
Proof. exact stale_ptr_witness. Qed.
Print Assumptions C05_dtor_skips_destroyed_loop_refuted.

(* ------------------------------------------------------------ EventLoopThreadPool *)
(* stated of gen_pool_run: ANY sequence of getNextLoop / getLoopForHash calls executed with the
   functions generated from the current EventLoopThreadPool.cc (C integer semantics); N = number of
   threads (at most INT_MAX: the cursor is an int), c = number of getNextLoop calls made before --
   ANY number, also beyond 2^31 and 2^32 (cursor = c mod N) --, hash codes are size_t values *)
Theorem C05_pool_any_sequence : forall N ops c, 0 < N -> (Z.of_nat N <= int_max)%Z -> hashes_ok ops ->
  gen_pool_run (Z.of_nat N) (Z.of_nat (c mod N)) ops = zres (pool_spec N c ops, (c + count_next ops) mod N).
Proof. exact gen_pool_any_sequence. Qed.
Print Assumptions C05_pool_any_sequence.

(* strict round-robin: the (i+1)-th of k consecutive getNextLoop calls on a fresh pool of N > 0
   threads returns loop i mod N, for all N, k, i *)
Theorem C05_round_robin : forall N k i, 0 < N -> (Z.of_nat N <= int_max)%Z -> i < k ->
  nth i (fst (gen_pool_run (Z.of_nat N) 0 (repeat PNext k))) None = Some (Z.of_nat (i mod N)).
Proof. exact gen_round_robin. Qed.
Print Assumptions C05_round_robin.

(* any N consecutive calls, from any cursor position, return N distinct loops of the pool *)
Theorem C05_round_robin_distinct : forall N c, 0 < N -> (Z.of_nat N <= int_max)%Z ->
  fst (gen_pool_run (Z.of_nat N) (Z.of_nat (c mod N)) (repeat PNext N)) =
    map (fun i => Some (Z.of_nat ((c + i) mod N))) (seq 0 N) /\
  NoDup (map (fun i => (c + i) mod N) (seq 0 N)) /\ (forall i, (c + i) mod N < N).
Proof. exact gen_round_robin_distinct. Qed.
Print Assumptions C05_round_robin_distinct.

(* equal hash codes map to the same loop, wherever the calls occur in whatever call sequences,
   and getLoopForHash never moves the round-robin cursor (C05_pool_any_sequence) *)
Theorem C05_hash_stable : forall N, 0 < N -> (Z.of_nat N <= int_max)%Z -> forall ops1 ops2 c1 c2 i1 i2 h,
  hashes_ok ops1 -> hashes_ok ops2 ->
  nth_error ops1 i1 = Some (PHash h) -> nth_error ops2 i2 = Some (PHash h) ->
  nth_error (fst (gen_pool_run (Z.of_nat N) (Z.of_nat (c1 mod N)) ops1)) i1 = Some (Some (Z.of_nat (h mod N))) /\
  nth_error (fst (gen_pool_run (Z.of_nat N) (Z.of_nat (c2 mod N)) ops2)) i2 = Some (Some (Z.of_nat (h mod N))).
Proof. exact gen_hash_stable. Qed.
Print Assumptions C05_hash_stable.

(* N = 0: every call returns the base loop (None), the cursor does not move *)
Theorem C05_empty_pool_base : forall ops next, hashes_ok ops ->
  gen_pool_run 0 (Z.of_nat next) ops = (map (fun _ => None) ops, Z.of_nat next).
Proof. exact gen_empty_pool_base. Qed.
Print Assumptions C05_empty_pool_base.

(* ------------------------------------------------------------ the pool as a system of N threads *)
(* C05_PoolSysModel: start() = N sequential startLoop()s, user code, ~EventLoopThreadPool = N sequential
   ~EventLoopThread()s, the N children running freely; `preach` = every schedule of the N+1 threads.
   Every thread of a reachable pool state is in a reachable EventLoopThread state: all theorems above
   (handshake, destructor, lifetime) hold of every thread of a pool *)
Theorem C05_pool_threads_are_threads : forall es sh scr specs p, preach es sh scr (pinit specs) p ->
  length p = length specs /\
  forall i e, nth_error p i = Some e ->
    exists spec, nth_error specs i = Some spec /\ ereach es sh scr (einit (fst spec) (snd spec)) e.
Proof. exact preach_components. Qed.
Print Assumptions C05_pool_threads_are_threads.

(* when start() has returned, loops_ holds N non-null loops, loop i published by -- and running on --
   child i (N distinct components), alive as long as nobody has quit it; and start() never dead-locks *)
Theorem C05_pool_start : forall es sh scr specs p,
  preach es sh scr (pinit specs) p -> tf_clears es = true -> sl_while es = true ->
  length p = length specs /\
  forall i e, nth_error p i = Some e -> o_past_start e = true ->
    got e = Some true /\ c_published (ec e) = true /\
    (quit_called (log (sg (ls e))) = false -> alive e = true).
Proof. exact pool_start_result. Qed.
Print Assumptions C05_pool_start.

Theorem C05_pool_start_progress : forall es sh scr specs p,
  (forall t, qfree_acts (scr t) = true) -> specs_qfree specs ->
  preach es sh scr (pinit specs) p -> tf_clears es = true -> sl_while es = true -> tf_notifies es = true ->
  pool_started p = false -> exists lab p', pstep es sh scr p lab = Some p'.
Proof. exact pool_start_progress. Qed.
Print Assumptions C05_pool_start_progress.

(* ~EventLoopThreadPool on shapes without reset-on-entry: as long as a thread is left, some thread of
   the N+1 can step (never only a poll time-out); when it has returned every thread has exited (joined)
   and its loop is gone *)
Theorem C05_pool_dtor_terminates : forall es sh scr specs p,
  preach es sh scr (pinit specs) p -> tf_clears es = true ->
  resets_on_entry sh = false -> qwake_ok sh = true -> dtor_quits es = true ->
  forallb user_done p = true -> pool_destroyed p = false ->
  exists lab p', pstep es sh scr p lab = Some p'.
Proof. exact pool_dtor_progress. Qed.
Print Assumptions C05_pool_dtor_terminates.

Theorem C05_pool_dtor_joins_all : forall es sh scr specs p,
  (forall t, qfree_acts (scr t) = true) -> specs_qfree specs ->
  tf_clears es = true -> sl_while es = true -> dtor_quits es = true -> dtor_joins es = true ->
  preach es sh scr (pinit specs) p ->
  forall i e, nth_error p i = Some e -> eo e = ODone -> ec e = CExited /\ alive e = false.
Proof. exact pool_all_joined. Qed.
Print Assumptions C05_pool_dtor_joins_all.

(* the current tree satisfies every shape hypothesis of the pool theorems *)
Theorem C05_pool_current_tree :
  tf_clears gen_eshape = true /\ sl_while gen_eshape = true /\ tf_notifies gen_eshape = true /\
  dtor_quits gen_eshape = true /\ dtor_joins gen_eshape = true /\ qwake_ok Gen_C04.gen_shape = true /\
  resets_on_entry Gen_C04.gen_shape = C05_current_tree_has_F3.
Proof. rewrite C05_gen_thread_is_model. repeat split. Qed.
Print Assumptions C05_pool_current_tree.

(* ------------------------------------------------------------ non-vacuity *)
Example C05_shapes_inhabited :
  resets_on_entry fixed_shape = false /\ resets_on_entry repaired_shape = false /\ resets_on_entry pinned_shape = true /\
  qwake_ok fixed_shape = true /\ sl_while pinned_eshape = true /\ tf_notifies pinned_eshape = true /\
  dtor_quits pinned_eshape = true /\ tf_clears pinned_eshape = true /\ tf_clears noclear_eshape = false.
Proof. vm_compute. repeat split. Qed.

(* a cost assignment exists for scripts with a self-re-queueing task and a nested inline runInLoop *)
Definition ex_cost_scr : scripts := fun t => match t with 1 => [AQueue 1; ARun 2] | 2 => [AQueue 3] | _ => [] end.
Example C05_costs_inhabited :
  costs_ok ex_cost_scr (fun t => match t with 1 => 5 | 2 => 2 | _ => 0 end)
                       (fun t => match t with 1 => 12 | 2 => 3 | _ => 0 end).
Proof. split; intros [|[|[|t]]]; cbn; lia. Qed.

(* quit() before loop() on the fixed tree: loop() returns at its first while test, quit_ is then clear *)
Example C05_example_quit_before_loop :
  exists s, run fixed_shape (fun _ => []) (init [AQuit] [] []) [TLoop; TLoop; TLoop; TLoop; TLoop] = Some s /\
            pc s = LDone /\ returned (log (sg s)) = true /\ quit (sg s) = false /\ evfd (sg s) = 0.
Proof. eexists. split; [vm_compute; reflexivity|]. vm_compute. auto. Qed.

(* a complete life of an EventLoopThread on the fixed tree: start, one task, destroy; ends with both
   threads done, nothing touched after destruction, the task executed *)
Definition ex_life : list elabel :=
  [EO; EC; EO; EC; EC; EC; EC; EC; EC; EC; EO; EO; EO; EO; EO; EC; ECRead; EC; EC; EC; EC; EC;
   EO; EO; EO; EO; EO; EC; ECRead; EC; EC; EC; EC; EC; EC; EC; EC; EC; EC; EO].
Example C05_example_thread_life :
  exists e, erun pinned_eshape fixed_shape no_scripts (einit [] [AQueue 1]) ex_life = Some e /\
            eo e = ODone /\ ec e = CExited /\ uaf_dtor e = false /\ uaf_user e = false /\
            execq (log (sg (ls e))) = [1] /\ got e = Some true.
Proof. eexists. split; [vm_compute; reflexivity|]. vm_compute. repeat split. Qed.

(* a pool of three threads on the fixed tree under a deterministic schedule: started, used, destroyed;
   every thread joined, nothing touched after destruction *)
Definition ex_pool_order : list plabel := [PO 0; PO 1; PO 2; PC 0; PCRead 0; PC 1; PCRead 1; PC 2; PCRead 2].
Example C05_example_pool_life :
  let p := pauto pinned_eshape fixed_shape no_scripts ex_pool_order 400
                 (pinit [([], [AQueue 1]); ([], []); ([], [AQueue 2; AQueue 3])]) in
  preach pinned_eshape fixed_shape no_scripts (pinit [([], [AQueue 1]); ([], []); ([], [AQueue 2; AQueue 3])]) p /\
  pool_destroyed p = true /\
  map (fun e => (ec e, got e, uaf_dtor e, uaf_user e)) p =
    [(CExited, Some true, false, false); (CExited, Some true, false, false); (CExited, Some true, false, false)].
Proof. cbv zeta. split; [apply pauto_preach; constructor|]. vm_compute. split; reflexivity. Qed.

Example C05_example_pool :
  fst (gen_pool_run 3 0 [PNext; PNext; PHash 7; PNext; PNext; PHash 7; PHash 9]) =
    [Some 0; Some 1; Some 1; Some 2; Some 0; Some 1; Some 0]%Z /\
  fst (gen_pool_run 0 0 [PNext; PHash 5]) = [None; None].
Proof. vm_compute. split; reflexivity. Qed.
