(* C04_Model: LoopModel (DESIGN Appendix B.2) -- muduo::net::EventLoop's task queue, wake-up
   descriptor and quit flag as a labelled transition system over micro-steps.  Executable, total,
   no proofs.  Shared by C04 (tasks) and C05 (quit).

   The three places where the pinned source and its candidate repairs differ are parameters
   (`shape`); lib/gen_C04.py regenerates the shape of the *current* /repo into Gen_C04.v:
     wake  il calling looping : the test in EventLoop::queueInLoop that guards wakeup()
                                (il = isInLoopThread());
     resets                   : where EventLoop::loop() assigns quit_ = false: before its while
                                loop (ResetEntry, the pinned tree), after it (ResetExit, the tree
                                since the repair of F-3) or nowhere (ResetNone);
     qwake il                 : the test in EventLoop::quit() that guards wakeup().

   loop() may be called again after it returned: the loop thread's program is
   prefix; loop(); seg1; loop(); seg2; loop(); ...   (`lnext` holds the segments still to come).

   Threads: the loop thread (who = 0) and foreign threads (who = S i, i the index in `fcode`).
   A thread's code is a list of micro-operations; a step executes one.  Sequential consistency
   per micro-step (DESIGN 3.2); the queue's critical sections are single steps. *)
From Coq Require Import List Bool Arith.
Import ListNotations.

Inductive rmode := ResetEntry | ResetExit | ResetNone.

Record shape := mkShape {
  wake : bool -> bool -> bool -> bool;
  resets : rmode;
  qwake : bool -> bool }.

Definition rmode_eqb (a b : rmode) : bool :=
  match a, b with
  | ResetEntry, ResetEntry | ResetExit, ResetExit | ResetNone, ResetNone => true
  | _, _ => false
  end.
Definition resets_on_entry (sh : shape) : bool := rmode_eqb (resets sh) ResetEntry.

(* EventLoop.cc of the pinned tree (e88bba0): `!isInLoopThread() || callingPendingFunctors_`,
   `quit_ = false` on entry of loop(), `if (!isInLoopThread()) wakeup()` in quit() *)
Definition pinned_shape : shape :=
  mkShape (fun il c _ => negb il || c) ResetEntry (fun il => negb il).
(* the tree after the repairs of F-2 (6e27b45: also wake when the loop is not (yet) looping) and
   F-3 (a2dcf3b: quit_ is cleared after the while loop, not before it) *)
Definition fixed_shape : shape :=
  mkShape (fun il c l => negb il || c || negb l) ResetExit (fun il => negb il).
(* the other candidate repair of F-3: loop() never resets quit_ *)
Definition repaired_shape : shape :=
  mkShape (fun il c l => negb il || c || negb l) ResetNone (fun il => negb il).
(* F-2 repaired, F-3 not (the tree at 6e27b45) *)
Definition repaired_F2_shape : shape :=
  mkShape (fun il c l => negb il || c || negb l) ResetEntry (fun il => negb il).

(* user-level actions: what a piece of user code (a foreign thread's program, the code before
   loop(), an I/O or timer callback, a functor) may do with the loop *)
Inductive act :=
| AQueue (t : nat)     (* loop->queueInLoop(task t) *)
| ARun (t : nat)       (* loop->runInLoop(task t) *)
| AQuit                (* loop->quit() *)
| AOffer (k : nat).    (* environment: make I/O / timer event k ready (its callback is script k) *)

(* micro-operations *)
Inductive mop :=
| MQueue (t : nat)     (* { lock; pendingFunctors_.push_back; unlock } *)
| MWakeTest            (* if (wake-test) wakeup()   -- the thread is between append and wake-up *)
| MExec (t : nat)      (* runInLoop on the loop thread: cb() now *)
| MQuitStore           (* quit_ = true   (then the thread is between store and wake-up) *)
| MQuitWake            (* if (!isInLoopThread()) wakeup() *)
| MOffer (k : nat).

Definition expand (il : bool) (a : act) : list mop :=
  match a with
  | AQueue t => [MQueue t]
  | ARun t => if il then [MExec t] else [MQueue t]
  | AQuit => [MQuitStore]
  | AOffer k => [MOffer k]
  end.
Definition expand_all (il : bool) (l : list act) : list mop := flat_map (expand il) l.

(* observable history (ghost) *)
Inductive ev :=
| ESub (who t : nat)   (* task t appended to the queue by thread who *)
| EExecQ (t : nat)     (* task t taken from a batch and run (always by the loop thread) *)
| EExecI (t : nat)     (* task t run inline by runInLoop on the loop thread *)
| EQuit (who : nat)    (* quit_ stored *)
| EWake (who : nat)    (* eventfd written *)
| ERet.                (* loop() returned *)

(* shared memory *)
Record shared := mkG {
  pending : list nat;      (* pendingFunctors_ *)
  evfd : nat;              (* counter of wakeupFd_ *)
  evq : list nat;          (* ready environment events not yet dispatched *)
  quit : bool; calling : bool; looping : bool;
  log : list ev }.

Definition scripts := nat -> list act.

(* one micro-operation of thread `who` (il = it is the loop thread); returns the new shared
   memory and the thread's remaining code *)
Definition exec_mop (sh : shape) (scr : scripts) (who : nat) (il : bool) (m : mop) (rest : list mop)
  (g : shared) : shared * list mop :=
  match m with
  | MQueue t =>
      (mkG (pending g ++ [t]) (evfd g) (evq g) (quit g) (calling g) (looping g) (log g ++ [ESub who t]),
       MWakeTest :: rest)
  | MWakeTest =>
      if wake sh il (calling g) (looping g)
      then (mkG (pending g) (S (evfd g)) (evq g) (quit g) (calling g) (looping g) (log g ++ [EWake who]), rest)
      else (g, rest)
  | MExec t =>
      if il
      then (mkG (pending g) (evfd g) (evq g) (quit g) (calling g) (looping g) (log g ++ [EExecI t]),
            expand_all true (scr t) ++ rest)
      else (g, rest)
  | MQuitStore =>
      (mkG (pending g) (evfd g) (evq g) true (calling g) (looping g) (log g ++ [EQuit who]),
       MQuitWake :: rest)
  | MQuitWake =>
      if qwake sh il
      then (mkG (pending g) (S (evfd g)) (evq g) (quit g) (calling g) (looping g) (log g ++ [EWake who]), rest)
      else (g, rest)
  | MOffer k =>
      (mkG (pending g) (evfd g) (evq g ++ [k]) (quit g) (calling g) (looping g) (log g), rest)
  end.

(* program counter of the loop thread (B.2: L0..L9) *)
Inductive lpc :=
| LPre                 (* L0: user code before loop() *)
| LTest                (* L2: while (!quit_) *)
| LPoll                (* L3: inside poller_->poll() *)
| LHandle (wk : bool)  (* L4: dispatching; wk = the wake-up channel is active and not yet read *)
| LSwap                (* L5: callingPendingFunctors_ set, before the swap section *)
| LRun (b : list nat)  (* L6: running the batch; b = functors not yet started *)
| LExit                (* L9: the while loop is left, looping_ = false stored; before `quit_ = false` *)
| LDone.               (* loop() returned *)

Record st := mkSt { sg : shared; pc : lpc; lcode : list mop; lnext : list (list mop);
                    fcode : list (list mop) }.

Inductive label :=
| TLoop                (* next step of the loop thread *)
| TRead                (* loop thread: handleRead() of the wake-up channel *)
| TSpur                (* loop thread: poll returns with nothing ready (time-out / EINTR) *)
| TF (i : nat).        (* next step of foreign thread i *)

Fixpoint upd {A} (l : list A) (i : nat) (x : A) : list A :=
  match l, i with
  | [], _ => []
  | _ :: r, O => x :: r
  | y :: r, S j => y :: upd r j x
  end.

Definition set_flags (g : shared) (q c l : bool) : shared :=
  mkG (pending g) (evfd g) (evq g) q c l (log g).

Definition poll_ready (g : shared) : bool := (0 <? evfd g) || negb (match evq g with [] => true | _ => false end).

Definition step (sh : shape) (scr : scripts) (s : st) (lab : label) : option st :=
  let g := sg s in
  match lab with
  | TF i =>
      match nth_error (fcode s) i with
      | Some (m :: rest) =>
          let '(g', c') := exec_mop sh scr (S i) false m rest g in
          Some (mkSt g' (pc s) (lcode s) (lnext s) (upd (fcode s) i c'))
      | _ => None
      end
  | TRead =>
      match pc s with
      | LHandle true =>
          Some (mkSt (mkG (pending g) 0 (evq g) (quit g) (calling g) (looping g) (log g))
                     (LHandle false) (lcode s) (lnext s) (fcode s))
      | _ => None
      end
  | TSpur =>
      match pc s with
      | LPoll => Some (mkSt g (LHandle (0 <? evfd g)) [] (lnext s) (fcode s))
      | _ => None
      end
  | TLoop =>
      match pc s, lcode s with
      | LPre, m :: rest | LHandle _, m :: rest | LRun _, m :: rest =>
          let '(g', c') := exec_mop sh scr 0 true m rest g in
          Some (mkSt g' (pc s) c' (lnext s) (fcode s))
      | LPre, [] =>   (* loop(): looping_ = true [; quit_ = false] *)
          Some (mkSt (set_flags g (if resets_on_entry sh then false else quit g) (calling g) true) LTest []
                     (lnext s) (fcode s))
      | LTest, _ =>   (* while (!quit_) ... ; looping_ = false *)
          if quit g then Some (mkSt (set_flags g (quit g) (calling g) false) LExit [] (lnext s) (fcode s))
          else Some (mkSt g LPoll [] (lnext s) (fcode s))
      | LPoll, _ =>
          if poll_ready g then
            match evq g with
            | [] => Some (mkSt g (LHandle (0 <? evfd g)) [] (lnext s) (fcode s))
            | k :: r =>
                Some (mkSt (mkG (pending g) (evfd g) r (quit g) (calling g) (looping g) (log g))
                           (LHandle (0 <? evfd g)) (expand_all true (scr k)) (lnext s) (fcode s))
            end
          else None
      | LHandle true, [] => None     (* the wake-up channel is handled before the drain *)
      | LHandle false, [] => Some (mkSt (set_flags g (quit g) true (looping g)) LSwap [] (lnext s) (fcode s))
      | LSwap, _ =>
          Some (mkSt (mkG [] (evfd g) (evq g) (quit g) (calling g) (looping g) (log g))
                     (LRun (pending g)) [] (lnext s) (fcode s))
      | LRun (t :: b), [] =>
          Some (mkSt (mkG (pending g) (evfd g) (evq g) (quit g) (calling g) (looping g) (log g ++ [EExecQ t]))
                     (LRun b) (expand_all true (scr t)) (lnext s) (fcode s))
      | LRun [], [] => Some (mkSt (set_flags g (quit g) false (looping g)) LTest [] (lnext s) (fcode s))
      | LExit, _ =>   (* [quit_ = false;] return *)
          Some (mkSt (mkG (pending g) (evfd g) (evq g)
                          (match resets sh with ResetExit => false | _ => quit g end)
                          (calling g) (looping g) (log g ++ [ERet]))
                     LDone [] (lnext s) (fcode s))
      | LDone, _ =>   (* the code between two calls of loop(), if there is another call *)
          match lnext s with
          | seg :: more => Some (mkSt g LPre seg more (fcode s))
          | [] => None
          end
      end
  end.

(* ---- the order of the two halves of EventLoop::quit() (generated fact Gen_C04.quit_stores_before_wakeup).
   `step` above is the order of the tree: store quit_, then wake.  `step_o false` is the other order: the first
   half of quit() (mop MQuitStore) is then the wake-up, the second half (MQuitWake) the store.  `step_o true` is
   `step` (C05_Proofs.step_o_true): every theorem about `step` is a theorem about the store-first order. *)
Definition exec_mop_o (qsf : bool) (sh : shape) (scr : scripts) (who : nat) (il : bool) (m : mop) (rest : list mop)
  (g : shared) : shared * list mop :=
  if qsf then exec_mop sh scr who il m rest g
  else match m with
       | MQuitStore =>
           if qwake sh il
           then (mkG (pending g) (S (evfd g)) (evq g) (quit g) (calling g) (looping g) (log g ++ [EWake who]), MQuitWake :: rest)
           else (g, MQuitWake :: rest)
       | MQuitWake =>
           (mkG (pending g) (evfd g) (evq g) true (calling g) (looping g) (log g ++ [EQuit who]), rest)
       | _ => exec_mop sh scr who il m rest g
       end.

Definition step_o (qsf : bool) (sh : shape) (scr : scripts) (s : st) (lab : label) : option st :=
  match lab with
  | TF i =>
      match nth_error (fcode s) i with
      | Some (m :: rest) =>
          let '(g', c') := exec_mop_o qsf sh scr (S i) false m rest (sg s) in
          Some (mkSt g' (pc s) (lcode s) (lnext s) (upd (fcode s) i c'))
      | _ => None
      end
  | TLoop =>
      match pc s, lcode s with
      | LPre, m :: rest | LHandle _, m :: rest | LRun _, m :: rest =>
          let '(g', c') := exec_mop_o qsf sh scr 0 true m rest (sg s) in
          Some (mkSt g' (pc s) c' (lnext s) (fcode s))
      | _, _ => step sh scr s lab
      end
  | _ => step sh scr s lab
  end.

Fixpoint run_o (qsf : bool) (sh : shape) (scr : scripts) (s : st) (labs : list label) : option st :=
  match labs with
  | [] => Some s
  | l :: r => match step_o qsf sh scr s l with Some s' => run_o qsf sh scr s' r | None => None end
  end.

Definition g0 : shared := mkG [] 0 [] false false false [].
(* prefix = what the loop thread does between constructing the loop and calling loop();
   later = what it does after each return of loop() before calling loop() again (one segment per
   further call); progs = the foreign threads' programs *)
Definition init (prefix : list act) (later : list (list act)) (progs : list (list act)) : st :=
  mkSt g0 LPre (expand_all true prefix) (map (expand_all true) later) (map (expand_all false) progs).

Fixpoint run (sh : shape) (scr : scripts) (s : st) (labs : list label) : option st :=
  match labs with
  | [] => Some s
  | l :: r => match step sh scr s l with Some s' => run sh scr s' r | None => None end
  end.

(* projections of the history *)
Definition subs (l : list ev) : list nat :=
  flat_map (fun e => match e with ESub _ t => [t] | _ => [] end) l.
Definition execq (l : list ev) : list nat :=
  flat_map (fun e => match e with EExecQ t => [t] | _ => [] end) l.
Definition subs_by (w : nat) (l : list ev) : list nat :=
  flat_map (fun e => match e with ESub w' t => if w' =? w then [t] else [] | _ => [] end) l.
Definition qtasks (c : list mop) : list nat :=
  flat_map (fun m => match m with MQueue t => [t] | _ => [] end) c.
Definition quit_called (l : list ev) : bool :=
  existsb (fun e => match e with EQuit _ => true | _ => false end) l.
Definition returned (l : list ev) : bool :=
  existsb (fun e => match e with ERet => true | _ => false end) l.
(* has quit_ been stored since loop() last returned (or since the beginning) *)
Fixpoint qsr (l : list ev) (acc : bool) : bool :=
  match l with
  | [] => acc
  | EQuit _ :: r => qsr r true
  | ERet :: r => qsr r false
  | _ :: r => qsr r acc
  end.
Definition quit_since_ret (l : list ev) : bool := qsr l false.
Definition batch (p : lpc) : list nat := match p with LRun b => b | _ => [] end.

(* a thread is between its append and its wake-up, and the wake-up will be written *)
Definition head_is_wake (c : list mop) : bool := match c with MWakeTest :: _ => true | _ => false end.
Definition head_is_qwake (c : list mop) : bool := match c with MQuitWake :: _ => true | _ => false end.
Definition code_ctx (p : lpc) : bool := match p with LPre | LHandle _ | LRun _ => true | _ => false end.
Definition midwake (sh : shape) (s : st) : bool :=
  existsb head_is_wake (fcode s)
  || (code_ctx (pc s) && head_is_wake (lcode s) && wake sh true (calling (sg s)) (looping (sg s))).
(* the loop thread is past the poll and has not yet swapped the queue out: it reaches the drain
   before its next poll *)
Definition will_drain (p : lpc) : bool := match p with LHandle _ | LSwap => true | _ => false end.
(* quiescent: no foreign thread has anything left to do and the loop thread sits in a poll that
   only a time-out (or a new environment event) could end *)
Definition quiescent (s : st) : bool :=
  forallb (fun c => match c with [] => true | _ => false end) (fcode s)
  && match pc s with LPoll => true | _ => false end && negb (poll_ready (sg s)).

(* wake-up tests: what the theorems need of a shape *)
Definition wake_weak (sh : shape) : bool :=        (* foreign threads and nested calls wake *)
  wake sh false false false && wake sh false false true && wake sh false true false && wake sh false true true
  && wake sh true true false && wake sh true true true.
Definition wake_pre (sh : shape) : bool := wake sh true false false.   (* before loop() too *)
Definition wake_ok (sh : shape) : bool := wake_weak sh && wake_pre sh.
Definition qwake_ok (sh : shape) : bool := qwake sh false.
