(* C12_Chain (REVIEW_E E-7): the progress halves of C12_Progress, re-stated with post-states strong enough to be chained, and the
   chain itself: from a failed attempt, if the loop runs its functor queue, the environment fires the armed retry timer and
   then lets the new attempt succeed, exactly one UP is reported, the new attempt having started exactly the back-off delay
   after the failure. *)
From Coq Require Import List ZArith Lia Bool Arith.
From Muduo Require Import Gen_Consts Gen_C12 C12_Model C12_Hyg C12_Trace C12_Inv C12_Proofs C12_Loop C12_Progress C12_LoopEnd.
Import ListNotations.
Local Open Scope Z_scope.

(* ------------------------------------------------------------------ what `finish` (gc, settle) leaves alone while the client lives *)
Definition csame (s s' : st) : Prop :=
  k_state s' = k_state s /\ k_chan s' = k_chan s /\ k_connect s' = k_connect s /\ k_delay s' = k_delay s /\ kq s' = kq s /\
  now s' = now s /\ timers s' = timers s /\ pending s' = pending s /\ alive s' = alive s /\ connection s' = connection s /\
  length (conns s') = length (conns s) /\ length (socks s') = length (socks s) /\ k_dead s' = k_dead s.

Lemma gc_from_csame n : forall c s s' ev, gc_from n c s = Some (s', ev) -> csame s s'.
Proof.
  induction n as [|n IH]; intros c s s' ev; cbn [gc_from]; [intros [= <- _]; unfold csame; auto 20|].
  destruct (nth_error (conns s) c) as [o|]; [|intros [= <- _]; unfold csame; auto 20]. destruct (_ && _); [|apply IH].
  destruct (cst o); try discriminate. destruct (creg o); [discriminate|]. intros H. apply bind_some_inv' in H. destruct H as (rest & H & _).
  apply IH in H. unfold csame in *. cbn in H. rewrite !length_upd in H. exact H.
Qed.

Lemma finish_csame m s' ev' : finish m = Some (s', ev') ->
  exists s0 ev0 g, m = Some (s0, ev0) /\ ev' = ev0 ++ g /\ Forall is_connclose g /\ (alive s0 = true -> csame s0 s').
Proof.
  intros F. destruct (finish_events _ _ _ F) as (s0 & ev0 & g & -> & -> & Hg). exists s0, ev0, g. split; [reflexivity|]. split; [reflexivity|]. split; [exact Hg|].
  intros Al. unfold finish, bind in F. unfold gc in F. destruct (gc_from _ _ s0) as [[s1 e1]|] eqn:G; [|discriminate].
  apply gc_from_csame in G. pose proof G as (_ & _ & _ & _ & _ & _ & _ & _ & A1 & _).
  unfold settle in F. rewrite A1, Al in F. cbn in F. injection F as <- _. exact G.
Qed.

Lemma step_csame s o s' ev : step s o = Ok s' ev ->
  exists s0 ev0 g, step_core s o = Some (Some (s0, ev0)) /\ ev = ev0 ++ g /\ Forall is_connclose g /\
    (alive s0 = true -> csame s0 (set_now s' (now s0)) /\ now s' = now s0 + 1).
Proof.
  unfold step. destruct (step_core s o) as [m|]; [|discriminate]. destruct (finish m) as [[s2 e2]|] eqn:F; [|discriminate].
  intros [= <- <-]. destruct (finish_csame _ _ _ F) as (s0 & ev0 & g & -> & -> & Hg & Cs). exists s0, ev0, g. split; [reflexivity|]. split; [reflexivity|]. split; [exact Hg|].
  intros H. specialize (Cs H). split.
  - unfold csame in *. cbn. tauto.
  - destruct Cs as (_ & _ & _ & _ & _ & N & _). cbn. lia.
Qed.

(* the kernel lets the next ::connect proceed (answers 0 / EINPROGRESS / EINTR / EISCONN; nothing scripted = EINPROGRESS) *)
Definition next_connect_proceeds (s : st) : Prop :=
  match kq s with [] => True | e :: _ => classify e = ActConnecting end.
Lemma classify_einprogress : classify EINPROGRESS = ActConnecting.
Proof. vm_compute. reflexivity. Qed.

(* ------------------------------------------------------------------ (1) the failed attempt, with its whole post-state *)
Theorem failed_attempt_state : forall s i o, reachable s -> k_chan s = Some (i, true) -> k_dead s = false -> k_connect s = true -> is_failure o ->
  exists s' g, step s o = Ok s' ([EvClose i; EvArm (k_delay s)] ++ g) /\ Forall is_connclose g /\ contract s o = true /\
    k_state s' = KDisconnected /\ k_chan s' = Some (i, false) /\ pending s' = pending s ++ [FResetChannel] /\
    timers s' = timers s ++ [(now s + k_delay s, TRetry)] /\ k_delay s' = Z.min (2 * k_delay s) 30000 /\
    k_connect s' = true /\ k_dead s' = false /\ kq s' = kq s /\ now s' = now s + 1 /\ alive s' = true /\
    length (conns s') = length (conns s) /\ length (socks s') = length (socks s) /\ connection s' = None.
Proof.
  intros s i o Hr Hc Hd Hk Hf. pose proof (reachable_Inv _ Hr) as I. pose proof I as (K & _).
  destruct (connecting_facts _ _ K Hc) as (Hs & _ & Hcn & _). pose proof (alive_of_wanted _ I Hk Hd) as Al.
  assert (Core : step_core s o = Some (retry (enq (set_k_chan s (Some (i, false))) FResetChannel) i)).
  { destruct Hf as [->|(err & selfc & -> & Hf)]; cbn [step_core]; rewrite Hc, Hd.
    - unfold handleError, removeAndResetChannel. rewrite Hs, Hc. reflexivity.
    - unfold handleWrite, removeAndResetChannel. rewrite Hs, Hc. cbn [kstate_eqb].
      destruct Hf as [Hf| ->]; [apply Z.eqb_neq in Hf; rewrite Hf; reflexivity|]. destruct (negb (err =? 0)); reflexivity. }
  assert (Hct : contract s o = true) by (destruct Hf as [->|(err & selfc & -> & _)]; reflexivity).
  pose proof (step_I s o I Hct) as W. destruct (step s o) as [s' ev| |] eqn:E; [|exfalso|destruct W].
  2:{ unfold step in E. rewrite Core in E. destruct (finish _) as [[? ?]|]; discriminate E. }
  destruct (step_csame _ _ _ _ E) as (s0 & ev0 & g & Core' & -> & Hg & Cs).
  rewrite Core, retry_spec in Core'. cbn [k_connect enq set_pending set_k_chan] in Core'. rewrite Hk in Core'.
  injection Core' as <- <-. destruct (Cs Al) as ((C1 & C2 & C3 & C4 & C5 & C6 & C7 & C8 & C9 & C10 & C11 & C12 & C13) & N).
  cbn in C1, C2, C3, C4, C5, C6, C7, C8, C9, C10, C11, C12, C13, N. rewrite length_upd in C12.
  exists s', g. split; [reflexivity|]. repeat split; auto; congruence.
Qed.

(* ------------------------------------------------------------------ (2) the loop's functor batch runs the queued resetChannel *)
Theorem reset_batch_state : forall s, reachable s -> alive s = true -> k_dead s = false -> pending s = [FResetChannel] ->
  exists s' g, step s RunPending = Ok s' g /\ Forall is_connclose g /\
    k_chan s' = None /\ pending s' = [] /\ k_state s' = k_state s /\ timers s' = timers s /\ k_delay s' = k_delay s /\
    k_connect s' = k_connect s /\ k_dead s' = false /\ kq s' = kq s /\ now s' = now s + 1 /\ alive s' = true /\
    length (conns s') = length (conns s) /\ length (socks s') = length (socks s) /\ connection s' = connection s.
Proof.
  intros s Hr Al Hd Hp. pose proof (reachable_Inv _ Hr) as I.
  pose proof (step_I s RunPending I eq_refl) as W. destruct (step s RunPending) as [s' ev| |] eqn:E; [|exfalso|destruct W].
  2:{ unfold step in E. cbn [step_core] in E. destruct (finish _) as [[? ?]|]; discriminate E. }
  destruct (step_csame _ _ _ _ E) as (s0 & ev0 & g & Core & -> & Hg & Cs).
  cbn [step_core] in Core. rewrite Hp in Core. cbn [length run_n] in Core. unfold run_one in Core. rewrite Hp in Core.
  cbn [run_functor k_dead set_pending] in Core. rewrite Hd in Core.
  destruct (finish (ret (set_k_chan (set_pending s []) None))) as [[s1 e1]|] eqn:F; [|discriminate].
  destruct (finish_csame _ _ _ F) as (sa & eva & g1 & Ea & -> & Hg1 & Cs1). injection Ea as <- <-.
  cbn in Core. injection Core as <- <-.
  destruct (Cs1 Al) as (B1 & B2 & B3 & B4 & B5 & B6 & B7 & B8 & B9 & B10 & B11 & B12 & B13). cbn in B1, B2, B3, B4, B5, B6, B7, B8, B9, B10, B11, B12, B13.
  assert (Al1 : alive (set_conns s1 (map (c_set_fresh false) (conns s1))) = true) by (cbn; congruence).
  destruct (Cs Al1) as ((C1 & C2 & C3 & C4 & C5 & C6 & C7 & C8 & C9 & C10 & C11 & C12 & C13) & N).
  cbn in C1, C2, C3, C4, C5, C6, C7, C8, C9, C10, C11, C12, C13, N. rewrite map_length in C11.
  exists s', (g1 ++ g). split; [rewrite !app_nil_r; reflexivity|].
  split; [apply Forall_app; auto|]. repeat split; try congruence; try lia.
Qed.

(* ------------------------------------------------------------------ (3) the link E-7 asks for: the expiry of the retry timer starts an attempt and,
   when ::connect proceeds, leaves the connector in kConnecting with a registered channel on exactly that socket *)
Theorem timer_fires_attempt_state : forall s d, reachable s -> In (d, TRetry) (timers s) -> pending s = [] ->
  k_connect s = true -> k_dead s = false -> next_connect_proceeds s ->
  exists s' g e, step s TimerFire = Ok s' ([EvAttempt (length (socks s)) e] ++ g) /\ Forall is_connclose g /\ contract s TimerFire = true /\
    classify e = ActConnecting /\
    k_state s' = KConnecting /\ k_chan s' = Some (length (socks s), true) /\ k_connect s' = true /\ k_dead s' = false /\
    now s' = Z.max (now s) d + 1 /\ timers s' = [] /\ pending s' = [] /\ k_delay s' = k_delay s /\
    length (conns s') = length (conns s) /\ connection s' = connection s.
Proof.
  intros s d Hr Hin Hp Hk Hd Hq. pose proof (reachable_Inv _ Hr) as I. pose proof I as (K & _).
  pose proof (alive_of_wanted _ I Hk Hd) as Al.
  (* a live client has retry timers only, at most one: this is the timer *)
  assert (Ht : timers s = [(d, TRetry)]).
  { pose proof K as K0. kdestr K0. specialize (Khk Al). rewrite Khk in Krt1.
    destruct (timers s) as [|t [|t2 r]]; [destruct Hin| |cbn in Krt1; lia]. destruct Hin as [->|[]]. reflexivity. }
  assert (Hs : k_state s = KDisconnected).
  { pose proof K as K0. kdestr K0. apply Krt. unfold nretry. rewrite Ht. cbn. discriminate. }
  assert (Hch : k_chan s = None).
  { pose proof K as K0. kdestr K0. destruct (k_chan s) as [[j [|]]|]; auto; destruct Kch as [Kc1 Kc2].
    - congruence.
    - rewrite Hp in Kc1. discriminate. }
  assert (Hct : contract s TimerFire = true).
  { cbn. unfold timely. rewrite Hp, Al. reflexivity. }
  pose proof (step_I s TimerFire I Hct) as W. destruct (step s TimerFire) as [s' ev| |] eqn:E; [|exfalso|destruct W].
  2:{ unfold step in E. cbn [step_core] in E. rewrite Ht in E. cbn [min_due] in E. destruct (finish _) as [[? ?]|]; discriminate E. }
  destruct (step_csame _ _ _ _ E) as (s0 & ev0 & g & Core & -> & Hg & Cs).
  cbn [step_core] in Core. rewrite Ht in Core. cbn [min_due] in Core.
  cbn [filter fst] in Core.
  assert (L1 : (d <=? Z.max (now s) d) = true) by (apply Z.leb_le; lia).
  assert (L2 : (Z.max (now s) d <? d) = false) by (apply Z.ltb_ge; lia).
  rewrite L1, L2 in Core. cbn [sort_due fold_right insert_due fire_all fire snd] in Core.
  unfold startInLoop in Core. cbn [k_state set_now set_timers k_connect] in Core. rewrite Hs, Hk in Core. cbn [kstate_eqb negb] in Core.
  unfold connect_ in Core. cbn [kq socks set_now set_timers set_socks] in Core.
  match type of Core with context [let '(e, s1) := ?X in _] => set (X0 := X) in Core end.
  assert (HX : classify (fst X0) = ActConnecting /\ k_chan (snd X0) = None /\ alive (snd X0) = true /\ k_connect (snd X0) = true /\
               k_dead (snd X0) = false /\ now (snd X0) = Z.max (now s) d /\ timers (snd X0) = [] /\ pending (snd X0) = [] /\
               k_delay (snd X0) = k_delay s /\ length (conns (snd X0)) = length (conns s) /\ connection (snd X0) = connection s).
  { unfold next_connect_proceeds in Hq. subst X0. destruct (kq s) as [|e r]; (split; [cbn [fst]; auto using classify_einprogress|cbn; repeat split; auto]). }
  destruct X0 as [e sX]. cbn [fst snd] in HX. destruct HX as (Ce & X1 & X2 & X3 & X4 & X5 & X6 & X7 & X8 & X9 & X10).
  cbn [bind] in Core. rewrite Ce in Core. unfold connecting in Core. cbn [k_chan set_k_state] in Core.
  rewrite X1 in Core. cbn in Core. injection Core as <- <-.
  assert (Al0 : alive (set_k_chan (set_k_state sX KConnecting) (Some (length (socks s), true))) = true) by exact X2.
  destruct (Cs Al0) as ((C1 & C2 & C3 & C4 & C5 & C6 & C7 & C8 & C9 & C10 & C11 & C12 & C13) & N).
  cbn in C1, C2, C3, C4, C5, C6, C7, C8, C9, C10, C11, C12, C13, N.
  exists s', g, e. split; [reflexivity|]. repeat split; auto; congruence.
Qed.

(* ------------------------------------------------------------------ the chain *)
(* o = the failure (POLLERR / SO_ERROR / self-connect) of the attempt in progress; then the loop's functor batch; then the expiry
   of the retry timer that the failure armed; then the successful completion of the new attempt.
   Hypotheses (all visible): the history so far is admissible and ends with an attempt in progress that is wanted, the functor queue is
   empty (the loop is in poll), the delay is at least 2 ms (it is >= 500 for every history of a live loop: delay_at_least_500), and
   the kernel lets the next ::connect proceed.
   Conclusion: the extended history is admissible and runs; the failure armed the timer with the current delay d; the new attempt
   was started when the clock showed exactly (time of the failure) + d; its socket is the one handed over; the current cycle has
   exactly one UP; the delay for a further failure has doubled (capped). *)
Theorem retry_chain : forall l s0 ev0 i o, admissible init l -> run init l = Some (s0, ev0) ->
  k_chan s0 = Some (i, true) -> k_dead s0 = false -> k_connect s0 = true -> pending s0 = [] -> 2 <= k_delay s0 ->
  next_connect_proceeds s0 -> is_failure o ->
  let h := [o; RunPending; TimerFire; EvWritable 0 false] in
  exists s ev e g1 g2 g3 g4,
    run init (l ++ h) = Some (s, ev0 ++ ev) /\ admissible init (l ++ h) /\
    ev = ([EvClose i; EvArm (k_delay s0)] ++ g1) ++ g2 ++ ([EvAttempt (length (socks s0)) e] ++ g3) ++
         ([EvHandOver (length (socks s0)); EvUp (length (conns s0))] ++ g4) /\
    Forall is_connclose (g1 ++ g2 ++ g3 ++ g4) /\
    ups_after 0 (ev0 ++ ev) = 1%nat /\ connection s = Some (length (conns s0)) /\
    (* the attempt was made by the step that began when the clock showed (time of the failure) + d: that step (TimerFire) set the
       clock to now s0 + d and ended, like every op, one millisecond later *)
    (exists s3 ev3, run init (l ++ [o; RunPending; TimerFire]) = Some (s3, ev0 ++ ev3) /\ now s3 = now s0 + k_delay s0 + 1 /\
                    k_state s3 = KConnecting /\ k_chan s3 = Some (length (socks s0), true) /\
                    (* a further failure would be retried after the doubled (capped) delay *)
                    k_delay s3 = Z.min (2 * k_delay s0) 30000).
Proof.
  intros l s0 ev0 i o A R Hc Hd Hk Hp Hdel Hq Hf h.
  assert (Hr0 : reachable s0) by (exists l, ev0; auto).
  pose proof (reachable_Inv _ Hr0) as I0. pose proof I0 as (K0 & _).
  destruct (connecting_facts _ _ K0 Hc) as (_ & _ & _ & Hnr & _).
  pose proof (alive_of_wanted _ I0 Hk Hd) as Al0.
  assert (T0 : timers s0 = []).
  { pose proof K0 as K. kdestr K. specialize (Khk Al0). rewrite Hnr in Khk. destruct (timers s0); [reflexivity|discriminate]. }
  (* 1 *)
  destruct (failed_attempt_state s0 i o Hr0 Hc Hd Hk Hf) as (s1 & g1 & S1 & G1 & Ct1 & P1 & P2 & P3 & P4 & P5 & P6 & P7 & P8 & P9 & P10 & P11 & P12 & P13).
  rewrite Hp in P3. rewrite T0 in P4. cbn [app] in P3, P4.
  assert (Hr1 : reachable s1) by (eapply reachable_step; eauto).
  (* 2 *)
  destruct (reset_batch_state s1 Hr1 P10 P7 P3) as (s2 & g2 & S2 & G2 & Q1 & Q2 & Q3 & Q4 & Q5 & Q6 & Q7 & Q8 & Q9 & Q10 & Q11 & Q12 & Q13).
  assert (Hr2 : reachable s2) by (eapply (reachable_step s1 RunPending); eauto).
  (* 3 *)
  assert (Hin : In (now s0 + k_delay s0, TRetry) (timers s2)) by (rewrite Q4, P4; left; reflexivity).
  assert (Hq2 : next_connect_proceeds s2) by (unfold next_connect_proceeds in *; rewrite Q8, P8; exact Hq).
  assert (Hk2 : k_connect s2 = true) by congruence.
  destruct (timer_fires_attempt_state s2 _ Hr2 Hin Q2 Hk2 Q7 Hq2) as (s3 & g3 & e & S3 & G3 & Ct3 & Ce & U1 & U2 & U3 & U4 & U5 & U6 & U7 & U8 & U9 & U10).
  assert (Hr3 : reachable s3) by (eapply (reachable_step s2 TimerFire); eauto).
  (* 4 *)
  destruct (success_reports_up s3 _ Hr3 U2 U4 U3) as (s4 & g4 & S4 & G4 & V1 & V2 & V3).
  assert (Ls : length (socks s2) = length (socks s0)) by congruence.
  assert (Lc : length (conns s3) = length (conns s0)) by congruence.
  rewrite Ls in *. rewrite Lc in *.
  assert (Rn : run init (l ++ h) = Some (s4, ev0 ++
            (([EvClose i; EvArm (k_delay s0)] ++ g1) ++ g2 ++ ([EvAttempt (length (socks s0)) e] ++ g3) ++
             ([EvHandOver (length (socks s0)); EvUp (length (conns s0))] ++ g4)))).
  { rewrite run_app, R. unfold h. cbn [run]. rewrite S1, S2, S3, S4. rewrite !app_nil_r. reflexivity. }
  assert (Ad : admissible init (l ++ h)).
  { unfold h. change [o; RunPending; TimerFire; EvWritable 0 false] with ([o] ++ [RunPending] ++ [TimerFire] ++ [EvWritable 0 false]).
    rewrite !app_assoc.
    assert (R1 : run init (l ++ [o]) = Some (s1, ev0 ++ ([EvClose i; EvArm (k_delay s0)] ++ g1))).
    { rewrite run_app, R. cbn [run]. rewrite S1, app_nil_r. reflexivity. }
    assert (A1 : admissible init (l ++ [o])) by (eapply admissible_snoc; eauto).
    assert (R2 : run init ((l ++ [o]) ++ [RunPending]) = Some (s2, (ev0 ++ ([EvClose i; EvArm (k_delay s0)] ++ g1)) ++ g2)).
    { rewrite run_app, R1. cbn [run]. rewrite S2, app_nil_r. reflexivity. }
    assert (A2 : admissible init ((l ++ [o]) ++ [RunPending])) by (eapply admissible_snoc; eauto).
    assert (R3 : run init (((l ++ [o]) ++ [RunPending]) ++ [TimerFire]) = Some (s3, ((ev0 ++ ([EvClose i; EvArm (k_delay s0)] ++ g1)) ++ g2) ++ ([EvAttempt (length (socks s0)) e] ++ g3))).
    { rewrite run_app, R2. cbn [run]. rewrite S3, app_nil_r. reflexivity. }
    assert (A3 : admissible init (((l ++ [o]) ++ [RunPending]) ++ [TimerFire])) by (eapply admissible_snoc; eauto).
    eapply admissible_snoc; eauto. }
  exists s4. eexists. exists e, g1, g2, g3, g4. split; [exact Rn|]. split; [exact Ad|]. split; [reflexivity|].
  split; [repeat (apply Forall_app; split); auto|].
  split; [|split; [exact V1|]].
  - pose proof (trace_cycle _ _ _ Rn) as C. pose proof (cycle_ok_ups _ true 0%nat C (fun _ => eq_refl) ltac:(lia)) as U.
    assert (F4 : Forall is_connclose (g1 ++ g2 ++ g3 ++ g4)) by (repeat (apply Forall_app; split); auto).
    revert U.
    repeat progress (rewrite ?ups_after_app; cbn [app ups_after];
                     rewrite ?(ups_after_connclose g1), ?(ups_after_connclose g2), ?(ups_after_connclose g3), ?(ups_after_connclose g4) by auto).
    lia.
  - (* clock *)
    assert (R3 : run init (l ++ [o; RunPending; TimerFire]) =
                 Some (s3, ev0 ++ (([EvClose i; EvArm (k_delay s0)] ++ g1) ++ g2 ++ ([EvAttempt (length (socks s0)) e] ++ g3)))).
    { rewrite run_app, R. cbn [run]. rewrite S1, S2, S3. rewrite !app_nil_r. reflexivity. }
    exists s3. eexists. split; [exact R3|]. split; [rewrite U5, Q9, P9; lia|]. split; [exact U1|]. split; [exact U2|]. congruence.
Qed.

(* the hypothesis `2 <= k_delay s0` of the chain: the delay is at least 500 ms in every state of a live-loop history *)
Theorem delay_at_least_500 : forall s q, lreachable s q -> 500 <= k_delay s.
Proof. intros s q [_ T]. apply (t_delay _ _ T). Qed.

(* non-vacuity: the hypotheses of the chain hold after [Connect] with o = POLLERR *)
Lemma retry_chain_example : exists s0 ev0, admissible init [Connect] /\ run init [Connect] = Some (s0, ev0) /\
  k_chan s0 = Some (0%nat, true) /\ k_dead s0 = false /\ k_connect s0 = true /\ pending s0 = [] /\ 2 <= k_delay s0 /\
  next_connect_proceeds s0 /\ is_failure EvError.
Proof.
  eexists _, _. split; [adm|]. split; [runs|]. repeat split; try reflexivity.
  - vm_compute. discriminate.
  - left. reflexivity.
Qed.
