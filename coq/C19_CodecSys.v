(* C19_CodecSys: the system histories of C19_Sys over the RpcCodec layer of C19_Codec.

   C19_SysProofs / C19_BiProofs are about a FIFO of frames: a frame written by one channel reaches the
   other as [arrives_as] (RpcMessage serialised and parsed), under the size hypothesis [sys_wf] /
   [bsys_wf] (every field below 2 GiB, protobuf's own limit).  The codec that really carries the frames
   (C18: ProtobufCodecLite) rejects every frame whose length field exceeds kMaxMessageLen (64 MiB,
   ProtobufCodecLite.cc:65-68: kInvalidLength, the connection is shut down) while the sender does not
   check the size (fillEmptyBuffer, :42-56).  Here the two are connected:

     - [request_frame_len] / [reply_frame_len]: the value of the length field of the frame RpcCodec
       writes for a call / a reply, computed from the sizes of the fields (exact: keys, varint
       lengths, the fixed64 id, the type enum, tag, checksum);
     - [sys_fits] / [bsys_fits]: every call and every reply of the history makes a frame within
       kMaxMessageLen (this implies [sys_wf] / [bsys_wf]); [request_fits_if] / [reply_fits_if] give
       the plain sufficient condition |service| + |method| + |request| + 37 <= kMaxMessageLen,
       |response| + 25 <= kMaxMessageLen;
     - under that hypothesis every frame either channel ever hands to its codec is [frame_ok], the
       frames sent split into the ones the peer's channel has taken and the ones still queued, and
       for ANY segmentation of the bytes the sender's codec wrote C18's decoder delivers, without
       error, exactly these frames: the labels the peer's channel took in the history are the first
       k of them, the queue is the rest ([end_to_end_over_codec], [bidirectional_over_codec]).

   Histories with a frame in the band kMaxMessageLen .. 2 GiB satisfy [sys_wf] but not [sys_fits]:
   for them C19_end_to_end / C19_bidirectional speak about the FIFO-of-frames model only. *)
From Coq Require Import List ZArith Lia Bool Arith.
From Coq.Strings Require Import Byte.
From Muduo Require Import Base_Bytes C18_Model C18_Proofs C18_RpcInstance.
From Muduo Require Import C19_Model C19_Proofs C19_DownProofs C19_Wire C19_WireProofs C19_Sys C19_SysProofs C19_BiProofs C19_Codec.
Import ListNotations.
Local Open Scope Z_scope.

(* ------------------------------------------------------------------ the regenerated limit *)
(* kMaxMessageLen (regenerated from ProtobufCodecLite.h) is below protobuf's 2 GiB limit and large
   enough for an error reply; re-checked on every build against the current constant *)
Lemma kMax_below_short : kMaxMessageLen < 2147483632.
Proof. apply Z.ltb_lt. reflexivity. Qed.

Lemma kMax_holds_error_reply : 21 <= kMaxMessageLen.
Proof. apply Z.leb_le. reflexivity. Qed.

(* ------------------------------------------------------------------ how long the bytes of an RpcMessage are *)
Lemma varint_enc_length n : forall k x,
  0 <= x < 128 ^ Z.of_nat (S k) -> (length (varint_enc n x) <= S k)%nat.
Proof.
  induction n as [|n IH]; intros k x Hx; cbn [varint_enc]; [cbn [length]; lia|].
  destruct (x <? 128) eqn:E; [cbn [length]; lia|]. apply Z.ltb_ge in E.
  destruct k as [|k]; [change (128 ^ Z.of_nat 1) with 128 in Hx; lia|].
  cbn [length]. apply le_n_S. apply IH.
  replace (Z.of_nat (S (S k))) with (Z.of_nat (S k) + 1) in Hx by lia.
  rewrite Z.pow_add_r in Hx by lia. change (128 ^ 1) with 128 in Hx.
  split; [apply Z.div_pos; lia|apply Z.div_lt_upper_bound; lia].
Qed.

(* the number of bytes of the varint that announces a length-delimited field *)
Definition vlen (b : bytes) : Z := Z.of_nat (length (varint (Z.of_nat (length b)))).

Lemma vlen_bounds b : Z.of_nat (length b) < 34359738368 -> 1 <= vlen b <= 5.
Proof.
  intros H. unfold vlen.
  pose proof (varint_enc_length 10 4 (Z.of_nat (length b))) as L.
  change (128 ^ Z.of_nat 5) with 34359738368 in L. specialize (L ltac:(lia)).
  destruct (varint_nonempty (Z.of_nat (length b))) as (c & t & E). unfold varint in *. rewrite E in *.
  cbn [length] in *. lia.
Qed.

Lemma vlen_nonneg b : 0 <= vlen b.
Proof. unfold vlen. lia. Qed.

Lemma ser_len_length f b :
  0 <= f * 8 + 2 < 128 -> Z.of_nat (length (ser_len f b)) = 1 + vlen b + Z.of_nat (length b).
Proof. intros H. unfold ser_len, vlen. rewrite key_byte by exact H. rewrite !app_length. cbn [length]. lia. Qed.

Definition flen (o : option bytes) : Z :=
  match o with Some b => 1 + vlen b + Z.of_nat (length b) | None => 0 end.

(* 11 = key + type enum (2) + key + fixed64 id (9); an error code takes key + enum (2) *)
Definition wire_len (m : rpcmsg) : Z :=
  11 + flen (m_service m) + flen (m_method m) + flen (m_request m) + flen (m_response m) +
  match m_error m with Some _ => 2 | None => 0 end.

Lemma wire_ser_length m : Z.of_nat (length (wire_ser m)) = wire_len m.
Proof.
  destruct m as [t i sv me rq rs er]. unfold wire_ser, wire_len.
  cbn [m_type m_id m_service m_method m_request m_response m_error].
  assert (forall f o, 0 <= f * 8 + 2 < 128 -> Z.of_nat (length (ser_opt (ser_len f) o)) = flen o) as Hf.
  { intros f [b|] Hb; cbn [ser_opt flen length]; [apply ser_len_length; exact Hb|reflexivity]. }
  assert (Z.of_nat (length (ser_opt (fun e => key 7 0 ++ varint (errnum e)) er)) = match er with Some _ => 2 | None => 0 end) as He.
  { destruct er as [e|]; cbn [ser_opt length]; [|reflexivity]. rewrite app_length, (key_byte 7 0) by lia. destruct e; reflexivity. }
  assert (length (varint (mtype_num t)) = 1%nat) as Ht by (destruct t; reflexivity).
  rewrite !app_length, !Nat2Z.inj_add, He, !Hf by lia.
  rewrite le64_length, Ht, (key_byte 1 0), (key_byte 2 1) by lia. cbn [length]. lia.
Qed.

Lemma fits_wire_len m : fits rpctag (wire_ser m) <-> 4 + wire_len m + 4 <= kMaxMessageLen.
Proof. unfold fits. rewrite wire_ser_length. change (Z.of_nat (length rpctag)) with 4. lia. Qed.

(* the value of the length field of the frame RpcCodec writes: tag + RpcMessage bytes + checksum *)
Definition request_frame_len (svc meth : name) (rq : bytes) : Z :=
  4 + (11 + (1 + vlen svc + Z.of_nat (length svc)) + (1 + vlen meth + Z.of_nat (length meth)) +
       (1 + vlen rq + Z.of_nat (length rq))) + 4.
Definition reply_frame_len (rs : bytes) : Z := 4 + (11 + (1 + vlen rs + Z.of_nat (length rs))) + 4.

(* in C18's terms ([fits]: tag + payload + checksum <= kMaxMessageLen), for the three kinds of RpcMessage a
   channel writes; the id, a fixed64, does not matter *)
Lemma request_msg_fits i svc meth rq :
  fits rpctag (wire_ser (mkMsg MT_REQUEST i (Some svc) (Some meth) (Some rq) None None)) <->
  request_frame_len svc meth rq <= kMaxMessageLen.
Proof.
  rewrite fits_wire_len. unfold wire_len, request_frame_len.
  cbn [m_service m_method m_request m_response m_error flen]. lia.
Qed.

Lemma reply_msg_fits i rs :
  fits rpctag (wire_ser (mkMsg MT_RESPONSE i None None None (Some rs) None)) <-> reply_frame_len rs <= kMaxMessageLen.
Proof.
  rewrite fits_wire_len. unfold wire_len, reply_frame_len.
  cbn [m_service m_method m_request m_response m_error flen]. lia.
Qed.

Lemma error_msg_fits i e : fits rpctag (wire_ser (mkMsg MT_RESPONSE i None None None None (Some e))).
Proof.
  apply fits_wire_len. unfold wire_len.
  cbn [m_service m_method m_request m_response m_error flen]. pose proof kMax_holds_error_reply. lia.
Qed.

(* the plain sufficient condition *)
Lemma request_fits_if svc meth rq :
  Z.of_nat (length svc) + Z.of_nat (length meth) + Z.of_nat (length rq) + 37 <= kMaxMessageLen ->
  request_frame_len svc meth rq <= kMaxMessageLen.
Proof.
  intros H. pose proof kMax_below_short as K. unfold request_frame_len.
  pose proof (vlen_bounds svc ltac:(lia)). pose proof (vlen_bounds meth ltac:(lia)). pose proof (vlen_bounds rq ltac:(lia)). lia.
Qed.

Lemma reply_fits_if rs :
  Z.of_nat (length rs) + 25 <= kMaxMessageLen -> reply_frame_len rs <= kMaxMessageLen.
Proof.
  intros H. pose proof kMax_below_short as K. unfold reply_frame_len. pose proof (vlen_bounds rs ltac:(lia)). lia.
Qed.

(* a frame within kMaxMessageLen has every field below 2 GiB *)
Lemma request_short svc meth rq :
  request_frame_len svc meth rq <= kMaxMessageLen -> short svc /\ short meth /\ short rq.
Proof.
  intros H. pose proof kMax_below_short as K. unfold request_frame_len in H. unfold short.
  pose proof (vlen_nonneg svc). pose proof (vlen_nonneg meth). pose proof (vlen_nonneg rq). lia.
Qed.

Lemma reply_short rs : reply_frame_len rs <= kMaxMessageLen -> short rs.
Proof.
  intros H. pose proof kMax_below_short as K. unfold reply_frame_len in H. unfold short. pose proof (vlen_nonneg rs). lia.
Qed.

Lemma NoDup_app_l {A} (a b : list A) : NoDup (a ++ b) -> NoDup a.
Proof.
  induction a as [|x a IH]; intros H; [constructor|]. cbn [app] in H. inversion H; subst.
  constructor; [|auto]. intros Hx. apply H2. apply in_or_app. auto.
Qed.

Lemma frames_app a b : frames (a ++ b) = frames a ++ frames b.
Proof. apply filter_app. Qed.

Lemma events_one l ev : events [(l, ev)] = ev.
Proof. unfold events. cbn [flat_map snd]. apply app_nil_r. Qed.

Lemma cstep_next_id c l c' ev : C19_Model.cstep c l = Some (c', ev) -> next_id (core c) <= next_id (core c').
Proof.
  destruct l as [l0|]; intros H.
  - destruct (cstep_plain _ _ _ _ H) as (ev0 & Hst & _). destruct (step_next_id _ _ _ _ Hst) as [[_ E]|[_ E]]; lia.
  - unfold C19_Model.cstep in H. cbn [cstep_gen] in H. destruct (up c); [|discriminate].
    destruct (owned c); inversion H; subst; cbn [core drop_outs next_id]; lia.
Qed.

Section CodecSys.
  Variable wire_of : bytes -> bytes.
  Variable content_of : bytes -> payload.
  Hypothesis user_roundtrip : forall m, content_of (wire_of m) = Valid m.

  Notation sstep_ := (sys_step wire_of content_of).
  Notation sexec := (sys_exec wire_of content_of).
  Notation bstep_ := (bstep wire_of content_of).
  Notation bexec_ := (bexec wire_of content_of).
  Notation arrives := (arrives_as wire_of content_of).
  Notation fok := (frame_ok wire_of).

  (* the second half of [frame_ok]: the frame's length field is within kMaxMessageLen *)
  Definition event_fits (e : event) : Prop :=
    match msg_of_event wire_of e with Some m => fits rpctag (wire_ser m) | None => False end.

  (* ... which does not depend on the id (a fixed64) *)
  Lemma request_fits i svc meth req :
    event_fits (ESendRequest i svc meth req) <-> request_frame_len svc meth (wire_of req) <= kMaxMessageLen.
  Proof. unfold event_fits. cbn [msg_of_event]. apply request_msg_fits. Qed.

  Lemma reply_fits i m :
    event_fits (ESendResponse i (RReply m)) <-> reply_frame_len (wire_of m) <= kMaxMessageLen.
  Proof. unfold event_fits. cbn [msg_of_event]. apply reply_msg_fits. Qed.

  Lemma error_reply_fits i e : event_fits (ESendResponse i (RError e)).
  Proof. unfold event_fits. cbn [msg_of_event]. apply error_msg_fits. Qed.

  (* what the peer's channel takes for a frame the codec carries is the direct label *)
  Lemma arrives_direct e : fok e -> arrives e = direct_label e.
  Proof.
    intros He. destruct (frame_ok_sendable wire_of e He) as (m & Hm & (Hw & _)).
    unfold arrives_as. rewrite Hm, (wire_roundtrip m Hw). apply (label_of_frame wire_of content_of user_roundtrip); assumption.
  Qed.

  (* ================================================================== client and server *)
  (* every call and every reply of the history makes a frame within kMaxMessageLen *)
  Definition label_fits (l : slabel) : Prop :=
    match l with
    | SCall (LFetch _ c) => request_frame_len (c_svc c) (c_meth c) (wire_of (c_req c)) <= kMaxMessageLen
    | SDone _ m => reply_frame_len (wire_of m) <= kMaxMessageLen
    | _ => True
    end.
  Definition sys_fits (ls : list slabel) : Prop := forall l, In l ls -> label_fits l.

  Lemma sys_fits_wf ls : sys_fits ls -> sys_wf wire_of ls.
  Proof.
    intros H l Hl. specialize (H l Hl). destruct l as [[t c|t|t|i b|r|k m|i]| |k m|]; cbn [label_wf label_fits] in *; auto.
    - apply request_short. exact H.
    - apply reply_short. exact H.
  Qed.

  (* the frames each side handed to its codec, in order; the labels each side's channel took from the connection *)
  Definition sent_c (tr : strace) : list event := frames (events (cproj tr)).
  Definition sent_s (tr : strace) : list event := frames (events (sproj tr)).
  Definition taken_s (tr : strace) : list (option label) :=
    flat_map (fun p => match fst p, ss_sv (snd p) with SReq, Some x => [Some (fst x)] | _, _ => [] end) tr.
  Definition taken_c (tr : strace) : list (option label) :=
    flat_map (fun p => match fst p, ss_cl (snd p) with SResp, Some x => [Some (fst x)] | _, _ => [] end) tr.

  (* [sent] = the frames already taken by the peer's channel, each as its direct label, then the queue *)
  Definition delivered_prefix (sent : list event) (taken : list (option label)) (queue : list event) : Prop :=
    exists D, sent = D ++ queue /\ taken = map direct_label D.

  Lemma origin_frame_ok svcs ls y tr i svc meth req :
    sexec (sys_init svcs) ls = Some (y, tr) -> sys_fits ls -> next_id (cl y) < 9223372036854775808 ->
    origin ls tr i svc meth req -> int64 i /\ fok (ESendRequest i svc meth req).
  Proof.
    intros H Hf Hid (t & t' & c & A & B & -> & -> & ->).
    destruct (projections wire_of content_of _ _ _ _ H) as [HC _]. cbn [sys_init cl] in HC.
    destruct (exec_ids _ _ _ _ HC) as (_ & Hin & _). pose proof (Hin i (in_fetched_ids _ _ _ _ B)) as Hr. cbn [init next_id] in Hr.
    pose proof (Hf _ A) as Fc. cbn [label_fits] in Fc.
    assert (int64 i) as Hi by (unfold int64; lia).
    split; [exact Hi|]. destruct (request_short _ _ _ Fc) as (S1 & S2 & S3).
    split; [exact (conj Hi (conj S1 (conj S2 S3)))|apply request_fits; exact Fc].
  Qed.

  Lemma queues_ok svcs ls y tr :
    sexec (sys_init svcs) ls = Some (y, tr) -> sys_fits ls -> NoDup (sfetch_tags ls) ->
    next_id (cl y) < 9223372036854775808 ->
    Forall fok (c2s y) /\ Forall fok (s2c y).
  Proof.
    intros H Hf Hnd Hid.
    pose proof (sinv_holds wire_of content_of user_roundtrip svcs ls y tr H (sys_fits_wf ls Hf) Hnd Hid) as [IF IC IP IS IR].
    split; apply Forall_forall; intros e He.
    - destruct (IC e He) as (i & svc & meth & req & -> & Ho). exact (proj2 (origin_frame_ok _ _ _ _ _ _ _ _ H Hf Hid Ho)).
    - destruct (IS e He) as (i & r & -> & Hr). destruct r as [m|e'].
      + destruct Hr as (k & svc & meth & req & A & _ & C). destruct (origin_frame_ok _ _ _ _ _ _ _ _ H Hf Hid C) as (Hi & _).
        pose proof (Hf _ A) as Fm. cbn [label_fits] in Fm.
        split; [split; [exact Hi|exact (reply_short _ Fm)]|apply reply_fits; exact Fm].
      + destruct Hr as (svc & meth & req & C & _). destruct (origin_frame_ok _ _ _ _ _ _ _ _ H Hf Hid C) as (Hi & _).
        split; [exact Hi|apply error_reply_fits].
  Qed.

  Lemma sstep_next_id y l y' st : sstep_ y l = Some (y', st) -> next_id (cl y) <= next_id (cl y').
  Proof.
    intros Hs. destruct l as [l0| |k m|].
    - destruct (step_call wire_of content_of _ _ _ _ Hs) as (ev & Hst & _). destruct (step_next_id _ _ _ _ Hst) as [[_ E]|[_ E]]; lia.
    - destruct (step_req wire_of content_of _ _ _ Hs) as (e & q & r & ev & _ & _ & _ & _ & E & _). rewrite E. lia.
    - destruct (step_sdone wire_of content_of _ _ _ _ _ Hs) as (ev & _ & _ & E & _). rewrite E. lia.
    - destruct (step_resp wire_of content_of _ _ _ Hs) as (e & q & i & b & ev & _ & _ & Hst & _). destruct (step_next_id _ _ _ _ Hst) as [[_ E]|[_ E]]; lia.
  Qed.

  (* every frame ever handed to a codec in the history is one the codec carries, and what the peer's
     channel took in the history is an initial segment of it, frame by frame *)
  Lemma sent_ok svcs ls : forall y tr,
    sexec (sys_init svcs) ls = Some (y, tr) -> sys_fits ls -> NoDup (sfetch_tags ls) ->
    next_id (cl y) < 9223372036854775808 ->
    Forall fok (sent_c tr) /\ Forall fok (sent_s tr) /\
    delivered_prefix (sent_c tr) (taken_s tr) (c2s y) /\ delivered_prefix (sent_s tr) (taken_c tr) (s2c y).
  Proof.
    induction ls as [|l ls IH] using rev_ind; intros y tr H Hf Hnd Hid.
    - inversion H; subst. cbn. repeat split; try constructor; exists []; split; reflexivity.
    - pose proof (queues_ok _ _ _ _ H Hf Hnd Hid) as [Q1 Q2].
      apply sexec_snoc in H. destruct H as (y1 & tr1 & st & H1 & Hs & ->).
      assert (sys_fits ls) as Hf1 by (intros x Hx; apply Hf; apply in_or_app; auto).
      assert (NoDup (sfetch_tags ls)) as Hnd1 by (unfold sfetch_tags in *; rewrite flat_map_app in Hnd; exact (NoDup_app_l _ _ Hnd)).
      pose proof (sstep_next_id _ _ _ _ Hs) as Hmono.
      destruct (IH _ _ H1 Hf1 Hnd1 ltac:(lia)) as (A1 & A2 & (D1 & E1 & T1) & (D2 & E2 & T2)).
      pose proof (queues_ok _ _ _ _ H1 Hf1 Hnd1 ltac:(lia)) as [P1 P2].
      unfold sent_c, sent_s, taken_s, taken_c, delivered_prefix in *.
      rewrite cproj_app, sproj_app, !events_app, !frames_app, !flat_map_app.
      destruct l as [l0| |k m|].
      + destruct (step_call wire_of content_of _ _ _ _ Hs) as (ev & Hst & -> & Hsv & Hc2s & Hs2c & Hk).
        rewrite cproj_one, sproj_none, events_one. cbn [flat_map fst snd ss_sv ss_cl app events frames filter]. rewrite ?app_nil_r.
        rewrite Hc2s in Q1. apply Forall_app in Q1. destruct Q1 as [_ Q1].
        split; [apply Forall_app; split; assumption|]. split; [exact A2|]. split.
        * exists D1. rewrite Hc2s, E1, app_assoc. split; [reflexivity|exact T1].
        * exists D2. rewrite Hs2c. split; [exact E2|exact T2].
      + destruct (step_req wire_of content_of _ _ _ Hs) as (e & q & r & ev & Hq & Har & Hst & -> & Hcl & Hc2s & Hs2c).
        rewrite cproj_none, sproj_one, events_one. cbn [flat_map fst snd ss_sv ss_cl app events frames filter]. rewrite ?app_nil_r.
        rewrite Hs2c in Q2. apply Forall_app in Q2. destruct Q2 as [_ Q2].
        split; [exact A1|]. split; [apply Forall_app; split; assumption|]. split.
        * rewrite Hq in P1, E1. pose proof (Forall_inv P1) as Pe.
          rewrite (arrives_direct e Pe) in Har.
          exists (D1 ++ [e]). rewrite Hc2s, <- app_assoc. split; [exact E1|]. rewrite map_app, T1, <- Har. reflexivity.
        * exists D2. rewrite Hs2c, E2, app_assoc. split; [reflexivity|exact T2].
      + destruct (step_sdone wire_of content_of _ _ _ _ _ Hs) as (ev & Hst & -> & Hcl & Hc2s & Hs2c).
        rewrite cproj_none, sproj_one, events_one. cbn [flat_map fst snd ss_sv ss_cl app events frames filter]. rewrite ?app_nil_r.
        rewrite Hs2c in Q2. apply Forall_app in Q2. destruct Q2 as [_ Q2].
        split; [exact A1|]. split; [apply Forall_app; split; assumption|]. split.
        * exists D1. rewrite Hc2s. split; [exact E1|exact T1].
        * exists D2. rewrite Hs2c, E2, app_assoc. split; [reflexivity|exact T2].
      + destruct (step_resp wire_of content_of _ _ _ Hs) as (e & q & i & b & ev & Hq & Har & Hst & -> & Hsv & Hc2s & Hs2c).
        rewrite cproj_one, sproj_none, events_one. cbn [flat_map fst snd ss_sv ss_cl app events frames filter]. rewrite ?app_nil_r.
        assert (frames ev = []) as Hfe.
        { apply step_response in Hst. destruct Hst as (_ & [(c & _ & _ & ->)|(_ & _ & ->)]); [|reflexivity].
          unfold complete. destruct (c_resp c), (c_done c); reflexivity. }
        rewrite Hfe, ?app_nil_r.
        split; [exact A1|]. split; [exact A2|]. split.
        * exists D1. rewrite Hc2s. split; [exact E1|exact T1].
        * rewrite Hq in P2, E2. pose proof (Forall_inv P2) as Pe.
          rewrite (arrives_direct e Pe) in Har.
          exists (D2 ++ [e]). rewrite Hs2c, <- app_assoc. split; [exact E2|]. rewrite map_app, T2, <- Har. reflexivity.
  Qed.

  (* the abstract delivery is the codec's delivery: for ANY segmentation of the bytes the sender's codec
     wrote for [sent], C18's decoder delivers, without error, one message per frame; the labels the
     peer's channel took in the history are the first k of them, the queue is the rest *)
  Definition over_codec (sent : list event) (taken : list (option label)) (queue : list event) : Prop :=
    exists k, forall chunks, concat chunks = stream_of wire_of sent ->
      let r := rpc_feed_all codec_init chunks in
      snd r = mkD tt [] false false /\
      taken = firstn k (labels_of content_of (fst r)) /\
      map direct_label queue = skipn k (labels_of content_of (fst r)).

  Lemma prefix_over_codec sent taken queue :
    Forall fok sent -> delivered_prefix sent taken queue -> over_codec sent taken queue.
  Proof.
    intros Hok (D & -> & ->). exists (length (map direct_label D)). intros chunks Hc.
    destruct (frames_arrive_over_bytes wire_of content_of user_roundtrip _ _ Hok Hc) as [HL HS]. cbv zeta.
    split; [exact HS|]. rewrite HL, map_app.
    rewrite firstn_app, skipn_app, Nat.sub_diag, firstn_all, skipn_all. cbn [firstn skipn app]. rewrite app_nil_r.
    split; reflexivity.
  Qed.

  Theorem end_to_end_over_codec svcs ls y tr :
    sexec (sys_init svcs) ls = Some (y, tr) ->
    sys_fits ls -> NoDup (sfetch_tags ls) -> next_id (cl y) < 9223372036854775808 ->
    ((forall l st ev tg sn, In (l, st) tr -> ss_cl st = Some ev -> In (ERun tg sn) (snd ev) -> served svcs ls tr tg sn) /\
     (forall tg, (count_occ Nat.eq_dec (run_tags (events (cproj tr))) tg <= 1)%nat) /\
     (quiescent y -> forall t c, In (SCall (LFetch t c)) ls ->
        count_occ Nat.eq_dec (run_tags (events (cproj tr))) (c_tag c) = (if c_done c then 1 else 0)%nat /\
        count_occ Nat.eq_dec (del_tags (events (cproj tr))) (c_tag c) = 1%nat)) /\
    (Forall fok (sent_c tr) /\ Forall fok (sent_s tr)) /\
    over_codec (sent_c tr) (taken_s tr) (c2s y) /\ over_codec (sent_s tr) (taken_c tr) (s2c y).
  Proof.
    intros H Hf Hnd Hid.
    destruct (sent_ok _ _ _ _ H Hf Hnd Hid) as (A1 & A2 & B1 & B2).
    split; [exact (end_to_end wire_of content_of user_roundtrip _ _ _ _ H (sys_fits_wf ls Hf) Hnd Hid)|].
    split; [split; assumption|]. split; apply prefix_over_codec; assumption.
  Qed.

  (* ================================================================== both ends calling and serving, with DOWN *)
  Definition blabel_fits (l : blabel) : Prop :=
    match l with
    | BCall _ (LFetch _ c) => request_frame_len (c_svc c) (c_meth c) (wire_of (c_req c)) <= kMaxMessageLen
    | BDone _ _ m => reply_frame_len (wire_of m) <= kMaxMessageLen
    | _ => True
    end.
  Definition bsys_fits (ls : list blabel) : Prop := forall l, In l ls -> blabel_fits l.

  Lemma bsys_fits_wf ls : bsys_fits ls -> bsys_wf wire_of ls.
  Proof.
    intros H l Hl. specialize (H l Hl). destruct l as [w [t c|t|t|i b|r|k m|i]|w|w k m|w]; cbn [blabel_wf blabel_fits] in *; auto.
    - apply request_short. exact H.
    - apply reply_short. exact H.
  Qed.

  (* the frames end w handed to its codec (none once its connection is down); the labels end w's channel
     took from the connection *)
  Definition bsent (w : side) (tr : btrace) : list event := frames (cevents (bproj w tr)).
  Definition btaken (w : side) (tr : btrace) : list (option label) :=
    flat_map (fun p => match fst p, bs_label (snd p) with
                       | BDeliver w', CL l => if side_eqb w' w then [Some l] else []
                       | _, _ => []
                       end) tr.

  Lemma sub_labels_fits w ls y y' tr :
    bexec_ y ls = Some (y', tr) -> bsys_fits ls -> sys_fits (sub_labels w tr).
  Proof.
    intros H Hwf sl Hin. unfold sub_labels in Hin. apply in_flat_map in Hin. destruct Hin as ([l st] & Hp & Hsl).
    destruct (btrace_steps wire_of content_of _ _ _ _ H _ _ Hp) as (Hl & y1 & y2 & Hs).
    destruct (sub_label_cases wire_of content_of w _ _ _ _ Hs) as (_ & B1 & C1 & D1).
    destruct (D1 _ Hsl) as [(t & c & ->)|[(k & m & ->)|[(t & ->)|[(t & ->)|[->| ->]]]]]; cbn [label_fits]; auto.
    - pose proof (B1 _ _ Hsl) as ->. exact (Hwf _ Hl).
    - pose proof (C1 _ _ Hsl) as ->. exact (Hwf _ Hl).
  Qed.

  (* the direction "called at v, served at the other end": its requests queued towards the other end and
     its responses queued towards v are frames the codec carries *)
  Lemma bdir_ok oA oB sA sB ls y tr v :
    bexec_ (binit oA oB sA sB) ls = Some (y, tr) -> bsys_fits ls -> (forall w, NoDup (bfetch_tags w ls)) ->
    (forall w, next_id (core (bend y w)) < 9223372036854775808) ->
    Forall fok (reqs (binq y (other v))) /\ Forall fok (resps (binq y v)).
  Proof.
    intros H Hf Hnd Hid.
    destruct (subsystem wire_of content_of v _ _ _ _ _ _ _ H) as (z & trz & Hx & (R1 & R2 & (xc & R3 & _) & (xs & R4 & _)) & _).
    destruct (sub_labels_facts wire_of content_of v _ _ _ _ H) as (FT & _).
    assert (next_id (cl z) < 9223372036854775808) as Hidz.
    { destruct R1 as (s & -> & [Rs|(_ & _ & Rs)]); cbn [cpart next_id]; specialize (Hid v); rewrite Rs in Hid; exact Hid. }
    destruct (queues_ok _ _ _ _ Hx (sub_labels_fits v _ _ _ _ H Hf) ltac:(rewrite FT; apply Hnd) Hidz) as [Q1 Q2].
    rewrite R3 in Q1. rewrite R4 in Q2. apply Forall_app in Q1. apply Forall_app in Q2. tauto.
  Qed.

  Lemma frame_in_parts (P : event -> Prop) l e :
    Forall P (reqs l) -> Forall P (resps l) -> In e l -> is_frame e = true -> P e.
  Proof.
    intros Hq Hp Hin Hf. rewrite Forall_forall in Hq, Hp. unfold reqs, resps in *.
    destruct e; try discriminate; [apply Hq|apply Hp]; apply filter_In; split; auto.
  Qed.

  Lemma bqueue_ok oA oB sA sB ls y tr w :
    bexec_ (binit oA oB sA sB) ls = Some (y, tr) -> bsys_fits ls -> (forall w, NoDup (bfetch_tags w ls)) ->
    (forall w, next_id (core (bend y w)) < 9223372036854775808) ->
    forall e, In e (binq y w) -> is_frame e = true -> fok e.
  Proof.
    intros H Hf Hnd Hid e Hin Hfr.
    pose proof (proj1 (bdir_ok _ _ _ _ _ _ _ (other w) H Hf Hnd Hid)) as Q1. rewrite other_other in Q1.
    pose proof (proj2 (bdir_ok _ _ _ _ _ _ _ w H Hf Hnd Hid)) as Q2.
    exact (frame_in_parts _ _ _ Q1 Q2 Hin Hfr).
  Qed.

  Lemma bsent_ok oA oB sA sB ls : forall y tr,
    bexec_ (binit oA oB sA sB) ls = Some (y, tr) -> bsys_fits ls -> (forall w, NoDup (bfetch_tags w ls)) ->
    (forall w, next_id (core (bend y w)) < 9223372036854775808) ->
    forall w, Forall fok (bsent w tr) /\ delivered_prefix (bsent (other w) tr) (btaken w tr) (binq y w).
  Proof.
    induction ls as [|l ls IH] using rev_ind; intros y tr H Hf Hnd Hid w.
    - inversion H; subst. split; [constructor|]. exists []. destruct w; split; reflexivity.
    - pose proof (fun v => bqueue_ok _ _ _ _ _ _ _ v H Hf Hnd Hid) as Q.
      apply bexec_snoc in H. destruct H as (y1 & tr1 & st & H1 & Hs & ->).
      assert (bsys_fits ls) as Hf1 by (intros x Hx; apply Hf; apply in_or_app; auto).
      assert (forall v, NoDup (bfetch_tags v ls)) as Hnd1.
      { intros v. specialize (Hnd v). unfold bfetch_tags in *. rewrite flat_map_app in Hnd. exact (NoDup_app_l _ _ Hnd). }
      destruct (bstep_inv wire_of content_of _ _ _ _ Hs) as (Hc & Ho & Hq & Hl). cbv zeta in Hc, Ho, Hq, Hl.
      assert (forall v, next_id (core (bend y1 v)) < 9223372036854775808) as Hid1.
      { intros v. specialize (Hid v). destruct (side_cases v (bs_side st)) as [->| ->].
        - pose proof (cstep_next_id _ _ _ _ Hc). lia.
        - rewrite Ho in Hid. exact Hid. }
      pose proof (fun v => bqueue_ok _ _ _ _ _ _ _ v H1 Hf1 Hnd1 Hid1) as P.
      destruct (IH _ _ H1 Hf1 Hnd1 Hid1 w) as (A1 & (D1 & E1 & T1)).
      assert (Forall fok (frames (bs_events st))) as Hnew.
      { apply Forall_forall. intros e He. apply (Q (other (bs_side st))).
        - rewrite Hq. apply in_or_app. auto.
        - unfold frames in He. apply filter_In in He. tauto. }
      unfold bsent, btaken, delivered_prefix in *.
      rewrite !bproj_app, !cevents_app, !bproj_single, !frames_app, flat_map_app.
      cbn [flat_map fst snd]. rewrite (app_nil_r (match l with BDeliver _ => _ | _ => _ end)).
      destruct (side_cases (bs_side st) w) as [Ea|Ea].
      + (* the acting end is w: it may take the oldest frame of its queue *)
        rewrite Ea in *. rewrite side_eqb_refl, (proj1 (side_eqb_other w)). cbn [frames filter]. rewrite app_nil_r.
        split; [apply Forall_app; split; assumption|].
        destruct l as [w' l0|w'|w' k m|w'].
        * destruct Hl as (_ & _ & Hqa & _). exists D1. rewrite Hqa, app_nil_r. split; [exact E1|exact T1].
        * destruct Hl as (-> & e & q & Hq1 & Hq2 & Hk).
          assert (In e (binq y1 w)) as Hin by (rewrite Hq1; left; reflexivity).
          assert (exists l0, arrives e = Some l0 /\ bs_label st = CL l0 /\ is_frame e = true) as (l0 & Har & El & Hfr).
          { destruct Hk as [(i & svc & meth & req & r & -> & Ha & E)|(i & rp & j & b & -> & Ha & E)]; eauto. }
          rewrite (arrives_direct e (P w e Hin Hfr)) in Har.
          rewrite El, side_eqb_refl. exists (D1 ++ [e]). rewrite Hq2, <- app_assoc. rewrite Hq1 in E1.
          split; [exact E1|]. rewrite map_app, T1, <- Har. reflexivity.
        * destruct Hl as (_ & _ & Hqa). exists D1. rewrite Hqa, app_nil_r. split; [exact E1|exact T1].
        * destruct Hl as (_ & _ & Hqa & _). exists D1. rewrite Hqa, app_nil_r. split; [exact E1|exact T1].
      + (* the acting end is the other one: what it writes is queued towards w *)
        rewrite Ea in *. rewrite other_other in *. rewrite side_eqb_refl, (proj2 (side_eqb_other w)). cbn [frames filter]. rewrite app_nil_r.
        split; [exact A1|].
        assert (match l with
                | BDeliver w' => match bs_label st with CL l0 => if side_eqb w' w then [Some l0] else [] | CDown => [] end
                | _ => []
                end = []) as ->.
        { destruct l as [w' l0|w'|w' k m|w']; try reflexivity. destruct Hl as (-> & _).
          rewrite (proj2 (side_eqb_other w)). destruct (bs_label st); reflexivity. }
        exists D1. rewrite Hq, E1, app_assoc, app_nil_r. split; [reflexivity|exact T1].
  Qed.

  Theorem bidirectional_over_codec oA oB sA sB ls y tr :
    bexec_ (binit oA oB sA sB) ls = Some (y, tr) ->
    bsys_fits ls -> (forall w, NoDup (bfetch_tags w ls)) ->
    (forall w, next_id (core (bend y w)) < 9223372036854775808) ->
    forall w,
      ((forall tg sn, In (ERun tg sn) (cevents (bproj w tr)) -> bserved sA sB ls tr w tg sn) /\
       (forall tg, (count_occ Nat.eq_dec (run_tags (cevents (bproj w tr))) tg <= 1)%nat) /\
       (bquiescent y -> forall t c, In (BCall w (LFetch t c)) ls ->
          count_occ Nat.eq_dec (run_tags (cevents (bproj w tr))) (c_tag c) = (if c_done c then 1 else 0)%nat /\
          count_occ Nat.eq_dec (del_tags (cevents (bproj w tr))) (c_tag c) = 1%nat)) /\
      Forall fok (bsent w tr) /\
      over_codec (bsent (other w) tr) (btaken w tr) (binq y w).
  Proof.
    intros H Hf Hnd Hid w.
    split; [exact (bidirectional wire_of content_of user_roundtrip _ _ _ _ _ _ _ H (bsys_fits_wf ls Hf) Hnd Hid w)|].
    destruct (bsent_ok _ _ _ _ _ _ _ H Hf Hnd Hid w) as (A & B).
    split; [exact A|]. apply prefix_over_codec; [|exact B].
    exact (proj1 (bsent_ok _ _ _ _ _ _ _ H Hf Hnd Hid (other w))).
  Qed.
End CodecSys.

(* the sizes, in one statement *)
Theorem frame_sizes :
  (forall i svc meth rq,
     fits rpctag (wire_ser (mkMsg MT_REQUEST i (Some svc) (Some meth) (Some rq) None None)) <->
     request_frame_len svc meth rq <= kMaxMessageLen) /\
  (forall i rs,
     fits rpctag (wire_ser (mkMsg MT_RESPONSE i None None None (Some rs) None)) <-> reply_frame_len rs <= kMaxMessageLen) /\
  (forall i e, fits rpctag (wire_ser (mkMsg MT_RESPONSE i None None None None (Some e)))) /\
  (forall svc meth rq,
     Z.of_nat (length svc) + Z.of_nat (length meth) + Z.of_nat (length rq) + 37 <= kMaxMessageLen ->
     request_frame_len svc meth rq <= kMaxMessageLen) /\
  (forall rs, Z.of_nat (length rs) + 25 <= kMaxMessageLen -> reply_frame_len rs <= kMaxMessageLen) /\
  (forall wire_of ls, sys_fits wire_of ls -> sys_wf wire_of ls) /\
  (forall wire_of ls, bsys_fits wire_of ls -> bsys_wf wire_of ls).
Proof.
  split; [exact request_msg_fits|]. split; [exact reply_msg_fits|]. split; [exact error_msg_fits|].
  split; [exact request_fits_if|]. split; [exact reply_fits_if|]. split; [exact sys_fits_wf|exact bsys_fits_wf].
Qed.
