(* C07_Model: the add-vs-fire race of TimerQueue::addTimer called from a foreign thread (F-7).
   addTimer = new Timer (alloc) ; loop_->runInLoop(addTimerInLoop) (hand-off) ; timer->sequence() (read)
   in the pinned order, or alloc ; read ; hand-off in the repaired order.  Which order the current
   sources have is the generated fact Gen_C07.TimerQueue_addTimer_reads_seq_after_handoff.
   The loop thread interleaves freely: it runs the queued functor (insert) and, the timer being
   already due, expires it and deletes it (one-shot).  A schedule is a list of thread choices.
   The rest of C07 uses the TimerModel of C06_Model.  No proofs here. *)
From Coq Require Import List Bool.
From Muduo Require Import Gen_C07.
Import ListNotations.

Inductive pc := P0 | P1 | P2 | P3.            (* foreign thread: before alloc / after 1st / 2nd / 3rd micro-step *)
Inductive tm := NotAlloc | Live | Freed.      (* the Timer object *)
Record rs := mkR { fpc : pc; obj : tm; queued : bool; inserted : bool;
                   uaf : bool;                (* the read touched freed memory *)
                   got : bool }.              (* the read returned the Timer's own sequence number *)
Definition rs0 : rs := mkR P0 NotAlloc false false false false.

Definition do_read (s : rs) (next : pc) : rs :=
  mkR next (obj s) (queued s) (inserted s)
      (uaf s || match obj s with Freed => true | _ => false end)
      (match obj s with Live => true | _ => got s end).
Definition do_handoff (s : rs) (next : pc) : rs := mkR next (obj s) true (inserted s) (uaf s) (got s).

(* one micro-step of the foreign thread; [after] = sequence() is read after the hand-off *)
Definition fstep (after : bool) (s : rs) : rs :=
  match fpc s with
  | P0 => mkR P1 Live (queued s) (inserted s) (uaf s) (got s)
  | P1 => if after then do_handoff s P2 else do_read s P2
  | P2 => if after then do_read s P3 else do_handoff s P3
  | P3 => s
  end.
(* one step of the loop thread: doPendingFunctors runs addTimerInLoop; then handleRead runs the due
   one-shot and TimerQueue::reset deletes it *)
Definition lstep (s : rs) : rs :=
  if queued s && negb (inserted s) then mkR (fpc s) (obj s) (queued s) true (uaf s) (got s)
  else if inserted s && match obj s with Live => true | _ => false end
       then mkR (fpc s) Freed (queued s) (inserted s) (uaf s) (got s)
  else s.
(* true = the foreign thread moves, false = the loop thread moves *)
Fixpoint exec (after : bool) (s : rs) (sched : list bool) : rs :=
  match sched with
  | [] => s
  | true :: r => exec after (fstep after s) r
  | false :: r => exec after (lstep s) r
  end.
Definition current_order : bool := TimerQueue_addTimer_reads_seq_after_handoff.
