(* C04_Proofs: invariants of LoopModel over all reachable states (all numbers of foreign threads,
   all programs and scripts, all schedules). *)
From Coq Require Import List Bool Arith Lia.
Import ListNotations.
From Muduo Require Import C04_Model.

(* reachability without time-outs: TSpur (a poll that returns although nothing is ready) is NOT
   a step of `reach`; `reach_t` allows it. *)
Inductive reach (sh : shape) (scr : scripts) (s0 : st) : st -> Prop :=
| reach0 : reach sh scr s0 s0
| reachS : forall s lab s', reach sh scr s0 s -> lab <> TSpur -> step sh scr s lab = Some s' ->
                            reach sh scr s0 s'.
Inductive reach_t (sh : shape) (scr : scripts) (s0 : st) : st -> Prop :=
| reach_t0 : reach_t sh scr s0 s0
| reach_tS : forall s lab s', reach_t sh scr s0 s -> step sh scr s lab = Some s' -> reach_t sh scr s0 s'.

Lemma reach_reach_t : forall sh scr s0 s, reach sh scr s0 s -> reach_t sh scr s0 s.
Proof. induction 1; [constructor|econstructor; eauto]. Qed.

Lemma run_reach_t : forall sh scr labs s0 s, run sh scr s0 labs = Some s -> reach_t sh scr s0 s.
Proof.
  intros sh scr labs s0 s H.
  assert (G : forall labs a b, reach_t sh scr s0 a -> run sh scr a labs = Some b -> reach_t sh scr s0 b).
  { induction labs0 as [|l r IH]; cbn; intros a b Ha Hr.
    - injection Hr as <-; exact Ha.
    - destruct (step sh scr a l) eqn:E; [|discriminate]. eapply IH; [|exact Hr]. econstructor; eauto. }
  eapply G; [constructor|exact H].
Qed.

Lemma run_reach : forall sh scr labs s0 s, Forall (fun l => l <> TSpur) labs ->
  run sh scr s0 labs = Some s -> reach sh scr s0 s.
Proof.
  intros sh scr labs s0 s HF H.
  assert (G : forall labs a b, Forall (fun l => l <> TSpur) labs -> reach sh scr s0 a ->
                               run sh scr a labs = Some b -> reach sh scr s0 b).
  { induction labs0 as [|l r IH]; cbn; intros a b Hf Ha Hr.
    - injection Hr as <-; exact Ha.
    - destruct (step sh scr a l) eqn:E; [|discriminate]. inversion Hf; subst.
      eapply IH; [assumption| |exact Hr]. econstructor; eauto. }
  eapply G; [exact HF|constructor|exact H].
Qed.

(* ---------------------------------------------------------------- list helpers *)
Lemma upd_nth_same : forall A (l : list A) i x y, nth_error l i = Some x -> nth_error (upd l i y) i = Some y.
Proof. induction l as [|a l IH]; destruct i; cbn; intros; try discriminate; eauto. Qed.

Lemma upd_nth_other : forall A (l : list A) i j y, i <> j -> nth_error (upd l i y) j = nth_error l j.
Proof. induction l as [|a l IH]; destruct i, j; cbn; intros; try congruence; eauto. Qed.

Lemma existsb_upd : forall A (f : A -> bool) l i x y, nth_error l i = Some x ->
  existsb f l = true -> (f x = true -> f y = true) -> existsb f (upd l i y) = true.
Proof.
  induction l as [|a l IH]; destruct i; cbn; intros x y Hn He Hf; try discriminate.
  - injection Hn as ->. apply orb_true_iff in He as [He|He]; apply orb_true_iff; auto.
  - apply orb_true_iff in He as [He|He]; apply orb_true_iff; eauto.
Qed.

Lemma existsb_upd_new : forall A (f : A -> bool) l i x y, nth_error l i = Some x ->
  f y = true -> existsb f (upd l i y) = true.
Proof.
  induction l as [|a l IH]; destruct i; cbn; intros x y Hn Hf; try discriminate.
  - rewrite Hf; reflexivity.
  - apply orb_true_iff; right; eauto.
Qed.

Lemma forallb_nth : forall A (f : A -> bool) l i x, forallb f l = true -> nth_error l i = Some x -> f x = true.
Proof.
  induction l as [|a l IH]; destruct i; cbn; intros x Hf Hn; try discriminate;
    apply andb_true_iff in Hf as [H1 H2]; [injection Hn as <-; exact H1 | eauto].
Qed.

Lemma existsb_forallb_false : forall A (f g : A -> bool) l,
  (forall x, g x = true -> f x = false) -> forallb g l = true -> existsb f l = false.
Proof.
  induction l as [|a l IH]; cbn; intros Hfg Hg; [reflexivity|].
  apply andb_true_iff in Hg as [H1 H2]. rewrite (Hfg _ H1), IH; auto.
Qed.

Lemma subs_app : forall a b, subs (a ++ b) = subs a ++ subs b.
Proof. intros; apply flat_map_app. Qed.
Lemma execq_app : forall a b, execq (a ++ b) = execq a ++ execq b.
Proof. intros; apply flat_map_app. Qed.
Lemma subs_by_app : forall w a b, subs_by w (a ++ b) = subs_by w a ++ subs_by w b.
Proof. intros; apply flat_map_app. Qed.
Lemma qtasks_app : forall a b, qtasks (a ++ b) = qtasks a ++ qtasks b.
Proof. intros; apply flat_map_app. Qed.
Lemma quit_called_app : forall a b, quit_called (a ++ b) = quit_called a || quit_called b.
Proof. intros; apply existsb_app. Qed.

(* ---------------------------------------------------------------- effect of one micro-op *)
(* what exec_mop does to the projections everybody cares about *)
Lemma exec_mop_cases : forall sh scr who il m rest g g' c',
  exec_mop sh scr who il m rest g = (g', c') ->
  (* append *)
  (exists t, m = MQueue t /\ pending g' = pending g ++ [t] /\ log g' = log g ++ [ESub who t] /\
             evfd g' = evfd g /\ c' = MWakeTest :: rest /\ quit g' = quit g) \/
  (* anything else: queue untouched, no submission / batch execution logged *)
  (pending g' = pending g /\ subs (log g') = subs (log g) /\ execq (log g') = execq (log g) /\
   (forall w, subs_by w (log g') = subs_by w (log g)) /\
   evfd g <= evfd g' /\ (forall t, m <> MQueue t) /\
   (m = MWakeTest -> c' = rest /\ quit g' = quit g /\ (wake sh il (calling g) (looping g) = true -> 0 < evfd g')) /\
   (m = MQuitStore -> c' = rest /\ quit g' = true /\ quit_called (log g') = true) /\
   (m = MQuitWake -> c' = rest /\ quit g' = quit g /\ (qwake sh il = true -> 0 < evfd g')) /\
   (m <> MQuitStore -> quit g' = quit g /\ quit_called (log g') = quit_called (log g)) /\
   (il = false -> qtasks c' = qtasks rest)) /\
  calling g' = calling g /\ looping g' = looping g /\ (quit g = true -> quit g' = true) /\
  (quit_called (log g) = true -> quit_called (log g') = true).
Proof.
  intros sh scr who il m rest g g' c' H. unfold exec_mop in H.
  destruct m.
  - injection H as <- <-. cbn. split; [left; exists t; repeat split; reflexivity|].
    rewrite quit_called_app. cbn. rewrite orb_false_r. auto.
  - destruct (wake sh il (calling g) (looping g)) eqn:W; injection H as <- <-; cbn;
      (split; [right|]); rewrite ?subs_app, ?execq_app, ?quit_called_app; cbn; rewrite ?app_nil_r, ?orb_false_r;
      repeat split; intros; try congruence; try discriminate; try lia; auto;
      rewrite ?subs_by_app; cbn; rewrite ?app_nil_r; auto.
  - destruct il; injection H as <- <-; cbn;
      (split; [right|]); rewrite ?subs_app, ?execq_app, ?quit_called_app; cbn; rewrite ?app_nil_r, ?orb_false_r;
      repeat split; intros; try congruence; try discriminate; try lia; auto;
      rewrite ?subs_by_app; cbn; rewrite ?app_nil_r; auto.
  - injection H as <- <-; cbn.
    (split; [right|]); rewrite ?subs_app, ?execq_app, ?quit_called_app; cbn; rewrite ?app_nil_r, ?orb_true_r;
      repeat split; intros; try congruence; try discriminate; try lia; auto;
      rewrite ?subs_by_app; cbn; rewrite ?app_nil_r; auto.
  - destruct (qwake sh il) eqn:W; injection H as <- <-; cbn;
      (split; [right|]); rewrite ?subs_app, ?execq_app, ?quit_called_app; cbn; rewrite ?app_nil_r, ?orb_false_r;
      repeat split; intros; try congruence; try discriminate; try lia; auto;
      rewrite ?subs_by_app; cbn; rewrite ?app_nil_r; auto.
  - injection H as <- <-; cbn.
    (split; [right|]);
      repeat split; intros; try congruence; try discriminate; try lia; auto.
Qed.
