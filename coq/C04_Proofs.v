(* C04_Proofs: invariants of LoopModel over all reachable states (all numbers of foreign threads,
   all programs and scripts, all schedules). *)
From Coq Require Import List Bool Arith Lia.
Import ListNotations.
From Muduo Require Import C04_Model.

(* reachability without time-outs: TSpur (a poll that returns although nothing is ready) is NOT
   a step of `reach`; `reach_t` allows it. *)
Inductive reach (sh : shape) (scr : scripts) (s0 : st) : st -> Prop :=
| reach0 : reach sh scr s0 s0
| reachS : forall s lab s', reach sh scr s0 s -> lab <> TSpur -> step sh scr s lab = Some s' ->
                            reach sh scr s0 s'.
Inductive reach_t (sh : shape) (scr : scripts) (s0 : st) : st -> Prop :=
| reach_t0 : reach_t sh scr s0 s0
| reach_tS : forall s lab s', reach_t sh scr s0 s -> step sh scr s lab = Some s' -> reach_t sh scr s0 s'.

Lemma reach_reach_t : forall sh scr s0 s, reach sh scr s0 s -> reach_t sh scr s0 s.
Proof. induction 1; [constructor|econstructor; eauto]. Qed.

Lemma run_reach_t : forall sh scr labs s0 s, run sh scr s0 labs = Some s -> reach_t sh scr s0 s.
Proof.
  intros sh scr labs s0 s H.
  assert (G : forall labs a b, reach_t sh scr s0 a -> run sh scr a labs = Some b -> reach_t sh scr s0 b).
  { induction labs0 as [|l r IH]; cbn; intros a b Ha Hr.
    - injection Hr as <-; exact Ha.
    - destruct (step sh scr a l) eqn:E; [|discriminate]. eapply IH; [|exact Hr]. econstructor; eauto. }
  eapply G; [constructor|exact H].
Qed.

Lemma run_reach : forall sh scr labs s0 s, Forall (fun l => l <> TSpur) labs ->
  run sh scr s0 labs = Some s -> reach sh scr s0 s.
Proof.
  intros sh scr labs s0 s HF H.
  assert (G : forall labs a b, Forall (fun l => l <> TSpur) labs -> reach sh scr s0 a ->
                               run sh scr a labs = Some b -> reach sh scr s0 b).
  { induction labs0 as [|l r IH]; cbn; intros a b Hf Ha Hr.
    - injection Hr as <-; exact Ha.
    - destruct (step sh scr a l) eqn:E; [|discriminate]. inversion Hf; subst.
      eapply IH; [assumption| |exact Hr]. econstructor; eauto. }
  eapply G; [exact HF|constructor|exact H].
Qed.

(* ---------------------------------------------------------------- list helpers *)
Lemma upd_nth_same : forall A (l : list A) i x y, nth_error l i = Some x -> nth_error (upd l i y) i = Some y.
Proof. induction l as [|a l IH]; destruct i; cbn; intros; try discriminate; eauto. Qed.

Lemma upd_nth_other : forall A (l : list A) i j y, i <> j -> nth_error (upd l i y) j = nth_error l j.
Proof. induction l as [|a l IH]; destruct i, j; cbn; intros; try congruence; eauto. Qed.

Lemma existsb_upd : forall A (f : A -> bool) l i x y, nth_error l i = Some x ->
  existsb f l = true -> (f x = true -> f y = true) -> existsb f (upd l i y) = true.
Proof.
  induction l as [|a l IH]; destruct i; cbn; intros x y Hn He Hf; try discriminate.
  - injection Hn as ->. apply orb_true_iff in He as [He|He]; apply orb_true_iff; auto.
  - apply orb_true_iff in He as [He|He]; apply orb_true_iff; eauto.
Qed.

Lemma existsb_upd_new : forall A (f : A -> bool) l i x y, nth_error l i = Some x ->
  f y = true -> existsb f (upd l i y) = true.
Proof.
  induction l as [|a l IH]; destruct i; cbn; intros x y Hn Hf; try discriminate.
  - rewrite Hf; reflexivity.
  - apply orb_true_iff; right; eauto.
Qed.

Lemma forallb_nth : forall A (f : A -> bool) l i x, forallb f l = true -> nth_error l i = Some x -> f x = true.
Proof.
  induction l as [|a l IH]; destruct i; cbn; intros x Hf Hn; try discriminate;
    apply andb_true_iff in Hf as [H1 H2]; [injection Hn as <-; exact H1 | eauto].
Qed.

Lemma existsb_forallb_false : forall A (f g : A -> bool) l,
  (forall x, g x = true -> f x = false) -> forallb g l = true -> existsb f l = false.
Proof.
  induction l as [|a l IH]; cbn; intros Hfg Hg; [reflexivity|].
  apply andb_true_iff in Hg as [H1 H2]. rewrite (Hfg _ H1), IH; auto.
Qed.

Lemma subs_app : forall a b, subs (a ++ b) = subs a ++ subs b.
Proof. intros; apply flat_map_app. Qed.
Lemma execq_app : forall a b, execq (a ++ b) = execq a ++ execq b.
Proof. intros; apply flat_map_app. Qed.
Lemma subs_by_app : forall w a b, subs_by w (a ++ b) = subs_by w a ++ subs_by w b.
Proof. intros; apply flat_map_app. Qed.
Lemma qtasks_app : forall a b, qtasks (a ++ b) = qtasks a ++ qtasks b.
Proof. intros; apply flat_map_app. Qed.
Lemma quit_called_app : forall a b, quit_called (a ++ b) = quit_called a || quit_called b.
Proof. intros; apply existsb_app. Qed.

(* ---------------------------------------------------------------- effect of one micro-op *)
(* what exec_mop does to the projections everybody cares about *)
Lemma exec_mop_cases : forall sh scr who il m rest g g' c',
  exec_mop sh scr who il m rest g = (g', c') ->
  (* append *)
  ((exists t, m = MQueue t /\ pending g' = pending g ++ [t] /\ log g' = log g ++ [ESub who t] /\
             evfd g' = evfd g /\ c' = MWakeTest :: rest /\ quit g' = quit g) \/
  (* anything else: queue untouched, no submission / batch execution logged *)
  (pending g' = pending g /\ subs (log g') = subs (log g) /\ execq (log g') = execq (log g) /\
   (forall w, subs_by w (log g') = subs_by w (log g)) /\
   evfd g <= evfd g' /\ (forall t, m <> MQueue t) /\
   (m = MWakeTest -> c' = rest /\ quit g' = quit g /\ (wake sh il (calling g) (looping g) = true -> 0 < evfd g')) /\
   (m = MQuitStore -> c' = MQuitWake :: rest /\ quit g' = true /\ quit_called (log g') = true) /\
   (m = MQuitWake -> c' = rest /\ quit g' = quit g /\ (qwake sh il = true -> 0 < evfd g')) /\
   (m <> MQuitStore -> quit g' = quit g /\ quit_called (log g') = quit_called (log g)) /\
   (il = false -> qtasks c' = qtasks rest))) /\
  calling g' = calling g /\ looping g' = looping g /\ (quit g = true -> quit g' = true) /\
  (quit_called (log g) = true -> quit_called (log g') = true).
Proof.
  intros sh scr who il m rest g g' c' H. unfold exec_mop in H.
  destruct m;
    [ | destruct (wake sh il (calling g) (looping g)) eqn:W | destruct il | | destruct (qwake sh il) eqn:W | ];
    injection H as <- <-; cbn [pending evfd evq quit calling looping log].
  1: { split; [left; exists t; repeat split; reflexivity|].
       rewrite quit_called_app. cbn. rewrite orb_false_r. auto. }
  all: (split; [right|]); unfold subs_by, subs, execq, qtasks, quit_called;
    rewrite ?flat_map_app, ?existsb_app; cbn [flat_map existsb app]; rewrite ?app_nil_r, ?orb_false_r, ?orb_true_r;
    repeat split; intros; try congruence; try discriminate; try lia; auto;
    rewrite ?flat_map_app; cbn [flat_map app]; rewrite ?app_nil_r; auto.
Qed.

(* ---------------------------------------------------------------- the steps, relationally *)
Inductive ctrl (sh : shape) (scr : scripts) (s : st) : label -> st -> Prop :=
| c_enter : pc s = LPre -> lcode s = [] ->
    ctrl sh scr s TLoop (mkSt (set_flags (sg s) (if resets_on_entry sh then false else quit (sg s)) (calling (sg s)) true)
                              LTest [] (lnext s) (fcode s))
| c_test_quit : pc s = LTest -> quit (sg s) = true ->
    ctrl sh scr s TLoop (mkSt (set_flags (sg s) (quit (sg s)) (calling (sg s)) false) LExit [] (lnext s) (fcode s))
| c_test_go : pc s = LTest -> quit (sg s) = false ->
    ctrl sh scr s TLoop (mkSt (sg s) LPoll [] (lnext s) (fcode s))
| c_poll_wake : pc s = LPoll -> poll_ready (sg s) = true -> evq (sg s) = [] ->
    ctrl sh scr s TLoop (mkSt (sg s) (LHandle (0 <? evfd (sg s))) [] (lnext s) (fcode s))
| c_poll_ev : forall k r, pc s = LPoll -> evq (sg s) = k :: r ->
    ctrl sh scr s TLoop
         (mkSt (mkG (pending (sg s)) (evfd (sg s)) r (quit (sg s)) (calling (sg s)) (looping (sg s)) (log (sg s)))
               (LHandle (0 <? evfd (sg s))) (expand_all true (scr k)) (lnext s) (fcode s))
| c_spur : pc s = LPoll ->
    ctrl sh scr s TSpur (mkSt (sg s) (LHandle (0 <? evfd (sg s))) [] (lnext s) (fcode s))
| c_read : pc s = LHandle true ->
    ctrl sh scr s TRead
         (mkSt (mkG (pending (sg s)) 0 (evq (sg s)) (quit (sg s)) (calling (sg s)) (looping (sg s)) (log (sg s)))
               (LHandle false) (lcode s) (lnext s) (fcode s))
| c_drain : pc s = LHandle false -> lcode s = [] ->
    ctrl sh scr s TLoop (mkSt (set_flags (sg s) (quit (sg s)) true (looping (sg s))) LSwap [] (lnext s) (fcode s))
| c_swap : pc s = LSwap ->
    ctrl sh scr s TLoop
         (mkSt (mkG [] (evfd (sg s)) (evq (sg s)) (quit (sg s)) (calling (sg s)) (looping (sg s)) (log (sg s)))
               (LRun (pending (sg s))) [] (lnext s) (fcode s))
| c_next : forall t b, pc s = LRun (t :: b) -> lcode s = [] ->
    ctrl sh scr s TLoop
         (mkSt (mkG (pending (sg s)) (evfd (sg s)) (evq (sg s)) (quit (sg s)) (calling (sg s)) (looping (sg s))
                    (log (sg s) ++ [EExecQ t]))
               (LRun b) (expand_all true (scr t)) (lnext s) (fcode s))
| c_end : pc s = LRun [] -> lcode s = [] ->
    ctrl sh scr s TLoop (mkSt (set_flags (sg s) (quit (sg s)) false (looping (sg s))) LTest [] (lnext s) (fcode s))
| c_exit : pc s = LExit ->
    ctrl sh scr s TLoop
         (mkSt (mkG (pending (sg s)) (evfd (sg s)) (evq (sg s))
                    (match resets sh with ResetExit => false | _ => quit (sg s) end)
                    (calling (sg s)) (looping (sg s)) (log (sg s) ++ [ERet]))
               LDone [] (lnext s) (fcode s))
| c_again : forall seg more, pc s = LDone -> lnext s = seg :: more ->
    ctrl sh scr s TLoop (mkSt (sg s) LPre seg more (fcode s)).

Lemma step_cases : forall sh scr s lab s', step sh scr s lab = Some s' ->
  (exists i m rest g' c', lab = TF i /\ nth_error (fcode s) i = Some (m :: rest) /\
      exec_mop sh scr (S i) false m rest (sg s) = (g', c') /\
      s' = mkSt g' (pc s) (lcode s) (lnext s) (upd (fcode s) i c')) \/
  (exists m rest g' c', lab = TLoop /\ code_ctx (pc s) = true /\ lcode s = m :: rest /\
      exec_mop sh scr 0 true m rest (sg s) = (g', c') /\ s' = mkSt g' (pc s) c' (lnext s) (fcode s)) \/
  ctrl sh scr s lab s'.
Proof.
  intros sh scr [g p lc ln fc] lab s' H. unfold step in H. cbn [sg pc lcode lnext fcode] in H.
  destruct lab.
  - destruct p as [ | | | [|] | | [|t b] | | ]; destruct lc as [|m rest]; cbn in H; try discriminate;
      try (destruct (exec_mop sh scr 0 true m rest g) as [g' c'] eqn:E; injection H as <-;
           right; left; exists m, rest, g', c'; cbn; auto; fail);
      right; right.
    + injection H as <-. apply c_enter; reflexivity.
    + destruct (quit g) eqn:Q; injection H as <-.
      * pose proof (c_test_quit sh scr (mkSt g LTest [] ln fc) eq_refl Q) as X. cbn in X. rewrite Q in X. exact X.
      * apply c_test_go; auto.
    + destruct (quit g) eqn:Q; injection H as <-.
      * pose proof (c_test_quit sh scr (mkSt g LTest (m :: rest) ln fc) eq_refl Q) as X. cbn in X. rewrite Q in X. exact X.
      * apply (c_test_go sh scr (mkSt g LTest (m :: rest) ln fc)); auto.
    + destruct (poll_ready g) eqn:R; [|discriminate]. destruct (evq g) eqn:Q; injection H as <-.
      * apply c_poll_wake; auto.
      * eapply (c_poll_ev sh scr (mkSt g LPoll [] ln fc)); auto.
    + destruct (poll_ready g) eqn:R; [|discriminate]. destruct (evq g) eqn:Q; injection H as <-.
      * apply c_poll_wake; auto.
      * eapply (c_poll_ev sh scr (mkSt g LPoll (m :: rest) ln fc)); auto.
    + injection H as <-. apply c_drain; auto.
    + injection H as <-. apply (c_swap sh scr (mkSt g LSwap [] ln fc)); auto.
    + injection H as <-. apply (c_swap sh scr (mkSt g LSwap (m :: rest) ln fc)); auto.
    + injection H as <-. apply c_end; auto.
    + injection H as <-. apply (c_next sh scr (mkSt g (LRun (t :: b)) [] ln fc)); auto.
    + injection H as <-. apply (c_exit sh scr (mkSt g LExit [] ln fc)); auto.
    + injection H as <-. apply (c_exit sh scr (mkSt g LExit (m :: rest) ln fc)); auto.
    + destruct ln as [|seg more]; [discriminate|]. injection H as <-.
      apply (c_again sh scr (mkSt g LDone [] (seg :: more) fc) seg more); auto.
    + destruct ln as [|seg more]; [discriminate|]. injection H as <-.
      apply (c_again sh scr (mkSt g LDone (m :: rest) (seg :: more) fc) seg more); auto.
  - destruct p as [ | | | [|] | | | | ]; try discriminate. injection H as <-. right; right.
    apply (c_read sh scr (mkSt g (LHandle true) lc ln fc)); auto.
  - destruct p; try discriminate. injection H as <-. right; right.
    apply (c_spur sh scr (mkSt g LPoll lc ln fc)); auto.
  - destruct (nth_error fc i) as [[|m rest]|] eqn:N; try discriminate.
    destruct (exec_mop sh scr (S i) false m rest g) as [g' c'] eqn:E. injection H as <-.
    left. exists i, m, rest, g', c'. auto.
Qed.

Lemma reach_ind_inv : forall sh scr s0 (P : st -> Prop),
  P s0 -> (forall s lab s', P s -> step sh scr s lab = Some s' -> P s') ->
  forall s, reach_t sh scr s0 s -> P s.
Proof. intros sh scr s0 P H0 HS s R. induction R; eauto. Qed.

(* ---------------------------------------------------------------- I1: accounting (exactly once, FIFO) *)
Definition acct (s : st) : Prop :=
  execq (log (sg s)) ++ batch (pc s) ++ pending (sg s) = subs (log (sg s)).

Lemma acct_step : forall sh scr s lab s', acct s -> step sh scr s lab = Some s' -> acct s'.
Proof.
  intros sh scr s lab s' A H. unfold acct in *.
  destruct (step_cases _ _ _ _ _ H) as [(i & m & rest & g' & c' & -> & N & E & ->) |
                                        [(m & rest & g' & c' & -> & CC & LC & E & ->) | C]].
  - cbn [sg pc]. destruct (exec_mop_cases _ _ _ _ _ _ _ _ _ E) as [[(t & -> & P & L & _) | (P & S1 & S2 & _)] _].
    + rewrite P, L, subs_app, execq_app. cbn. rewrite app_nil_r, <- A, !app_assoc. reflexivity.
    + rewrite P, S1, S2. exact A.
  - cbn [sg pc]. destruct (exec_mop_cases _ _ _ _ _ _ _ _ _ E) as [[(t & -> & P & L & _) | (P & S1 & S2 & _)] _].
    + rewrite P, L, subs_app, execq_app. cbn. rewrite app_nil_r, <- A, !app_assoc. reflexivity.
    + rewrite P, S1, S2. exact A.
  - inversion C; subst; cbn [sg pc set_flags pending log batch] in *;
      match goal with H : pc s = _ |- _ => rewrite H in A; cbn [batch] in A end; try exact A.
    + rewrite app_nil_r. exact A.
    + rewrite execq_app, subs_app. cbn. rewrite app_nil_r, <- A, <- !app_assoc. reflexivity.
    + rewrite execq_app, subs_app. cbn. rewrite !app_nil_r. exact A.
Qed.

Lemma acct_init : forall prefix later progs, acct (init prefix later progs).
Proof. intros; reflexivity. Qed.

Lemma acct_reach : forall sh scr prefix later progs s, reach_t sh scr (init prefix later progs) s -> acct s.
Proof. intros sh scr prefix later progs. apply reach_ind_inv; [apply acct_init|]. intros; eapply acct_step; eauto. Qed.

(* ---------------------------------------------------------------- I2: flags per program point *)
Definition flags_ok (s : st) : Prop :=
  match pc s with
  | LPre | LExit | LDone => calling (sg s) = false /\ looping (sg s) = false
  | LSwap | LRun _ => calling (sg s) = true /\ looping (sg s) = true
  | LTest | LPoll | LHandle _ => calling (sg s) = false /\ looping (sg s) = true
  end.

Lemma flags_step : forall sh scr s lab s', flags_ok s -> step sh scr s lab = Some s' -> flags_ok s'.
Proof.
  intros sh scr s lab s' A H. unfold flags_ok in *.
  destruct (step_cases _ _ _ _ _ H) as [(i & m & rest & g' & c' & -> & N & E & ->) |
                                        [(m & rest & g' & c' & -> & CC & LC & E & ->) | C]].
  - cbn [sg pc]. destruct (exec_mop_cases _ _ _ _ _ _ _ _ _ E) as (_ & Hc & Hl & _). rewrite Hc, Hl. exact A.
  - cbn [sg pc]. destruct (exec_mop_cases _ _ _ _ _ _ _ _ _ E) as (_ & Hc & Hl & _). rewrite Hc, Hl. exact A.
  - inversion C; subst; cbn;
      match goal with H : pc s = _ |- _ => rewrite H in A end; destruct A; auto.
Qed.

Lemma flags_reach : forall sh scr prefix later progs s, reach_t sh scr (init prefix later progs) s -> flags_ok s.
Proof.
  intros sh scr prefix later progs. apply reach_ind_inv; [cbn; auto|]. intros; eapply flags_step; eauto.
Qed.

(* ---------------------------------------------------------------- I3: no lost wake-up *)
Definition is_quit_mop (m : mop) : bool := match m with MQuitStore | MQuitWake => true | _ => false end.
Definition quits_only (l : list act) : bool := forallb (fun a => match a with AQuit => true | _ => false end) l.

(* either the wake-up test also fires before loop() (repaired shape), or the code that runs
   before loop() never queues *)
Definition pre_ok (sh : shape) (s : st) : Prop :=
  wake_pre sh = true \/
  ((pc s = LPre -> forallb is_quit_mop (lcode s) = true) /\ forallb (forallb is_quit_mop) (lnext s) = true).

Definition NoStall (sh : shape) (s : st) : Prop :=
  pending (sg s) = [] \/ 0 < evfd (sg s) \/ will_drain (pc s) = true \/ midwake sh s = true.

Lemma wake_weak_foreign : forall sh c l, wake_weak sh = true -> wake sh false c l = true.
Proof.
  intros sh c l H. unfold wake_weak in H. repeat (apply andb_true_iff in H as [H ?]).
  destruct c, l; assumption.
Qed.
Lemma wake_weak_calling : forall sh l, wake_weak sh = true -> wake sh true true l = true.
Proof.
  intros sh l H. unfold wake_weak in H. repeat (apply andb_true_iff in H as [H ?]).
  destruct l; assumption.
Qed.

Lemma midwake_split : forall sh s, midwake sh s = true ->
  existsb head_is_wake (fcode s) = true \/
  (code_ctx (pc s) = true /\ head_is_wake (lcode s) = true /\ wake sh true (calling (sg s)) (looping (sg s)) = true).
Proof.
  intros sh s H. unfold midwake in H. apply orb_true_iff in H as [H|H]; [left; exact H|right].
  apply andb_true_iff in H as [H H3]. apply andb_true_iff in H as [H1 H2]. auto.
Qed.
Lemma midwake_foreign : forall sh s, existsb head_is_wake (fcode s) = true -> midwake sh s = true.
Proof. intros sh s H. unfold midwake. rewrite H. reflexivity. Qed.
Lemma midwake_loop : forall sh s, code_ctx (pc s) = true -> head_is_wake (lcode s) = true ->
  wake sh true (calling (sg s)) (looping (sg s)) = true -> midwake sh s = true.
Proof. intros sh s H1 H2 H3. unfold midwake. rewrite H1, H2, H3. apply orb_true_r. Qed.

Lemma pre_ok_step : forall sh scr s lab s', pre_ok sh s -> step sh scr s lab = Some s' -> pre_ok sh s'.
Proof.
  intros sh scr s lab s' A H. unfold pre_ok in *. destruct A as [W|[A1 A2]]; [left; exact W|right].
  destruct (step_cases _ _ _ _ _ H) as [(i & m & rest & g' & c' & -> & N & E & ->) |
                                        [(m & rest & g' & c' & -> & CC & LC & E & ->) | C]].
  - split; assumption.
  - cbn [pc lcode lnext]. split; [|exact A2]. intros P. pose proof (A1 P) as Q.
    rewrite LC in Q. cbn in Q. apply andb_true_iff in Q as [Q1 Q2].
    destruct (exec_mop_cases _ _ _ _ _ _ _ _ _ E) as [[(t & -> & _) | (_ & _ & _ & _ & _ & _ & _ & H2 & H3 & _)] _];
      [discriminate|].
    destruct m; try discriminate; [destruct (H2 eq_refl) as [-> _]; cbn; exact Q2|destruct (H3 eq_refl) as [-> _]; exact Q2].
  - inversion C; subst; cbn [pc lcode lnext]; try (split; [intros P; discriminate|exact A2]).
    match goal with H : lnext s = _ |- _ => rewrite H in A2 end. cbn in A2.
    apply andb_true_iff in A2 as [B1 B2]. split; [intros _; exact B1|exact B2].
Qed.

Lemma nostall_step : forall sh scr s lab s', wake_weak sh = true -> lab <> TSpur ->
  flags_ok s -> pre_ok sh s -> NoStall sh s -> step sh scr s lab = Some s' -> NoStall sh s'.
Proof.
  intros sh scr s lab s' WW NS FL PO A H. unfold NoStall in *.
  destruct (step_cases _ _ _ _ _ H) as [(i & m & rest & g' & c' & -> & N & E & ->) |
                                        [(m & rest & g' & c' & -> & CC & LC & E & ->) | C]].
  - (* a foreign micro-op *)
    cbn [sg pc].
    destruct (exec_mop_cases _ _ _ _ _ _ _ _ _ E) as
      [[(t & -> & P & L & EV & -> & _) | (P & _ & _ & _ & EV & NQ & HW & _)] (Hc & Hl & _)].
    + right; right; right. apply midwake_foreign. cbn [fcode]. eapply existsb_upd_new; eauto.
    + rewrite P. destruct A as [A|[A|[A|A]]]; auto; [right; left; lia|].
      destruct m; try (exfalso; eapply NQ; reflexivity; fail).
      * (* the wake-up itself *)
        destruct (HW eq_refl) as (_ & _ & F). right; left. apply F. apply wake_weak_foreign; exact WW.
      * destruct (midwake_split _ _ A) as [B|(B1 & B2 & B3)]; right; right; right.
        -- apply midwake_foreign. cbn [fcode]. eapply existsb_upd; eauto. intros X; discriminate.
        -- apply midwake_loop; cbn [pc lcode sg]; auto. rewrite Hc, Hl; exact B3.
      * destruct (midwake_split _ _ A) as [B|(B1 & B2 & B3)]; right; right; right.
        -- apply midwake_foreign. cbn [fcode]. eapply existsb_upd; eauto. intros X; discriminate.
        -- apply midwake_loop; cbn [pc lcode sg]; auto. rewrite Hc, Hl; exact B3.
      * destruct (midwake_split _ _ A) as [B|(B1 & B2 & B3)]; right; right; right.
        -- apply midwake_foreign. cbn [fcode]. eapply existsb_upd; eauto. intros X; discriminate.
        -- apply midwake_loop; cbn [pc lcode sg]; auto. rewrite Hc, Hl; exact B3.
      * destruct (midwake_split _ _ A) as [B|(B1 & B2 & B3)]; right; right; right.
        -- apply midwake_foreign. cbn [fcode]. eapply existsb_upd; eauto. intros X; discriminate.
        -- apply midwake_loop; cbn [pc lcode sg]; auto. rewrite Hc, Hl; exact B3.
  - (* a micro-op of the loop thread *)
    cbn [sg pc].
    destruct (exec_mop_cases _ _ _ _ _ _ _ _ _ E) as
      [[(t & -> & P & L & EV & -> & _) | (P & _ & _ & _ & EV & NQ & HW & _)] (Hc & Hl & _)].
    + (* queueInLoop on the loop thread: where are we? *)
      unfold flags_ok in FL. unfold pre_ok in PO.
      destruct (pc s) eqn:PC; try discriminate.
      * destruct FL as [F1 F2]. destruct PO as [W|[Q _]].
        -- right; right; right. apply midwake_loop; cbn [pc lcode sg head_is_wake]; auto.
           rewrite Hc, Hl, F1, F2. exact W.
        -- specialize (Q eq_refl). rewrite LC in Q. discriminate.
      * right; right; left. reflexivity.
      * right; right; right. apply midwake_loop; cbn [pc lcode sg head_is_wake]; auto.
        destruct FL as [F1 F2]. rewrite Hc, F1. apply wake_weak_calling; exact WW.
    + rewrite P.
      assert (NL : head_is_wake (lcode s) = true -> m = MWakeTest).
      { rewrite LC. destruct m; cbn; intros; try discriminate; reflexivity. }
      destruct A as [A|[A|[A|A]]]; auto; [right; left; lia|].
      destruct (midwake_split _ _ A) as [B|(B1 & B2 & B3)].
      * right; right; right. apply midwake_foreign. exact B.
      * rewrite (NL B2) in *. destruct (HW eq_refl) as (_ & _ & F). right; left. apply F. exact B3.
  - (* control steps of the loop thread *)
    inversion C; subst; cbn [sg pc set_flags pending evfd will_drain]; auto;
      try (destruct A as [A|[A|[A|A]]]; auto;
           [ match goal with H : pc s = _ |- _ => rewrite H in A; discriminate end
           | destruct (midwake_split _ _ A) as [B|(B1 & B2 & B3)];
             [ right; right; right; apply midwake_foreign; exact B
             | match goal with H : lcode s = [] |- _ => rewrite H in B2; discriminate
               | H : pc s = _ |- _ => rewrite H in B1; discriminate end ] ]; fail).
Qed.

Lemma quits_only_expand : forall l, quits_only l = true -> forallb is_quit_mop (expand_all true l) = true.
Proof.
  induction l as [|a l IH]; cbn; intros H; [reflexivity|].
  apply andb_true_iff in H as [H1 H2]. destruct a; try discriminate. cbn. apply IH; exact H2.
Qed.

Definition later_quits_only (later : list (list act)) : bool := forallb quits_only later.

Lemma later_quits_expand : forall later, later_quits_only later = true ->
  forallb (forallb is_quit_mop) (map (expand_all true) later) = true.
Proof.
  induction later as [|a l IH]; cbn; intros H; [reflexivity|].
  apply andb_true_iff in H as [H1 H2]. rewrite (quits_only_expand _ H1), (IH H2). reflexivity.
Qed.

Lemma pre_ok_reach : forall sh scr prefix later progs s,
  wake_pre sh = true \/ (quits_only prefix = true /\ later_quits_only later = true) ->
  reach_t sh scr (init prefix later progs) s -> pre_ok sh s.
Proof.
  intros sh scr prefix later progs s HP. revert s. apply reach_ind_inv.
  - destruct HP as [W|[Q1 Q2]]; [left; exact W|right]. cbn. split.
    + intros _. apply quits_only_expand; exact Q1.
    + apply later_quits_expand; exact Q2.
  - intros; eapply pre_ok_step; eauto.
Qed.

Theorem no_stall_reach : forall sh scr prefix later progs s,
  wake_weak sh = true -> wake_pre sh = true \/ (quits_only prefix = true /\ later_quits_only later = true) ->
  reach sh scr (init prefix later progs) s -> NoStall sh s.
Proof.
  intros sh scr prefix later progs s WW HP R. induction R as [|s lab s' R IH NS H].
  - left; reflexivity.
  - eapply nostall_step; eauto.
    + eapply flags_reach; apply reach_reach_t; eauto.
    + eapply pre_ok_reach; eauto. apply reach_reach_t; eauto.
Qed.

Lemma nostall_quiescent : forall sh s, NoStall sh s -> quiescent s = true -> pending (sg s) = [].
Proof.
  intros sh s A Q. unfold quiescent in Q. apply andb_true_iff in Q as [Q Q3]. apply andb_true_iff in Q as [Q1 Q2].
  destruct (pc s) eqn:PC; try discriminate.
  destruct A as [A|[A|[A|A]]]; auto.
  - unfold poll_ready in Q3. apply negb_true_iff, orb_false_iff in Q3 as [Q3 _].
    apply Nat.ltb_ge in Q3. lia.
  - rewrite PC in A; discriminate.
  - destruct (midwake_split _ _ A) as [B|(B1 & _)]; [|rewrite PC in B1; discriminate].
    rewrite (existsb_forallb_false _ head_is_wake (fun c => match c with [] => true | _ => false end)) in B;
      [discriminate| |exact Q1].
    intros [|? ?]; [reflexivity|discriminate].
Qed.

(* the refutation: any shape whose wake-up test is false for (loop thread, not calling, not
   looping) has a reachable quiescent state with an unexecuted task (F-2) *)
Definition stall_witness_prefix : list act := [AQueue 0].
Definition stall_witness_labels : list label := [TLoop; TLoop; TLoop; TLoop].
Definition stall_witness_state : st := mkSt (mkG [0] 0 [] false false true [ESub 0 0]) LPoll [] [] [].

Lemma stall_witness_run : forall sh scr, wake_pre sh = false ->
  run sh scr (init stall_witness_prefix [] []) stall_witness_labels = Some stall_witness_state.
Proof.
  intros sh scr W. unfold wake_pre in W. cbn. rewrite W. cbn. destruct (resets_on_entry sh); reflexivity.
Qed.

Lemma stall_witness_reach : forall sh scr, wake_pre sh = false ->
  reach sh scr (init stall_witness_prefix [] []) stall_witness_state /\
  quiescent stall_witness_state = true /\ pending (sg stall_witness_state) <> [] /\
  looping (sg stall_witness_state) = true.
Proof.
  intros sh scr W. split; [|repeat split; cbn; congruence].
  eapply run_reach; [|apply stall_witness_run; exact W].
  repeat constructor; discriminate.
Qed.

(* ---------------------------------------------------------------- per-thread program order *)
Definition ptasks (p : list act) : list nat :=
  flat_map (fun a => match a with AQueue t | ARun t => [t] | _ => [] end) p.
Definition fq (i : nat) (s : st) : list nat :=
  match nth_error (fcode s) i with Some c => qtasks c | None => [] end.
Definition thr_acct (i : nat) (s : st) : list nat := subs_by (S i) (log (sg s)) ++ fq i s.

Lemma qtasks_expand_false : forall p, qtasks (expand_all false p) = ptasks p.
Proof.
  induction p as [|a p IH]; [reflexivity|]. unfold expand_all in *. cbn [flat_map]. rewrite qtasks_app, IH.
  destruct a; reflexivity.
Qed.

Lemma thr_acct_step : forall sh scr i s lab s', step sh scr s lab = Some s' -> thr_acct i s' = thr_acct i s.
Proof.
  intros sh scr i s lab s' H. unfold thr_acct, fq.
  destruct (step_cases _ _ _ _ _ H) as [(j & m & rest & g' & c' & -> & N & E & ->) |
                                        [(m & rest & g' & c' & -> & CC & LC & E & ->) | C]].
  - cbn [sg fcode].
    destruct (exec_mop_cases _ _ _ _ _ _ _ _ _ E) as
      [[(t & -> & P & L & EV & -> & _) | (_ & _ & _ & SB & _ & NQ & _ & _ & _ & _ & QT)] _].
    + rewrite L, subs_by_app. cbn [subs_by flat_map]. destruct (Nat.eq_dec j i) as [->|NE].
      * rewrite (upd_nth_same _ _ _ _ _ N), N. cbn. rewrite Nat.eqb_refl. cbn. rewrite <- app_assoc. reflexivity.
      * rewrite upd_nth_other by exact NE. cbn.
        replace (j =? i) with false by (symmetry; apply Nat.eqb_neq; exact NE). cbn. rewrite app_nil_r. reflexivity.
    + rewrite SB. f_equal. destruct (Nat.eq_dec j i) as [->|NE].
      * rewrite (upd_nth_same _ _ _ _ _ N), N. rewrite (QT eq_refl).
        destruct m; try reflexivity. exfalso; eapply NQ; reflexivity.
      * rewrite upd_nth_other by exact NE. reflexivity.
  - cbn [sg fcode].
    destruct (exec_mop_cases _ _ _ _ _ _ _ _ _ E) as
      [[(t & -> & P & L & _) | (_ & _ & _ & SB & _)] _].
    + rewrite L, subs_by_app. cbn. rewrite app_nil_r. reflexivity.
    + rewrite SB. reflexivity.
  - inversion C; subst; cbn [sg fcode set_flags log]; try reflexivity;
      rewrite subs_by_app; cbn; rewrite app_nil_r; reflexivity.
Qed.

Theorem thread_order_reach : forall sh scr prefix later progs s i,
  reach_t sh scr (init prefix later progs) s ->
  subs_by (S i) (log (sg s)) ++ fq i s = ptasks (nth i progs []).
Proof.
  intros sh scr prefix later progs s i R. change (thr_acct i s = ptasks (nth i progs [])).
  induction R as [|s lab s' R IH H].
  - unfold thr_acct, fq, init. cbn [sg fcode log g0 subs_by flat_map app].
    rewrite nth_error_map. destruct (nth_error progs i) eqn:N; cbn.
    + rewrite qtasks_expand_false. erewrite nth_error_nth; eauto.
    + rewrite nth_overflow; [reflexivity|]. apply nth_error_None; exact N.
  - rewrite (thr_acct_step _ _ _ _ _ _ H). exact IH.
Qed.

(* ---------------------------------------------------------------- at most once *)
Lemma count_execq_le_subs : forall s, acct s -> forall t,
  count_occ Nat.eq_dec (execq (log (sg s))) t <= count_occ Nat.eq_dec (subs (log (sg s))) t.
Proof. intros s A t. rewrite <- A, count_occ_app. lia. Qed.

Lemma NoDup_app_l : forall A (a b : list A), NoDup (a ++ b) -> NoDup a.
Proof.
  induction a as [|x a IH]; cbn; intros b H; [constructor|].
  inversion H; subst. constructor; [|eapply IH; eauto].
  intros I. apply H2. apply in_or_app; left; exact I.
Qed.

Lemma nodup_execq : forall s, acct s -> NoDup (subs (log (sg s))) -> NoDup (execq (log (sg s))).
Proof. intros s A N. rewrite <- A in N. eapply NoDup_app_l; exact N. Qed.

(* ---------------------------------------------------------------- on the loop thread *)
Definition execs (l : list ev) : list nat :=
  flat_map (fun e => match e with EExecQ t | EExecI t => [t] | _ => [] end) l.

Lemma foreign_never_executes : forall sh scr s i s', step sh scr s (TF i) = Some s' ->
  execs (log (sg s')) = execs (log (sg s)).
Proof.
  intros sh scr s i s' H.
  destruct (step_cases _ _ _ _ _ H) as [(j & m & rest & g' & c' & _ & N & E & ->) |
                                        [(m & rest & g' & c' & X & _) | C]]; [|discriminate|inversion C].
  cbn [sg]. unfold exec_mop in E.
  destruct m; [ | destruct (wake sh false (calling (sg s)) (looping (sg s))) | | | destruct (qwake sh false) | ];
    injection E as <- _; cbn [log]; unfold execs; rewrite ?flat_map_app; cbn [flat_map app]; rewrite ?app_nil_r; reflexivity.
Qed.

(* ---------------------------------------------------------------- runInLoop on the loop thread *)
Lemma run_in_loop_sync_step : forall sh scr s t rest,
  code_ctx (pc s) = true -> lcode s = MExec t :: rest ->
  exists s', step sh scr s TLoop = Some s' /\
    log (sg s') = log (sg s) ++ [EExecI t] /\ pending (sg s') = pending (sg s) /\
    pc s' = pc s /\ lcode s' = expand_all true (scr t) ++ rest.
Proof.
  intros sh scr [g p lc ln fc] t rest CC LC. cbn in CC, LC. subst lc.
  unfold step. cbn [sg pc lcode lnext fcode].
  destruct p as [ | | | [|] | | [|? b] | | ]; try discriminate; cbn; eexists; split; try reflexivity; cbn; auto.
Qed.

(* ---------------------------------------------------------------- submission from an I/O or timer callback *)
(* callbacks run while the loop thread is between the return of poll and the swap (LHandle): a functor
   queued there is taken by THIS iteration's drain: from event handling up to the swap, every step of
   any thread keeps every queued task queued or moves it into the running batch, and the loop thread
   goes LHandle -> LSwap -> LRun without passing through poll *)
Definition in_handling (p : lpc) : bool := match p with LHandle _ | LSwap => true | _ => false end.

Lemma callback_queue_step : forall sh scr s t rest wk, pc s = LHandle wk -> lcode s = MQueue t :: rest ->
  exists s', step sh scr s TLoop = Some s' /\ pc s' = LHandle wk /\
             pending (sg s') = pending (sg s) ++ [t] /\ lcode s' = MWakeTest :: rest.
Proof.
  intros sh scr [g p lc ln fc] t rest wk P LC. cbn in P, LC. subst p lc. unfold step. cbn [sg pc lcode lnext fcode].
  destruct wk; eexists; (split; [reflexivity|]); cbn; auto.
Qed.

Lemma handling_step : forall sh scr s lab s', in_handling (pc s) = true -> step sh scr s lab = Some s' ->
  (in_handling (pc s') = true \/ exists b, pc s' = LRun b) /\
  (forall t, In t (pending (sg s)) -> In t (pending (sg s')) \/ In t (batch (pc s'))).
Proof.
  intros sh scr s lab s' IH H.
  destruct (step_cases _ _ _ _ _ H) as [(i & m & rest & g' & c' & -> & N & E & ->) |
                                        [(m & rest & g' & c' & -> & CC & LC & E & ->) | C]].
  - cbn [sg pc]. split; [left; exact IH|]. intros t I. left.
    destruct (exec_mop_cases _ _ _ _ _ _ _ _ _ E) as [[(t0 & -> & P & _) | (P & _)] _]; rewrite P; [apply in_or_app; left|]; exact I.
  - cbn [sg pc]. split; [left; exact IH|]. intros t I. left.
    destruct (exec_mop_cases _ _ _ _ _ _ _ _ _ E) as [[(t0 & -> & P & _) | (P & _)] _]; rewrite P; [apply in_or_app; left|]; exact I.
  - inversion C; subst; cbn [sg pc set_flags pending batch in_handling];
      match goal with H : pc s = _ |- _ => rewrite H in IH end; try discriminate;
      (split; [try (left; reflexivity); try (right; eauto)|intros t I; auto]).
Qed.
