(* C20_Sweep: lifts the four vm_compute sweeps to statements about every day of
   1900-01-01 .. 2500-12-31. *)
From Coq Require Import List ZArith Bool Arith Lia.
From Muduo Require Import Gen_C20 C20_Calendar C20_SweepDefs C20_SweepA1 C20_SweepA2 C20_SweepB1 C20_SweepB2.
Import ListNotations.
Local Open Scope Z_scope.

Lemma chk_block_all q : 0 <= q < 220 -> chk_block q = true.
Proof.
  intros Hq. destruct (Z_lt_ge_dec q 110) as [Hlt|Hge].
  - apply (forallb_zs _ _ _ sweep_jdn_1 q). lia.
  - apply (forallb_zs _ _ _ sweep_jdn_2 q). lia.
Qed.

Lemma chk_year_all y : 1900 <= y <= 2500 -> chk_year c1970 y = true.
Proof.
  intros Hy. destruct (Z_lt_ge_dec y 2200) as [Hlt|Hge].
  - apply (forallb_zs _ _ _ sweep_ymd_1 y). lia.
  - apply (forallb_zs _ _ _ sweep_ymd_2 y). lia.
Qed.

Lemma chk_jdn_all j : jdn_first <= j <= jdn_last -> chk_jdn j = true.
Proof.
  intros Hj.
  assert (Hlast : jdn_last = jdn_first + 219510) by reflexivity.
  pose (q := (j - jdn_first) / 1000). pose (r := (j - jdn_first) mod 1000).
  assert (Hq : 0 <= q < 220).
  { unfold q. split; [apply Z.div_pos; lia|]. apply Z.div_lt_upper_bound; lia. }
  assert (Hr : 0 <= r < 0 + Z.of_nat 1000) by (unfold r; pose proof (Z.mod_pos_bound (j - jdn_first) 1000); lia).
  pose proof (chk_block_all q Hq) as Hb. unfold chk_block in Hb.
  pose proof (forallb_zs _ _ _ Hb r Hr) as Hc. cbv beta in Hc.
  replace (jdn_first + 1000 * q + r) with j in Hc; [exact Hc|].
  unfold q, r. pose proof (Z.div_mod (j - jdn_first) 1000). lia.
Qed.

Lemma days_in_month_le y m : days_in_month y m <= 31.
Proof.
  unfold days_in_month.
  destruct m as [|p|p]; try lia.
  do 4 (try destruct p as [p|p|]; try lia); destruct (is_leap y); lia.
Qed.

Lemma chk_ymd_all y m d :
  valid_date y m d = true -> chk_ymd c1970 y m d (greg_day_count y m d) = true.
Proof.
  unfold valid_date. rewrite !andb_true_iff, !Z.leb_le. unfold first_year, last_year.
  intros [[[[[Hy1 Hy2] Hm1] Hm2] Hd1] Hd2].
  pose proof (days_in_month_le y m) as H31.
  assert (Hm : 1 <= m < 1 + Z.of_nat 12) by lia.
  assert (Hd : 1 <= d < 1 + Z.of_nat 31) by lia.
  pose proof (chk_year_all y ltac:(lia)) as Hb. unfold chk_year in Hb. cbv zeta in Hb.
  pose proof (forallb_zs _ _ _ Hb m Hm) as Hc. cbv beta in Hc.
  pose proof (forallb_zs _ _ _ Hc d Hd) as He. cbv beta in He.
  destruct (Z.leb_spec d (days_in_month y m)) as [_|Hgt]; [|lia].
  exact He.
Qed.
