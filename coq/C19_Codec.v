(* C19_Codec: the RpcCodec layer between a channel and its connection.  What a channel hands to
   codec_.send is framed by C18's codec (4-byte length, tag "RPC0", the RpcMessage bytes of C19_Wire,
   Adler-32); the peer's connection delivers the byte stream in arbitrary pieces to the peer's codec,
   which hands the decoded RpcMessages to onRpcMessage.  C18's theorems (imported read-only:
   C18_RpcInstance.rpc_codec_instance = round trip + segmentation invariance, instantiated by the C18
   owner with C19_Wire) composed with C19_WireProofs: the FIFO of frames of C19_Sys is what any
   segmentation of the byte stream delivers. *)
From Coq Require Import List ZArith Lia Bool Arith.
From Coq.Strings Require Import Byte.
From Muduo Require Import Base_Bytes C18_Model C18_Proofs C18_RpcInstance C19_Model C19_Wire C19_WireProofs.
Import ListNotations.
Local Open Scope Z_scope.

Section CodecPeers.
  Variable wire_of : bytes -> bytes.
  Variable content_of : bytes -> payload.
  Hypothesis user_roundtrip : forall m, content_of (wire_of m) = Valid m.

  (* the label the peer's channel should take for a frame: same id, same names, same content *)
  Definition direct_label (e : event) : option label :=
    match e with
    | ESendRequest i svc meth req => Some (LRequest (mkReq i svc meth (Valid req)))
    | ESendResponse i (RReply m) => Some (LResponse i (mkBody (Some (Valid m)) None))
    | ESendResponse i (RError e') => Some (LResponse i (mkBody None (Some e')))
    | _ => None
    end.

  (* a frame the codec can carry: a 64-bit id, fields below 2 GiB, the whole frame within kMaxMessageLen *)
  Definition frame_ok (e : event) : Prop :=
    match e with
    | ESendRequest i svc meth req => int64 i /\ short svc /\ short meth /\ short (wire_of req)
    | ESendResponse i (RReply m) => int64 i /\ short (wire_of m)
    | ESendResponse i (RError _) => int64 i
    | _ => False
    end /\
    match msg_of_event wire_of e with Some m => fits rpctag (wire_ser m) | None => False end.

  Definition msgs_of (es : list event) : list rpcmsg :=
    flat_map (fun e => match msg_of_event wire_of e with Some m => [m] | None => [] end) es.

  (* the bytes RpcCodec writes for these frames, one after the other *)
  Definition stream_of (es : list event) : bytes :=
    flat_map (encode_msg rpcmsg wire_ser rpctag) (msgs_of es).

  (* what onRpcMessage is called with, as labels *)
  Definition labels_of (evs : list (cevent rpcmsg)) : list (option label) :=
    map (fun ev => match ev with CMsg m => Some (label_of_msg content_of m) | _ => None end) evs.

  Lemma frame_ok_sendable e : frame_ok e -> exists m, msg_of_event wire_of e = Some m /\ rpc_sendable m.
  Proof.
    intros [Hk Hf]. destruct e as [? ? ?|? ? ?|i svc meth req|? ?|?|?|? ? ? ? ?|i [m|e']|?|?]; try contradiction; cbn [msg_of_event] in *.
    - eexists. split; [reflexivity|]. split; [|exact Hf]. destruct Hk as (Hi & H1 & H2 & H3).
      repeat split; cbn [m_id m_service m_method m_request m_response wf_bytes]; auto; apply u64_range.
    - eexists. split; [reflexivity|]. split; [|exact Hf]. destruct Hk as (Hi & H1).
      repeat split; cbn [m_id m_service m_method m_request m_response wf_bytes]; auto; apply u64_range.
    - eexists. split; [reflexivity|]. split; [|exact Hf].
      repeat split; cbn [m_id m_service m_method m_request m_response wf_bytes]; auto; apply u64_range.
  Qed.

  Lemma msgs_sendable es : Forall frame_ok es -> Forall rpc_sendable (msgs_of es).
  Proof.
    intros H. induction H as [|e es He _ IH]; [constructor|].
    unfold msgs_of. cbn [flat_map]. destruct (frame_ok_sendable e He) as (m & -> & Hs). cbn [app]. constructor; assumption.
  Qed.

  Lemma label_of_frame e m :
    frame_ok e -> msg_of_event wire_of e = Some m -> Some (label_of_msg content_of m) = direct_label e.
  Proof.
    intros [Hk Hf] Hm.
    destruct e as [? ? ?|? ? ?|i svc meth req|? ?|?|?|? ? ? ? ?|i [r|e']|?|?]; try contradiction; cbn [msg_of_event] in Hm; inversion Hm; subst m;
      unfold label_of_msg, direct_label; cbn [m_type m_id m_service m_method m_request m_response m_error opt_bytes].
    - destruct Hk as (Hi & _). rewrite s64_u64 by exact Hi. rewrite user_roundtrip. reflexivity.
    - destruct Hk as (Hi & _). rewrite s64_u64 by exact Hi. rewrite user_roundtrip. reflexivity.
    - rewrite s64_u64 by exact Hk. reflexivity.
  Qed.

  (* C19_frames_arrive over byte streams: the frames written by one channel, framed by RpcCodec,
     cut into pieces in ANY way, are decoded by the peer's RpcCodec into exactly the labels the
     peer's channel should take, in order; everything is consumed, no error, stream not abandoned *)
  Theorem frames_arrive_over_bytes es chunks :
    Forall frame_ok es -> concat chunks = stream_of es ->
    let r := rpc_feed_all codec_init chunks in
    labels_of (fst r) = map direct_label es /\ snd r = mkD tt [] false false.
  Proof.
    intros Hok Hc.
    pose proof (roundtrip_on rpcmsg wire_parse wire_ser rpctag (msgs_of es) chunks (rpc_good _ (msgs_sendable es Hok)) Hc) as Hrt.
    cbv zeta. rewrite Hrt. cbn [fst snd]. split; [|reflexivity].
    clear Hrt Hc. induction Hok as [|e es He _ IH]; [reflexivity|].
    unfold msgs_of in *. cbn [flat_map]. destruct (frame_ok_sendable e He) as (m & Hm & _). rewrite Hm. cbn [app map labels_of].
    unfold labels_of in IH. rewrite IH. f_equal. apply label_of_frame; assumption.
  Qed.
  (* ---- incrementally: at every moment what has been delivered is an initial segment of what was sent ---- *)
  Lemma codec_feed_all_app (msg : Type) (parse : list byte -> option msg) (tag : list byte) c1 : forall d c2,
    codec_feed_all msg parse tag d (c1 ++ c2) =
      (fst (codec_feed_all msg parse tag d c1) ++ fst (codec_feed_all msg parse tag (snd (codec_feed_all msg parse tag d c1)) c2),
       snd (codec_feed_all msg parse tag (snd (codec_feed_all msg parse tag d c1)) c2)).
  Proof.
    unfold codec_feed_all. induction c1 as [|c cs IH]; intros d c2.
    - cbn [app feed_all fst snd]. destruct (feed_all (C18_Model.cstep msg parse tag) d c2); reflexivity.
    - cbn [app feed_all]. destruct (feed (C18_Model.cstep msg parse tag) d c) as [e1 d1].
      rewrite IH. destruct (feed_all (C18_Model.cstep msg parse tag) d1 cs) as [e2 d2]. cbn [fst snd].
      rewrite app_assoc. reflexivity.
  Qed.

  Lemma labels_firstn es : Forall frame_ok es -> forall k,
    labels_of (map CMsg (firstn k (msgs_of es))) = map direct_label (firstn k es).
  Proof.
    intros H. induction H as [|e es He _ IH]; intros k; [destruct k; reflexivity|].
    unfold msgs_of in *. cbn [flat_map]. destruct (frame_ok_sendable e He) as (m & Hm & _). rewrite Hm. cbn [app].
    destruct k as [|k]; [reflexivity|]. cbn [firstn map labels_of]. unfold labels_of in IH. rewrite IH. f_equal.
    apply label_of_frame; assumption.
  Qed.

  (* whatever part of the byte stream has arrived so far, in whatever pieces: the peer's channel has
     been handed an initial segment of the frames, in order, each as the right label; no error *)
  Theorem delivered_is_initial_segment es chunks1 chunks2 :
    Forall frame_ok es -> concat (chunks1 ++ chunks2) = stream_of es ->
    exists k, labels_of (fst (rpc_feed_all codec_init chunks1)) = map direct_label (firstn k es).
  Proof.
    intros Hok Hc.
    pose proof (roundtrip_on rpcmsg wire_parse wire_ser rpctag (msgs_of es) (chunks1 ++ chunks2) (rpc_good _ (msgs_sendable es Hok)) Hc) as Hrt.
    rewrite codec_feed_all_app in Hrt. apply (f_equal fst) in Hrt. cbn [fst] in Hrt. rename Hrt into He.
    exists (length (fst (rpc_feed_all codec_init chunks1))).
    rewrite <- (labels_firstn es Hok). f_equal.
    rewrite <- firstn_map, <- He, firstn_app, Nat.sub_diag, firstn_all. cbn [firstn]. rewrite app_nil_r. reflexivity.
  Qed.
End CodecPeers.
