(* C16_MonModel: LogFile with threadSafe = true as a monitor of the generic semantics Conc_Model (DESIGN 3.3):
     void LogFile::append(const char* l, int len) { if (mutex_) { MutexLockGuard lock( *mutex_ ); append_unlocked(l, len); } ... }
     void LogFile::flush()                        { if (mutex_) { MutexLockGuard lock( *mutex_ ); file_->flush(); } ... }
   One mutex, no condition variable: a call never waits, it is ONE critical section that runs the sequential
   model's step (C16_Model.lf_step) on the shared LogFile state.  The clock values and the fwrite results of a
   call are arguments of the call (environment inputs).  No proofs here. *)
From Coq Require Import List ZArith Bool.
From Coq.Strings Require Import Byte.
From Muduo Require Import Conc_Model C16_Model.
Import ListNotations.
Local Open Scope Z_scope.

Section LfMon.
  Variable A : Type.
  Variable c : cfg.

  Inductive lfop :=
  | MApp (d : list A) (env : list wres) (now now2 : Z)
  | MFlush.

  Definition sop_of (o : lfop) : sop_t A :=
    match o with MApp d env now now2 => SAppend d env now now2 | MFlush => SFlush end.

  Definition lf_body (o : lfop) (s : lf A) : outcome (lf A) unit := Ret (lf_step c s (sop_of o)) tt [].

  Definition lfsys := sys (lf A) lfop unit.

  (* the completed sections as the LogFile operations they were, in the order in which they held the mutex *)
  Definition ops_of (h : list (nat * lfop * unit)) : list (sop_t A) := map (fun e => sop_of (snd (fst e))) h.

  (* the calls thread t has completed, in that order *)
  Definition calls_of (t : nat) (h : list (nat * lfop * unit)) : list lfop :=
    map (fun e => snd (fst e)) (filter (fun e => Nat.eqb (fst (fst e)) t) h).

  Definition lfm_init (now : Z) (progs : list (list lfop)) : lfsys := init_sys (lf_new now) progs.
  Definition lfm_step (s : lfsys) (l : Conc_Model.label) : option lfsys := Conc_Model.step lf_body s l.
End LfMon.

Arguments MApp {A} d env now now2.
Arguments MFlush {A}.

(* runner: one completed critical section of thread t = acquire + body *)
Definition xm_init (now : Z) (progs : list (list (lfop byte))) : lfsys byte := lfm_init byte now progs.
Definition xm_section (c : cfg) (t : nat) (s : lfsys byte) : option (lfsys byte) :=
  match lfm_step byte c s (Conc_Model.LAcquire t) with
  | Some s1 => lfm_step byte c s1 (Conc_Model.LBody t [])
  | None => None
  end.
Definition xm_files (s : lfsys byte) : list (Z * list byte) := files_in_order (shared s).
Definition xm_left (s : lfsys byte) : nat := fold_right (fun th a => (length (prog th) + a)%nat) 0%nat (threads s).
