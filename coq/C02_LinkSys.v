(* C02_LinkSys: every step of the owners model moves the life-cycle view of every connection along
   the machine L of C02_Link (or leaves it alone) and emits exactly L's callbacks for it. *)
From Coq Require Import List Bool Arith Lia.
From Muduo Require Import Conn_Model C02_Model C02_SysProofs C02_Link.
Import ListNotations.

Definition kview (k : lc) : view := mkV (k_st k) (k_wr k) (k_rd k) (k_rflag k) (k_added k).
Definition vinit : view := mkV Connecting false false true false.
Definition viewof (s : sys) (c : nat) : view := match getc s c with Some k => kview k | None => vinit end.

Definition projx (c : nat) (x : obs) : list lev :=
  match x with
  | OUp _ c' => if c' =? c then [LUp] else []
  | ODown _ c' => if c' =? c then [LDown] else []
  | OMsg _ c' => if c' =? c then [LMsg] else []
  | ODtor _ _ _ => []
  end.
Definition proj (c : nat) (o : list obs) : list lev := flat_map (projx c) o.

Lemma proj_app c o1 o2 : proj c (o1 ++ o2) = proj c o1 ++ proj c o2.
Proof. apply flat_map_app. Qed.

Inductive lpath : view -> list lev -> view -> Prop :=
| lp_refl v : lpath v [] v
| lp_step v o v1 e1 e2 v2 : lstep v o = Some (v1, e1) -> lpath v1 e2 v2 -> lpath v (e1 ++ e2) v2.

Lemma lpath_trans v1 e1 v2 e2 v3 : lpath v1 e1 v2 -> lpath v2 e2 v3 -> lpath v1 (e1 ++ e2) v3.
Proof. induction 1; intros H2; [exact H2|]. rewrite <- app_assoc. econstructor; [eassumption|auto]. Qed.

Lemma lpath_one v o v' e : lstep v o = Some (v', e) -> lpath v e v'.
Proof. intros H. rewrite <- (app_nil_r e). econstructor; [exact H|constructor]. Qed.

(* local consistency of a channel, threaded through the steps *)
Definition kvalid (k : lc) : Prop :=
  (k_added k = false <-> k_pidx k = PNew) /\ (k_closable k = true -> k_added k = true) /\
  (k_st k = Connecting -> k_added k = false /\ k_wr k = false /\ k_rd k = false /\ k_rflag k = true) /\
  (k_closable k = false -> k_wr k = false /\ k_rd k = false).
Definition cvalid (s : sys) (c : nat) : Prop := match getc s c with Some k => kvalid k | None => True end.

Definition vgood (s : sys) (m : M) : Prop :=
  match m with
  | Ok (s', o) => forall c, cvalid s c -> cvalid s' c /\ lpath (viewof s c) (proj c o) (viewof s' c)
  | _ => True
  end.

Definition same_v (s s' : sys) : Prop := forall c, cvalid s c -> cvalid s' c /\ viewof s' c = viewof s c.

Lemma same_v_refl s : same_v s s.
Proof. intros c H. auto. Qed.
Lemma same_v_trans s1 s2 s3 : same_v s1 s2 -> same_v s2 s3 -> same_v s1 s3.
Proof. intros H1 H2 c H. destruct (H1 c H) as [A B]. destruct (H2 c A) as [C D]. split; [exact C|congruence]. Qed.

Lemma same_v_put s c k' : (forall k, getc s c = Some k -> kvalid k -> kvalid k' /\ kview k' = kview k) -> same_v s (put s c k').
Proof.
  intros H c1 Hv. unfold cvalid, viewof in *. destruct (Nat.eq_dec c c1) as [<-|Hn].
  - destruct (getc s c) as [k|] eqn:Hg.
    + rewrite getc_put_eq by (eapply getc_lt, Hg). apply (H k eq_refl Hv).
    + assert (E : getc (put s c k') c = None).
      { unfold getc, put in *. cbn. apply nth_error_None. rewrite length_upd. apply nth_error_None, Hg. }
      rewrite E. auto.
  - rewrite getc_put_neq by exact Hn. auto.
Qed.

Lemma same_v_conns s s' : s_conns s' = s_conns s -> same_v s s'.
Proof. intros E c H. unfold cvalid, viewof, getc in *. rewrite E. auto. Qed.
Lemma same_v_enq s l t : same_v s (enq s l t).
Proof. apply same_v_conns, conns_enq. Qed.

Lemma vgood_ret s s' : same_v s s' -> vgood s (ret s').
Proof. intros H c Hv. destruct (H c Hv) as [A B]. split; [exact A|]. cbn. rewrite B. constructor. Qed.

Lemma vgood_bind s m f : vgood s m -> (forall s1, vgood s1 (f s1)) -> vgood s (bind m f).
Proof.
  intros Hm Hf. unfold bind. destruct m as [[s1 o1]| |]; [|exact I|exact I].
  specialize (Hf s1). destruct (f s1) as [[s2 o2]| |]; [|exact I|exact I].
  intros c Hv. destruct (Hm c Hv) as [A B]. destruct (Hf c A) as [C D]. split; [exact C|].
  rewrite proj_app. eapply lpath_trans; eassumption.
Qed.

Lemma vgood_weaken s0 s m : same_v s0 s -> vgood s m -> vgood s0 m.
Proof.
  intros H. destruct m as [[s' o]| |]; auto. intros Hm c Hv. destruct (H c Hv) as [A B]. destruct (Hm c A) as [C D].
  split; [exact C|]. rewrite <- B. exact D.
Qed.

(* one connection moves by one L step together with the observation *)
Lemma vgood_put_obs s c k k' x lo e :
  getc s c = Some k -> (kvalid k -> kvalid k' /\ lstep (kview k) lo = Some (kview k', e)) ->
  (forall c1, proj c1 [x] = if c1 =? c then e else []) ->
  vgood s (emit (put s c k') [x]).
Proof.
  intros Hg Hk Hp c1 Hv. unfold emit, cvalid, viewof in *. rewrite Hp. destruct (Nat.eq_dec c c1) as [<-|Hn].
  - rewrite getc_put_eq by (eapply getc_lt, Hg). rewrite Hg in *. rewrite Nat.eqb_refl. destruct (Hk Hv) as [A B].
    split; [exact A|]. eapply lpath_one, B.
  - rewrite getc_put_neq by exact Hn. assert (E : (c1 =? c) = false) by (apply Nat.eqb_neq; auto). rewrite E.
    split; [exact Hv|constructor].
Qed.

Lemma proj_up thr c c1 : proj c1 [OUp thr c] = if c1 =? c then [LUp] else [].
Proof. cbn. rewrite (Nat.eqb_sym c c1), app_nil_r. reflexivity. Qed.
Lemma proj_down thr c c1 : proj c1 [ODown thr c] = if c1 =? c then [LDown] else [].
Proof. cbn. rewrite (Nat.eqb_sym c c1), app_nil_r. reflexivity. Qed.
Lemma proj_msg thr c c1 : proj c1 [OMsg thr c] = if c1 =? c then [LMsg] else [].
Proof. cbn. rewrite (Nat.eqb_sym c c1), app_nil_r. reflexivity. Qed.

(* silent moves *)
Definition vmove (s s' : sys) : Prop := forall c, cvalid s c -> cvalid s' c /\ lpath (viewof s c) [] (viewof s' c).

Lemma vmove_same s s' : same_v s s' -> vmove s s'.
Proof. intros H c Hv. destruct (H c Hv) as [A B]. split; [exact A|]. rewrite B. constructor. Qed.
Lemma vmove_refl s : vmove s s.
Proof. apply vmove_same, same_v_refl. Qed.
Lemma vmove_trans s1 s2 s3 : vmove s1 s2 -> vmove s2 s3 -> vmove s1 s3.
Proof.
  intros H1 H2 c H. destruct (H1 c H) as [A B]. destruct (H2 c A) as [C D]. split; [exact C|].
  change (@nil lev) with (@nil lev ++ []). eapply lpath_trans; eassumption.
Qed.
Lemma vgood_move s s' : vmove s s' -> vgood s (ret s').
Proof. intros H c Hv. apply (H c Hv). Qed.

Lemma vmove_put s c k k' lo : getc s c = Some k ->
  (kvalid k -> kvalid k' /\ lstep (kview k) lo = Some (kview k', [])) -> vmove s (put s c k').
Proof.
  intros Hg Hk c1 Hv. unfold cvalid, viewof in *. destruct (Nat.eq_dec c c1) as [<-|Hn].
  - rewrite getc_put_eq by (eapply getc_lt, Hg). rewrite Hg in *. destruct (Hk Hv) as [A B]. split; [exact A|]. eapply lpath_one, B.
  - rewrite getc_put_neq by exact Hn. split; [exact Hv|constructor].
Qed.

(* the record after Channel::update *)
Lemma cu_view r k w d : kview (chan_update r k w d) = mkV (k_st k) w d (k_rflag k) true.
Proof.
  pose proof (chan_update_fields r k w d) as F. cbv zeta in F.
  destruct F as (F1 & F2 & F3 & F4 & F5 & _). unfold kview. rewrite F1, F2, F3, F4, F5. reflexivity.
Qed.

Lemma cu_valid r k w d : k_st k <> Connecting -> (k_closable k = false -> w = false /\ d = false) -> kvalid (chan_update r k w d).
Proof.
  intros Hs Hi. pose proof (chan_update_fields r k w d) as F. cbv zeta in F.
  destruct F as (F1 & F2 & F3 & F4 & F5 & F6 & F7 & F8 & F9 & F10 & F11 & F12 & F13 & F14 & F15 & F16 & F17).
  unfold kvalid, k_closable in *. rewrite F1, F2, F3, F5. split; [split; intros; [discriminate|congruence]|]. split; [auto|]. split; [intros E; congruence|exact Hi].
Qed.

Lemma vgood_establish s thr c : vgood s (establish s thr c).
Proof.
  unfold establish. destruct (getc s c) as [k|] eqn:Hg; [|exact I].
  destruct (negb (k_alive k)); [exact I|]. destruct (negb (thr =? k_loop k)); [exact I|].
  destruct (cstate_eqb (k_st k) Connecting) eqn:Es; [|exact I]. apply cs_eqb_true in Es. cbn [negb].
  apply (vgood_put_obs s c k _ _ LEstablish [LUp] Hg); [|apply proj_up].
  intros Hv. split; [apply cu_valid; [cbn; discriminate|unfold k_closable; cbn; discriminate]|].
  rewrite cu_view. unfold lstep, kview. cbn [v_st v_wr v_rf set_life k_st k_wr k_rflag]. rewrite Es. reflexivity.
Qed.

Lemma vgood_remove_in_loop s thr c : vgood s (remove_in_loop s thr c).
Proof.
  unfold remove_in_loop. destruct (negb (s_srv s)); [exact I|]. destruct (negb (thr =? 0)); [exact I|].
  destruct (getc s c) as [k|] eqn:Hg; [|exact I]. destruct (negb (k_mapped k)); [exact I|].
  apply vgood_ret. eapply same_v_trans; [|apply same_v_enq].
  apply same_v_put. intros k0 Hk0 Hv. rewrite Hg in Hk0. injection Hk0 as <-. split; [exact Hv|reflexivity].
Qed.

Lemma vgood_close_cb s thr c : vgood s (close_cb s thr c).
Proof.
  unfold close_cb. destruct (getc s c) as [k|] eqn:Hg; [|exact I]. destruct (k_ccb k).
  - destruct (negb (s_srv s) && (thr =? 0)); [exact I|]. destruct (thr =? 0); [apply vgood_remove_in_loop|apply vgood_ret, same_v_enq].
  - destruct (negb (s_cli s)); [exact I|]. destruct (negb (thr =? 0)); [exact I|]. destruct (s_cliconn s) as [c'|]; [|exact I].
    destruct (negb (c' =? c)); [exact I|]. apply vgood_ret.
    apply (same_v_trans _ (put s c (set_own k CbClient false (k_urefs k) (k_delayed k)))).
    + apply same_v_put. intros k0 Hk0 Hv. rewrite Hg in Hk0. injection Hk0 as <-. split; [exact Hv|reflexivity].
    + eapply same_v_trans; [|apply same_v_enq]. apply same_v_conns. reflexivity.
  - apply vgood_ret, same_v_enq.
Qed.

Lemma closed_step r k : k_closable k = true ->
  kvalid (chan_update r (set_life k Disconnected (k_ups k) (S (k_downs k))) false false) /\
  lstep (kview k) LClose = Some (kview (chan_update r (set_life k Disconnected (k_ups k) (S (k_downs k))) false false), [LDown]).
Proof.
  intros Hc. split; [apply cu_valid; [cbn; discriminate|auto]|]. rewrite cu_view. unfold lstep, v_closable, kview. cbn [v_st v_rf set_life k_st k_rflag].
  unfold k_closable in Hc. rewrite Hc. reflexivity.
Qed.

Lemma vgood_handle_close s thr c : vgood s (handle_close s thr c).
Proof.
  unfold handle_close. destruct (getc s c) as [k|] eqn:Hg; [|exact I].
  destruct (negb (thr =? k_loop k)); [exact I|]. destruct (k_closable k) eqn:Ec; [|exact I]. cbn [negb].
  apply vgood_bind; [|intros s1; apply vgood_close_cb].
  apply (vgood_put_obs s c k _ _ LClose [LDown] Hg); [|apply proj_down]. intros _. apply closed_step, Ec.
Qed.

Lemma removed_valid k1 : k_st k1 <> Connecting -> k_closable k1 = false -> k_wr k1 = false -> k_rd k1 = false ->
  kvalid (set_chan k1 (k_wr k1) (k_rd k1) false PNew).
Proof.
  intros H1 H2 Hw Hr. unfold kvalid, k_closable in *. cbn [set_chan k_added k_pidx k_st k_wr k_rd k_rflag].
  split; [tauto|]. split; [intros E; congruence|]. split; [intros E; congruence|auto].
Qed.

Lemma vgood_connect_destroyed s thr c : vgood s (connect_destroyed s thr c).
Proof.
  unfold connect_destroyed. destruct (getc s c) as [k|] eqn:Hg; [|exact I].
  destruct (negb (k_alive k)); [exact I|]. destruct (negb (thr =? k_loop k)); [exact I|].
  destruct (k_closable k) eqn:Ec.
  - unfold chan_remove. destruct (negb (k_none _)); [exact I|]. destruct (pidx_eqb _ PNew); [exact I|].
    apply (vgood_put_obs s c k _ _ LDestroy [LDown] Hg); [|apply proj_down].
    intros (V1 & V2 & V3 & V4). split.
    + pose proof (chan_update_fields (s_readd s) (set_life k Disconnected (k_ups k) (S (k_downs k))) false false) as F. cbv zeta in F.
      destruct F as (F1 & F2 & F3 & _). cbn [set_life k_st] in F1.
      apply removed_valid; [congruence|unfold k_closable; rewrite F1; reflexivity|exact F2|exact F3].
    + unfold kview at 2. cbn [set_chan k_st k_wr k_rd k_rflag k_added].
      pose proof (chan_update_fields (s_readd s) (set_life k Disconnected (k_ups k) (S (k_downs k))) false false) as F. cbv zeta in F.
      destruct F as (F1 & F2 & F3 & F4 & _). rewrite F1, F2, F3, F4. cbn [set_life k_st k_rflag].
      unfold lstep, v_closable, kview. cbn [v_st v_reg v_rf]. rewrite (V2 Ec). unfold k_closable in Ec. rewrite Ec. reflexivity.
  - unfold chan_remove. destruct (k_none k) eqn:En; [|exact I]. cbn [negb]. destruct (pidx_eqb (k_pidx k) PNew) eqn:Ep; [exact I|].
    assert (Hx : vgood s (emit (put s c (set_chan k (k_wr k) (k_rd k) false PNew)) [])); [|exact Hx].
    intros c1 Hv. cbn [proj flat_map].
    apply (vmove_put s c k (set_chan k (k_wr k) (k_rd k) false PNew) LDestroy Hg); [|exact Hv].
    intros (V1 & V2 & V3 & V4). assert (Ha : k_added k = true).
    { destruct (k_added k) eqn:E; [reflexivity|]. rewrite (proj1 V1 eq_refl) in Ep. discriminate. }
    split.
    + destruct (V4 Ec) as [Hw Hr]. apply removed_valid; [intros E; destruct (V3 E) as (E1 & _); congruence|exact Ec|exact Hw|exact Hr].
    + unfold lstep, v_closable, kview. cbn [v_st v_reg v_wr v_rd v_rf set_chan k_st k_wr k_rd k_rflag k_added]. rewrite Ha.
      unfold k_closable in Ec. rewrite Ec. unfold k_none in En. apply negb_true_iff in En. rewrite En. reflexivity.
Qed.

Lemma disc_step k : k_closable k = true -> kvalid k ->
  kvalid (set_life k Disconnecting (k_ups k) (k_downs k)) /\
  lstep (kview k) LDisc = Some (kview (set_life k Disconnecting (k_ups k) (k_downs k)), []).
Proof.
  intros Hc (V1 & V2 & V3 & V4). split.
  - unfold kvalid, k_closable. cbn. split; [exact V1|]. split; [intros _; apply V2, Hc|]. split; discriminate.
  - unfold lstep, v_closable, kview. cbn [v_st set_life k_st k_wr k_rd k_rflag k_added v_wr v_rd v_rf v_reg].
    unfold k_closable in Hc. rewrite Hc. reflexivity.
Qed.

Lemma vmove_force_close s c : vmove s (force_close s c).
Proof.
  unfold force_close. destruct (getc s c) as [k|] eqn:Hg; [|apply vmove_refl]. destruct (k_closable k) eqn:Ec; [|apply vmove_refl].
  eapply vmove_trans; [|apply vmove_same, same_v_enq]. apply (vmove_put s c k _ LDisc Hg). intros Hv. apply disc_step; assumption.
Qed.

Lemma vmove_start_read s c : (forall k, getc s c = Some k -> k_st k <> Connecting) -> vmove s (start_read s c).
Proof.
  intros Hn. unfold start_read. destruct (getc s c) as [k|] eqn:Hg; [|apply vmove_refl].
  destruct (negb (cstate_eqb (k_st k) Disconnected) && (negb (k_rflag k) || negb (k_rd k))) eqn:E; [|apply vmove_refl].
  apply andb_prop in E as [E1 E2]. apply negb_true_iff in E1. specialize (Hn k eq_refl).
  apply (vmove_put s c k _ LStartRead Hg). intros Hv. split.
  - assert (Hcl : k_closable k = true) by (unfold k_closable; destruct (k_st k); try reflexivity; [congruence|discriminate]).
    assert (Hi : k_closable k = false -> k_wr k = false /\ true = false) by congruence.
    pose proof (cu_valid (s_readd s) k (k_wr k) true Hn Hi) as (A & B & C & D). unfold kvalid, k_closable in *. cbn [set_rflag k_added k_pidx k_st k_wr k_rd k_rflag] in *.
    split; [exact A|]. split; [exact B|]. split; [|exact D]. intros Ex. pose proof (chan_update_fields (s_readd s) k (k_wr k) true) as F. cbv zeta in F. destruct F as (F1 & _). congruence.
  - assert (Ev : kview (set_rflag (chan_update (s_readd s) k (k_wr k) true) true) = mkV (k_st k) (k_wr k) true true true).
    { pose proof (cu_view (s_readd s) k (k_wr k) true) as V. unfold kview in *. cbn [set_rflag k_st k_wr k_rd k_rflag k_added]. injection V as -> -> -> _ ->. reflexivity. }
    rewrite Ev. unfold lstep, kview. cbn [v_st v_rf v_rd v_wr]. rewrite E1, E2.
    destruct (k_st k); try reflexivity; congruence.
Qed.

Lemma vmove_stop_read s c : (forall k, getc s c = Some k -> k_st k <> Connecting) -> vmove s (stop_read s c).
Proof.
  intros Hn. unfold stop_read. destruct (getc s c) as [k|] eqn:Hg; [|apply vmove_refl].
  destruct (negb (cstate_eqb (k_st k) Disconnected) && (k_rflag k || k_rd k)) eqn:E; [|apply vmove_refl].
  apply andb_prop in E as [E1 E2]. apply negb_true_iff in E1. specialize (Hn k eq_refl).
  apply (vmove_put s c k _ LStopRead Hg). intros Hv. split.
  - assert (Hcl : k_closable k = true) by (unfold k_closable; destruct (k_st k); try reflexivity; [congruence|discriminate]).
    assert (Hi : k_closable k = false -> k_wr k = false /\ false = false) by congruence.
    pose proof (cu_valid (s_readd s) k (k_wr k) false Hn Hi) as (A & B & C & D). unfold kvalid, k_closable in *. cbn [set_rflag k_added k_pidx k_st k_wr k_rd k_rflag] in *.
    split; [exact A|]. split; [exact B|]. split; [|exact D]. intros Ex. pose proof (chan_update_fields (s_readd s) k (k_wr k) false) as F. cbv zeta in F. destruct F as (F1 & _). congruence.
  - assert (Ev : kview (set_rflag (chan_update (s_readd s) k (k_wr k) false) false) = mkV (k_st k) (k_wr k) false false true).
    { pose proof (cu_view (s_readd s) k (k_wr k) false) as V. unfold kview in *. cbn [set_rflag k_st k_wr k_rd k_rflag k_added]. injection V as -> -> -> _ ->. reflexivity. }
    rewrite Ev. unfold lstep, kview. cbn [v_st v_rf v_rd v_wr]. rewrite E1, E2.
    destruct (k_st k); try reflexivity; congruence.
Qed.

Lemma vmove_send_in_loop s c full wc : (forall k, getc s c = Some k -> k_st k <> Connecting) -> vmove s (send_in_loop s c full wc).
Proof.
  intros Hn. unfold send_in_loop. destruct (getc s c) as [k|] eqn:Hg; [|apply vmove_refl].
  destruct (cstate_eqb (k_st k) Disconnected) eqn:Ed; [apply vmove_refl|]. destruct (k_wr k) eqn:Ew; [apply vmove_refl|]. destruct (k_fin k); [apply vmove_refl|].
  destruct full; [destruct wc; [apply vmove_same, same_v_enq|apply vmove_refl]|]. specialize (Hn k eq_refl).
  apply (vmove_put s c k _ LWrOn Hg). intros Hv. split.
  { apply cu_valid; [exact Hn|]. intros Ex. unfold k_closable in Ex. destruct (k_st k); try discriminate; congruence. }
  rewrite cu_view. unfold lstep, kview. cbn [v_st v_wr v_rd v_rf]. rewrite Ed, Ew. destruct (k_st k); try reflexivity; congruence.
Qed.

Lemma same_v_sweep_from n : forall s thr c, same_v s (fst (sweep_from s thr n c)).
Proof.
  induction n as [|n IH]; intros s thr c; cbn [sweep_from]; [apply same_v_refl|].
  destruct (getc s c) as [k|] eqn:Hg; [|apply same_v_refl].
  destruct (k_alive k && (holders s c =? 0)).
  - specialize (IH (put s c (kill k)) thr (S c)). destruct (sweep_from (put s c (kill k)) thr n (S c)) as [s' o]. cbn [fst] in *.
    eapply same_v_trans; [|exact IH]. apply same_v_put. intros k0 Hk0 Hv. rewrite Hg in Hk0. injection Hk0 as <-. split; [exact Hv|reflexivity].
  - apply IH.
Qed.

Lemma proj_dtors c d : (forall x, In x d -> exists t c0 b, x = ODtor t c0 b) -> proj c d = [].
Proof.
  induction d as [|x d IH]; intros H; [reflexivity|]. destruct (H x (or_introl eq_refl)) as (t & c0 & b & ->).
  cbn. apply IH. intros y Hy. apply H. right. exact Hy.
Qed.

Lemma vgood_finish s m thr : vgood s m -> vgood s (finish m thr).
Proof.
  unfold finish. destruct m as [[s1 o1]| |]; auto. intros Hm.
  pose proof (same_v_sweep_from (length (s_conns s1)) s1 thr 0) as Ls. pose proof (sweep_from_obs (length (s_conns s1)) s1 thr 0) as Os.
  unfold sweep. destruct (sweep_from s1 thr (length (s_conns s1)) 0) as [s2 d]. cbn [fst snd] in *.
  destruct (all_clean d); [|exact I]. intros c Hv. destruct (Hm c Hv) as [A B]. destruct (Ls c A) as [C D].
  split; [exact C|]. rewrite proj_app, (proj_dtors c d), app_nil_r, D; [exact B|].
  intros x Hx. destruct (Os x Hx) as (c0 & b & ->). eauto.
Qed.

Lemma same_v_add s l cb rr cc : same_v s (add_conn s (fresh l cb) rr cc).
Proof.
  intros c Hv. unfold cvalid, viewof in *. destruct (Nat.lt_ge_cases c (length (s_conns s))) as [Hlt|Hge].
  - rewrite getc_add_old by exact Hlt. auto.
  - assert (E : getc s c = None) by (apply nth_error_None; exact Hge). rewrite E.
    destruct (Nat.eq_dec c (length (s_conns s))) as [->|Hn].
    + rewrite getc_add_new. split; [|reflexivity]. unfold kvalid, k_closable. cbn. repeat split; auto; discriminate.
    + assert (E2 : getc (add_conn s (fresh l cb) rr cc) c = None) by (unfold getc, add_conn; cbn; apply nth_error_None; rewrite app_length; cbn; lia).
      rewrite E2. auto.
Qed.

Lemma vgood_accept s : vgood s (accept s).
Proof.
  unfold accept. destruct (negb (s_srv s) || s_dying s); [exact I|].
  match goal with |- vgood s (if ?b then establish ?s1 0 ?c else _) => assert (L : same_v s s1) by apply (same_v_add s _ CbServer) end.
  destruct (_ =? 0).
  - eapply vgood_weaken; [exact L|apply vgood_establish].
  - apply vgood_ret. eapply same_v_trans; [exact L|apply same_v_enq].
Qed.

Lemma vgood_srv_hand s c : vgood s (srv_hand s c).
Proof.
  unfold srv_hand. destruct (getc s c) as [k|] eqn:Hg; [|exact I].
  assert (L : same_v s (put s c (set_own k (k_ccb k) false (k_urefs k) (k_delayed k)))).
  { apply same_v_put. intros k0 Hk0 Hv. rewrite Hg in Hk0. injection Hk0 as <-. split; [exact Hv|reflexivity]. }
  destruct (k_loop k =? 0).
  - eapply vgood_weaken; [exact L|apply vgood_connect_destroyed].
  - apply vgood_ret. eapply same_v_trans; [exact L|apply same_v_enq].
Qed.

Lemma vgood_cli_connect s : vgood s (cli_connect s).
Proof.
  unfold cli_connect. destruct (negb (s_cli s)); [exact I|]. destruct (s_cliconn s); [exact I|].
  match goal with |- vgood s (establish ?s1 0 ?c) => assert (L : same_v s s1) by apply (same_v_add s 0 CbClient (s_rr s)) end.
  eapply vgood_weaken; [exact L|apply vgood_establish].
Qed.

Lemma vgood_cli_destroy strict s : vgood s (cli_destroy strict s).
Proof.
  unfold cli_destroy. destruct (negb (s_cli s)); [exact I|]. destruct (s_cliconn s) as [c|].
  - destruct (getc s c) as [k|] eqn:Hg; [|exact I]. destruct (_ && _ && _); [exact I|].
    set (s1 := put s c (set_own k CbDetail (k_mapped k) (k_urefs k) (k_delayed k))).
    assert (L1 : vmove s s1) by (apply vmove_same, same_v_put; intros k0 Hk0 Hv; rewrite Hg in Hk0; injection Hk0 as <-; split; [exact Hv|reflexivity]).
    set (s2 := if holders s c =? 1 then force_close s1 c else s1).
    assert (L2 : vmove s s2) by (unfold s2; destruct (holders s c =? 1); [eapply vmove_trans; [exact L1|apply vmove_force_close]|exact L1]).
    destruct (getc s2 c) as [k2|] eqn:Hg2; [|exact I]. apply vgood_move.
    eapply vmove_trans; [exact L2|]. apply vmove_same. eapply same_v_trans; [|apply same_v_conns; reflexivity].
    apply same_v_put. intros k0 Hk0 Hv. rewrite Hg2 in Hk0. injection Hk0 as <-. split; [exact Hv|reflexivity].
  - apply vgood_ret. eapply same_v_trans; [|apply same_v_enq]. apply same_v_conns. reflexivity.
Qed.

Definition task_ok (s : sys) (t : task) : Prop :=
  needs_up t = true -> forall k, getc s (task_conn t) = Some k -> k_st k <> Connecting.

Lemma vgood_run_task s l t full wc : task_ok s t -> vgood s (run_task s l t full wc).
Proof.
  intros Hok. destruct t; cbn [run_task].
  - apply vgood_establish.
  - apply vgood_remove_in_loop.
  - apply vgood_connect_destroyed.
  - destruct (getc s c) as [k|]; [|exact I]. destruct (k_closable k); [apply vgood_handle_close|apply vgood_ret, same_v_refl].
  - apply vgood_ret, same_v_refl.
  - destruct (getc s c) as [k|] eqn:Hg; [|exact I]. destruct (k_alive k); [|exact I]. apply vgood_ret.
    apply same_v_put. intros k0 Hk0 Hv. rewrite Hg in Hk0. injection Hk0 as <-. unfold shutdown_in_loop. destruct (k_wr k); split; auto.
  - destruct (match getc s c with Some k => k_alive k | None => false end); [apply vgood_move, vmove_start_read, (Hok eq_refl)|exact I].
  - destruct (match getc s c with Some k => k_alive k | None => false end); [apply vgood_move, vmove_stop_read, (Hok eq_refl)|exact I].
  - destruct (match getc s c with Some k => k_alive k | None => false end); [apply vgood_move, vmove_send_in_loop, (Hok eq_refl)|exact I].
  - destruct (getc s c) as [k|] eqn:Hg; [|exact I]. apply vgood_ret.
    apply same_v_put. intros k0 Hk0 Hv. rewrite Hg in Hk0. injection Hk0 as <-. split; [exact Hv|reflexivity].
  - apply vgood_ret, same_v_refl.
  - destruct (getc s c) as [k|] eqn:Hg; [|exact I]. destruct (k_alive k); [|exact I]. apply vgood_ret.
    apply same_v_put. intros k0 Hk0 Hv. rewrite Hg in Hk0. injection Hk0 as <-. split; [exact Hv|reflexivity].
Qed.

Lemma vgood_ev_step strict s c e : vgood s (ev_step strict s c e).
Proof.
  unfold ev_step. destruct (getc s c) as [k|] eqn:Hg; [|exact I].
  destruct (k_alive k && k_added k && k_inset k && loop_idle s (k_loop k)) eqn:Epre; [|exact I]. cbn [negb].
  apply andb_prop in Epre as [Epre _]. apply andb_prop in Epre as [Epre _]. apply andb_prop in Epre as [_ Hadd].
  destruct e.
  - destruct (k_rd k) eqn:Er; [|exact I]. intros c1 Hv. split; [exact Hv|]. rewrite proj_msg. destruct (c1 =? c) eqn:E; [|constructor].
    apply Nat.eqb_eq in E. subst c1. unfold viewof. rewrite Hg. apply (lpath_one _ LData). unfold lstep, kview. cbn. rewrite Er, Hadd. reflexivity.
  - destruct (k_rd k); [|exact I]. destruct (_ && _); [exact I|apply vgood_handle_close].
  - destruct (k_rd k); [apply vgood_ret, same_v_refl|exact I].
  - destruct (_ && _); [exact I|apply vgood_handle_close].
  - apply vgood_ret, same_v_refl.
  - destruct (k_wr k) eqn:Ew; [|exact I]. destruct drained; [|apply vgood_ret, same_v_refl]. apply vgood_move.
    set (k1 := chan_update (s_readd s) k false (k_rd k)).
    set (k2 := if cstate_eqb (k_st k) Disconnecting then shutdown_in_loop k1 else k1).
    assert (L : vmove s (put s c k2)).
    { apply (vmove_put s c k k2 LWrOff Hg). intros (V1 & V2 & V3 & V4).
      assert (Hn : k_st k <> Connecting) by (intros E; destruct (V3 E) as (_ & Hx & _); congruence).
      assert (Hi : k_closable k = false -> false = false /\ k_rd k = false) by (intros Ex; split; [reflexivity|apply (V4 Ex)]).
      pose proof (cu_valid (s_readd s) k false (k_rd k) Hn Hi) as Hv1. fold k1 in Hv1.
      assert (E2 : kvalid k2 /\ kview k2 = kview k1).
      { unfold k2, shutdown_in_loop. destruct (cstate_eqb (k_st k) Disconnecting); [|split; [exact Hv1|reflexivity]].
        destruct (k_wr k1); split; try exact Hv1; reflexivity. }
      destruct E2 as [A B]. split; [exact A|]. rewrite B. unfold k1. rewrite cu_view. unfold lstep, kview. cbn. rewrite Ew, Hadd. reflexivity. }
    destruct wc; [eapply vmove_trans; [exact L|apply vmove_same, same_v_enq]|exact L].
Qed.

Lemma vgood_on_conn s c f : (forall k, getc s c = Some k -> k_st k <> Connecting -> vgood s (f k)) -> vgood s (on_conn s c f).
Proof.
  intros H. unfold on_conn. destruct (getc s c) as [k|] eqn:Hg; [|exact I].
  destruct (k_alive k && negb (cstate_eqb (k_st k) Connecting)) eqn:E; [|exact I].
  apply andb_prop in E as [_ E]. apply negb_true_iff, cs_eqb_false in E. apply H; [reflexivity|exact E].
Qed.

Lemma vgood_on_lconn s c f : (forall k, getc s c = Some k -> k_st k <> Connecting -> vgood s (f k)) -> vgood s (on_lconn s c f).
Proof. intros H. unfold on_lconn. apply vgood_on_conn. intros k Hg Hn. destruct (gone s (k_loop k)); [exact I|apply H; assumption]. Qed.

(* every step of the owners model (under its environment hypotheses) moves every connection's view along L *)
Theorem vgood_step s o : Inv s -> vgood s (step true s o).
Proof.
  intros [[G HC] HH]. destruct o; cbn [step].
  - apply vgood_finish, vgood_accept.
  - destruct (negb (s_srv s)); [exact I|]. destruct (_ && _); [exact I|]. destruct (next_entry (s_conns s) 0) as [c0|].
    + apply vgood_finish. eapply vgood_weaken; [|apply vgood_srv_hand]. apply same_v_conns. reflexivity.
    + apply vgood_finish, vgood_ret, same_v_conns. reflexivity.
  - apply vgood_finish, vgood_cli_connect.
  - apply vgood_finish, vgood_cli_destroy.
  - destruct (getl s l) as [v|]; [|exact I]. destruct (q_idle v && negb (gone s l)); [|exact I]. apply vgood_ret, same_v_conns. reflexivity.
  - destruct (getl s l) as [v|] eqn:Hv; [|exact I]. destruct (q_batch v) as [|t rest] eqn:Hb; [exact I|]. apply vgood_finish.
    match goal with |- vgood s (run_task ?s1 _ _ _ _) => apply (vgood_weaken s s1); [apply same_v_conns; reflexivity|] end.
    apply vgood_run_task.
    intros Hn k Hk. change (getc s (task_conn t) = Some k) in Hk. assert (Hin : In t (q_all v)) by (unfold q_all; rewrite Hb; apply in_or_app; right; left; reflexivity).
    destruct (gi_placed s G l v t Hv Hin) as [_ [_ Hpl]].
    destruct t; try discriminate Hn; destruct Hpl as (k1 & Hk1 & _ & Hs); rewrite Hk1 in Hk; injection Hk as <-; apply Hs, Hn.
  - destruct (getl s l) as [v|]; [|exact I]. destruct (q_batch v); [|exact I]. destruct (negb (q_drain v)); [exact I|].
    destruct (quitting s l); [destruct (_ && _); [exact I|]; destruct (_ && _); [exact I|]|]; apply vgood_finish, vgood_ret, same_v_conns; reflexivity.
  - destruct (getc s c) as [k|]; [|exact I]. apply vgood_finish, vgood_ev_step.
  - destruct (getc s c) as [k|] eqn:Hg; [|exact I]. destruct (k_delayed k); [exact I|]. destruct (negb _); [exact I|].
    apply vgood_finish, vgood_move.
    assert (L : vmove s (put s c (set_own k (k_ccb k) (k_mapped k) (k_urefs k) n))).
    { apply vmove_same, same_v_put. intros k0 Hk0 Hv. rewrite Hg in Hk0. injection Hk0 as <-. split; [exact Hv|reflexivity]. }
    destruct (k_alive k); [eapply vmove_trans; [exact L|apply vmove_force_close]|exact L].
  - apply vgood_on_lconn. intros k Hg Hn. apply vgood_move. destruct (cstate_eqb (k_st k) Connected) eqn:Ec; [|apply vmove_refl].
    apply cs_eqb_true in Ec. apply (vmove_put s c k _ LDisc Hg). intros Hv.
    assert (Hcl : k_closable k = true) by (unfold k_closable; rewrite Ec; reflexivity).
    destruct (disc_step k Hcl Hv) as [A B]. unfold shutdown_in_loop. destruct (k_wr _); split; auto.
  - apply vgood_on_lconn. intros k Hg Hn. apply vgood_move, vmove_force_close.
  - apply vgood_on_lconn. intros k Hg Hn. apply vgood_move. destruct (k_closable k) eqn:Ec; [|apply vmove_refl].
    apply (vmove_put s c k _ LDisc Hg). intros Hv. destruct (disc_step k Ec Hv) as [A B]. split; [exact A|exact B].
  - apply vgood_on_lconn. intros k Hg Hn. apply vgood_move. destruct (cstate_eqb (k_st k) Connected); [|apply vmove_refl].
    apply vmove_send_in_loop. intros k0 Hk0. rewrite Hg in Hk0. injection Hk0 as <-. exact Hn.
  - apply vgood_on_lconn. intros k Hg Hn. destruct (k_added k); [|exact I]. apply vgood_move, vmove_start_read.
    intros k0 Hk0. rewrite Hg in Hk0. injection Hk0 as <-. exact Hn.
  - apply vgood_on_lconn. intros k Hg Hn. destruct (k_added k); [|exact I]. apply vgood_move, vmove_stop_read.
    intros k0 Hk0. rewrite Hg in Hk0. injection Hk0 as <-. exact Hn.
  - apply vgood_on_conn. intros k Hg Hn. apply vgood_ret, same_v_put. intros k0 Hk0 Hv. rewrite Hg in Hk0. injection Hk0 as <-. split; [exact Hv|reflexivity].
  - destruct (getc s c) as [k|] eqn:Hg; [|exact I]. destruct (k_urefs k); [exact I|]. destruct (_ && _ && _ && _ && _); [exact I|].
    apply vgood_finish, vgood_ret, same_v_put. intros k0 Hk0 Hv. rewrite Hg in Hk0. injection Hk0 as <-. split; [exact Hv|reflexivity].
  - destruct (true && is_dtor a); [exact I|]. destruct (find_call u (s_calls s)); [exact I|].
    destruct (is_dtor a); [destruct (_ && _); [|exact I]|]; apply vgood_on_conn; intros k Hg Hn; apply vgood_ret, same_v_conns; reflexivity.
  - destruct (find_call u (s_calls s)) as [a|] eqn:Hf; [|exact I]. destruct (a_stored a); [exact I|].
    destruct (getc s (a_conn a)) as [k|] eqn:Hg; [|exact I].
    destruct (is_dtor (a_api a)).
    { apply vgood_move.
      match goal with |- vmove s (if _ then force_close ?s2 _ else _) => assert (L : vmove s s2) by (apply vmove_same, same_v_conns; rewrite conns_enq; reflexivity) end.
      destruct (a_loaded a); [eapply vmove_trans; [exact L|apply vmove_force_close]|exact L]. }
    destruct (true && a_loaded a && cstate_eqb (k_st k) Disconnected) eqn:Eg; [exact I|]. cbn [andb] in Eg.
    apply vgood_move. destruct (a_loaded a && api_stores (a_api a)) eqn:El; [|apply vmove_same, same_v_conns; reflexivity].
    apply andb_prop in El as [El Es]. rewrite El in Eg. cbn [andb] in Eg. apply cs_eqb_false in Eg.
    match goal with |- vmove s (put ?s1 _ _) => apply (vmove_trans s s1); [apply vmove_same, same_v_conns; reflexivity|] end.
    apply (vmove_put _ (a_conn a) k _ LDisc Hg). intros Hv.
    assert (Hcl : k_closable k = true).
    { (* a call in progress is on a connection that is not kConnecting, and the store does not overwrite kDisconnected *)
      destruct (find_call_some _ _ _ Hf) as [Hin _].
      destruct (proj2 (gi_calls s G) a Hin) as (k1 & Hk1 & _ & Hnc & _). rewrite Hg in Hk1. injection Hk1 as <-.
      unfold k_closable. destruct (k_st k); try reflexivity; congruence. }
    apply (disc_step k Hcl Hv).
  - destruct (find_call u (s_calls s)) as [a|]; [|exact I]. destruct (negb (a_stored a)); [exact I|].
    destruct (getc s (a_conn a)) as [k|] eqn:Hg; [|exact I].
    destruct (is_dtor (a_api a)).
    { apply vgood_finish, vgood_ret.
      match goal with |- same_v s (set_cli (put ?s1 _ _) _ _) => apply (same_v_trans s s1); [apply same_v_conns; reflexivity|];
        apply (same_v_trans s1 (put s1 (a_conn a) (set_own k (k_ccb k) false (k_urefs k) (k_delayed k)))); [|apply same_v_conns; reflexivity] end.
      apply same_v_put. intros k0 Hk0 Hv. change (getc s (a_conn a) = Some k0) in Hk0. rewrite Hg in Hk0. injection Hk0 as <-. split; [exact Hv|reflexivity]. }
    destruct (_ && _ && _ && _); [exact I|]. destruct (a_loaded a && gone s (k_loop k)); [exact I|].
    apply vgood_finish, vgood_ret. destruct (a_loaded a); [|apply same_v_conns; reflexivity].
    destruct (a_api a); try (apply same_v_conns; reflexivity); match goal with |- same_v s (enq ?s1 _ _) => apply (same_v_trans s s1); [apply same_v_conns; reflexivity|apply same_v_enq] end.
Qed.

(* ---- composition ------------------------------------------------------------------------------------ *)
Lemma kvalid_lvalid k : kvalid k -> lvalid (kview k).
Proof.
  intros (V1 & V2 & V3 & V4). unfold lvalid, v_closable, kview. cbn [v_st v_wr v_rd v_reg]. fold (k_closable k).
  split; [exact V4|]. split; [intros E; apply (V3 E)|exact V2].
Qed.

Lemma lvalid_vinit : lvalid vinit.
Proof. unfold lvalid, vinit. cbn. repeat split; auto; discriminate. Qed.

Lemma sreach_cvalid s : sreach s -> forall c, cvalid s c.
Proof.
  induction 1 as [nio readd|s o s' obs Hr IH H]; intros c.
  - unfold cvalid, getc. cbn. destruct c; exact I.
  - pose proof (vgood_step s o (sreach_inv s Hr)) as Hg. rewrite H in Hg. apply (Hg c (IH c)).
Qed.

Lemma viewof_valid s c : sreach s -> lvalid (viewof s c).
Proof.
  intros Hr. pose proof (sreach_cvalid s Hr c) as Hv. unfold cvalid, viewof in *.
  destruct (getc s c); [apply kvalid_lvalid, Hv|apply lvalid_vinit].
Qed.

(* every step of the owners model projects, for every connection, to a path of the life-cycle machine L
   with exactly the callbacks observed for that connection *)
Theorem S02_projects_to_L : forall s o s' obs, sreach s -> step true s o = Ok (s', obs) ->
  forall c, lpath (viewof s c) (proj c obs) (viewof s' c).
Proof.
  intros s o s' obs Hr H c. pose proof (vgood_step s o (sreach_inv s Hr)) as Hg. rewrite H in Hg.
  apply (Hg c (sreach_cvalid s Hr c)).
Qed.

(* ... and every L step is a step of Conn_Model: a path of Conn_Model steps, each taken from a state that
   satisfies Conn_Proofs.Inv and has the connection's current view, producing the same callbacks *)
Inductive conn_path : view -> list lev -> view -> Prop :=
| cp_refl v : conn_path v [] v
| cp_step v cm co cm' ev e2 v2 :
    Conn_Proofs.Inv cm -> cview cm = v -> Conn_Model.step cm co = Ok (cm', ev) ->
    conn_path (cview cm') e2 v2 -> conn_path v (levs ev ++ e2) v2.

Lemma lstep_valid v o v' e : lvalid v -> lstep v o = Some (v', e) -> lvalid v'.
Proof.
  intros Hv Hs. destruct (l_realised v o v' e Hv Hs) as (HI & cm' & ev & Hst & Hcv & _).
  pose proof (Conn_Proofs.step_inv _ _ _ _ HI Hst) as HI'. rewrite <- Hcv.
  unfold lvalid, v_closable, cview. cbn [v_st v_wr v_rd v_reg].
  split; [|split].
  - intros Hc. apply (Conn_Proofs.i_idle cm' HI'). rewrite <- Conn_Proofs.closable_up. unfold closable. rewrite Hc. discriminate.
  - intros E. destruct (Conn_Proofs.i_fresh cm' HI' E) as (_ & _ & Hr & _). exact Hr.
  - intros Hc. apply (Conn_Proofs.i_reg cm' HI'). apply Conn_Proofs.closable_up. exact Hc.
Qed.

Lemma lpath_conn_path v e v' : lvalid v -> lpath v e v' -> conn_path v e v'.
Proof.
  intros Hv Hp. induction Hp as [v|v o v1 e1 e2 v2 Hs Hp IH]; [constructor|].
  destruct (l_realised v o v1 e1 Hv Hs) as (HI & cm' & ev & Hst & Hcv & He).
  rewrite <- He. apply (cp_step v (wit v (wit_pending o)) (wit_op o) cm' ev e2 v2 HI (cview_wit v _) Hst).
  rewrite Hcv. apply IH. eapply lstep_valid; eassumption.
Qed.

Theorem S02_projects_to_Conn : forall s o s' obs, sreach s -> step true s o = Ok (s', obs) ->
  forall c, conn_path (viewof s c) (proj c obs) (viewof s' c).
Proof.
  intros s o s' obs Hr H c. apply lpath_conn_path; [apply viewof_valid, Hr|eapply S02_projects_to_L; eassumption].
Qed.

(* ---- the hypothesis H3 is Conn_Race.set_ok on the view ---------------------------------------------- *)
Definition creq_of (a : api) : option creq :=
  match a with AShutdown => Some RShutdown | AForceClose => Some RForceClose | AForceCloseDelay => Some RForceCloseDelay | _ => None end.

Lemma api_test_creq a r k : creq_of a = Some r -> api_test a k = creq_test r (k_st k).
Proof. destruct a; cbn; intros H; try discriminate; injection H as <-; reflexivity. Qed.

(* H3 and Conn_Race.set_ok.  In strict mode an XStore is refused exactly when its state test had passed and the store would
   overwrite kDisconnected (the resurrection of F-19).  That is WEAKER than Conn_Race.set_ok for the corresponding XSet of the
   x-layer of Conn_Model (set_ok: the request's state test still passes): set_ok implies that the step is accepted, and the only
   accepted steps that are not set_ok are the benign ones of a shutdown() whose store finds kDisconnecting (a second foreign
   shutdown(), or a forceClose() in between) *)
Theorem S02_H3_exact : forall s u a k,
  find_call u (s_calls s) = Some a -> a_stored a = false -> getc s (a_conn a) = Some k -> is_dtor (a_api a) = false ->
  (step true s (XStore u) = Rejected <-> (a_loaded a = true /\ k_st k = Disconnected)) /\
  (step true s (XStore u) <> Rejected -> step true s (XStore u) = step false s (XStore u)).
Proof.
  intros s u a k Hf Hns Hg Hd. unfold step. rewrite Hf, Hns, Hg, Hd. cbn [andb].
  destruct (a_loaded a) eqn:El; cbn [andb].
  - destruct (cstate_eqb (k_st k) Disconnected) eqn:Ed.
    + apply cs_eqb_true in Ed. split; [split; [auto|reflexivity]|intros Hx; exfalso; apply Hx; reflexivity].
    + apply cs_eqb_false in Ed. split; [|reflexivity]. split; [discriminate|intros [_ Hx]; congruence].
  - split; [|reflexivity]. split; [discriminate|intros [Hx _]; discriminate].
Qed.

Theorem S02_H3_only_set_ok : forall s u a k r cm reqs tm,
  find_call u (s_calls s) = Some a -> a_stored a = false -> getc s (a_conn a) = Some k -> creq_of (a_api a) = Some r ->
  st cm = k_st k -> Conn_Race.set_ok (mkX cm (mkReq u r (a_loaded a) false :: reqs) tm) (Conn_Model.XSet u) ->
  step true s (XStore u) = step false s (XStore u).
Proof.
  intros s u a k r cm reqs tm Hf Hns Hg Hr Hst H. unfold step. rewrite Hf, Hns, Hg.
  assert (Hd : is_dtor (a_api a) = false) by (destruct (a_api a); try reflexivity; discriminate Hr). rewrite Hd.
  destruct (a_loaded a) eqn:El; [|reflexivity].
  unfold Conn_Race.set_ok in H. cbn [xreqs find_req rq_thread] in H. rewrite Nat.eqb_refl in H.
  cbn [rq_passed rq_stored rq_kind xbase] in H. specialize (H eq_refl eq_refl). rewrite Hst, <- (api_test_creq _ r k Hr) in H.
  assert (Hn : cstate_eqb (k_st k) Disconnected = false).
  { unfold api_test, k_closable in H. destruct (a_api a); try discriminate Hr; destruct (k_st k); try reflexivity; discriminate H. }
  rewrite Hn. reflexivity.
Qed.

(* an accepted store that is not set_ok is the benign one: the state it overwrites is kDisconnecting already *)
Theorem S02_H3_beyond_set_ok : forall s u a k r s' obs,
  find_call u (s_calls s) = Some a -> a_stored a = false -> getc s (a_conn a) = Some k -> creq_of (a_api a) = Some r ->
  k_st k <> Connecting -> step true s (XStore u) = Ok (s', obs) ->
  forall cm reqs tm, st cm = k_st k ->
  Conn_Race.set_ok (mkX cm (mkReq u r (a_loaded a) false :: reqs) tm) (Conn_Model.XSet u) \/
  (a_loaded a = true /\ a_api a = AShutdown /\ k_st k = Disconnecting).
Proof.
  intros s u a k r s' obs Hf Hns Hg Hr Hnc H cm reqs tm Hst.
  assert (Hd : is_dtor (a_api a) = false) by (destruct (a_api a); try reflexivity; discriminate Hr).
  unfold step in H. rewrite Hf, Hns, Hg, Hd in H. cbn [andb] in H.
  destruct (a_loaded a) eqn:El; cbn [andb] in H.
  - destruct (cstate_eqb (k_st k) Disconnected) eqn:Ed; [discriminate|]. apply cs_eqb_false in Ed.
    destruct (api_test (a_api a) k) eqn:Et.
    + left. unfold Conn_Race.set_ok. cbn [xreqs find_req rq_thread]. rewrite Nat.eqb_refl. cbn [rq_passed rq_stored rq_kind xbase].
      intros _ _. rewrite Hst, <- (api_test_creq _ r k Hr). exact Et.
    + right. unfold api_test, k_closable in Et.
      assert (Ek : a_api a = AShutdown /\ k_st k = Disconnecting).
      { destruct (a_api a); try discriminate Hr; destruct (k_st k); try discriminate Et; try congruence; auto. }
      destruct Ek as [Ea Ek]. auto.
  - left. unfold Conn_Race.set_ok. cbn [xreqs find_req rq_thread]. rewrite Nat.eqb_refl. cbn [rq_passed]. intros Hx. discriminate Hx.
Qed.

(* ---- whole runs ------------------------------------------------------------------------------------- *)
Lemma conn_path_trans v1 e1 v2 e2 v3 : conn_path v1 e1 v2 -> conn_path v2 e2 v3 -> conn_path v1 (e1 ++ e2) v3.
Proof.
  induction 1 as [v|v cm co cm' ev e v2 HI Hc Hs Hp IH]; intros H2; [exact H2|].
  rewrite <- app_assoc. eapply cp_step; [exact HI|exact Hc|exact Hs|apply IH, H2].
Qed.

Lemma run_projects ops : forall s s' obs, sreach s -> run true s ops = Ok (s', obs) ->
  forall c, conn_path (viewof s c) (proj c obs) (viewof s' c).
Proof.
  induction ops as [|o ops IH]; intros s s' obs Hr H c; cbn [run] in H.
  - injection H as <- <-. constructor.
  - unfold bind in H. destruct (step true s o) as [[s1 o1]| |] eqn:E1; try discriminate.
    destruct (run true s1 ops) as [[s2 o2]| |] eqn:E2; try discriminate. injection H as <- <-.
    rewrite proj_app. eapply conn_path_trans; [eapply S02_projects_to_Conn; eassumption|].
    apply (IH s1 s2 o2); [eapply sreach_step; eassumption|exact E2].
Qed.

(* the callbacks of every connection in every run of the owners model (under its hypotheses) are the
   callbacks of a chain of Conn_Model steps that starts in the view of a fresh connection *)
Theorem S02_run_projects_to_Conn : forall nio readd ops s obs, run true (init_sys nio readd) ops = Ok (s, obs) ->
  forall c, conn_path vinit (proj c obs) (viewof s c).
Proof.
  intros nio readd ops s obs H c.
  assert (E : viewof (init_sys nio readd) c = vinit) by (unfold viewof, getc; cbn; destruct c; reflexivity).
  rewrite <- E. eapply run_projects; [apply sreach_init|exact H].
Qed.

Lemma ex_link_run : exists s o, run true (init_sys 2 false) ex_sys_ops = Ok (s, o) /\ proj 0 o = [LUp; LMsg; LDown] /\
  conn_path vinit [LUp; LMsg; LDown] (viewof s 0) /\ v_st (viewof s 0) = Disconnected /\ v_reg (viewof s 0) = false.
Proof.
  destruct (run true (init_sys 2 false) ex_sys_ops) as [[s o]| |] eqn:E; [|vm_compute in E; discriminate E..].
  exists s, o. split; [reflexivity|].
  pose proof (S02_run_projects_to_Conn 2 false ex_sys_ops s o E 0) as P.
  vm_compute in E. injection E as <- <-.
  split; [reflexivity|]. split; [exact P|]. split; reflexivity.
Qed.

(* restatements used by Properties_C02.v *)
Lemma l_realised_view v o v' e : lvalid v -> lstep v o = Some (v', e) ->
  Conn_Proofs.Inv (wit v (wit_pending o)) /\ cview (wit v (wit_pending o)) = v /\
  exists cm' ev, Conn_Model.step (wit v (wit_pending o)) (wit_op o) = Ok (cm', ev) /\ cview cm' = v' /\ levs ev = e.
Proof. intros Hv Hs. destruct (l_realised v o v' e Hv Hs) as [A B]. split; [exact A|]. split; [apply cview_wit|exact B]. Qed.

Lemma projx_def c x : projx c x =
  match x with OUp _ c' => if c' =? c then [LUp] else [] | ODown _ c' => if c' =? c then [LDown] else []
             | OMsg _ c' => if c' =? c then [LMsg] else [] | ODtor _ _ _ => [] end.
Proof. reflexivity. Qed.
