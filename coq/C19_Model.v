(* C19_Model: muduo::net::RpcChannel (muduo/net/protorpc/RpcChannel.{h,cc}) as an executable
   labelled transition system.  No proofs here.

   One channel = one state.  It carries BOTH roles, exactly like the C++ class: the calling side
   (id_, outstandings_) and the serving side (services_, the live one-shot doneCallback closures).

   Labels (DESIGN 3.2/3.3).  The label list IS the schedule: every real execution is an
   interleaving of
     - the three micro-steps of RpcChannel::CallMethod, per calling thread  (RpcChannel.cc:50-70)
         LFetch t c    id = id_.incrementAndGet()          (one atomic RMW, line 58)
         LRegister t   { lock; outstandings_[id] = out; }  (one critical section, lines 65-68)
         LSend t       codec_.send(conn_, message)         (line 69)
       (any number of threads, each thread any number of calls, calls of one thread in program
        order: a thread must finish a call before it fetches again),
     - the environment's choices on the loop thread:
         LResponse i b   a RESPONSE frame with id i arrives   (onRpcMessage, lines 86-115)
         LRequest r      a REQUEST frame arrives              (lines 116-169)
         LOther i        a frame of type ERROR arrives        (lines 170-172: nothing)
         LDone k m       the service (user code) runs the done callback it was handed with
                         token k, having filled the response with m  (doneCallback, 175-183).
   The RESPONSE branch is one step: its only access to shared state is the find-and-erase
   section under mutex_; parsing and the closure run on the local copy [out].
   [step] returns None (the label is REJECTED) when the label is not enabled (thread not at that
   program point) or when it violates a precondition of the API the property is about:
     - CallMethod with response == NULL            google::protobuf::RpcChannel::CallMethod requires a
                                                   response object whose descriptor is method->output_type()
                                                   (service.h; repeated above RpcChannel::CallMethod,
                                                   RpcChannel.cc:45-49): [in_contract]
     - RESPONSE with neither response nor error    assert, RpcChannel.cc:89
     - LDone on a token whose closure already ran  (google::protobuf one-shot Closure: deleted by Run)
   Properties_C19.C19_rejected_iff lists the rejected labels exactly.
   [step_code] is the same machine WITHOUT the CallMethod precondition: what the code does when it is
   handed response == NULL all the same.  It is used for the differential runs of out-of-contract
   calls (observation only, see docs/C19.md); no theorem of the property is stated about it. *)
From Coq Require Import List ZArith Bool Arith.
From Coq.Strings Require Import Byte.
From Muduo Require Import Base_Bytes.
Import ListNotations.
Local Open Scope Z_scope.

Definition bytes := list byte.
Definition name := list byte.
Definition tag := nat.      (* identity of one CallMethod invocation = of its closure / response object *)
Definition tid := nat.      (* calling thread *)
Definition tok := nat.      (* identity of one server-side doneCallback closure *)

(* rpc.proto ErrorCode *)
Inductive errcode := NO_ERROR | WRONG_PROTO | NO_SERVICE | NO_METHOD | INVALID_REQUEST | INVALID_RESPONSE | TIMEOUT.

(* the enumerator values of rpc.proto (regenerated from rpc.pb.h and compared in C19_GenLink) *)
Definition errnum (e : errcode) : Z :=
  match e with
  | NO_ERROR => 0 | WRONG_PROTO => 1 | NO_SERVICE => 2 | NO_METHOD => 3
  | INVALID_REQUEST => 4 | INVALID_RESPONSE => 5 | TIMEOUT => 6
  end.

(* A byte string as protobuf's parser sees it (environment contract, DESIGN 3.4):
   Valid m   = SerializeAsString of the message with content m: ParseFromString succeeds and yields m
   Corrupt r = bytes that ParseFromString rejects; what it leaves in the object is unspecified *)
Inductive payload := Valid (m : bytes) | Corrupt (raw : bytes).

Definition parse (p : payload) : option bytes :=
  match p with Valid m => Some m | Corrupt _ => None end.

(* what a completion closure finds in its response object *)
Inductive seen :=
| Untouched                  (* never parsed into: still what the caller put there *)
| Parsed (m : bytes)         (* ParseFromString succeeded *)
| Garbage.                   (* ParseFromString failed; its result is ignored (line 108) *)

Record call := mkCall {
  c_tag : tag;
  c_resp : bool;             (* response != NULL *)
  c_done : bool;             (* done != NULL *)
  c_svc : name;              (* method->service()->full_name() *)
  c_meth : name;             (* method->name() *)
  c_req : bytes              (* content of *request *)
}.

(* the documented precondition of google::protobuf::RpcChannel::CallMethod that the model enforces:
   the caller passes a response object *)
Definition in_contract (c : call) : bool := c_resp c.

Record rbody := mkBody {     (* the optional fields of a RESPONSE RpcMessage *)
  rb_resp : option payload;  (* has_response / response *)
  rb_err : option errcode    (* has_error / error *)
}.

Record request := mkReq {
  rq_id : Z;
  rq_svc : name;             (* "" when the field is absent *)
  rq_meth : name;
  rq_req : payload           (* Valid [] when the field is absent: "" parses as the empty message *)
}.

Inductive reply := RReply (m : bytes) | RError (e : errcode).

Inductive tstate :=
| TIdle
| TFetched (i : Z) (c : call)       (* line 58 done, lines 65-68 not yet *)
| TRegistered (i : Z) (c : call).   (* lines 65-68 done, line 69 not yet *)

Inductive label :=
| LFetch (t : tid) (c : call)
| LRegister (t : tid)
| LSend (t : tid)
| LResponse (i : Z) (b : rbody)
| LRequest (r : request)
| LDone (k : tok) (m : bytes)
| LOther (i : Z).

Inductive event :=
| EFetch (t : tid) (i : Z) (c : tag)            (* thread t obtained id i for call c (thread-local) *)
| ERegister (t : tid) (i : Z) (c : tag)         (* outstandings_[i] = {response, done} of call c *)
| ESendRequest (i : Z) (svc meth : name) (req : bytes)   (* REQUEST frame handed to the connection *)
| ERun (c : tag) (s : seen)                     (* done->Run() of call c *)
| EDelete (c : tag)                             (* delete response of call c (unique_ptr d, line 105) *)
| ELeak (c : tag)                               (* entry erased, closure of c neither run nor deleted *)
| EDispatch (k : tok) (i : Z) (svc meth : name) (req : bytes)  (* service->CallMethod(.., done_k) for request id i *)
| ESendResponse (i : Z) (r : reply)             (* RESPONSE frame handed to the connection *)
| EDrop (c : tag)                               (* ~RpcChannel: delete done of call c, never run (RpcChannel.cc:41) *)
| EUseAfterFree (k : tok).                      (* doneCallback k runs on a destroyed RpcChannel (see [cstep]) *)

(* ---- finite maps as association lists ---- *)
Fixpoint lookup {A} (i : Z) (m : list (Z * A)) : option A :=
  match m with
  | [] => None
  | (j, d) :: r => if i =? j then Some d else lookup i r
  end.

(* std::map::erase(it): no key survives twice, so erasing every binding of i is the same *)
Fixpoint remove {A} (i : Z) (m : list (Z * A)) : list (Z * A) :=
  match m with
  | [] => []
  | (j, d) :: r => if i =? j then remove i r else (j, d) :: remove i r
  end.

(* outstandings_[i] = c : insert keeping the list sorted, overwrite an existing binding *)
Fixpoint insert {A} (i : Z) (c : A) (m : list (Z * A)) : list (Z * A) :=
  match m with
  | [] => [(i, c)]
  | (j, d) :: r => if i <? j then (i, c) :: m else if i =? j then (i, c) :: r else (j, d) :: insert i c r
  end.

Fixpoint nlookup {A} (k : nat) (m : list (nat * A)) : option A :=
  match m with
  | [] => None
  | (j, d) :: r => if Nat.eqb k j then Some d else nlookup k r
  end.

Fixpoint nremove {A} (k : nat) (m : list (nat * A)) : list (nat * A) :=
  match m with
  | [] => []
  | (j, d) :: r => if Nat.eqb k j then nremove k r else (j, d) :: nremove k r
  end.

Definition tget (t : tid) (ths : list (tid * tstate)) : tstate :=
  match nlookup t ths with Some s => s | None => TIdle end.

Definition tset (t : tid) (s : tstate) (ths : list (tid * tstate)) : list (tid * tstate) :=
  (t, s) :: nremove t ths.

Fixpoint name_eqb (a b : name) : bool :=
  match a, b with
  | [], [] => true
  | x :: a', y :: b' => Byte.eqb x y && name_eqb a' b'
  | _, _ => false
  end.

Fixpoint find_service (s : name) (m : list (name * list name)) : option (list name) :=
  match m with
  | [] => None
  | (n, ms) :: r => if name_eqb s n then Some ms else find_service s r
  end.

Definition has_method (m : name) (ms : list name) : bool := existsb (name_eqb m) ms.

Record state := mkState {
  next_id : Z;                                  (* id_ (AtomicInt64), value after the last increment *)
  outs : list (Z * call);                       (* outstandings_ *)
  threads : list (tid * tstate);                (* where each calling thread is inside CallMethod *)
  services : option (list (name * list name));  (* services_: NULL, or service full name -> method names *)
  next_tok : tok;                               (* number of doneCallback closures created so far *)
  pending : list (tok * Z)                      (* closures created and not yet run: token -> request id *)
}.

Definition init (svcs : option (list (name * list name))) : state :=
  mkState 0 [] [] svcs O [].

(* REQUEST branch, lines 119-160: which error, or the parsed request *)
Definition resolve (svcs : option (list (name * list name))) (r : request) : errcode + bytes :=
  match svcs with
  | None => inl NO_SERVICE                                     (* line 159 *)
  | Some m =>
      match find_service (rq_svc r) m with
      | None => inl NO_SERVICE                                 (* line 154 *)
      | Some ms =>
          if has_method (rq_meth r) ms then
            match parse (rq_req r) with
            | Some q => inr q                                  (* lines 135-140 *)
            | None => inl INVALID_REQUEST                      (* line 144 *)
            end
          else inl NO_METHOD                                   (* line 149 *)
      end
  end.

Definition seen_of (b : rbody) : seen :=
  match rb_resp b with
  | None => Untouched
  | Some p => match parse p with Some m => Parsed m | None => Garbage end
  end.

(* lines 103-114 on the local copy [out] *)
Definition complete (c : call) (b : rbody) : list event :=
  if c_resp c then
    (if c_done c then [ERun (c_tag c) (seen_of b)] else []) ++ [EDelete (c_tag c)]
  else
    if c_done c then [ELeak (c_tag c)] else [].

(* [lax] = true: the CallMethod precondition is not enforced (step_code) *)
Definition step_gen (lax : bool) (s : state) (l : label) : option (state * list event) :=
  match l with
  | LFetch t c =>
      if lax || in_contract c then
        match tget t (threads s) with
        | TIdle =>
            let i := next_id s + 1 in
            Some (mkState i (outs s) (tset t (TFetched i c) (threads s)) (services s) (next_tok s) (pending s),
                  [EFetch t i (c_tag c)])
        | _ => None
        end
      else None
  | LRegister t =>
      match tget t (threads s) with
      | TFetched i c =>
          Some (mkState (next_id s) (insert i c (outs s)) (tset t (TRegistered i c) (threads s))
                        (services s) (next_tok s) (pending s),
                [ERegister t i (c_tag c)])
      | _ => None
      end
  | LSend t =>
      match tget t (threads s) with
      | TRegistered i c =>
          Some (mkState (next_id s) (outs s) (tset t TIdle (threads s)) (services s) (next_tok s) (pending s),
                [ESendRequest i (c_svc c) (c_meth c) (c_req c)])
      | _ => None
      end
  | LResponse i b =>
      match rb_resp b, rb_err b with
      | None, None => None                                     (* assert, line 89 *)
      | _, _ =>
          match lookup i (outs s) with
          | Some c =>
              Some (mkState (next_id s) (remove i (outs s)) (threads s) (services s) (next_tok s) (pending s),
                    complete c b)
          | None => Some (s, [])
          end
      end
  | LRequest r =>
      match resolve (services s) r with
      | inl e => Some (s, [ESendResponse (rq_id r) (RError e)])            (* lines 161-168 *)
      | inr q =>
          let k := next_tok s in
          Some (mkState (next_id s) (outs s) (threads s) (services s) (S k) ((k, rq_id r) :: pending s),
                [EDispatch k (rq_id r) (rq_svc r) (rq_meth r) q])
      end
  | LDone k m =>
      match nlookup k (pending s) with
      | Some i =>
          Some (mkState (next_id s) (outs s) (threads s) (services s) (next_tok s) (nremove k (pending s)),
                [ESendResponse i (RReply m)])
      | None => None
      end
  | LOther _ => Some (s, [])
  end.

Definition step : state -> label -> option (state * list event) := step_gen false.
Definition step_code : state -> label -> option (state * list event) := step_gen true.

(* a history: the steps taken with what each of them did *)
Definition trace := list (label * list event).

Fixpoint exec_gen (lax : bool) (s : state) (ls : list label) : option (state * trace) :=
  match ls with
  | [] => Some (s, [])
  | l :: r =>
      match step_gen lax s l with
      | None => None
      | Some (s', ev) =>
          match exec_gen lax s' r with
          | None => None
          | Some (s'', tr) => Some (s'', (l, ev) :: tr)
          end
      end
  end.

Definition exec : state -> list label -> option (state * trace) := exec_gen false.
Definition exec_code : state -> list label -> option (state * trace) := exec_gen true.

Definition events (tr : trace) : list event := flat_map snd tr.

(* ---- the life cycle of the connection: the channel while its connection is UP is [step]; [cstep] adds
   the connection going DOWN (TcpConnection: exactly one DOWN, no message is delivered after it: C02).
     owned = true   the channel was made by RpcServer::onConnection (RpcServer.cc:46-53): the only
                    shared_ptr to it is the connection's context; on DOWN `conn->setContext(RpcChannelPtr())`
                    (line 56) destroys it: ~RpcChannel deletes the response object and the closure of every
                    outstanding call without running it (RpcChannel.cc:34-43).  The done callbacks handed to
                    services were made by NewCallback(this, &RpcChannel::doneCallback, ..) with the RAW this
                    (line 139): running one afterwards executes doneCallback on the destroyed object
                    (EUseAfterFree).  Calls on the channel after DOWN are not enabled (there is no channel).
     owned = false  the user owns the channel (examples/protobuf/rpc/client.cc style): it outlives the
                    connection; conn_ keeps the TcpConnection object alive in state kDisconnected, whose
                    send() does nothing (TcpConnection.cc `if (state_ == kConnected)`): CallMethod still
                    fetches and registers, nothing reaches the wire; a done callback builds its reply and
                    it is dropped. *)
Inductive clabel := CL (l : label) | CDown.

Record chan := mkChan {
  core : state;
  up : bool;          (* conn_->connected() *)
  owned : bool        (* made and owned by RpcServer::onConnection *)
}.

Definition cinit (own : bool) (svcs : option (list (name * list name))) : chan := mkChan (init svcs) true own.

Definition dtor_events (m : list (Z * call)) : list event :=
  flat_map (fun p => (if c_resp (snd p) then [EDelete (c_tag (snd p))] else []) ++
                     (if c_done (snd p) then [EDrop (c_tag (snd p))] else [])) m.

Definition drop_outs (s : state) : state :=
  mkState (next_id s) [] (threads s) (services s) (next_tok s) (pending s).

Definition lift (c : chan) (r : option (state * list event)) : option (chan * list event) :=
  match r with Some (s', ev) => Some (mkChan s' (up c) (owned c), ev) | None => None end.

(* the step is taken, what it would have sent is replaced by [ev'] *)
Definition quiet (c : chan) (r : option (state * list event)) (ev' : list event) : option (chan * list event) :=
  match r with Some (s', _) => Some (mkChan s' (up c) (owned c), ev') | None => None end.

Definition cstep_gen (lax : bool) (c : chan) (l : clabel) : option (chan * list event) :=
  match l with
  | CDown =>
      if up c then
        if owned c then Some (mkChan (drop_outs (core c)) false true, dtor_events (outs (core c)))
        else Some (mkChan (core c) false false, [])
      else None
  | CL l0 =>
      if up c then lift c (step_gen lax (core c) l0)
      else
        match l0 with
        | LFetch _ _ | LRegister _ => if owned c then None else lift c (step_gen lax (core c) l0)
        | LSend _ => if owned c then None else quiet c (step_gen lax (core c) l0) []
        | LDone k _ => quiet c (step_gen lax (core c) l0) (if owned c then [EUseAfterFree k] else [])
        | LResponse _ _ | LRequest _ | LOther _ => None
        end
  end.

Definition cstep : chan -> clabel -> option (chan * list event) := cstep_gen false.
Definition cstep_code : chan -> clabel -> option (chan * list event) := cstep_gen true.

Definition ctrace := list (clabel * list event).

Fixpoint cexec (c : chan) (ls : list clabel) : option (chan * ctrace) :=
  match ls with
  | [] => Some (c, [])
  | l :: r =>
      match cstep c l with
      | None => None
      | Some (c', ev) =>
          match cexec c' r with
          | None => None
          | Some (c'', tr) => Some (c'', (l, ev) :: tr)
          end
      end
  end.

Definition cevents (tr : ctrace) : list event := flat_map snd tr.
Definition wrap_trace (tr : trace) : ctrace := map (fun p => (CL (fst p), snd p)) tr.
(* what is left of a step's events when nothing can be sent *)
Definition mute (ev : list event) : list event :=
  filter (fun e => match e with ESendRequest _ _ _ _ | ESendResponse _ _ => false | _ => true end) ev.

(* the whole CallMethod on one thread without interleaving (a call made on the loop thread) *)
Definition call_labels (t : tid) (c : call) : list label := [LFetch t c; LRegister t; LSend t].

(* ---- observation functions used by the statements in Properties_C19.v ---- *)
Definition run_tags (evs : list event) : list tag :=
  flat_map (fun e => match e with ERun c _ => [c] | _ => [] end) evs.
(* the calls started in a schedule: one LFetch per CallMethod invocation *)
Definition fetch_tags (ls : list label) : list tag :=
  flat_map (fun l => match l with LFetch _ c => [c_tag c] | _ => [] end) ls.
Definition fetched_ids (evs : list event) : list Z :=
  flat_map (fun e => match e with EFetch _ i _ => [i] | _ => [] end) evs.
Definition del_tags (evs : list event) : list tag :=
  flat_map (fun e => match e with EDelete c => [c] | _ => [] end) evs.
Definition dispatch_toks (evs : list event) : list tok :=
  flat_map (fun e => match e with EDispatch k _ _ _ _ => [k] | _ => [] end) evs.
Definition done_toks (ls : list label) : list tok :=
  flat_map (fun l => match l with LDone k _ => [k] | _ => [] end) ls.
Definition body_ok (b : rbody) : Prop := rb_resp b <> None \/ rb_err b <> None.
Definition replies_label (l : label) : bool :=
  match l with LRequest _ | LDone _ _ => true | _ => false end.
