(* C19: every RPC completes exactly once with the response that carries its own id.
   Statements about C19_Model (muduo::net::RpcChannel, RpcChannel.cc of the pinned tree).

   Quantification.  [ls : list label] is an arbitrary history: any number of calling threads,
   each running any number of CallMethod invocations cut into their micro-steps
   (LFetch / LRegister / LSend), interleaved in any way with each other and with whatever the
   environment delivers: RESPONSE frames in any order, duplicated, omitted, with foreign ids,
   with payloads protobuf rejects, with error codes; REQUEST frames of every kind; the service's
   (user code's) calls of the done callbacks.  [exec (init svcs) ls = Some (s', tr)] says that the
   history is one the model can take: program order per thread is respected and the two stated
   preconditions hold (a RESPONSE carries a response or an error: assert at RpcChannel.cc:89;
   a one-shot done callback is not run twice).  [tr] records, per step, what the step did.

   Tags.  [c_tag] is the identity of one CallMethod invocation, i.e. of the closure object the
   caller passed.  [NoDup (fetch_tags ls)] says that no closure object is passed twice
   (google::protobuf::Closure made by NewCallback is one-shot); it is the only caller-side
   hypothesis. *)
From Coq Require Import List ZArith Bool Arith.
From Coq.Strings Require Import Byte.
From Muduo Require Import Base_Bytes C19_Model C19_Proofs.
Import ListNotations.
Local Open Scope Z_scope.

(* Call ids are unique: whatever the interleaving of the callers (any number of threads), the ids
   handed out by id_.incrementAndGet() are pairwise distinct (and are 1..next_id). *)
Theorem C19_ids_unique :
  forall svcs ls s' tr,
    exec (init svcs) ls = Some (s', tr) ->
    NoDup (fetched_ids (events tr)) /\
    forall i, In i (fetched_ids (events tr)) -> 0 < i <= next_id s'.
Proof.
  intros svcs ls s' tr H. destruct (exec_ids _ _ _ _ H) as (_ & Hin & Hnd). split; [exact Hnd|exact Hin].
Qed.
Print Assumptions C19_ids_unique.

(* No closure runs twice, in any history (duplicated responses included). *)
Theorem C19_closure_at_most_once :
  forall svcs ls s' tr c,
    exec (init svcs) ls = Some (s', tr) ->
    NoDup (fetch_tags ls) ->
    (count_occ Nat.eq_dec (run_tags (events tr)) c <= 1)%nat.
Proof. exact closure_at_most_once. Qed.
Print Assumptions C19_closure_at_most_once.

(* The closure of call c runs only inside the step that handles a RESPONSE whose id is the id
   fetched for c (and that id is the only one ever fetched for c); what it finds in its response
   object is that very response's payload: parsed, or garbage if protobuf rejects it (the result
   of ParseFromString is ignored, line 108), or untouched if the frame has no payload (an error
   reply: the closure runs all the same and is told nothing about the error). *)
Theorem C19_closure_gets_own_id :
  forall svcs ls s' tr l ev c sn,
    exec (init svcs) ls = Some (s', tr) ->
    In (l, ev) tr -> In (ERun c sn) ev ->
    exists i b t,
      l = LResponse i b /\ sn = seen_of b /\ In (EFetch t i c) (events tr) /\
      (NoDup (fetch_tags ls) -> forall t' i', In (EFetch t' i' c) (events tr) -> i' = i).
Proof. exact closure_gets_own_id. Qed.
Print Assumptions C19_closure_gets_own_id.

(* Full statement (property text): if a response with c's id is delivered after c was registered,
   c's closure has run exactly once.
     forall ..., exec (init svcs) l1 = Some (s1, tr1) -> lookup i (outs s1) = Some c ->
                 exec (init svcs) (l1 ++ l2) = Some (s', tr) -> (exists b, In (LResponse i b) l2) ->
                 NoDup (fetch_tags (l1 ++ l2)) -> c_done c = true ->
                 count_occ Nat.eq_dec (run_tags (events tr)) (c_tag c) = 1
   The pinned code falsifies it for a call made with response == NULL (C19_once_if_answered_refuted);
   proved here with the missing hypothesis [c_resp c = true] (the caller passed a response object). *)
Theorem C19_once_if_answered_partial :
  forall svcs l1 l2 s1 tr1 s' tr i c,
    exec (init svcs) l1 = Some (s1, tr1) ->
    lookup i (outs s1) = Some c ->                       (* c is registered under i after l1 ... *)
    exec (init svcs) (l1 ++ l2) = Some (s', tr) ->
    (exists b, In (LResponse i b) l2) ->                 (* ... and a response with id i arrives later *)
    NoDup (fetch_tags (l1 ++ l2)) ->
    c_resp c = true -> c_done c = true ->
    count_occ Nat.eq_dec (run_tags (events tr)) (c_tag c) = 1%nat.
Proof. exact once_if_answered. Qed.
Print Assumptions C19_once_if_answered_partial.

(* Witness (finding F-C19-1): CallMethod(method, NULL, &request, NULL, done); the peer answers.
   RpcChannel.cc:103 guards BOTH the parse and done->Run() by `if (out.response)`: the entry is
   erased, the closure is neither run nor deleted. *)
Definition c19_witness_call : call := mkCall 1%nat false true [] [] [].
Definition c19_witness_l1 : list label := call_labels 0%nat c19_witness_call.
Definition c19_witness_l2 : list label := [LResponse 1 (mkBody (Some (Valid [])) None)].

Theorem C19_once_if_answered_refuted :
  exists svcs l1 l2 s1 tr1 s' tr i c,
    exec (init svcs) l1 = Some (s1, tr1) /\
    lookup i (outs s1) = Some c /\
    exec (init svcs) (l1 ++ l2) = Some (s', tr) /\
    (exists b, In (LResponse i b) l2) /\
    NoDup (fetch_tags (l1 ++ l2)) /\
    c_done c = true /\
    count_occ Nat.eq_dec (run_tags (events tr)) (c_tag c) = 0%nat /\
    In (ELeak (c_tag c)) (events tr).
Proof.
  exists None, c19_witness_l1, c19_witness_l2.
  eexists. eexists. eexists. eexists. exists 1, c19_witness_call.
  split; [vm_compute; reflexivity|].
  split; [vm_compute; reflexivity|].
  split; [vm_compute; reflexivity|].
  split; [eexists; left; reflexivity|].
  split; [vm_compute; constructor; [intros []|constructor]|].
  split; [reflexivity|].
  split; [vm_compute; reflexivity|].
  vm_compute. auto 10.
Qed.
Print Assumptions C19_once_if_answered_refuted.

(* A response with an unknown id is ignored: the step is the identity on the whole state and does
   nothing.  The same holds for an id that was registered and has been consumed by an earlier
   response, whatever happened in between. *)
Theorem C19_unknown_or_consumed_ignored :
  (forall s i b, lookup i (outs s) = None -> body_ok b -> step s (LResponse i b) = Some (s, [])) /\
  (forall svcs l1 s1 tr1 i c b1 l2 s2 tr2 b2,
      exec (init svcs) l1 = Some (s1, tr1) -> lookup i (outs s1) = Some c ->
      exec s1 (LResponse i b1 :: l2) = Some (s2, tr2) -> body_ok b2 ->
      step s2 (LResponse i b2) = Some (s2, [])).
Proof. exact unknown_or_consumed_ignored. Qed.
Print Assumptions C19_unknown_or_consumed_ignored.

(* Serving side.  Every REQUEST step either sends exactly one RESPONSE with the request's id and
   NO_SERVICE / NO_METHOD / INVALID_REQUEST, or hands the parsed request to the service together
   with a done callback whose token is fresh; running callback k sends exactly one RESPONSE: the
   service's reply, with the id of the request that created k; no callback runs twice; nothing
   else sends a RESPONSE.  (A service that never runs its callback sends nothing: user code.) *)
Theorem C19_server_one_reply :
  forall svcs ls s' tr,
    exec (init svcs) ls = Some (s', tr) ->
    (forall rq ev, In (LRequest rq, ev) tr ->
       (exists e, resolve svcs rq = inl e /\ (e = NO_SERVICE \/ e = NO_METHOD \/ e = INVALID_REQUEST) /\
                  ev = [ESendResponse (rq_id rq) (RError e)]) \/
       (exists k q, resolve svcs rq = inr q /\ ev = [EDispatch k (rq_id rq) (rq_svc rq) (rq_meth rq) q])) /\
    NoDup (dispatch_toks (events tr)) /\
    (forall k m ev, In (LDone k m, ev) tr ->
       exists i svc meth q, In (EDispatch k i svc meth q) (events tr) /\ ev = [ESendResponse i (RReply m)]) /\
    NoDup (done_toks ls) /\
    (forall l ev i r, In (l, ev) tr -> In (ESendResponse i r) ev -> replies_label l = true).
Proof. exact server_one_reply. Qed.
Print Assumptions C19_server_one_reply.

(* ---- the hypotheses are inhabited by non-trivial histories ---- *)
Definition ex_call (k : nat) : call := mkCall k true true [] [] [].
Definition ex_body : rbody := mkBody (Some (Valid [])) None.
(* two threads race; thread 2 registers and sends first; responses arrive out of order, one is
   duplicated, one carries a foreign id, one is an error reply *)
Definition ex_hist : list label :=
  [LFetch 1%nat (ex_call 1); LFetch 2%nat (ex_call 2); LRegister 2%nat; LRegister 1%nat; LSend 2%nat;
   LResponse 2 ex_body; LSend 1%nat; LResponse 1 (mkBody None (Some NO_SERVICE)); LResponse 1 ex_body;
   LResponse 7 ex_body].

Example C19_example_history :
  exists s tr, exec (init None) ex_hist = Some (s, tr) /\
               run_tags (events tr) = [2%nat; 1%nat] /\
               fetched_ids (events tr) = [1; 2] /\
               outs s = [] /\
               NoDup (fetch_tags ex_hist).
Proof.
  eexists. eexists. split; [vm_compute; reflexivity|].
  split; [reflexivity|]. split; [reflexivity|]. split; [reflexivity|].
  vm_compute. constructor; [intros [E|[]]; discriminate|]. constructor; [intros []|constructor].
Qed.

Example C19_example_registered_then_answered :
  exists s1 tr1 c, exec (init None) (firstn 4 ex_hist) = Some (s1, tr1) /\
                   lookup 1 (outs s1) = Some c /\ c_resp c = true /\ c_done c = true /\
                   exists b, In (LResponse 1 b) (skipn 4 ex_hist).
Proof.
  eexists. eexists. eexists. split; [vm_compute; reflexivity|].
  split; [vm_compute; reflexivity|]. split; [reflexivity|]. split; [reflexivity|].
  eexists. vm_compute. right. right. right. left. reflexivity.
Qed.

Definition ex_svcs : option (list (name * list name)) := Some [([x53], [[x45]; [x44]])]%byte.
Definition ex_server_hist : list label :=
  [LRequest (mkReq 5 [x53] [x45] (Valid [x01]));            (* dispatched, token 0 *)
   LRequest (mkReq 6 [x54] [x45] (Valid []));               (* unknown service *)
   LRequest (mkReq 7 [x53] [x46] (Valid []));               (* unknown method *)
   LRequest (mkReq 8 [x53] [x44] (Corrupt [xff]));          (* unparsable request *)
   LRequest (mkReq 5 [x53] [x44] (Valid []));               (* same id again: token 1 *)
   LDone 1%nat [x02]; LDone 0%nat [x03]]%byte.

Example C19_example_server :
  exists s tr, exec (init ex_svcs) ex_server_hist = Some (s, tr) /\
    flat_map (fun e => match e with ESendResponse i r => [(i, r)] | _ => [] end) (events tr) =
      [(6, RError NO_SERVICE); (7, RError NO_METHOD); (8, RError INVALID_REQUEST);
       (5, RReply [x02]); (5, RReply [x03])]%byte /\
    pending s = [].
Proof. eexists. eexists. split; [vm_compute; reflexivity|]. split; reflexivity. Qed.

(* a done callback run twice is outside the model (one-shot closure) *)
Example C19_example_double_done_rejected :
  exec (init ex_svcs) [LRequest (mkReq 5 [x53] [x45] (Valid [])); LDone 0%nat []; LDone 0%nat []]%byte = None.
Proof. vm_compute. reflexivity. Qed.
