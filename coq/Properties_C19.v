(* C19: every RPC completes exactly once with the response that carries its own id.
   Statements about C19_Model (muduo::net::RpcChannel, RpcChannel.cc of the current tree).

   Quantification.  [ls : list label] is an arbitrary history: any number of calling threads,
   each running any number of CallMethod invocations cut into their micro-steps
   (LFetch / LRegister / LSend), interleaved in any way with each other and with whatever the
   environment delivers: RESPONSE frames in any order, duplicated, omitted, with foreign ids,
   with payloads protobuf rejects, with error codes; REQUEST frames of every kind; the service's
   (user code's) calls of the done callbacks.  [exec (init svcs) ls = Some (s', tr)] says that the
   history is one the model accepts: program order per thread is respected and the three stated
   preconditions hold.  C19_rejected_iff lists the rejected labels EXACTLY:
     - a CallMethod whose caller passes response == NULL ([in_contract c = false]): a documented
       precondition of google::protobuf::RpcChannel::CallMethod (the response object's descriptor
       must be method->output_type()); "each call" of the property = each well-formed call;
     - a RESPONSE frame with neither a response nor an error (assert at RpcChannel.cc:89);
     - a one-shot done callback run a second time, or one that was never created.
   [tr] records, per step, what the step did.

   Tags.  [c_tag] is the identity of one CallMethod invocation: ONE tag stands for the closure object
   AND for the response object the caller passed (C19_Model.v: [ERun (c_tag c)] is done->Run(),
   [EDelete (c_tag c)] is the delete of the response).  [NoDup (fetch_tags ls)] therefore carries the
   whole caller obligation, the only further caller-side hypothesis:
     - no closure object is passed to two calls (google::protobuf::Closure made by NewCallback is
       one-shot), AND
     - every call passes its OWN heap-allocated response object, whose ownership passes to the channel
       until the call completes (`std::unique_ptr<Message> d(out.response)` RpcChannel.cc:105,
       `delete out.response` in ~RpcChannel :40).  Two calls with distinct closures that share one
       response object are NOT expressible in the model (they would need two tags for one object);
       the real code would delete that object twice.  The harness always allocates a fresh response
       per call.  This is muduo's own contract: protobuf's generic RpcChannel::CallMethod leaves the
       response object with the caller (the opposite ownership).
   Every "response object deleted once / at most once" below is a statement about response objects
   under this obligation.

   Sizes.  The system theorems come in two layers.  C19_end_to_end / C19_bidirectional are about the
   FIFO-of-frames model of C19_Sys (a frame written by one channel reaches the other as the label that
   serialising and parsing the RpcMessage yields), with fields below 2 GiB (protobuf's limit).  The
   codec that carries the frames (RpcCodec = ProtobufCodecLite, C18) rejects frames above
   kMaxMessageLen = 64 MiB: C19_end_to_end_over_codec / C19_bidirectional_over_codec assume every frame
   of the history within kMaxMessageLen ([sys_fits] / [bsys_fits], sizes by C19_frame_sizes) and add
   that the FIFO of frames is then exactly what C18's decoder delivers from the byte stream.  The band
   64 MiB .. 2 GiB is NOT covered by any theorem about bytes: there the sender does not check the size
   (fillEmptyBuffer, ProtobufCodecLite.cc:42-56) and the real receiver reports kInvalidLength and
   shuts the connection down (:65-68); onRpcMessage is never called. *)
From Coq Require Import List ZArith Bool Arith Lia.
From Coq.Strings Require Import Byte.
From Muduo Require Import Base_Bytes Gen_C19 C19_Model C19_Proofs C19_DownProofs C19_GenLink C19_Wire C19_WireProofs C19_Sys C19_SysProofs C19_BiProofs C19_Codec C19_CodecSys.
From Muduo Require C18_Model C18_Proofs C18_RpcInstance.   (* read-only, qualified: C18's codec *)
Import ListNotations.
Local Open Scope Z_scope.

(* Which labels the model rejects, exactly (so that "exec ... = Some" hides nothing). *)
Theorem C19_rejected_iff :
  forall s l,
    step s l = None <->
    match l with
    | LFetch t c => tget t (threads s) <> TIdle \/ in_contract c = false
    | LRegister t => forall i c, tget t (threads s) <> TFetched i c
    | LSend t => forall i c, tget t (threads s) <> TRegistered i c
    | LResponse i b => ~ body_ok b
    | LDone k m => nlookup k (pending s) = None
    | LRequest _ => False
    | LOther _ => False
    end.
Proof. exact rejected_iff. Qed.
Print Assumptions C19_rejected_iff.

(* The precondition by name: every call of an accepted history was made with a response object,
   and so is every call that is registered. *)
Theorem C19_calls_in_contract :
  forall svcs ls s tr,
    exec (init svcs) ls = Some (s, tr) ->
    (forall t c, In (LFetch t c) ls -> in_contract c = true) /\
    (forall i c, lookup i (outs s) = Some c -> in_contract c = true).
Proof. exact calls_in_contract. Qed.
Print Assumptions C19_calls_in_contract.

(* Call ids are unique: whatever the interleaving of the callers (any number of threads), the ids
   handed out by id_.incrementAndGet() are pairwise distinct (and are 1..next_id). *)
Theorem C19_ids_unique :
  forall svcs ls s' tr,
    exec (init svcs) ls = Some (s', tr) ->
    NoDup (fetched_ids (events tr)) /\
    forall i, In i (fetched_ids (events tr)) -> 0 < i <= next_id s'.
Proof. exact ids_unique. Qed.
Print Assumptions C19_ids_unique.

(* The REQUEST frame of a call carries the id fetched for it, and when it is handed to the
   connection the call has already been registered under that id (so a correct peer cannot answer
   too early): it is still outstanding, or a response with that id has consumed it meanwhile. *)
Theorem C19_registered_before_sent :
  forall svcs l1 t s1 tr1 s2 ev,
    exec (init svcs) l1 = Some (s1, tr1) -> step s1 (LSend t) = Some (s2, ev) ->
    exists i c, ev = [ESendRequest i (c_svc c) (c_meth c) (c_req c)] /\
      In (EFetch t i (c_tag c)) (events tr1) /\ In (ERegister t i (c_tag c)) (events tr1) /\
      (lookup i (outs s1) = Some c \/ exists b, In (LResponse i b) l1).
Proof. exact registered_before_sent. Qed.
Print Assumptions C19_registered_before_sent.

(* No closure runs twice, in any history (duplicated responses included). *)
Theorem C19_closure_at_most_once :
  forall svcs ls s' tr c,
    exec (init svcs) ls = Some (s', tr) ->
    NoDup (fetch_tags ls) ->
    (count_occ Nat.eq_dec (run_tags (events tr)) c <= 1)%nat.
Proof. exact closure_at_most_once. Qed.
Print Assumptions C19_closure_at_most_once.

(* ... and no response object is deleted twice.  (One tag = the closure AND the response object of one
   call: the statement is about response objects provided every call passes its own heap-allocated
   response, owned by the channel until completion -- RpcChannel.cc:105, :40; see "Tags" above.  A
   response object shared by two calls with distinct closures is outside the model.) *)
Theorem C19_response_deleted_at_most_once :
  forall svcs ls s' tr c,
    exec (init svcs) ls = Some (s', tr) ->
    NoDup (fetch_tags ls) ->
    (count_occ Nat.eq_dec (del_tags (events tr)) c <= 1)%nat.
Proof. exact response_deleted_at_most_once. Qed.
Print Assumptions C19_response_deleted_at_most_once.

(* The closure of call c runs only inside the step that handles a RESPONSE whose id is the id
   fetched for c (and that id is the only one ever fetched for c); what it finds in its response
   object is that very response's payload: parsed, or garbage if protobuf rejects it (the result
   of ParseFromString is ignored, line 108), or untouched if the frame has no payload (an error
   reply: the closure runs all the same and is told nothing about the error). *)
Theorem C19_closure_gets_own_id :
  forall svcs ls s' tr l ev c sn,
    exec (init svcs) ls = Some (s', tr) ->
    In (l, ev) tr -> In (ERun c sn) ev ->
    exists i b t,
      l = LResponse i b /\ sn = seen_of b /\ In (EFetch t i c) (events tr) /\
      (NoDup (fetch_tags ls) -> forall t' i', In (EFetch t' i' c) (events tr) -> i' = i).
Proof. exact closure_gets_own_id. Qed.
Print Assumptions C19_closure_gets_own_id.

(* If a response with c's id is delivered after c was registered, c's closure has run exactly
   once -- or never, when the caller passed no closure (done == NULL) -- and c's response object
   has been deleted exactly once.  Full strength: no hypothesis on c beyond being registered.
   ("its response object": each call passes its own, see "Tags" above -- the caller obligation that
   [NoDup (fetch_tags ..)] stands for covers the response objects as well as the closures.) *)
Theorem C19_once_if_answered :
  forall svcs l1 l2 s1 tr1 s' tr i c,
    exec (init svcs) l1 = Some (s1, tr1) ->
    lookup i (outs s1) = Some c ->                       (* c is registered under i after l1 ... *)
    exec (init svcs) (l1 ++ l2) = Some (s', tr) ->
    (exists b, In (LResponse i b) l2) ->                 (* ... and a response with id i arrives later *)
    NoDup (fetch_tags (l1 ++ l2)) ->
    count_occ Nat.eq_dec (run_tags (events tr)) (c_tag c) = (if c_done c then 1 else 0)%nat /\
    count_occ Nat.eq_dec (del_tags (events tr)) (c_tag c) = 1%nat.
Proof. exact once_if_answered_exact. Qed.
Print Assumptions C19_once_if_answered.

(* A response with an unknown id is ignored: the step is the identity on the whole state and does
   nothing.  An id that nobody fetched is unknown in every reachable state; so is an id that was
   registered and has been consumed by an earlier response, whatever happened in between. *)
Theorem C19_unknown_or_consumed_ignored :
  (forall s i b, lookup i (outs s) = None -> body_ok b -> step s (LResponse i b) = Some (s, [])) /\
  (forall svcs ls s tr i,
      exec (init svcs) ls = Some (s, tr) -> ~ In i (fetched_ids (events tr)) -> lookup i (outs s) = None) /\
  (forall svcs l1 s1 tr1 i c b1 l2 s2 tr2 b2,
      exec (init svcs) l1 = Some (s1, tr1) -> lookup i (outs s1) = Some c ->
      exec s1 (LResponse i b1 :: l2) = Some (s2, tr2) -> body_ok b2 ->
      step s2 (LResponse i b2) = Some (s2, [])).
Proof. exact unknown_or_consumed_ignored_full. Qed.
Print Assumptions C19_unknown_or_consumed_ignored.

(* Serving side.  Every REQUEST step either sends exactly one RESPONSE with the request's id and
   NO_SERVICE / NO_METHOD / INVALID_REQUEST, or hands the parsed request to the service together
   with a done callback whose token is fresh; running callback k sends exactly one RESPONSE: the
   service's reply, with the id of the request that created k; no callback runs twice; nothing
   else sends a RESPONSE; a callback is only ever created by a REQUEST, for that request's id.
   (A service that never runs its callback sends nothing: user code.) *)
Theorem C19_server_one_reply :
  forall svcs ls s' tr,
    exec (init svcs) ls = Some (s', tr) ->
    (forall rq ev, In (LRequest rq, ev) tr ->
       (exists e, resolve svcs rq = inl e /\ (e = NO_SERVICE \/ e = NO_METHOD \/ e = INVALID_REQUEST) /\
                  ev = [ESendResponse (rq_id rq) (RError e)]) \/
       (exists k q, resolve svcs rq = inr q /\ ev = [EDispatch k (rq_id rq) (rq_svc rq) (rq_meth rq) q])) /\
    NoDup (dispatch_toks (events tr)) /\
    (forall k m ev, In (LDone k m, ev) tr ->
       exists i svc meth q, In (EDispatch k i svc meth q) (events tr) /\ ev = [ESendResponse i (RReply m)]) /\
    NoDup (done_toks ls) /\
    (forall l ev i r, In (l, ev) tr -> In (ESendResponse i r) ev -> replies_label l = true) /\
    (forall l ev k i svc meth q, In (l, ev) tr -> In (EDispatch k i svc meth q) ev ->
       exists rq, l = LRequest rq /\ i = rq_id rq /\ svc = rq_svc rq /\ meth = rq_meth rq /\ resolve svcs rq = inr q).
Proof. exact server_one_reply_full. Qed.
Print Assumptions C19_server_one_reply.

(* Which error for which request: NO_SERVICE iff the channel has no service table or the service
   name is not in it; NO_METHOD iff the service is known and the method is not; INVALID_REQUEST
   iff both are known and protobuf rejects the payload; otherwise the parsed request is dispatched. *)
Theorem C19_server_error_code :
  forall svcs r,
    match resolve svcs r with
    | inl NO_SERVICE => svcs = None \/ exists m, svcs = Some m /\ find_service (rq_svc r) m = None
    | inl NO_METHOD => exists m ms, svcs = Some m /\ find_service (rq_svc r) m = Some ms /\ has_method (rq_meth r) ms = false
    | inl INVALID_REQUEST => exists m ms, svcs = Some m /\ find_service (rq_svc r) m = Some ms /\
                                          has_method (rq_meth r) ms = true /\ parse (rq_req r) = None
    | inl _ => False
    | inr q => exists m ms, svcs = Some m /\ find_service (rq_svc r) m = Some ms /\
                            has_method (rq_meth r) ms = true /\ parse (rq_req r) = Some q
    end.
Proof. exact resolve_cases. Qed.
Print Assumptions C19_server_error_code.

(* ---- the connection goes DOWN (C19_Model.cstep: the channel's life cycle) ----
   [own] = the channel was made by RpcServer::onConnection and is owned by the connection's
   context (destroyed on DOWN); otherwise the user owns it and it outlives the connection.
   A history without a DOWN is an ordinary history, and so is a history with a DOWN once the
   DOWN is taken out: every theorem above applies to it.  After the DOWN only CallMethod
   micro-steps (user-owned channel) and done callbacks remain possible, no frame arrives, and
   what the steps show is [dmute]: nothing reaches the wire. *)
Theorem C19_down_structure :
  (forall own svcs ls c' tr,
     cexec (cinit own svcs) (map CL ls) = Some (c', tr) ->
     exists s' tr0, exec (init svcs) ls = Some (s', tr0) /\ c' = mkChan s' true own /\ tr = wrap_trace tr0) /\
  (forall own svcs l1 l2 c' tr,
     cexec (cinit own svcs) (map CL l1 ++ CDown :: l2) = Some (c', tr) ->
     exists ls2 s1 tr1 s2 tr2',
       l2 = map CL ls2 /\ Forall (allowed own) ls2 /\
       exec (init svcs) l1 = Some (s1, tr1) /\
       exec (init svcs) (l1 ++ ls2) = Some (s2, tr1 ++ tr2') /\
       core c' = (if own then drop_outs s2 else s2) /\ up c' = false /\ owned c' = own /\
       tr = wrap_trace tr1 ++ (CDown, if own then dtor_events (outs s1) else []) :: map (dmute own) tr2').
Proof. exact (conj no_down_is_exec down_structure). Qed.
Print Assumptions C19_down_structure.

(* Nothing is sent into a dead connection, no closure runs, nothing is deleted: after the DOWN
   the only events are id fetches / registrations (user-owned channel) and, on a channel that
   RpcServer destroyed, done callbacks running on the destroyed object (next theorems). *)
Theorem C19_nothing_sent_after_down :
  forall own svcs l1 l2 c' tr,
    cexec (cinit own svcs) (map CL l1 ++ CDown :: l2) = Some (c', tr) ->
    forall l ev e, In (l, ev) (skipn (S (length l1)) tr) -> In e ev ->
      match e with
      | EFetch _ _ _ | ERegister _ _ _ => own = false
      | EUseAfterFree _ => own = true
      | _ => False
      end.
Proof. exact nothing_sent_after_down. Qed.
Print Assumptions C19_nothing_sent_after_down.

(* Over a whole history with a DOWN no closure runs twice and no response object is deleted
   twice (the deletes of ~RpcChannel included); a call still outstanding when RpcServer destroys
   the channel never has its closure run (it is deleted: EDrop). *)
Theorem C19_down_at_most_once :
  forall own svcs l1 l2 c' tr tg,
    cexec (cinit own svcs) (map CL l1 ++ CDown :: l2) = Some (c', tr) ->
    NoDup (fetch_tags l1) ->
    (count_occ Nat.eq_dec (run_tags (cevents tr)) tg <= 1)%nat /\
    (count_occ Nat.eq_dec (del_tags (cevents tr)) tg <= 1)%nat /\
    (own = true -> forall s1 tr1 i d, exec (init svcs) l1 = Some (s1, tr1) -> lookup i (outs s1) = Some d -> c_tag d = tg ->
       count_occ Nat.eq_dec (run_tags (cevents tr)) tg = 0%nat).
Proof. exact down_at_most_once. Qed.
Print Assumptions C19_down_at_most_once.

(* "A done callback never runs on a destroyed channel" is FALSE for the code as it is (finding
   F-21, was F-C19-2, findings/C19.md): RpcServer::onConnection destroys the channel on DOWN while the
   callbacks handed to services hold the raw `this`.  Witness: a request deferred by the service,
   the connection goes down, the service completes the request. *)
Theorem C19_done_callback_safe_refuted :
  exists own svcs l1 l2 c' tr k,
    cexec (cinit own svcs) (map CL l1 ++ CDown :: l2) = Some (c', tr) /\ In (EUseAfterFree k) (cevents tr).
Proof.
  exists true, (Some [([x53], [[x44]])]%byte), [LRequest (mkReq 7 [x53] [x44] (Valid []))]%byte, [CL (LDone 0%nat [])].
  eexists. eexists. exists 0%nat. split; [vm_compute; reflexivity|]. vm_compute. auto.
Qed.
Print Assumptions C19_done_callback_safe_refuted.

(* It holds with the missing hypothesis spelled out: the channel is user-owned, or the service
   runs no done callback after the DOWN.  (And when it does happen it is exactly that: a done
   callback after the DOWN of a server-owned channel.) *)
Theorem C19_done_callback_safe_partial :
  forall own svcs l1 l2 c' tr,
    cexec (cinit own svcs) (map CL l1 ++ CDown :: l2) = Some (c', tr) ->
    (own = false \/ (forall k m, ~ In (CL (LDone k m)) l2) -> forall k, ~ In (EUseAfterFree k) (cevents tr)) /\
    (forall k, In (EUseAfterFree k) (cevents tr) -> own = true /\ exists m, In (CL (LDone k m)) l2).
Proof. exact done_callback_safe_both. Qed.
Print Assumptions C19_done_callback_safe_partial.

(* ---- the bytes of an RpcMessage (C19_Wire: rpc.proto in protobuf's proto2 encoding; the payload
   framed by RpcCodec, C18) ----
   Round trip: what SerializeAsString writes for a message, ParseFromString reads back as that
   message ([wf_msg]: the id is a 64-bit value, no field is 2 GiB long). *)
Theorem C19_wire_roundtrip :
  forall m, wf_msg m -> wire_parse (wire_ser m) = Some m.
Proof. exact wire_roundtrip. Qed.
Print Assumptions C19_wire_roundtrip.

(* More generally the decoder accepts the canonical fields in any order and any number of times:
   the last occurrence of each field is delivered, and both required fields must occur. *)
Theorem C19_wire_any_order :
  forall fs, Forall wf_field fs -> wire_parse (ser_fields fs) = finish (fold_left apply_field fs p_empty).
Proof. exact wire_any_order. Qed.
Print Assumptions C19_wire_any_order.

(* Two channels: the frame one channel hands to its connection (an ESendRequest / ESendResponse
   event of the model) is, after serialisation and parsing, exactly the label the peer's channel
   takes -- same id, same service / method, same content or error code.  [wire_of] /
   [content_of] stand for the user's message type (SerializeAsString / ParseFromString), with the
   round trip of that type as the stated hypothesis. *)
Theorem C19_frames_arrive :
  forall (wire_of : bytes -> bytes) (content_of : bytes -> payload),
    (forall m, content_of (wire_of m) = Valid m) ->
    (forall i svc meth req, int64 i -> short svc -> short meth -> short (wire_of req) ->
       arrives_as wire_of content_of (ESendRequest i svc meth req) = Some (LRequest (mkReq i svc meth (Valid req)))) /\
    (forall i m, int64 i -> short (wire_of m) ->
       arrives_as wire_of content_of (ESendResponse i (RReply m)) = Some (LResponse i (mkBody (Some (Valid m)) None))) /\
    (forall i e, int64 i ->
       arrives_as wire_of content_of (ESendResponse i (RError e)) = Some (LResponse i (mkBody None (Some e)))).
Proof. exact frames_arrive. Qed.
Print Assumptions C19_frames_arrive.

(* ---- two channels: a client and a server joined by a connection (C19_Sys) ----
   The property's first and last sentences joined.  [ls] is ANY interleaving of CallMethod
   micro-steps on any number of client threads (SCall), REQUEST frames reaching the server (SReq),
   the service completing deferred requests in any order (SDone), RESPONSE frames reaching the
   client (SResp); every frame really goes through RpcMessage serialisation and parsing
   (arrives_as).  This is a theorem about the FIFO-OF-FRAMES model: the queues hold frames, not
   bytes, and a frame of any size below 2 GiB is delivered.  The byte-level bridge through RpcCodec
   needs every frame within kMaxMessageLen (64 MiB): C19_end_to_end_over_codec below.  A history
   with a frame in the band 64 MiB .. 2 GiB satisfies the hypotheses here, but in the real pair the
   receiver's codec reports kInvalidLength and shuts the connection down (ProtobufCodecLite.cc:65-68;
   the sender does not check: fillEmptyBuffer :42-56): that band is NOT covered.
   Hypotheses: the user's message type round-trips, fields are below 2 GiB (sys_wf), closure objects
   AND response objects are not reused (one tag = both, see "Tags" above), fewer than 2^63 calls.
     - a closure that runs has been given the reply that the service made, through the done
       callback it was handed for exactly this call's (id, service, method, request), or it sees
       nothing because the server answered this very request with an error code;
     - no closure runs twice;
     - when nothing is in flight any more (queues empty, every dispatched request completed,
       every CallMethod returned) every call made has completed exactly once: its closure ran
       once (never if it has none) and its response object was deleted once (every call passing
       its own heap-allocated response object, owned by the channel until completion). *)
Theorem C19_end_to_end :
  forall (wire_of : bytes -> bytes) (content_of : bytes -> payload),
    (forall m, content_of (wire_of m) = Valid m) ->
    forall svcs ls y tr,
      sys_exec wire_of content_of (sys_init svcs) ls = Some (y, tr) ->
      sys_wf wire_of ls -> NoDup (sfetch_tags ls) -> next_id (cl y) < 9223372036854775808 ->
      (forall l st ev tg sn, In (l, st) tr -> ss_cl st = Some ev -> In (ERun tg sn) (snd ev) ->
         exists t t' c i, In (SCall (LFetch t c)) ls /\ c_tag c = tg /\ In (EFetch t' i tg) (events (cproj tr)) /\
           ((exists k m, sn = Parsed m /\ In (SDone k m) ls /\
                         In (EDispatch k i (c_svc c) (c_meth c) (c_req c)) (events (sproj tr))) \/
            (exists e, sn = Untouched /\ resolve svcs (mkReq i (c_svc c) (c_meth c) (Valid (c_req c))) = inl e))) /\
      (forall tg, (count_occ Nat.eq_dec (run_tags (events (cproj tr))) tg <= 1)%nat) /\
      (quiescent y -> forall t c, In (SCall (LFetch t c)) ls ->
         count_occ Nat.eq_dec (run_tags (events (cproj tr))) (c_tag c) = (if c_done c then 1 else 0)%nat /\
         count_occ Nat.eq_dec (del_tags (events (cproj tr))) (c_tag c) = 1%nat).
Proof. exact end_to_end. Qed.
Print Assumptions C19_end_to_end.

(* ---- both ends calling and serving over one connection; either end's connection may go DOWN (C19_Sys.bstep) ----
   RpcChannel is symmetric.  [ls] is ANY interleaving, at the two ends SA / SB, of CallMethod
   micro-steps (BCall), frames reaching onRpcMessage (BDeliver), services completing deferred
   requests (BDone) and the connection going DOWN (BDown).  For each end w, whatever the other
   direction and the DOWNs do: a closure that runs at w was given the reply that the service at the
   OTHER end made for exactly this call's request (or sees nothing: error reply to that request);
   no closure runs twice; and when both connections are up and nothing is under way or pending,
   every call made at w has completed exactly once.  (Proof: the calls made at w and served at the
   other end form a history of the one-directional system -- sub_labels -- once the other direction,
   the DOWN labels and what a dead connection swallowed are taken out: C19_end_to_end applies.)
   Like C19_end_to_end this is about the FIFO-of-frames model with fields below 2 GiB (bsys_wf); over
   the codec's bytes, with every frame within kMaxMessageLen: C19_bidirectional_over_codec. *)
Theorem C19_bidirectional :
  forall (wire_of : bytes -> bytes) (content_of : bytes -> payload),
    (forall m, content_of (wire_of m) = Valid m) ->
    forall oA oB sA sB ls y tr,
      bexec wire_of content_of (binit oA oB sA sB) ls = Some (y, tr) ->
      bsys_wf wire_of ls -> (forall w, NoDup (bfetch_tags w ls)) ->
      (forall w, next_id (core (bend y w)) < 9223372036854775808) ->
      forall w,
        (forall tg sn, In (ERun tg sn) (cevents (bproj w tr)) ->
           exists t t' c i, In (BCall w (LFetch t c)) ls /\ c_tag c = tg /\ In (EFetch t' i tg) (cevents (bproj w tr)) /\
             ((exists k m, sn = Parsed m /\ In (BDone (other w) k m) ls /\
                           In (EDispatch k i (c_svc c) (c_meth c) (c_req c)) (cevents (bproj (other w) tr))) \/
              (exists e, sn = Untouched /\
                         resolve (svcs_of sA sB (other w)) (mkReq i (c_svc c) (c_meth c) (Valid (c_req c))) = inl e))) /\
        (forall tg, (count_occ Nat.eq_dec (run_tags (cevents (bproj w tr))) tg <= 1)%nat) /\
        (bquiescent y -> forall t c, In (BCall w (LFetch t c)) ls ->
           count_occ Nat.eq_dec (run_tags (cevents (bproj w tr))) (c_tag c) = (if c_done c then 1 else 0)%nat /\
           count_occ Nat.eq_dec (del_tags (cevents (bproj w tr))) (c_tag c) = 1%nat).
Proof. exact bidirectional. Qed.
Print Assumptions C19_bidirectional.

(* The connection goes DOWN in the middle of a system history.  What end w does inside the system is a
   history of that channel's life cycle (cexec), so C19_down_structure & co. apply to it; in
   particular: after its DOWN end w interprets no frame, runs and deletes nothing and sends nothing
   (the only events left: id fetches / registrations of a user-owned channel, and F-21's done callback
   on a destroyed one); nothing runs or is deleted twice; a call in flight at the DOWN never runs --
   neither before nor after -- and its response object is deleted exactly once if the channel dies
   with the connection (made by RpcServer), not at all while a user-owned channel lives on. *)
Theorem C19_system_down :
  forall (wire_of : bytes -> bytes) (content_of : bytes -> payload) oA oB sA sB ls y tr w,
    bexec wire_of content_of (binit oA oB sA sB) ls = Some (y, tr) ->
    let own := svcs_of oA oB w in let svcs := svcs_of sA sB w in
    cexec (cinit own svcs) (map fst (bproj w tr)) = Some (bend y w, bproj w tr) /\
    (In (BDown w) ls -> exists l1 l2, map fst (bproj w tr) = map CL l1 ++ CDown :: l2) /\
    (forall l1 l2, map fst (bproj w tr) = map CL l1 ++ CDown :: l2 ->
       (forall l ev e, In (l, ev) (skipn (S (length l1)) (bproj w tr)) -> In e ev ->
          match e with
          | EFetch _ _ _ | ERegister _ _ _ => own = false
          | EUseAfterFree _ => own = true
          | _ => False
          end) /\
       (NoDup (fetch_tags l1) ->
          (forall tg, (count_occ Nat.eq_dec (run_tags (cevents (bproj w tr))) tg <= 1)%nat /\
                      (count_occ Nat.eq_dec (del_tags (cevents (bproj w tr))) tg <= 1)%nat) /\
          (forall s1 tr1 i d, exec (init svcs) l1 = Some (s1, tr1) -> lookup i (outs s1) = Some d ->
             count_occ Nat.eq_dec (run_tags (cevents (bproj w tr))) (c_tag d) = 0%nat /\
             count_occ Nat.eq_dec (del_tags (cevents (bproj w tr))) (c_tag d) = (if own then 1 else 0)%nat))).
Proof. exact system_down. Qed.
Print Assumptions C19_system_down.

(* ---- the RpcCodec layer between channel and connection (C18's framing, imported read-only) ----
   The frames a channel hands to codec_.send -- each framed as 4-byte length, "RPC0", the RpcMessage
   bytes of C19_Wire, Adler-32 (C18_Model.encode_msg) -- written one after the other and delivered to
   the peer in ANY segmentation are decoded by the peer's RpcCodec into exactly the labels the peer's
   channel should take, in order; everything is consumed, no error, the stream is not abandoned.
   ([frame_ok]: 64-bit id, fields below 2 GiB, the frame within kMaxMessageLen.)  Together with
   C19_end_to_end_over_codec / C19_bidirectional_over_codec (every frame of a history whose calls and
   replies are within kMaxMessageLen is [frame_ok]) this is what makes the FIFO of frames of C19_Sys
   sound over a byte stream -- for frames up to 64 MiB, not beyond. *)
Theorem C19_frames_arrive_over_bytes :
  forall (wire_of : bytes -> bytes) (content_of : bytes -> payload),
    (forall m, content_of (wire_of m) = Valid m) ->
    forall es chunks,
      Forall (frame_ok wire_of) es -> concat chunks = stream_of wire_of es ->
      let r := C18_Model.codec_feed_all rpcmsg wire_parse C18_RpcInstance.rpctag (C18_Model.codec_init) chunks in
      labels_of content_of (fst r) = map direct_label es /\ snd r = C18_Model.mkD tt [] false false.
Proof. exact frames_arrive_over_bytes. Qed.
Print Assumptions C19_frames_arrive_over_bytes.

(* ... and incrementally: whatever part of the byte stream has arrived so far, in whatever pieces,
   the peer's channel has been handed an initial segment of the frames, in order, each as the right
   label, and no error. *)
Theorem C19_delivered_is_initial_segment :
  forall (wire_of : bytes -> bytes) (content_of : bytes -> payload),
    (forall m, content_of (wire_of m) = Valid m) ->
    forall es chunks1 chunks2,
      Forall (frame_ok wire_of) es -> concat (chunks1 ++ chunks2) = stream_of wire_of es ->
      exists k, labels_of content_of (fst (C18_Model.codec_feed_all rpcmsg wire_parse C18_RpcInstance.rpctag (C18_Model.codec_init) chunks1)) = map direct_label (firstn k es).
Proof. exact delivered_is_initial_segment. Qed.
Print Assumptions C19_delivered_is_initial_segment.

(* ---- the system histories over the codec's bytes (C19_CodecSys) ----
   Sizes.  [request_frame_len svc meth rq] / [reply_frame_len rs] = the value of the length field of
   the frame RpcCodec writes for a REQUEST / a RESPONSE: 4 (tag) + RpcMessage bytes + 4 (checksum),
   the RpcMessage bytes being 11 (type key + enum, id key + fixed64) + per field 1 (key) + the varint
   of its length + its bytes.  C18's [fits] for the three kinds of message a channel writes, exactly;
   the id does not matter; an error reply always fits; the plain sufficient condition
   |service| + |method| + |request| + 37 <= kMaxMessageLen, |response| + 25 <= kMaxMessageLen
   (kMaxMessageLen is the constant regenerated from ProtobufCodecLite.h, 64 MiB today); and the
   codec's bound implies the 2 GiB bound of the frame-level theorems. *)
Theorem C19_frame_sizes :
  (forall i svc meth rq,
     C18_Proofs.fits C18_RpcInstance.rpctag (wire_ser (mkMsg MT_REQUEST i (Some svc) (Some meth) (Some rq) None None)) <->
     request_frame_len svc meth rq <= C18_Model.kMaxMessageLen) /\
  (forall i rs,
     C18_Proofs.fits C18_RpcInstance.rpctag (wire_ser (mkMsg MT_RESPONSE i None None None (Some rs) None)) <->
     reply_frame_len rs <= C18_Model.kMaxMessageLen) /\
  (forall i e, C18_Proofs.fits C18_RpcInstance.rpctag (wire_ser (mkMsg MT_RESPONSE i None None None None (Some e)))) /\
  (forall svc meth rq,
     Z.of_nat (length svc) + Z.of_nat (length meth) + Z.of_nat (length rq) + 37 <= C18_Model.kMaxMessageLen ->
     request_frame_len svc meth rq <= C18_Model.kMaxMessageLen) /\
  (forall rs, Z.of_nat (length rs) + 25 <= C18_Model.kMaxMessageLen -> reply_frame_len rs <= C18_Model.kMaxMessageLen) /\
  (forall wire_of ls, sys_fits wire_of ls -> sys_wf wire_of ls) /\
  (forall wire_of ls, bsys_fits wire_of ls -> bsys_wf wire_of ls).
Proof. exact frame_sizes. Qed.
Print Assumptions C19_frame_sizes.

(* C19_end_to_end over the codec.  Hypothesis [sys_fits]: every call's REQUEST frame and every reply's
   RESPONSE frame of the history is within kMaxMessageLen (label by label: [label_fits]; it replaces
   and implies [sys_wf]).  Conclusion: (i)-(iii) of C19_end_to_end, and
     (iv) every frame either channel ever handed to its codec in this history ([sent_c] / [sent_s]:
          the ESendRequest / ESendResponse events of the client / the server, in order) is [frame_ok],
          i.e. C19_frames_arrive_over_bytes applies to all of them and to every queue content;
     (v)  the abstract delivery of the model IS the codec's delivery: whatever the segmentation of
          the bytes the client's RpcCodec wrote for [sent_c tr], C18's decoder delivers them without
          error, one message per frame, and the labels the server's channel took at its SReq steps
          ([taken_s]) are exactly the first k of them, in order, the frames still queued ([c2s y]) the
          rest; likewise from server to client ([sent_s], [taken_c], [s2c y]).
   So SReq / SResp ("the oldest frame reaches the peer's onRpcMessage as [arrives_as]") is what
   ProtobufCodecLite::onMessage does with TCP's byte stream, for frames up to kMaxMessageLen. *)
Theorem C19_end_to_end_over_codec :
  forall (wire_of : bytes -> bytes) (content_of : bytes -> payload),
    (forall m, content_of (wire_of m) = Valid m) ->
    forall svcs ls y tr,
      sys_exec wire_of content_of (sys_init svcs) ls = Some (y, tr) ->
      sys_fits wire_of ls -> NoDup (sfetch_tags ls) -> next_id (cl y) < 9223372036854775808 ->
      ((forall l st ev tg sn, In (l, st) tr -> ss_cl st = Some ev -> In (ERun tg sn) (snd ev) ->
          exists t t' c i, In (SCall (LFetch t c)) ls /\ c_tag c = tg /\ In (EFetch t' i tg) (events (cproj tr)) /\
            ((exists k m, sn = Parsed m /\ In (SDone k m) ls /\
                          In (EDispatch k i (c_svc c) (c_meth c) (c_req c)) (events (sproj tr))) \/
             (exists e, sn = Untouched /\ resolve svcs (mkReq i (c_svc c) (c_meth c) (Valid (c_req c))) = inl e))) /\
       (forall tg, (count_occ Nat.eq_dec (run_tags (events (cproj tr))) tg <= 1)%nat) /\
       (quiescent y -> forall t c, In (SCall (LFetch t c)) ls ->
          count_occ Nat.eq_dec (run_tags (events (cproj tr))) (c_tag c) = (if c_done c then 1 else 0)%nat /\
          count_occ Nat.eq_dec (del_tags (events (cproj tr))) (c_tag c) = 1%nat)) /\
      (Forall (frame_ok wire_of) (sent_c tr) /\ Forall (frame_ok wire_of) (sent_s tr)) /\
      (exists k, forall chunks, concat chunks = stream_of wire_of (sent_c tr) ->
         let r := C18_Model.codec_feed_all rpcmsg wire_parse C18_RpcInstance.rpctag (C18_Model.codec_init) chunks in
         snd r = C18_Model.mkD tt [] false false /\
         taken_s tr = firstn k (labels_of content_of (fst r)) /\
         map direct_label (c2s y) = skipn k (labels_of content_of (fst r))) /\
      (exists k, forall chunks, concat chunks = stream_of wire_of (sent_s tr) ->
         let r := C18_Model.codec_feed_all rpcmsg wire_parse C18_RpcInstance.rpctag (C18_Model.codec_init) chunks in
         snd r = C18_Model.mkD tt [] false false /\
         taken_c tr = firstn k (labels_of content_of (fst r)) /\
         map direct_label (s2c y) = skipn k (labels_of content_of (fst r))).
Proof. exact end_to_end_over_codec. Qed.
Print Assumptions C19_end_to_end_over_codec.

(* C19_bidirectional over the codec, DOWNs included.  [bsent w tr] = the frames end w handed to its
   codec (none once its connection is down), [btaken w tr] = the labels end w's channel took at its
   BDeliver steps, [binq y w] = the frames still under way to w.  Under [bsys_fits] (every call and
   every reply at either end makes a frame within kMaxMessageLen): (i)-(iii) of C19_bidirectional;
   every frame end w ever wrote is [frame_ok]; and for ANY segmentation of the bytes the OTHER end's
   codec wrote, C18's decoder delivers them without error, the labels end w took being the first k of
   them and the queue the rest (after end w's DOWN it takes nothing more: the rest is never read). *)
Theorem C19_bidirectional_over_codec :
  forall (wire_of : bytes -> bytes) (content_of : bytes -> payload),
    (forall m, content_of (wire_of m) = Valid m) ->
    forall oA oB sA sB ls y tr,
      bexec wire_of content_of (binit oA oB sA sB) ls = Some (y, tr) ->
      bsys_fits wire_of ls -> (forall w, NoDup (bfetch_tags w ls)) ->
      (forall w, next_id (core (bend y w)) < 9223372036854775808) ->
      forall w,
        ((forall tg sn, In (ERun tg sn) (cevents (bproj w tr)) ->
            exists t t' c i, In (BCall w (LFetch t c)) ls /\ c_tag c = tg /\ In (EFetch t' i tg) (cevents (bproj w tr)) /\
              ((exists k m, sn = Parsed m /\ In (BDone (other w) k m) ls /\
                            In (EDispatch k i (c_svc c) (c_meth c) (c_req c)) (cevents (bproj (other w) tr))) \/
               (exists e, sn = Untouched /\
                          resolve (svcs_of sA sB (other w)) (mkReq i (c_svc c) (c_meth c) (Valid (c_req c))) = inl e))) /\
         (forall tg, (count_occ Nat.eq_dec (run_tags (cevents (bproj w tr))) tg <= 1)%nat) /\
         (bquiescent y -> forall t c, In (BCall w (LFetch t c)) ls ->
            count_occ Nat.eq_dec (run_tags (cevents (bproj w tr))) (c_tag c) = (if c_done c then 1 else 0)%nat /\
            count_occ Nat.eq_dec (del_tags (cevents (bproj w tr))) (c_tag c) = 1%nat)) /\
        Forall (frame_ok wire_of) (bsent w tr) /\
        (exists k, forall chunks, concat chunks = stream_of wire_of (bsent (other w) tr) ->
           let r := C18_Model.codec_feed_all rpcmsg wire_parse C18_RpcInstance.rpctag (C18_Model.codec_init) chunks in
           snd r = C18_Model.mkD tt [] false false /\
           btaken w tr = firstn k (labels_of content_of (fst r)) /\
           map direct_label (binq y w) = skipn k (labels_of content_of (fst r))).
Proof. exact bidirectional_over_codec. Qed.
Print Assumptions C19_bidirectional_over_codec.

(* On its own channel: every call ever made is still held by the channel (registered, or fetched
   and not yet registered) or has completed exactly once.  (Completed = closure run once if there is
   one, response object deleted once; the latter under the caller obligation of "Tags" above: every
   call passes its own heap-allocated response object.) *)
Theorem C19_call_accounting :
  forall svcs ls s tr,
    exec (init svcs) ls = Some (s, tr) -> NoDup (fetch_tags ls) ->
    forall t c, In (LFetch t c) ls ->
      ((exists i, lookup i (outs s) = Some c) \/ (exists t' i, tget t' (threads s) = TFetched i c)) \/
      (count_occ Nat.eq_dec (run_tags (events tr)) (c_tag c) = (if c_done c then 1 else 0)%nat /\
       count_occ Nat.eq_dec (del_tags (events tr)) (c_tag c) = 1%nat).
Proof. exact call_accounting. Qed.
Print Assumptions C19_call_accounting.

(* The tie to the source by generated facts (coq/Gen_C19.v is regenerated from the current
   RpcChannel.cc, Atomic.h and rpc.proto by lib/gen_C19.py on every check): the id is fetched by one
   atomic read-modify-write and used as wire id and map key; the call is registered in a mutex
   section before the send; the RESPONSE branch looks up the frame's id, takes and erases the entry
   in one mutex section and then parses / runs / deletes exactly as [complete] says; the REQUEST
   branch's if-tree computes [resolve] with the error numbers of rpc.proto, dispatching or replying
   exactly once; error reply, done callback and its reply carry the request's id. *)
Theorem C19_model_tied_to_source :
  (CallMethod_id_fetch_atomic = true /\ (forall i, CallMethod_wire_id i = i) /\ (forall i, CallMethod_map_key i = i) /\
   CallMethod_registers_caller_objects = true /\ CallMethod_register_locked_before_send = true) /\
  ((forall i, Response_lookup_key i = i) /\ Response_section_locked = true /\
   Response_found_takes_entry = true /\ Response_found_erases_entry = true) /\
  (forall c b, Response_complete (c_resp c) (c_done c) (is_some (rb_resp b)) =
               (if c_resp c && is_some (rb_resp b) then 1 else 0,
                Z.of_nat (length (run_tags (complete c b))), Z.of_nat (length (del_tags (complete c b))))) /\
  (forall svcs r, Request_branch (g_has_services svcs) (g_found_service svcs r) (g_found_method svcs r) (g_parsed r) =
                  match resolve svcs r with inl e => (errnum e, 0, 1) | inr _ => (errnum NO_ERROR, 1, 0) end) /\
  ((forall i, Request_error_reply_id i = i) /\ (forall i, Request_callback_id i = i) /\
   (forall i, doneCallback_reply_id i = i) /\ doneCallback_sends = 1) /\
  (errnum NO_ERROR = EC_NO_ERROR /\ errnum WRONG_PROTO = EC_WRONG_PROTO /\ errnum NO_SERVICE = EC_NO_SERVICE /\
   errnum NO_METHOD = EC_NO_METHOD /\ errnum INVALID_REQUEST = EC_INVALID_REQUEST /\
   errnum INVALID_RESPONSE = EC_INVALID_RESPONSE /\ errnum TIMEOUT = EC_TIMEOUT) /\
  (PF_type = (1, 1, 0) /\ PF_id = (2, 1, 1) /\ PF_service = (3, 0, 2) /\ PF_method = (4, 0, 2) /\
   PF_request = (5, 0, 2) /\ PF_response = (6, 0, 2) /\ PF_error = (7, 0, 0) /\
   mtype_num MT_REQUEST = MTN_REQUEST /\ mtype_num MT_RESPONSE = MTN_RESPONSE /\ mtype_num MT_ERROR = MTN_ERROR /\ MTN_count = 3).
Proof. exact model_tied_to_source. Qed.
Print Assumptions C19_model_tied_to_source.

(* ---- the hypotheses are inhabited by non-trivial histories ---- *)
Definition ex_call (k : nat) : call := mkCall k true true [] [] [].
Definition ex_body : rbody := mkBody (Some (Valid [])) None.
(* two threads race; thread 2 registers and sends first; responses arrive out of order, one is
   duplicated, one carries a foreign id, one is an error reply *)
Definition ex_hist : list label :=
  [LFetch 1%nat (ex_call 1); LFetch 2%nat (ex_call 2); LRegister 2%nat; LRegister 1%nat; LSend 2%nat;
   LResponse 2 ex_body; LSend 1%nat; LResponse 1 (mkBody None (Some NO_SERVICE)); LResponse 1 ex_body;
   LResponse 7 ex_body].

Example C19_example_history :
  exists s tr, exec (init None) ex_hist = Some (s, tr) /\
               run_tags (events tr) = [2%nat; 1%nat] /\
               del_tags (events tr) = [2%nat; 1%nat] /\
               fetched_ids (events tr) = [1; 2] /\
               outs s = [] /\
               NoDup (fetch_tags ex_hist).
Proof.
  eexists. eexists. split; [vm_compute; reflexivity|].
  split; [reflexivity|]. split; [reflexivity|]. split; [reflexivity|]. split; [reflexivity|].
  vm_compute. constructor; [intros [E|[]]; discriminate|]. constructor; [intros []|constructor].
Qed.

(* the hypotheses of C19_once_if_answered: a call made in contract, registered, answered later *)
Example C19_example_registered_then_answered :
  exists s1 tr1 c, exec (init None) (firstn 4 ex_hist) = Some (s1, tr1) /\
                   lookup 1 (outs s1) = Some c /\ in_contract c = true /\ c_done c = true /\
                   exists b, In (LResponse 1 b) (skipn 4 ex_hist).
Proof.
  eexists. eexists. eexists. split; [vm_compute; reflexivity|].
  split; [vm_compute; reflexivity|]. split; [reflexivity|]. split; [reflexivity|].
  eexists. vm_compute. right. right. right. left. reflexivity.
Qed.

(* the hypotheses of C19_registered_before_sent: thread 2 is about to send *)
Example C19_example_about_to_send :
  exists s1 tr1 s2 ev, exec (init None) (firstn 4 ex_hist) = Some (s1, tr1) /\ step s1 (LSend 2%nat) = Some (s2, ev).
Proof. eexists. eexists. eexists. eexists. split; vm_compute; reflexivity. Qed.

Definition ex_svcs : option (list (name * list name)) := Some [([x53], [[x45]; [x44]])]%byte.
Definition ex_server_hist : list label :=
  [LRequest (mkReq 5 [x53] [x45] (Valid [x01]));            (* dispatched, token 0 *)
   LRequest (mkReq 6 [x54] [x45] (Valid []));               (* unknown service *)
   LRequest (mkReq 7 [x53] [x46] (Valid []));               (* unknown method *)
   LRequest (mkReq 8 [x53] [x44] (Corrupt [xff]));          (* unparsable request *)
   LRequest (mkReq 5 [x53] [x44] (Valid []));               (* same id again: token 1 *)
   LDone 1%nat [x02]; LDone 0%nat [x03]]%byte.

Example C19_example_server :
  exists s tr, exec (init ex_svcs) ex_server_hist = Some (s, tr) /\
    flat_map (fun e => match e with ESendResponse i r => [(i, r)] | _ => [] end) (events tr) =
      [(6, RError NO_SERVICE); (7, RError NO_METHOD); (8, RError INVALID_REQUEST);
       (5, RReply [x02]); (5, RReply [x03])]%byte /\
    pending s = [].
Proof. eexists. eexists. split; [vm_compute; reflexivity|]. split; reflexivity. Qed.

(* a done callback run twice is outside the model (one-shot closure) *)
Example C19_example_double_done_rejected :
  exec (init ex_svcs) [LRequest (mkReq 5 [x53] [x45] (Valid [])); LDone 0%nat []; LDone 0%nat []]%byte = None.
Proof. vm_compute. reflexivity. Qed.

(* histories with a DOWN: a server-owned channel with one call outstanding and one request deferred
   and never completed; a user-owned channel that goes on registering calls *)
Example C19_example_down_server_owned :
  exists c tr, cexec (cinit true ex_svcs)
                 (map CL (call_labels 0%nat (ex_call 1) ++ [LRequest (mkReq 5 [x53] [x45] (Valid []))]%byte) ++ CDown :: []) = Some (c, tr) /\
               cevents tr = [EFetch 0%nat 1 1%nat; ERegister 0%nat 1 1%nat; ESendRequest 1 [] [] [];
                             EDispatch 0%nat 5 [x53] [x45] []; EDelete 1%nat; EDrop 1%nat]%byte /\
               outs (core c) = [] /\ pending (core c) = [(0%nat, 5)].
Proof. eexists. eexists. split; [vm_compute; reflexivity|]. split; [reflexivity|]. split; reflexivity. Qed.

Example C19_example_down_user_owned :
  exists c tr, cexec (cinit false ex_svcs)
                 (map CL [LRequest (mkReq 5 [x53] [x45] (Valid []))]%byte ++ CDown ::
                  map CL (call_labels 0%nat (ex_call 1) ++ [LDone 0%nat []])) = Some (c, tr) /\
               cevents tr = [EDispatch 0%nat 5 [x53] [x45] []; EFetch 0%nat 1 1%nat; ERegister 0%nat 1 1%nat]%byte /\
               outs (core c) = [(1, ex_call 1)] /\ pending (core c) = [].
Proof. eexists. eexists. split; [vm_compute; reflexivity|]. split; [reflexivity|]. split; reflexivity. Qed.

(* the wire format on a concrete message, and the hypotheses of C19_frames_arrive with the identity codec *)
Example C19_example_wire :
  wire_ser (mkMsg MT_REQUEST 1 (Some [x61; x62]) (Some [x63]) (Some [x0a; x01; x41]) None None)%byte
    = [x08; x01; x11; x01; x00; x00; x00; x00; x00; x00; x00; x1a; x02; x61; x62; x22; x01; x63; x2a; x03; x0a; x01; x41]%byte /\
  wf_msg (mkMsg MT_REQUEST 1 (Some [x61; x62]) (Some [x63]) (Some [x0a; x01; x41]) None None)%byte /\
  (forall m, Valid ((fun b : bytes => b) m) = Valid m) /\
  wire_parse [x08; x01]%byte = None /\                                   (* required id missing *)
  wire_parse [x11; x01; x00; x00; x00; x00; x00; x00; x00; x08; x02; x08; x05; x43; x08; x40; x44]%byte
    = Some (mkMsg MT_RESPONSE 1 None None None None None).              (* any order, bad enum value and unknown group skipped *)
Proof.
  split; [vm_compute; reflexivity|]. split; [vm_compute; repeat split; try reflexivity; try exact I; intro; discriminate|]. split; [reflexivity|].
  split; vm_compute; reflexivity.
Qed.

(* a system history: two threads race, the server gets request 2 first, the service answers the
   two deferred requests in the other order, a third call names an unknown method; at the end
   nothing is in flight and the three closures have run, each with its own reply *)
Definition sys_call (k : nat) (meth : name) (req : bytes) : call := mkCall k true true [x53]%byte meth req.
Definition ex_sys_hist : list slabel :=
  [SCall (LFetch 1%nat (sys_call 1 [x45] [x0a])); SCall (LFetch 2%nat (sys_call 2 [x44] [x0b]));
   SCall (LRegister 2%nat); SCall (LSend 2%nat); SCall (LRegister 1%nat); SCall (LSend 1%nat);
   SReq; SReq; SDone 1%nat [xa1]; SResp; SDone 0%nat [xb2]; SResp;
   SCall (LFetch 1%nat (sys_call 3 [x46] [])); SCall (LRegister 1%nat); SCall (LSend 1%nat); SReq; SResp]%byte.

Example C19_example_system :
  exists y tr, sys_exec (fun b => b) Valid (sys_init ex_svcs) ex_sys_hist = Some (y, tr) /\
    quiescent y /\ sys_wf (fun b => b) ex_sys_hist /\ NoDup (sfetch_tags ex_sys_hist) /\
    next_id (cl y) < 9223372036854775808 /\
    flat_map (fun e => match e with ERun c s => [(c, s)] | _ => [] end) (events (cproj tr)) =
      [(1%nat, Parsed [xa1]); (2%nat, Parsed [xb2]); (3%nat, Untouched)]%byte.
Proof.
  eexists. eexists. split; [vm_compute; reflexivity|].
  split; [repeat split; try reflexivity; intros t; destruct t as [|[|[|t]]]; reflexivity|].
  split; [intros l Hl; repeat (destruct Hl as [<-|Hl]; [vm_compute; repeat split; try reflexivity; exact I|]); destruct Hl|].
  split; [vm_compute; repeat constructor; intros H; repeat (destruct H as [H|H]; [discriminate|]); exact H|].
  split; [vm_compute; reflexivity|reflexivity].
Qed.

(* a two-way history: A calls B (deferred, answered later), B calls A (unknown method: error reply);
   then A's connection goes DOWN with a second call of A still in flight *)
Definition ex_bi_hist : list blabel :=
  [BCall SA (LFetch 1%nat (sys_call 1 [x45] [x0a])); BCall SA (LRegister 1%nat); BCall SA (LSend 1%nat);
   BCall SB (LFetch 1%nat (sys_call 2 [x46] [x0b])); BCall SB (LRegister 1%nat); BCall SB (LSend 1%nat);
   BDeliver SB; BDeliver SA; BDeliver SB; BDone SB 0%nat [xa1]; BDeliver SA;
   BCall SA (LFetch 1%nat (sys_call 3 [x45] [x0c])); BCall SA (LRegister 1%nat); BCall SA (LSend 1%nat);
   BDown SA; BDeliver SB; BDone SB 1%nat [xa2]]%byte.

Example C19_example_bidirectional :
  exists y tr, bexec (fun b => b) Valid (binit true false ex_svcs ex_svcs) ex_bi_hist = Some (y, tr) /\
    bsys_wf (fun b => b) ex_bi_hist /\ (forall w, NoDup (bfetch_tags w ex_bi_hist)) /\
    flat_map (fun e => match e with ERun c s => [(c, s)] | EDrop c => [(c, Garbage)] | _ => [] end) (cevents (bproj SA tr)) =
      [(1%nat, Parsed [xa1]); (3%nat, Garbage)]%byte /\                   (* call 1 served; call 3 dropped at the DOWN, never run *)
    flat_map (fun e => match e with ERun c s => [(c, s)] | _ => [] end) (cevents (bproj SB tr)) = [(2%nat, Untouched)] /\
    In (BDown SA) ex_bi_hist.
Proof.
  eexists. eexists. split; [vm_compute; reflexivity|].
  split; [intros l Hl; repeat (destruct Hl as [<-|Hl]; [vm_compute; repeat split; try reflexivity; exact I|]); destruct Hl|].
  split; [intros [|]; vm_compute; repeat constructor; intros H; repeat (destruct H as [H|H]; [discriminate|]); exact H|].
  split; [reflexivity|]. split; [reflexivity|]. vm_compute. auto 20.
Qed.

(* the bytes of two frames, delivered in three pieces: cut inside the first frame's tag and inside the
   second frame's checksum *)
Definition ex_frames : list event := [ESendRequest 1 [x53] [x45] [x0a]; ESendResponse 1 (RReply [xa1])]%byte.
Definition ex_stream : bytes := stream_of (fun b => b) ex_frames.

Example C19_example_over_bytes :
  Forall (frame_ok (fun b => b)) ex_frames /\
  length ex_stream = 58%nat /\
  labels_of Valid (fst (C18_Model.codec_feed_all rpcmsg wire_parse C18_RpcInstance.rpctag (C18_Model.codec_init)
                          [firstn 6 ex_stream; firstn 50 (skipn 6 ex_stream); skipn 56 ex_stream])) = map direct_label ex_frames.
Proof.
  split; [repeat constructor; vm_compute; try (intro; discriminate); try reflexivity|].
  split; vm_compute; reflexivity.
Qed.

(* the hypotheses of the _over_codec theorems are inhabited: the two system histories above are within
   the codec's limit ([sys_fits] / [bsys_fits] by computation against the regenerated kMaxMessageLen);
   in the first, quiescent at the end, everything sent has been taken, frame by frame; the sizes of
   the two frames of C19_example_over_bytes: 4 + 28 and 4 + 22 bytes = the 58 of the stream *)
Example C19_example_system_fits :
  sys_fits (fun b => b) ex_sys_hist /\ bsys_fits (fun b => b) ex_bi_hist /\
  (exists y tr, sys_exec (fun b => b) Valid (sys_init ex_svcs) ex_sys_hist = Some (y, tr) /\
     length (sent_c tr) = 3%nat /\ length (sent_s tr) = 3%nat /\
     taken_s tr = map direct_label (sent_c tr) /\ taken_c tr = map direct_label (sent_s tr)) /\
  request_frame_len [x53] [x45] [x0a] = 28 /\ reply_frame_len [xa1] = 22.
Proof.
  split; [intros l Hl; repeat (destruct Hl as [<-|Hl]; [vm_compute; try exact I; intro; discriminate|]); destruct Hl|].
  split; [intros l Hl; repeat (destruct Hl as [<-|Hl]; [vm_compute; try exact I; intro; discriminate|]); destruct Hl|].
  split; [eexists; eexists; split; [vm_compute; reflexivity|]; repeat split; vm_compute; reflexivity|].
  split; vm_compute; reflexivity.
Qed.

(* ---- observation, outside the property: the out-of-contract call ----
   CallMethod(method, NULL, &request, /*response=*/NULL, done) violates the precondition above; the
   model rejects it.  [exec_code] is the machine without that guard, i.e. what RpcChannel.cc does
   when it is handed the call all the same: `if (out.response)` (RpcChannel.cc:103) guards
   done->Run() as well, so when the peer answers the entry is erased and the closure is neither
   run nor deleted.  Recorded in docs/C19.md as an observation; not a finding. *)
Definition obs_null_call : call := mkCall 1%nat false true [] [] [].
Definition obs_null_hist : list label := call_labels 0%nat obs_null_call ++ [LResponse 1 (mkBody (Some (Valid [])) None)].

Example C19_observation_null_response_out_of_contract :
  exec (init None) obs_null_hist = None /\
  exists s tr, exec_code (init None) obs_null_hist = Some (s, tr) /\
               outs s = [] /\ run_tags (events tr) = [] /\ In (ELeak 1%nat) (events tr).
Proof.
  split; [vm_compute; reflexivity|]. eexists. eexists. split; [vm_compute; reflexivity|].
  split; [reflexivity|]. split; [reflexivity|]. vm_compute. auto 10.
Qed.
