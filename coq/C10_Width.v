(* C10_Width: the indices and size observers of Buffer are 64-bit (size_t / ssize_t).
   C10_Model keeps readerIndex_, writerIndex_ and every size as unbounded nat.  The widths of the C++
   carriers are regenerated from the current header (lib/consts/C10.txt -> Gen_Consts); the lemma says
   that reduction modulo 2^width (what an unsigned carrier of that width keeps) is the identity on
   every value below 2^63 - the range any object in a 64-bit address space can have - so the model is
   faithful for every buffer that can exist; readFd's signed result keeps every count below 2^63.
   A narrower carrier (an `int` index, a 32-bit size observer) makes the lemma false. *)
From Coq Require Import ZArith Lia.
From Muduo Require Import Gen_Consts.
Local Open Scope Z_scope.

Definition uwrap (bits n : Z) : Z := n mod 2 ^ bits.
Definition swrap10 (bits n : Z) : Z := (n + 2 ^ (bits - 1)) mod 2 ^ bits - 2 ^ (bits - 1).

Lemma uwrap64_id : forall n, 0 <= n < 2 ^ 63 -> uwrap 64 n = n.
Proof.
  intros n Hn. unfold uwrap. assert (E : 2 ^ 64 = 2 * 2 ^ 63) by reflexivity.
  rewrite E. apply Z.mod_small. lia.
Qed.

Lemma swrap64_id10 : forall n, 0 <= n < 2 ^ 63 -> swrap10 64 n = n.
Proof.
  intros n Hn. unfold swrap10. change (64 - 1) with 63.
  assert (E : 2 ^ 64 = 2 * 2 ^ 63) by reflexivity. rewrite E.
  rewrite Z.mod_small by lia. lia.
Qed.

Lemma buffer_width_faithful : forall n, 0 <= n < 2 ^ 63 ->
  uwrap Buffer_readerIndex_bits n = n /\ uwrap Buffer_writerIndex_bits n = n /\
  uwrap Buffer_readableBytes_bits n = n /\ uwrap Buffer_writableBytes_bits n = n /\
  uwrap Buffer_prependableBytes_bits n = n /\ swrap10 Buffer_readFd_result_bits n = n /\
  Buffer_size_is_unsigned = 1.
Proof.
  intros n Hn.
  change Buffer_readerIndex_bits with 64. change Buffer_writerIndex_bits with 64.
  change Buffer_readableBytes_bits with 64. change Buffer_writableBytes_bits with 64.
  change Buffer_prependableBytes_bits with 64. change Buffer_readFd_result_bits with 64.
  pose proof (uwrap64_id n Hn). pose proof (swrap64_id10 n Hn).
  repeat split; try assumption.
Qed.

(* the shape of the defect excluded: a 32-bit size observer reports 0 for a 4 GiB buffer *)
Lemma uwrap32_collides : uwrap 32 (2 ^ 32) = 0.
Proof. reflexivity. Qed.
