(* Conn_Trace: whole-history (trace-level) consequences of the per-step lemmas of Conn_Proofs, in
   the vocabulary of the property texts C01 / C03 / C13: what a history [ops] run from the initial
   state produces, stated over the list of (state before, op, state after) triples of the run.
   No ghost field of the model appears in the headline statements: the streams are compared with
   functions of the trace. *)
From Coq Require Import List ZArith Lia Bool Arith NArith.
From Coq.Strings Require Import Byte.
From Muduo Require Import Conn_Model Conn_Proofs.
Import ListNotations.

Arguments Nat.min : simpl never.
Arguments N.leb : simpl never.
Arguments N.ltb : simpl never.
Arguments N.of_nat : simpl never.

(* the steps of a run, as (state before, op, state after) *)
Fixpoint trace (c : conn) (ops : list op) : list (conn * op * conn) :=
  match ops with
  | [] => []
  | o :: r => match step c o with
              | Ok (c1, _) => (c, o, c1) :: trace c1 r
              | _ => []
              end
  end.

Definition pre (x : conn * op * conn) : conn := fst (fst x).
Definition opx (x : conn * op * conn) : op := snd (fst x).
Definition post (x : conn * op * conn) : conn := snd x.

Lemma trace_cons c o ops c1 e1 : step c o = Ok (c1, e1) -> trace c (o :: ops) = (c, o, c1) :: trace c1 ops.
Proof. intros H. cbn [trace]. rewrite H. reflexivity. Qed.

(* ---- C01: the outbound stream of a history ------------------------------------------------ *)
(* the block the sendInLoop of one step took responsibility for ([] when the step runs no
   sendInLoop, when the connection is already Disconnected, or when the direct write failed with
   EPIPE / ECONNRESET) *)
Definition step_block (x : conn * op * conn) : list byte := block_taken (pre x) (opx x).

Lemma run_blocks ops : forall c c' e, run c ops = Ok (c', e) ->
  accepted c' = accepted c ++ flat_map step_block (trace c ops).
Proof.
  induction ops as [|o ops IH]; intros c c' e H.
  - cbn in H. injection H as <- _. cbn. symmetry. apply app_nil_r.
  - apply run_cons in H as (c1 & e1 & e2 & H1 & H2 & _).
    rewrite (trace_cons c o ops c1 e1 H1). cbn [flat_map].
    rewrite (IH c1 c' e2 H2), (step_accepted c o c1 e1 H1), <- app_assoc. reflexivity.
Qed.

(* what the peer has read followed by the backlog is exactly the concatenation, in execution
   order, of the blocks of the sendInLoops of the history: nothing lost, duplicated, reordered or
   modified, each block contiguous; for every kernel acceptance pattern (they are in [ops]) *)
Theorem outbound_trace : forall mark wc hw ops c e,
  run (init mark wc hw) ops = Ok (c, e) ->
  wire c ++ outb c = flat_map step_block (trace (init mark wc hw) ops).
Proof.
  intros mark wc hw ops c e H.
  assert (HI : Inv c) by (eapply run_inv; [apply init_inv|exact H]).
  rewrite (i_stream c HI), (run_blocks ops _ _ _ H). reflexivity.
Qed.

(* from any reachable state: the stream only grows, by the blocks of the steps *)
Theorem outbound_trace_from : forall ops c c' e, reach c -> run c ops = Ok (c', e) ->
  wire c' ++ outb c' = (wire c ++ outb c) ++ flat_map step_block (trace c ops).
Proof.
  intros ops c c' e Hr H.
  pose proof (reach_inv c Hr) as HI.
  assert (HI' : Inv c') by (eapply run_inv; eassumption).
  rewrite (i_stream c' HI'), (i_stream c HI). apply (run_blocks ops _ _ _ H).
Qed.

(* ---- C01: foreign sends through the functor queue ------------------------------------------ *)
Definition step_enq (x : conn * op * conn) : list (nat * list byte) := enq_of (pre x) (opx x).
Definition step_ran (x : conn * op * conn) : list (nat * list byte) := ran_of (pre x) (opx x).

Lemma run_enq_ran ops : forall c c' e, run c ops = Ok (c', e) ->
  enq c' = enq c ++ flat_map step_enq (trace c ops) /\
  ran c' = ran c ++ flat_map step_ran (trace c ops).
Proof.
  induction ops as [|o ops IH]; intros c c' e H.
  - cbn in H. injection H as <- _. cbn. rewrite !app_nil_r. auto.
  - apply run_cons in H as (c1 & e1 & e2 & H1 & H2 & _).
    rewrite (trace_cons c o ops c1 e1 H1). cbn [flat_map].
    destruct (IH c1 c' e2 H2) as [-> ->]. destruct (step_enq_ran c o c1 e1 H1) as [-> ->].
    rewrite <- !app_assoc. auto.
Qed.

(* the (thread, block) pairs whose sendInLoop has run, followed by those still queued, are the
   pairs enqueued by the foreign send() calls, in enqueue order: FIFO across any number of
   batches; hence per thread the blocks run in the order the thread issued them *)
Theorem foreign_fifo_trace : forall mark wc hw ops c e,
  run (init mark wc hw) ops = Ok (c, e) ->
  let tr := trace (init mark wc hw) ops in
  flat_map step_ran tr ++ sends_of (pending c) = flat_map step_enq tr /\
  forall t, exists later,
    filter (fun x => fst x =? t) (flat_map step_enq tr) = filter (fun x => fst x =? t) (flat_map step_ran tr) ++ later.
Proof.
  intros mark wc hw ops c e H tr.
  assert (HI : Inv c) by (eapply run_inv; [apply init_inv|exact H]).
  destruct (run_enq_ran ops _ _ _ H) as [He Hr]. cbn [init enq ran app] in He, Hr.
  fold tr in He, Hr. rewrite <- He, <- Hr. split; [apply (i_fifo c HI)|].
  intros t. rewrite <- (i_fifo c HI), filter_app. eauto.
Qed.

(* ---- C01: the inbound stream of a history -------------------------------------------------- *)
Definition read_of (o : op) : list byte := match o with EvReadData d => d | _ => [] end.
Definition is_read (o : op) : bool := match o with EvReadData _ => true | _ => false end.

Lemma filter_negb_nil (e : list event) :
  filter is_msg (filter (fun x => negb (is_msg x)) e) = [].
Proof.
  induction e as [|a e IH]; cbn; [reflexivity|].
  destruct (is_msg a) eqn:E; cbn; [exact IH|]. rewrite E. exact IH.
Qed.

Lemma run_inbound ops : forall c c' e, run c ops = Ok (c', e) ->
  delivered c' = delivered c ++ flat_map read_of ops /\
  length (filter is_msg e) = length (filter is_read ops).
Proof.
  induction ops as [|o ops IH]; intros c c' e H.
  - cbn in H. injection H as <- <-. cbn. rewrite app_nil_r. auto.
  - apply run_cons in H as (c1 & e1 & e2 & H1 & H2 & ->).
    destruct (IH c1 c' e2 H2) as [Hd Hm]. destruct (step_inbound c o c1 e1 H1) as (Hd1 & _ & _ & He1).
    split.
    + rewrite Hd, Hd1. cbn [flat_map]. unfold read_of at 2. rewrite <- app_assoc. reflexivity.
    + rewrite filter_app, app_length, Hm. cbn [filter].
      assert (Hx : length (filter is_msg e1) = if is_read o then 1 else 0).
      { destruct o; cbn [is_read]; rewrite He1; try (rewrite filter_negb_nil; reflexivity). reflexivity. }
      rewrite Hx. destruct (is_read o); reflexivity.
Qed.

(* everything the kernel delivered, in delivery order, is what the user consumed followed by
   what is still buffered: none lost, none duplicated, none reordered; the message callback ran
   exactly once per delivery.  (Where stopRead / startRead are placed in [ops] is irrelevant.) *)
Theorem inbound_trace : forall mark wc hw ops c e,
  run (init mark wc hw) ops = Ok (c, e) ->
  consumed c ++ inb c = flat_map read_of ops /\
  length (filter is_msg e) = length (filter is_read ops).
Proof.
  intros mark wc hw ops c e H.
  assert (HI : Inv c) by (eapply run_inv; [apply init_inv|exact H]).
  destruct (run_inbound ops _ _ _ H) as [Hd Hm]. cbn [init delivered app] in Hd.
  rewrite (i_inbound c HI), Hd. auto.
Qed.

(* ---- C13: the sequence of notification callbacks of a history ------------------------------ *)
(* the callback functors whose execution the events of e record, in order *)
Definition cb_events (e : list event) : list functor :=
  flat_map (fun ev => match cb_of ev with Some f => [f] | None => [] end) e.

(* the property text, for one step from c to c' by op o.
   write-complete is due iff the callback is installed and either the step is a sendInLoop whose
   direct write took the whole block (the empty block included) while nothing was queued, or it is
   a writability event that emptied a non-empty backlog *)
Definition wc_due (c : conn) (o : op) (c' : conn) : bool :=
  has_wc c &&
  match send_of c o with
  | Some (d, k, _) =>
      negb (writing c) && (length (outb c) =? 0) &&
      match taken (effective c k) (length d) with Some n => n =? length d | None => false end
  | None =>
      match o with
      | EvWritable _ => negb (length (outb c) =? 0) && (length (outb c') =? 0)
      | _ => false
      end
  end.

(* high-water is due iff the callback is installed and the step is a sendInLoop that raises the
   backlog from below the mark to at or above it *)
Definition hw_due (c : conn) (o : op) (c' : conn) : bool :=
  has_hwm c &&
  match send_of c o with
  | Some _ => (N.of_nat (length (outb c)) <? hwm c)%N && (hwm c <=? N.of_nat (length (outb c')))%N
  | None => false
  end.

(* ... and it carries the resulting backlog *)
Definition cb_due (x : conn * op * conn) : list functor :=
  (if wc_due (pre x) (opx x) (post x) then [FWriteComplete] else []) ++
  (if hw_due (pre x) (opx x) (post x) then [FHighWater (length (outb (post x)))] else []).

Lemma cb_events_app e1 e2 : cb_events (e1 ++ e2) = cb_events e1 ++ cb_events e2.
Proof. apply flat_map_app. Qed.

Lemma cb_events_nil e : (forall ev f, In ev e -> cb_of ev <> Some f) -> cb_events e = [].
Proof.
  induction e as [|a e IH]; intros H; [reflexivity|]. cbn [cb_events flat_map].
  destruct (cb_of a) as [f|] eqn:E; [exfalso; eapply (H a f); [left; reflexivity|exact E]|].
  apply IH. intros ev f Hin. apply H. right. exact Hin.
Qed.

Lemma cb_of_is_cb ev f : cb_of ev = Some f -> is_cb f = true.
Proof. destruct ev; cbn; intros H; try discriminate; injection H as <-; reflexivity. Qed.

Lemma send_of_cbs c o d k p : send_of c o = Some (d, k, p) -> cbs (pending c) = cbs p.
Proof.
  unfold send_of. destruct o; try discriminate.
  - destruct (cstate_eqb (st c) Connected); [|discriminate]. intros H. injection H as _ _ <-. reflexivity.
  - destruct (pending c) as [|[] rest]; try discriminate.
    destruct (cstate_eqb (st c) Disconnected); [discriminate|]. intros H. injection H as _ _ <-. reflexivity.
Qed.

Lemma send_of_head c o d k p : send_of c o = Some (d, k, p) ->
  forall f rest kk, o = RunOne kk -> pending c = f :: rest -> is_cb f = false.
Proof.
  unfold send_of. intros H f rest kk -> Hp. rewrite Hp in H. destruct f; try discriminate; reflexivity.
Qed.

Lemma step_no_cb_event c o c' e : step c o = Ok (c', e) ->
  (forall kk f rest, o = RunOne kk -> pending c = f :: rest -> is_cb f = false) ->
  cb_events e = [].
Proof.
  intros H Hn. apply cb_events_nil. intros ev f Hin Hcb.
  destruct (step_cb_events c o c' e ev f H Hin Hcb) as (kk & rest & Ho & Hp & _).
  pose proof (Hn kk f rest Ho Hp). pose proof (cb_of_is_cb ev f Hcb). congruence.
Qed.

Lemma wc_due_send c o c' d k p : send_of c o = Some (d, k, p) ->
  (wc_due c o c' = true <->
   has_wc c = true /\ outb c = [] /\ writing c = false /\ taken (effective c k) (length d) = Some (length d)).
Proof.
  intros Hs. unfold wc_due. rewrite Hs. split.
  - intros H. apply andb_prop in H as [Hw H]. apply andb_prop in H as [H Ht]. apply andb_prop in H as [H1 H2].
    apply negb_true_iff in H1. apply length_zero_iff in H2.
    destruct (taken (effective c k) (length d)) as [n|]; [|discriminate]. apply Nat.eqb_eq in Ht. subst. auto.
  - intros (-> & -> & -> & ->). cbn. apply Nat.eqb_refl.
Qed.

Lemma hw_due_send c o c' d k p : send_of c o = Some (d, k, p) ->
  (hw_due c o c' = true <->
   has_hwm c = true /\ (N.of_nat (length (outb c)) < hwm c <= N.of_nat (length (outb c')))%N).
Proof.
  intros Hs. unfold hw_due. rewrite Hs. split.
  - intros H. apply andb_prop in H as [Hw H]. apply andb_prop in H as [H1 H2].
    apply N.ltb_lt in H1. apply N.leb_le in H2. auto.
  - intros (-> & H1 & H2). apply N.ltb_lt in H1. apply N.leb_le in H2. rewrite H1, H2. reflexivity.
Qed.

Lemma app_one_inj {A} (p : list A) x y : p ++ [x] = p ++ [y] -> x = y.
Proof. intros H. apply app_inv_head in H. congruence. Qed.

(* one step: the callbacks that ran, followed by those queued afterwards, are those queued
   before followed by what the property text prescribes for this step *)
Lemma step_callbacks c o c1 e1 : step c o = Ok (c1, e1) ->
  cb_events e1 ++ cbs (pending c1) = cbs (pending c) ++ cb_due (c, o, c1).
Proof.
  intros H. unfold cb_due, pre, opx, post. cbn [fst snd].
  destruct (send_of c o) as [[[d k] p]|] eqn:Es.
  - (* a sendInLoop *)
    rewrite (step_no_cb_event c o c1 e1 H) by (intros; eapply send_of_head; eassumption).
    rewrite (send_of_cbs c o d k p Es). cbn [app].
    destruct (send_queues c o c1 e1 d k p H Es) as (H3 & Hwc & Hhw).
    pose proof (wc_due_send c o c1 d k p Es) as Dwc. pose proof (hw_due_send c o c1 d k p Es) as Dhw.
    destruct H3 as [Hp|[Hp|[n Hp]]].
    + assert (Ew : wc_due c o c1 = false).
      { destruct (wc_due c o c1); [|reflexivity]. exfalso.
        assert (Hx : pending c1 = p ++ [FWriteComplete]) by (apply Hwc, Dwc; reflexivity).
        rewrite Hp in Hx. symmetry in Hx. apply app_one_neq in Hx. exact Hx. }
      assert (Eh : hw_due c o c1 = false).
      { destruct (hw_due c o c1); [|reflexivity]. exfalso.
        destruct (proj1 Dhw eq_refl) as [Hh Hr].
        assert (Hx : pending c1 = p ++ [FHighWater (length (outb c1))]) by (apply Hhw; auto).
        rewrite Hp in Hx. symmetry in Hx. apply app_one_neq in Hx. exact Hx. }
      rewrite Ew, Eh, Hp, app_nil_r. reflexivity.
    + assert (Ew : wc_due c o c1 = true) by (apply Dwc, Hwc, Hp).
      assert (Eh : hw_due c o c1 = false).
      { destruct (hw_due c o c1); [|reflexivity]. exfalso.
        destruct (proj1 Dhw eq_refl) as [Hh Hr].
        assert (Hx : pending c1 = p ++ [FHighWater (length (outb c1))]) by (apply Hhw; auto).
        rewrite Hp in Hx. apply app_one_inj in Hx. discriminate. }
      rewrite Ew, Eh, Hp, cbs_app. reflexivity.
    + destruct (proj1 (Hhw n) Hp) as (Hh & Hr & ->).
      assert (Eh : hw_due c o c1 = true) by (apply Dhw; auto).
      assert (Ew : wc_due c o c1 = false).
      { destruct (wc_due c o c1); [|reflexivity]. exfalso.
        assert (Hx : pending c1 = p ++ [FWriteComplete]) by (apply Hwc, Dwc; reflexivity).
        rewrite Hp in Hx. apply app_one_inj in Hx. discriminate. }
      rewrite Ew, Eh, Hp, cbs_app. reflexivity.
  - unfold hw_due. rewrite Es, andb_false_r. rewrite app_nil_r.
    destruct (match o with EvWritable _ => true | _ => false end) eqn:Eo.
    + (* a writability event *)
      destruct o; try discriminate Eo.
      rewrite (step_no_cb_event c _ c1 e1 H) by (intros; discriminate). cbn [app].
      destruct (drain_queues c k c1 e1 H) as (H2 & Hwc).
      unfold wc_due. rewrite Es.
      destruct H2 as [Hp|Hp].
      * assert (Ew : (has_wc c && (negb (length (outb c) =? 0) && (length (outb c1) =? 0)))%bool = false).
        { destruct (has_wc c && (negb (length (outb c) =? 0) && (length (outb c1) =? 0)))%bool eqn:E; [|reflexivity].
          exfalso. apply andb_prop in E as [E1 E]. apply andb_prop in E as [E2 E3].
          apply negb_true_iff, length_zero_false in E2. apply length_zero_iff in E3.
          (* with write interest off the event changes nothing, so the backlog cannot have become empty *)
          destruct (writing c) eqn:Ew.
          - assert (Hx : pending c1 = pending c ++ [FWriteComplete]) by (apply Hwc; auto).
            rewrite Hp in Hx. symmetry in Hx. apply app_one_neq in Hx. exact Hx.
          - unfold step in H. cbn [user_op andb] in H. destruct (registered c); [|discriminate].
            unfold ok, handleWrite in H. rewrite Ew in H. injection H as <- _. contradiction. }
        rewrite Ew, Hp, app_nil_r. reflexivity.
      * destruct (proj1 Hwc Hp) as (Hh & Hw & Ho & Ho').
        apply length_zero_false in Ho. apply length_zero_iff in Ho'.
        rewrite Hh, Ho, Ho', Hp, cbs_app. reflexivity.
    + (* any other step *)
      assert (Ew : wc_due c o c1 = false).
      { unfold wc_due. rewrite Es. destruct o; try discriminate Eo; apply andb_false_r. }
      rewrite Ew, app_nil_r.
      assert (Hnw : forall k, o <> EvWritable k) by (intros k ->; discriminate Eo).
      rewrite (step_cbs_frame c o c1 e1 H Es Hnw). unfold base.
      destruct o; try (rewrite (step_no_cb_event c _ c1 e1 H) by (intros; discriminate); reflexivity).
      (* RunOne *)
      destruct (pending c) as [|f rest] eqn:Ep.
      { rewrite (step_no_cb_event c _ c1 e1 H) by (intros ? ? ? _ Hx; rewrite Ep in Hx; discriminate). reflexivity. }
      cbn [tl]. destruct (is_cb f) eqn:Ef.
      * destruct f; try discriminate Ef.
        -- rewrite (runone_wc c k rest Ep) in H. injection H as _ <-. reflexivity.
        -- rewrite (runone_hwm c k n rest Ep) in H. injection H as _ <-. reflexivity.
      * rewrite (step_no_cb_event c _ c1 e1 H).
        -- unfold cbs. cbn [filter]. rewrite Ef. reflexivity.
        -- intros kk f' rest' _ Hx. rewrite Ep in Hx. injection Hx as <- _. exact Ef.
Qed.

Lemma run_callbacks ops : forall c c' e, run c ops = Ok (c', e) ->
  cb_events e ++ cbs (pending c') = cbs (pending c) ++ flat_map cb_due (trace c ops).
Proof.
  induction ops as [|o ops IH]; intros c c' e H.
  - cbn in H. injection H as <- <-. cbn. rewrite app_nil_r. reflexivity.
  - apply run_cons in H as (c1 & e1 & e2 & H1 & H2 & ->).
    rewrite (trace_cons c o ops c1 e1 H1). cbn [flat_map].
    rewrite cb_events_app, <- app_assoc, (IH c1 c' e2 H2), !app_assoc, (step_callbacks c o c1 e1 H1).
    reflexivity.
Qed.

(* C13 over a whole history: the write-complete / high-water callbacks that have run (in order,
   with their arguments), followed by those still waiting in the loop's task queue, are exactly
   the ones the property text prescribes for the steps of the history, in step order: one
   write-complete per emptied backlog, one high-water per upward crossing carrying the resulting
   backlog, nothing else, nothing missing, nothing repeated *)
Theorem callbacks_trace : forall mark wc hw ops c e,
  run (init mark wc hw) ops = Ok (c, e) ->
  cb_events e ++ cbs (pending c) = flat_map cb_due (trace (init mark wc hw) ops).
Proof. intros mark wc hw ops c e H. apply (run_callbacks ops _ _ _ H). Qed.

(* never without a preceding send(): a history in which no sendInLoop ran has no notification *)
Lemma no_send_no_due ops : forall c c' e, Inv c -> accepted c = [] -> run c ops = Ok (c', e) ->
  (forall x, In x (trace c ops) -> send_of (pre x) (opx x) = None) ->
  flat_map cb_due (trace c ops) = [].
Proof.
  induction ops as [|o ops IH]; intros c c' e HI Ha H Hn; [reflexivity|].
  apply run_cons in H as (c1 & e1 & e2 & H1 & H2 & ->).
  rewrite (trace_cons c o ops c1 e1 H1) in *. cbn [flat_map].
  assert (Hs : send_of c o = None) by (apply (Hn (c, o, c1)); left; reflexivity).
  assert (Ho : outb c = []).
  { pose proof (i_stream c HI) as Hx. rewrite Ha in Hx. apply app_eq_nil in Hx. tauto. }
  assert (Ha1 : accepted c1 = []).
  { rewrite (step_accepted c o c1 e1 H1), Ha. unfold block_taken. rewrite Hs. reflexivity. }
  rewrite (IH c1 c' e2 (step_inv c o c1 e1 HI H1) Ha1 H2) by (intros x Hx; apply Hn; right; exact Hx).
  rewrite app_nil_r. unfold cb_due, wc_due, hw_due, pre, opx, post. cbn [fst snd]. rewrite Hs, Ho.
  rewrite andb_false_r. destruct o; cbn; rewrite ?andb_false_r; reflexivity.
Qed.

Theorem no_callback_without_send : forall mark wc hw ops c e,
  run (init mark wc hw) ops = Ok (c, e) ->
  (forall x, In x (trace (init mark wc hw) ops) -> send_of (pre x) (opx x) = None) ->
  cb_events e = [] /\ cbs (pending c) = [].
Proof.
  intros mark wc hw ops c e H Hn.
  pose proof (callbacks_trace mark wc hw ops c e H) as Hc.
  rewrite (no_send_no_due ops _ c e (init_inv mark wc hw) eq_refl H Hn) in Hc.
  apply app_eq_nil in Hc. exact Hc.
Qed.

(* ---- C03: a forced close takes effect without any peer event ------------------------------- *)
Lemma runone_not_rejected c k : step c (RunOne k) <> Rejected.
Proof.
  unfold step. cbn [user_op andb]. destruct (pending c) as [|f rest]; [discriminate|].
  destruct f; unfold run_functor, ok; try discriminate.
  - destruct (sendInLoop (set_pending c rest) d k). discriminate.
  - rewrite connectDestroyed_nf. destruct (negb (registered (set_pending c rest))); [discriminate|].
    destruct (closable (set_pending c rest)); [discriminate|].
    destruct (writing (set_pending c rest) || rd_chan (set_pending c rest))%bool; discriminate.
Qed.

Lemma runone_ok c k : Inv c -> exists c' e, step c (RunOne k) = Ok (c', e) /\ Inv c'.
Proof.
  intros HI. destruct (step c (RunOne k)) as [[c' e]| |] eqn:E.
  - eexists _, _. split; [reflexivity|]. eapply step_inv; eassumption.
  - exfalso. eapply runone_not_rejected, E.
  - exfalso. eapply no_fault; eassumption.
Qed.

Lemma runone_pops c k f rest c' e : step c (RunOne k) = Ok (c', e) -> pending c = f :: rest ->
  exists extra, pending c' = rest ++ extra.
Proof.
  intros H Hp. unfold step in H. cbn [user_op andb] in H. rewrite Hp in H.
  destruct f; [rewrite runone_send_nf in H | unfold run_functor in H ..];
    unfold ok, forceCloseInLoop in H;
    rewrite ?connectDestroyed_nf in H;
    unfold shutdownInLoop, handleClose, startReadInLoop, stopReadInLoop in H; cbv zeta in H; projs';
    brk H; injection H as <- _; projs'; eauto using app_nil_r.
  all: try (exists []; symmetry; apply app_nil_r).
Qed.

Lemma step_disconnected_stays c o c' e : step c o = Ok (c', e) -> st c = Disconnected -> st c' = Disconnected.
Proof.
  intros H Hs. step_cases H; auto; st_norm; try congruence.
  all: try (unfold closable in *; rewrite Hs in *; cbn in *; discriminate).
Qed.

Lemma run_disconnected_stays ops : forall c c' e, run c ops = Ok (c', e) -> st c = Disconnected -> st c' = Disconnected.
Proof.
  induction ops as [|o ops IH]; intros c c' e H Hs.
  - cbn in H. injection H as <- _. exact Hs.
  - apply run_cons in H as (c1 & e1 & e2 & H1 & H2 & _).
    apply (IH c1 c' e2 H2). eapply step_disconnected_stays; eassumption.
Qed.

Lemma run_runone_ok ks : forall c, Inv c -> exists c' e, run c (map RunOne ks) = Ok (c', e) /\ Inv c'.
Proof.
  induction ks as [|k ks IH]; intros c HI.
  - exists c, []. split; [reflexivity|exact HI].
  - destruct (runone_ok c k HI) as (c1 & e1 & H1 & HI1).
    destruct (IH c1 HI1) as (c2 & e2 & H2 & HI2).
    exists c2, (e1 ++ e2). split; [|exact HI2]. cbn [map run]. rewrite H1, H2. reflexivity.
Qed.

Lemma force_close_reached n : forall c ks c' e pre0 post0,
  Inv c -> pending c = pre0 ++ FForceClose :: post0 -> length pre0 = n -> length ks = S n ->
  run c (map RunOne ks) = Ok (c', e) -> st c' = Disconnected.
Proof.
  induction n as [|n IH]; intros c ks c' e pre0 post0 HI Hp Hl Hk H.
  - destruct pre0; [|discriminate]. cbn [app] in Hp.
    destruct ks as [|k [|k2 ks]]; try discriminate. cbn [map] in H.
    apply run_cons in H as (c1 & e1 & e2 & H1 & H2 & _). cbn in H2. injection H2 as <- _.
    destruct (st c) eqn:Es.
    + exfalso. eapply inv_pending_not_connecting; [exact HI| |exact Es]. rewrite Hp. discriminate.
    + destruct (force_close_runs c k post0 HI Hp (or_introl Es)) as (cx & Hx & Hd & _). congruence.
    + destruct (force_close_runs c k post0 HI Hp (or_intror Es)) as (cx & Hx & Hd & _). congruence.
    + rewrite (force_close_late c k post0 Hp Es) in H1. injection H1 as <- _. exact Es.
  - destruct pre0 as [|f pre1]; [discriminate|]. cbn [app] in Hp. injection Hl as Hl.
    destruct ks as [|k ks]; [discriminate|]. injection Hk as Hk. cbn [map] in H.
    apply run_cons in H as (c1 & e1 & e2 & H1 & H2 & _).
    destruct (runone_pops c k f _ c1 e1 H1 Hp) as [extra Hp1].
    rewrite <- app_assoc in Hp1. cbn [app] in Hp1.
    eapply (IH c1 ks c' e2 pre1 (post0 ++ extra)); eauto using step_inv.
Qed.

(* forceClose() - immediately, or when the timer of forceCloseWithDelay() fires - on a connection
   that is up: once the loop has run the tasks queued up to then (as many RunOne steps as there
   are functors in the queue, whatever the kernel answers, WITHOUT any event from the peer) the
   connection is Disconnected and exactly one DOWN has been delivered in those steps *)
Theorem force_close_effective : forall c, reach c -> st c = Connected \/ st c = Disconnecting ->
  forall o c1 e1, o = ForceClose \/ o = DelayFire -> step c o = Ok (c1, e1) ->
  e1 = [] /\
  forall ks, length ks = length (pending c1) ->
  exists c2 e2, run c1 (map RunOne ks) = Ok (c2, e2) /\
    st c2 = Disconnected /\ downs c2 = 1 /\ count is_down e2 = 1 /\ count is_up e2 = 0.
Proof.
  intros c Hr Hup o c1 e1 Ho H1.
  pose proof (reach_inv c Hr) as HI.
  assert (Hx : e1 = [] /\ pending c1 = pending c ++ [FForceClose]).
  { destruct Ho as [-> | ->].
    - rewrite (force_close_up c Hup) in H1. injection H1 as <- <-. auto.
    - destruct (delayed c) as [|n] eqn:Ed.
      + rewrite step_DelayFire, Ed in H1. discriminate.
      + rewrite (delay_fire_up c n Hup Ed) in H1. injection H1 as <- <-. auto. }
  destruct Hx as [-> Hp]. split; [reflexivity|]. intros ks Hk.
  pose proof (step_inv c o c1 [] HI H1) as HI1.
  destruct (run_runone_ok ks c1 HI1) as (c2 & e2 & H2 & HI2). exists c2, e2. split; [exact H2|].
  assert (Hd : st c2 = Disconnected).
  { eapply (force_close_reached (length (pending c)) c1 ks c2 e2 (pending c) []); eauto.
    rewrite Hk, Hp, app_length. cbn. lia. }
  pose proof (i_updown c2 HI2) as Hud. rewrite Hd in Hud. destruct Hud as [Hu2 Hd2].
  destruct (run_updown _ _ _ _ H2) as [Hu Hdn].
  destruct (step_updown c o c1 [] H1) as [Hu1 Hd1]. cbn in Hu1, Hd1.
  pose proof (i_updown c HI) as Hud0.
  assert (ups c = 1 /\ downs c = 0) as [Hu0 Hd0] by (destruct Hup as [E|E]; rewrite E in Hud0; exact Hud0).
  repeat split; try assumption; lia.
Qed.

(* ---- C03: shutdown() flushes, then half-closes ---------------------------------------------- *)
Lemma up_registered_writing c : Inv c -> up c -> outb c <> [] -> writing c = true /\ registered c = true.
Proof.
  intros HI Hup Ho. split; [|apply (i_reg c HI Hup)].
  rewrite (i_interest c HI Hup). apply negb_true_iff, length_zero_false, Ho.
Qed.

(* shutdown() on the loop thread with an empty backlog half-closes at once; with a backlog it only
   marks the connection; every later writability event then moves bytes from the backlog to the
   wire, and the one that empties the backlog issues the half-close in the same step: the peer
   sees every queued byte and only then end-of-stream.  Same for a foreign shutdown() once its
   functor runs. *)
Definition shutdown_flush_spec (c : conn) : Prop :=
  (st c = Connected -> outb c = [] ->
     exists c', step c Shutdown = Ok (c', [EvFin]) /\ fin c' = true /\ st c' = Disconnecting /\
       wire c' = wire c /\ outb c' = []) /\
  (st c = Connected -> outb c <> [] -> step c Shutdown = Ok (set_st c Disconnecting, [])) /\
  (st c = Connected ->
     step c XShutdown = Ok (set_pending (set_st c Disconnecting) (pending c ++ [FShutdown]), [])) /\
  (forall k rest, pending c = FShutdown :: rest -> st c = Disconnecting ->
     (outb c = [] -> exists c', step c (RunOne k) = Ok (c', [EvFin]) /\ fin c' = true /\ wire c' = wire c /\
                                 pending c' = rest) /\
     (outb c <> [] -> step c (RunOne k) = Ok (set_pending c rest, []))) /\
  (st c = Disconnecting -> fin c = false -> outb c <> [] -> forall k n,
     taken k (length (outb c)) = Some n -> 0 < n ->
     exists c' e, step c (EvWritable k) = Ok (c', e) /\
       wire c' = wire c ++ firstn n (outb c) /\ outb c' = skipn n (outb c) /\ st c' = Disconnecting /\
       (n < length (outb c) -> fin c' = false /\ e = [] /\ writing c' = true) /\
       (n = length (outb c) -> fin c' = true /\ e = [EvFin] /\ outb c' = [] /\ writing c' = false)).

Theorem shutdown_flushes_then_fin_inv : forall c, Inv c -> shutdown_flush_spec c.
Proof.
  intros c HI. unfold shutdown_flush_spec. split; [|split; [|split; [|split]]].
  - intros Hs Ho. pose proof (inv_up_writing_false c HI (or_introl Hs) Ho) as Hw.
    unfold step. rewrite Hs. cbn. unfold shutdownInLoop. cbn [set_st writing]. rewrite Hw.
    eexists. split; [reflexivity|]. cbn. auto.
  - intros Hs Ho. destruct (up_registered_writing c HI (or_introl Hs) Ho) as [Hw _].
    unfold step. rewrite Hs. cbn. unfold shutdownInLoop. cbn [set_st writing]. rewrite Hw. reflexivity.
  - intros Hs. unfold step. rewrite Hs. reflexivity.
  - intros k rest Hp Hs. split.
    + intros Ho. pose proof (inv_up_writing_false c HI (or_intror Hs) Ho) as Hw.
      unfold step. cbn [user_op andb]. rewrite Hp. unfold run_functor, ok, shutdownInLoop. cbn [set_pending writing].
      rewrite Hw. eexists. split; [reflexivity|]. cbn. auto.
    + intros Ho. destruct (up_registered_writing c HI (or_intror Hs) Ho) as [Hw _].
      unfold step. cbn [user_op andb]. rewrite Hp. unfold run_functor, ok, shutdownInLoop. cbn [set_pending writing].
      rewrite Hw. reflexivity.
  - intros Hs Hf Ho k n Ht Hn.
    destruct (up_registered_writing c HI (or_intror Hs) Ho) as [Hw Hg].
    unfold step. cbn [user_op andb]. rewrite Hg. unfold ok. rewrite handleWrite_nf.
    assert (Hhn : h_n c k = n) by (unfold h_n, effective; rewrite Hf, Ht; reflexivity).
    assert (Ha : h_act c k = true) by (unfold h_act; rewrite Hw, Hhn; apply Nat.ltb_lt in Hn; rewrite Hn; reflexivity).
    rewrite Ha. eexists _, _. split; [reflexivity|]. projs. rewrite Hhn.
    assert (Hle : n <= length (outb c)).
    { destruct k; cbn [taken] in Ht; try discriminate; injection Ht as <-; lia. }
    split; [reflexivity|]. split; [reflexivity|]. split; [exact Hs|]. split.
    + intros Hlt. assert (He : h_empty c k = false).
      { unfold h_empty. rewrite Hhn. apply Nat.eqb_neq. rewrite skipn_length. lia. }
      unfold h_fin. rewrite He. cbn. auto.
    + intros ->. assert (He : h_empty c k = true).
      { unfold h_empty. rewrite Hhn. apply Nat.eqb_eq. rewrite skipn_length. lia. }
      unfold h_fin. rewrite He, Hs. cbn. repeat split. apply skipn_all2. lia.
Qed.

Theorem shutdown_flushes_then_fin : forall c, reach c -> shutdown_flush_spec c.
Proof. intros c Hr. apply shutdown_flushes_then_fin_inv, reach_inv, Hr. Qed.

(* ---- C03: after the half-close of a connection that is up everything taken is on the wire --- *)
Theorem fin_all_on_wire : forall mark wc hw ops c e,
  run (init mark wc hw) ops = Ok (c, e) -> fin c = true -> st c = Connected \/ st c = Disconnecting ->
  outb c = [] /\ writing c = false /\ st c = Disconnecting /\
  wire c = flat_map step_block (trace (init mark wc hw) ops).
Proof.
  intros mark wc hw ops c e H Hf Hup.
  assert (HI : Inv c) by (eapply run_inv; [apply init_inv|exact H]).
  destruct (i_fin c HI Hf) as [Hnc Ho]. specialize (Ho Hup).
  split; [exact Ho|]. split; [apply inv_up_writing_false; assumption|]. split.
  - destruct Hup as [E|E]; [contradiction|exact E].
  - rewrite <- (outbound_trace mark wc hw ops c e H), Ho, app_nil_r. reflexivity.
Qed.

(* ---- the definitions used in the Properties files, unfolded (quoted there next to the
   theorems that use them, so that a reader sees what is claimed) ------------------------------ *)
Lemma trace_unfold : forall c ops,
  trace c ops = match ops with
                | [] => []
                | o :: r => match step c o with
                            | Ok (c1, _) => (c, o, c1) :: trace c1 r
                            | _ => []
                            end
                end.
Proof. intros c [|o r]; reflexivity. Qed.

Lemma step_block_unfold : forall c o c',
  step_block (c, o, c') =
  match send_of c o with
  | Some (d, k, _) => if send_fatal c k then [] else d
  | None => []
  end.
Proof. reflexivity. Qed.

Lemma block_taken_unfold : forall c o,
  block_taken c o =
  match send_of c o with
  | Some (d, k, _) => if send_fatal c k then [] else d
  | None => []
  end.
Proof. reflexivity. Qed.

Lemma send_of_unfold : forall c o,
  send_of c o =
  match o with
  | Send d k => if cstate_eqb (st c) Connected then Some (d, k, pending c) else None
  | RunOne k =>
      match pending c with
      | FSend _ d :: rest => if cstate_eqb (st c) Disconnected then None else Some (d, k, rest)
      | _ => None
      end
  | _ => None
  end.
Proof. reflexivity. Qed.

Lemma step_enq_ran_unfold : forall c o c',
  step_enq (c, o, c') = match o with
                        | FSendEnq t d => if lookup t (chk c) then [(t, d)] else []
                        | _ => []
                        end /\
  step_ran (c, o, c') = match o with
                        | RunOne _ => match pending c with FSend t d :: _ => [(t, d)] | _ => [] end
                        | _ => []
                        end.
Proof. split; reflexivity. Qed.

Lemma enq_ran_of_unfold : forall c o,
  enq_of c o = match o with
               | FSendEnq t d => if lookup t (chk c) then [(t, d)] else []
               | _ => []
               end /\
  ran_of c o = match o with
               | RunOne _ => match pending c with FSend t d :: _ => [(t, d)] | _ => [] end
               | _ => []
               end.
Proof. split; reflexivity. Qed.

Lemma sends_of_unfold : forall l,
  sends_of l = flat_map (fun f => match f with FSend t d => [(t, d)] | _ => [] end) l.
Proof. reflexivity. Qed.

Lemma read_of_unfold : forall o,
  read_of o = (match o with EvReadData d => d | _ => [] end) /\
  is_read o = (match o with EvReadData _ => true | _ => false end).
Proof. split; reflexivity. Qed.

Lemma is_msg_unfold : forall ev, is_msg ev = match ev with EvMsg _ => true | _ => false end.
Proof. reflexivity. Qed.

Lemma pause_op_unfold : forall c o,
  pause_op c o =
  match o with
  | StartRead | StopRead | XStartRead | XStopRead => true
  | RunOne _ => match pending c with (FStartRead | FStopRead) :: _ => true | _ => false end
  | _ => false
  end.
Proof. reflexivity. Qed.

Lemma nonfatal_unfold : forall k,
  nonfatal k = match k with Err e => is_fatal e = false | _ => True end.
Proof. reflexivity. Qed.

Lemma f6_ops_unfold : forall d,
  f6_ops d = [Establish; FSendCheck 1; FSendEnq 1 d; Shutdown; RunOne AcceptAll].
Proof. reflexivity. Qed.

Lemma shut_op_unfold : forall c o,
  shut_op c o =
  match o with
  | Shutdown | XShutdown => true
  | RunOne _ => match pending c with FShutdown :: _ => true | _ => false end
  | _ => false
  end.
Proof. reflexivity. Qed.

Lemma count_unfold : forall f e, count f e = length (filter f e).
Proof. reflexivity. Qed.

Lemma is_up_down_unfold : forall ev,
  is_up ev = (match ev with EvUp => true | _ => false end) /\
  is_down ev = (match ev with EvDown => true | _ => false end).
Proof. split; reflexivity. Qed.

Lemma set_aux_unfold : forall c ch n,
  set_aux c ch n =
  mkConn (st c) (outb c) (inb c) (writing c) (rd_chan c) (rd_flag c) (registered c) (hwm c) (has_wc c)
         (has_hwm c) (wire c) (fin c) (pending c) ch n (accepted c) (consumed c) (delivered c)
         (enq c) (ran c) (ups c) (downs c).
Proof. reflexivity. Qed.

Lemma cbs_unfold : forall l,
  cbs l = filter (fun f => match f with FWriteComplete | FHighWater _ => true | _ => false end) l.
Proof. reflexivity. Qed.

Lemma cb_of_unfold : forall ev,
  cb_of ev = match ev with
             | EvWC => Some FWriteComplete
             | EvHWM n => Some (FHighWater n)
             | _ => None
             end.
Proof. reflexivity. Qed.

Lemma cb_events_unfold : forall e,
  cb_events e = flat_map (fun ev => match ev with
                                    | EvWC => [FWriteComplete]
                                    | EvHWM n => [FHighWater n]
                                    | _ => []
                                    end) e.
Proof.
  intros e. unfold cb_events. induction e as [|ev e IH]; [reflexivity|].
  cbn [flat_map]. rewrite IH. destruct ev; reflexivity.
Qed.

Lemma cb_due_unfold : forall c o c',
  cb_due (c, o, c') =
  (if wc_due c o c' then [FWriteComplete] else []) ++
  (if hw_due c o c' then [FHighWater (length (outb c'))] else []).
Proof. reflexivity. Qed.

Lemma wc_due_unfold : forall c o c',
  wc_due c o c' =
  (has_wc c &&
   match send_of c o with
   | Some (d, k, _) =>
       negb (writing c) && (length (outb c) =? 0) &&
       match taken (effective c k) (length d) with Some n => n =? length d | None => false end
   | None =>
       match o with
       | EvWritable _ => negb (length (outb c) =? 0) && (length (outb c') =? 0)
       | _ => false
       end
   end)%bool.
Proof. reflexivity. Qed.

Lemma hw_due_unfold : forall c o c',
  hw_due c o c' =
  (has_hwm c &&
   match send_of c o with
   | Some _ => (N.of_nat (length (outb c)) <? hwm c)%N && (hwm c <=? N.of_nat (length (outb c')))%N
   | None => false
   end)%bool.
Proof. reflexivity. Qed.

Lemma pre_opx_post_unfold : forall c o c', pre (c, o, c') = c /\ opx (c, o, c') = o /\ post (c, o, c') = c'.
Proof. repeat split. Qed.

(* F-6, second way: the drain path half-closes while a foreign block is still queued *)
Lemma f6_drain_path_witness :
  exists c e, run (init 1024%N true true)
                  [Establish; Send [x61; x62; x63; x64] (Accept 1); FSendCheck 1; FSendEnq 1 [x65; x66];
                   Shutdown; EvWritable AcceptAll; RunOne AcceptAll; RunOne AcceptAll]
              = Ok (c, e) /\
    enq c = [(1, [x65; x66])] /\ ran c = [(1, [x65; x66])] /\
    wire c = [x61; x62; x63; x64] /\ outb c = [] /\ accepted c = [x61; x62; x63; x64] /\
    fin c = true /\ st c = Disconnecting /\ e = [EvUp; EvFin; EvErrorLogged; EvWC].
Proof. vm_compute. eexists _, _. repeat split. Qed.
