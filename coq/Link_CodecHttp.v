(* Link_CodecHttp (L3, HTTP instance): HttpContext::parseRequest as the message callback of a
   connection.  The generic theorem of Link_CodecConn instantiated with C18's line-at-a-time step
   [hstep], which C18 proves equal to the literal parser loop (http_feed) on live parser states,
   and composed with C18's reference (ref_http: cut the whole stream into CRLF lines, run the
   request grammar over the lines).

   Names used from other owners' files (read-only):
     C18_Model     : hstep hctx hevent ctx0 h_state http_init http_feed_all find_crlf processRequestLine
                     find_byte sres dstate
     C18_HttpProofs: http_feed_all_eq live_ctx0        C18_HttpRef: ref_http http_equals_reference *)
From Coq Require Import List ZArith Lia Bool Arith NArith.
From Coq.Strings Require Import Byte.
From Muduo Require C18_Model C18_HttpProofs C18_HttpRef.
From Muduo Require Import Conn_Model Conn_Proofs Link_CodecConn.
Import ListNotations.

Module DH := Muduo.C18_HttpProofs.
Module DR := Muduo.C18_HttpRef.

Lemma hstep_suffix : forall s b evs s' r, D.hstep s b = D.SEmit evs s' r -> exists n, r = skipn n b.
Proof.
  intros s b evs s' r H. unfold D.hstep in H.
  destruct (D.h_state s); try discriminate; destruct (D.find_crlf b) as [i|]; try discriminate.
  - destruct (D.processRequestLine (firstn i b) (D.h_req s)); [|discriminate].
    injection H as _ _ <-. eexists; reflexivity.
  - destruct (D.find_byte D.COLON (firstn i b)); injection H as _ _ <-; eexists; reflexivity.
Qed.

(* HEADLINE (HTTP).  Whatever way the kernel splits the peer's byte stream into reads, whatever
   else happens on the connection: the requests (and the 400, if any) the parser has produced, its
   state, the abandoned flag and the unconsumed input buffer are those of C18's literal chunk-fed
   parser on the reads, i.e. the reference parse of the byte stream received so far. *)
Theorem http_on_connection mark wc hw ops k e v : forallb kop_wf ops = true ->
  k_run D.hctx D.hevent D.hstep (mkK (init mark wc hw) D.ctx0 false false) ops = Ok (k, e, v) ->
  let s := delivered (k_conn k) in
  s = concat (chunks_of ops) /\
  consumed (k_conn k) ++ inb (k_conn k) = s /\
  (v, D.mkD (k_dst k) (inb (k_conn k)) (k_ab k) (k_oof k)) = D.http_feed_all D.http_init (chunks_of ops) /\
  (v, D.mkD (k_dst k) (inb (k_conn k)) (k_ab k) (k_oof k)) = DR.ref_http s.
Proof.
  intros Hwf H s.
  destruct (decoder_on_connection D.hctx D.hevent D.hstep hstep_suffix D.ctx0 mark wc hw ops k e v Hwf H) as [Hf Hd].
  split; [exact Hd|]. split.
  - pose proof (k_run_is_conn_run D.hctx D.hevent D.hstep ops _ _ _ _ H) as Hr.
    cbn [k_conn] in Hr. apply (i_inbound (k_conn k)). eapply run_inv; [apply init_inv|exact Hr].
  - assert (E : (v, D.mkD (k_dst k) (inb (k_conn k)) (k_ab k) (k_oof k)) = D.http_feed_all D.http_init (chunks_of ops)).
    { rewrite Hf. symmetry. exact (DH.http_feed_all_eq (chunks_of ops) D.http_init DH.live_ctx0). }
    split; [exact E|]. rewrite E. unfold s. rewrite Hd. apply DR.http_equals_reference.
Qed.
