(* C05_PoolProofs: EventLoopThreadPool::getNextLoop / getLoopForHash for ALL pool sizes N, all
   call sequences (any interleaving of getNextLoop and getLoopForHash calls), by induction. *)
From Coq Require Import List Bool Arith Lia.
Import ListNotations.
From Muduo Require Import C05_Model.

(* the three tests of EventLoopThreadPool.cc, as functions *)
Definition pshape_ok (ps : pshape) : Prop :=
  (forall n, p_nonempty ps n = negb (n =? 0)) /\
  (forall a n, p_wrap ps a n = (n <=? a)) /\
  (forall h n, p_hash ps h n = h mod n).

Lemma pinned_pshape_ok : pshape_ok pinned_pshape.
Proof. repeat split. Qed.

(* specification: c counts the getNextLoop calls made so far (never wrapped) *)
Fixpoint pool_spec (n c : nat) (ops : list pop) : list (option nat) :=
  match ops with
  | [] => []
  | PNext :: r => Some (c mod n) :: pool_spec n (S c) r
  | PHash h :: r => Some (h mod n) :: pool_spec n c r
  end.
Definition count_next (ops : list pop) : nat :=
  length (filter (fun o => match o with PNext => true | _ => false end) ops).

Lemma wrap_is_mod : forall a n, 0 < n -> a < n -> (if n <=? S a then 0 else S a) = S a mod n.
Proof.
  intros a n Hn Ha. destruct (Nat.leb_spec n (S a)).
  - assert (S a = n) by lia. subst. rewrite Nat.mod_same; lia.
  - rewrite Nat.mod_small; lia.
Qed.

Lemma get_next_spec : forall ps n c, pshape_ok ps -> 0 < n ->
  get_next ps n (c mod n) = (Some (c mod n), S c mod n).
Proof.
  intros ps n c (NE & WR & _) Hn. unfold get_next. rewrite NE, WR.
  replace (n =? 0) with false by (symmetry; apply Nat.eqb_neq; lia). cbn [negb].
  assert (L : c mod n < n) by (apply Nat.mod_upper_bound; lia).
  rewrite wrap_is_mod by assumption. f_equal.
  replace (S (c mod n)) with (1 + c mod n) by lia. replace (S c) with (1 + c) by lia.
  rewrite Nat.add_mod_idemp_r by lia. reflexivity.
Qed.

Lemma get_hash_spec : forall ps n h, pshape_ok ps -> 0 < n -> get_hash ps n h = Some (h mod n).
Proof.
  intros ps n h (NE & _ & HS) Hn. unfold get_hash. rewrite NE, HS.
  replace (n =? 0) with false by (symmetry; apply Nat.eqb_neq; lia). reflexivity.
Qed.

(* every call sequence: results as specified, cursor = number of getNextLoop calls mod N,
   getLoopForHash never moves the cursor *)
Theorem pool_run_spec : forall ps n, pshape_ok ps -> 0 < n -> forall ops c,
  pool_run ps n (c mod n) ops = (pool_spec n c ops, (c + count_next ops) mod n).
Proof.
  intros ps n OK Hn. induction ops as [|o r IH]; intros c.
  - cbn. rewrite Nat.add_0_r. reflexivity.
  - destruct o as [|h]; cbn [pool_run pool_spec].
    + rewrite (get_next_spec ps n c OK Hn). rewrite (IH (S c)).
      replace (c + count_next (PNext :: r)) with (S c + count_next r) by (unfold count_next; cbn; lia).
      reflexivity.
    + rewrite (IH c). rewrite (get_hash_spec ps n h OK Hn). reflexivity.
Qed.

(* N = 0: every call returns the base loop, nothing changes *)
Theorem pool_run_empty : forall ps, pshape_ok ps -> forall ops next,
  pool_run ps 0 next ops = (map (fun _ => None) ops, next).
Proof.
  intros ps (NE & _ & _). induction ops as [|o r IH]; intros next; [reflexivity|].
  destruct o as [|h]; cbn [pool_run map]; unfold get_next, get_hash; rewrite NE; cbn; rewrite IH; reflexivity.
Qed.

(* strict round-robin: the (i+1)-th of k consecutive getNextLoop calls on a fresh pool returns loop i mod N *)
Lemma pool_spec_repeat : forall n k c i, i < k -> nth i (pool_spec n c (repeat PNext k)) None = Some ((c + i) mod n).
Proof.
  induction k as [|k IH]; intros c i Hi; [lia|]. cbn. destruct i as [|i].
  - rewrite Nat.add_0_r. reflexivity.
  - rewrite IH by lia. f_equal. f_equal. lia.
Qed.

Theorem round_robin : forall ps n k i, pshape_ok ps -> 0 < n -> i < k ->
  nth i (fst (pool_run ps n 0 (repeat PNext k))) None = Some (i mod n).
Proof.
  intros ps n k i OK Hn Hi.
  pose proof (pool_run_spec ps n OK Hn (repeat PNext k) 0) as E.
  rewrite Nat.mod_0_l in E by lia. rewrite E. cbn [fst]. rewrite pool_spec_repeat by exact Hi. reflexivity.
Qed.

(* any N consecutive getNextLoop calls (from any cursor position) return N distinct loops,
   all of them among the N loops of the pool *)
Lemma mod_inj : forall c i j n, 0 < n -> i < n -> j < n -> (c + i) mod n = (c + j) mod n -> i = j.
Proof.
  intros c i j n Hn Hi Hj E.
  pose proof (Nat.div_mod (c + i) n ltac:(lia)) as A. pose proof (Nat.div_mod (c + j) n ltac:(lia)) as B.
  rewrite E in A. set (q1 := (c + i) / n) in *. set (q2 := (c + j) / n) in *. set (r := (c + j) mod n) in *.
  assert (q1 = q2) by nia. subst. nia.
Qed.

Lemma NoDup_map_inj_seq : forall (f : nat -> nat) n,
  (forall i j, i < n -> j < n -> f i = f j -> i = j) -> NoDup (map f (seq 0 n)).
Proof.
  intros f n INJ.
  assert (G : forall k s, (forall i j, s <= i < s + k -> s <= j < s + k -> f i = f j -> i = j) -> NoDup (map f (seq s k))).
  { induction k as [|k IH]; intros s H; cbn; constructor.
    - intros I. apply in_map_iff in I as (j & E & J). apply in_seq in J.
      assert (j = s) by (apply H; try lia; exact E). lia.
    - apply IH. intros i j Hi Hj. apply H; lia. }
  apply G. intros i j Hi Hj. apply INJ; lia.
Qed.

Theorem consecutive_distinct : forall n c, 0 < n ->
  NoDup (map (fun i => (c + i) mod n) (seq 0 n)) /\
  (forall i, (c + i) mod n < n).
Proof.
  intros n c Hn. split.
  - apply NoDup_map_inj_seq. intros i j Hi Hj E. eapply mod_inj; eauto.
  - intros i. apply Nat.mod_upper_bound. lia.
Qed.

(* a hash call's result depends on the hash code only: wherever it occurs in whatever sequence *)
Lemma pool_spec_hash : forall n ops c i h, nth_error ops i = Some (PHash h) ->
  nth_error (pool_spec n c ops) i = Some (Some (h mod n)).
Proof.
  induction ops as [|o r IH]; intros c i h H; [destruct i; discriminate|].
  destruct i as [|i]; cbn in H.
  - injection H as ->. reflexivity.
  - destruct o; cbn; eapply IH; eauto.
Qed.

Theorem hash_stable : forall ps n, pshape_ok ps -> 0 < n -> forall ops1 ops2 c1 c2 i1 i2 h,
  nth_error ops1 i1 = Some (PHash h) -> nth_error ops2 i2 = Some (PHash h) ->
  nth_error (fst (pool_run ps n (c1 mod n) ops1)) i1 = Some (Some (h mod n)) /\
  nth_error (fst (pool_run ps n (c2 mod n) ops2)) i2 = Some (Some (h mod n)).
Proof.
  intros ps n OK Hn ops1 ops2 c1 c2 i1 i2 h H1 H2.
  rewrite !pool_run_spec by assumption. cbn [fst]. split; eapply pool_spec_hash; eauto.
Qed.
