(* C16_Reopen: a log file that is opened again is continued, never truncated.
   LogFile::getLogFileName resolves to one second: a logger destroyed and created again with the same basename
   within that second (and a LogFile whose roll is requested twice in one second is guarded against exactly
   this) names the SAME file.  What the file holds after a sequence of sessions on one name depends only on
   the mode AppendFile's constructor passes to fopen, which is regenerated from the current source
   (Gen_C16.AppendFile_opens_in_append_mode).  The model: a session opens the file (append: keeps what is
   there; otherwise: truncates), hands its bytes to it and closes it (C16_close_completes: fclose leaves
   every byte handed to the stream in the file). *)
From Coq Require Import List ZArith.
From Muduo Require Import Gen_C16.
Import ListNotations.

Section Reopen.
  Variable A : Type.

  Definition open_file (append : bool) (old : list A) : list A := if append then old else [].

  (* the file after the sessions ss (each: the bytes one sink object handed to it), starting from content disk *)
  Fixpoint sessions (append : bool) (disk : list A) (ss : list (list A)) : list A :=
    match ss with
    | [] => disk
    | s :: r => sessions append (open_file append disk ++ s) r
    end.

  Lemma sessions_append : forall ss disk, sessions true disk ss = disk ++ concat ss.
  Proof.
    induction ss as [|s r IH]; intros disk; cbn [sessions concat open_file].
    - now rewrite app_nil_r.
    - rewrite IH. now rewrite app_assoc.
  Qed.

  (* the current tree: every session's bytes are in the file, in session order, after what was there before *)
  Lemma sessions_current_tree : forall ss disk,
    sessions AppendFile_opens_in_append_mode disk ss = disk ++ concat ss.
  Proof. intros ss disk. change AppendFile_opens_in_append_mode with true. apply sessions_append. Qed.

  (* truncating mode: only the last session survives *)
  Lemma sessions_truncate : forall ss disk, ss <> [] -> sessions false disk ss = last ss [].
  Proof.
    induction ss as [|s r IH]; intros disk H; [congruence|].
    cbn [sessions open_file app]. destruct r as [|s' r'].
    - reflexivity.
    - rewrite IH by congruence. reflexivity.
  Qed.
End Reopen.

Lemma truncate_loses : exists ss : list (list Z), sessions Z false [] ss <> concat ss.
Proof. exists [[1%Z]; [2%Z]]. cbn. congruence. Qed.
