(* C08_Eval: prints the checker's report on the regenerated summaries (read by lib/props/C08.py).
   No definitions, no proofs; compiled on its own so that it still runs when a proof breaks. *)
From Coq Require Import List String.
From Muduo Require Import C08_Model Gen_C08.
Set Printing Depth 1000000.
Set Printing Width 400.
Eval vm_compute in (render_report table summaries).
